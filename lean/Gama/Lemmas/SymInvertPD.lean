/-
  `SymMat::invert()` on a POSITIVE DEFINITE input: every pivot `a[1]` met by the `n` exchange steps is
  positive, hence the code does not throw (`p < 0` is its only rejection) and — by
  `symInvert_correct` — returns the two-sided inverse.  This discharges the pivot hypothesis
  `hpiv` of `Lemmas/SymInvert.lean`.

  Proof.  `SInv n a0 t a` (SymInvert.lean) says: for every `x`, with `y = A x`, the exchanged vectors
  satisfy `v = T u`, where after `t` steps `u` holds the not yet processed `x`'s and the processed
  `y`'s.  Two more facts travel along the steps:

  * `USurj` — every vector is the `u` of some `x` (initially `u = x`; one exchange with pivot `p ≠ 0`
    replaces `u 1` by `v 1 = p·u 1 + …`, which can be solved for `u 1`);
  * the quadratic form `xᵀ A x = Σ x_i y_i = Σ u_pos v_pos` (the same products, renumbered).

  Take `x` with `u = e₁`: then `xᵀ A x = v 1 = T 1 1 = a[1]`, and `x ≠ 0` because `u 1 = x (t+1) = 1`.
  Positive definiteness gives `0 < a[1]`.
-/
import Gama.Lemmas.SymInvert
namespace Gama.MatVec
open Finset

section PD
variable {K : Type} [Field K] [LinearOrder K] [IsStrictOrderedRing K]

theorem sum_Icc_one {M : Type} [AddCommMonoid M] (f : ℕ → M) (n : ℕ) :
    ∑ r ∈ Icc 1 n, f r = ∑ i ∈ range n, f (i + 1) := by
  rw [Finset.range_eq_Ico, Finset.sum_Ico_add' f 0 n 1]
  rfl

/-- every vector is the exchanged vector `u` of some `x` -/
def USurj (n : Nat) (a0 : Nat → K) (t : Nat) : Prop :=
  ∀ c : Nat → K, ∃ x : Nat → K, ∀ pos, 1 ≤ pos → pos ≤ n → uvec n t x (Ax n a0 x) pos = c pos

theorem USurj_init (n : Nat) (a0 : Nat → K) : USurj n a0 0 := by
  intro c
  refine ⟨c, fun pos h1 h2 => ?_⟩
  unfold uvec
  rw [if_pos (by omega)]
  rfl

/-- one exchange step with a non-zero pivot keeps `u` surjective -/
theorem USurj_step (n' t : Nat) (ht : t < n' + 1) (a0 a : Nat → K) (hp : a 1 ≠ 0)
    (hinv : SInv (n' + 1) a0 t a) (hs : USurj (n' + 1) a0 t) : USurj (n' + 1) a0 (t + 1) := by
  intro c'
  let T := Tf (n' + 1 - t) a
  have hT11 : T 1 1 = a 1 := by
    show Tf (n' + 1 - t) a 1 1 = a 1
    unfold Tf
    rw [if_neg (by omega), Sf_ge _ (Nat.le_refl 1), Tr_one]
  let c : Nat → K := fun pos =>
    if pos = 1 then (c' (n' + 1) - ∑ j ∈ range n', T 1 (j + 2) * c' (j + 1)) / a 1 else c' (pos - 1)
  obtain ⟨x, hx⟩ := hs c
  refine ⟨x, fun pos h1 h2 => ?_⟩
  by_cases hpos : pos ≤ n'
  · -- new position `pos` is old position `pos + 1`
    have e : uvec (n' + 1) (t + 1) x (Ax (n' + 1) a0 x) pos
        = uvec (n' + 1) t x (Ax (n' + 1) a0 x) (pos + 1) := by
      unfold uvec
      split_ifs <;> first | (exfalso; omega) | (congr 1; omega)
    rw [e, hx (pos + 1) (by omega) (by omega)]
    show (if pos + 1 = 1 then _ else c' (pos + 1 - 1)) = c' pos
    rw [if_neg (by omega), Nat.add_sub_cancel]
  · -- new position `n'+1` holds the old `v 1`
    have hpn : pos = n' + 1 := by omega
    subst hpn
    have e : uvec (n' + 1) (t + 1) x (Ax (n' + 1) a0 x) (n' + 1)
        = vvec (n' + 1) t x (Ax (n' + 1) a0 x) 1 := by
      unfold uvec vvec
      rw [if_neg (by omega), if_pos (by omega)]
      congr 1; omega
    rw [e, hinv x 1 (Nat.le_refl 1) (by omega), sum_range_succ']
    have h1 : uvec (n' + 1) t x (Ax (n' + 1) a0 x) (0 + 1) = c 1 := hx 1 (Nat.le_refl 1) (by omega)
    have h2 : ∑ j ∈ range n', Tf (n' + 1 - t) a 1 (j + 1 + 1) * uvec (n' + 1) t x (Ax (n' + 1) a0 x) (j + 1 + 1)
        = ∑ j ∈ range n', T 1 (j + 2) * c' (j + 1) := by
      refine sum_congr rfl (fun j hj => ?_)
      have hj' := mem_range.mp hj
      rw [hx (j + 1 + 1) (by omega) (by omega)]
      show T 1 (j + 2) * (if j + 1 + 1 = 1 then _ else c' (j + 1 + 1 - 1)) = _
      rw [if_neg (by omega), Nat.add_sub_cancel]
    rw [h1, h2]
    show ∑ j ∈ range n', T 1 (j + 2) * c' (j + 1) + T 1 1 * c 1 = c' (n' + 1)
    rw [hT11]
    show _ + a 1 * (if (1 : Nat) = 1 then (c' (n' + 1) - ∑ j ∈ range n', T 1 (j + 2) * c' (j + 1)) / a 1
      else c' (1 - 1)) = _
    rw [if_pos rfl]
    field_simp
    ring

/-- the quadratic form in the exchanged coordinates: `Σ x_i y_i = Σ u_pos v_pos` -/
theorem quad_uv (n t : Nat) (ht : t ≤ n) (x y : Nat → K) :
    ∑ i ∈ range n, x (i + 1) * y (i + 1)
      = ∑ pos ∈ range n, uvec n t x y (pos + 1) * vvec n t x y (pos + 1) := by
  obtain ⟨m, rfl⟩ : ∃ m, n = t + m := ⟨n - t, by omega⟩
  rw [sum_range_add]
  have hR : ∑ pos ∈ range (t + m), uvec (t + m) t x y (pos + 1) * vvec (t + m) t x y (pos + 1)
      = ∑ pos ∈ range (m + t), uvec (t + m) t x y (pos + 1) * vvec (t + m) t x y (pos + 1) := by
    rw [Nat.add_comm]
  rw [hR, sum_range_add, add_comm]
  congr 1
  · refine sum_congr rfl (fun k hk => ?_)
    have hk' := mem_range.mp hk
    unfold uvec vvec
    rw [if_pos (by omega), if_pos (by omega)]
    have : t + k + 1 = k + 1 + t := by omega
    rw [this]
  · refine sum_congr rfl (fun k hk => ?_)
    have hk' := mem_range.mp hk
    unfold uvec vvec
    rw [if_neg (by omega), if_neg (by omega)]
    have : m + k + 1 - (t + m - t) = k + 1 := by omega
    rw [this, mul_comm]

/-- positive definite, in the vocabulary of the invariant: `0 < Σ x_i (A x)_i` for `x ≠ 0` -/
def PDf (n : Nat) (a0 : Nat → K) : Prop :=
  ∀ x : Nat → K, (∃ i, 1 ≤ i ∧ i ≤ n ∧ x i ≠ 0) → 0 < ∑ i ∈ range n, x (i + 1) * Ax n a0 x (i + 1)

/-- **the pivot is positive** -/
theorem pivot_pos (n t : Nat) (ht : t < n) (a0 a : Nat → K) (hinv : SInv n a0 t a)
    (hs : USurj n a0 t) (hpd : PDf n a0) : 0 < a 1 := by
  obtain ⟨x, hx⟩ := hs (fun pos => if pos = 1 then 1 else 0)
  have hne : ∃ i, 1 ≤ i ∧ i ≤ n ∧ x i ≠ 0 := by
    refine ⟨1 + t, by omega, by omega, ?_⟩
    have h1 := hx 1 (Nat.le_refl 1) (by omega)
    unfold uvec at h1
    rw [if_pos (by omega), if_pos rfl] at h1
    rw [h1]; exact one_ne_zero
  have hq := hpd x hne
  rw [quad_uv n t (by omega) x (Ax n a0 x)] at hq
  have hsum : ∑ pos ∈ range n, uvec n t x (Ax n a0 x) (pos + 1) * vvec n t x (Ax n a0 x) (pos + 1)
      = vvec n t x (Ax n a0 x) 1 := by
    rw [sum_eq_single 0]
    · rw [hx (0 + 1) (by omega) (by omega), if_pos rfl, one_mul]
    · intro b hb hb0
      have hb' := mem_range.mp hb
      rw [hx (b + 1) (by omega) (by omega), if_neg (by omega), zero_mul]
    · intro h; exfalso; apply h; rw [mem_range]; omega
  rw [hsum, hinv x 1 (Nat.le_refl 1) (by omega)] at hq
  have hrow : ∑ j ∈ range n, Tf (n - t) a 1 (j + 1) * uvec n t x (Ax n a0 x) (j + 1) = a 1 := by
    rw [sum_eq_single 0]
    · rw [hx (0 + 1) (by omega) (by omega), if_pos rfl, mul_one]
      unfold Tf
      rw [if_neg (by omega), Sf_ge _ (Nat.le_refl 1), Tr_one]
    · intro b hb hb0
      have hb' := mem_range.mp hb
      rw [hx (b + 1) (by omega) (by omega), if_neg (by omega), mul_zero]
    · intro h; exfalso; apply h; rw [mem_range]; omega
  rw [hrow] at hq
  exact hq

/-- all `n` steps run, each with a positive pivot -/
theorem pd_states (n : Nat) (hn : 2 ≤ n) (a : Nat → K) (hpd : PDf n a) :
    ∀ t, t ≤ n → ∃ st, symInvertState n a t = .ok st ∧ SInv n a t st.a ∧ USurj n a t ∧
      (∀ t', t' < t → ∀ st', symInvertState n a t' = .ok st' → 0 < st'.a 1) := by
  intro t
  induction t with
  | zero =>
    intro _
    exact ⟨⟨a, fun _ => 0, 1, 0⟩, rfl, SInv_init n a, USurj_init n a, fun t' h => by omega⟩
  | succ t ih =>
    intro ht
    obtain ⟨st, h1, h2, h3, h4⟩ := ih (by omega)
    have hpos : 0 < st.a 1 := pivot_pos n t (by omega) a st.a h2 h3 hpd
    obtain ⟨n', rfl⟩ : ∃ n', n = n' + 1 := ⟨n - 1, by omega⟩
    have hbody : ∃ st', sinvBody (n' + 1) t st = .ok st' := by
      unfold sinvBody
      rw [if_neg (not_lt.mpr hpos.le)]
      exact ⟨_, rfl⟩
    obtain ⟨st', hst'⟩ := hbody
    have hstate : symInvertState (n' + 1) a (t + 1) = .ok st' := by
      show forUpM (t + 1) (sinvBody (n' + 1)) _ = _
      unfold forUpM
      have : forUpM t (sinvBody (n' + 1)) ⟨a, fun _ => 0, 1, 0⟩ = .ok st := h1
      rw [this]
      exact hst'
    refine ⟨st', hstate, SInv_step n' t (by omega) a st st' hn hpos.ne' h2 hst',
      USurj_step n' t (by omega) a st.a hpos.ne' h2 h3, ?_⟩
    intro t' ht' s' hs'
    by_cases h : t' < t
    · exact h4 t' h s' hs'
    · have : t' = t := by omega
      subst this
      rw [h1] at hs'
      cases hs'
      exact hpos

/-- positive definiteness of the packed 0-based storage `s`, as in `symchol_psd` (strict) -/
def PosDef (n : Nat) (s : Nat → K) : Prop :=
  ∀ v : ℕ → K, (∃ i, 1 ≤ i ∧ i ≤ n ∧ v i ≠ 0) →
    0 < ∑ r ∈ Icc 1 n, ∑ c ∈ Icc 1 n, v r * symEntry s r c * v c

theorem PDf_of_PosDef (n : Nat) (s : Nat → K) (h : PosDef n s) : PDf n (fun k => s (k - 1)) := by
  intro x hx
  have := h x hx
  rw [sum_Icc_one] at this
  refine lt_of_lt_of_eq this (sum_congr rfl (fun i hi => ?_))
  rw [sum_Icc_one]
  unfold Ax
  rw [mul_sum]
  refine sum_congr rfl (fun c hc => ?_)
  rw [symEntry_eq_Sf s _ _ (by omega) (by omega)]
  ring

/-- **`SymMat::invert()` on a positive definite matrix, `n ≥ 2`**: every pivot is positive, the code
    does not throw, and the packed result is the two-sided inverse -/
theorem symInvert_pd (sq : K → K) (n : Nat) (hn : 2 ≤ n) (s : Nat → K) (hpd : PosDef n s) :
    (∀ t, t < n → ∀ st, symInvertState n (fun k => s (k - 1)) t = .ok st → 0 < st.a 1) ∧
    ∃ r, @symInvert K (fieldScalar K sq) n s = .ok r ∧
      (∀ i j, 1 ≤ i → i ≤ n → 1 ≤ j → j ≤ n →
        ∑ c ∈ range n, symEntry r i (c + 1) * symEntry s (c + 1) j = if i = j then 1 else 0) ∧
      (∀ i j, 1 ≤ i → i ≤ n → 1 ≤ j → j ≤ n →
        ∑ c ∈ range n, symEntry s i (c + 1) * symEntry r (c + 1) j = if i = j then 1 else 0) := by
  have hf := PDf_of_PosDef n s hpd
  obtain ⟨st, h1, _, _, h4⟩ := pd_states n hn _ hf n (Nat.le_refl n)
  have hpiv : ∀ t, t < n → ∀ st, symInvertState n (fun k => s (k - 1)) t = .ok st → 0 < st.a 1 := h4
  refine ⟨hpiv, ?_⟩
  have hr : @symInvert K (fieldScalar K sq) n s = .ok (fun p => st.a (p + 1)) := by
    rw [symInvert_eq, symInvert1_eq_state sq n (by omega), h1]
  exact ⟨_, hr, symInvert_correct sq n hn s _ (fun t ht st' hs => (hpiv t ht st' hs).ne') hr⟩

/-- `n = 1` -/
theorem symInvert_pd_one (sq : K → K) (s : Nat → K) (hpd : PosDef 1 s) :
    0 < s 0 ∧ ∃ r, @symInvert K (fieldScalar K sq) 1 s = .ok r ∧ r 0 * s 0 = 1 ∧ s 0 * r 0 = 1 := by
  have h := hpd (fun _ => 1) ⟨1, Nat.le_refl 1, Nat.le_refl 1, one_ne_zero⟩
  have h11 : Icc 1 1 = ({1} : Finset ℕ) := by decide
  rw [h11] at h
  simp only [sum_singleton, one_mul, mul_one] at h
  have hs0 : 0 < s 0 := by
    have : symEntry s 1 1 = s 0 := rfl
    rw [this] at h; exact h
  refine ⟨hs0, ?_⟩
  have hr : ∃ r, @symInvert K (fieldScalar K sq) 1 s = .ok r := by
    rw [symInvert_eq, symInvert1_eq, if_pos rfl]
    have : ¬ ((fun k => s (k - 1)) 1 < 0) := not_lt.mpr hs0.le
    rw [if_neg this]
    exact ⟨_, rfl⟩
  obtain ⟨r, hr⟩ := hr
  obtain ⟨_, a, b⟩ := symInvert_correct_one sq s r hs0.ne' hr
  exact ⟨r, hr, a, b⟩

end PD

/-! ### non-vacuity: `[[4,2],[2,2]]` is positive definite -/

theorem sinvAEx_posDef : PosDef 2 sinvAEx := by
  intro v hv
  have h12 : Icc 1 2 = ({1, 2} : Finset ℕ) := by decide
  rw [h12]
  simp [symEntry, tri, sinvAEx]
  obtain ⟨i, h1, h2, h3⟩ := hv
  have : 4 * v 1 * v 1 + 2 * v 1 * v 2 + (2 * v 2 * v 1 + 2 * v 2 * v 2)
      = 2 * v 1 * v 1 + 2 * (v 1 + v 2) * (v 1 + v 2) := by ring
  have hi : i = 1 ∨ i = 2 := by omega
  rcases hi with rfl | rfl
  · have := mul_self_pos.mpr h3
    nlinarith [mul_self_nonneg (v 1 + v 2)]
  · by_cases h0 : v 1 = 0
    · rw [h0]; have := mul_self_pos.mpr h3; nlinarith
    · have := mul_self_pos.mpr h0
      nlinarith [mul_self_nonneg (v 1 + v 2)]

end Gama.MatVec
