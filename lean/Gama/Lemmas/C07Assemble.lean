/-
  C07 — assembly: from the per-row relations of `Lemmas/C07Lin.lean` to ONE statement about the
  design matrix `codeMatrixOf` the whole pass builds (`Lemmas/C07Perm.lean`) and about its
  least-squares solution.

  Part A (any field): two descriptions `obs`, `obs'` of the same observations that allocate the
  same unknowns in the same order (`touchedU` equal row by row) have the same index table; if
  the coefficient of every unknown `u` in row `i` changes by `s i * t u`, then
  `codeMatrixOf obs' σ = D_s · codeMatrixOf obs σ · D_t` (columns identified through the common index
  table), and the solution of the re-expressed problem is the transformed solution.

  Part B (ℝ, generated linearisation): the rows `Gen.Lin.<type>` produces for the mirrored
  description of each of the 13 observation types satisfy the hypotheses of part A
  (`row_mirror`), and the rows of a turned direction set satisfy those of LS6 (`rotation_*`).
-/
import Gama.Lemmas.C07Perm
import Gama.Lemmas.C07LS
import Mathlib.Data.Fintype.Prod
namespace Gama.Lin
open Matrix

/-! ## Part A — abstract assembly -/

section State
variable {K : Type}

/-- the index state after one observation depends only on the unknowns it allocates, in order -/
theorem runEvs_state_map (name : Role → Coord → Unk) : ∀ (evs : List (Ev K)) (s : IdxState),
    (runEvs name evs s).1 = ((touches evs).map fun rc => name rc.1 rc.2).foldl IdxState.touch s
  | [], _ => rfl
  | .touch r c :: t, s => by
    show (runEvs name t (s.touch (name r c))).1 = _
    rw [runEvs_state_map name t]; rfl
  | .push r c v :: t, s => by
    show (runEvs name t s).1 = _
    rw [runEvs_state_map name t]; rfl

/-- … and so does the state after the whole pass -/
theorem runAll_state : ∀ (L : List (Ob K)) (s : IdxState),
    (runAll L s).1 = (L.flatMap touchedU).foldl IdxState.touch s
  | [], _ => rfl
  | ob :: t, s => by
    show (runAll t (runEvs ob.name ob.evs s).1).1 = _
    rw [runAll_state t, runEvs_state_map, List.flatMap_cons, List.foldl_append]; rfl

end State

section Sign
set_option linter.unusedSectionVars false
variable {K : Type} [Field K] {m : Nat} (obs obs' : Fin m → Ob K)

theorem orderList_flatMap (σ : Equiv.Perm (Fin m)) :
    (orderList obs σ).flatMap touchedU = (List.finRange m).flatMap fun r => touchedU (obs (σ r)) := by
  unfold orderList
  rw [List.ofFn_eq_map, List.flatMap_map]

/-- same allocations row by row ⇒ same final index table, whatever the order -/
theorem finalState_congr (hT : ∀ i, touchedU (obs' i) = touchedU (obs i)) (σ : Equiv.Perm (Fin m)) :
    finalState obs' σ = finalState obs σ := by
  unfold finalState
  rw [runAll_state, runAll_state, orderList_flatMap, orderList_flatMap]
  simp only [hT]

theorem touchedSet_congr (hT : ∀ i, touchedU (obs' i) = touchedU (obs i)) : touchedSet obs' = touchedSet obs := by
  unfold touchedSet; simp only [hT]

/-- the columns of the two design matrices are the same unknowns: identify them by their number -/
def castCol (hT : ∀ i, touchedU (obs' i) = touchedU (obs i)) (σ : Equiv.Perm (Fin m)) :
    Fin (finalState obs' σ).maxn ≃ Fin (finalState obs σ).maxn :=
  finCongr (congrArg IdxState.maxn (finalState_congr obs obs' hT σ))

variable (hw : ∀ i, wellTouched (obs i).evs [] = true) (hw' : ∀ i, wellTouched (obs' i).evs [] = true)

/-- the unknown that owns column `j` (numbered `j + 1` in the final index table) -/
noncomputable def colUnk (σ : Equiv.Perm (Fin m)) (j : Fin (finalState obs σ).maxn) : Unk :=
  ((colEq obs hw σ).symm j).1

theorem colUnk_get (σ : Equiv.Perm (Fin m)) (j : Fin (finalState obs σ).maxn) :
    (finalState obs σ).get (colUnk obs hw σ j) = j.1 + 1 :=
  colEquiv_get (finalState obs σ) (finalState_wf obs hw σ) (touchedSet obs) (finalState_get obs hw σ) j

/-- entry of the design matrix = coefficient of the column's unknown in the row's observation -/
theorem codeMatrixOf_apply (σ : Equiv.Perm (Fin m)) (r : Fin m) (j : Fin (finalState obs σ).maxn) :
    codeMatrixOf obs σ r j = identCoef (obs (σ r)) (colUnk obs hw σ j) := by
  rw [codeMatrixOf_eq obs hw σ]; rfl

theorem colUnk_cast (hT : ∀ i, touchedU (obs' i) = touchedU (obs i)) (σ : Equiv.Perm (Fin m))
    (j' : Fin (finalState obs' σ).maxn) :
    colUnk obs' hw' σ j' = colUnk obs hw σ (castCol obs obs' hT σ j') := by
  have h0 := colUnk_get obs' hw' σ j'
  have h2 := colUnk_get obs hw σ (castCol obs obs' hT σ j')
  have h1 : (finalState obs σ).get (colUnk obs' hw' σ j') = j'.1 + 1 := by
    rw [← finalState_congr obs obs' hT σ]; exact h0
  have e : (castCol obs obs' hT σ j').1 = j'.1 := rfl
  refine IdxState.get_inj' (finalState_wf obs hw σ) (by rw [h1]; omega) ?_
  rw [h1, h2, e]

include hw' in
/-- **assembled sign relation.**  If every coefficient of row `i` changes by the row sign `s i`
    times the sign `t u` of its unknown, the design matrix of the whole pass is
    `D_s · A · D_t` (rows in processing order `σ`, columns identified by `castCol`) -/
theorem codeMatrixOf_sign (hT : ∀ i, touchedU (obs' i) = touchedU (obs i)) (s : Fin m → K) (t : Unk → K)
    (hc : ∀ i u, identCoef (obs' i) u = s i * t u * identCoef (obs i) u) (σ : Equiv.Perm (Fin m)) :
    codeMatrixOf obs' σ =
      (diagonal (fun r => s (σ r)) * codeMatrixOf obs σ * diagonal (fun j => t (colUnk obs hw σ j))).submatrix
        (Equiv.refl _) (castCol obs obs' hT σ) := by
  ext r j'
  rw [submatrix_apply, Matrix.mul_diagonal, Matrix.diagonal_mul, codeMatrixOf_apply obs' hw', codeMatrixOf_apply obs hw,
    colUnk_cast obs obs' hw hw' hT σ j', hc]
  simp only [Equiv.refl_apply]; ring

include hw' in
/-- **assembled solution, sign transformations** (mirror): with the right-hand sides and the weight
    matrix transformed by the row signs, the solution of the re-expressed pass is the solution of
    the original pass with the unknowns multiplied by their column signs and the residuals by
    their row signs; same Φ; regularisation subset carried along -/
theorem solution_sign (hT : ∀ i, touchedU (obs' i) = touchedU (obs i)) (s : Fin m → K) (t : Unk → K)
    (hs : ∀ i, s i * s i = 1) (ht : ∀ u, t u * t u = 1)
    (hc : ∀ i u, identCoef (obs' i) u = s i * t u * identCoef (obs i) u) (σ : Equiv.Perm (Fin m))
    (b : Fin m → K) (P : Matrix (Fin m) (Fin m) K) (S : Finset (Fin (finalState obs σ).maxn))
    (x : Fin (finalState obs σ).maxn → K) (v : Fin m → K) (rtr : K)
    (h : LS.IsLSSolution (codeMatrixOf obs σ) b P S x v rtr) :
    LS.IsLSSolution (codeMatrixOf obs' σ) (diagonal (fun r => s (σ r)) *ᵥ b)
      (diagonal (fun r => s (σ r)) * P * diagonal (fun r => s (σ r)))
      (S.map (castCol obs obs' hT σ).symm.toEmbedding)
      ((diagonal (fun j => t (colUnk obs hw σ j)) *ᵥ x) ∘ castCol obs obs' hT σ)
      (diagonal (fun r => s (σ r)) *ᵥ v) rtr := by
  have h1 := (h.rowSign (fun r => s (σ r)) (fun r => hs (σ r))).colSign
    (fun j => t (colUnk obs hw σ j)) (fun j => ht _)
  have h2 := h1.perm (Equiv.refl (Fin m)) (castCol obs obs' hT σ)
  rw [← codeMatrixOf_sign obs obs' hw hw' hT s t hc σ] at h2
  exact h2

end Sign

/-! ### LS6 assembled: a shift along one column of the pass -/

section Shift
set_option linter.unusedSectionVars false
variable {K : Type} [Field K] {m : Nat} (obs : Fin m → Ob K)
variable (hw : ∀ i, wellTouched (obs i).evs [] = true)

/-- the column that belongs to an allocated unknown -/
noncomputable def colOf (σ : Equiv.Perm (Fin m)) (u : Unk) (hu : u ∈ touchedSet obs) : Fin (finalState obs σ).maxn :=
  colEq obs hw σ ⟨u, hu⟩

theorem colUnk_colOf (σ : Equiv.Perm (Fin m)) (u : Unk) (hu : u ∈ touchedSet obs) :
    colUnk obs hw σ (colOf obs hw σ u hu) = u := by
  unfold colUnk colOf; rw [Equiv.symm_apply_apply]

/-- **assembled solution, circle rotation** (LS6 on the generated matrix): the unknown `uOri` has the
    coefficient `-1` in exactly the rows `R` (the directions of one set) and `0` elsewhere; the
    right-hand sides of exactly those rows grow by `d`; `uOri` is not in the regularisation subset.
    Then coordinates, residuals and Φ are unchanged and `uOri` changes by `-d`. -/
theorem solution_shift (σ : Equiv.Perm (Fin m)) (uOri : Unk) (hu : uOri ∈ touchedSet obs) (R : Finset (Fin m)) (d : K)
    (hin : ∀ i ∈ R, identCoef (obs i) uOri = -1) (hout : ∀ i, i ∉ R → identCoef (obs i) uOri = 0)
    (b b' : Fin m → K) (hb : ∀ r, b' r = if σ r ∈ R then b r + d else b r)
    (P : Matrix (Fin m) (Fin m) K) (S : Finset (Fin (finalState obs σ).maxn)) (hk : colOf obs hw σ uOri hu ∉ S)
    (x : Fin (finalState obs σ).maxn → K) (v : Fin m → K) (rtr : K)
    (h : LS.IsLSSolution (codeMatrixOf obs σ) b P S x v rtr) :
    LS.IsLSSolution (codeMatrixOf obs σ) b' P S (x + (-d) • Pi.single (colOf obs hw σ uOri hu) 1) v rtr := by
  have hcol : ∀ r, codeMatrixOf obs σ r (colOf obs hw σ uOri hu) =
      if r ∈ Finset.univ.filter (fun r => σ r ∈ R) then -1 else 0 := by
    intro r
    rw [codeMatrixOf_apply obs hw, colUnk_colOf]
    by_cases hr : σ r ∈ R
    · simp [hr, hin _ hr]
    · simp [hr, hout _ hr]
  have hb' : ∀ r, b' r = if r ∈ Finset.univ.filter (fun r => σ r ∈ R) then b r + d else b r := by
    intro r; rw [hb r]; simp
  rw [LS.rhs_shift_eq (colOf obs hw σ uOri hu) _ d b' hcol hb']
  exact h.shift_single _ (-d) hk

end Shift

/-! ### from role-level coefficients (`coef`) to identity-level coefficients (`identCoef`) -/

instance : Fintype Role where
  elems := {.pfrom, .pto, .pfs, .station}
  complete := by intro a; cases a <;> simp

instance : Fintype Coord where
  elems := {.x, .y, .z, .ori}
  complete := by intro a; cases a <;> simp

theorem coef_nil (r : Role) (c : Coord) : coef [] r c = 0 := rfl

theorem coef_cons (p : Role × Coord × ℝ) (t : List (Role × Coord × ℝ)) (r : Role) (c : Coord) :
    coef (p :: t) r c = (if p.1 = r ∧ p.2.1 = c then p.2.2 else 0) + coef t r c := by
  unfold coef
  by_cases h : p.1 = r ∧ p.2.1 = c
  · simp [h]
  · simp [h]

theorem sum_filter_eq_sum_coef (name : Role → Coord → Unk) (u : Unk) : ∀ l : List (Role × Coord × ℝ),
    ((l.filter (fun p => name p.1 p.2.1 = u)).map (fun p => p.2.2)).sum =
      ∑ rc : Role × Coord, if name rc.1 rc.2 = u then coef l rc.1 rc.2 else 0
  | [] => by simp [coef_nil]
  | p :: t => by
    have ih := sum_filter_eq_sum_coef name u t
    have e1 : (∑ rc : Role × Coord, if name rc.1 rc.2 = u then (if p.1 = rc.1 ∧ p.2.1 = rc.2 then p.2.2 else 0) else 0) =
        if name p.1 p.2.1 = u then p.2.2 else 0 := by
      rw [Finset.sum_eq_single (p.1, p.2.1)]
      · simp
      · intro rc _ hne
        have : ¬ (p.1 = rc.1 ∧ p.2.1 = rc.2) := fun hh => hne (Prod.ext hh.1.symm hh.2.symm)
        simp [this]
      · intro hh; exact absurd (Finset.mem_univ _) hh
    have e2 : (∑ rc : Role × Coord, if name rc.1 rc.2 = u then coef (p :: t) rc.1 rc.2 else 0) =
        (if name p.1 p.2.1 = u then p.2.2 else 0) +
          ∑ rc : Role × Coord, if name rc.1 rc.2 = u then coef t rc.1 rc.2 else 0 := by
      rw [← e1, ← Finset.sum_add_distrib]
      refine Finset.sum_congr rfl fun rc _ => ?_
      rw [coef_cons]
      split <;> simp
    rw [e2, ← ih]
    by_cases h : name p.1 p.2.1 = u
    · simp [h]
    · simp [h]

theorem identCoef_eq_sum (ob : Ob ℝ) (u : Unk) :
    identCoef ob u = ∑ rc : Role × Coord, if ob.name rc.1 rc.2 = u then coef (pushes ob.evs) rc.1 rc.2 else 0 := by
  unfold identCoef
  rw [← sum_filter_eq_sum_coef ob.name u (pushes ob.evs)]

/-- a relation between the role-level coefficients of two descriptions of one observation with
    the same naming of unknowns (`(name r c).c = c`: a point's `y` unknown is a `y` unknown) carries
    over to the coefficients by identity -/
theorem identCoef_sign (name : Role → Coord → Unk) (hname : ∀ r c, (name r c).c = c) (evs evs' : List (Ev ℝ))
    (k : ℝ) (tc : Coord → ℝ) (h : ∀ r c, coef (pushes evs') r c = k * tc c * coef (pushes evs) r c) (u : Unk) :
    identCoef ⟨name, evs'⟩ u = k * tc u.c * identCoef ⟨name, evs⟩ u := by
  rw [identCoef_eq_sum, identCoef_eq_sum, Finset.mul_sum]
  refine Finset.sum_congr rfl fun rc _ => ?_
  by_cases hu : name rc.1 rc.2 = u
  · have : u.c = rc.2 := by rw [← hu, hname]
    simp only [hu, if_true, h, this]
  · simp [hu]

/-! ## Part B — the generated linearisation: mirrored rows of all 13 types -/

/- (`RowKind`, not `Kind`: `Gama.Lin.Kind` is C05's, Model/LinPass.lean — the two property files are
   importable together) -/
/-- the 13 observation classes `LocalLinearization` visits -/
inductive RowKind where
  | direction | distance | angle | azimuth | s_distance | z_angle | h_diff | x | y | z | xdiff | ydiff | zdiff
deriving DecidableEq, Repr

/-- the generated linearisation of one observation of class `k` -/
noncomputable def lin (k : RowKind) (fuel : Nat) (o : Obs ℝ) : Except LinErr (LinOut ℝ) :=
  match k with
  | .direction => Gen.Lin.direction fuel o | .distance => Gen.Lin.distance fuel o
  | .angle => Gen.Lin.angle fuel o | .azimuth => Gen.Lin.azimuth fuel o
  | .s_distance => Gen.Lin.s_distance fuel o | .z_angle => Gen.Lin.z_angle fuel o
  | .h_diff => Gen.Lin.h_diff fuel o | .x => Gen.Lin.x fuel o | .y => Gen.Lin.y fuel o | .z => Gen.Lin.z fuel o
  | .xdiff => Gen.Lin.xdiff fuel o | .ydiff => Gen.Lin.ydiff fuel o | .zdiff => Gen.Lin.zdiff fuel o

/-- horizontal angular classes: their right-hand side is reduced to `(-200, 200]` gon -/
def RowKind.angular : RowKind → Bool
  | .direction | .angle | .azimuth => true
  | _ => false

/-- the mirrored description of one observation: `y` of all points negated (what
    `remove_inconsistency` does); horizontal angles read in the other sense; `Y`, `Ydiff` negated -/
def mirObs (k : RowKind) (o : Obs ℝ) : Obs ℝ :=
  match k with
  | .direction | .angle | .azimuth => negObs o
  | .y | .ydiff => { flipObs o with value := -o.value }
  | _ => flipObs o

/-- sign of the mirrored row -/
def rowSgn : RowKind → ℝ
  | .direction | .angle | .azimuth | .y | .ydiff => -1
  | _ => 1

theorem rowSgn_sq (k : RowKind) : rowSgn k * rowSgn k = 1 := by cases k <;> simp [rowSgn]
theorem mirrorSgn_sq (c : Coord) : mirrorSgn c * mirrorSgn c = 1 := by cases c <;> simp [mirrorSgn]

/-- the guards under which the generated function is the closed form (no zero-length sight) -/
def guard (k : RowKind) (o : Obs ℝ) : Prop :=
  match k with
  | .direction | .azimuth | .distance => ¬ hdist o < CUT
  | .angle => ¬ hdist o < CUT ∧ ¬ hdist2 o < CUT
  | _ => True

/-- what the mirrored row is, in one shape for all classes -/
def MirrorRel (k : RowKind) (out out' : LinOut ℝ) : Prop :=
  touches out'.evs = touches out.evs ∧
  (∀ r c, coef out'.pushes r c = rowSgn k * mirrorSgn c * coef out.pushes r c) ∧
  (if k.angular then (out.rhs ≠ HALF → out'.rhs = -out.rhs) ∧ (out.rhs = HALF → out'.rhs = HALF)
   else out'.rhs = rowSgn k * out.rhs)

theorem direction_mir (fuel fuel' : Nat) (o : Obs ℝ) (out out' : LinOut ℝ) (h : ¬ hdist o < CUT)
    (hok : Gen.Lin.direction fuel o = .ok out) (hok' : Gen.Lin.direction fuel' (negObs o) = .ok out') :
    MirrorRel .direction out out' := by
  have hh : hdist (negObs o) = hdist o := hdist_flip o
  have h' : ¬ hdist (negObs o) < CUT := by rw [hh]; exact h
  have e1 := (direction_ok fuel o out h hok).2
  have e2 := (direction_ok fuel' (negObs o) out' h' hok').2
  refine ⟨?_, fun r c => ?_, ?_⟩
  · have e3 : (negObs o).pfrom.free_xy = o.pfrom.free_xy := rfl
    have e4 : (negObs o).pto.free_xy = o.pto.free_xy := rfl
    rw [e1, e2]; simp only [directionEvs, e3, e4]
    cases o.pfrom.free_xy <;> cases o.pto.free_xy <;> simp [touches]
  · rw [(direction_flip fuel fuel' o out out' h hok hok').2 r c]; simp [rowSgn]
  · simp only [RowKind.angular, if_true]
    exact direction_flip_rhs fuel fuel' o out out' h hok hok'

theorem azimuth_mir (fuel fuel' : Nat) (o : Obs ℝ) (out out' : LinOut ℝ) (h : ¬ hdist o < CUT)
    (hok : Gen.Lin.azimuth fuel o = .ok out) (hok' : Gen.Lin.azimuth fuel' (negObs o) = .ok out') :
    MirrorRel .azimuth out out' := by
  have hh : hdist (negObs o) = hdist o := hdist_flip o
  have h' : ¬ hdist (negObs o) < CUT := by rw [hh]; exact h
  have e1 := (azimuth_ok fuel o out h hok).2
  have e2 := (azimuth_ok fuel' (negObs o) out' h' hok').2
  have := azimuth_flip fuel fuel' o out out' h hok hok'
  refine ⟨?_, fun r c => ?_, ?_⟩
  · have e3 : (negObs o).pfrom.free_xy = o.pfrom.free_xy := rfl
    have e4 : (negObs o).pto.free_xy = o.pto.free_xy := rfl
    rw [e1, e2]; simp only [azimuthEvs, e3, e4]
    cases o.pfrom.free_xy <;> cases o.pto.free_xy <;> simp [touches]
  · rw [this.2 r c]; simp [rowSgn]
  · simp only [RowKind.angular, if_true]; exact this.1

theorem angle_mir (fuel fuel' : Nat) (o : Obs ℝ) (out out' : LinOut ℝ) (h : ¬ hdist o < CUT) (h2 : ¬ hdist2 o < CUT)
    (hok : Gen.Lin.angle fuel o = .ok out) (hok' : Gen.Lin.angle fuel' (negObs o) = .ok out') :
    MirrorRel .angle out out' := by
  have hh : hdist (negObs o) = hdist o := hdist_flip o
  have hh2 : hdist2 (negObs o) = hdist2 o := hdist2_flip o
  have h' : ¬ hdist (negObs o) < CUT := by rw [hh]; exact h
  have h2' : ¬ hdist2 (negObs o) < CUT := by rw [hh2]; exact h2
  have e1 := (angle_ok fuel o out h h2 hok).2
  have e2 := (angle_ok fuel' (negObs o) out' h' h2' hok').2
  have := angle_flip fuel fuel' o out out' h h2 hok hok'
  refine ⟨?_, fun r c => ?_, ?_⟩
  · have e3 : (negObs o).pfrom.free_xy = o.pfrom.free_xy := rfl
    have e4 : (negObs o).pto.free_xy = o.pto.free_xy := rfl
    have e5 : (negObs o).pfs.free_xy = o.pfs.free_xy := rfl
    rw [e1, e2]; simp only [angleEvs, e3, e4, e5]
    cases o.pfrom.free_xy <;> cases o.pto.free_xy <;> cases o.pfs.free_xy <;> simp [touches]
  · rw [this.2 r c]; simp [rowSgn]
  · simp only [RowKind.angular, if_true]; exact this.1

theorem distance_mir (fuel fuel' : Nat) (o : Obs ℝ) (out out' : LinOut ℝ) (h : ¬ hdist o < CUT)
    (hok : Gen.Lin.distance fuel o = .ok out) (hok' : Gen.Lin.distance fuel' (flipObs o) = .ok out') :
    MirrorRel .distance out out' := by
  have h' : ¬ hdist (flipObs o) < CUT := by rw [hdist_flip]; exact h
  rw [distance_eq fuel o h] at hok
  rw [distance_eq fuel' _ h'] at hok'
  injection hok with hok; injection hok' with hok'; subst hok; subst hok'
  have e1 : (flipObs o).pfrom.free_xy = o.pfrom.free_xy := rfl
  have e2 : (flipObs o).pto.free_xy = o.pto.free_xy := rfl
  have e3 : (flipObs o).value = o.value := rfl
  refine ⟨?_, fun r c => ?_, ?_⟩
  · simp only [e1, e2]
    cases o.pfrom.free_xy <;> cases o.pto.free_xy <;> simp [touches]
  · simp only [LinOut.pushes, e1, e2, dX_flip, dY_flip, hdist_flip]
    cases o.pfrom.free_xy <;> cases o.pto.free_xy <;> cases r <;> cases c <;>
      simp [coef, pushes, mirrorSgn, rowSgn, neg_div]
  · simp [RowKind.angular, rowSgn, hdist_flip, e3]

theorem s_distance_mir (fuel fuel' : Nat) (o : Obs ℝ) (out out' : LinOut ℝ)
    (hok : Gen.Lin.s_distance fuel o = .ok out) (hok' : Gen.Lin.s_distance fuel' (flipObs o) = .ok out') :
    MirrorRel .s_distance out out' := by
  rw [s_distance_eq] at hok hok'
  rw [sdist_flip] at hok'
  split at hok
  · exact absurd hok (by simp)
  · rename_i hs
    rw [if_neg hs] at hok'
    injection hok with hok; injection hok' with hok'; subst hok; subst hok'
    have e1 : (flipObs o).pfrom.free_xy = o.pfrom.free_xy := rfl
    have e2 : (flipObs o).pto.free_xy = o.pto.free_xy := rfl
    have e4 : (flipObs o).pfrom.free_z = o.pfrom.free_z := rfl
    have e5 : (flipObs o).pto.free_z = o.pto.free_z := rfl
    have e3 : (flipObs o).value = o.value := rfl
    refine ⟨?_, fun r c => ?_, ?_⟩
    · simp only [sdistEvs, e1, e2, e4, e5]
      cases o.pfrom.free_xy <;> cases o.pto.free_xy <;> cases o.pfrom.free_z <;> cases o.pto.free_z <;> simp [touches]
    · simp only [LinOut.pushes, sdistEvs, e1, e2, e4, e5, dX_flip, dY_flip, dZ_flip, sdist_flip]
      cases o.pfrom.free_xy <;> cases o.pto.free_xy <;> cases o.pfrom.free_z <;> cases o.pto.free_z <;>
        cases r <;> cases c <;> simp [coef, pushes, mirrorSgn, rowSgn, neg_div]
    · simp [RowKind.angular, rowSgn, e3]

theorem z_angle_mir (fuel fuel' : Nat) (o : Obs ℝ) (out out' : LinOut ℝ)
    (hok : Gen.Lin.z_angle fuel o = .ok out) (hok' : Gen.Lin.z_angle fuel' (flipObs o) = .ok out') :
    MirrorRel .z_angle out out' := by
  rw [z_angle_eq] at hok hok'
  rw [hdist_flip, sdist_flip] at hok'
  split at hok
  · exact absurd hok (by simp)
  · rename_i hs
    rw [if_neg hs] at hok'
    injection hok with hok; injection hok' with hok'; subst hok; subst hok'
    have e1 : (flipObs o).pfrom.free_xy = o.pfrom.free_xy := rfl
    have e2 : (flipObs o).pto.free_xy = o.pto.free_xy := rfl
    have e4 : (flipObs o).pfrom.free_z = o.pfrom.free_z := rfl
    have e5 : (flipObs o).pto.free_z = o.pto.free_z := rfl
    have e3 : (flipObs o).value = o.value := rfl
    have ez : zsign (flipObs o) = zsign o := rfl
    have ek : KZ (flipObs o) = KZ o := by unfold KZ; rw [hdist_flip, sdist_flip]
    have ezc : zenithComputed (flipObs o) = zenithComputed o := by
      unfold zenithComputed zenith; rw [e3, dZ_flip, sdist_flip]
    refine ⟨?_, fun r c => ?_, ?_⟩
    · simp only [zangleEvs, e1, e2, e4, e5]
      cases o.pfrom.free_xy <;> cases o.pto.free_xy <;> cases o.pfrom.free_z <;> cases o.pto.free_z <;> simp [touches]
    · simp only [LinOut.pushes, zangleEvs, e1, e2, e4, e5, dX_flip, dY_flip, dZ_flip, hdist_flip, ez, ek]
      cases o.pfrom.free_xy <;> cases o.pto.free_xy <;> cases o.pfrom.free_z <;> cases o.pto.free_z <;>
        cases r <;> cases c <;> simp [coef, pushes, mirrorSgn, rowSgn]
    · simp [RowKind.angular, rowSgn, e3, ezc]

/-- the classes that do not read `y`: the mirrored row is the same row, and it has no `y` and no
    orientation coefficient -/
theorem plain_mir (k : RowKind) (out out' : LinOut ℝ) (hk : k.angular = false) (hr : rowSgn k = 1) (e : out' = out)
    (h0 : ∀ r, coef out.pushes r .y = 0 ∧ coef out.pushes r .ori = 0) : MirrorRel k out out' := by
  subst e
  refine ⟨rfl, fun r c => ?_, ?_⟩
  · rw [hr]
    cases c
    · simp [mirrorSgn]
    · rw [(h0 r).1]; simp
    · simp [mirrorSgn]
    · rw [(h0 r).2]; simp
  · rw [hk, hr]; simp

theorem h_diff_mir (fuel fuel' : Nat) (o : Obs ℝ) (out out' : LinOut ℝ)
    (hok : Gen.Lin.h_diff fuel o = .ok out) (hok' : Gen.Lin.h_diff fuel' (flipObs o) = .ok out') :
    MirrorRel .h_diff out out' := by
  rw [h_diff_eq] at hok hok'
  have e : out' = out := Except.ok.inj (hok'.symm.trans hok)
  injection hok with hok; subst hok
  refine plain_mir _ _ _ rfl rfl e fun r => ?_
  cases o.pfrom.free_z <;> cases o.pto.free_z <;> cases r <;> simp [coef, pushes, LinOut.pushes]

theorem zdiff_mir (fuel fuel' : Nat) (o : Obs ℝ) (out out' : LinOut ℝ)
    (hok : Gen.Lin.zdiff fuel o = .ok out) (hok' : Gen.Lin.zdiff fuel' (flipObs o) = .ok out') :
    MirrorRel .zdiff out out' := by
  rw [zdiff_eq] at hok hok'
  have e : out' = out := Except.ok.inj (hok'.symm.trans hok)
  injection hok with hok; subst hok
  refine plain_mir _ _ _ rfl rfl e fun r => ?_
  cases o.pfrom.free_z <;> cases o.pto.free_z <;> cases r <;> simp [coef, pushes, LinOut.pushes]

theorem xdiff_mir (fuel fuel' : Nat) (o : Obs ℝ) (out out' : LinOut ℝ)
    (hok : Gen.Lin.xdiff fuel o = .ok out) (hok' : Gen.Lin.xdiff fuel' (flipObs o) = .ok out') :
    MirrorRel .xdiff out out' := by
  rw [xdiff_eq] at hok hok'
  have e : out' = out := Except.ok.inj (hok'.symm.trans hok)
  injection hok with hok; subst hok
  refine plain_mir _ _ _ rfl rfl e fun r => ?_
  cases o.pfrom.free_xy <;> cases o.pto.free_xy <;> cases r <;> simp [coef, pushes, LinOut.pushes]

theorem x_mir (fuel fuel' : Nat) (o : Obs ℝ) (out out' : LinOut ℝ)
    (hok : Gen.Lin.x fuel o = .ok out) (hok' : Gen.Lin.x fuel' (flipObs o) = .ok out') :
    MirrorRel .x out out' := by
  rw [x_eq] at hok hok'
  have e : out' = out := Except.ok.inj (hok'.symm.trans hok)
  injection hok with hok; subst hok
  refine plain_mir _ _ _ rfl rfl e fun r => ?_
  cases o.pfrom.free_xy <;> cases r <;> simp [coef, pushes, LinOut.pushes]

theorem z_mir (fuel fuel' : Nat) (o : Obs ℝ) (out out' : LinOut ℝ)
    (hok : Gen.Lin.z fuel o = .ok out) (hok' : Gen.Lin.z fuel' (flipObs o) = .ok out') :
    MirrorRel .z out out' := by
  rw [z_eq] at hok hok'
  have e : out' = out := Except.ok.inj (hok'.symm.trans hok)
  injection hok with hok; subst hok
  refine plain_mir _ _ _ rfl rfl e fun r => ?_
  cases o.pfrom.free_z <;> cases r <;> simp [coef, pushes, LinOut.pushes]

theorem y_mir (fuel fuel' : Nat) (o : Obs ℝ) (out out' : LinOut ℝ)
    (hok : Gen.Lin.y fuel o = .ok out) (hok' : Gen.Lin.y fuel' { flipObs o with value := -o.value } = .ok out') :
    MirrorRel .y out out' := by
  rw [y_eq] at hok hok'
  injection hok with hok; injection hok' with hok'; subst hok; subst hok'
  have e1 : ({ flipObs o with value := -o.value } : Obs ℝ).pfrom.free_xy = o.pfrom.free_xy := rfl
  refine ⟨by simp only [e1], fun r c => ?_, ?_⟩
  · simp only [LinOut.pushes, e1]
    cases o.pfrom.free_xy <;> cases r <;> cases c <;> simp [coef, pushes, mirrorSgn, rowSgn]
  · simp only [RowKind.angular, rowSgn]
    show (-o.value - fromY (flipObs o)) * 1000 = -1 * ((o.value - fromY o) * 1000)
    have : fromY (flipObs o) = -fromY o := rfl
    rw [this]; ring

theorem ydiff_mir (fuel fuel' : Nat) (o : Obs ℝ) (out out' : LinOut ℝ)
    (hok : Gen.Lin.ydiff fuel o = .ok out) (hok' : Gen.Lin.ydiff fuel' { flipObs o with value := -o.value } = .ok out') :
    MirrorRel .ydiff out out' := by
  rw [ydiff_eq] at hok hok'
  injection hok with hok; injection hok' with hok'; subst hok; subst hok'
  have e1 : ({ flipObs o with value := -o.value } : Obs ℝ).pfrom.free_xy = o.pfrom.free_xy := rfl
  have e2 : ({ flipObs o with value := -o.value } : Obs ℝ).pto.free_xy = o.pto.free_xy := rfl
  refine ⟨by simp only [e1, e2], fun r c => ?_, ?_⟩
  · simp only [LinOut.pushes, e1, e2]
    cases o.pfrom.free_xy <;> cases o.pto.free_xy <;> cases r <;> cases c <;> simp [coef, pushes, mirrorSgn, rowSgn]
  · simp only [RowKind.angular, rowSgn]
    show (-o.value - dY (flipObs o)) * 1000 = -1 * ((o.value - dY o) * 1000)
    rw [dY_flip]; ring

/-- **every class**: the generated row of the mirrored description -/
theorem row_mirror (k : RowKind) (fuel fuel' : Nat) (o : Obs ℝ) (out out' : LinOut ℝ) (hg : guard k o)
    (hok : lin k fuel o = .ok out) (hok' : lin k fuel' (mirObs k o) = .ok out') : MirrorRel k out out' := by
  cases k
  · exact direction_mir fuel fuel' o out out' hg hok hok'
  · exact distance_mir fuel fuel' o out out' hg hok hok'
  · exact angle_mir fuel fuel' o out out' hg.1 hg.2 hok hok'
  · exact azimuth_mir fuel fuel' o out out' hg hok hok'
  · exact s_distance_mir fuel fuel' o out out' hok hok'
  · exact z_angle_mir fuel fuel' o out out' hok hok'
  · exact h_diff_mir fuel fuel' o out out' hok hok'
  · exact x_mir fuel fuel' o out out' hok hok'
  · exact y_mir fuel fuel' o out out' hok hok'
  · exact z_mir fuel fuel' o out out' hok hok'
  · exact xdiff_mir fuel fuel' o out out' hok hok'
  · exact ydiff_mir fuel fuel' o out out' hok hok'
  · exact zdiff_mir fuel fuel' o out out' hok hok'

/-- every generated event list allocates an unknown before it pushes a coefficient for it -/
theorem lin_wellTouched (k : RowKind) (fuel : Nat) (o : Obs ℝ) (out : LinOut ℝ) (hg : guard k o)
    (hok : lin k fuel o = .ok out) : wellTouched out.evs [] = true := by
  cases k
  · exact (direction_targets fuel o out hg hok).2
  · exact (distance_targets fuel o out hg hok).2
  · exact (angle_targets fuel o out hg.1 hg.2 hok).2
  · exact (azimuth_targets fuel o out hg hok).2
  · exact (s_distance_targets fuel o out hok).2
  · exact (z_angle_targets fuel o out hok).2
  · have hok : Gen.Lin.h_diff fuel o = .ok out := hok
    rw [h_diff_eq] at hok; injection hok with hok; subst hok
    cases o.pfrom.free_z <;> cases o.pto.free_z <;> simp [wellTouched]
  · have hok : Gen.Lin.x fuel o = .ok out := hok
    rw [x_eq] at hok; injection hok with hok; subst hok
    cases o.pfrom.free_xy <;> simp [wellTouched]
  · have hok : Gen.Lin.y fuel o = .ok out := hok
    rw [y_eq] at hok; injection hok with hok; subst hok
    cases o.pfrom.free_xy <;> simp [wellTouched]
  · have hok : Gen.Lin.z fuel o = .ok out := hok
    rw [z_eq] at hok; injection hok with hok; subst hok
    cases o.pfrom.free_z <;> simp [wellTouched]
  · have hok : Gen.Lin.xdiff fuel o = .ok out := hok
    rw [xdiff_eq] at hok; injection hok with hok; subst hok
    cases o.pfrom.free_xy <;> cases o.pto.free_xy <;> simp [wellTouched]
  · have hok : Gen.Lin.ydiff fuel o = .ok out := hok
    rw [ydiff_eq] at hok; injection hok with hok; subst hok
    cases o.pfrom.free_xy <;> cases o.pto.free_xy <;> simp [wellTouched]
  · have hok : Gen.Lin.zdiff fuel o = .ok out := hok
    rw [zdiff_eq] at hok; injection hok with hok; subst hok
    cases o.pfrom.free_z <;> cases o.pto.free_z <;> simp [wellTouched]

/-! ## the generated pass -/

/-- one row of `project_equations`: the class, what the linearisation reads, and the identities
    of its unknowns (`(name r c).c = c`: a point's `y` is a `y` unknown, a stand-point's orientation
    an orientation unknown) -/
structure GenRow where
  kind : RowKind
  o : Obs ℝ
  name : Role → Coord → Unk

/-- every observation of the pass linearises (no exception), with outputs `outs` -/
def Linearises {m : Nat} (fuel : Nat) (rows : Fin m → GenRow) (outs : Fin m → LinOut ℝ) : Prop :=
  ∀ i, lin (rows i).kind fuel (rows i).o = .ok (outs i)

/-- the observations as `project_equations` sees them -/
def obOf {m : Nat} (rows : Fin m → GenRow) (outs : Fin m → LinOut ℝ) : Fin m → Ob ℝ :=
  fun i => ⟨(rows i).name, (outs i).evs⟩

/-- the same row in the mirrored description -/
def mirRow (g : GenRow) : GenRow := { g with o := mirObs g.kind g.o }

/-- the same row with the circle of the direction sets in `R` turned by `c` -/
def rotRow (c : ℝ) (g : GenRow) : GenRow := { g with o := rotObs c g.o }

section Pass
variable {m : Nat} (fuel fuel' : Nat) (rows : Fin m → GenRow) (outs outs' : Fin m → LinOut ℝ)

theorem obOf_wellTouched (hl : Linearises fuel rows outs) (hg : ∀ i, guard (rows i).kind (rows i).o) :
    ∀ i, wellTouched (obOf rows outs i).evs [] = true :=
  fun i => lin_wellTouched _ fuel _ _ (hg i) (hl i)

theorem guard_mir (k : RowKind) (o : Obs ℝ) (hg : guard k o) : guard k (mirObs k o) := by
  cases k <;> simp only [guard, mirObs] at hg ⊢
  · rw [show hdist (negObs o) = hdist o from hdist_flip o]; exact hg
  · rw [hdist_flip]; exact hg
  · rw [show hdist (negObs o) = hdist o from hdist_flip o, show hdist2 (negObs o) = hdist2 o from hdist2_flip o]; exact hg
  · rw [show hdist (negObs o) = hdist o from hdist_flip o]; exact hg

/-- **the mirrored pass, matrix form**: `A' = D_s A D_t`, `s` = −1 on the rows of directions,
    angles, azimuths, `Y`, `Ydiff`; `t` = −1 on the columns of `y` unknowns and orientations -/
theorem mirror_codeMatrixOf (hl : Linearises fuel rows outs) (hl' : Linearises fuel' (fun i => mirRow (rows i)) outs')
    (hg : ∀ i, guard (rows i).kind (rows i).o) (hname : ∀ i r c, ((rows i).name r c).c = c)
    (σ : Equiv.Perm (Fin m)) :
    ∃ (hT : ∀ i, touchedU (obOf rows outs' i) = touchedU (obOf rows outs i)),
      codeMatrixOf (obOf rows outs') σ =
        (diagonal (fun r => rowSgn (rows (σ r)).kind) * codeMatrixOf (obOf rows outs) σ *
          diagonal (fun j => mirrorSgn (colUnk (obOf rows outs) (obOf_wellTouched fuel rows outs hl hg) σ j).c)).submatrix
          (Equiv.refl _) (castCol (obOf rows outs) (obOf rows outs') hT σ) := by
  have hrel : ∀ i, MirrorRel (rows i).kind (outs i) (outs' i) := fun i =>
    row_mirror _ fuel fuel' _ _ _ (hg i) (hl i) (hl' i)
  have hT : ∀ i, touchedU (obOf rows outs' i) = touchedU (obOf rows outs i) := fun i => by
    unfold touchedU obOf; simp only; rw [(hrel i).1]
  have hw' : ∀ i, wellTouched (obOf rows outs' i).evs [] = true := fun i =>
    lin_wellTouched _ fuel' _ _ (guard_mir _ _ (hg i)) (hl' i)
  refine ⟨hT, codeMatrixOf_sign _ _ _ hw' hT (fun i => rowSgn (rows i).kind) (fun u => mirrorSgn u.c) (fun i u => ?_) σ⟩
  exact identCoef_sign (rows i).name (hname i) (outs i).evs (outs' i).evs _ mirrorSgn (hrel i).2.1 u

/-- right-hand sides of the mirrored pass: `b' = D_s b`, provided no horizontal angular row sits
    exactly at the closed end `+200 gon` of the window (there `b'ᵢ = bᵢ = +200 gon`, not `−200 gon`) -/
theorem mirror_rhs (hl : Linearises fuel rows outs) (hl' : Linearises fuel' (fun i => mirRow (rows i)) outs')
    (hg : ∀ i, guard (rows i).kind (rows i).o)
    (hnb : ∀ i, (rows i).kind.angular = true → (outs i).rhs ≠ HALF) (σ : Equiv.Perm (Fin m)) :
    (fun r => (outs' (σ r)).rhs) = diagonal (fun r => rowSgn (rows (σ r)).kind) *ᵥ (fun r => (outs (σ r)).rhs) := by
  funext r
  rw [mulVec_diagonal]
  have h3 := (row_mirror _ fuel fuel' _ _ _ (hg (σ r)) (hl (σ r)) (hl' (σ r))).2.2
  by_cases ha : (rows (σ r)).kind.angular = true
  · rw [if_pos ha] at h3
    rw [h3.1 (hnb _ ha)]
    have : rowSgn (rows (σ r)).kind = -1 := by
      cases hk : (rows (σ r)).kind <;> simp [hk, RowKind.angular] at ha <;> rfl
    rw [this]; ring
  · rw [if_neg ha] at h3; exact h3

/-- **C07, mirror, assembled**: the least-squares solution of the mirrored pass is the transformed
    solution of the original pass -/
theorem mirror_solution (hl : Linearises fuel rows outs) (hl' : Linearises fuel' (fun i => mirRow (rows i)) outs')
    (hg : ∀ i, guard (rows i).kind (rows i).o) (hname : ∀ i r c, ((rows i).name r c).c = c)
    (hnb : ∀ i, (rows i).kind.angular = true → (outs i).rhs ≠ HALF) (σ : Equiv.Perm (Fin m))
    (P : Matrix (Fin m) (Fin m) ℝ) (S : Finset (Fin (finalState (obOf rows outs) σ).maxn))
    (x : Fin (finalState (obOf rows outs) σ).maxn → ℝ) (v : Fin m → ℝ) (rtr : ℝ)
    (h : LS.IsLSSolution (codeMatrixOf (obOf rows outs) σ) (fun r => (outs (σ r)).rhs) P S x v rtr) :
    ∃ (hT : ∀ i, touchedU (obOf rows outs' i) = touchedU (obOf rows outs i)),
      LS.IsLSSolution (codeMatrixOf (obOf rows outs') σ) (fun r => (outs' (σ r)).rhs)
        (diagonal (fun r => rowSgn (rows (σ r)).kind) * P * diagonal (fun r => rowSgn (rows (σ r)).kind))
        (S.map (castCol (obOf rows outs) (obOf rows outs') hT σ).symm.toEmbedding)
        ((diagonal (fun j => mirrorSgn (colUnk (obOf rows outs) (obOf_wellTouched fuel rows outs hl hg) σ j).c) *ᵥ x) ∘
          castCol (obOf rows outs) (obOf rows outs') hT σ)
        (diagonal (fun r => rowSgn (rows (σ r)).kind) *ᵥ v) rtr := by
  have hrel : ∀ i, MirrorRel (rows i).kind (outs i) (outs' i) := fun i =>
    row_mirror _ fuel fuel' _ _ _ (hg i) (hl i) (hl' i)
  have hT : ∀ i, touchedU (obOf rows outs' i) = touchedU (obOf rows outs i) := fun i => by
    unfold touchedU obOf; simp only; rw [(hrel i).1]
  have hw' : ∀ i, wellTouched (obOf rows outs' i).evs [] = true := fun i =>
    lin_wellTouched _ fuel' _ _ (guard_mir _ _ (hg i)) (hl' i)
  refine ⟨hT, ?_⟩
  rw [mirror_rhs fuel fuel' rows outs outs' hl hl' hg hnb σ]
  exact solution_sign _ _ (obOf_wellTouched fuel rows outs hl hg) hw' hT (fun i => rowSgn (rows i).kind)
    (fun u => mirrorSgn u.c) (fun i => rowSgn_sq _) (fun u => mirrorSgn_sq _)
    (fun i u => identCoef_sign (rows i).name (hname i) (outs i).evs (outs' i).evs _ mirrorSgn (hrel i).2.1 u)
    σ _ P S x v rtr h

end Pass

/-! ## turning the zero of one direction set, assembled -/

theorem direction_coef_ori (fuel : Nat) (o : Obs ℝ) (out : LinOut ℝ) (h : ¬ hdist o < CUT)
    (hok : Gen.Lin.direction fuel o = .ok out) (r : Role) :
    coef out.pushes r .ori = if r = .station then -1 else 0 := by
  have e := (direction_ok fuel o out h hok).2
  simp only [LinOut.pushes, e, directionEvs]
  cases o.pfrom.free_xy <;> cases o.pto.free_xy <;> cases r <;> simp [coef, pushes]

theorem direction_touches_ori (fuel : Nat) (o : Obs ℝ) (out : LinOut ℝ) (h : ¬ hdist o < CUT)
    (hok : Gen.Lin.direction fuel o = .ok out) : (Role.station, Coord.ori) ∈ touches out.evs := by
  rw [(direction_ok fuel o out h hok).2]
  simp [directionEvs, touches]

/-- **non-wrapping sufficient condition for a whole direction set.**  If for every direction of
    the set the shifted right-hand side stays strictly inside the half circle,
    `|rhsᵢ + c·R2CC| < 200 gon`, then every row of the turned set has exactly the same events and
    its right-hand side is exactly `rhsᵢ + c·R2CC` — the hypotheses `hcol`/`hb` of LS6. (The half-open
    window `(-200, 200]` gon is what is needed; the symmetric strict bound implies it.) -/
theorem rotation_nowrap_set {m : Nat} (fuel fuel' : Nat) (c : ℝ) (rows : Fin m → GenRow) (outs outs' : Fin m → LinOut ℝ)
    (R : Finset (Fin m)) (hdir : ∀ i ∈ R, (rows i).kind = .direction ∧ ¬ hdist (rows i).o < CUT)
    (hl : ∀ i ∈ R, Gen.Lin.direction fuel (rows i).o = .ok (outs i))
    (hl' : ∀ i ∈ R, Gen.Lin.direction fuel' (rotObs c (rows i).o) = .ok (outs' i))
    (hsmall : ∀ i ∈ R, |(outs i).rhs + c * R2CC| < HALF) :
    ∀ i ∈ R, (outs' i).evs = (outs i).evs ∧ (outs' i).rhs = (outs i).rhs + c * R2CC := by
  intro i hi
  have hb := abs_lt.1 (hsmall i hi)
  exact ⟨(direction_rot fuel fuel' c _ _ _ (hdir i hi).2 (hl i hi) (hl' i hi)).1,
    direction_rot_nowrap fuel fuel' c _ _ _ (hdir i hi).2 (hl i hi) (hl' i hi) hb.1 hb.2.le⟩

/-- the wrap exception, precisely: a row of the set whose shifted right-hand side leaves the window
    `(-200, 200]` gon is reduced by a NON-ZERO whole number of circles, so it is shifted by
    `c·R2CC − k·400 gon`, `k ≠ 0`, while the non-wrapping rows of the same set are shifted by `c·R2CC`:
    the set is then not a shift along the orientation column -/
theorem rotation_wrap_exception (fuel fuel' : Nat) (c : ℝ) (o : Obs ℝ) (out out' : LinOut ℝ) (h : ¬ hdist o < CUT)
    (hok : Gen.Lin.direction fuel o = .ok out) (hok' : Gen.Lin.direction fuel' (rotObs c o) = .ok out')
    (hout : out.rhs + c * R2CC ≤ -HALF ∨ HALF < out.rhs + c * R2CC) :
    ∃ k : ℤ, k ≠ 0 ∧ out'.rhs = out.rhs + c * R2CC - k * FULL := by
  obtain ⟨_, k, hk⟩ := direction_rot fuel fuel' c o out out' h hok hok'
  obtain ⟨_, hlo', hhi'⟩ := (direction_ok fuel' (rotObs c o) out' h hok').1
  refine ⟨k, fun h0 => ?_, hk⟩
  rw [h0] at hk; simp at hk
  rcases hout with h1 | h1 <;> linarith

section Rotation
variable {m : Nat} (fuel fuel' : Nat) (c : ℝ) (rows : Fin m → GenRow) (outs outs' : Fin m → LinOut ℝ)

/-- **C07, circle rotation, assembled**: the directions `R` of one set (orientation unknown `uOri`,
    which is the orientation unknown of no other row and not in the regularisation subset) are read
    `c` larger and none of them wraps.  Then the re-expressed pass builds literally the same design
    matrix, and its least-squares solution has the same coordinates, residuals and Φ; the
    orientation unknown is smaller by `c·R2CC`. -/
theorem rotation_solution (R : Finset (Fin m)) (hR : R.Nonempty) (uOri : Unk) (hori : uOri.c = .ori)
    (hg : ∀ i, guard (rows i).kind (rows i).o) (hname : ∀ i r c, ((rows i).name r c).c = c)
    (hdir : ∀ i ∈ R, (rows i).kind = .direction ∧ (rows i).name .station .ori = uOri)
    (hother : ∀ i, i ∉ R → ∀ r, (rows i).name r .ori ≠ uOri)
    (hl : Linearises fuel rows outs)
    (hl' : ∀ i ∈ R, Gen.Lin.direction fuel' (rotObs c (rows i).o) = .ok (outs' i))
    (hsmall : ∀ i ∈ R, |(outs i).rhs + c * R2CC| < HALF)
    (σ : Equiv.Perm (Fin m)) (P : Matrix (Fin m) (Fin m) ℝ) (S : Finset (Fin (finalState (obOf rows outs) σ).maxn))
    (x : Fin (finalState (obOf rows outs) σ).maxn → ℝ) (v : Fin m → ℝ) (rtr : ℝ)
    (h : LS.IsLSSolution (codeMatrixOf (obOf rows outs) σ) (fun r => (outs (σ r)).rhs) P S x v rtr) :
    obOf rows (fun i => if i ∈ R then outs' i else outs i) = obOf rows outs ∧
    ∃ hu : uOri ∈ touchedSet (obOf rows outs),
      (colOf (obOf rows outs) (obOf_wellTouched fuel rows outs hl hg) σ uOri hu ∉ S →
        LS.IsLSSolution (codeMatrixOf (obOf rows outs) σ) (fun r => (if σ r ∈ R then outs' (σ r) else outs (σ r)).rhs) P S
          (x + (-(c * R2CC)) • Pi.single (colOf (obOf rows outs) (obOf_wellTouched fuel rows outs hl hg) σ uOri hu) 1)
          v rtr) := by
  have hd : ∀ i ∈ R, (rows i).kind = .direction ∧ ¬ hdist (rows i).o < CUT := fun i hi => by
    have h1 := (hdir i hi).1
    have h2 := hg i
    rw [h1] at h2
    exact ⟨h1, h2⟩
  have hlR : ∀ i ∈ R, Gen.Lin.direction fuel (rows i).o = .ok (outs i) := fun i hi => by
    have := hl i; rw [(hdir i hi).1] at this; exact this
  have hrot := rotation_nowrap_set fuel fuel' c rows outs outs' R hd hlR hl' hsmall
  refine ⟨?_, ?_⟩
  · funext i
    unfold obOf
    by_cases hi : i ∈ R
    · simp only [hi, if_true, (hrot i hi).1]
    · simp only [hi, if_false]
  · obtain ⟨i0, hi0⟩ := hR
    have hu : uOri ∈ touchedSet (obOf rows outs) := by
      unfold touchedSet
      rw [Finset.mem_biUnion]
      refine ⟨i0, Finset.mem_univ _, ?_⟩
      rw [List.mem_toFinset]
      unfold touchedU obOf
      simp only [List.mem_map]
      exact ⟨(.station, .ori), direction_touches_ori fuel _ _ (hd i0 hi0).2 (hlR i0 hi0), (hdir i0 hi0).2⟩
    refine ⟨hu, fun hk => ?_⟩
    refine solution_shift (obOf rows outs) (obOf_wellTouched fuel rows outs hl hg) σ uOri hu R (c * R2CC) ?_ ?_
      (fun r => (outs (σ r)).rhs) _ ?_ P S hk x v rtr h
    · intro i hi
      rw [identCoef_eq_sum]
      rw [Finset.sum_eq_single (Role.station, Coord.ori)]
      · simp only [obOf, (hdir i hi).2, if_true]
        have := direction_coef_ori fuel _ _ (hd i hi).2 (hlR i hi) .station
        simp only [LinOut.pushes] at this
        rw [this]; simp
      · intro rc _ hne
        by_cases hn : (obOf rows outs i).name rc.1 rc.2 = uOri
        · have hc2 : rc.2 = .ori := by
            have := hname i rc.1 rc.2
            simp only [obOf] at hn; rw [hn] at this; rw [← this, hori]
          have hr : rc.1 ≠ .station := fun hh => hne (Prod.ext hh hc2)
          rw [if_pos hn]
          have : coef (pushes (obOf rows outs i).evs) rc.1 rc.2 = 0 := by
            rw [hc2]
            have := direction_coef_ori fuel _ _ (hd i hi).2 (hlR i hi) rc.1
            simp only [LinOut.pushes] at this
            simp only [obOf]; rw [this, if_neg hr]
          exact this
        · rw [if_neg hn]
      · intro hh; exact absurd (Finset.mem_univ _) hh
    · intro i hi
      rw [identCoef_eq_sum]
      refine Finset.sum_eq_zero fun rc _ => ?_
      by_cases hn : (obOf rows outs i).name rc.1 rc.2 = uOri
      · exfalso
        have hc2 : rc.2 = .ori := by
          have := hname i rc.1 rc.2
          simp only [obOf] at hn; rw [hn] at this; rw [← this, hori]
        simp only [obOf] at hn
        rw [hc2] at hn
        exact hother i hi rc.1 hn
      · rw [if_neg hn]
    · intro r
      by_cases hr : σ r ∈ R
      · simp only [hr, if_true, (hrot _ hr).2]
      · simp only [hr, if_false]

end Rotation

/-! ## translation, assembled (identical problem) -/

/-- the translated description of one observation (observed coordinates are translated too) -/
def trKind (tx ty tz : ℝ) (k : RowKind) (o : Obs ℝ) : Obs ℝ :=
  match k with
  | .x => { trObs tx ty tz o with value := o.value + tx }
  | .y => { trObs tx ty tz o with value := o.value + ty }
  | .z => { trObs tx ty tz o with value := o.value + tz }
  | _ => trObs tx ty tz o

theorem lin_translation (tx ty tz : ℝ) (k : RowKind) (fuel : Nat) (o : Obs ℝ) :
    lin k fuel (trKind tx ty tz k o) = lin k fuel o := by
  cases k
  · exact direction_tr tx ty tz fuel o
  · exact distance_tr tx ty tz fuel o
  · exact angle_tr tx ty tz fuel o
  · exact azimuth_tr tx ty tz fuel o
  · exact s_distance_tr tx ty tz fuel o
  · exact z_angle_tr tx ty tz fuel o
  · exact h_diff_tr tx ty tz fuel o
  · exact x_tr tx ty tz fuel o
  · exact y_tr tx ty tz fuel o
  · exact z_tr tx ty tz fuel o
  · exact xdiff_tr tx ty tz fuel o
  · exact ydiff_tr tx ty tz fuel o
  · exact zdiff_tr tx ty tz fuel o

/-- the whole translated pass linearises to exactly the same outputs: same design matrix, same
    right-hand sides, hence the same least-squares problem -/
theorem translation_pass {m : Nat} (tx ty tz : ℝ) (fuel : Nat) (rows : Fin m → GenRow) (outs : Fin m → LinOut ℝ) :
    Linearises fuel (fun i => { rows i with o := trKind tx ty tz (rows i).kind (rows i).o }) outs ↔
      Linearises fuel rows outs := by
  unfold Linearises
  simp only [lin_translation]

/-! ## a concrete pass (non-vacuity of the assembled theorems) -/

/-- a sight of 5 m observed without misclosure: the direction's right-hand side is 0 -/
noncomputable def exactSight : Obs ℝ :=
  { pfrom := ⟨0, 0, 0, .free, .free⟩, pto := ⟨3, 4, 0, .free, .free⟩, pfs := ⟨0, 0, 0, .unused, .unused⟩,
    value := brg (3 - 0) (4 - 0), orientation := 0, xNorth := 0 }

theorem exactSight_hdist : hdist exactSight = 5 := by
  simp only [hdist, dX, dY, exactSight]
  rw [show ((3:ℝ) - 0) * (3 - 0) + (4 - 0) * (4 - 0) = 5 * 5 by norm_num, Real.sqrt_mul_self (by norm_num)]

theorem exactSight_guard : ¬ hdist exactSight < CUT := by rw [exactSight_hdist]; unfold CUT; norm_num

theorem isWrapOf_zero {r : ℝ} (h : IsWrapOf 0 r) : r = 0 := by
  obtain ⟨⟨k, hk⟩, hlo, hhi⟩ := h
  have hF : FULL = 2 * HALF := by unfold FULL HALF; norm_num
  have hH : (0 : ℝ) < HALF := by unfold HALF; norm_num
  have : k = 0 := int_zero_of_abs_lt (by rw [hk] at hlo hhi; linarith) (by rw [hk] at hlo hhi; linarith)
  rw [hk, this]; simp

theorem exactSight_rhs (fuel : Nat) (out : LinOut ℝ) (hok : Gen.Lin.direction fuel exactSight = .ok out) :
    out.rhs = 0 := by
  have h := (direction_ok fuel exactSight out exactSight_guard hok).1
  have e : (exactSight.value + exactSight.orientation - brg (dX exactSight) (dY exactSight)) * R2CC = 0 := by
    simp [exactSight, dX, dY]
  rw [e] at h
  exact isWrapOf_zero h

/-- point / stand-point numbers of the witness pass; the orientation unknown of the direction row is
    `⟨10, ori⟩`, the distance row has no orientation unknown (its dummy is `⟨11, ori⟩`) -/
def witnessName (st : Nat) : Role → Coord → Unk
  | .pfrom, c => ⟨1, c⟩ | .pto, c => ⟨2, c⟩ | .pfs, c => ⟨3, c⟩ | .station, c => ⟨st, c⟩

noncomputable def witnessRows : Fin 2 → GenRow :=
  ![⟨.direction, exactSight, witnessName 10⟩, ⟨.distance, exactSight, witnessName 11⟩]

theorem witness_guard : ∀ i, guard (witnessRows i).kind (witnessRows i).o := by
  intro i; fin_cases i <;> exact exactSight_guard

theorem witness_name : ∀ i r c, ((witnessRows i).name r c).c = c := by
  intro i r c; fin_cases i <;> cases r <;> rfl

/-- the witness pass linearises, and so do its mirrored and its turned description -/
theorem witness_linearises : ∃ (fuel : Nat) (outs : Fin 2 → LinOut ℝ), Linearises fuel witnessRows outs ∧
    (outs 0).rhs = 0 := by
  obtain ⟨f, out, h⟩ := direction_terminates exactSight exactSight_guard
  obtain ⟨out2, h2⟩ : ∃ out2, Gen.Lin.distance f exactSight = .ok out2 := ⟨_, distance_eq f exactSight exactSight_guard⟩
  refine ⟨f, ![out, out2], ?_, exactSight_rhs f out h⟩
  intro i; fin_cases i
  · exact h
  · exact h2

theorem witness_mirror_linearises : ∃ (fuel : Nat) (outs : Fin 2 → LinOut ℝ),
    Linearises fuel (fun i => mirRow (witnessRows i)) outs := by
  have hg : ¬ hdist (negObs exactSight) < CUT := by
    rw [show hdist (negObs exactSight) = hdist exactSight from hdist_flip _]; exact exactSight_guard
  have hg2 : ¬ hdist (flipObs exactSight) < CUT := by rw [hdist_flip]; exact exactSight_guard
  obtain ⟨f, out, h⟩ := direction_terminates (negObs exactSight) hg
  obtain ⟨out2, h2⟩ : ∃ out2, Gen.Lin.distance f (flipObs exactSight) = .ok out2 := ⟨_, distance_eq f _ hg2⟩
  refine ⟨f, ![out, out2], ?_⟩
  intro i; fin_cases i
  · exact h
  · exact h2

/-! ## same coefficients by identity (swap of the ends, renaming): assembled -/

section Ident
set_option linter.unusedSectionVars false
variable {K : Type} [Field K] {m : Nat} (obs obs' : Fin m → Ob K)
variable (hw : ∀ i, wellTouched (obs i).evs [] = true) (hw' : ∀ i, wellTouched (obs' i).evs [] = true)

/-- columns of the two design matrices matched by the identity of their unknowns -/
noncomputable def identCol (hS : touchedSet obs' = touchedSet obs) (σ τ : Equiv.Perm (Fin m)) :
    Fin (finalState obs' τ).maxn ≃ Fin (finalState obs σ).maxn :=
  (colEq obs' hw' τ).symm.trans ((Equiv.subtypeEquivRight (fun u => by rw [hS])).trans (colEq obs hw σ))

/-- **assembled, identity-preserving re-expressions**: two descriptions of the same observations
    that allocate the same SET of unknowns (in any order — e.g. the ends of a distance exchanged, so
    that `to` is allocated before `from`) and give every unknown the same coefficient in every row
    build design matrices that differ by the row permutation `σ⁻¹ ∘ τ` and the column renumbering that
    matches unknowns by identity -/
theorem codeMatrixOf_ident (hS : touchedSet obs' = touchedSet obs)
    (hc : ∀ i u, identCoef (obs' i) u = identCoef (obs i) u) (σ τ : Equiv.Perm (Fin m)) :
    codeMatrixOf obs' τ = (codeMatrixOf obs σ).submatrix (τ.trans σ.symm) (identCol obs obs' hw hw' hS σ τ) := by
  rw [codeMatrixOf_eq obs hw σ, codeMatrixOf_eq obs' hw' τ]
  ext r j
  simp [identMatrix, identCol, hc]

/-- … and the solution of one is the renumbered solution of the other (LS5 on the generated matrices) -/
theorem solution_ident (hS : touchedSet obs' = touchedSet obs)
    (hc : ∀ i u, identCoef (obs' i) u = identCoef (obs i) u) (σ τ : Equiv.Perm (Fin m))
    (rhs : Fin m → K) (W : Matrix (Fin m) (Fin m) K) (S : Finset (Fin (finalState obs σ).maxn))
    (x : Fin (finalState obs σ).maxn → K) (v : Fin m → K) (rtr : K)
    (h : LS.IsLSSolution (codeMatrixOf obs σ) (rhs ∘ σ) (W.submatrix σ σ) S x v rtr) :
    LS.IsLSSolution (codeMatrixOf obs' τ) (rhs ∘ τ) (W.submatrix τ τ)
      (S.map (identCol obs obs' hw hw' hS σ τ).symm.toEmbedding)
      (x ∘ identCol obs obs' hw hw' hS σ τ) (v ∘ (τ.trans σ.symm)) rtr := by
  have := h.perm (τ.trans σ.symm) (identCol obs obs' hw hw' hS σ τ)
  rw [← codeMatrixOf_ident obs obs' hw hw' hS hc σ τ] at this
  have e1 : (rhs ∘ σ) ∘ (τ.trans σ.symm) = rhs ∘ τ := by funext r; simp
  have e2 : (W.submatrix σ σ).submatrix (τ.trans σ.symm) (τ.trans σ.symm) = W.submatrix τ τ := by
    ext r c; simp
  rw [e1, e2] at this
  exact this

end Ident

theorem swapRole_swapRole (r : Role) : swapRole (swapRole r) = r := by cases r <;> rfl

/-- exchanging the roles `from` ↔ `to` in a (role, coordinate) pair -/
def swapRC : Role × Coord ≃ Role × Coord where
  toFun p := (swapRole p.1, p.2)
  invFun p := (swapRole p.1, p.2)
  left_inv p := by simp [swapRole_swapRole]
  right_inv p := by simp [swapRole_swapRole]

/-- coefficients exchanged with the ends ⇒ every unknown (by identity) keeps its coefficient -/
theorem identCoef_swap (name : Role → Coord → Unk) (evs evs' : List (Ev ℝ))
    (h : ∀ r c, coef (pushes evs') (swapRole r) c = coef (pushes evs) r c) (u : Unk) :
    identCoef ⟨fun r c => name (swapRole r) c, evs'⟩ u = identCoef ⟨name, evs⟩ u := by
  rw [identCoef_eq_sum, identCoef_eq_sum]
  refine Finset.sum_equiv swapRC (by simp) (fun rc _ => ?_)
  have := h (swapRole rc.1) rc.2
  rw [swapRole_swapRole] at this
  simp only [swapRC, Equiv.coe_fn_mk, this]
  rfl

/-- exchanging the ends of a distance: the same unknowns are allocated (in the other order) and
    every unknown keeps its coefficient; the right-hand side is the same -/
theorem distance_swap_ident (fuel : Nat) (o : Obs ℝ) (name : Role → Coord → Unk) (out out' : LinOut ℝ)
    (h : ¬ hdist o < CUT) (hok : Gen.Lin.distance fuel o = .ok out) (hok' : Gen.Lin.distance fuel (swapObs o) = .ok out') :
    out'.rhs = out.rhs ∧
    (touchedU ⟨fun r c => name (swapRole r) c, out'.evs⟩).toFinset = (touchedU ⟨name, out.evs⟩).toFinset ∧
    ∀ u, identCoef ⟨fun r c => name (swapRole r) c, out'.evs⟩ u = identCoef ⟨name, out.evs⟩ u := by
  have hs := distance_swap fuel o out out' h hok hok'
  refine ⟨hs.1, ?_, fun u => identCoef_swap name out.evs out'.evs hs.2 u⟩
  have h' : ¬ hdist (swapObs o) < CUT := by rw [hdist_swap]; exact h
  rw [distance_eq fuel o h] at hok
  rw [distance_eq fuel _ h'] at hok'
  injection hok with hok; injection hok' with hok'; subst hok; subst hok'
  have e1 : (swapObs o).pfrom.free_xy = o.pto.free_xy := rfl
  have e2 : (swapObs o).pto.free_xy = o.pfrom.free_xy := rfl
  simp only [touchedU, e1, e2]
  cases o.pfrom.free_xy <;> cases o.pto.free_xy <;> simp [touches, swapRole, Finset.ext_iff] <;> tauto

end Gama.Lin
