/-
  C07 — the input-side solver hypothesis `InputGap` is invariant under the mirror (round 13, item 3, first half):
  `A' = D_s A D_t`, `P' = D_s P D_s`, `s² = t² = 1`, same regularisation subset, same `τ`.

    * `gapAllP_mirror`   the Schur pivots of `AᵀPA` in every order (`GapAllP`)
    * `sMargin_mirror`   the margin with which `S` resolves the defect (`SMargin`)
    * `singGap_mirror`   the eigenvalue gap of `AᵀPA` (`SingGap`)
    * `inputGap_mirror`  `InputGap alg A P S τ → InputGap alg A' P' S τ`, every algorithm
-/
import Gama.Lemmas.Ls.InputGap
import Gama.Lemmas.C07LS
namespace Gama.C07Gap
open Gama Gama.Ls Gama.LS Matrix Finset

section
variable {K : Type} [Field K] [LinearOrder K] [IsStrictOrderedRing K] {m n : ℕ}
variable (A : Matrix (Fin m) (Fin n) K) (P : Matrix (Fin m) (Fin m) K) (s : Fin m → K) (t : Fin n → K)

theorem diag_sq (u : Fin n → K) (hu : ∀ i, u i * u i = 1) (g : Fin n → K) : diagonal u *ᵥ (diagonal u *ᵥ g) = g := by
  funext i; rw [mulVec_diagonal, mulVec_diagonal, ← mul_assoc, hu, one_mul]

theorem diag_sq_m (u : Fin m → K) (hu : ∀ i, u i * u i = 1) (g : Fin m → K) : diagonal u *ᵥ (diagonal u *ᵥ g) = g := by
  funext i; rw [mulVec_diagonal, mulVec_diagonal, ← mul_assoc, hu, one_mul]

/-- `A' β = D_s (A (D_t β))` -/
theorem mir_mulVec (β : Fin n → K) :
    (diagonal s * A * diagonal t) *ᵥ β = diagonal s *ᵥ (A *ᵥ (diagonal t *ᵥ β)) := by
  rw [← mulVec_mulVec, ← mulVec_mulVec]

/-- `P' (D_s w) = D_s (P w)` -/
theorem mir_weight (hs : ∀ i, s i * s i = 1) (w : Fin m → K) :
    (diagonal s * P * diagonal s) *ᵥ (diagonal s *ᵥ w) = diagonal s *ᵥ (P *ᵥ w) := by
  rw [← mulVec_mulVec, ← mulVec_mulVec, diag_sq_m s hs]

/-- `A'ᵀ (D_s z) = D_t (Aᵀ z)` -/
theorem mir_transpose (hs : ∀ i, s i * s i = 1) (z : Fin m → K) :
    (diagonal s * A * diagonal t)ᵀ *ᵥ (diagonal s *ᵥ z) = diagonal t *ᵥ (Aᵀ *ᵥ z) := by
  rw [transpose_mul, transpose_mul, diagonal_transpose, diagonal_transpose, ← mulVec_mulVec, ← mulVec_mulVec,
    diag_sq_m s hs]

theorem dot_diag (hs : ∀ i, s i * s i = 1) (a b : Fin m → K) :
    (diagonal s *ᵥ a) ⬝ᵥ (diagonal s *ᵥ b) = a ⬝ᵥ b := by
  unfold dotProduct
  refine Finset.sum_congr rfl fun i _ => ?_
  rw [mulVec_diagonal, mulVec_diagonal]
  calc s i * a i * (s i * b i) = (s i * s i) * (a i * b i) := by ring
    _ = a i * b i := by rw [hs, one_mul]

theorem gapAllP_mirror (hs : ∀ i, s i * s i = 1) (ht : ∀ j, t j * t j = 1) (τ : K) (h : GapAllP A P τ) :
    GapAllP (diagonal s * A * diagonal t) (diagonal s * P * diagonal s) τ := by
  intro k β' hk horth
  -- the vector of the original system
  set γ : Fin n → K := diagonal t *ᵥ β' with hγ
  set β : Fin n → K := t k • γ with hβ
  have hAγ : (diagonal s * A * diagonal t) *ᵥ β' = diagonal s *ᵥ (A *ᵥ γ) := mir_mulVec A s t β'
  have hAβ : A *ᵥ β = t k • (A *ᵥ γ) := by rw [hβ, mulVec_smul]
  have hquad : ((diagonal s * A * diagonal t) *ᵥ β') ⬝ᵥ (diagonal s * P * diagonal s) *ᵥ ((diagonal s * A * diagonal t) *ᵥ β')
      = (A *ᵥ β) ⬝ᵥ P *ᵥ (A *ᵥ β) := by
    rw [hAγ, mir_weight P s hs, dot_diag s hs, hAβ, mulVec_smul, smul_dotProduct, dotProduct_smul, smul_eq_mul,
      smul_eq_mul, ← mul_assoc, ht, one_mul]
  have hβk : β k = 1 := by
    rw [hβ, hγ]; show t k * (diagonal t *ᵥ β') k = 1
    rw [mulVec_diagonal, hk, mul_one, ht]
  have hβj : ∀ j, β j = t k * (t j * β' j) := fun j => by
    rw [hβ, hγ]; show t k * (diagonal t *ᵥ β') j = _
    rw [mulVec_diagonal]
  have horth' : ∀ j, j ≠ k → β j ≠ 0 → (Aᵀ *ᵥ (P *ᵥ (A *ᵥ β))) j = 0 := by
    intro j hj hne
    have hb' : β' j ≠ 0 := by
      intro h0; apply hne; rw [hβj, h0, mul_zero, mul_zero]
    have h1 := horth j hj hb'
    rw [hAγ, mir_weight P s hs, mir_transpose A s t hs, mulVec_diagonal] at h1
    have h2 : (Aᵀ *ᵥ (P *ᵥ (A *ᵥ γ))) j = 0 := by
      have : t j * (t j * (Aᵀ *ᵥ (P *ᵥ (A *ᵥ γ))) j) = 0 := by rw [h1, mul_zero]
      rwa [← mul_assoc, ht, one_mul] at this
    rw [hAβ, mulVec_smul, mulVec_smul]
    show t k * (Aᵀ *ᵥ (P *ᵥ (A *ᵥ γ))) j = 0
    rw [h2, mul_zero]
  rw [hquad]
  exact h k β hβk horth'

theorem sMargin_mirror (hs : ∀ i, s i * s i = 1) (ht : ∀ j, t j * t j = 1) (S : Finset (Fin n)) (τ : K)
    (h : SMargin A S τ) : SMargin (diagonal s * A * diagonal t) S τ := by
  intro g' hk hne
  set g : Fin n → K := diagonal t *ᵥ g' with hg
  have hAg : A *ᵥ g = 0 := by
    have h1 : diagonal s *ᵥ (A *ᵥ g) = 0 := by rw [← mir_mulVec A s t g']; exact hk
    have := congrArg (fun w => diagonal s *ᵥ w) h1
    simp only [mulVec_zero] at this
    rwa [diag_sq_m s hs] at this
  have hgne : g ≠ 0 := by
    intro h0; apply hne
    have : diagonal t *ᵥ g = g' := diag_sq t ht g'
    rw [← this, h0, mulVec_zero]
  have hsq : ∀ i, g i * g i = g' i * g' i := fun i => by
    rw [hg, mulVec_diagonal]
    calc t i * g' i * (t i * g' i) = (t i * t i) * (g' i * g' i) := by ring
      _ = g' i * g' i := by rw [ht, one_mul]
  have := h g hAg hgne
  have e1 : g ⬝ᵥ g = g' ⬝ᵥ g' := by unfold dotProduct; exact Finset.sum_congr rfl fun i _ => hsq i
  have e2 : ∑ i ∈ S, g i * g i = ∑ i ∈ S, g' i * g' i := Finset.sum_congr rfl fun i _ => hsq i
  rwa [e1, e2] at this

theorem normal_mirror_vec (hs : ∀ i, s i * s i = 1) (v : Fin n → K) :
    ((diagonal s * A * diagonal t)ᵀ * (diagonal s * P * diagonal s) * (diagonal s * A * diagonal t)) *ᵥ v
      = diagonal t *ᵥ ((Aᵀ * P * A) *ᵥ (diagonal t *ᵥ v)) := by
  have e1 : ((diagonal s * A * diagonal t)ᵀ * (diagonal s * P * diagonal s) * (diagonal s * A * diagonal t)) *ᵥ v
      = (diagonal s * A * diagonal t)ᵀ *ᵥ ((diagonal s * P * diagonal s) *ᵥ ((diagonal s * A * diagonal t) *ᵥ v)) := by
    rw [mulVec_mulVec, mulVec_mulVec]
  have e2 : (Aᵀ * P * A) *ᵥ (diagonal t *ᵥ v) = Aᵀ *ᵥ (P *ᵥ (A *ᵥ (diagonal t *ᵥ v))) := by
    rw [← mulVec_mulVec, ← mulVec_mulVec]
  rw [e1, mir_mulVec A s t v, mir_weight P s hs, mir_transpose A s t hs, e2]

theorem isEig_mirror (hs : ∀ i, s i * s i = 1) (ht : ∀ j, t j * t j = 1) (lam : K)
    (h : IsEig ((diagonal s * A * diagonal t)ᵀ * (diagonal s * P * diagonal s) * (diagonal s * A * diagonal t)) lam) :
    IsEig (Aᵀ * P * A) lam := by
  obtain ⟨v, hv, he⟩ := h
  refine ⟨diagonal t *ᵥ v, ?_, ?_⟩
  · intro h0; apply hv
    have : diagonal t *ᵥ (diagonal t *ᵥ v) = v := diag_sq t ht v
    rw [← this, h0, mulVec_zero]
  · rw [normal_mirror_vec A P s t hs] at he
    have this : diagonal t *ᵥ (diagonal t *ᵥ ((Aᵀ * P * A) *ᵥ (diagonal t *ᵥ v))) = diagonal t *ᵥ (lam • v) := by
      rw [he]
    rw [diag_sq t ht, mulVec_smul] at this
    exact this

theorem singGap_mirror (hs : ∀ i, s i * s i = 1) (ht : ∀ j, t j * t j = 1) (τ : K) (h : SingGap A P τ) :
    SingGap (diagonal s * A * diagonal t) (diagonal s * P * diagonal s) τ :=
  fun lam mu hl hm => h lam mu (isEig_mirror A P s t hs ht lam hl) (isEig_mirror A P s t hs ht mu hm)

end

section inputGap
variable {K : Type} [Field K] [LinearOrder K] [IsStrictOrderedRing K] [Gso.SqrtField K] {m n : ℕ}
attribute [local instance] sqrtFnOfSqrtField
attribute [local instance 2000] scalarOfField

/-- **`InputGap` is invariant under the mirror**, every algorithm -/
theorem inputGap_mirror (alg : Alg) (A : Matrix (Fin m) (Fin n) K) (P : Matrix (Fin m) (Fin m) K) (S : Finset (Fin n))
    (τ : K) (s : Fin m → K) (t : Fin n → K) (hs : ∀ i, s i * s i = 1) (ht : ∀ j, t j * t j = 1)
    (h : InputGap alg A P S τ) :
    InputGap alg (diagonal s * A * diagonal t) (diagonal s * P * diagonal s) S τ := by
  cases alg with
  | svd => exact ⟨h.1, singGap_mirror A P s t hs ht τ h.2⟩
  | env => exact ⟨h.1, gapAllP_mirror A P s t hs ht τ h.2.1, sMargin_mirror A s t hs ht S τ h.2.2⟩
  | chol => exact ⟨h.1, gapAllP_mirror A P s t hs ht τ h.2.1, sMargin_mirror A s t hs ht S τ h.2.2⟩
  | gso => exact ⟨h.1, gapAllP_mirror A P s t hs ht τ h.2.1, sMargin_mirror A s t hs ht S τ h.2.2⟩

end inputGap

section unique
variable {K : Type} [Field K] [LinearOrder K] [IsStrictOrderedRing K] {m n : ℕ}

/-- **the least-squares solution of the mirrored system IS the mirrored solution**: whatever satisfies the
    specification on `(D_s A D_t, D_s b, D_s P D_s, S)` equals `(D_t x, D_s v, Φ)` of a solution `(x, v, Φ)` of
    `(A, b, P, S)` — `P` positive definite, `S` resolving the defect of `A` -/
theorem mirror_solution_unique (A : Matrix (Fin m) (Fin n) K) (b : Fin m → K) (P : Matrix (Fin m) (Fin m) K)
    (S : Finset (Fin n)) (s : Fin m → K) (t : Fin n → K) (hs : ∀ i, s i * s i = 1) (ht : ∀ j, t j * t j = 1)
    (hpd : ∀ d, d ≠ 0 → 0 < d ⬝ᵥ P *ᵥ d) (hS : Resolves A S)
    (x x' : Fin n → K) (v v' : Fin m → K) (rtr rtr' : K)
    (h : IsLSSolution A b P S x v rtr)
    (h' : IsLSSolution (diagonal s * A * diagonal t) (diagonal s *ᵥ b) (diagonal s * P * diagonal s) S x' v' rtr') :
    x' = diagonal t *ᵥ x ∧ v' = diagonal s *ᵥ v ∧ rtr' = rtr := by
  have h1 := (h.rowSign s hs).colSign t ht
  have hpd' : ∀ d, d ≠ 0 → 0 < d ⬝ᵥ (diagonal s * P * diagonal s) *ᵥ d := by
    intro d hd
    have hd' : diagonal s *ᵥ d ≠ 0 := by
      intro h0; apply hd
      have : diagonal s *ᵥ (diagonal s *ᵥ d) = d := diag_sq_m s hs d
      rw [← this, h0, mulVec_zero]
    have hq := hpd _ hd'
    have e : d ⬝ᵥ (diagonal s * P * diagonal s) *ᵥ d = (diagonal s *ᵥ d) ⬝ᵥ P *ᵥ (diagonal s *ᵥ d) := by
      have e1 : (diagonal s * P * diagonal s) *ᵥ d = diagonal s *ᵥ (P *ᵥ (diagonal s *ᵥ d)) := by
        rw [← mulVec_mulVec, ← mulVec_mulVec]
      rw [e1, ← dot_diag s hs d, diag_sq_m s hs]
    rw [e]; exact hq
  have hS' : Resolves (diagonal s * A * diagonal t) S := by
    intro g hg hz
    have hAg : A *ᵥ (diagonal t *ᵥ g) = 0 := by
      have h1 : diagonal s *ᵥ (A *ᵥ (diagonal t *ᵥ g)) = 0 := by rw [← mir_mulVec A s t g]; exact hg
      have h2 : diagonal s *ᵥ (diagonal s *ᵥ (A *ᵥ (diagonal t *ᵥ g))) = 0 := by rw [h1, mulVec_zero]
      rwa [diag_sq_m s hs] at h2
    have h0 := hS _ hAg (fun i hi => by rw [mulVec_diagonal, hz i hi, mul_zero])
    have : diagonal t *ᵥ (diagonal t *ᵥ g) = g := diag_sq t ht g
    rw [← this, h0, mulVec_zero]
  obtain ⟨e1, e2, e3⟩ := h1.unique h' hpd' hS'
  exact ⟨e1.symm, e2.symm, e3.symm⟩

end unique

end Gama.C07Gap
