/-
  C19 round 10 — `Env.InputOK (dumpOf …)` derived, and the `BlockDiagonal` sizing.

    * `bd_adequate`   : `BlockDiagonal<>(blocks, nonzeroes)` as allocated from `Cluster::update`'s `act_nonz`
                        (`bdAnnounced`) = the number of `add_block` calls and of doubles they copy (`bdWritten`);
    * `dump_blocksWF` : every block of the dump has `width ≤ dim` and `dim·(w+1) − w(w+1)/2` stored elements;
    * `dump_dims`     : the block dimensions add up to the number of project equations;
    * `dump_rowsOK`   : the column indices of every sparse row are distinct and in `1..dm_cols`, PROVIDED the point
                        names of every record are pairwise distinct (`DistinctRoles`, a decidable predicate on the
                        input: a vector from a point to itself would alias two coefficient triples);
    * `dump_inputOK`  : together.
-/
import Gama.Lemmas.G3DumpLemmas
import Gama.Lemmas.G3DumpFloats
import Gama.Lemmas.CovActive
namespace Gama
namespace G3Dump
open Neu G3Book G3Lin G3Net Gama.Gen.G3Lin Gama.Ls Gama.Ls.AdjM

set_option linter.unusedSectionVars false
set_option linter.unusedVariables false

variable {ι : Type} [DecidableEq ι]

/-! ### clusters -/

/-- `act_dim` of `Cluster::update()` -/
def actDim (obs : List Cov.ObsInfo) : Nat := ((obs.filter (·.active)).map (·.dimension)).sum

theorem activeIdx_length (n : Nat) (obs : List Cov.ObsInfo) : (Cov.activeIdx n obs).length = actDim obs := by
  induction obs generalizing n with
  | nil => rfl
  | cons o rest ih =>
    unfold actDim at ih ⊢
    simp only [Cov.activeIdx, List.length_append, ih, List.filter_cons]
    cases h : o.active <;> simp [h]

section blk
variable {K : Type} [Zero K]

theorem activeCov_shape (cov : Cov.CovMat K) (obs : List Cov.ObsInfo) :
    (Cov.activeCov cov obs).WF ∧ (Cov.activeCov cov obs).dim = actDim obs ∧
      (Cov.activeCov cov obs).band = Cov.actBand cov.band (actDim obs) := by
  obtain ⟨hw, hd, hb, -⟩ := Cov.activeCov_submatrix cov obs
  simp only [List.size_toArray, activeIdx_length] at hd hb
  exact ⟨hw, hd, hb⟩

end blk

/-- `act_nonz` of `Cluster::update()` is the packed size of the matrix `activeCov()` returns -/
theorem clusterUpdate_nonz (obs : List Cov.ObsInfo) (band : Nat) :
    (Cov.clusterUpdate obs band).2.2 =
      if actDim obs ≠ 0 then Cov.Packed.size (actDim obs) (Cov.actBand band (actDim obs)) else 0 := by
  unfold Cov.clusterUpdate actDim Cov.actBand Cov.Packed.size
  simp only
  split
  · rfl
  · rfl

/-- a non-empty band matrix stores at least `dim` elements -/
theorem packed_size_pos (d b : Nat) (hd : d ≠ 0) (hb : b + 1 ≤ d) : 0 < Cov.Packed.size d b := by
  unfold Cov.Packed.size
  have h1 : (b : Int) * ((b : Int) + 1) ≤ (d : Int) * ((b : Int) + 1) - ((b : Int) + 1) := by
    have : ((b : Int) + 1) ≤ (d : Int) := by exact_mod_cast hb
    nlinarith
  have h2 : (0 : Int) ≤ (b : Int) * ((b : Int) + 1) := by positivity
  have h3 : (b : Int) * ((b : Int) + 1) / 2 ≤ (b : Int) * ((b : Int) + 1) := Int.ediv_le_self _ h2
  have h4 : (0 : Int) ≤ (b : Int) := by positivity
  omega

theorem actBand_lt (band N : Nat) (hN : N ≠ 0) : Cov.actBand band N + 1 ≤ N := by
  unfold Cov.actBand
  rw [if_pos hN]
  split <;> omega

section bd
variable (net : Net ι ℝ) (sd : ℝ)

theorem clusterBlock_shape (cl : Cluster ι ℝ) :
    (clusterBlock net sd cl).dim = actDim (infoOf net cl) ∧
    (clusterBlock net sd cl).band = Cov.actBand cl.cov.band (actDim (infoOf net cl)) ∧
    ((clusterBlock net sd cl).buf.size : Int) = Cov.Packed.size (clusterBlock net sd cl).dim (clusterBlock net sd cl).band := by
  obtain ⟨hw, hd, hb⟩ := activeCov_shape cl.cov (infoOf net cl)
  refine ⟨hd, hb, ?_⟩
  have := hw.size_eq
  simpa [clusterBlock, cofactor, cofactorBlock] using this

theorem covBlocks_cons (cl : Cluster ι ℝ) (rest : List (Cluster ι ℝ)) :
    covBlocks net sd (cl :: rest) =
      if (clusterBlock net sd cl).dim = 0 then covBlocks net sd rest
      else ⟨(clusterBlock net sd cl).dim, (clusterBlock net sd cl).band, (clusterBlock net sd cl).buf⟩ :: covBlocks net sd rest := by
  by_cases h : (clusterBlock net sd cl).dim = 0
  · simp [covBlocks, List.filterMap_cons, h]
  · simp [covBlocks, List.filterMap_cons, h]

/-- one step of the first loop -/
def bdStep (net : Net ι ℝ) (acc : Nat × Int) (cl : Cluster ι ℝ) : Nat × Int :=
  let n := (Cov.clusterUpdate (infoOf net cl) cl.cov.band).2.2
  if n ≠ 0 then (acc.1 + 1, acc.2 + n) else acc

theorem bdStep_eq (acc : Nat × Int) (cl : Cluster ι ℝ) :
    bdStep net acc cl = if actDim (infoOf net cl) = 0 then acc
      else (acc.1 + 1, acc.2 + Cov.Packed.size (actDim (infoOf net cl)) (Cov.actBand cl.cov.band (actDim (infoOf net cl)))) := by
  unfold bdStep
  simp only [clusterUpdate_nonz]
  by_cases hN : actDim (infoOf net cl) = 0
  · simp [hN]
  · have hpos := packed_size_pos _ _ hN (actBand_lt cl.cov.band _ hN)
    have hne : Cov.Packed.size (actDim (infoOf net cl)) (Cov.actBand cl.cov.band (actDim (infoOf net cl))) ≠ 0 := by omega
    simp [hN, hne]

/-- **the `BlockDiagonal` is allocated for exactly what `add_block` receives** -/
theorem bd_adequate (cls : List (Cluster ι ℝ)) : bdAnnounced net cls = bdWritten (covBlocks net sd cls) := by
  have key : ∀ (cls : List (Cluster ι ℝ)) (acc : Nat × Int),
      cls.foldl (bdStep net) acc
      = (acc.1 + (covBlocks net sd cls).length,
         acc.2 + ((covBlocks net sd cls).map fun b => Cov.Packed.size b.dim b.width).sum) := by
    intro cls
    induction cls with
    | nil => intro acc; simp [covBlocks]
    | cons cl rest ih =>
      intro acc
      obtain ⟨hd, hb, _⟩ := clusterBlock_shape net sd cl
      rw [List.foldl_cons, bdStep_eq, covBlocks_cons, ih]
      by_cases hN : actDim (infoOf net cl) = 0
      · have hcd : (clusterBlock net sd cl).dim = 0 := by rw [hd, hN]
        simp [hN, hcd]
      · have hcd : (clusterBlock net sd cl).dim ≠ 0 := by rw [hd]; exact hN
        simp only [hN, hcd, if_false, List.length_cons, List.map_cons, List.sum_cons, hd, hb]
        refine Prod.ext ?_ ?_ <;> simp <;> omega
  show cls.foldl (bdStep net) (0, 0) = _
  rw [key cls (0, 0)]
  simp [bdWritten]

/-- every block of the dump is a well-formed `BlockDiagonal` block -/
theorem covBlocks_WF (cls : List (Cluster ι ℝ)) : ∀ b ∈ covBlocks net sd cls, Env.BlockWF b := by
  intro b hb
  simp only [covBlocks, List.mem_filterMap] at hb
  obtain ⟨cl, _, h⟩ := hb
  split at h
  · injection h with h
    subst h
    obtain ⟨hd, hbd, hs⟩ := clusterBlock_shape net sd cl
    refine ⟨?_, hs⟩
    show (clusterBlock net sd cl).band ≤ (clusterBlock net sd cl).dim
    rw [hd, hbd]
    exact Cov.actBand_le _ _
  · cases h

theorem covBlocks_dims (cls : List (Cluster ι ℝ)) :
    ((covBlocks net sd cls).map (·.dim)).sum = (cls.map fun cl => actDim (infoOf net cl)).sum := by
  induction cls with
  | nil => rfl
  | cons cl rest ih =>
    obtain ⟨hd, _, _⟩ := clusterBlock_shape net sd cl
    rw [covBlocks_cons]
    by_cases hN : actDim (infoOf net cl) = 0
    · have hcd : (clusterBlock net sd cl).dim = 0 := by rw [hd, hN]
      simp [hcd, hN, ih]
    · have hcd : (clusterBlock net sd cl).dim ≠ 0 := by rw [hd]; exact hN
      rw [if_neg hcd]
      simp [hd, ih]

end bd

/-! ### block dimensions add up to the number of equations -/

section dims
variable {K : Type}

/-- dimension contributed by a record: `dimension()` if it is active after the revision -/
def recDim (net : Net ι K) (e : Bool × NObs ι K) : Nat :=
  if e.1 && (revision net.points e.2.obs).isSome then e.2.obs.dimension else 0

theorem actDim_info (net : Net ι K) (l : List (Bool × NObs ι K)) :
    actDim (l.map fun e => (⟨e.1 && (revision net.points e.2.obs).isSome, e.2.obs.dimension⟩ : Cov.ObsInfo))
      = (l.map (recDim net)).sum := by
  induction l with
  | nil => rfl
  | cons e l ih =>
    unfold actDim at ih ⊢
    simp only [List.map_cons, List.filter_cons, List.sum_cons, recDim]
    cases h : (e.1 && (revision net.points e.2.obs).isSome) <;> simp [h, ih]

theorem active_dims (net : Net ι K) (l : List (Bool × NObs ι K)) :
    ((((l.filter (·.1)).map (·.2)).filter fun o => (revision net.points o.obs).isSome).map fun o => o.obs.dimension).sum
      = (l.map (recDim net)).sum := by
  induction l with
  | nil => rfl
  | cons e l ih =>
    obtain ⟨a, o⟩ := e
    cases a <;> cases h : (revision net.points o.obs).isSome <;>
      simp [List.filter_cons, recDim, h, ih]

theorem sum_flatMap_map {α : Type} (cls : List α) (F : α → List (Bool × NObs ι K)) (g : Bool × NObs ι K → Nat) :
    (cls.map fun c => ((F c).map g).sum).sum = ((cls.flatMap F).map g).sum := by
  induction cls with
  | nil => rfl
  | cons c rest ih => simp [List.flatMap_cons, List.map_append, List.sum_append, ih]

theorem clusters_dims (net : Net ι K) (cls : List (Cluster ι K)) :
    (cls.map fun cl => actDim (infoOf net cl)).sum
      = ((activeOf net (nobsOf cls)).map fun o => o.obs.dimension).sum := by
  unfold activeOf nobsOf records
  rw [active_dims, ← sum_flatMap_map]
  congr 1
  apply List.map_congr_left
  intro cl _
  exact actDim_info net cl.obs

theorem netEqs_length_dims [Trig K] (net : Net ι K) (nobs : List (NObs ι K)) :
    (netEqs net nobs).length = ((activeOf net nobs).map fun o => o.obs.dimension).sum := by
  simp only [netEqs, linearizeNet, List.flatMap_map, List.length_flatMap]
  congr 1
  apply List.map_congr_left
  intro o _
  have := genOf_lengths o.obs (ptsOf net (bookOf net nobs).idx.ind o.obs) o.o net.tol
  simp only [linObs, evalLin, List.length_zip, List.length_map]
  rw [this.1, this.2, Nat.min_self]

end dims

attribute [local instance] sqrtFnOfSqrtField
attribute [local instance 2000] scalarOfField

/-- **`Σ block dimensions = number of project equations`** -/
theorem dump_dims (net : Net ι ℝ) (sd : ℝ) (cls : List (Cluster ι ℝ)) :
    (dimsOf (dumpOfR net sd cls)).sum = (dumpOfR net sd cls).m := by
  show (((covBlocks net sd cls).toArray.toList).map (·.dim)).sum = (netEqsR net (nobsOf cls)).length
  rw [List.toList_toArray, covBlocks_dims, clusters_dims]
  exact (@netEqs_length_dims ι _ ℝ realTrig net (nobsOf cls)).symm

/-- **every block of the dump is a well-formed `BlockDiagonal` block** -/
theorem dump_blocksWF (net : Net ι ℝ) (sd : ℝ) (cls : List (Cluster ι ℝ)) : Env.BlocksWF (dumpOfR net sd cls) := by
  intro b hb
  have hb' : b ∈ (covBlocks net sd cls).toArray.toList := hb
  rw [List.toList_toArray] at hb'
  exact covBlocks_WF net sd cls b hb'

/-! ### the sparse rows: distinct columns in `1..dm_cols` -/

/-- the point names of a record are pairwise distinct -/
def rolesDistinct : Obs ι → Bool
  | .angle f l r => decide (f ≠ l) && decide (f ≠ r) && decide (l ≠ r)
  | .azimuth f t => decide (f ≠ t)
  | .distance f t => decide (f ≠ t)
  | .zenith f t => decide (f ≠ t)
  | .vector f t => decide (f ≠ t)
  | .hdiff f t => decide (f ≠ t)
  | .height _ => true
  | .xyz _ => true

/-- **the visible hypothesis**: no record of the input names the same point twice (decidable on the input) -/
def DistinctRoles {K : Type} (cls : List (Cluster ι K)) : Prop := ∀ no ∈ nobsOf cls, rolesDistinct no.obs = true

instance {K : Type} (cls : List (Cluster ι K)) : Decidable (DistinctRoles cls) := by
  unfold DistinctRoles; infer_instance

/-- the unknowns an observation's rows may refer to -/
def patOf : Obs ι → List (Role × Comp)
  | .angle .. => patAngle
  | .azimuth .. => patAzimuth
  | .distance .. => patFromTo
  | .zenith .. => patFromTo
  | .vector .. => patFromTo
  | .hdiff .. => patHdiff
  | .height .. => patHeight
  | .xyz .. => patPoint

/-- the parameters `Model::revision(T*)` passes to `update_index` -/
def touchList : Obs ι → List (Par ι)
  | .angle f l r => neu f ++ neu l ++ neu r
  | .azimuth f t => neu f ++ neu t
  | .distance f t => neu f ++ neu t
  | .zenith f t => neu f ++ neu t
  | .vector f t => neu f ++ neu t
  | .hdiff f t => [(f, .U), (t, .U)]
  | .height p => [(p, .U)]
  | .xyz p => neu p

theorem touches_eq (P : Points ι) (o : Obs ι) (r : Rev ι) (h : revision P o = some r) : r.touches = touchList o := by
  cases o <;> simp only [revision, revFromTo] at h <;> (repeat' split at h) <;>
    first
    | (cases h; rfl)
    | (exact absurd h (by simp))

theorem patOf_nodup (o : Obs ι) : (patOf o).Nodup := by
  cases o <;> (simp only [patOf]; decide)

theorem pat_mem_touch (o : Obs ι) : ∀ q ∈ patOf o, ∃ n, roleName o q.1 = some n ∧ (n, q.2) ∈ touchList o := by
  cases o <;>
    simp [patOf, patAngle, patAzimuth, patFromTo, patHdiff, patHeight, patPoint, neuOf, touchList, neu, roleName]

theorem roleName_inj (o : Obs ι) (hd : rolesDistinct o = true) (r₁ r₂ : Role) (n : ι)
    (h₁ : roleName o r₁ = some n) (h₂ : roleName o r₂ = some n) : r₁ = r₂ := by
  cases o <;> cases r₁ <;> cases r₂ <;> simp_all [roleName, rolesDistinct]

theorem emitted_genOf {K : Type} [Trig K] (ob : Obs ι) (P : Pts K) (hN : Normal P) (o : GObs K) (tol : K) :
    ∀ r ∈ (genOf ob P o tol).rows, emitted P r = (patOf ob).filter (adjusted P) := by
  cases ob with
  | angle => exact only_free_angle P o tol
  | azimuth => exact only_free_azimuth P hN o tol
  | distance => exact only_free_distance P hN o tol
  | zenith => exact only_free_zenith P hN o tol
  | vector => exact only_free_vector P hN o tol
  | hdiff => exact only_free_hdiff P hN o tol
  | height => exact only_free_height P hN o tol
  | xyz => exact only_free_xyz P hN o tol

/-- **the columns of one sparse row of an active record**: always in `1..dm_cols`; pairwise distinct when the point
    names of the record are distinct -/
theorem row_columns_ok (net : Net ι ℝ) (nobs : List (NObs ι ℝ)) (no : NObs ι ℝ) (hno : no ∈ activeOf net nobs)
    (row : Row ℝ)
    (hrow : row ∈ (@linObs ι ℝ realTrig net (bookOf net nobs).idx.ind no).rows) :
    (rolesDistinct no.obs = true → (row.map Prod.snd).Nodup) ∧
      ∀ k ∈ row.map Prod.snd, 1 ≤ k ∧ k ≤ (bookOf net nobs).idx.cols := by
  obtain ⟨inv0, hkey⟩ := G3Book.final_inv net.points (nobs.map fun (o : NObs ι ℝ) => o.obs)
  have inv : G3Book.Inv (isFreePar net.points) (bookOf net nobs).idx := inv0
  have hact := (List.mem_filter.1 hno)
  obtain ⟨hmem, hrev⟩ := hact
  simp only [Option.isSome_iff_exists] at hrev
  obtain ⟨rv, hrv⟩ := hrev
  have htouch : ∀ q ∈ touchList no.obs, q ∈ (bookOf net nobs).idx.par.map Prod.fst := by
    intro q hq
    refine (hkey q).2 ?_
    unfold touchesOf
    rw [List.mem_flatMap]
    refine ⟨rv, List.mem_filterMap.2 ⟨no.obs, List.mem_map_of_mem hmem, hrv⟩, ?_⟩
    rw [touches_eq net.points no.obs rv hrv]; exact hq
  -- the row is `evalRow P r` of a generated row `r`
  simp only [linObs, evalLin, List.mem_map] at hrow
  obtain ⟨r, hr, rfl⟩ := hrow
  have hN := ptsOf_normal net (bookOf net nobs).idx.ind no.obs
  have hem := @emitted_genOf ι _ ℝ realTrig no.obs (ptsOfR net (bookOf net nobs).idx.ind no.obs) hN no.o net.tol r hr
  rw [evalRow_indices]
  erw [hem]
  -- every emitted unknown is an adjusted parameter of the book with a column
  have hidx : ∀ q ∈ (patOf no.obs).filter (adjusted (ptsOfR net (bookOf net nobs).idx.ind no.obs)),
      ∃ n, roleName no.obs q.1 = some n ∧
        (ptsOfR net (bookOf net nobs).idx.ind no.obs q.1).index q.2
          = (bookOf net nobs).idx.index (isFreePar net.points) (n, q.2) ∧
        (bookOf net nobs).idx.index (isFreePar net.points) (n, q.2) ≠ 0 := by
    intro q hq
    obtain ⟨hq1, hq2⟩ := List.mem_filter.1 hq
    obtain ⟨n, hn, ht⟩ := pat_mem_touch no.obs q hq1
    refine ⟨n, hn, ?_, ?_⟩
    · have := ptsOf_index net (bookOf net nobs).idx no.obs q.1 q.2
      rw [hn] at this
      exact this
    · rw [index_ne_zero_iff inv]
      refine ⟨?_, htouch _ ht⟩
      have := ptsOf_isFree net (bookOf net nobs).idx.ind no.obs q.1 n hn q.2
      rw [← this]
      exact hq2
  constructor
  · intro hd
    refine List.Nodup.map_on ?_ ((patOf_nodup no.obs).filter _)
    intro q hq q' hq' he
    obtain ⟨n, hn, e1, hne⟩ := hidx q hq
    obtain ⟨n', hn', e1', _⟩ := hidx q' hq'
    have he' : (bookOf net nobs).idx.index (isFreePar net.points) (n, q.2)
        = (bookOf net nobs).idx.index (isFreePar net.points) (n', q'.2) := by rw [← e1, ← e1']; exact he
    have := index_injective inv hne he'
    obtain ⟨hnn, hcc⟩ := Prod.mk.inj this
    subst hnn
    have hr12 := roleName_inj no.obs hd q.1 q'.1 n hn hn'
    exact Prod.ext hr12 hcc
  · intro k hk
    obtain ⟨q, hq, rfl⟩ := List.mem_map.1 hk
    obtain ⟨n, hn, e1, hne⟩ := hidx q hq
    rw [e1]
    exact index_range inv hne

/-- **`RowsOK` of the dump from the decidable input predicate** -/
theorem dump_rowsOK (net : Net ι ℝ) (sd : ℝ) (cls : List (Cluster ι ℝ)) (hd : DistinctRoles cls) :
    RowsOK (dumpOfR net sd cls) := by
  apply RowsOK.of_nodup
  intro i hi
  have hi' : i < (netEqsR net (nobsOf cls)).length := hi
  rw [dump_rows_getD net sd cls i hi']
  have hm : (netEqsR net (nobsOf cls)).get ⟨i, hi'⟩ ∈ netEqsR net (nobsOf cls) := List.get_mem _ _
  simp only [netEqsR, netEqs, linearizeNet, List.mem_flatMap, List.mem_map] at hm
  obtain ⟨e, ⟨no, hno, rfl⟩, hz⟩ := hm
  have hrow := (List.of_mem_zip hz).1
  have hdno : rolesDistinct no.obs = true := hd no (List.mem_filter.1 hno).1
  obtain ⟨h1', h2⟩ := row_columns_ok net (nobsOf cls) no hno _ hrow
  have h1 := h1' hdno
  simp only [List.map_map, Function.comp_def] at h1 h2 ⊢
  exact ⟨h1, fun cv hcv => by
    obtain ⟨ci, hci, rfl⟩ := List.mem_map.1 hcv
    exact h2 ci.2 (List.mem_map.2 ⟨ci, hci, rfl⟩)⟩

/-- **`RowsOK` of the dump, unconditionally** (round 13: since /repo a7902736 class `Adj` sums repeated columns and
    `RowsOK` is the range condition only): every stored column index is `Parameter::index()` of an adjusted parameter
    that `update_index` numbered, hence in `1..dm_cols` — also for a record from a point to itself -/
theorem dump_rowsOK' (net : Net ι ℝ) (sd : ℝ) (cls : List (Cluster ι ℝ)) : RowsOK (dumpOfR net sd cls) := by
  intro i hi
  have hi' : i < (netEqsR net (nobsOf cls)).length := hi
  rw [dump_rows_getD net sd cls i hi']
  have hm : (netEqsR net (nobsOf cls)).get ⟨i, hi'⟩ ∈ netEqsR net (nobsOf cls) := List.get_mem _ _
  simp only [netEqsR, netEqs, linearizeNet, List.mem_flatMap, List.mem_map] at hm
  obtain ⟨e, ⟨no, hno, rfl⟩, hz⟩ := hm
  have hrow := (List.of_mem_zip hz).1
  obtain ⟨-, h2⟩ := row_columns_ok net (nobsOf cls) no hno _ hrow
  intro cv hcv
  obtain ⟨ci, hci, rfl⟩ := List.mem_map.1 hcv
  exact h2 ci.2 (List.mem_map.2 ⟨ci, hci, rfl⟩)

/-- **`Env.InputOK (dumpOf …)` holds for every network** (round 13) -/
theorem dump_inputOK' (net : Net ι ℝ) (sd : ℝ) (cls : List (Cluster ι ℝ)) : Env.InputOK (dumpOfR net sd cls) :=
  ⟨dump_blocksWF net sd cls, dump_dims net sd cls, dump_rowsOK' net sd cls⟩

/-- **`Env.InputOK (dumpOf …)` — the whole static hypothesis of C01's `Adj` theorems — from `DistinctRoles`** -/
theorem dump_inputOK (net : Net ι ℝ) (sd : ℝ) (cls : List (Cluster ι ℝ)) (hd : DistinctRoles cls) :
    Env.InputOK (dumpOfR net sd cls) :=
  ⟨dump_blocksWF net sd cls, dump_dims net sd cls, dump_rowsOK net sd cls hd⟩

end G3Dump
end Gama
