/-
  C07 — transport of the STATISTICS under a re-expression of the survey.

  * any invertible change of unknowns `T`:  `Q` reflexive g-inverse of `N`  ⇒  `T⁻¹ Q T⁻ᵀ` reflexive
    g-inverse of `Tᵀ N T`; specialised to sign matrices (mirror) and permutations (reordering);
  * the normal matrix of the sign-transformed problem is `D_t N D_t`; "belongs to the
    regularisation subset `S`" is preserved; hence `q_xx' = D_t q_xx D_t`, `q_bb' = D_s q_bb D_s`
    (diagonals — the standard deviations — unchanged, the covariance between a mirrored and a not
    mirrored unknown changes sign);
  * the error ellipse printed from a point's 2×2 block (`Gama/Gen/StatsGen.lean`, regenerated from
    network.h by C09's translator): the y flip `cxy ↦ -cxy` keeps both semi-axes and maps the
    bearing `α ↦ π − α` (mod π).

  The ellipse fact is proved here directly on the generated definition with the shared `Scalar ℝ`
  (`Gama.instScalarReal`, `Lemmas/RealScalar.lean`) and a `StatsTrig ℝ` instance equal to C09's
  (`Props/C07Compose.lean`: `trigReal_C07_eq_C09`, by `rfl`; written when `Lemmas/StatsReal.lean`
  could not yet be imported next to `Lemmas/LinSpec.lean`).  `Props/C07Compose.lean` composes it with
  C09's eigen-decomposition theorem.
-/
import Gama.Lemmas.LinReal
import Gama.Lemmas.C07LS
import Gama.Lemmas.Ls.ComposeGinvUnique
import Gama.Gen.StatsGen
namespace Gama.LS
open Matrix Finset

section Transport
set_option linter.unusedSectionVars false
variable {𝕜 : Type*} [Field 𝕜]
variable {m n : Type*} [Fintype m] [Fintype n] [DecidableEq m] [DecidableEq n]

/-- **cofactor transport, general**: for an invertible change of unknowns `x = T x'`
    (`T * Ti = 1`, hence also `Ti * T = 1`) a reflexive generalised inverse `Q` of `N` becomes the reflexive
    generalised inverse `Ti Q Tiᵀ` of `Tᵀ N T` -/
theorem reflGInv_congr {N Q T Ti : Matrix n n 𝕜} (h1 : T * Ti = 1) (hQ : IsReflGInv N Q) :
    IsReflGInv (Tᵀ * N * T) (Ti * Q * Tiᵀ) := by
  have h1t : Tiᵀ * Tᵀ = 1 := by rw [← transpose_mul, h1, transpose_one]
  constructor
  · calc Tᵀ * N * T * (Ti * Q * Tiᵀ) * (Tᵀ * N * T)
        = Tᵀ * N * (T * Ti) * Q * (Tiᵀ * Tᵀ) * N * T := by simp only [Matrix.mul_assoc]
      _ = Tᵀ * (N * Q * N) * T := by rw [h1, h1t]; simp only [Matrix.mul_one, Matrix.mul_assoc]
      _ = Tᵀ * N * T := by rw [hQ.1]
  · calc Ti * Q * Tiᵀ * (Tᵀ * N * T) * (Ti * Q * Tiᵀ)
        = Ti * Q * (Tiᵀ * Tᵀ) * N * (T * Ti) * Q * Tiᵀ := by simp only [Matrix.mul_assoc]
      _ = Ti * (Q * N * Q) * Tiᵀ := by rw [h1, h1t]; simp only [Matrix.mul_one, Matrix.mul_assoc]
      _ = Ti * Q * Tiᵀ := by rw [hQ.2]

/-- sign matrices (`t j = ±1`): `Q ↦ D_t Q D_t` -/
theorem reflGInv_sign {N Q : Matrix n n 𝕜} (t : n → 𝕜) (ht : ∀ j, t j * t j = 1) (hQ : IsReflGInv N Q) :
    IsReflGInv (diagonal t * N * diagonal t) (diagonal t * Q * diagonal t) := by
  have := reflGInv_congr (diag_sq t ht) hQ
  rwa [diagonal_transpose] at this

/-- permutations (renumbering of the unknowns): `Q ↦ Q.submatrix e e` -/
theorem reflGInv_perm {n' : Type*} [Fintype n'] [DecidableEq n'] {N Q : Matrix n n 𝕜} (e : n' ≃ n)
    (hQ : IsReflGInv N Q) : IsReflGInv (N.submatrix e e) (Q.submatrix e e) := by
  constructor
  · rw [submatrix_mul_equiv, submatrix_mul_equiv, hQ.1]
  · rw [submatrix_mul_equiv, submatrix_mul_equiv, hQ.2]

/-- the normal matrix of the sign-transformed problem `(D_s A D_t, D_s P D_s)` is `D_t N D_t` -/
theorem normalMatrix_sign (A : Matrix m n 𝕜) (P : Matrix m m 𝕜) (s : m → 𝕜) (t : n → 𝕜) (hs : ∀ i, s i * s i = 1) :
    (diagonal s * A * diagonal t)ᵀ * (diagonal s * P * diagonal s) * (diagonal s * A * diagonal t) =
      diagonal t * (Aᵀ * P * A) * diagonal t := by
  have hD := diag_sq s hs
  rw [transpose_mul, transpose_mul, diagonal_transpose, diagonal_transpose]
  calc diagonal t * (Aᵀ * diagonal s) * (diagonal s * P * diagonal s) * (diagonal s * A * diagonal t)
      = diagonal t * Aᵀ * (diagonal s * diagonal s) * P * (diagonal s * diagonal s) * A * diagonal t := by
        simp only [Matrix.mul_assoc]
    _ = diagonal t * (Aᵀ * P * A) * diagonal t := by rw [hD]; simp only [Matrix.mul_one, Matrix.mul_assoc]

/-- the normal matrix of the permuted problem -/
theorem normalMatrix_perm {m' n' : Type*} [Fintype m'] [Fintype n'] [DecidableEq m'] (A : Matrix m n 𝕜) (P : Matrix m m 𝕜)
    (e₁ : m' ≃ m) (e₂ : n' ≃ n) :
    (A.submatrix e₁ e₂)ᵀ * (P.submatrix e₁ e₁) * (A.submatrix e₁ e₂) = (Aᵀ * P * A).submatrix e₂ e₂ := by
  rw [transpose_submatrix, submatrix_mul_equiv, submatrix_mul_equiv]

/-- kernel of the sign-transformed design matrix -/
theorem ker_sign {A : Matrix m n 𝕜} (s : m → 𝕜) (t : n → 𝕜) (hs : ∀ i, s i * s i = 1) (g : n → 𝕜)
    (hg : (diagonal s * A * diagonal t) *ᵥ g = 0) : A *ᵥ (diagonal t *ᵥ g) = 0 := by
  have : diagonal s *ᵥ ((diagonal s * A * diagonal t) *ᵥ g) = 0 := by rw [hg, mulVec_zero]
  rwa [mulVec_mulVec, ← Matrix.mul_assoc, ← Matrix.mul_assoc, diag_sq s hs, Matrix.one_mul, ← mulVec_mulVec] at this

/-- **"belongs to the regularisation subset `S`" is preserved** by the sign transformation (the
    subset is the same set of unknowns) -/
theorem belongsTo_sign {A : Matrix m n 𝕜} {S : Finset n} {Q : Matrix n n 𝕜} (s : m → 𝕜) (t : n → 𝕜)
    (hs : ∀ i, s i * s i = 1) (ht : ∀ j, t j * t j = 1) (hb : BelongsTo A S Q) :
    BelongsTo (diagonal s * A * diagonal t) S (diagonal t * Q * diagonal t) := by
  intro y g hg
  have := hb (diagonal t *ᵥ y) (diagonal t *ᵥ g) (ker_sign s t hs g hg)
  rw [← this]
  refine sum_congr rfl fun i _ => ?_
  rw [← mulVec_mulVec, ← mulVec_mulVec, mulVec_diagonal, mulVec_diagonal]
  generalize (Q *ᵥ diagonal t *ᵥ y) i = w
  calc t i * w * g i = t i * w * ((t i * t i) * g i) := by rw [ht, one_mul]
    _ = (t i * t i) * w * (t i * g i) := by ring
    _ = w * (t i * g i) := by rw [ht, one_mul]

/-- … and by a renumbering of unknowns and observations (the subset is carried along) -/
theorem belongsTo_perm {m' n' : Type*} [Fintype m'] [Fintype n'] {A : Matrix m n 𝕜} {S : Finset n} {Q : Matrix n n 𝕜}
    (e₁ : m' ≃ m) (e₂ : n' ≃ n) (hb : BelongsTo A S Q) :
    BelongsTo (A.submatrix e₁ e₂) (S.map e₂.symm.toEmbedding) (Q.submatrix e₂ e₂) := by
  intro y g hg
  have hk : A *ᵥ (g ∘ e₂.symm) = 0 := by
    have h1 := perm_mulVec A e₁ e₂ (g ∘ e₂.symm)
    have h2 : (g ∘ e₂.symm) ∘ e₂ = g := by ext i; simp
    rw [h2, hg] at h1
    funext i
    have := congrFun h1 (e₁.symm i); simpa using this.symm
  have := hb (y ∘ e₂.symm) (g ∘ e₂.symm) hk
  rw [sum_map]
  rw [← this]
  refine sum_congr rfl fun i _ => ?_
  have e : (Q.submatrix e₂ e₂ *ᵥ y) (e₂.symm i) = (Q *ᵥ (y ∘ e₂.symm)) i := by
    have h3 := perm_mulVec Q e₂ e₂ (y ∘ e₂.symm)
    have h4 : (y ∘ e₂.symm) ∘ e₂ = y := by ext j; simp
    rw [h4] at h3
    have := congrFun h3 (e₂.symm i); simpa using this
  simp only [Equiv.coe_toEmbedding, Function.comp]
  rw [e]

/-- cofactors of the adjusted observations of the sign-transformed problem: `q_bb' = D_s q_bb D_s` -/
theorem qbb_sign (A : Matrix m n 𝕜) (Q : Matrix n n 𝕜) (s : m → 𝕜) (t : n → 𝕜) (ht : ∀ j, t j * t j = 1) :
    (diagonal s * A * diagonal t) * (diagonal t * Q * diagonal t) * (diagonal s * A * diagonal t)ᵀ =
      diagonal s * (A * Q * Aᵀ) * diagonal s := by
  have hD := diag_sq t ht
  rw [transpose_mul, transpose_mul, diagonal_transpose, diagonal_transpose]
  calc diagonal s * A * diagonal t * (diagonal t * Q * diagonal t) * (diagonal t * (Aᵀ * diagonal s))
      = diagonal s * A * (diagonal t * diagonal t) * Q * (diagonal t * diagonal t) * Aᵀ * diagonal s := by
        simp only [Matrix.mul_assoc]
    _ = diagonal s * (A * Q * Aᵀ) * diagonal s := by rw [hD]; simp only [Matrix.mul_one, Matrix.mul_assoc]

/-- entries of a sign-conjugated matrix -/
theorem conj_sign_apply {ι : Type*} [Fintype ι] [DecidableEq ι] (t : ι → 𝕜) (Q : Matrix ι ι 𝕜) (i j : ι) :
    (diagonal t * Q * diagonal t) i j = t i * t j * Q i j := by
  rw [Matrix.mul_diagonal, Matrix.diagonal_mul]; ring

end Transport
end Gama.LS

/-! ## the error ellipse under the y flip (generated `std_error_ellipse`) -/

namespace Gama

/-- `atan2`, `M_PI` over ℝ — the same meaning as C09's instance (`Lemmas/StatsReal.lean`) -/
noncomputable instance instTrigRealC07 : StatsTrig ℝ where
  atan2 := fun y x => Complex.arg ⟨x, y⟩
  pi := Real.pi

namespace Lin
open Real

/-- half of the polar angle, brought to `[0, π)` as the code does (`if (alfa < 0) alfa += M_PI`) -/
noncomputable def halfArg (θ : ℝ) : ℝ := if θ / 2 < 0 then θ / 2 + π else θ / 2

/-- the closed form of the generated `std_error_ellipse` over ℝ -/
theorem ellipseGen_eq (cxx cxy cyy m : ℝ) :
    StatsGen.stdErrorEllipse cyy cxy cxx m =
      (m * √((if (cyy + cxx - √((cxx - cyy) * (cxx - cyy) + 4 * cxy * cxy)) / 2 < 0 then 0
                else (cyy + cxx - √((cxx - cyy) * (cxx - cyy) + 4 * cxy * cxy)) / 2)
              + √((cxx - cyy) * (cxx - cyy) + 4 * cxy * cxy)),
       m * √(if (cyy + cxx - √((cxx - cyy) * (cxx - cyy) + 4 * cxy * cxy)) / 2 < 0 then 0
                else (cyy + cxx - √((cxx - cyy) * (cxx - cyy) + 4 * cxy * cxy)) / 2),
       if √((cxx - cyy) * (cxx - cyy) + 4 * cxy * cxy) = 0 then 0
       else halfArg (Complex.arg ⟨cxx - cyy, 2 * cxy⟩)) := by
  simp only [StatsGen.stdErrorEllipse, sqrt_real, ofNat_real, Nat.cast_ofNat, halfArg]
  by_cases h0 : √((cxx - cyy) * (cxx - cyy) + 4 * cxy * cxy) = 0
  · have : Scalar.beq (√((cxx - cyy) * (cxx - cyy) + 4 * cxy * cxy)) 0 = true := (beq_real _ _).2 h0
    rw [if_pos this, if_pos h0]
  · have : ¬ (Scalar.beq (√((cxx - cyy) * (cxx - cyy) + 4 * cxy * cxy)) 0 = true) := fun h => h0 ((beq_real _ _).1 h)
    rw [if_neg this, if_neg h0]
    rfl

theorem halfArg_range (θ : ℝ) (h1 : -π < θ) (h2 : θ ≤ π) : 0 ≤ halfArg θ ∧ halfArg θ < π := by
  unfold halfArg
  have := Real.pi_pos
  split_ifs with h
  · constructor <;> linarith
  · constructor <;> linarith

/-- the mirrored polar angle gives the mirrored half angle: `π − α`, and `0` stays `0` -/
theorem halfArg_conj (x y : ℝ) :
    halfArg (Complex.arg ⟨x, -y⟩) =
      if halfArg (Complex.arg ⟨x, y⟩) = 0 then 0 else π - halfArg (Complex.arg ⟨x, y⟩) := by
  have hc : (⟨x, -y⟩ : ℂ) = (starRingEnd ℂ) ⟨x, y⟩ := by apply Complex.ext <;> simp
  have hpi := Real.pi_pos
  have hle := Complex.arg_le_pi (⟨x, y⟩ : ℂ)
  have hgt := Complex.neg_pi_lt_arg (⟨x, y⟩ : ℂ)
  rw [hc, Complex.arg_conj]
  unfold halfArg
  by_cases h1 : Complex.arg (⟨x, y⟩ : ℂ) = π
  · simp only [h1, if_true]
    have e1 : ¬ (π / 2 < 0) := by linarith
    have e2 : ¬ (π / 2 = 0) := by linarith
    rw [if_neg e1, if_neg e2]; ring
  · simp only [h1, if_false]
    set θ := Complex.arg (⟨x, y⟩ : ℂ) with hθ
    rcases lt_trichotomy θ 0 with hn | hz | hp
    · have a1 : ¬ (-θ / 2 < 0) := by linarith
      have a2 : θ / 2 < 0 := by linarith
      have a3 : ¬ (θ / 2 + π = 0) := by linarith
      rw [if_neg a1, if_pos a2, if_neg a3]; ring
    · rw [hz]; simp
    · have a1 : -θ / 2 < 0 := by linarith
      have a2 : ¬ (θ / 2 < 0) := by linarith
      have a3 : ¬ (θ / 2 = 0) := by linarith
      rw [if_pos a1, if_neg a2, if_neg a3]; ring

/-- **error ellipse under the y flip**: the covariance of a point's `x` and `y` changes sign
    (`cofactor transport`), the variances stay; the generated `std_error_ellipse` then reports the
    same semi-axes and the bearing `π − α` — `0` when `α = 0`, i.e. `π − α` modulo `π`; both bearings
    lie in `[0, π)` -/
theorem ellipse_mirror (cxx cxy cyy m : ℝ) :
    (StatsGen.stdErrorEllipse cyy (-cxy) cxx m).1 = (StatsGen.stdErrorEllipse cyy cxy cxx m).1 ∧
    (StatsGen.stdErrorEllipse cyy (-cxy) cxx m).2.1 = (StatsGen.stdErrorEllipse cyy cxy cxx m).2.1 ∧
    (StatsGen.stdErrorEllipse cyy (-cxy) cxx m).2.2 =
      (if (StatsGen.stdErrorEllipse cyy cxy cxx m).2.2 = 0 then 0 else π - (StatsGen.stdErrorEllipse cyy cxy cxx m).2.2) ∧
    0 ≤ (StatsGen.stdErrorEllipse cyy cxy cxx m).2.2 ∧ (StatsGen.stdErrorEllipse cyy cxy cxx m).2.2 < π := by
  have hsq : (cxx - cyy) * (cxx - cyy) + 4 * -cxy * -cxy = (cxx - cyy) * (cxx - cyy) + 4 * cxy * cxy := by ring
  have h2 : 2 * -cxy = -(2 * cxy) := by ring
  rw [ellipseGen_eq, ellipseGen_eq]
  simp only [hsq, h2]
  refine ⟨trivial, trivial, ?_, ?_⟩
  · by_cases h0 : √((cxx - cyy) * (cxx - cyy) + 4 * cxy * cxy) = 0
    · simp [h0]
    · simp only [h0, if_false]; exact halfArg_conj _ _
  · by_cases h0 : √((cxx - cyy) * (cxx - cyy) + 4 * cxy * cxy) = 0
    · simp only [h0, if_true]; exact ⟨le_refl _, Real.pi_pos⟩
    · simp only [h0, if_false]
      exact halfArg_range _ (Complex.neg_pi_lt_arg _) (Complex.arg_le_pi _)

end Lin
end Gama
