/-
  `Envelope::cholDec / solve / inverse` on the packed profile storage (model
  `Gama/Model/Envelope.lean`) refine the textbook dense `L D Lᵀ` reference
  (`Dense.ldl`, `Dense.solve`, `Dense.inverse`) over any linearly ordered field.

  The `Scalar` structure is `ordFieldScalar K sq` (operations are the field's; `sq` is never
  called because `0 < tol`).  Internally the lemmas use the local instance `scalarOfField`
  (`[SqrtFn K]` carries `sq`); section `Explicit` restates the results against
  `ordFieldScalar K sq`:

  * `cholDec_profileOK`      (goal 1) shape untouched;
  * `cholDec_refines_dense`  (goal 2) `L`, `D`, `defect` equal the dense factorisation
                              (`RefinesWith.no_fill`: dense `L` is zero outside the profile);
  * `solve_refines_dense`    (goal 3) for any factor pair related by `RefinesWith`;
  * `inverse_refines_dense`  (goal 4) inside the profile, for any such pair.

  Method: both algorithms are shown to satisfy the same triangular recurrences over matrix
  entries (`lowerSolve_spec`, `dsFold_inv`, `cholRow_spec`, `upperSolve_inv`, `invStep_spec`,
  `dStep_spec`), then uniqueness (`tri_unique`, `band_rec_match`, `tri_unique_back`) or a
  lockstep induction (`inv_lockstep_step`).
-/
import Gama.Lemmas.SparseBasic
import Mathlib.Algebra.BigOperators.Intervals
import Mathlib.Algebra.Order.Field.Basic
import Mathlib.Tactic.Ring
import Mathlib.Tactic.Tauto
import Mathlib.Algebra.Order.Field.Rat
import Mathlib.Tactic.NormNum

namespace Gama
namespace EnvLDL

open Finset

set_option linter.unusedSectionVars false
set_option linter.unusedVariables false

/-- carrier of the (irrelevant) square-root function, so that `ordFieldScalar` can be a local instance -/
class SqrtFn (K : Type) where
  sq : K → K

/-! ### generic array helpers (`getD` normal form) -/

section Arr
variable {α : Type}

theorem getD_of_ge (a : Array α) (i : Nat) (d : α) (h : a.size ≤ i) : a.getD i d = d := by
  simp [Array.getD, Nat.not_lt.mpr h]

theorem getD_modify (a : Array α) (i j : Nat) (f : α → α) (d : α) :
    (a.modify i f).getD j d = if i = j ∧ j < a.size then f (a.getD j d) else a.getD j d := by
  simp only [Array.getD_eq_getD_getElem?, Array.getElem?_modify]
  by_cases h : i = j
  · subst h
    by_cases h2 : i < a.size
    · simp [h2]
    · simp [h2]
  · simp [h]

theorem getD_setIfInBounds (a : Array α) (i j : Nat) (v d : α) :
    (a.setIfInBounds i v).getD j d = if i = j ∧ j < a.size then v else a.getD j d := by
  simp only [Array.getD_eq_getD_getElem?, Array.getElem?_setIfInBounds]
  by_cases h : i = j
  · subst h
    by_cases h2 : i < a.size
    · simp [h2]
    · simp [h2]
  · simp [h]

theorem getD_push (a : Array α) (j : Nat) (v d : α) :
    (a.push v).getD j d = if j = a.size then v else a.getD j d := by
  simp only [Array.getD_eq_getD_getElem?, Array.getElem?_push]
  split <;> simp

theorem getD_extract (a : Array α) (s t i : Nat) (d : α) :
    (a.extract s t).getD i d = if i < min t a.size - s then a.getD (s + i) d else d := by
  simp only [Array.getD_eq_getD_getElem?, Array.getElem?_extract]
  split <;> simp

theorem getD_ofFn {n : Nat} (f : Fin n → α) (i : Nat) (d : α) :
    (Array.ofFn f).getD i d = if h : i < n then f ⟨i, h⟩ else d := by
  simp only [Array.getD_eq_getD_getElem?, Array.getElem?_ofFn]
  split <;> simp

theorem getD_replicate (n i : Nat) (v d : α) :
    (Array.replicate n v).getD i d = if i < n then v else d := by
  simp only [Array.getD_eq_getD_getElem?, Array.getElem?_replicate]
  split <;> simp

end Arr

section
variable {K : Type} [Field K] [LinearOrder K] [IsStrictOrderedRing K] [SqrtFn K]

/-- the canonical `Scalar` structure of the field -/
@[reducible] local instance scalarOfField : Scalar K := ordFieldScalar K SqrtFn.sq

/-! ### sums -/

theorem foldl_add_range (g : Nat → K) (a : K) (m : Nat) :
    (List.range m).foldl (fun s k => s + g k) a = a + ∑ k ∈ range m, g k := by
  induction m with
  | zero => simp
  | succ m ih =>
    rw [List.range_succ, List.foldl_append, ih, Finset.sum_range_succ]
    simp [add_assoc]

theorem foldl_add_range' (g : Nat → K) (a : K) (s m : Nat) :
    (List.range' s m).foldl (fun acc k => acc + g k) a = a + ∑ k ∈ range m, g (s + k) := by
  induction m with
  | zero => simp
  | succ m ih =>
    rw [List.range'_concat, List.foldl_append, ih, Finset.sum_range_succ]
    simp [add_assoc]

theorem dsum_map_range (g : Nat → K) (m : Nat) :
    Dense.sum ((List.range m).map g) = ∑ k ∈ range m, g k := by
  unfold Dense.sum
  rw [List.foldl_map]
  have := foldl_add_range g 0 m
  simpa using this

/-! ### triangular recurrences: existence by `push`, uniqueness -/

/-- the array built by pushing `β i − Σ_{c<i} a i c * y_c` satisfies that recurrence -/
theorem push_rec_tri (β : Nat → K) (a : Nat → Nat → K) (n : Nat) :
    ((List.range n).foldl (fun (y : Array K) i =>
        y.push (β i - Dense.sum ((List.range i).map fun c => a i c * y.getD c 0))) #[]).size = n ∧
    ∀ i, i < n →
      ((List.range n).foldl (fun (y : Array K) i =>
        y.push (β i - Dense.sum ((List.range i).map fun c => a i c * y.getD c 0))) #[]).getD i 0
      = β i - ∑ c ∈ range i, a i c *
        ((List.range n).foldl (fun (y : Array K) i =>
          y.push (β i - Dense.sum ((List.range i).map fun c => a i c * y.getD c 0))) #[]).getD c 0 := by
  induction n with
  | zero => simp
  | succ n ih =>
    rw [List.range_succ, List.foldl_append]
    generalize ((List.range n).foldl (fun (y : Array K) i =>
        y.push (β i - Dense.sum ((List.range i).map fun c => a i c * y.getD c 0))) #[]) = y at ih ⊢
    obtain ⟨hsz, hrec⟩ := ih
    simp only [List.foldl_cons, List.foldl_nil]
    refine ⟨by simp [hsz], ?_⟩
    intro i hi
    have hagree : ∀ (v : K) c, c < n → (y.push v).getD c 0 = y.getD c 0 := by
      intro v c hc
      rw [getD_push, if_neg (by omega)]
    by_cases hin : i = n
    · subst hin
      rw [getD_push, if_pos hsz.symm, dsum_map_range]
      congr 1
      apply Finset.sum_congr rfl
      intro c hc
      rw [hagree _ c (Finset.mem_range.mp hc)]
    · have hi' : i < n := by omega
      rw [hagree _ i hi', hrec i hi']
      congr 1
      apply Finset.sum_congr rfl
      intro c hc
      rw [hagree _ c (by have := Finset.mem_range.mp hc; omega)]

/-- solutions of a forward triangular recurrence are unique -/
theorem tri_unique (β : Nat → K) (a : Nat → Nat → K) (u v : Nat → K) (n : Nat)
    (hu : ∀ i, i < n → u i = β i - ∑ c ∈ range i, a i c * u c)
    (hv : ∀ i, i < n → v i = β i - ∑ c ∈ range i, a i c * v c) :
    ∀ i, i < n → u i = v i := by
  intro i
  induction i using Nat.strong_induction_on with
  | _ i ih =>
    intro hi
    rw [hu i hi, hv i hi]
    congr 1
    apply Finset.sum_congr rfl
    intro c hc
    have hc' := Finset.mem_range.mp hc
    rw [ih c hc' (by omega)]

/-! ### reading the packed storage -/

theorem entry_diag (E : Env K) (i : Nat) : E.entry i i = E.diagonal i := by
  simp [Env.entry, Env.element, Env.elementLoc, Env.read, Env.diagonal]

theorem entry_symm (E : Env K) (i j : Nat) : E.entry i j = E.entry j i := by
  unfold Env.entry Env.element Env.elementLoc
  rcases Nat.lt_trichotomy i j with h | h | h
  · have h1 : ¬ i > j := by omega
    have h2 : j > i := h
    simp only [h1, h2, if_true, if_false]
  · subst h; rfl
  · have h1 : ¬ j > i := by omega
    have h2 : ¬ i < j := by omega
    have h3 : j < i := h
    simp only [h1, h3, gt_iff_lt, if_true, if_false]

/-- inside the profile, `k` cells left of the diagonal -/
theorem entry_lower_in (E : Env K) (i k : Nat) (hk1 : 1 ≤ k) (hki : k < i) (hkw : k ≤ E.width i) :
    E.entry i (i - k) = E.env.getD (E.rowEnd i - k) 0 := by
  unfold Env.entry Env.element Env.elementLoc
  have h1 : i > i - k := by omega
  have h2 : i - (i - k) = k := by omega
  have h3 : ¬ k > E.width i := by omega
  simp only [h1, h2, h3, if_true, if_false, Option.map, Env.read, Option.getD]

theorem entry_lower_out (E : Env K) (i j : Nat) (hji : j < i) (h : E.width i < i - j) :
    E.entry i j = 0 := by
  unfold Env.entry Env.element Env.elementLoc
  have h1 : i > j := hji
  have h3 : i - j > E.width i := h
  simp only [h1, h3, if_true, Option.map, Option.getD]

theorem element_lower_none (E : Env K) (i j : Nat) (hji : j < i) (h : E.width i < i - j) :
    E.element i j = none := by
  unfold Env.element Env.elementLoc
  have h1 : i > j := hji
  have h3 : i - j > E.width i := h
  simp only [h1, h3, if_true, Option.map]

theorem element_lower_some (E : Env K) (i j : Nat) (hji : j < i) (h : i - j ≤ E.width i) :
    E.element i j = some (E.entry i j) := by
  unfold Env.entry Env.element Env.elementLoc
  have h1 : i > j := hji
  have h3 : ¬ i - j > E.width i := by omega
  simp only [h1, h3, if_true, if_false, Option.map, Option.getD]

/-! ### `lowerSolve` -/

/-- the packed inner sum of `lowerSolve`, written over matrix entries -/
theorem ls_inner_eq (E : Env K) (start x : Nat) (hs : 1 ≤ start) (r : Array K) :
    (∑ k ∈ range (min (E.width (start + x)) x),
        r.getD (x - (1 + k)) 0 * E.env.getD (E.rowEnd (start + x) - (1 + k)) 0)
    = ∑ c ∈ range x, E.entry (start + x) (start + c) * r.getD c 0 := by
  rw [← Finset.sum_range_reflect (fun c => E.entry (start + x) (start + c) * r.getD c 0) x]
  have hsub : range (min (E.width (start + x)) x) ⊆ range x := by
    intro k hk
    simp only [Finset.mem_range] at hk ⊢
    omega
  rw [← Finset.sum_subset hsub]
  · apply Finset.sum_congr rfl
    intro k hk
    simp only [Finset.mem_range] at hk
    have e1 : start + (x - 1 - k) = start + x - (1 + k) := by omega
    have e2 : x - 1 - k = x - (1 + k) := by omega
    rw [e1, e2, entry_lower_in E (start + x) (1 + k) (by omega) (by omega) (by omega), mul_comm]
  · intro k hk hk'
    simp only [Finset.mem_range] at hk hk'
    rw [entry_lower_out E (start + x) (start + (x - 1 - k)) (by omega) (by omega), zero_mul]

theorem lowerSolve_inv (E : Env K) (start : Nat) (hs : 1 ≤ start) (rhs : Array K) (cnt : Nat) :
    ((List.range' (start + 1) cnt).foldl (fun rhs row =>
      let e := E.rowEnd row
      let x := row - start
      let m := min (E.width row) x
      let s := (List.range' 1 m).foldl (fun s k => s + rhs.getD (x - k) 0 * E.env.getD (e - k) 0) (0 : K)
      rhs.modify x (· - s)) rhs).size = rhs.size ∧
    (∀ x, cnt < x → ((List.range' (start + 1) cnt).foldl (fun rhs row =>
      let e := E.rowEnd row
      let x := row - start
      let m := min (E.width row) x
      let s := (List.range' 1 m).foldl (fun s k => s + rhs.getD (x - k) 0 * E.env.getD (e - k) 0) (0 : K)
      rhs.modify x (· - s)) rhs).getD x 0 = rhs.getD x 0) ∧
    (∀ x, x ≤ cnt → x < rhs.size → ((List.range' (start + 1) cnt).foldl (fun rhs row =>
      let e := E.rowEnd row
      let x := row - start
      let m := min (E.width row) x
      let s := (List.range' 1 m).foldl (fun s k => s + rhs.getD (x - k) 0 * E.env.getD (e - k) 0) (0 : K)
      rhs.modify x (· - s)) rhs).getD x 0 = rhs.getD x 0 -
        ∑ c ∈ range x, E.entry (start + x) (start + c) * ((List.range' (start + 1) cnt).foldl (fun rhs row =>
      let e := E.rowEnd row
      let x := row - start
      let m := min (E.width row) x
      let s := (List.range' 1 m).foldl (fun s k => s + rhs.getD (x - k) 0 * E.env.getD (e - k) 0) (0 : K)
      rhs.modify x (· - s)) rhs).getD c 0) := by
  induction cnt with
  | zero =>
    refine ⟨rfl, fun _ _ => rfl, ?_⟩
    intro x hx _
    have : x = 0 := by omega
    subst this
    simp
  | succ cnt ih =>
    rw [List.range'_concat, List.foldl_append]
    generalize ((List.range' (start + 1) cnt).foldl (fun rhs row =>
      let e := E.rowEnd row
      let x := row - start
      let m := min (E.width row) x
      let s := (List.range' 1 m).foldl (fun s k => s + rhs.getD (x - k) 0 * E.env.getD (e - k) 0) (0 : K)
      rhs.modify x (· - s)) rhs) = r at ih ⊢
    obtain ⟨hsz, hhi, hrec⟩ := ih
    simp only [List.foldl_cons, List.foldl_nil, Nat.one_mul]
    have hx0 : start + 1 + cnt - start = cnt + 1 := by omega
    rw [hx0]
    have hrow : start + 1 + cnt = start + (cnt + 1) := by omega
    rw [hrow]
    have hs' := foldl_add_range' (fun k => r.getD (cnt + 1 - k) 0 * E.env.getD (E.rowEnd (start + (cnt + 1)) - k) 0)
      0 1 (min (E.width (start + (cnt + 1))) (cnt + 1))
    rw [zero_add, ls_inner_eq E start (cnt + 1) hs r] at hs'
    rw [hs']
    have hagree : ∀ c, c ≠ cnt + 1 → ∀ f : K → K, (r.modify (cnt + 1) f).getD c 0 = r.getD c 0 := by
      intro c hc f
      rw [getD_modify, if_neg (by omega)]
    refine ⟨by simp [hsz], ?_, ?_⟩
    · intro x hx
      rw [hagree x (by omega), hhi x (by omega)]
    · intro x hx hxs
      by_cases hxe : x = cnt + 1
      · subst hxe
        rw [getD_modify, if_pos ⟨rfl, by omega⟩, hhi (cnt + 1) (by omega)]
        congr 1
        apply Finset.sum_congr rfl
        intro c hc
        have := Finset.mem_range.mp hc
        rw [hagree c (by omega)]
      · rw [hagree x hxe, hrec x (by omega) hxs]
        congr 1
        apply Finset.sum_congr rfl
        intro c hc
        have := Finset.mem_range.mp hc
        rw [hagree c (by omega)]

/-- `lowerSolve` computes the forward substitution with the unit lower triangle read off the
    storage: component `x` belongs to row `start + x` -/
theorem lowerSolve_spec (E : Env K) (start stop : Nat) (hs : 1 ≤ start) (rhs : Array K) :
    (E.lowerSolve start stop rhs).size = rhs.size ∧
    (∀ x, stop - start < x → (E.lowerSolve start stop rhs).getD x 0 = rhs.getD x 0) ∧
    (∀ x, x ≤ stop - start → x < rhs.size → (E.lowerSolve start stop rhs).getD x 0 = rhs.getD x 0 -
        ∑ c ∈ range x, E.entry (start + x) (start + c) * (E.lowerSolve start stop rhs).getD c 0) :=
  lowerSolve_inv E start hs rhs (stop - start)

/-! ### `diagonalSolve` -/

/-- the loop of `diagonalSolve` after `cnt` passes -/
def dsFold (E : Env K) (start : Nat) (rhs : Array K) (cnt : Nat) : Array K :=
  (List.range' start cnt).foldl (fun rhs idx =>
      let d := E.diag.getD (idx - 1) 0
      if Scalar.beq d 0 then rhs.setIfInBounds (idx - start) 0
      else rhs.modify (idx - start) (· / d)) rhs

theorem diagonalSolve_eq (E : Env K) (start stop : Nat) (rhs : Array K) :
    E.diagonalSolve start stop rhs = dsFold E start rhs (stop + 1 - start) := rfl

theorem dsFold_inv (E : Env K) (start : Nat) (rhs : Array K) (cnt : Nat) :
    (dsFold E start rhs cnt).size = rhs.size ∧
    (∀ x, cnt ≤ x → (dsFold E start rhs cnt).getD x 0 = rhs.getD x 0) ∧
    (∀ x, x < cnt → (dsFold E start rhs cnt).getD x 0 =
        if E.diag.getD (start + x - 1) 0 = 0 then 0 else rhs.getD x 0 / E.diag.getD (start + x - 1) 0) := by
  induction cnt with
  | zero => exact ⟨rfl, fun _ _ => rfl, fun x hx => absurd hx (Nat.not_lt_zero x)⟩
  | succ cnt ih =>
    unfold dsFold at ih ⊢
    rw [List.range'_concat, List.foldl_append]
    generalize ((List.range' start cnt).foldl (fun rhs idx =>
      let d := E.diag.getD (idx - 1) 0
      if Scalar.beq d 0 then rhs.setIfInBounds (idx - start) 0
      else rhs.modify (idx - start) (· / d)) rhs) = r at ih ⊢
    obtain ⟨hsz, hhi, hrec⟩ := ih
    simp only [List.foldl_cons, List.foldl_nil, Nat.one_mul]
    have hx0 : start + cnt - start = cnt := by omega
    rw [hx0]
    by_cases hd : E.diag.getD (start + cnt - 1) 0 = 0
    · have hb : Scalar.beq (E.diag.getD (start + cnt - 1) 0) 0 = true := by
        show decide (_ = (0:K)) = true
        exact decide_eq_true hd
      rw [if_pos hb]
      refine ⟨by simp [hsz], ?_, ?_⟩
      · intro x hx
        rw [getD_setIfInBounds, if_neg (by omega), hhi x (by omega)]
      · intro x hx
        by_cases hxe : x = cnt
        · subst hxe
          rw [getD_setIfInBounds, if_pos hd]
          by_cases hsx : x < r.size
          · rw [if_pos ⟨rfl, hsx⟩]
          · rw [if_neg (by omega), getD_of_ge r x 0 (by omega)]
        · rw [getD_setIfInBounds, if_neg (by omega), hrec x (by omega)]
    · have hb : ¬ Scalar.beq (E.diag.getD (start + cnt - 1) 0) 0 = true := by
        show ¬ decide (_ = (0:K)) = true
        exact fun h => hd (of_decide_eq_true h)
      rw [if_neg hb]
      refine ⟨by simp [hsz], ?_, ?_⟩
      · intro x hx
        rw [getD_modify, if_neg (by omega), hhi x (by omega)]
      · intro x hx
        by_cases hxe : x = cnt
        · subst hxe
          rw [getD_modify, if_neg hd]
          by_cases hsx : x < r.size
          · rw [if_pos ⟨rfl, hsx⟩, hhi x (Nat.le_refl x)]
          · rw [if_neg (by omega), getD_of_ge r x 0 (by omega), getD_of_ge rhs x 0 (by omega), zero_div]
        · rw [getD_modify, if_neg (by omega), hrec x (by omega)]

/-! ### shape facts -/

theorem xenv_mono {E : Env K} (hE : E.ProfileOK) (i j : Nat) (hi : 1 ≤ i) (hij : i ≤ j)
    (hj : j ≤ E.dim + 1) : E.xenv.getD i 0 ≤ E.xenv.getD j 0 := by
  induction j with
  | zero => omega
  | succ j ih =>
    by_cases h : i = j + 1
    · subst h; exact Nat.le_refl _
    · exact Nat.le_trans (ih (by omega) (by omega)) (hE.mono j (by omega) (by omega))

theorem rowBegin_le_rowEnd {E : Env K} (hE : E.ProfileOK) (i : Nat) (hi : 1 ≤ i) (hid : i ≤ E.dim) :
    E.rowBegin i ≤ E.rowEnd i := hE.mono i hi hid

theorem rowBegin_add_width {E : Env K} (hE : E.ProfileOK) (i : Nat) (hi : 1 ≤ i) (hid : i ≤ E.dim) :
    E.rowBegin i + E.width i = E.rowEnd i := by
  have := rowBegin_le_rowEnd hE i hi hid
  unfold Env.width
  omega

theorem rowEnd_le_size {E : Env K} (hE : E.ProfileOK) (i : Nat) (hi : 1 ≤ i) (hid : i ≤ E.dim) :
    E.rowEnd i ≤ E.env.size := by
  rw [hE.env_size]
  exact xenv_mono hE (i + 1) (E.dim + 1) (by omega) (by omega) (Nat.le_refl _)

theorem width_le {E : Env K} (hE : E.ProfileOK) (i : Nat) (hi : 1 ≤ i) (hid : i ≤ E.dim) :
    E.width i ≤ i - 1 := hE.width_le i hi hid

theorem rowEnd_le_rowBegin {E : Env K} (hE : E.ProfileOK) (i j : Nat) (hi : 1 ≤ i) (hij : i < j)
    (hj : j ≤ E.dim) : E.rowEnd i ≤ E.rowBegin j :=
  xenv_mono hE (i + 1) j (by omega) (by omega) (by omega)

/-- the value an in-profile lower entry is read from -/
theorem entry_cell {E : Env K} (hE : E.ProfileOK) (i x : Nat) (hi : 1 ≤ i) (hid : i ≤ E.dim)
    (hx : x < E.width i) :
    E.entry i (i - E.width i + x) = E.env.getD (E.rowBegin i + x) 0 := by
  have hw := width_le hE i hi hid
  have hbe := rowBegin_add_width hE i hi hid
  have h := entry_lower_in E i (E.width i - x) (by omega) (by omega) (by omega)
  have e1 : i - (E.width i - x) = i - E.width i + x := by omega
  have e2 : E.rowEnd i - (E.width i - x) = E.rowBegin i + x := by omega
  rw [e1, e2] at h
  exact h

/-- two storages with the same shape that agree on the cells of row `i` have the same row `i` -/
theorem entry_congr_row {E E' : Env K} (hE : E.ProfileOK) (hx : E'.xenv = E.xenv) (i j : Nat)
    (hi : 1 ≤ i) (hid : i ≤ E.dim) (hji : j < i)
    (hcells : ∀ p, E.rowBegin i ≤ p → p < E.rowEnd i → E'.env.getD p 0 = E.env.getD p 0) :
    E'.entry i j = E.entry i j := by
  have hw : E'.width i = E.width i := by simp [Env.width, Env.rowEnd, Env.rowBegin, hx]
  have hre : E'.rowEnd i = E.rowEnd i := by simp [Env.rowEnd, hx]
  by_cases hout : E.width i < i - j
  · rw [entry_lower_out E i j hji hout, entry_lower_out E' i j hji (by rw [hw]; exact hout)]
  · have hbe := rowBegin_add_width hE i hi hid
    have hw' := width_le hE i hi hid
    have e : i - (i - j) = j := by omega
    have h1 := entry_lower_in E i (i - j) (by omega) (by omega) (by omega)
    have h2 := entry_lower_in E' i (i - j) (by omega) (by omega) (by rw [hw]; omega)
    rw [e] at h1 h2
    rw [h1, h2, hre]
    exact hcells _ (by omega) (by omega)

/-! ### `cholRow` -/

/-- the write-back loop of `cholRow` -/
theorem writeBack_getD (env u : Array K) (b w : Nat) (hb : b + w ≤ env.size) :
    ((List.range w).foldl (fun env k => env.setIfInBounds (b + k) (u.getD k 0)) env).size = env.size ∧
    ∀ p, ((List.range w).foldl (fun env k => env.setIfInBounds (b + k) (u.getD k 0)) env).getD p 0 =
      if b ≤ p ∧ p < b + w then u.getD (p - b) 0 else env.getD p 0 := by
  induction w with
  | zero =>
    refine ⟨rfl, fun p => ?_⟩
    rw [if_neg (by omega)]; rfl
  | succ w ih =>
    rw [List.range_succ, List.foldl_append]
    obtain ⟨hsz, hget⟩ := ih (by omega)
    generalize ((List.range w).foldl (fun env k => env.setIfInBounds (b + k) (u.getD k 0)) env) = e at hsz hget ⊢
    simp only [List.foldl_cons, List.foldl_nil]
    refine ⟨by simp [hsz], fun p => ?_⟩
    rw [getD_setIfInBounds, hget p]
    by_cases hp : b + w = p
    · subst hp
      rw [if_pos ⟨rfl, by omega⟩, if_pos ⟨by omega, by omega⟩]
      congr 1; omega
    · rw [if_neg (by omega)]
      by_cases hp2 : b ≤ p ∧ p < b + w
      · rw [if_pos hp2, if_pos ⟨hp2.1, by omega⟩]
      · rw [if_neg hp2, if_neg (by omega)]

/-- the solved profile row `u` of `cholRow` (model expression) -/
def crU (E : Env K) (row : Nat) : Array K :=
  E.diagonalSolve (row - E.width row) (row - 1)
    (E.lowerSolve (row - E.width row) (row - 1)
      (E.env.extract (E.rowBegin row) (E.rowBegin row + E.width row)))

/-- the new pivot before the tolerance test (model expression) -/
def crDm (E : Env K) (row : Nat) : K :=
  E.diag.getD (row - 1) 0 -
    (List.range (E.width row)).foldl (fun s k =>
      s + (crU E row).getD k 0 * (crU E row).getD k 0 * E.diag.getD (row - E.width row - 1 + k) 0) (0 : K)

/-- the profile cells after the write-back (model expression) -/
def crEnv (E : Env K) (row : Nat) : Array K :=
  (List.range (E.width row)).foldl (fun env k =>
    env.setIfInBounds (E.rowBegin row + k) ((crU E row).getD k 0)) E.env

theorem cholRow_cases (tol : K) (E : Env K) (row : Nat) :
    (|crDm E row| < tol ∧ Env.cholRow tol E row =
      { E with env := crEnv E row, diag := E.diag.setIfInBounds (row - 1) 0, defect := E.defect + 1 }) ∨
    (¬ |crDm E row| < tol ∧ Env.cholRow tol E row =
      { E with env := crEnv E row, diag := E.diag.setIfInBounds (row - 1) (crDm E row) }) := by
  by_cases h : |crDm E row| < tol
  · left
    refine ⟨h, ?_⟩
    unfold Env.cholRow
    exact if_pos h
  · right
    refine ⟨h, ?_⟩
    unfold Env.cholRow
    exact if_neg h

/-- forward-substituted profile row (before the division by the pivots) -/
def crR (E : Env K) (row : Nat) (x : Nat) : K :=
  (E.lowerSolve (row - E.width row) (row - 1)
      (E.env.extract (E.rowBegin row) (E.rowBegin row + E.width row))).getD x 0

/-- the new row of `L` -/
def crL (E : Env K) (row : Nat) (x : Nat) : K :=
  if E.diagonal (row - E.width row + x) = 0 then 0
  else crR E row x / E.diagonal (row - E.width row + x)

/-- the new pivot before the tolerance test -/
def crD (E : Env K) (row : Nat) : K :=
  E.diagonal row - ∑ k ∈ range (E.width row), crL E row k * crL E row k * E.diagonal (row - E.width row + k)

theorem crR_rec {E : Env K} (hE : E.ProfileOK) (row : Nat) (hr1 : 1 ≤ row) (hrd : row ≤ E.dim)
    (x : Nat) (hx : x < E.width row) :
    crR E row x = E.entry row (row - E.width row + x) -
      ∑ c ∈ range x, E.entry (row - E.width row + x) (row - E.width row + c) * crR E row c := by
  have hw := width_le hE row hr1 hrd
  have hbe := rowBegin_add_width hE row hr1 hrd
  have hes := rowEnd_le_size hE row hr1 hrd
  have hspec := lowerSolve_spec E (row - E.width row) (row - 1) (by omega)
    (E.env.extract (E.rowBegin row) (E.rowBegin row + E.width row))
  obtain ⟨_, _, hrec⟩ := hspec
  have hsz : (E.env.extract (E.rowBegin row) (E.rowBegin row + E.width row)).size = E.width row := by
    rw [Array.size_extract]; omega
  have h := hrec x (by omega) (by rw [hsz]; exact hx)
  unfold crR
  rw [h, getD_extract, if_pos (by omega), entry_cell hE row x hr1 hrd hx]

theorem crU_getD {E : Env K} (hE : E.ProfileOK) (row : Nat) (hr1 : 1 ≤ row) (hrd : row ≤ E.dim)
    (x : Nat) (hx : x < E.width row) : (crU E row).getD x 0 = crL E row x := by
  have hw := width_le hE row hr1 hrd
  unfold crU
  rw [diagonalSolve_eq]
  obtain ⟨_, _, h⟩ := dsFold_inv E (row - E.width row)
    (E.lowerSolve (row - E.width row) (row - 1)
      (E.env.extract (E.rowBegin row) (E.rowBegin row + E.width row))) (row - 1 + 1 - (row - E.width row))
  rw [h x (by omega)]
  rfl

theorem crDm_eq {E : Env K} (hE : E.ProfileOK) (row : Nat) (hr1 : 1 ≤ row) (hrd : row ≤ E.dim) :
    crDm E row = crD E row := by
  have hw := width_le hE row hr1 hrd
  unfold crDm crD
  rw [foldl_add_range, zero_add]
  show E.diagonal row - _ = _
  congr 1
  apply Finset.sum_congr rfl
  intro k hk
  have hk' := Finset.mem_range.mp hk
  rw [crU_getD hE row hr1 hrd k hk']
  have e : row - E.width row - 1 + k = row - E.width row + k - 1 := by omega
  rw [e]
  rfl

theorem crEnv_spec {E : Env K} (hE : E.ProfileOK) (row : Nat) (hr1 : 1 ≤ row) (hrd : row ≤ E.dim) :
    (crEnv E row).size = E.env.size ∧
    ∀ p, (crEnv E row).getD p 0 =
      if E.rowBegin row ≤ p ∧ p < E.rowBegin row + E.width row then crL E row (p - E.rowBegin row)
      else E.env.getD p 0 := by
  have hbe := rowBegin_add_width hE row hr1 hrd
  have hes := rowEnd_le_size hE row hr1 hrd
  obtain ⟨h1, h2⟩ := writeBack_getD E.env (crU E row) (E.rowBegin row) (E.width row) (by omega)
  refine ⟨h1, fun p => ?_⟩
  unfold crEnv
  rw [h2 p]
  by_cases hp : E.rowBegin row ≤ p ∧ p < E.rowBegin row + E.width row
  · rw [if_pos hp, if_pos hp, crU_getD hE row hr1 hrd _ (by omega)]
  · rw [if_neg hp, if_neg hp]

/-- What one pass of the factorisation loop does, in terms of matrix entries. -/
theorem cholRow_spec (tol : K) {E : Env K} (hE : E.ProfileOK) (row : Nat) (hr1 : 1 ≤ row)
    (hrd : row ≤ E.dim) :
    (Env.cholRow tol E row).xenv = E.xenv ∧ (Env.cholRow tol E row).dim = E.dim ∧
    (Env.cholRow tol E row).ProfileOK ∧
    (∀ x, x < E.width row → (Env.cholRow tol E row).entry row (row - E.width row + x) = crL E row x) ∧
    (∀ i j, 1 ≤ i → i ≤ E.dim → i ≠ row → j < i → (Env.cholRow tol E row).entry i j = E.entry i j) ∧
    (∀ i, 1 ≤ i → i ≠ row → (Env.cholRow tol E row).diagonal i = E.diagonal i) ∧
    (Env.cholRow tol E row).diagonal row = (if |crD E row| < tol then 0 else crD E row) ∧
    (Env.cholRow tol E row).defect = (if |crD E row| < tol then E.defect + 1 else E.defect) := by
  have hw := width_le hE row hr1 hrd
  have hbe := rowBegin_add_width hE row hr1 hrd
  have hes := rowEnd_le_size hE row hr1 hrd
  obtain ⟨hesz, hecell⟩ := crEnv_spec hE row hr1 hrd
  have hdm := crDm_eq hE row hr1 hrd
  -- facts that only depend on `xenv`, `env`
  have key : ∀ E' : Env K, E'.xenv = E.xenv → E'.dim = E.dim → E'.env = crEnv E row →
      E'.diag.size = E.diag.size →
      E'.ProfileOK ∧
      (∀ x, x < E.width row → E'.entry row (row - E.width row + x) = crL E row x) ∧
      (∀ i j, 1 ≤ i → i ≤ E.dim → i ≠ row → j < i → E'.entry i j = E.entry i j) := by
    intro E' hx hd he hds
    have hOK : E'.ProfileOK := by
      refine ⟨?_, ?_, ?_, ?_, ?_, ?_⟩
      · rw [hx, hd]; exact hE.xenv_size
      · rw [hds, hd]; exact hE.diag_size
      · rw [hx]; exact hE.begin_one
      · rw [hx, hd]; exact hE.mono
      · rw [hx, hd]; exact hE.width_le
      · rw [he, hesz, hx, hd]; exact hE.env_size
    have hwid : ∀ i, E'.width i = E.width i := by
      intro i; simp [Env.width, Env.rowEnd, Env.rowBegin, hx]
    have hrb : ∀ i, E'.rowBegin i = E.rowBegin i := by
      intro i; simp [Env.rowBegin, hx]
    refine ⟨hOK, ?_, ?_⟩
    · intro x hxw
      have h := entry_cell hOK row x hr1 (by rw [hd]; exact hrd) (by rw [hwid]; exact hxw)
      rw [hwid, hrb, he, hecell, if_pos ⟨by omega, by omega⟩] at h
      rw [h]
      congr 1; omega
    · intro i j hi1 hid hir hji
      apply entry_congr_row hE hx i j hi1 hid hji
      intro p hp1 hp2
      rw [he, hecell, if_neg]
      intro ⟨hp3, hp4⟩
      rcases Nat.lt_or_gt_of_ne hir with hlt | hgt
      · have := rowEnd_le_rowBegin hE i row hi1 hlt hrd
        omega
      · have := rowEnd_le_rowBegin hE row i hr1 hgt hid
        omega
  have hdiagset : ∀ (v : K) i, 1 ≤ i → i ≠ row →
      (E.diag.setIfInBounds (row - 1) v).getD (i - 1) 0 = E.diag.getD (i - 1) 0 := by
    intro v i hi hne
    rw [getD_setIfInBounds, if_neg (by omega)]
  have hdiagrow : ∀ (v : K), (E.diag.setIfInBounds (row - 1) v).getD (row - 1) 0 = v := by
    intro v
    rw [getD_setIfInBounds, if_pos ⟨rfl, by rw [hE.diag_size]; omega⟩]
  rcases cholRow_cases tol E row with ⟨hlt, heq⟩ | ⟨hlt, heq⟩
  · rw [heq]
    rw [hdm] at hlt
    obtain ⟨k1, k2, k3⟩ := key (Env.mk E.dim (E.defect + 1) (E.diag.setIfInBounds (row - 1) 0)
      (crEnv E row) E.xenv) rfl rfl rfl (by simp)
    refine ⟨rfl, rfl, k1, k2, k3, ?_, ?_, ?_⟩
    · intro i hi hne; exact hdiagset 0 i hi hne
    · rw [if_pos hlt]; exact hdiagrow 0
    · rw [if_pos hlt]
  · rw [heq]
    rw [hdm] at hlt
    obtain ⟨k1, k2, k3⟩ := key (Env.mk E.dim E.defect (E.diag.setIfInBounds (row - 1) (crDm E row))
      (crEnv E row) E.xenv) rfl rfl rfl (by simp)
    refine ⟨rfl, rfl, k1, k2, k3, ?_, ?_, ?_⟩
    · intro i hi hne; exact hdiagset _ i hi hne
    · rw [if_neg hlt, ← hdm]; exact hdiagrow _
    · rw [if_neg hlt]

/-! ### the dense reference, row by row -/

/-- the forward-substituted row `y` inside `Dense.ldlRow` -/
def dY (N L : Dense K) (i : Nat) : Array K :=
  (List.range i).foldl (fun (y : Array K) j =>
      y.push (N.get i j - Dense.sum ((List.range j).map fun k => L.get j k * y.getD k 0))) #[]

theorem dY_rec (N L : Dense K) (i j : Nat) (hj : j < i) :
    (dY N L i).getD j 0 = N.get i j - ∑ k ∈ range j, L.get j k * (dY N L i).getD k 0 :=
  (push_rec_tri (fun j => N.get i j) (fun j k => L.get j k) i).2 j hj

theorem ldlRow_size (N L : Dense K) (D : Array K) (i : Nat) : (Dense.ldlRow N L D i).size = i := by
  simp [Dense.ldlRow]

theorem ldlRow_getD (N L : Dense K) (D : Array K) (i j : Nat) (hj : j < i) :
    (Dense.ldlRow N L D i).getD j 0 =
      if D.getD j 0 = 0 then 0 else (dY N L i).getD j 0 / D.getD j 0 := by
  unfold Dense.ldlRow
  rw [getD_ofFn, dif_pos hj]
  show (if decide (D.getD j 0 = 0) = true then (0:K) else _) = _
  by_cases h : D.getD j 0 = 0
  · rw [if_pos (decide_eq_true h), if_pos h]
  · rw [if_neg (fun hh => h (of_decide_eq_true hh)), if_neg h]
    rfl

theorem dense_get_push (L : Dense K) (l : Array K) (r c : Nat) :
    Dense.get (L.push l) r c = if r = L.size then l.getD c 0 else Dense.get L r c := by
  unfold Dense.get
  rw [getD_push]
  split <;> rfl

/-- the pivot of row `i` before the tolerance test -/
def dPiv (N : Dense K) (f : Dense.LDL K) (i : Nat) : K :=
  N.get i i - ∑ j ∈ range i, (Dense.ldlRow N f.L f.D i).getD j 0 * (Dense.ldlRow N f.L f.D i).getD j 0 * f.D.getD j 0

theorem ldl_succ (tol : K) (N : Dense K) (m : Nat) :
    (Dense.ldl tol N (m + 1)).L = (Dense.ldl tol N m).L.push
        (Dense.ldlRow N (Dense.ldl tol N m).L (Dense.ldl tol N m).D m) ∧
    (Dense.ldl tol N (m + 1)).D = (Dense.ldl tol N m).D.push
        (if |dPiv N (Dense.ldl tol N m) m| < tol then 0 else dPiv N (Dense.ldl tol N m) m) ∧
    (Dense.ldl tol N (m + 1)).defect =
        (if |dPiv N (Dense.ldl tol N m) m| < tol then (Dense.ldl tol N m).defect + 1
         else (Dense.ldl tol N m).defect) := by
  have hstep : Dense.ldl tol N (m + 1) =
      (fun (f : Dense.LDL K) i =>
        let l := Dense.ldlRow N f.L f.D i
        let d := N.get i i - Dense.sum ((List.range i).map fun j => l.getD j 0 * l.getD j 0 * f.D.getD j 0)
        if Scalar.abs d < tol then ({ L := f.L.push l, D := f.D.push 0, defect := f.defect + 1 } : Dense.LDL K)
        else { L := f.L.push l, D := f.D.push d, defect := f.defect }) (Dense.ldl tol N m) m := by
    unfold Dense.ldl
    rw [List.range_succ, List.foldl_append]
    rfl
  rw [hstep]
  simp only []
  rw [dsum_map_range]
  show (if |dPiv N (Dense.ldl tol N m) m| < tol then _ else _ : Dense.LDL K).L = _ ∧
    (if |dPiv N (Dense.ldl tol N m) m| < tol then _ else _ : Dense.LDL K).D = _ ∧
    (if |dPiv N (Dense.ldl tol N m) m| < tol then _ else _ : Dense.LDL K).defect = _
  by_cases h : |dPiv N (Dense.ldl tol N m) m| < tol
  · rw [if_pos h, if_pos h, if_pos h]
    exact ⟨rfl, rfl, rfl⟩
  · rw [if_neg h, if_neg h, if_neg h]
    exact ⟨rfl, rfl, rfl⟩

/-- a banded forward recurrence (the packed row) agrees with the full one (the dense row)
    when the right-hand side vanishes left of the band -/
theorem band_rec_match (β : Nat → K) (a : Nat → Nat → K) (i w : Nat) (hw : w ≤ i)
    (y r : Nat → K)
    (hy : ∀ j, j < i → y j = β j - ∑ k ∈ range j, a j k * y k)
    (hr : ∀ x, x < w → r x = β (i - w + x) - ∑ c ∈ range x, a (i - w + x) (i - w + c) * r c)
    (hβ : ∀ j, j < i - w → β j = 0) :
    (∀ j, j < i - w → y j = 0) ∧ (∀ x, x < w → y (i - w + x) = r x) := by
  have hv : ∀ j, j < i → (fun j => if j < i - w then (0:K) else r (j - (i - w))) j =
      β j - ∑ k ∈ range j, a j k * (fun j => if j < i - w then (0:K) else r (j - (i - w))) k := by
    intro j hj
    by_cases hlo : j < i - w
    · simp only [if_pos hlo, hβ j hlo]
      rw [Finset.sum_eq_zero, sub_zero]
      intro k hk
      have := Finset.mem_range.mp hk
      rw [if_pos (by omega), mul_zero]
    · simp only [if_neg hlo]
      have ej : j = (i - w) + (j - (i - w)) := by omega
      rw [hr (j - (i - w)) (by omega), ← ej]
      congr 1
      have hsplit := Finset.sum_range_add
        (fun k => a j k * (if k < i - w then (0:K) else r (k - (i - w)))) (i - w) (j - (i - w))
      rw [← ej] at hsplit
      rw [hsplit]
      have h0 : ∑ k ∈ range (i - w),
          (fun k => a j k * (if k < i - w then (0:K) else r (k - (i - w)))) k = 0 := by
        apply Finset.sum_eq_zero
        intro k hk
        have := Finset.mem_range.mp hk
        simp only [if_pos this, mul_zero]
      rw [h0, zero_add]
      apply Finset.sum_congr rfl
      intro c hc
      simp only [if_neg (show ¬ i - w + c < i - w by omega)]
      congr 2
      omega
  have huniq := tri_unique β a y _ i hy hv
  refine ⟨fun j hj => ?_, fun x hx => ?_⟩
  · rw [huniq j (by omega)]
    simp only [if_pos hj]
  · rw [huniq (i - w + x) (by omega)]
    simp only [if_neg (show ¬ i - w + x < i - w by omega)]
    congr 1
    omega

/-! ### the factorisation loop -/

/-- the factorisation loop after `m` passes (rows `1..m` done) -/
def cholFold (tol : K) (E : Env K) (m : Nat) : Env K :=
  (List.range' 1 m).foldl (Env.cholRow tol) { E with defect := 0 }

theorem cholFold_succ (tol : K) (E : Env K) (m : Nat) :
    cholFold tol E (m + 1) = Env.cholRow tol (cholFold tol E m) (m + 1) := by
  unfold cholFold
  rw [List.range'_concat, List.foldl_append]
  simp only [List.foldl_cons, List.foldl_nil, Nat.one_mul]
  rw [Nat.add_comm 1 m]

theorem cholDecFrom_one (E : Env K) (tol : K) :
    E.cholDecFrom 1 tol = cholFold (Env.effTol tol) E E.dim := by
  unfold Env.cholDecFrom cholFold
  rw [Nat.add_sub_cancel]

theorem effTol_pos (tol : K) (h : 0 < tol) : Env.effTol tol = tol := by
  unfold Env.effTol
  exact if_neg (not_le.mpr h)

theorem cholFold_shape (tol : K) {E : Env K} (hE : E.ProfileOK) (m : Nat) (hm : m ≤ E.dim) :
    (cholFold tol E m).ProfileOK ∧ (cholFold tol E m).xenv = E.xenv ∧ (cholFold tol E m).dim = E.dim := by
  induction m with
  | zero => exact ⟨⟨hE.1, hE.2, hE.3, hE.4, hE.5, hE.6⟩, rfl, rfl⟩
  | succ m ih =>
    obtain ⟨hOK, hx, hd⟩ := ih (by omega)
    rw [cholFold_succ]
    obtain ⟨sx, sd, sOK, _⟩ := cholRow_spec tol hOK (m + 1) (by omega) (by omega)
    exact ⟨sOK, sx.trans hx, sd.trans hd⟩

/-- Invariant of the two row loops: after `m` rows the packed rows `≤ m` hold the dense factor,
    the packed rows `> m` still hold the matrix. -/
theorem cholFold_inv (tol : K) {E : Env K} (hE : E.ProfileOK) (N : Dense K)
    (hN : ∀ i j, 1 ≤ j → j ≤ i → i ≤ E.dim → E.entry i j = N.get (i - 1) (j - 1))
    (m : Nat) (hm : m ≤ E.dim) :
    (Dense.ldl tol N m).L.size = m ∧ (Dense.ldl tol N m).D.size = m ∧
    (∀ i j, 1 ≤ j → j < i → i ≤ m →
      (cholFold tol E m).entry i j = (Dense.ldl tol N m).L.get (i - 1) (j - 1)) ∧
    (∀ i, 1 ≤ i → i ≤ m → (cholFold tol E m).diagonal i = (Dense.ldl tol N m).D.getD (i - 1) 0) ∧
    (∀ i j, 1 ≤ j → j ≤ i → m < i → i ≤ E.dim → (cholFold tol E m).entry i j = N.get (i - 1) (j - 1)) ∧
    (cholFold tol E m).defect = (Dense.ldl tol N m).defect := by
  induction m with
  | zero =>
    refine ⟨rfl, rfl, ?_, ?_, ?_, rfl⟩
    · intro i j _ hji him; omega
    · intro i hi him; omega
    · intro i j hj hji _ hid; exact hN i j hj hji hid
  | succ m ih =>
    obtain ⟨hLs, hDs, hL, hD, hrest, hdef⟩ := ih (by omega)
    obtain ⟨hOK, hxe, hdim⟩ := cholFold_shape tol hE m (by omega)
    obtain ⟨hL', hD', hdef'⟩ := ldl_succ tol N m
    rw [cholFold_succ, hL', hD', hdef']
    generalize cholFold tol E m = Em at *
    generalize Dense.ldl tol N m = fm at *
    have hrd : m + 1 ≤ Em.dim := by omega
    obtain ⟨sx, sd, sOK, srow, sother, sdiag, spiv, sdef⟩ := cholRow_spec tol hOK (m + 1) (by omega) hrd
    have hw := width_le hOK (m + 1) (by omega) hrd
    have hwid' : (Env.cholRow tol Em (m + 1)).width (m + 1) = Em.width (m + 1) := by
      simp [Env.width, Env.rowEnd, Env.rowBegin, sx]
    have hcr := crR_rec hOK (m + 1) (by omega) hrd
    have hcrL : ∀ x, crL Em (m + 1) x =
        if Em.diagonal (m + 1 - Em.width (m + 1) + x) = 0 then 0
        else crR Em (m + 1) x / Em.diagonal (m + 1 - Em.width (m + 1) + x) := fun x => rfl
    have hcrD : crD Em (m + 1) = Em.diagonal (m + 1) - ∑ k ∈ range (Em.width (m + 1)),
        crL Em (m + 1) k * crL Em (m + 1) k * Em.diagonal (m + 1 - Em.width (m + 1) + k) := rfl
    generalize crD Em (m + 1) = cD at *
    generalize crL Em (m + 1) = cL at *
    generalize crR Em (m + 1) = cR at *
    generalize hwdef : Em.width (m + 1) = w at *
    -- the dense row and the packed row solve the same recurrence
    have hmatch := band_rec_match (fun j => N.get m j) (fun j k => fm.L.get j k) m w (by omega)
      (fun j => (dY N fm.L m).getD j 0) cR
      (fun j hj => dY_rec N fm.L m j hj)
      (by
        intro x hx
        have e1 : Em.entry (m + 1) (m + 1 - w + x) = N.get m (m - w + x) :=
          (hrest (m + 1) (m + 1 - w + x) (by omega) (by omega) (by omega) (by omega)).trans
            (by congr 1; omega)
        rw [hcr x hx, e1]
        congr 1
        apply Finset.sum_congr rfl
        intro c hc
        have hc' := Finset.mem_range.mp hc
        have e2 : Em.entry (m + 1 - w + x) (m + 1 - w + c) = fm.L.get (m - w + x) (m - w + c) :=
          (hL (m + 1 - w + x) (m + 1 - w + c) (by omega) (by omega) (by omega)).trans
            (by congr 1 <;> omega)
        rw [e2])
      (by
        intro j hj
        have e1 : Em.entry (m + 1) (j + 1) = N.get m j :=
          (hrest (m + 1) (j + 1) (by omega) (by omega) (by omega) (by omega)).trans
            (by congr 1)
        show N.get m j = 0
        rw [← e1]
        exact entry_lower_out Em (m + 1) (j + 1) (by omega) (by omega))
    obtain ⟨hy0, hyr⟩ := hmatch
    -- the dense row `l`
    have hl_lo : ∀ j, j < m - w → (Dense.ldlRow N fm.L fm.D m).getD j 0 = 0 := by
      intro j hj
      rw [ldlRow_getD N fm.L fm.D m j (by omega), hy0 j hj, zero_div, ite_self]
    have hl_hi : ∀ x, x < w → (Dense.ldlRow N fm.L fm.D m).getD (m - w + x) 0 = cL x := by
      intro x hx
      have e1 : Em.diagonal (m + 1 - w + x) = fm.D.getD (m - w + x) 0 :=
        (hD (m + 1 - w + x) (by omega) (by omega)).trans (by congr 1; omega)
      rw [ldlRow_getD N fm.L fm.D m (m - w + x) (by omega), hyr x hx, hcrL x, e1]
    -- the pivots
    have hpiv : dPiv N fm m = cD := by
      unfold dPiv
      rw [hcrD]
      have e1 : Em.diagonal (m + 1) = N.get m m := by
        rw [← entry_diag]
        exact (hrest (m + 1) (m + 1) (by omega) (by omega) (by omega) (by omega))
      rw [e1]
      congr 1
      have hsplit := Finset.sum_range_add (fun j => (Dense.ldlRow N fm.L fm.D m).getD j 0 *
        (Dense.ldlRow N fm.L fm.D m).getD j 0 * fm.D.getD j 0) (m - w) w
      rw [show m - w + w = m by omega] at hsplit
      rw [hsplit, Finset.sum_eq_zero, zero_add]
      · apply Finset.sum_congr rfl
        intro k hk
        have hk' := Finset.mem_range.mp hk
        have e2 : Em.diagonal (m + 1 - w + k) = fm.D.getD (m - w + k) 0 :=
          (hD (m + 1 - w + k) (by omega) (by omega)).trans (by congr 1; omega)
        simp only [hl_hi k hk', e2]
      · intro j hj
        have hj' := Finset.mem_range.mp hj
        simp only [hl_lo j hj', zero_mul]
    rw [hpiv]
    refine ⟨by simp [hLs], by simp [hDs], ?_, ?_, ?_, ?_⟩
    · intro i j hj hji him
      rw [dense_get_push, hLs]
      by_cases hi : i = m + 1
      · subst hi
        rw [if_pos (by omega)]
        by_cases hlo : j < m + 1 - w
        · rw [entry_lower_out _ (m + 1) j hji (by rw [hwid']; omega), hl_lo (j - 1) (by omega)]
        · obtain ⟨x, hx, rfl⟩ : ∃ x, x < w ∧ j = m + 1 - w + x :=
            ⟨j - (m + 1 - w), by omega, by omega⟩
          rw [srow x hx, show m + 1 - w + x - 1 = m - w + x by omega, hl_hi x hx]
      · rw [if_neg (by omega), sother i j (by omega) (by omega) hi hji]
        exact hL i j hj hji (by omega)
    · intro i hi1 him
      rw [getD_push, hDs]
      by_cases hi : i = m + 1
      · subst hi
        rw [if_pos (by omega), spiv]
      · rw [if_neg (by omega), sdiag i hi1 hi]
        exact hD i hi1 (by omega)
    · intro i j hj hji hmi hid
      by_cases hjj : j = i
      · subst hjj
        rw [entry_diag, sdiag j hj (by omega), ← entry_diag]
        exact hrest j j hj (Nat.le_refl j) (by omega) hid
      · rw [sother i j (by omega) (by omega) (by omega) (by omega)]
        exact hrest i j hj hji (by omega) hid
    · rw [sdef, hdef]

/-- `F` (packed profile storage) represents the dense factor pair `f = (L, D)` of order `n`:
    strictly lower entries (zero outside the profile) and pivots agree. -/
structure Refines (F : Env K) (f : Dense.LDL K) (n : Nat) : Prop where
  ok : F.ProfileOK
  dim : F.dim = n
  L : ∀ i j, 1 ≤ j → j < i → i ≤ n → F.entry i j = f.L.get (i - 1) (j - 1)
  D : ∀ i, 1 ≤ i → i ≤ n → F.diagonal i = f.D.getD (i - 1) 0

/-- Goal 1 (shape is untouched by the factorisation), any `first ≥ 1`-style loop `1..dim`. -/
theorem cholDecFrom_profileOK' {E : Env K} (hE : E.ProfileOK) (tol : K) :
    (E.cholDecFrom 1 tol).ProfileOK ∧ (E.cholDecFrom 1 tol).xenv = E.xenv ∧
    (E.cholDecFrom 1 tol).dim = E.dim := by
  rw [cholDecFrom_one]
  exact cholFold_shape _ hE E.dim (Nat.le_refl _)

/-- Goal 2: the packed factorisation is the dense `L D Lᵀ` factorisation, entry by entry
    (hence no fill outside the profile), pivot by pivot (exact zeros on dependent pivots), with
    the same defect. -/
theorem cholDecFrom_refines' {E : Env K} (hE : E.ProfileOK) (N : Dense K) (tol : K) (htol : 0 < tol)
    (hN : ∀ i j, 1 ≤ j → j ≤ i → i ≤ E.dim → E.entry i j = N.get (i - 1) (j - 1)) :
    Refines (E.cholDecFrom 1 tol) (Dense.ldl tol N E.dim) E.dim ∧
    (E.cholDecFrom 1 tol).defect = (Dense.ldl tol N E.dim).defect := by
  obtain ⟨h1, h2, h3⟩ := cholDecFrom_profileOK' hE tol
  rw [cholDecFrom_one, effTol_pos tol htol] at *
  obtain ⟨_, _, hL, hD, _, hdef⟩ := cholFold_inv tol hE N hN E.dim (Nat.le_refl _)
  exact ⟨⟨h1, h3, hL, hD⟩, hdef⟩

/-- no fill: the dense factor vanishes outside the profile of the packed storage -/
theorem Refines.no_fill {F : Env K} {f : Dense.LDL K} {n : Nat} (h : Refines F f n)
    (i j : Nat) (hj : 1 ≤ j) (hji : j < i) (hi : i ≤ n) (hout : F.width i < i - j) :
    f.L.get (i - 1) (j - 1) = 0 := by
  rw [← h.L i j hj hji hi]
  exact entry_lower_out F i j hji hout

/-! ### `solve` -/

theorem arr_ext_getD (a b : Array K) (hs : a.size = b.size)
    (h : ∀ i, i < a.size → a.getD i 0 = b.getD i 0) : a = b := by
  apply Array.ext hs
  intro i h1 h2
  have := h i h1
  simp only [Array.getD, h1, h2, dif_pos] at this
  exact this

/-- forward substitution -/
theorem lowerSolve_refines {F : Env K} {f : Dense.LDL K} {n : Nat} (h : Refines F f n)
    (b : Array K) (hb : b.size = n) : F.lowerSolve 1 n b = Dense.lower f n b := by
  obtain ⟨hsz, _, hrec⟩ := lowerSolve_spec F 1 n (Nat.le_refl 1) b
  obtain ⟨dsz, drec⟩ := push_rec_tri (fun i => b.getD i 0) (fun i j => f.L.get i j) n
  have hd : Dense.lower f n b = (List.range n).foldl (fun (y : Array K) i =>
        y.push ((fun i => b.getD i 0) i - Dense.sum ((List.range i).map fun c => (fun i j => f.L.get i j) i c * y.getD c 0))) #[] := rfl
  rw [← hd] at dsz drec
  apply arr_ext_getD _ _ (by rw [hsz, dsz, hb])
  intro i hi
  rw [hsz, hb] at hi
  refine tri_unique (fun i => b.getD i 0) (fun i j => f.L.get i j)
    (fun i => (F.lowerSolve 1 n b).getD i 0) (fun i => (Dense.lower f n b).getD i 0) n ?_ drec i hi
  intro x hx
  show (F.lowerSolve 1 n b).getD x 0 = _
  rw [hrec x (by omega) (by omega)]
  congr 1
  apply Finset.sum_congr rfl
  intro c hc
  have hc' := Finset.mem_range.mp hc
  rw [h.L (1 + x) (1 + c) (by omega) (by omega) (by omega)]
  simp only [Nat.add_sub_cancel_left]

/-- division by the pivots with the zero-pivot rule -/
theorem diagonalSolve_refines {F : Env K} {f : Dense.LDL K} {n : Nat} (h : Refines F f n)
    (z : Array K) (hz : z.size = n) : F.diagonalSolve 1 n z = Dense.diagS f n z := by
  rw [diagonalSolve_eq]
  obtain ⟨hsz, _, hrec⟩ := dsFold_inv F 1 z (n + 1 - 1)
  have dsz : (Dense.diagS f n z).size = n := by simp [Dense.diagS]
  apply arr_ext_getD _ _ (by rw [hsz, dsz, hz])
  intro i hi
  rw [hsz, hz] at hi
  rw [hrec i (by omega)]
  unfold Dense.diagS
  rw [getD_ofFn, dif_pos hi]
  have e : F.diag.getD (1 + i - 1) 0 = f.D.getD i 0 := by
    have := h.D (1 + i) (by omega) (by omega)
    simp only [Nat.add_sub_cancel_left] at this
    rw [← this]
    rfl
  rw [e]
  show _ = (if decide (f.D.getD i 0 = 0) = true then (0:K) else _)
  by_cases hd : f.D.getD i 0 = 0
  · rw [if_pos hd, if_pos (decide_eq_true hd)]
  · rw [if_neg hd, if_neg (fun hh => hd (of_decide_eq_true hh))]

/-- the column update of one `upperSolve` pass -/
theorem axpy_getD (rhs env : Array K) (x : K) (col b w : Nat) (h : col + w ≤ rhs.size) :
    ((List.range w).foldl (fun rhs t => rhs.modify (col + t) (· - x * env.getD (b + t) 0)) rhs).size
      = rhs.size ∧
    ∀ p, ((List.range w).foldl (fun rhs t => rhs.modify (col + t) (· - x * env.getD (b + t) 0)) rhs).getD p 0
      = if col ≤ p ∧ p < col + w then rhs.getD p 0 - x * env.getD (b + (p - col)) 0 else rhs.getD p 0 := by
  induction w with
  | zero =>
    refine ⟨rfl, fun p => ?_⟩
    rw [if_neg (by omega)]; rfl
  | succ w ih =>
    rw [List.range_succ, List.foldl_append]
    obtain ⟨hsz, hget⟩ := ih (by omega)
    generalize ((List.range w).foldl (fun rhs t => rhs.modify (col + t) (· - x * env.getD (b + t) 0)) rhs)
      = e at hsz hget ⊢
    simp only [List.foldl_cons, List.foldl_nil]
    refine ⟨by simp [hsz], fun p => ?_⟩
    rw [getD_modify, hget p]
    by_cases hp : col + w = p
    · subst hp
      rw [if_pos ⟨rfl, by omega⟩, if_neg (by omega), if_pos ⟨by omega, by omega⟩]
      congr 3; omega
    · rw [if_neg (by omega)]
      by_cases hp2 : col ≤ p ∧ p < col + w
      · rw [if_pos hp2, if_pos ⟨hp2.1, by omega⟩]
      · rw [if_neg hp2, if_neg (by omega)]

/-- one pass of the row loop of `upperSolve` -/
def usBody (E : Env K) (start : Nat) (rhs : Array K) (row : Nat) : Array K :=
  let b := E.rowBegin row
  let w := E.width row
  let x := rhs.getD (row - start) 0
  let col := row - start - w
  (List.range w).foldl (fun rhs t => rhs.modify (col + t) (· - x * E.env.getD (b + t) 0)) rhs

theorem upperSolve_eq (E : Env K) (start stop : Nat) (rhs : Array K) :
    E.upperSolve start stop rhs = (List.range' start (stop + 1 - start)).reverse.foldl (usBody E start) rhs :=
  rfl

theorem usBody_spec {E : Env K} (hE : E.ProfileOK) (row : Nat) (h1 : 1 ≤ row) (hd : row ≤ E.dim)
    (rhs : Array K) (hsz : row ≤ rhs.size) :
    (usBody E 1 rhs row).size = rhs.size ∧
    ∀ p, (usBody E 1 rhs row).getD p 0 =
      if p < row - 1 then rhs.getD p 0 - rhs.getD (row - 1) 0 * E.entry row (p + 1) else rhs.getD p 0 := by
  have hw := width_le hE row h1 hd
  obtain ⟨asz, aget⟩ := axpy_getD rhs E.env (rhs.getD (row - 1) 0) (row - 1 - E.width row)
    (E.rowBegin row) (E.width row) (by omega)
  refine ⟨asz, fun p => ?_⟩
  unfold usBody
  rw [aget p]
  by_cases hp : p < row - 1
  · rw [if_pos hp]
    by_cases hin : row - 1 - E.width row ≤ p
    · rw [if_pos ⟨hin, by omega⟩]
      have := entry_cell hE row (p - (row - 1 - E.width row)) h1 hd (by omega)
      rw [show row - E.width row + (p - (row - 1 - E.width row)) = p + 1 by omega] at this
      rw [this]
    · rw [if_neg (by omega), entry_lower_out E row (p + 1) (by omega) (by omega), mul_zero, sub_zero]
  · rw [if_neg hp, if_neg (by omega)]

/-- the reverse row loop of `upperSolve 1 k` (rows `k, k-1, …, 1`) -/
theorem upperSolve_inv {E : Env K} (hE : E.ProfileOK) (k : Nat) (hk : k ≤ E.dim) :
    ∀ z : Array K, k ≤ z.size →
    ((List.range' 1 k).reverse.foldl (usBody E 1) z).size = z.size ∧
    (∀ p, k ≤ p + 1 → ((List.range' 1 k).reverse.foldl (usBody E 1) z).getD p 0 = z.getD p 0) ∧
    (∀ p, p < k → ((List.range' 1 k).reverse.foldl (usBody E 1) z).getD p 0 = z.getD p 0 -
      ∑ q ∈ range k, if p < q then E.entry (q + 1) (p + 1) *
        ((List.range' 1 k).reverse.foldl (usBody E 1) z).getD q 0 else 0) := by
  induction k with
  | zero =>
    intro z _
    exact ⟨rfl, fun _ _ => rfl, fun p hp => absurd hp (Nat.not_lt_zero p)⟩
  | succ k ih =>
    intro z hz
    rw [List.range'_concat, List.reverse_append]
    simp only [List.reverse_cons, List.reverse_nil, List.nil_append, List.cons_append, List.foldl_cons,
      Nat.one_mul]
    rw [Nat.add_comm 1 k]
    obtain ⟨bsz, bget⟩ := usBody_spec hE (k + 1) (by omega) hk z hz
    obtain ⟨isz, ihi, irec⟩ := ih (by omega) (usBody E 1 z (k + 1)) (by rw [bsz]; omega)
    generalize ((List.range' 1 k).reverse.foldl (usBody E 1) (usBody E 1 z (k + 1))) = c at isz ihi irec ⊢
    simp only [Nat.add_sub_cancel] at bget
    refine ⟨isz.trans bsz, ?_, ?_⟩
    · intro p hp
      rw [ihi p (by omega), bget p, if_neg (by omega)]
    · intro p hp
      rw [Finset.sum_range_succ]
      by_cases hpk : p = k
      · subst hpk
        rw [ihi p (by omega), bget p, if_neg (Nat.lt_irrefl p), if_neg (Nat.lt_irrefl p), add_zero,
          Finset.sum_eq_zero, sub_zero]
        intro q hq
        have := Finset.mem_range.mp hq
        rw [if_neg (by omega)]
      · have hpk' : p < k := by omega
        rw [irec p hpk', bget p, if_pos hpk', if_pos hpk', ihi k (by omega), bget k,
          if_neg (Nat.lt_irrefl k)]
        ring

/-- rewriting the "rows below" sum -/
theorem sum_above (g : Nat → K) (n p : Nat) (hp : p < n) :
    (∑ q ∈ range n, if p < q then g q else 0) = ∑ m ∈ range (n - 1 - p), g (p + 1 + m) := by
  have hsplit := Finset.sum_range_add (fun q => if p < q then g q else 0) (p + 1) (n - 1 - p)
  rw [show p + 1 + (n - 1 - p) = n by omega] at hsplit
  rw [hsplit, Finset.sum_eq_zero, zero_add]
  · apply Finset.sum_congr rfl
    intro m _
    rw [if_pos (by omega)]
  · intro q hq
    have := Finset.mem_range.mp hq
    rw [if_neg (by omega)]

/-- solutions of a backward triangular recurrence are unique -/
theorem tri_unique_back (β : Nat → K) (a : Nat → Nat → K) (u v : Nat → K) (n : Nat)
    (hu : ∀ i, i < n → u i = β i - ∑ m ∈ range (n - 1 - i), a (i + 1 + m) i * u (i + 1 + m))
    (hv : ∀ i, i < n → v i = β i - ∑ m ∈ range (n - 1 - i), a (i + 1 + m) i * v (i + 1 + m)) :
    ∀ i, i < n → u i = v i := by
  have key : ∀ k i, n - k ≤ i → i < n → u i = v i := by
    intro k
    induction k with
    | zero => intro i h1 h2; omega
    | succ k ih =>
      intro i h1 h2
      rw [hu i h2, hv i h2]
      congr 1
      apply Finset.sum_congr rfl
      intro m hm
      have := Finset.mem_range.mp hm
      rw [ih (i + 1 + m) (by omega) (by omega)]
  intro i hi
  exact key n i (by omega) hi

/-- the list built by `Dense.upper` after `t` passes -/
def duFold (f : Dense.LDL K) (n : Nat) (z : Array K) (t : Nat) : List K :=
  (List.range t).foldl (fun (xs : List K) t =>
      let i := n - 1 - t
      (z.getD i 0 - Dense.sum ((List.range (n - 1 - i)).map fun m => f.L.get (i + 1 + m) i * xs.getD m 0)) :: xs) []

theorem duFold_inv (f : Dense.LDL K) (n : Nat) (z : Array K) (t : Nat) (ht : t ≤ n) :
    (duFold f n z t).length = t ∧
    ∀ m, m < t → (duFold f n z t).getD m 0 = z.getD (n - t + m) 0 -
      ∑ m' ∈ range (t - 1 - m), f.L.get (n - t + m + 1 + m') (n - t + m) * (duFold f n z t).getD (m + 1 + m') 0 := by
  induction t with
  | zero => exact ⟨rfl, fun m hm => absurd hm (Nat.not_lt_zero m)⟩
  | succ t ih =>
    obtain ⟨hlen, hrec⟩ := ih (by omega)
    unfold duFold at hlen hrec ⊢
    rw [List.range_succ, List.foldl_append]
    generalize ((List.range t).foldl (fun (xs : List K) t =>
      let i := n - 1 - t
      (z.getD i 0 - Dense.sum ((List.range (n - 1 - i)).map fun m => f.L.get (i + 1 + m) i * xs.getD m 0)) :: xs) [])
      = xs at hlen hrec ⊢
    simp only [List.foldl_cons, List.foldl_nil]
    refine ⟨by simp [hlen], ?_⟩
    intro m hm
    cases m with
    | zero =>
      rw [List.getD_cons_zero, dsum_map_range]
      have e1 : n - 1 - t = n - (t + 1) + 0 := by omega
      have e2 : n - 1 - (n - 1 - t) = t + 1 - 1 - 0 := by omega
      rw [e2, e1]
      congr 1
      apply Finset.sum_congr rfl
      intro m' _
      rw [show 0 + 1 + m' = m' + 1 by omega, List.getD_cons_succ]
    | succ m =>
      rw [List.getD_cons_succ, hrec m (by omega)]
      have e1 : n - t + m = n - (t + 1) + (m + 1) := by omega
      have e2 : t - 1 - m = t + 1 - 1 - (m + 1) := by omega
      rw [e1, e2]
      congr 1
      apply Finset.sum_congr rfl
      intro m' _
      rw [show m + 1 + 1 + m' = (m + 1 + m') + 1 by omega, List.getD_cons_succ]

/-- back substitution: the column-oriented packed loop equals the row-oriented dense one -/
theorem upperSolve_refines {F : Env K} {f : Dense.LDL K} {n : Nat} (h : Refines F f n)
    (z : Array K) (hz : z.size = n) : F.upperSolve 1 n z = Dense.upper f n z := by
  rw [upperSolve_eq, Nat.add_sub_cancel]
  obtain ⟨usz, _, urec⟩ := upperSolve_inv h.ok n (by rw [h.dim]) z (by omega)
  obtain ⟨dlen, drec⟩ := duFold_inv f n z n (Nat.le_refl n)
  have hd : Dense.upper f n z = (duFold f n z n).toArray := rfl
  rw [hd]
  generalize (List.range' 1 n).reverse.foldl (usBody F 1) z = c at usz urec ⊢
  apply arr_ext_getD _ _ (by rw [usz, hz]; simp [dlen])
  intro i hi
  rw [usz, hz] at hi
  have hga : ∀ i, (duFold f n z n).toArray.getD i 0 = (duFold f n z n).getD i 0 := by
    intro i
    simp [List.getD_eq_getElem?_getD]
  rw [hga]
  refine tri_unique_back (fun i => z.getD i 0) (fun q p => f.L.get q p)
    (fun i => c.getD i 0) (fun i => (duFold f n z n).getD i 0) n ?_ ?_ i hi
  · intro p hp
    show c.getD p 0 = _
    rw [urec p hp, sum_above (fun q => F.entry (q + 1) (p + 1) * c.getD q 0) n p hp]
    congr 1
    apply Finset.sum_congr rfl
    intro m hm
    have := Finset.mem_range.mp hm
    rw [h.L (p + 1 + m + 1) (p + 1) (by omega) (by omega) (by omega)]
    simp only [Nat.add_sub_cancel]
  · intro p hp
    show (duFold f n z n).getD p 0 = _
    rw [drec p hp]
    simp only [Nat.sub_self, Nat.zero_add]

theorem lower_size (f : Dense.LDL K) (n : Nat) (b : Array K) : (Dense.lower f n b).size = n :=
  (push_rec_tri (fun i => b.getD i 0) (fun i j => f.L.get i j) n).1

theorem diagS_size (f : Dense.LDL K) (n : Nat) (y : Array K) : (Dense.diagS f n y).size = n := by
  simp [Dense.diagS]

/-- Goal 3: `Envelope::solve` on a packed factor is the dense `L D Lᵀ` solve -/
theorem solve_refines' {F : Env K} {f : Dense.LDL K} {n : Nat} (h : Refines F f n)
    (b : Array K) (hb : b.size = n) : F.solve b n = Dense.solve f n b := by
  unfold Env.solve Dense.solve
  rw [lowerSolve_refines h b hb, diagonalSolve_refines h _ (lower_size f n b),
    upperSolve_refines h _ (diagS_size f n _)]

/-! ### `inverse` : packed side -/

theorem foldl_sub_range' (g : Nat → K) (a : K) (s m : Nat) :
    (List.range' s m).foldl (fun acc k => acc - g k) a = a - ∑ k ∈ range m, g (s + k) := by
  induction m with
  | zero => simp
  | succ m ih =>
    rw [List.range'_concat, List.foldl_append, ih, Finset.sum_range_succ]
    simp only [List.foldl_cons, List.foldl_nil, Nat.one_mul]
    ring

/-- the `element`-guarded accumulation loops of `inverse` are plain sums over matrix entries
    (a `nullptr` cell contributes the zero entry) -/
theorem fold_elem_sub (chol : Env K) (g : Nat → K) (el : Nat → Option K) (init : K) (a cnt : Nat) :
    (List.range' a cnt).foldl (fun s k =>
        match el k with
        | none => s
        | some u => s - u * g k) init
    = init - ∑ m ∈ range cnt, (el (a + m)).getD 0 * g (a + m) := by
  have h : ∀ (s : K) k, (match el k with
        | none => s
        | some u => s - u * g k) = s - (el k).getD 0 * g k := by
    intro s k
    cases el k with
    | none => simp
    | some u => simp
  simp only [h]
  exact foldl_sub_range' (fun k => (el k).getD 0 * g k) init a cnt

/-- two storages of the same shape -/
structure SameShape (Z Z' : Env K) : Prop where
  xenv : Z'.xenv = Z.xenv
  dim : Z'.dim = Z.dim
  dsz : Z'.diag.size = Z.diag.size
  esz : Z'.env.size = Z.env.size

theorem SameShape.refl (Z : Env K) : SameShape Z Z := ⟨rfl, rfl, rfl, rfl⟩

theorem SameShape.trans {Z Z' Z'' : Env K} (h : SameShape Z Z') (h' : SameShape Z' Z'') :
    SameShape Z Z'' :=
  ⟨h'.xenv.trans h.xenv, h'.dim.trans h.dim, h'.dsz.trans h.dsz, h'.esz.trans h.esz⟩

theorem SameShape.ok {Z Z' : Env K} (h : SameShape Z Z') (hZ : Z.ProfileOK) : Z'.ProfileOK := by
  refine ⟨?_, ?_, ?_, ?_, ?_, ?_⟩
  · rw [h.xenv, h.dim]; exact hZ.xenv_size
  · rw [h.dsz, h.dim]; exact hZ.diag_size
  · rw [h.xenv]; exact hZ.begin_one
  · rw [h.xenv, h.dim]; exact hZ.mono
  · rw [h.xenv, h.dim]; exact hZ.width_le
  · rw [h.esz, h.xenv, h.dim]; exact hZ.env_size

theorem SameShape.width {Z Z' : Env K} (h : SameShape Z Z') (i : Nat) : Z'.width i = Z.width i := by
  simp [Env.width, Env.rowEnd, Env.rowBegin, h.xenv]

theorem SameShape.rowBegin {Z Z' : Env K} (h : SameShape Z Z') (i : Nat) : Z'.rowBegin i = Z.rowBegin i := by
  simp [Env.rowBegin, h.xenv]

/-- writing a diagonal cell -/
theorem write_diag_spec {Z : Env K} (hZ : Z.ProfileOK) (r : Nat) (hr1 : 1 ≤ r) (hrd : r ≤ Z.dim) (v : K) :
    SameShape Z (Z.write (.diag (r - 1)) v) ∧
    (∀ i j, j < i → (Z.write (.diag (r - 1)) v).entry i j = Z.entry i j) ∧
    (∀ i, 1 ≤ i → i ≠ r → (Z.write (.diag (r - 1)) v).diagonal i = Z.diagonal i) ∧
    (Z.write (.diag (r - 1)) v).diagonal r = v := by
  refine ⟨⟨rfl, rfl, by simp [Env.write], rfl⟩, ?_, ?_, ?_⟩
  · intro i j hji
    unfold Env.entry Env.element Env.elementLoc
    have h1 : i > j := hji
    simp only [h1, if_true]
    have hw' : (Z.write (.diag (r - 1)) v).width i = Z.width i := rfl
    have hre : (Z.write (.diag (r - 1)) v).rowEnd i = Z.rowEnd i := rfl
    rw [hw', hre]
    by_cases h : i - j > Z.width i
    · simp only [h, if_true]
      rfl
    · simp only [h, if_false]
      rfl
  · intro i hi hne
    show (Z.diag.setIfInBounds (r - 1) v).getD (i - 1) 0 = Z.diag.getD (i - 1) 0
    rw [getD_setIfInBounds, if_neg (by omega)]
  · show (Z.diag.setIfInBounds (r - 1) v).getD (r - 1) 0 = v
    rw [getD_setIfInBounds, if_pos ⟨rfl, by rw [hZ.diag_size]; omega⟩]

/-- writing the profile cell `x` of row `r` (column `r - width r + x`) -/
theorem write_env_spec {Z : Env K} (hZ : Z.ProfileOK) (r x : Nat) (hr1 : 1 ≤ r) (hrd : r ≤ Z.dim)
    (hx : x < Z.width r) (v : K) :
    SameShape Z (Z.write (.env (Z.rowBegin r + x)) v) ∧
    (Z.write (.env (Z.rowBegin r + x)) v).entry r (r - Z.width r + x) = v ∧
    (∀ i j, 1 ≤ i → i ≤ Z.dim → j < i → ¬ (i = r ∧ j = r - Z.width r + x) →
      (Z.write (.env (Z.rowBegin r + x)) v).entry i j = Z.entry i j) ∧
    (∀ i, (Z.write (.env (Z.rowBegin r + x)) v).diagonal i = Z.diagonal i) := by
  have hbe := rowBegin_add_width hZ r hr1 hrd
  have hes := rowEnd_le_size hZ r hr1 hrd
  have hw := width_le hZ r hr1 hrd
  have hss : SameShape Z (Z.write (.env (Z.rowBegin r + x)) v) := ⟨rfl, rfl, rfl, by simp [Env.write]⟩
  have hOK := hss.ok hZ
  have henv : ∀ p, (Z.write (.env (Z.rowBegin r + x)) v).env.getD p 0 =
      if Z.rowBegin r + x = p then v else Z.env.getD p 0 := by
    intro p
    show (Z.env.setIfInBounds (Z.rowBegin r + x) v).getD p 0 = _
    rw [getD_setIfInBounds]
    by_cases hp : Z.rowBegin r + x = p
    · rw [if_pos ⟨hp, by omega⟩, if_pos hp]
    · rw [if_neg (by omega), if_neg hp]
  refine ⟨hss, ?_, ?_, fun i => rfl⟩
  · have h := entry_cell hOK r x hr1 hrd (by rw [hss.width]; exact hx)
    rw [hss.width, hss.rowBegin, henv, if_pos rfl] at h
    exact h
  · intro i j hi1 hid hji hne
    have hwi := width_le hZ i hi1 hid
    have hbei := rowBegin_add_width hZ i hi1 hid
    by_cases hout : Z.width i < i - j
    · rw [entry_lower_out Z i j hji hout, entry_lower_out _ i j hji (by rw [hss.width]; exact hout)]
    · have e : i - (i - j) = j := by omega
      have h1 := entry_lower_in Z i (i - j) (by omega) (by omega) (by omega)
      have h2 := entry_lower_in (Z.write (.env (Z.rowBegin r + x)) v) i (i - j) (by omega) (by omega)
        (by rw [hss.width]; omega)
      rw [e] at h1 h2
      have hre : (Z.write (.env (Z.rowBegin r + x)) v).rowEnd i = Z.rowEnd i := rfl
      rw [h1, h2, hre, henv, if_neg]
      intro hp
      rcases Nat.lt_trichotomy i r with hlt | heq | hgt
      · have := rowEnd_le_rowBegin hZ i r hi1 hlt hrd
        omega
      · subst heq
        apply hne
        refine ⟨rfl, ?_⟩
        omega
      · have := rowEnd_le_rowBegin hZ r i hr1 hgt hid
        omega

theorem elementD_eq_entry (Z : Env K) (i j : Nat) : Z.elementD i j = Z.entry i j := rfl

/-- inner loop body of `invStep` (non-zero pivot): cell `(step, step-1-t)` -/
def invBody (chol : Env K) (step b w : Nat) (Z : Env K) (t : Nat) : Env K :=
  let i := step - 1 - t
  let s := (List.range' (i + 1) (chol.dim - i)).foldl (fun s k =>
      match chol.element i k with
      | none => s
      | some u => s - u * Z.elementD k step) (0 : K)
  Z.write (.env (b + w - 1 - t)) s

theorem invBody_eq (chol : Env K) (step b w : Nat) (Z : Env K) (t : Nat) :
    invBody chol step b w Z t = Z.write (.env (b + w - 1 - t))
      (0 - ∑ m ∈ range (chol.dim - (step - 1 - t)),
        chol.entry (step - 1 - t) (step - 1 - t + 1 + m) * Z.entry (step - 1 - t + 1 + m) step) := by
  unfold invBody
  simp only []
  rw [fold_elem_sub chol (fun k => Z.elementD k step) (fun k => chol.element (step - 1 - t) k)]
  rfl

theorem invStep_zero (chol Z : Env K) (step : Nat) (h : chol.diagonal step = 0) :
    chol.invStep Z step = (List.range (Z.width step)).foldl
      (fun Z' t => Z'.write (.env (Z.rowBegin step + t)) 0) (Z.write (.diag (step - 1)) 0) := by
  have hb : Scalar.beq (chol.diagonal step) 0 = true := by
    show decide (_ = (0:K)) = true
    exact decide_eq_true h
  unfold Env.invStep
  simp only []
  rw [if_pos hb]

theorem invStep_nonzero (chol Z : Env K) (step : Nat) (h : chol.diagonal step ≠ 0) :
    chol.invStep Z step = (List.range (min (step - 1) (Z.width step))).foldl
      (invBody chol step (Z.rowBegin step) (Z.width step))
      (Z.write (.diag (step - 1)) (1 / chol.diagonal step -
        ∑ m ∈ range (chol.dim - step), chol.entry (step + 1 + m) step * Z.entry step (step + 1 + m))) := by
  have hb : ¬ Scalar.beq (chol.diagonal step) 0 = true := by
    show ¬ decide (_ = (0:K)) = true
    exact fun hh => h (of_decide_eq_true hh)
  unfold Env.invStep
  simp only []
  rw [if_neg hb]
  show List.foldl (invBody chol step (Z.rowBegin step) (Z.width step))
    (Z.write (.diag (step - 1)) (List.foldl (fun d k =>
        match chol.element k step with
        | none => d
        | some u => d - u * Z.elementD step k) (1 / chol.diagonal step)
      (List.range' (step + 1) (chol.dim - step)))) _ = _
  rw [fold_elem_sub chol (fun k => Z.elementD step k) (fun k => chol.element k step)]
  rfl

/-- inner loop of `invStep` (non-zero pivot) after `cnt` cells -/
theorem invInner_inv (chol : Env K) {Z1 : Env K} (hZ : Z1.ProfileOK) (hdim : chol.dim = Z1.dim)
    (step : Nat) (h1 : 1 ≤ step) (hd : step ≤ Z1.dim) (cnt : Nat) (hcnt : cnt ≤ Z1.width step) :
    SameShape Z1 ((List.range cnt).foldl (invBody chol step (Z1.rowBegin step) (Z1.width step)) Z1) ∧
    (∀ i j, 1 ≤ i → i ≤ Z1.dim → j < i → ¬ (i = step ∧ step - cnt ≤ j) →
      ((List.range cnt).foldl (invBody chol step (Z1.rowBegin step) (Z1.width step)) Z1).entry i j
        = Z1.entry i j) ∧
    (∀ i, ((List.range cnt).foldl (invBody chol step (Z1.rowBegin step) (Z1.width step)) Z1).diagonal i
        = Z1.diagonal i) ∧
    (∀ i, step - cnt ≤ i → i < step →
      ((List.range cnt).foldl (invBody chol step (Z1.rowBegin step) (Z1.width step)) Z1).entry step i
      = 0 - ∑ m ∈ range (chol.dim - i), chol.entry i (i + 1 + m) *
        ((List.range cnt).foldl (invBody chol step (Z1.rowBegin step) (Z1.width step)) Z1).entry (i + 1 + m) step) := by
  have hw := width_le hZ step h1 hd
  induction cnt with
  | zero =>
    refine ⟨SameShape.refl _, fun _ _ _ _ _ _ => rfl, fun _ => rfl, ?_⟩
    intro i hi1 hi2
    omega
  | succ cnt ih =>
    obtain ⟨hss, hun, hdg, hrec⟩ := ih (by omega)
    rw [List.range_succ, List.foldl_append]
    generalize ((List.range cnt).foldl (invBody chol step (Z1.rowBegin step) (Z1.width step)) Z1) = Zt
      at hss hun hdg hrec ⊢
    simp only [List.foldl_cons, List.foldl_nil]
    rw [invBody_eq]
    have hOKt := hss.ok hZ
    have hpos : Z1.rowBegin step + Z1.width step - 1 - cnt = Zt.rowBegin step + (Zt.width step - 1 - cnt) := by
      rw [hss.rowBegin, hss.width]; omega
    rw [hpos]
    obtain ⟨wss, wval, wun, wdg⟩ := write_env_spec hOKt step (Zt.width step - 1 - cnt) h1
      (by rw [hss.dim]; exact hd) (by rw [hss.width]; omega)
      (0 - ∑ m ∈ range (chol.dim - (step - 1 - cnt)),
        chol.entry (step - 1 - cnt) (step - 1 - cnt + 1 + m) * Zt.entry (step - 1 - cnt + 1 + m) step)
    have hcol : step - Zt.width step + (Zt.width step - 1 - cnt) = step - 1 - cnt := by
      rw [hss.width]; omega
    rw [hcol] at wval wun
    generalize (Zt.write (.env (Zt.rowBegin step + (Zt.width step - 1 - cnt)))
      (0 - ∑ m ∈ range (chol.dim - (step - 1 - cnt)),
        chol.entry (step - 1 - cnt) (step - 1 - cnt + 1 + m) * Zt.entry (step - 1 - cnt + 1 + m) step)) = Zn
      at wss wval wun wdg ⊢
    -- entries `(k, step)` with `k > step-1-cnt` are not touched by this write
    have hunch : ∀ k, step - 1 - cnt < k → k ≤ Z1.dim → Zn.entry k step = Zt.entry k step := by
      intro k hk1 hk2
      rcases Nat.lt_trichotomy k step with hlt | heq | hgt
      · rw [entry_symm Zn, entry_symm Zt]
        exact wun step k h1 (by rw [hss.dim]; exact hd) hlt (by omega)
      · subst heq
        rw [entry_diag, entry_diag, wdg]
      · exact wun k step (by omega) (by rw [hss.dim]; exact hk2) hgt (by omega)
    refine ⟨hss.trans wss, ?_, ?_, ?_⟩
    · intro i j hi1 hid hji hne
      rw [wun i j hi1 (by rw [hss.dim]; exact hid) hji (by omega)]
      exact hun i j hi1 hid hji (by omega)
    · intro i
      rw [wdg, hdg]
    · intro i hi1 hi2
      by_cases hie : i = step - 1 - cnt
      · subst hie
        rw [wval]
        congr 1
        apply Finset.sum_congr rfl
        intro m hm
        have := Finset.mem_range.mp hm
        rw [hunch _ (by omega) (by omega)]
      · rw [wun step i h1 (by rw [hss.dim]; exact hd) hi2 (by omega), hrec i (by omega) hi2]
        congr 1
        apply Finset.sum_congr rfl
        intro m hm
        have := Finset.mem_range.mp hm
        rw [hunch _ (by omega) (by omega)]

/-- zero-pivot loop of `invStep` after `cnt` cells -/
theorem invZero_inv {Z1 : Env K} (hZ : Z1.ProfileOK) (step : Nat) (h1 : 1 ≤ step) (hd : step ≤ Z1.dim)
    (cnt : Nat) (hcnt : cnt ≤ Z1.width step) :
    SameShape Z1 ((List.range cnt).foldl (fun Z' t => Z'.write (.env (Z1.rowBegin step + t)) 0) Z1) ∧
    (∀ i j, 1 ≤ i → i ≤ Z1.dim → j < i → i ≠ step →
      ((List.range cnt).foldl (fun Z' t => Z'.write (.env (Z1.rowBegin step + t)) 0) Z1).entry i j
        = Z1.entry i j) ∧
    (∀ i, ((List.range cnt).foldl (fun Z' t => Z'.write (.env (Z1.rowBegin step + t)) 0) Z1).diagonal i
        = Z1.diagonal i) ∧
    (∀ x, x < cnt →
      ((List.range cnt).foldl (fun Z' t => Z'.write (.env (Z1.rowBegin step + t)) 0) Z1).entry step
        (step - Z1.width step + x) = 0) := by
  have hw := width_le hZ step h1 hd
  induction cnt with
  | zero =>
    exact ⟨SameShape.refl _, fun _ _ _ _ _ _ => rfl, fun _ => rfl, fun x hx => absurd hx (Nat.not_lt_zero x)⟩
  | succ cnt ih =>
    obtain ⟨hss, hun, hdg, hz⟩ := ih (by omega)
    rw [List.range_succ, List.foldl_append]
    generalize ((List.range cnt).foldl (fun Z' t => Z'.write (.env (Z1.rowBegin step + t)) 0) Z1) = Zt
      at hss hun hdg hz ⊢
    simp only [List.foldl_cons, List.foldl_nil]
    have hOKt := hss.ok hZ
    rw [← hss.rowBegin]
    obtain ⟨wss, wval, wun, wdg⟩ := write_env_spec hOKt step cnt h1
      (by rw [hss.dim]; exact hd) (by rw [hss.width]; omega) 0
    rw [hss.width] at wval wun
    refine ⟨hss.trans wss, ?_, ?_, ?_⟩
    · intro i j hi1 hid hji hne
      rw [wun i j hi1 (by rw [hss.dim]; exact hid) hji (by omega)]
      exact hun i j hi1 hid hji hne
    · intro i
      rw [wdg, hdg]
    · intro x hx
      by_cases hxe : x = cnt
      · subst hxe; exact wval
      · rw [wun step _ h1 (by rw [hss.dim]; exact hd) (by omega) (by omega)]
        exact hz x (by omega)

/-- What one pass of the `inverse` loop does on the packed storage, in terms of matrix entries. -/
theorem invStep_spec (chol : Env K) {Z : Env K} (hZ : Z.ProfileOK) (hdim : chol.dim = Z.dim)
    (step : Nat) (h1 : 1 ≤ step) (hd : step ≤ Z.dim) :
    SameShape Z (chol.invStep Z step) ∧
    (∀ i j, 1 ≤ i → i ≤ Z.dim → j < i → i ≠ step → (chol.invStep Z step).entry i j = Z.entry i j) ∧
    (∀ i, 1 ≤ i → i ≠ step → (chol.invStep Z step).diagonal i = Z.diagonal i) ∧
    (chol.diagonal step = 0 → (chol.invStep Z step).diagonal step = 0 ∧
        ∀ j, j < step → (chol.invStep Z step).entry step j = 0) ∧
    (chol.diagonal step ≠ 0 →
      (chol.invStep Z step).diagonal step = 1 / chol.diagonal step -
        ∑ m ∈ range (chol.dim - step), chol.entry (step + 1 + m) step * Z.entry step (step + 1 + m) ∧
      ∀ i, step - Z.width step ≤ i → i < step → (chol.invStep Z step).entry step i =
        0 - ∑ m ∈ range (chol.dim - i), chol.entry i (i + 1 + m) * (chol.invStep Z step).entry (i + 1 + m) step) := by
  have hw := width_le hZ step h1 hd
  by_cases hpz : chol.diagonal step = 0
  · rw [invStep_zero chol Z step hpz]
    obtain ⟨s1, e1, d1, dv1⟩ := write_diag_spec hZ step h1 hd (0 : K)
    have hOK1 := s1.ok hZ
    have ew : Z.width step = (Z.write (.diag (step - 1)) 0).width step := rfl
    have eb : Z.rowBegin step = (Z.write (.diag (step - 1)) 0).rowBegin step := rfl
    rw [ew, eb]
    generalize Z.write (.diag (step - 1)) 0 = Z1 at s1 e1 d1 dv1 hOK1 ew eb ⊢
    obtain ⟨s2, e2, d2, z2⟩ := invZero_inv hOK1 step h1 (by rw [s1.dim]; exact hd) (Z1.width step) (Nat.le_refl _)
    generalize ((List.range (Z1.width step)).foldl (fun Z' t => Z'.write (.env (Z1.rowBegin step + t)) 0) Z1) = Z2
      at s2 e2 d2 z2 ⊢
    refine ⟨s1.trans s2, ?_, ?_, ?_, fun hne => absurd hpz hne⟩
    · intro i j hi1 hid hji hne
      rw [e2 i j hi1 (by rw [s1.dim]; exact hid) hji hne, e1 i j hji]
    · intro i hi1 hne
      rw [d2, d1 i hi1 hne]
    · intro _
      refine ⟨by rw [d2, dv1], ?_⟩
      intro j hj
      by_cases hout : Z2.width step < step - j
      · exact entry_lower_out Z2 step j hj hout
      · rw [s2.width] at hout
        have := z2 (j - (step - Z1.width step)) (by omega)
        rw [show step - Z1.width step + (j - (step - Z1.width step)) = j by omega] at this
        exact this
  · rw [invStep_nonzero chol Z step hpz, Nat.min_eq_right hw]
    obtain ⟨s1, e1, d1, dv1⟩ := write_diag_spec hZ step h1 hd (1 / chol.diagonal step -
        ∑ m ∈ range (chol.dim - step), chol.entry (step + 1 + m) step * Z.entry step (step + 1 + m))
    have hOK1 := s1.ok hZ
    have ew : Z.width step = (Z.write (.diag (step - 1)) (1 / chol.diagonal step -
        ∑ m ∈ range (chol.dim - step), chol.entry (step + 1 + m) step * Z.entry step (step + 1 + m))).width step := rfl
    have eb : Z.rowBegin step = (Z.write (.diag (step - 1)) (1 / chol.diagonal step -
        ∑ m ∈ range (chol.dim - step), chol.entry (step + 1 + m) step * Z.entry step (step + 1 + m))).rowBegin step := rfl
    rw [ew, eb]
    generalize Z.write (.diag (step - 1)) (1 / chol.diagonal step -
        ∑ m ∈ range (chol.dim - step), chol.entry (step + 1 + m) step * Z.entry step (step + 1 + m)) = Z1
      at s1 e1 d1 dv1 hOK1 ew eb ⊢
    obtain ⟨s2, e2, d2, r2⟩ := invInner_inv chol hOK1 (by rw [s1.dim]; exact hdim) step h1
      (by rw [s1.dim]; exact hd) (Z1.width step) (Nat.le_refl _)
    generalize ((List.range (Z1.width step)).foldl (invBody chol step (Z1.rowBegin step) (Z1.width step)) Z1) = Z2
      at s2 e2 d2 r2 ⊢
    refine ⟨s1.trans s2, ?_, ?_, fun h0 => absurd h0 hpz, ?_⟩
    · intro i j hi1 hid hji hne
      rw [e2 i j hi1 (by rw [s1.dim]; exact hid) hji (by omega), e1 i j hji]
    · intro i hi1 hne
      rw [d2, d1 i hi1 hne]
    · intro _
      refine ⟨by rw [d2, dv1], ?_⟩
      intro i hi1 hi2
      exact r2 i hi1 hi2

/-! ### `inverse` : dense side -/

/-- all rows present, all of length `n` -/
structure Square (Z : Dense K) (n : Nat) : Prop where
  size : Z.size = n
  row : ∀ r, r < n → (Z.getD r #[]).size = n

theorem modify_set_spec (Z : Dense K) (n : Nat) (hZ : Square Z n) (i j : Nat) (hi : i < n) (hj : j < n)
    (v : K) :
    Square (Z.modify i (·.setIfInBounds j v)) n ∧
    ∀ a b, Dense.get (Z.modify i (·.setIfInBounds j v)) a b = if a = i ∧ b = j then v else Z.get a b := by
  have hrow : ∀ a, (Z.modify i (·.setIfInBounds j v)).getD a #[] =
      if i = a then (Z.getD a #[]).setIfInBounds j v else Z.getD a #[] := by
    intro a
    rw [getD_modify]
    by_cases h : i = a
    · subst h
      rw [if_pos ⟨rfl, by rw [hZ.size]; exact hi⟩, if_pos rfl]
    · rw [if_neg (by omega), if_neg h]
  refine ⟨⟨by simp [hZ.size], ?_⟩, ?_⟩
  · intro r hr
    rw [hrow]
    by_cases h : i = r
    · rw [if_pos h, Array.size_setIfInBounds]; exact hZ.row r hr
    · rw [if_neg h]; exact hZ.row r hr
  · intro a b
    unfold Dense.get
    rw [hrow]
    by_cases h : i = a
    · subst h
      rw [if_pos rfl, getD_setIfInBounds]
      by_cases hb : j = b
      · subst hb
        rw [if_pos ⟨rfl, by rw [hZ.row i hi]; exact hj⟩, if_pos ⟨rfl, rfl⟩]
      · rw [if_neg (by omega), if_neg (by omega)]
    · rw [if_neg h, if_neg (by omega)]

/-- `setSym` of `Dense.inverse` -/
def setSym (Z : Dense K) (i j : Nat) (v : K) : Dense K :=
  (Z.modify i (·.setIfInBounds j v)).modify j (·.setIfInBounds i v)

theorem setSym_spec (Z : Dense K) (n : Nat) (hZ : Square Z n) (i j : Nat) (hi : i < n) (hj : j < n)
    (v : K) :
    Square (setSym Z i j v) n ∧
    ∀ a b, Dense.get (setSym Z i j v) a b = if (a = i ∧ b = j) ∨ (a = j ∧ b = i) then v else Z.get a b := by
  obtain ⟨s1, g1⟩ := modify_set_spec Z n hZ i j hi hj v
  obtain ⟨s2, g2⟩ := modify_set_spec _ n s1 j i hj hi v
  refine ⟨s2, fun a b => ?_⟩
  unfold setSym
  rw [g2, g1]
  by_cases h1 : a = j ∧ b = i
  · rw [if_pos h1, if_pos (Or.inr h1)]
  · rw [if_neg h1]
    by_cases h2 : a = i ∧ b = j
    · rw [if_pos h2, if_pos (Or.inl h2)]
    · rw [if_neg h2, if_neg (by tauto)]

/-- inner body of the dense `inverse` (non-zero pivot): entries `(s0, s0-1-u)` and its mirror -/
def dBody (f : Dense.LDL K) (n s0 : Nat) (Z : Dense K) (u : Nat) : Dense K :=
  let i := s0 - 1 - u
  let s := Dense.sum ((List.range (n - 1 - i)).map fun m => f.L.get (i + 1 + m) i * Z.get (i + 1 + m) s0)
  setSym Z s0 i (0 - s)

/-- one pass of the dense `inverse` loop for row/column `s0` -/
def dStep (f : Dense.LDL K) (n : Nat) (Z : Dense K) (s0 : Nat) : Dense K :=
  if Scalar.beq (f.D.getD s0 0) 0 then
    (List.range (s0 + 1)).foldl (fun Z i => setSym Z s0 i 0) Z
  else
    (List.range s0).foldl (dBody f n s0)
      (setSym Z s0 s0 (1 / f.D.getD s0 0 - Dense.sum ((List.range (n - 1 - s0)).map fun m =>
                    f.L.get (s0 + 1 + m) s0 * Z.get s0 (s0 + 1 + m))))

theorem dense_inverse_eq (f : Dense.LDL K) (n : Nat) :
    Dense.inverse f n = (List.range n).foldl (fun Z t => dStep f n Z (n - 1 - t))
      (Array.replicate n (Array.replicate n 0)) := rfl

theorem dZero_inv (Z : Dense K) (n s0 : Nat) (hZ : Square Z n) (hs : s0 < n) (cnt : Nat) (hc : cnt ≤ s0 + 1) :
    Square ((List.range cnt).foldl (fun Z i => setSym Z s0 i 0) Z) n ∧
    ∀ a b, Dense.get ((List.range cnt).foldl (fun Z i => setSym Z s0 i 0) Z) a b =
      if (a = s0 ∧ b < cnt) ∨ (b = s0 ∧ a < cnt) then 0 else Z.get a b := by
  induction cnt with
  | zero =>
    refine ⟨hZ, fun a b => ?_⟩
    rw [if_neg (by omega)]
    rfl
  | succ cnt ih =>
    obtain ⟨hsq, hget⟩ := ih (by omega)
    rw [List.range_succ, List.foldl_append]
    generalize ((List.range cnt).foldl (fun Z i => setSym Z s0 i 0) Z) = Zt at hsq hget ⊢
    simp only [List.foldl_cons, List.foldl_nil]
    obtain ⟨ssq, sget⟩ := setSym_spec Zt n hsq s0 cnt hs (by omega) 0
    refine ⟨ssq, fun a b => ?_⟩
    rw [sget, hget]
    by_cases h1 : (a = s0 ∧ b = cnt) ∨ (a = cnt ∧ b = s0)
    · rw [if_pos h1, if_pos (by omega)]
    · rw [if_neg h1]
      by_cases h2 : (a = s0 ∧ b < cnt) ∨ (b = s0 ∧ a < cnt)
      · rw [if_pos h2, if_pos (by omega)]
      · rw [if_neg h2, if_neg (by omega)]

theorem dInner_inv (f : Dense.LDL K) (n s0 : Nat) (Z1 : Dense K) (hZ : Square Z1 n) (hs : s0 < n)
    (cnt : Nat) (hc : cnt ≤ s0) :
    Square ((List.range cnt).foldl (dBody f n s0) Z1) n ∧
    (∀ a b, ¬ ((a = s0 ∧ s0 - cnt ≤ b ∧ b < s0) ∨ (b = s0 ∧ s0 - cnt ≤ a ∧ a < s0)) →
      Dense.get ((List.range cnt).foldl (dBody f n s0) Z1) a b = Z1.get a b) ∧
    (∀ i, s0 - cnt ≤ i → i < s0 →
      Dense.get ((List.range cnt).foldl (dBody f n s0) Z1) s0 i =
        0 - ∑ m ∈ range (n - 1 - i), f.L.get (i + 1 + m) i *
          Dense.get ((List.range cnt).foldl (dBody f n s0) Z1) (i + 1 + m) s0 ∧
      Dense.get ((List.range cnt).foldl (dBody f n s0) Z1) i s0 =
        Dense.get ((List.range cnt).foldl (dBody f n s0) Z1) s0 i) := by
  induction cnt with
  | zero =>
    refine ⟨hZ, fun _ _ _ => rfl, ?_⟩
    intro i h1 h2
    omega
  | succ cnt ih =>
    obtain ⟨hsq, hun, hrec⟩ := ih (by omega)
    rw [List.range_succ, List.foldl_append]
    generalize ((List.range cnt).foldl (dBody f n s0) Z1) = Zt at hsq hun hrec ⊢
    simp only [List.foldl_cons, List.foldl_nil]
    unfold dBody
    simp only []
    rw [dsum_map_range]
    obtain ⟨ssq, sget⟩ := setSym_spec Zt n hsq s0 (s0 - 1 - cnt) hs (by omega)
      (0 - ∑ m ∈ range (n - 1 - (s0 - 1 - cnt)), f.L.get (s0 - 1 - cnt + 1 + m) (s0 - 1 - cnt) *
        Zt.get (s0 - 1 - cnt + 1 + m) s0)
    generalize (setSym Zt s0 (s0 - 1 - cnt)
      (0 - ∑ m ∈ range (n - 1 - (s0 - 1 - cnt)), f.L.get (s0 - 1 - cnt + 1 + m) (s0 - 1 - cnt) *
        Zt.get (s0 - 1 - cnt + 1 + m) s0)) = Zn at ssq sget ⊢
    have hunch : ∀ k, s0 - 1 - cnt < k → Zn.get k s0 = Zt.get k s0 := by
      intro k hk
      rw [sget, if_neg (by omega)]
    refine ⟨ssq, ?_, ?_⟩
    · intro a b hne
      rw [sget, if_neg (by omega)]
      exact hun a b (by omega)
    · intro i hi1 hi2
      by_cases hie : i = s0 - 1 - cnt
      · subst hie
        refine ⟨?_, ?_⟩
        · rw [sget, if_pos (Or.inl ⟨rfl, rfl⟩)]
          congr 1
          apply Finset.sum_congr rfl
          intro m _
          rw [hunch _ (by omega)]
        · rw [sget, sget, if_pos (Or.inr ⟨rfl, rfl⟩), if_pos (Or.inl ⟨rfl, rfl⟩)]
      · obtain ⟨r1, r2⟩ := hrec i (by omega) hi2
        refine ⟨?_, ?_⟩
        · rw [sget, if_neg (by omega), r1]
          congr 1
          apply Finset.sum_congr rfl
          intro m _
          rw [hunch _ (by omega)]
        · rw [sget, sget, if_neg (by omega), if_neg (by omega)]
          exact r2

/-- What one pass of the dense `inverse` loop does. -/
theorem dStep_spec (f : Dense.LDL K) (n : Nat) (Z : Dense K) (hZ : Square Z n) (s0 : Nat) (hs : s0 < n) :
    Square (dStep f n Z s0) n ∧
    (∀ a b, ¬ ((a = s0 ∧ b ≤ s0) ∨ (b = s0 ∧ a ≤ s0)) → Dense.get (dStep f n Z s0) a b = Z.get a b) ∧
    (f.D.getD s0 0 = 0 → ∀ i, i ≤ s0 →
      Dense.get (dStep f n Z s0) s0 i = 0 ∧ Dense.get (dStep f n Z s0) i s0 = 0) ∧
    (f.D.getD s0 0 ≠ 0 →
      Dense.get (dStep f n Z s0) s0 s0 = 1 / f.D.getD s0 0 -
        ∑ m ∈ range (n - 1 - s0), f.L.get (s0 + 1 + m) s0 * Z.get s0 (s0 + 1 + m) ∧
      ∀ i, i < s0 →
        Dense.get (dStep f n Z s0) s0 i = 0 - ∑ m ∈ range (n - 1 - i), f.L.get (i + 1 + m) i *
          Dense.get (dStep f n Z s0) (i + 1 + m) s0 ∧
        Dense.get (dStep f n Z s0) i s0 = Dense.get (dStep f n Z s0) s0 i) := by
  unfold dStep
  by_cases hpz : f.D.getD s0 0 = 0
  · have hb : Scalar.beq (f.D.getD s0 0) 0 = true := by
      show decide (_ = (0:K)) = true
      exact decide_eq_true hpz
    rw [if_pos hb]
    obtain ⟨zsq, zget⟩ := dZero_inv Z n s0 hZ hs (s0 + 1) (Nat.le_refl _)
    refine ⟨zsq, ?_, ?_, fun hne => absurd hpz hne⟩
    · intro a b hne
      rw [zget, if_neg (by omega)]
    · intro _ i hi
      refine ⟨?_, ?_⟩
      · rw [zget, if_pos (Or.inl ⟨rfl, by omega⟩)]
      · rw [zget, if_pos (Or.inr ⟨rfl, by omega⟩)]
  · have hb : ¬ Scalar.beq (f.D.getD s0 0) 0 = true := by
      show ¬ decide (_ = (0:K)) = true
      exact fun hh => hpz (of_decide_eq_true hh)
    rw [if_neg hb, dsum_map_range]
    obtain ⟨ssq, sget⟩ := setSym_spec Z n hZ s0 s0 hs hs (1 / f.D.getD s0 0 -
        ∑ m ∈ range (n - 1 - s0), f.L.get (s0 + 1 + m) s0 * Z.get s0 (s0 + 1 + m))
    generalize (setSym Z s0 s0 (1 / f.D.getD s0 0 -
        ∑ m ∈ range (n - 1 - s0), f.L.get (s0 + 1 + m) s0 * Z.get s0 (s0 + 1 + m))) = Z1 at ssq sget ⊢
    obtain ⟨isq, iun, irec⟩ := dInner_inv f n s0 Z1 ssq hs s0 (Nat.le_refl _)
    refine ⟨isq, ?_, fun h0 => absurd h0 hpz, ?_⟩
    · intro a b hne
      rw [iun a b (by omega), sget, if_neg (by omega)]
    · intro _
      refine ⟨?_, ?_⟩
      · rw [iun s0 s0 (by omega), sget, if_pos (Or.inl ⟨rfl, rfl⟩)]
      · intro i hi
        exact irec i (by omega) hi

/-! ### `inverse` : the two loops in lockstep -/

/-- invariant of the two `inverse` loops after the rows `> row` have been processed: inside the
    profile the packed and the dense `Z` agree, and the dense `Z` is symmetric there -/
def InvRel (F Zp : Env K) (Zd : Dense K) (n row : Nat) : Prop :=
  ∀ r c, row < r → r ≤ n → 1 ≤ c → c ≤ r → r - c ≤ F.width r →
    Zp.entry r c = Zd.get (r - 1) (c - 1) ∧ Zd.get (c - 1) (r - 1) = Zd.get (r - 1) (c - 1)

theorem inv_lockstep_step {F : Env K} {f : Dense.LDL K} {n : Nat} (h : Refines F f n)
    {Zp : Env K} (hZp : Zp.ProfileOK) (hxe : Zp.xenv = F.xenv) (hZdim : Zp.dim = n)
    {Zd : Dense K} (hZd : Square Zd n) (row : Nat) (h1 : 1 ≤ row) (hd : row ≤ n)
    (hinv : InvRel F Zp Zd n row) :
    (F.invStep Zp row).ProfileOK ∧ (F.invStep Zp row).xenv = F.xenv ∧ (F.invStep Zp row).dim = n ∧
    Square (dStep f n Zd (row - 1)) n ∧
    InvRel F (F.invStep Zp row) (dStep f n Zd (row - 1)) n (row - 1) := by
  have hFdim := h.dim
  have hwid : ∀ i, Zp.width i = F.width i := by
    intro i; simp [Env.width, Env.rowEnd, Env.rowBegin, hxe]
  obtain ⟨pss, pun, pdg, pzero, pnz⟩ := invStep_spec F hZp (by rw [hFdim, hZdim]) row h1 (by omega)
  obtain ⟨dsq, dun, dzero, dnz⟩ := dStep_spec f n Zd hZd (row - 1) (by omega)
  have hD := h.D row h1 hd
  have hw := width_le h.ok row h1 (by omega)
  rw [hwid] at pnz
  rw [hZdim] at pun
  generalize F.invStep Zp row = Zp' at pss pun pdg pzero pnz ⊢
  generalize dStep f n Zd (row - 1) = Zd' at dsq dun dzero dnz ⊢
  refine ⟨pss.ok hZp, pss.xenv.trans hxe, pss.dim.trans hZdim, dsq, ?_⟩
  -- a product `L(k,i) * z` only matters inside the profile
  have hterm : ∀ k i, i < k → k ≤ n → 1 ≤ i → ∀ (zp zd : K), (k - i ≤ F.width k → zp = zd) →
      F.entry k i * zp = f.L.get (k - 1) (i - 1) * zd := by
    intro k i hik hkn hi1 zp zd hz
    rw [← h.L k i hi1 hik hkn]
    by_cases hin : k - i ≤ F.width k
    · rw [hz hin]
    · rw [entry_lower_out F k i hik (by omega), zero_mul, zero_mul]
  -- rows below `row` are untouched on both sides
  have hbelow : ∀ r c, row < r → r ≤ n → 1 ≤ c → c ≤ r → r - c ≤ F.width r →
      Zp'.entry r c = Zd'.get (r - 1) (c - 1) ∧ Zd'.get (c - 1) (r - 1) = Zd'.get (r - 1) (c - 1) := by
    intro r c hr1 hr2 hc1 hc2 hprof
    obtain ⟨i1, i2⟩ := hinv r c hr1 hr2 hc1 hc2 hprof
    have e1 : Zp'.entry r c = Zp.entry r c := by
      by_cases hcr : c = r
      · subst hcr
        rw [entry_diag, entry_diag, pdg c hc1 (by omega)]
      · exact pun r c (by omega) hr2 (by omega) (by omega)
    have e2 : Zd'.get (r - 1) (c - 1) = Zd.get (r - 1) (c - 1) := dun _ _ (by omega)
    have e3 : Zd'.get (c - 1) (r - 1) = Zd.get (c - 1) (r - 1) := dun _ _ (by omega)
    rw [e1, e2, e3]
    exact ⟨i1, i2⟩
  intro r c hr1 hr2 hc1 hc2 hprof
  by_cases hrr : row < r
  · exact hbelow r c hrr hr2 hc1 hc2 hprof
  have hre : r = row := by omega
  subst hre
  by_cases hpz : F.diagonal r = 0
  · -- zero pivot: zero row on both sides
    obtain ⟨pz1, pz2⟩ := pzero hpz
    have dz := dzero (by rw [← hD]; exact hpz) (c - 1) (by omega)
    have e1 : Zp'.entry r c = 0 := by
      by_cases hcr : c = r
      · subst hcr; rw [entry_diag]; exact pz1
      · exact pz2 c (by omega)
    rw [e1, dz.1, dz.2]
    exact ⟨rfl, rfl⟩
  · obtain ⟨pn1, pn2⟩ := pnz hpz
    obtain ⟨dn1, dn2⟩ := dnz (by rw [← hD]; exact hpz)
    -- the diagonal entry
    have hdiag : Zp'.diagonal r = Zd'.get (r - 1) (r - 1) := by
      rw [pn1, dn1, hD]
      congr 1
      apply Finset.sum_congr (by congr 1; omega)
      intro m hm
      have hm' := Finset.mem_range.mp hm
      have e := hterm (r + 1 + m) r (by omega) (by omega) h1 (Zp.entry r (r + 1 + m))
        (Zd.get (r - 1) (r + 1 + m - 1)) (by
          intro hin
          obtain ⟨i1, i2⟩ := hinv (r + 1 + m) r (by omega) (by omega) h1 (by omega) hin
          rw [entry_symm, i1, i2])
      rw [e]
      congr 2 <;> omega
    -- the entries left of the diagonal, from the diagonal outwards
    have hoff : ∀ k i, r - k ≤ i → r - F.width r ≤ i → i < r →
        Zp'.entry r i = Zd'.get (r - 1) (i - 1) := by
      intro k
      induction k with
      | zero => intro i a1 a2 a3; omega
      | succ k ih =>
        intro i a1 a2 a3
        rw [pn2 i a2 a3, (dn2 (i - 1) (by omega)).1]
        congr 1
        apply Finset.sum_congr (by congr 1; omega)
        intro m hm
        have hm' := Finset.mem_range.mp hm
        have e := hterm (i + 1 + m) i (by omega) (by omega) (by omega) (Zp'.entry (i + 1 + m) r)
          (Zd'.get (i + 1 + m - 1) (r - 1)) (by
            intro hin
            rcases Nat.lt_trichotomy (i + 1 + m) r with hlt | heq | hgt
            · rw [entry_symm, ih (i + 1 + m) (by omega) (by omega) hlt]
              exact ((dn2 (i + 1 + m - 1) (by omega)).2).symm
            · rw [heq, entry_diag]; exact hdiag
            · exact (hbelow (i + 1 + m) r hgt (by omega) h1 (by omega) (by omega)).1)
        rw [entry_symm F i (i + 1 + m), e]
        congr 2 <;> omega
    by_cases hcr : c = r
    · subst hcr
      rw [entry_diag]
      exact ⟨hdiag, rfl⟩
    · refine ⟨hoff r c (by omega) (by omega) (by omega), ?_⟩
      exact (dn2 (c - 1) (by omega)).2

theorem rev_range'_one (n : Nat) : (List.range' 1 n).reverse = (List.range n).map (fun t => n - t) := by
  induction n with
  | zero => rfl
  | succ n ih =>
    rw [List.range'_concat, List.reverse_append, ih, List.range_succ_eq_map]
    simp only [List.reverse_cons, List.reverse_nil, List.nil_append, List.cons_append, List.map_cons,
      List.map_map, Nat.one_mul]
    congr 1
    · omega
    · apply List.map_congr_left
      intro t _
      simp

/-- Goal 4: inside the profile, `Envelope::inverse` of a packed factor is the dense inverse
    recurrence (zero rows on zero pivots included) -/
theorem inverse_refines' {F : Env K} {f : Dense.LDL K} {n : Nat} (h : Refines F f n) :
    ∀ i j, 1 ≤ j → j ≤ i → i ≤ n → i - j ≤ F.width i →
      F.inverse.entry i j = (Dense.inverse f n).get (i - 1) (j - 1) := by
  intro i j hj hji hin hprof
  have hn : F.dim ≠ 0 := by rw [h.dim]; omega
  unfold Env.inverse
  rw [if_neg hn]
  simp only []
  rw [rev_range'_one, List.foldl_map, dense_inverse_eq, h.dim]
  have key : ∀ s, s ≤ n →
      ((List.range s).foldl (fun Z t => F.invStep Z (n - t))
        ({ dim := n, defect := 0, xenv := F.xenv, diag := Array.replicate n 0,
           env := Array.replicate (F.xenv.getD (n + 1) 0 - F.xenv.getD 1 0) 0 } : Env K)).ProfileOK ∧
      ((List.range s).foldl (fun Z t => F.invStep Z (n - t))
        ({ dim := n, defect := 0, xenv := F.xenv, diag := Array.replicate n 0,
           env := Array.replicate (F.xenv.getD (n + 1) 0 - F.xenv.getD 1 0) 0 } : Env K)).xenv = F.xenv ∧
      ((List.range s).foldl (fun Z t => F.invStep Z (n - t))
        ({ dim := n, defect := 0, xenv := F.xenv, diag := Array.replicate n 0,
           env := Array.replicate (F.xenv.getD (n + 1) 0 - F.xenv.getD 1 0) 0 } : Env K)).dim = n ∧
      Square ((List.range s).foldl (fun Z t => dStep f n Z (n - 1 - t))
        (Array.replicate n (Array.replicate n 0))) n ∧
      InvRel F ((List.range s).foldl (fun Z t => F.invStep Z (n - t))
        ({ dim := n, defect := 0, xenv := F.xenv, diag := Array.replicate n 0,
           env := Array.replicate (F.xenv.getD (n + 1) 0 - F.xenv.getD 1 0) 0 } : Env K))
        ((List.range s).foldl (fun Z t => dStep f n Z (n - 1 - t))
          (Array.replicate n (Array.replicate n 0))) n (n - s) := by
    intro s
    induction s with
    | zero =>
      intro _
      have hF := h.ok
      have hd := h.dim
      have f1 := hF.xenv_size
      have f4 := hF.mono
      have f5 := hF.width_le
      rw [hd] at f1 f4 f5
      refine ⟨⟨?_, ?_, ?_, ?_, ?_, ?_⟩, rfl, rfl, ⟨?_, ?_⟩, ?_⟩
      · exact f1
      · simp
      · exact hF.begin_one
      · exact f4
      · exact f5
      · show (Array.replicate _ (0:K)).size = F.xenv.getD (n + 1) 0
        rw [Array.size_replicate, hF.begin_one]
        rfl
      · simp
      · intro r hr
        show ((Array.replicate n (Array.replicate n (0:K))).getD r #[]).size = n
        rw [getD_replicate, if_pos hr, Array.size_replicate]
      · intro r c hr1 hr2
        simp only [List.range_zero, List.foldl_nil] at *
        omega
    | succ s ih =>
      intro hs
      obtain ⟨hOK, hxe, hdm, hsq, hrel⟩ := ih (by omega)
      rw [List.range_succ, List.foldl_append, List.foldl_append]
      simp only [List.foldl_cons, List.foldl_nil]
      generalize ((List.range s).foldl (fun Z t => F.invStep Z (n - t))
        ({ dim := n, defect := 0, xenv := F.xenv, diag := Array.replicate n 0,
           env := Array.replicate (F.xenv.getD (n + 1) 0 - F.xenv.getD 1 0) 0 } : Env K)) = Zp
        at hOK hxe hdm hrel ⊢
      generalize ((List.range s).foldl (fun Z t => dStep f n Z (n - 1 - t))
          (Array.replicate n (Array.replicate n 0))) = Zd at hsq hrel ⊢
      have := inv_lockstep_step h hOK hxe hdm hsq (n - s) (by omega) (by omega) hrel
      rw [show n - s - 1 = n - 1 - s by omega] at this
      rw [show n - (s + 1) = n - 1 - s by omega]
      exact this
  obtain ⟨_, _, _, _, hrel⟩ := key n (Nat.le_refl n)
  rw [Nat.sub_self] at hrel
  exact (hrel i j (by omega) hin hj hji hprof).1

/-! ### `cholDec` (the loop starts at `Gen.cholFirstRow = 1`) -/

theorem cholDec_eq (E : Env K) (tol : K) : E.cholDec tol = E.cholDecFrom 1 tol := rfl

theorem cholDec_profileOK' {E : Env K} (hE : E.ProfileOK) (tol : K) :
    (E.cholDec tol).ProfileOK ∧ (E.cholDec tol).xenv = E.xenv ∧ (E.cholDec tol).dim = E.dim :=
  cholDecFrom_profileOK' hE tol

theorem cholDec_refines' {E : Env K} (hE : E.ProfileOK) (N : Dense K) (tol : K) (htol : 0 < tol)
    (hN : ∀ i j, 1 ≤ j → j ≤ i → i ≤ E.dim → E.entry i j = N.get (i - 1) (j - 1)) :
    Refines (E.cholDec tol) (Dense.ldl tol N E.dim) E.dim ∧
    (E.cholDec tol).defect = (Dense.ldl tol N E.dim).defect :=
  cholDecFrom_refines' hE N tol htol hN

end

/-! ### the same statements against `ordFieldScalar K sq` (no auxiliary class) -/

section Explicit
variable {K : Type} [Field K] [LinearOrder K] [IsStrictOrderedRing K]

/-- `Refines` for the `Scalar` structure `ordFieldScalar K sq` -/
def RefinesWith (sq : K → K) (F : Env K) (f : Dense.LDL K) (n : Nat) : Prop :=
  @Refines K _ _ ⟨sq⟩ F f n

theorem effTol_of_pos (sq : K → K) (tol : K) (h : 0 < tol) :
    @Env.effTol K (ordFieldScalar K sq) tol = tol :=
  @effTol_pos K _ _ _ ⟨sq⟩ tol h

/-- Goal 1 -/
theorem cholDec_profileOK (sq : K → K) {E : Env K} (hE : E.ProfileOK) (tol : K) :
    (@Env.cholDec K (ordFieldScalar K sq) E tol).ProfileOK ∧
    (@Env.cholDec K (ordFieldScalar K sq) E tol).xenv = E.xenv ∧
    (@Env.cholDec K (ordFieldScalar K sq) E tol).dim = E.dim :=
  @cholDec_profileOK' K _ _ _ ⟨sq⟩ E hE tol

/-- Goal 2 -/
theorem cholDec_refines_dense (sq : K → K) {E : Env K} (hE : E.ProfileOK) (N : Dense K) (tol : K)
    (htol : 0 < tol)
    (hN : ∀ i j, 1 ≤ j → j ≤ i → i ≤ E.dim →
      @Env.entry K (ordFieldScalar K sq) E i j = @Dense.get K (ordFieldScalar K sq) N (i - 1) (j - 1)) :
    (∀ i j, 1 ≤ j → j < i → i ≤ E.dim →
      @Env.entry K (ordFieldScalar K sq) (@Env.cholDec K (ordFieldScalar K sq) E tol) i j =
        @Dense.get K (ordFieldScalar K sq) (@Dense.ldl K (ordFieldScalar K sq) tol N E.dim).L (i - 1) (j - 1)) ∧
    (∀ i, 1 ≤ i → i ≤ E.dim →
      @Env.diagonal K (ordFieldScalar K sq) (@Env.cholDec K (ordFieldScalar K sq) E tol) i =
        (@Dense.ldl K (ordFieldScalar K sq) tol N E.dim).D.getD (i - 1) 0) ∧
    (@Env.cholDec K (ordFieldScalar K sq) E tol).defect = (@Dense.ldl K (ordFieldScalar K sq) tol N E.dim).defect ∧
    RefinesWith sq (@Env.cholDec K (ordFieldScalar K sq) E tol) (@Dense.ldl K (ordFieldScalar K sq) tol N E.dim) E.dim := by
  obtain ⟨h, hdef⟩ := @cholDec_refines' K _ _ _ ⟨sq⟩ E hE N tol htol hN
  exact ⟨@Refines.L K _ _ ⟨sq⟩ _ _ _ h, @Refines.D K _ _ ⟨sq⟩ _ _ _ h, hdef, h⟩

/-- no fill: the dense `L` vanishes outside the profile -/
theorem RefinesWith.no_fill (sq : K → K) {F : Env K} {f : Dense.LDL K} {n : Nat} (h : RefinesWith sq F f n)
    (i j : Nat) (hj : 1 ≤ j) (hji : j < i) (hi : i ≤ n) (hout : F.width i < i - j) :
    @Dense.get K (ordFieldScalar K sq) f.L (i - 1) (j - 1) = 0 :=
  @Refines.no_fill K _ _ _ ⟨sq⟩ F f n h i j hj hji hi hout

/-- Goal 3 -/
theorem solve_refines_dense (sq : K → K) {F : Env K} {f : Dense.LDL K} {n : Nat} (h : RefinesWith sq F f n)
    (b : Array K) (hb : b.size = n) :
    @Env.solve K (ordFieldScalar K sq) F b n = @Dense.solve K (ordFieldScalar K sq) f n b :=
  @solve_refines' K _ _ _ ⟨sq⟩ F f n h b hb

/-- Goal 4 -/
theorem inverse_refines_dense (sq : K → K) {F : Env K} {f : Dense.LDL K} {n : Nat} (h : RefinesWith sq F f n)
    (i j : Nat) (hj : 1 ≤ j) (hji : j ≤ i) (hin : i ≤ n) (hprof : i - j ≤ F.width i) :
    @Env.entry K (ordFieldScalar K sq) (@Env.inverse K (ordFieldScalar K sq) F) i j =
      @Dense.get K (ordFieldScalar K sq) (@Dense.inverse K (ordFieldScalar K sq) f n) (i - 1) (j - 1) :=
  @inverse_refines' K _ _ _ ⟨sq⟩ F f n h i j hj hji hin hprof

end Explicit

/-! ### non-vacuity: a concrete instance over `ℚ` meets the hypotheses of goals 1–4 -/

section Sanity

/-- 2×2 full profile holding `N = [[4,2],[2,5]]` -/
def exE2 : Env ℚ := { dim := 2, defect := 0, diag := #[4, 5], env := #[2], xenv := #[0, 0, 0, 1] }
def exN2 : Dense ℚ := #[#[4, 2], #[2, 5]]

theorem exE2_ok : exE2.ProfileOK := by
  refine ⟨rfl, rfl, rfl, ?_, ?_, rfl⟩
  · intro i h1 h2
    have : i = 1 ∨ i = 2 := by simp [exE2] at h2; omega
    rcases this with rfl | rfl <;> decide
  · intro i h1 h2
    have : i = 1 ∨ i = 2 := by simp [exE2] at h2; omega
    rcases this with rfl | rfl <;> decide

theorem exE2_repr : ∀ i j, 1 ≤ j → j ≤ i → i ≤ exE2.dim →
    @Env.entry ℚ (ordFieldScalar ℚ id) exE2 i j = @Dense.get ℚ (ordFieldScalar ℚ id) exN2 (i - 1) (j - 1) := by
  intro i j h1 h2 h3
  have : i = 1 ∨ i = 2 := by simp [exE2] at h3; omega
  rcases this with rfl | rfl
  · have : j = 1 := by omega
    subst this
    simp [Env.entry, Env.element, Env.elementLoc, Env.read, exE2, exN2, Dense.get]
  · have : j = 1 ∨ j = 2 := by omega
    rcases this with rfl | rfl
    · simp [Env.entry, Env.element, Env.elementLoc, Env.read, exE2, exN2, Dense.get, Env.width,
        Env.rowEnd, Env.rowBegin]
    · simp [Env.entry, Env.element, Env.elementLoc, Env.read, exE2, exN2, Dense.get]

example : RefinesWith id (@Env.cholDec ℚ (ordFieldScalar ℚ id) exE2 (1 / 1000))
    (@Dense.ldl ℚ (ordFieldScalar ℚ id) (1 / 1000) exN2 2) 2 :=
  (cholDec_refines_dense id exE2_ok exN2 (1 / 1000) (by norm_num) exE2_repr).2.2.2

example : @Env.solve ℚ (ordFieldScalar ℚ id) (@Env.cholDec ℚ (ordFieldScalar ℚ id) exE2 (1 / 1000)) #[1, 2] 2 =
    @Dense.solve ℚ (ordFieldScalar ℚ id) (@Dense.ldl ℚ (ordFieldScalar ℚ id) (1 / 1000) exN2 2) 2 #[1, 2] :=
  solve_refines_dense id (cholDec_refines_dense id exE2_ok exN2 (1 / 1000) (by norm_num) exE2_repr).2.2.2
    #[1, 2] rfl

end Sanity
end EnvLDL
end Gama
