/-
  Shared vocabulary of the C16 lemma files: well-formedness predicates (the preconditions
  that the C++ does not check), reachability, "is a permutation", and the canonical `Scalar`
  structure of a linearly ordered field (so that theorems about the `[Scalar K]` kernels are
  theorems about field arithmetic, with no bridging axioms).
-/
import Gama.Model.Sparse
import Gama.Model.Graph
import Gama.Model.Connected
import Gama.Model.RCM
import Gama.Model.Envelope
import Mathlib.Algebra.Order.Field.Basic

namespace Gama

/-- Well-formed, completely built CRS matrix: what `transpose`, the graph constructor and
    `Envelope::set` silently assume. -/
structure SMat.WF {K : Type} (A : SMat K) : Prop where
  rcnt_eq : A.rcnt = A.rows
  rptr_size : A.rows + 2 ≤ A.rptr.size
  rptr_one : A.rptr[1]! = 0
  rptr_mono : ∀ r, 1 ≤ r → r ≤ A.rows → A.rptr[r]! ≤ A.rptr[r+1]!
  rptr_last : A.rptr[A.rows + 1]! = A.ncnt
  cind_size : A.ncnt ≤ A.cind.size
  nonz_size : A.ncnt ≤ A.nonz.size
  cind_range : ∀ p, p < A.ncnt → 1 ≤ A.cind[p]! ∧ A.cind[p]! ≤ A.cols

/-- every neighbour of a node `1..nodes` is a node `1..nodes` -/
def Adj.InRange (g : Adj) : Prop :=
  ∀ i, 1 ≤ i → i ≤ g.nodes → ∀ j ∈ g.nbrs i, 1 ≤ j ∧ j ≤ g.nodes

/-- the adjacency relation is symmetric -/
def Adj.Sym (g : Adj) : Prop :=
  ∀ i j, 1 ≤ i → i ≤ g.nodes → 1 ≤ j → j ≤ g.nodes → j ∈ g.nbrs i → i ∈ g.nbrs j

/-- `b` can be reached from `a` along neighbour lists -/
inductive Reach (g : Adj) : Nat → Nat → Prop
  | refl (a : Nat) : Reach g a a
  | step {a b c : Nat} : Reach g a b → c ∈ g.nbrs b → Reach g a c

/-- `perm`, `invp` (1-based arrays) are mutually inverse bijections of `1..n` -/
structure SOrdering.IsPerm (o : SOrdering) (n : Nat) : Prop where
  perm_range : ∀ k, 1 ≤ k → k ≤ n → 1 ≤ o.perm[k]! ∧ o.perm[k]! ≤ n
  invp_range : ∀ v, 1 ≤ v → v ≤ n → 1 ≤ o.invp[v]! ∧ o.invp[v]! ≤ n
  invp_perm : ∀ k, 1 ≤ k → k ≤ n → o.invp[o.perm[k]!]! = k
  perm_invp : ∀ v, 1 ≤ v → v ≤ n → o.perm[o.invp[v]!]! = v

/-- shape invariant of the envelope storage: row `i` owns `xenv[i] .. xenv[i+1]`, at most the
    `i-1` cells left of the diagonal, rows are laid out one after the other -/
structure Env.ProfileOK {K : Type} (E : Env K) : Prop where
  xenv_size : E.xenv.size = E.dim + 2
  diag_size : E.diag.size = E.dim
  begin_one : E.xenv.getD 1 0 = 0
  mono : ∀ i, 1 ≤ i → i ≤ E.dim → E.xenv.getD i 0 ≤ E.xenv.getD (i + 1) 0
  width_le : ∀ i, 1 ≤ i → i ≤ E.dim → E.xenv.getD (i + 1) 0 - E.xenv.getD i 0 ≤ i - 1
  env_size : E.env.size = E.xenv.getD (E.dim + 1) 0

/-- The `Scalar` signature of a linearly ordered field: every operation is the field's
    (`sqrt` is a parameter; the envelope kernels never call it when `tol > 0`). -/
@[reducible] def ordFieldScalar (K : Type) [Field K] [LinearOrder K] (sqrt : K → K) : Scalar K where
  add := (· + ·)
  sub := (· - ·)
  mul := (· * ·)
  div := (· / ·)
  neg := (- ·)
  zero := 0
  one := 1
  lt := (· < ·)
  le := (· ≤ ·)
  sqrt := sqrt
  ofNat := fun n => (n : K)
  ofSci := fun m s e => if s then (m : K) / 10 ^ e else (m : K) * 10 ^ e
  decLt := fun a b => inferInstanceAs (Decidable (a < b))
  decLe := fun a b => inferInstanceAs (Decidable (a ≤ b))
  beq := fun a b => decide (a = b)
  abs := fun x => |x|

end Gama
