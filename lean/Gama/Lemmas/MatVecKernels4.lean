/-
  Source tie of `operator*(const SymMat&, const SymMat&)` (symmat.h, round 13): the regenerated loop — two base-1
  pointers, walkers `l`, `m` advanced by `l++; if (k > i) l += k-2`, a TRIANGULAR store `j ≤ i` — equals the hand
  model `symMul` (offsets `symWalk i k - 1`, cells enumerated by `triRow`).  The known finding C15-symmat-product is
  therefore a statement about the source text (Props/C15Kernels.lean).
-/
import Gama.Gen.MatVecKernels
import Gama.Lemmas.KernelLoopsTri
import Gama.Lemmas.MatVecKernels3
namespace Gama.MatVec
open Gama.Gen
variable {K : Type} [Add K] [Mul K] [Zero K]

/-- the accumulation loop for the cell `(i,j)`, `1 ≤ i, j` -/
theorem symmul_inner (A B : Array K) (i j n : Nat) (hi : 1 ≤ i) (hj : 1 ≤ j) :
    (forE 1 n ((0 : K), i * (i - 1) / 2, j * (j - 1) / 2) fun k st => do
        let v ← mulRd A ((if i < k then st.2.1 + 1 + (k - 2) else st.2.1 + 1) - 1)
                      B ((if j < k then st.2.2 + 1 + (k - 2) else st.2.2 + 1) - 1)
        pure (st.1 + v, (if i < k then st.2.1 + 1 + (k - 2) else st.2.1 + 1), (if j < k then st.2.2 + 1 + (k - 2) else st.2.2 + 1)))
    = sumLoop n (fun k0 => mulRd A (symWalk i (k0 + 1) - 1) B (symWalk j (k0 + 1) - 1)) >>= fun s =>
        pure (s, symWalk i n, symWalk j n) := by
  have := forE_acc (K := K) 1 n (i * (i - 1) / 2, j * (j - 1) / 2)
    (fun k t => mulRd A (symStep i k t.1 - 1) B (symStep j k t.2 - 1)) (fun k t => (symStep i k t.1, symStep j k t.2))
  simp only [walk_sym i j _ hi hj] at this
  have e : ∀ k0, (fun k0 => mulRd A (symStep i (1 + k0) (symWalk i k0) - 1) B (symStep j (1 + k0) (symWalk j k0) - 1)) k0
      = mulRd A (symWalk i (k0 + 1) - 1) B (symWalk j (k0 + 1) - 1) := by
    intro k0
    have a := symStep_walk i (1 + k0) hi (by omega)
    have b := symStep_walk j (1 + k0) hj (by omega)
    rw [show 1 + k0 - 1 = k0 by omega] at a b
    rw [Nat.add_comm 1 k0] at a b
    show mulRd A (symStep i (1 + k0) (symWalk i k0) - 1) B (symStep j (1 + k0) (symWalk j k0) - 1) = _
    rw [Nat.add_comm 1 k0, a, b]
  simp only [e] at this
  exact this

theorem gen_symMul (A B : SMat K) : MV.symMul A B = symMul A B := by
  unfold MV.symMul symMul
  split
  · rfl
  · by_cases hn : A.dim = 0
    · simp [hn, tabulate]; rfl
    · simp only [hn, if_false, Nat.add_sub_cancel]
      have mid : ∀ (i : Nat) (st0 : Array K × Nat), 1 ≤ i →
          (forE 1 i st0 fun j st' => do
            let r ← forE 1 A.dim ((0 : K), i * (i - 1) / 2, j * (j - 1) / 2) fun k st => do
              let v ← mulRd A.data ((if i < k then st.2.1 + 1 + (k - 2) else st.2.1 + 1) - 1)
                            B.data ((if j < k then st.2.2 + 1 + (k - 2) else st.2.2 + 1) - 1)
              pure (st.1 + v, (if i < k then st.2.1 + 1 + (k - 2) else st.2.1 + 1), (if j < k then st.2.2 + 1 + (k - 2) else st.2.2 + 1))
            let C ← wr st'.1 st'.2 r.1
            pure (C, st'.2 + 1))
          = forE 1 i st0 fun j st' =>
              (sumLoop A.dim (fun k0 => mulRd A.data (symWalk i (k0 + 1) - 1) B.data (symWalk j (k0 + 1) - 1))) >>= fun x =>
                wr st'.1 st'.2 x >>= fun t' => pure (t', st'.2 + 1) := by
        intro i st0 hi
        apply forE_congr
        intro j h1 h2
        funext st'
        rw [symmul_inner A.data B.data i j A.dim hi (by omega)]
        simp only [bind_assoc, pure_bind]
      have hb : ∀ i (done : Array K) r, 1 ≤ i → i ≤ r →
          (fun (i : Nat) (st : Array K × Nat) => do
            let r ← forE 1 i (st.1, st.2) fun j st' => do
              let r ← forE 1 A.dim ((0 : K), i * (i - 1) / 2, j * (j - 1) / 2) fun k st => do
                let v ← mulRd A.data ((if i < k then st.2.1 + 1 + (k - 2) else st.2.1 + 1) - 1)
                              B.data ((if j < k then st.2.2 + 1 + (k - 2) else st.2.2 + 1) - 1)
                pure (st.1 + v, (if i < k then st.2.1 + 1 + (k - 2) else st.2.1 + 1), (if j < k then st.2.2 + 1 + (k - 2) else st.2.2 + 1))
              let C ← wr st'.1 st'.2 r.1
              pure (C, st'.2 + 1)
            pure (r.1, r.2)) i (done ++ Array.replicate r (0 : K), done.size)
          = tabulate i ((fun i j0 => sumLoop A.dim (fun k0 => mulRd A.data (symWalk i (k0 + 1) - 1) B.data (symWalk (1 + j0) (k0 + 1) - 1))) i)
              >>= fun a => pure (done ++ a ++ Array.replicate (r - i) (0 : K), done.size + i) := by
        intro i done r hi hr
        simp only []
        rw [mid i _ hi]
        have := forE_fill2 (K := K) 1 r i hr done (fun j => sumLoop A.dim (fun k0 => mulRd A.data (symWalk i (k0 + 1) - 1) B.data (symWalk j (k0 + 1) - 1)))
        simp only [this, bind_assoc, pure_bind]
      have := forE_tchunks (K := K)
        (fun (i : Nat) (st : Array K × Nat) => do
          let r ← forE 1 i (st.1, st.2) fun j st' => do
            let r ← forE 1 A.dim ((0 : K), i * (i - 1) / 2, j * (j - 1) / 2) fun k st => do
              let v ← mulRd A.data ((if i < k then st.2.1 + 1 + (k - 2) else st.2.1 + 1) - 1)
                            B.data ((if j < k then st.2.2 + 1 + (k - 2) else st.2.2 + 1) - 1)
              pure (st.1 + v, (if i < k then st.2.1 + 1 + (k - 2) else st.2.1 + 1), (if j < k then st.2.2 + 1 + (k - 2) else st.2.2 + 1))
            let C ← wr st'.1 st'.2 r.1
            pure (C, st'.2 + 1)
          pure (r.1, r.2))
        (fun i j0 => sumLoop A.dim (fun k0 => mulRd A.data (symWalk i (k0 + 1) - 1) B.data (symWalk (1 + j0) (k0 + 1) - 1))) hb A.dim (triN A.dim) (Nat.le_refl _)
      have hflat := tchunks_flat (K := K) A.dim
        (fun i j => sumLoop A.dim (fun k0 => mulRd A.data (symWalk i (k0 + 1) - 1) B.data (symWalk j (k0 + 1) - 1))) A.dim (Nat.le_refl _)
      rw [mkBuf, show A.dim * (A.dim + 1) / 2 = triN A.dim from rfl, this, hflat]
      simp only [Nat.sub_self]
      cases tabulate (triN A.dim) _ <;> simp [bind, Except.bind, pure, Except.pure]
end Gama.MatVec
