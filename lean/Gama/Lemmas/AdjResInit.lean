/-
  The iterators `tmp_i`, `tmp_e` of the adjustment-results reader (Model/AdjResRun.lean over the GENERATED tables of
  Gen/AdjResAutomaton.lean) are ASSIGNED whenever they are read:

    * `*tmp_i++ = get_float()` of `flt(false)` (op `.store`) is never executed with iterators that were never
      assigned or that dangle after `adj->cov.reset(..)`            (`run_no_uninit_store`, all event sequences);
    * the test `tmp_i != tmp_e` of `cov_mat(false)` (op `.iterErr`)  (`run_no_uninit_covend_all`, all event sequences;
      the table condition `iterErrGuarded` is `decide`d on the generated tables (`iterErrGuarded_true`).  It was
      FALSE before fix 8840ff08 (`<cov-mat></cov-mat>` read both iterators unassigned) and becomes false again,
      breaking the proof, if the guard `state != s_flt_end ||` is dropped).

  Method: an abstract interpretation of the handler bodies.  The abstract value `A` says what is KNOWN at a program
  point (`b`: `tmp_i` assigned, `e`: `tmp_e` assigned, `ni`: the top of the stack of open elements is a handler whose
  end branch stores, `q`: the condition that must hold between two callbacks holds now); `xfer` is the transfer
  function of one statement (it REJECTS a store with `b ∧ e` unknown, a push above a storing handler, a
  `cov.reset` while a storing handler is open, ...), `scan` runs it over a handler body, also checking `q` at every
  early `return`.  `xfer_sound` / `scan_sound` relate it to `execOp` / `execOps`; the facts about the GENERATED tables
  (`tables_ok`, `quiet_error`, `isInitState_error`, `needsInit_unknown`) are `decide`d, i.e. re-checked whenever the
  C++ changes.  Nothing below names a particular state, tag or handler except `s_error` and `unknown`.
-/
import Gama.Lemmas.AdjRes
set_option maxRecDepth 20000
namespace Gama.AdjRes

/-! ### sets computed from the generated tables -/

def isStore : Op → Bool
  | .store _ => true
  | _ => false

/-- the end branch of `h` executes `*tmp_i++ = …` (currently: `flt`) -/
def needsInit (h : Handler) : Bool := (endOps h).any isStore

def pushesNeedsInit : Op → Bool
  | .push h => needsInit h
  | _ => false

/-- the statement list pushes a storing handler -/
def pushesNI (ops : List Op) : Bool := ops.any pushesNeedsInit

/-- states in which some start tag pushes a storing handler (currently: `s_flt_end`); invariant: in such a state both
    iterators are assigned -/
def isInitState (s : State) : Bool := Tag.all.any (fun t => pushesNI (startOps (tagfun s t)))

/-- states in which every start tag is handled by `unknown` (currently the leaf states such as `s_flt`, and
    `s_error`); invariant: while a storing handler is open the state is one of these, so nothing is pushed above it -/
def quiet (s : State) : Bool := Tag.all.all (fun t => tagfun s t == .unknown_)

def initStates : List State := State.all.filter isInitState

/-- the states set by the start branch of the handlers that push a storing handler (currently: `s_flt`) -/
def pushStates : List State :=
  State.all.filter (fun s => Handler.all.any (fun h => pushesNI (startOps h) &&
    (startOps h).any (fun o => match o with | .setState s' => s' == s | _ => false)))

/-! ### the invariant between two callbacks -/

def InitIt (st : St) : Prop := st.iterI.isSome = true ∧ st.iterE.isSome = true

def NoNI (l : List Handler) : Prop := ∀ h ∈ l, needsInit h = false

/-- the innermost open element is a storing one -/
def TopNI (st : St) : Prop := ∃ h r, st.stack = h :: r ∧ needsInit h = true

/-- the part of the invariant that speaks about `state` -/
def FinalOk (st : St) : Prop :=
  (TopNI st → quiet st.state = true) ∧ (isInitState st.state = true → InitIt st)

/-- `k = true`: also `uninitCovEnd` is tracked (needs the guarded `iterErr`) -/
structure Inv (k : Bool) (st : St) : Prop where
  us : st.uninitStore = false
  /-- a storing handler is only ever the top of the stack -/
  tl : NoNI st.stack.tail
  top : TopNI st → InitIt st
  fin : FinalOk st
  uc : k = true → st.uninitCovEnd = false

/-! ### statements that leave stack and iterators alone and at most call `error()` -/

structure Mild (st st' : St) : Prop where
  stack_eq : st'.stack = st.stack
  ii : st.iterI.isSome = true → st'.iterI.isSome = true
  ie : st.iterE.isSome = true → st'.iterE.isSome = true
  us : st'.uninitStore = st.uninitStore
  uc : st'.uninitCovEnd = st.uninitCovEnd
  state : st'.state = st.state ∨ st'.state = .error_

theorem Mild.same {st st' : St} (h1 : st'.stack = st.stack) (h2 : st'.iterI = st.iterI) (h3 : st'.iterE = st.iterE)
    (h4 : st'.uninitStore = st.uninitStore) (h5 : st'.uninitCovEnd = st.uninitCovEnd) (h6 : st'.state = st.state) :
    Mild st st' := ⟨h1, fun h => by rw [h2]; exact h, fun h => by rw [h3]; exact h, h4, h5, .inl h6⟩

theorem Mild.refl (st : St) : Mild st st := .same rfl rfl rfl rfl rfl rfl

theorem Mild.trans {a b c : St} (h1 : Mild a b) (h2 : Mild b c) : Mild a c := by
  refine ⟨h2.stack_eq.trans h1.stack_eq, fun h => h2.ii (h1.ii h), fun h => h2.ie (h1.ie h), h2.us.trans h1.us,
    h2.uc.trans h1.uc, ?_⟩
  rcases h2.state with h | h
  · rcases h1.state with h' | h'
    · exact .inl (h.trans h')
    · exact .inr (h.trans h')
  · exact .inr h

theorem Mild.error (st : St) (k : Err) : Mild st (st.error k) := by
  unfold St.error; split
  · exact .refl _
  · exact ⟨rfl, id, id, rfl, rfl, .inr rfl⟩

theorem Mild.checkData (st : St) : Mild st st.checkData := by
  unfold St.checkData; split
  · exact .same rfl rfl rfl rfl rfl rfl
  · exact (Mild.error st _).trans (.same rfl rfl rfl rfl rfl rfl)

theorem Mild.getIntCheck (st : St) : Mild st st.getIntCheck := by
  unfold St.getIntCheck; split
  · exact .refl _
  · exact .error _ _

theorem Mild.getFloatCheck (st : St) : Mild st st.getFloatCheck := by
  unfold St.getFloatCheck; split
  · exact .refl _
  · exact .error _ _

theorem attrLoop_mild (names : List (String × AttrKind)) (ue : Err) :
    ∀ (as : List (String × String)) (st : St), Mild st (attrLoop names ue as st).1 := by
  intro as
  induction as with
  | nil => intro st; exact .refl _
  | cons a r ih =>
    intro st
    obtain ⟨a, v⟩ := a
    simp only [attrLoop]
    split
    · exact .error _ _
    · exact ih st
    · exact (Mild.trans (b := { st with category := v }) (.same rfl rfl rfl rfl rfl rfl) (ih _))
    · split
      · exact ih st
      · exact .error _ _

theorem tagOf_mild (st : St) (name : String) : Mild st (tagOf st name).1 := by
  unfold tagOf; split
  · exact .same rfl rfl rfl rfl rfl rfl
  · exact .refl _
  · exact .error _ _

/-- the iterator test with both iterators assigned -/
theorem Mild.iterErr_of_init {st : St} (hi : InitIt st) (g : Option State) (w : Bool) (e : Err) :
    Mild st (st.iterErr g w e) := by
  obtain ⟨h1, h2⟩ := hi
  obtain ⟨i, hi⟩ := Option.isSome_iff_exists.mp h1
  obtain ⟨j, hj⟩ := Option.isSome_iff_exists.mp h2
  have hc : st.iterCmp = some (i == j) := by simp [St.iterCmp, hi, hj]
  unfold St.iterErr; split
  · exact .error _ _
  · rw [hc]; simp only; split
    · exact .error _ _
    · exact .refl _

/-- the iterator test is not reached when the state guard in front of it fires -/
theorem Mild.iterErr_of_guard {st : St} {g : Option State} (hg : iterGuardFires g st = true) (w : Bool) (e : Err) :
    Mild st (st.iterErr g w e) := by
  unfold St.iterErr; rw [if_pos hg]; exact .error _ _

/-- in general the test may read unassigned iterators (recorded in `uninitCovEnd`) -/
theorem Mild.iterErr_any (st : St) (g : Option State) (w : Bool) (e : Err) :
    Mild st (st.iterErr g w e) ∨ Mild { st with uninitCovEnd := true } (st.iterErr g w e) := by
  unfold St.iterErr; split
  · exact .inl (.error _ _)
  · split
    · split
      · exact .inl (.error _ _)
      · exact .inl (.refl _)
    · simp only; split
      · exact .inr (.error _ _)
      · exact .inr (.refl _)

/-- the store with both iterators assigned -/
theorem Mild.store_of_init {st : St} (hi : InitIt st) (g : Bool) :
    Mild st (st.store g) := by
  obtain ⟨h1, h2⟩ := hi
  obtain ⟨i, hi⟩ := Option.isSome_iff_exists.mp h1
  obtain ⟨j, hj⟩ := Option.isSome_iff_exists.mp h2
  unfold St.store
  rw [hi, hj]; simp only
  split
  · exact .refl _
  · have hm := Mild.getFloatCheck st
    exact ⟨hm.stack_eq, fun _ => rfl, hm.ie, hm.us, hm.uc, hm.state⟩

/-! ### two facts about `s_error` (GENERATED tables) -/

/-- in the error state every tag is handled by `unknown` -/
theorem quiet_error : quiet .error_ = true := by decide

/-- hence no start tag pushes a storing handler there -/
theorem isInitState_error : isInitState .error_ = false := by decide

/-- `unknown` (also called for an end tag with nothing open) does not store -/
theorem needsInit_unknown : needsInit .unknown_ = false := by decide

theorem quiet_tagfun {s : State} (h : quiet s = true) (t : Tag) : tagfun s t = .unknown_ := by
  have := List.all_eq_true.mp h t (Tag.mem_all t)
  simpa using this

theorem isInitState_of_pushes {s : State} {t : Tag} (h : pushesNI (startOps (tagfun s t)) = true) :
    isInitState s = true :=
  List.any_eq_true.mpr ⟨t, Tag.mem_all t, h⟩

theorem FinalOk.mild {st st' : St} (h : FinalOk st) (hm : Mild st st') : FinalOk st' := by
  constructor
  · rintro ⟨x, r, hs, hx⟩
    rcases hm.state with hst | hst
    · rw [hst]; exact h.1 ⟨x, r, by rw [← hm.stack_eq]; exact hs, hx⟩
    · rw [hst]; exact quiet_error
  · intro hi
    rcases hm.state with hst | hst
    · rw [hst] at hi
      exact ⟨hm.ii (h.2 hi).1, hm.ie (h.2 hi).2⟩
    · rw [hst, isInitState_error] at hi; cases hi

/-! ### abstract interpretation of the handler bodies -/

/-- what is known at a program point -/
structure A where
  /-- `tmp_i` is assigned -/
  b : Bool
  /-- `tmp_e` is assigned -/
  e : Bool
  /-- `true`: the top of the stack is a storing handler (and both iterators are assigned);
      `false`: no storing handler is on the stack -/
  ni : Bool
  /-- `FinalOk` holds now -/
  q : Bool
  deriving DecidableEq, Repr

structure R (k : Bool) (a : A) (st : St) : Prop where
  us : st.uninitStore = false
  hb : a.b = true → st.iterI.isSome = true
  he : a.e = true → st.iterE.isSome = true
  tl : NoNI st.stack.tail
  nni : a.ni = false → NoNI st.stack
  ini : a.ni = true → InitIt st
  fin : a.q = true → FinalOk st
  uc : k = true → st.uninitCovEnd = false

theorem R.mild {k : Bool} {a : A} {st st' : St} (hr : R k a st) (hm : Mild st st') : R k a st' := by
  refine ⟨by rw [hm.us]; exact hr.us, fun h => hm.ii (hr.hb h), fun h => hm.ie (hr.he h),
    by rw [hm.stack_eq]; exact hr.tl, fun h => by rw [hm.stack_eq]; exact hr.nni h,
    fun h => ⟨hm.ii (hr.ini h).1, hm.ie (hr.ini h).2⟩, fun h => (hr.fin h).mild hm,
    fun h => by rw [hm.uc]; exact hr.uc h⟩

/-- the state condition established by `set_state(s)` / `state = s` -/
def stateOk (a : A) (s : State) : Bool := (!a.ni || quiet s) && (!isInitState s || (a.b && a.e))

/-- transfer function of one statement; `none` = rejected.  `k = true` additionally demands that every iterator
    test `tmp_i != tmp_e` stands behind `state != s ||` with `s` a state in which the iterators are assigned, at a
    point where the between-callbacks condition holds -/
def xfer (k : Bool) (op : Op) (a : A) : Option A :=
  match op with
  | .push h =>
    if a.ni then none
    else if needsInit h then (if a.b && a.e then some { a with ni := true, q := false } else none)
    else some a
  | .setState s => some { a with q := stateOk a s }
  | .assignState s => some { a with q := stateOk a s }
  | .covReset => if a.ni then none else some { b := false, e := false, ni := false, q := false }
  | .iterBegin => some { a with b := true }
  | .iterEnd => some { a with e := true }
  | .store _ => if a.b && a.e then some a else none
  | .iterErr g _ _ =>
    if k then
      (match g with
       | some s => if isInitState s && a.q then some a else none
       | none => none)
    else some a
  | _ => some a

/-- statements containing a `return` -/
def mayReturn : Op → Bool
  | .attrs _ _ => true
  | .needCategory _ => true
  | _ => false

def scan (k : Bool) : List Op → A → Bool
  | [], a => a.q
  | op :: r, a =>
    match xfer k op a with
    | none => false
    | some a' => (!mayReturn op || a'.q) && scan k r a'

theorem setState_cases (st : St) (s : State) :
    (st.setState s = st ∧ st.state = .error_) ∨ st.setState s = { st with state := s } := by
  unfold St.setState; split
  · split
    · next h => exact .inl ⟨rfl, h⟩
    · exact .inr rfl
  · exact .inr rfl

theorem FinalOk.of_error {st : St} (h : st.state = .error_) : FinalOk st := by
  constructor
  · intro _; rw [h]; exact quiet_error
  · intro hi; rw [h, isInitState_error] at hi; cases hi

theorem R.assign {k : Bool} {a : A} {st : St} (hr : R k a st) (s : State) :
    R k { a with q := stateOk a s } { st with state := s } := by
  refine ⟨hr.us, hr.hb, hr.he, hr.tl, hr.nni, hr.ini, fun h => ?_, hr.uc⟩
  simp only [stateOk, Bool.and_eq_true, Bool.or_eq_true, Bool.not_eq_true'] at h
  obtain ⟨h1, h2⟩ := h
  constructor
  · rintro ⟨x, r, hs, hx⟩
    rcases h1 with h1 | h1
    · have := hr.nni h1 x (by rw [show st.stack = x :: r from hs]; exact List.mem_cons_self)
      rw [this] at hx; cases hx
    · exact h1
  · intro hi
    rcases h2 with h2 | h2
    · rw [show isInitState s = false from h2] at hi; cases hi
    · exact ⟨hr.hb h2.1, hr.he h2.2⟩

theorem xfer_sound (k : Bool) (op : Op) (as : List (String × String)) (a a' : A) (st : St)
    (hx : xfer k op a = some a') (hr : R k a st) : R k a' (execOp op as st).1 := by
  cases op with
  | push h =>
    simp only [xfer] at hx
    split at hx
    · cases hx
    · next hni =>
      have hni : a.ni = false := by simpa using hni
      have hno := hr.nni hni
      split at hx
      · next hn =>
        split at hx
        · next hbe =>
          cases hx
          simp only [Bool.and_eq_true] at hbe
          exact ⟨hr.us, hr.hb, hr.he, hno, (fun h => by cases h), fun _ => ⟨hr.hb hbe.1, hr.he hbe.2⟩,
            (fun h => by cases h), hr.uc⟩
        · cases hx
      · next hn =>
        cases hx
        have hn : needsInit h = false := by simpa using hn
        have hno' : NoNI (h :: st.stack) := by
          intro x hx'
          rcases List.mem_cons.mp hx' with rfl | hx'
          · exact hn
          · exact hno x hx'
        refine ⟨hr.us, hr.hb, hr.he, hno, fun _ => hno', (fun h' => by rw [hni] at h'; cases h'), fun hq => ?_, hr.uc⟩
        constructor
        · rintro ⟨x, r, hs, hx'⟩
          have hs' : h :: st.stack = x :: r := hs
          have := hno' x (by rw [hs']; exact List.mem_cons_self)
          rw [this] at hx'; cases hx'
        · exact (hr.fin hq).2
  | setState s =>
    simp only [xfer, Option.some.injEq] at hx
    subst hx
    simp only [execOp]
    rcases setState_cases st s with ⟨h1, h2⟩ | h1
    · rw [h1]
      exact ⟨hr.us, hr.hb, hr.he, hr.tl, hr.nni, hr.ini, fun _ => .of_error h2, hr.uc⟩
    · rw [h1]; exact hr.assign s
  | assignState s =>
    simp only [xfer, Option.some.injEq] at hx
    subst hx
    exact hr.assign s
  | attrs names ue =>
    simp only [xfer, Option.some.injEq] at hx; subst hx
    exact hr.mild (attrLoop_mild names ue as st)
  | needCategory e =>
    simp only [xfer, Option.some.injEq] at hx; subst hx
    simp only [execOp]; split
    · exact hr.mild (.error _ _)
    · exact hr
  | getInt d =>
    simp only [xfer, Option.some.injEq] at hx; subst hx
    simp only [execOp]
    cases d
    · exact hr.mild (.getIntCheck _)
    · exact hr.mild ((Mild.getIntCheck st).trans (.same rfl rfl rfl rfl rfl rfl))
    · exact hr.mild ((Mild.getIntCheck st).trans (.same rfl rfl rfl rfl rfl rfl))
  | getFloat =>
    simp only [xfer, Option.some.injEq] at hx; subst hx
    exact hr.mild (.getFloatCheck _)
  | getString d =>
    simp only [xfer, Option.some.injEq] at hx; subst hx
    cases d <;> exact hr.mild (.same rfl rfl rfl rfl rfl rfl)
  | checkData =>
    simp only [xfer, Option.some.injEq] at hx; subst hx
    exact hr.mild (.checkData _)
  | clearCategory =>
    simp only [xfer, Option.some.injEq] at hx; subst hx
    exact hr.mild (.same rfl rfl rfl rfl rfl rfl)
  | stageSet n =>
    simp only [xfer, Option.some.injEq] at hx; subst hx
    exact hr.mild (.same rfl rfl rfl rfl rfl rfl)
  | stageSwitch cases e =>
    simp only [xfer, Option.some.injEq] at hx; subst hx
    simp only [execOp]; split
    · exact hr.mild (.getIntCheck _)
    · exact hr.mild (.error _ _)
  | requireState ss e =>
    simp only [xfer, Option.some.injEq] at hx; subst hx
    simp only [execOp]; split
    · exact hr.mild (.error _ _)
    · exact hr
  | requireFlagEq x y e =>
    simp only [xfer, Option.some.injEq] at hx; subst hx
    simp only [execOp]; split
    · exact hr.mild (.error _ _)
    · exact hr
  | setFlag f v =>
    simp only [xfer, Option.some.injEq] at hx; subst hx
    exact hr.mild (.same rfl rfl rfl rfl rfl rfl)
  | covGuard e =>
    simp only [xfer, Option.some.injEq] at hx; subst hx
    simp only [execOp]; split
    · exact hr.mild ((Mild.error st e).trans (.same rfl rfl rfl rfl rfl rfl))
    · exact hr
  | covReset =>
    simp only [xfer] at hx
    split at hx
    · cases hx
    · next hni =>
      cases hx
      have hni : a.ni = false := by simpa using hni
      exact ⟨hr.us, (fun h => by cases h), (fun h => by cases h), hr.tl, fun _ => hr.nni hni, (fun h => by cases h),
        (fun h => by cases h), hr.uc⟩
  | iterBegin =>
    simp only [xfer, Option.some.injEq] at hx; subst hx
    refine ⟨hr.us, fun _ => rfl, hr.he, hr.tl, hr.nni, fun h => ⟨rfl, (hr.ini h).2⟩, fun h => ?_, hr.uc⟩
    have hf := hr.fin h
    exact ⟨hf.1, fun hi => ⟨rfl, (hf.2 hi).2⟩⟩
  | iterEnd =>
    simp only [xfer, Option.some.injEq] at hx; subst hx
    refine ⟨hr.us, hr.hb, fun _ => rfl, hr.tl, hr.nni, fun h => ⟨(hr.ini h).1, rfl⟩, fun h => ?_, hr.uc⟩
    have hf := hr.fin h
    exact ⟨hf.1, fun hi => ⟨(hf.2 hi).1, rfl⟩⟩
  | iterErr g w e =>
    simp only [execOp]
    cases k with
    | false =>
      simp only [xfer, Bool.false_eq_true, if_false, Option.some.injEq] at hx; subst hx
      rcases Mild.iterErr_any st g w e with hm | hm
      · exact hr.mild hm
      · have hr' : R false a { st with uninitCovEnd := true } :=
          ⟨hr.us, hr.hb, hr.he, hr.tl, hr.nni, hr.ini, hr.fin, fun h => by cases h⟩
        exact hr'.mild hm
    | true =>
      simp only [xfer, if_true] at hx
      cases g with
      | none => cases hx
      | some s =>
        simp only at hx
        split at hx
        · next hc =>
          cases hx
          simp only [Bool.and_eq_true] at hc
          by_cases hg : iterGuardFires (some s) st = true
          · exact hr.mild (.iterErr_of_guard hg w e)
          · have hs : st.state = s := by simpa [iterGuardFires] using hg
            have hi : InitIt st := (hr.fin hc.2).2 (by rw [hs]; exact hc.1)
            exact hr.mild (.iterErr_of_init hi _ w e)
        · cases hx
  | store g =>
    simp only [xfer] at hx
    split at hx
    · next hbe =>
      cases hx
      simp only [Bool.and_eq_true] at hbe
      exact hr.mild (.store_of_init ⟨hr.hb hbe.1, hr.he hbe.2⟩ g)
    · cases hx
  | requireString al e =>
    simp only [xfer, Option.some.injEq] at hx; subst hx
    simp only [execOp]; split
    · exact hr
    · exact hr.mild (.error _ _)
  | error e =>
    simp only [xfer, Option.some.injEq] at hx; subst hx
    exact hr.mild (.error _ _)
  | data =>
    simp only [xfer, Option.some.injEq] at hx; subst hx
    exact hr
  | book b =>
    simp only [xfer, Option.some.injEq] at hx; subst hx
    have hb := book_same st b
    exact hr.mild (.same hb.2.2.2.1 hb.2.2.2.2.1 hb.2.2.2.2.2.1 hb.2.2.2.2.2.2.2.2.1 hb.2.2.2.2.2.2.2.2.2 hb.2.2.1)

/-- only the attribute loops and `needCategory` leave a handler early -/
theorem execOp_continues (op : Op) (as : List (String × String)) (st : St) (h : mayReturn op = false) :
    (execOp op as st).2 = true := by
  cases op <;> first | rfl | (simp [mayReturn] at h)

theorem scan_sound (k : Bool) (as : List (String × String)) :
    ∀ (ops : List Op) (a : A) (st : St), scan k ops a = true → R k a st →
      ∃ a', a'.q = true ∧ R k a' (execOps ops as st) := by
  intro ops
  induction ops with
  | nil => intro a st h hr; exact ⟨a, h, hr⟩
  | cons op r ih =>
    intro a st h hr
    simp only [scan] at h
    split at h
    · cases h
    · next a' hx =>
      simp only [Bool.and_eq_true, Bool.or_eq_true, Bool.not_eq_true'] at h
      have hr' := xfer_sound k op as a a' st hx hr
      simp only [execOps]
      split
      · next st' heq => rw [heq] at hr'; exact ih a' st' h.2 hr'
      · next st' heq =>
        rw [heq] at hr'
        rcases h.1 with hm | hq
        · have := execOp_continues op as st hm
          rw [heq] at this; cases this
        · exact ⟨a', hq, hr'⟩

/-! ### the handler bodies pass (GENERATED tables, `decide`) -/

/-- start branch of `h`, entered from a state/tag with `tagfun state tag = h` and no storing handler open: if the
    body pushes a storing handler then the state is one of `initStates`, hence both iterators are assigned -/
def startA (h : Handler) : A :=
  { b := pushesNI (startOps h), e := pushesNI (startOps h), ni := false, q := true }

/-- end branch of `h`, after `h` was popped: a storing `h` had both iterators assigned -/
def endA (h : Handler) : A := { b := needsInit h, e := needsInit h, ni := false, q := true }

/-- a start tag while a storing handler is open: only `unknown` can be called -/
def topA : A := { b := true, e := true, ni := true, q := true }

def tablesOk (k : Bool) : Bool :=
  scan k (startOps .unknown_) topA &&
  Handler.all.all (fun h => scan k (startOps h) (startA h) && scan k (endOps h) (endA h))

/-- (T1–T4) every handler body passes the abstract interpretation -/
theorem tables_ok : tablesOk false = true := by decide +kernel

/-- every `tmp_i != tmp_e` test (other than the guard of a store) stands behind `state != s ||` with `s` one of
    `initStates`, at a point where the invariant holds.  (False before fix 8840ff08, where `cov_mat(false)` was unguarded.) -/
def iterErrGuarded : Bool := tablesOk true

/-- the strict scan passes on the generated tables of the current tree -/
theorem iterErrGuarded_true : iterErrGuarded = true := by decide +kernel

theorem tablesOk_unknown {k : Bool} (h : tablesOk k = true) : scan k (startOps .unknown_) topA = true := by
  simp only [tablesOk, Bool.and_eq_true] at h; exact h.1

theorem tablesOk_handler {k : Bool} (h : tablesOk k = true) (x : Handler) :
    scan k (startOps x) (startA x) = true ∧ scan k (endOps x) (endA x) = true := by
  simp only [tablesOk, Bool.and_eq_true] at h
  have := List.all_eq_true.mp h.2 x (Handler.mem_all x)
  simpa using this

/-! ### the run -/

theorem Inv.mild {k : Bool} {st st' : St} (h : Inv k st) (hm : Mild st st') : Inv k st' := by
  refine ⟨by rw [hm.us]; exact h.us, by rw [hm.stack_eq]; exact h.tl, ?_, h.fin.mild hm,
    fun hk => by rw [hm.uc]; exact h.uc hk⟩
  rintro ⟨x, r, hs, hx⟩
  have := h.top ⟨x, r, by rw [← hm.stack_eq]; exact hs, hx⟩
  exact ⟨hm.ii this.1, hm.ie this.2⟩

theorem R.toInv {k : Bool} {a : A} {st : St} (hr : R k a st) (hq : a.q = true) : Inv k st := by
  refine ⟨hr.us, hr.tl, ?_, hr.fin hq, hr.uc⟩
  rintro ⟨x, r, hs, hx⟩
  cases hni : a.ni with
  | true => exact hr.ini hni
  | false =>
    have := hr.nni hni x (by rw [hs]; exact List.mem_cons_self)
    rw [this] at hx; cases hx

theorem not_topNI {st : St} (htl : NoNI st.stack.tail) (h : ¬ TopNI st) : NoNI st.stack := by
  intro x hx
  cases hs : st.stack with
  | nil => rw [hs] at hx; cases hx
  | cons y r =>
    rw [hs] at hx htl
    rcases List.mem_cons.mp hx with rfl | hx
    · cases hn : needsInit x with
      | false => rfl
      | true => exact absurd ⟨x, r, hs, hn⟩ h
    · exact htl x hx

theorem react_inv {k : Bool} (hk : tablesOk k = true) (st : St) (ev : Event) (h : Inv k st) : Inv k (react st ev) := by
  cases ev with
  | start name as =>
    simp only [react]
    have h2 : Inv k (tagOf st.checkData name).1 := h.mild ((Mild.checkData st).trans (tagOf_mild _ name))
    generalize (tagOf st.checkData name).1 = st2 at h2
    generalize (tagOf st.checkData name).2 = t
    by_cases htop : TopNI st2
    · have hq := h2.fin.1 htop
      rw [quiet_tagfun hq t]
      have hr : R k topA st2 :=
        ⟨h2.us, fun _ => (h2.top htop).1, fun _ => (h2.top htop).2, h2.tl, (fun hc => by cases hc), fun _ => h2.top htop,
          fun _ => h2.fin, h2.uc⟩
      obtain ⟨a', hq', hr'⟩ := scan_sound k as _ _ _ (tablesOk_unknown hk) hr
      exact hr'.toInv hq'
    · have hno := not_topNI h2.tl htop
      have hinit : pushesNI (startOps (tagfun st2.state t)) = true → InitIt st2 :=
        fun hp => h2.fin.2 (isInitState_of_pushes hp)
      have hr : R k (startA (tagfun st2.state t)) st2 :=
        ⟨h2.us, fun hp => (hinit hp).1, fun hp => (hinit hp).2, h2.tl, fun _ => hno, (fun hc => by cases hc),
          fun _ => h2.fin, h2.uc⟩
      obtain ⟨a', hq', hr'⟩ := scan_sound k as _ _ _ (tablesOk_handler hk _).1 hr
      exact hr'.toInv hq'
  | stop =>
    simp only [react]
    split
    · next hs =>
      have hr : R k (endA .unknown_) { st with stack := [] } := by
        refine ⟨h.us, fun hp => ?_, fun hp => ?_, (fun x hx => by cases hx), (fun _ x hx => by cases hx),
          (fun hc => by cases hc), fun _ => ⟨?_, h.fin.2⟩, h.uc⟩
        · simp only [endA, needsInit_unknown] at hp; cases hp
        · simp only [endA, needsInit_unknown] at hp; cases hp
        · rintro ⟨x, r, hs', _⟩; cases hs'
      obtain ⟨a', hq', hr'⟩ := scan_sound k [] _ _ _ (tablesOk_handler hk _).2 hr
      exact (hr'.toInv hq').mild (.same rfl rfl rfl rfl rfl rfl)
    · next x r hs =>
      have htl : NoNI r := by have := h.tl; rw [hs] at this; exact this
      have hr : R k (endA x) { st with stack := r } := by
        refine ⟨h.us, fun hp => (h.top ⟨x, r, hs, hp⟩).1, fun hp => (h.top ⟨x, r, hs, hp⟩).2,
          fun y hy => htl y (List.mem_of_mem_tail hy), fun _ => htl, (fun hc => by cases hc), fun _ => ⟨?_, h.fin.2⟩, h.uc⟩
        rintro ⟨y, r', hs', hy⟩
        have := htl y (by rw [show r = y :: r' from hs']; exact List.mem_cons_self)
        rw [this] at hy; cases hy
      obtain ⟨a', hq', hr'⟩ := scan_sound k [] _ _ _ (tablesOk_handler hk _).2 hr
      exact (hr'.toInv hq').mild (.same rfl rfl rfl rfl rfl rfl)
  | text s => exact h.mild (.same rfl rfl rfl rfl rfl rfl)

theorem step_inv {k : Bool} (hk : tablesOk k = true) (st : St) (ev : Event) (h : Inv k st) : Inv k (step st ev) :=
  (react_inv hk st ev h).mild (.same rfl rfl rfl rfl rfl rfl)

theorem run_inv {k : Bool} (hk : tablesOk k = true) (evs : List Event) : ∀ st : St, Inv k st → Inv k (run st evs) := by
  induction evs with
  | nil => intro st h; exact h
  | cons ev es ih => intro st h; rw [run_cons]; exact ih _ (step_inv hk st ev h)

theorem init_inv (k : Bool) : Inv k St.init := by
  refine ⟨rfl, (fun x hx => by cases hx), ?_, ⟨?_, ?_⟩, fun _ => rfl⟩
  · rintro ⟨x, r, hs, _⟩; cases hs
  · rintro ⟨x, r, hs, _⟩; cases hs
  · intro hi
    have : isInitState .start_ = false := by decide
    rw [show St.init.state = .start_ from rfl, this] at hi; cases hi

/-- GOAL 1: the store `*tmp_i++ = get_float()` is never executed with unassigned / dangling iterators -/
theorem run_no_uninit_store (evs : List Event) : (run St.init evs).uninitStore = false :=
  (run_inv tables_ok evs St.init (init_inv false)).us

/-- the invariant behind it, for every event sequence: a storing handler is open only as the innermost element, then
    both iterators are assigned and no start tag is accepted; in a state from which a storing handler can be pushed
    both iterators are assigned -/
theorem run_store_invariant (evs : List Event) :
    let st := run St.init evs
    NoNI st.stack.tail ∧ (TopNI st → InitIt st ∧ quiet st.state = true) ∧ (isInitState st.state = true → InitIt st) :=
  have h := run_inv tables_ok evs St.init (init_inv false)
  ⟨h.tl, fun ht => ⟨h.top ht, h.fin.1 ht⟩, h.fin.2⟩

/-- GOAL 2 (conditional on the table scan `iterErrGuarded`): the test `tmp_i != tmp_e` of `cov_mat(false)` is never
    executed with unassigned / dangling iterators -/
theorem run_no_uninit_covend (hg : iterErrGuarded = true) (evs : List Event) : (run St.init evs).uninitCovEnd = false :=
  (run_inv hg evs St.init (init_inv true)).uc rfl

/-- GOAL 2, unconditional: for every event sequence -/
theorem run_no_uninit_covend_all (evs : List Event) : (run St.init evs).uninitCovEnd = false :=
  run_no_uninit_covend iterErrGuarded_true evs

end Gama.AdjRes
