/-
  BRIDGE between the executable vocabulary (`Gama.Ls.Problem K`, `DMat K`, `Array K`, `Reg`,
  `Answer K` of `Gama/Model/Ls/Common.lean`) and the least-squares specification layer
  (`Gama/Lemmas/LS/*.lean`, Mathlib matrices over a linearly ordered field).

  ## What a solver builder has to prove  (C01 / C02 / C03 / C08 then follow by the lemmas below)

  For your model `solve : Problem K → Except ErrKind (Answer K)` prove ONE statement

      theorem solve_isLS (hyp : <your Unambiguous / PD hypotheses>) (h : solve p = .ok a) :
          IsLSSolution p.A p.b P p.S (a.xVec p.n) (a.rVec p.m) a.rtr        -- = a.IsLS p P

  (`a.xVec n = toVec n a.x`, `a.rVec m = toVec m a.r`; use these two names rather than `toVec`
  directly: they fix the `Zero K` used for out-of-range reads to the `Scalar` one, whereas a bare
  `toVec` in a context with both `[Field K]` and `[Scalar K]` lets instance resolution choose.)

  where `P : Matrix (Fin p.m) (Fin p.m) K` is the weight matrix, i.e. any matrix with
  `p.C * P = 1` (`Problem.IsWeight p P`; for unit covariance `P = 1`), i.e. the four fields

      res    : v   = A *ᵥ x - b
      normal : Aᵀ *ᵥ (P *ᵥ v) = 0
      rtr_eq : rtr = v ⬝ᵥ P *ᵥ v
      orth   : ∀ g, A *ᵥ g = 0 → ∑ i ∈ S, x i * g i = 0        -- "x ⟂_S ker A"

  Helpers for establishing the fields:
    * `IsLSSolution.of_normal_matrix` : from `(Aᵀ P A) x = Aᵀ P b` (+ orth), v and rtr by definition;
    * `IsLSSolution.of_regular`       : trivial kernel ⇒ no `orth` obligation;
    * `IsLSSolution.orth_of_span`     : `orth` from S-orthogonality to the columns of a matrix G
                                         whose range contains ker A (your kernel basis);
    * `IsLSSolution.of_whitened`      : a solution of the homogenised problem (W A, W b, 1) with
                                         `Wᵀ W = P` is a solution of (A, b, P) (LS4) — what class
                                         `Adj`/`LocalNetwork` do before calling a full solver;
    * `IsLSSolution.perm` (LS5), `.shift` (LS6), `.scale` (LS9) : orderings, shifted rhs, σ₀ scaling.

  Consequences you get for free (hP : Pᵀ = P, hpsd/hpd : (semi)definiteness as explicit ∀-hypotheses):
    * `IsLSSolution.minimal`      : ∀ y, Phi A b P x ≤ Phi A b P y                      (C01, LS1)
    * `IsLSSolution.rtr_eq_Phi`   : rtr = Phi A b P x ;  `.rtr_minimal`                  (C01)
    * `IsLSSolution.min_norm`     : ∀ y, NormalEq A b P y → normS S x ≤ normS S y        (C01, LS3)
    * `IsLSSolution.min_norm_among_minimisers`                                           (C01)
    * `IsLSSolution.unique`       : S resolves ⇒ two IsLSSolutions agree in x, v, rtr    (C02)
    * `IsLSSolution.adjusted_obs_eq / residuals_eq / rtr_eq_rtr / sub_mem_ker`           (C08, LS7)
      for two subsets S, S′ — stated in `Gama/Props/C08.lean` for ANY two IsLSSolutions.
  Cofactors (C03): prove for your `Q : Matrix (Fin n) (Fin n) K`
      `N * Q * N = N`, `Q * N * Q = Q`, `Qᵀ = Q`   with `N = Aᵀ * P * A`
  and use `Gama/Lemmas/LS/GInverse.lean` + `Rank.lean`: `a_q_n`, `n_q_at`, `aqat_invariant`
  (A Q Aᵀ is the same for EVERY g-inverse), `proj_idempotent(')`, `proj_trace`, `hat_symm(')`,
  `hat_idempotent(')`, `hat_diag_nonneg`, `hat_diag_le_one`, `hat_trace`, `hat_trace_eq_rank`,
  `redundancy_sum(')`, `ginv_eq_inv_of_regular` (Q = N⁻¹), `ginv_scale` (LS9); for the code's
  `Q = T Q₀ Tᵀ`, `T = I − G Hᵀ` (`sProj G H`): `tq0t_ginv`, `tq0t_reflexive`, `tq0t_symm`, `tq0t_psd`,
  `Ht_mul_tq0t` / `tq0t_mulVec_orth` (Q maps into the S-orthogonal complement of the kernel).

  Scalars: state theorems at `@yourSolve K (fieldScalar sqrt) p` (explicit instance) or under
  `letI : Scalar K := fieldScalar sqrt`; do NOT put an arbitrary `[Scalar K]` next to `[Field K]`
  in a statement that also contains `-`, `0`, `*`, `≤` (two unrelated instances of `Sub K`, …).

  Conventions: `toMatrix`/`toVec` are total (out-of-range reads give `0`); `Reg.none` and
  `Reg.all` mean "all unknowns" (`Finset.univ`), `Reg.subset l` the in-range 1-based indices in `l`.
-/
import Gama.Model.Ls.Common
import Gama.Lemmas.LS.Solution

namespace Gama.LS
open Matrix Finset Gama.Ls

/-- dense array-of-rows → Mathlib matrix; total: out-of-range reads give `0` -/
def toMatrix {K : Type} [Zero K] (rows cols : Nat) (M : DMat K) : Matrix (Fin rows) (Fin cols) K :=
  Matrix.of fun i j => (M.getD i.val #[]).getD j.val 0

/-- array → vector; total: out-of-range reads give `0` -/
def toVec {K : Type} [Zero K] (n : Nat) (a : Array K) : Fin n → K := fun i => a.getD i.val 0

@[simp] theorem toMatrix_apply {K : Type} [Zero K] (rows cols : Nat) (M : DMat K)
    (i : Fin rows) (j : Fin cols) : toMatrix rows cols M i j = (M.getD i.val #[]).getD j.val 0 := rfl

@[simp] theorem toVec_apply {K : Type} [Zero K] (n : Nat) (a : Array K) (i : Fin n) :
    toVec n a i = a.getD i.val 0 := rfl

end Gama.LS

namespace Gama.Ls
open Matrix Finset Gama.LS

/-- regularisation list → subset of unknowns (0-based `Fin n` index `i` ↔ 1-based `i+1`) -/
def Reg.toFinset (n : Nat) : Reg → Finset (Fin n)
  | .none => Finset.univ
  | .all => Finset.univ
  | .subset l => Finset.univ.filter fun i => (i.val + 1) ∈ l

@[simp] theorem Reg.mem_toFinset_subset {n : Nat} {l : List Nat} {i : Fin n} :
    i ∈ Reg.toFinset n (.subset l) ↔ (i.val + 1) ∈ l := by
  simp [Reg.toFinset]

namespace Problem
variable {K : Type} [Scalar K]

/-- design matrix (from `Problem.dense`) -/
def A (p : Problem K) : Matrix (Fin p.m) (Fin p.n) K := toMatrix p.m p.n p.dense
/-- right-hand side -/
def b (p : Problem K) : Fin p.m → K := toVec p.m p.rhs
/-- dense covariance (cofactor) matrix of the observations (from `Problem.covDense`) -/
def C (p : Problem K) : Matrix (Fin p.m) (Fin p.m) K := toMatrix p.m p.m p.covDense
/-- regularisation subset -/
def S (p : Problem K) : Finset (Fin p.n) := p.reg.toFinset p.n

end Problem

/-- unknowns of an answer as a vector (zero of the `Scalar` signature for out-of-range reads;
    defined here, with only `[Scalar K]` in scope, so that the choice of `Zero K` is not left to
    instance resolution in contexts that also have `[Field K]`) -/
def Answer.xVec {K : Type} [Scalar K] (a : Answer K) (n : Nat) : Fin n → K := toVec n a.x
/-- residuals of an answer as a vector -/
def Answer.rVec {K : Type} [Scalar K] (a : Answer K) (m : Nat) : Fin m → K := toVec m a.r

@[simp] theorem Answer.xVec_apply {K : Type} [Scalar K] (a : Answer K) (n : Nat) (i : Fin n) :
    a.xVec n i = a.x.getD i.val 0 := rfl
@[simp] theorem Answer.rVec_apply {K : Type} [Scalar K] (a : Answer K) (m : Nat) (i : Fin m) :
    a.rVec m i = a.r.getD i.val 0 := rfl

set_option linter.overlappingInstances false in
/-- `P` is the weight matrix of the problem: the inverse of its covariance matrix.
    (`[Field K]` and `[Scalar K]` are both in scope in proofs about models; use a `Scalar`
    instance built from the field — `Gama.LS.fieldScalar` — so that the two agree definitionally.) -/
def Problem.IsWeight {K : Type} [Field K] [Scalar K] (p : Problem K)
    (P : Matrix (Fin p.m) (Fin p.m) K) : Prop := p.C * P = 1

set_option linter.overlappingInstances false in
/-- the statement a solver model proves about a successful answer -/
def Answer.IsLS {K : Type} [Field K] [Scalar K] (p : Problem K)
    (P : Matrix (Fin p.m) (Fin p.m) K) (a : Answer K) : Prop :=
  IsLSSolution p.A p.b P p.S (a.xVec p.n) (a.rVec p.m) a.rtr

end Gama.Ls

namespace Gama.LS

/-- the `Scalar` signature of a linearly ordered field with a chosen square-root function:
    every operation IS the field's (definitionally), so models instantiated at it can be
    reasoned about with Mathlib's algebra without a separate lawfulness class.
    Use as `attribute [local instance] fieldScalar` / `letI := fieldScalar sqrt`. -/
@[reducible] def fieldScalar {K : Type} [Field K] [LinearOrder K] (sqrt : K → K) : Gama.Scalar K where
  sqrt := sqrt
  ofNat := fun n => (n : K)
  ofSci := fun m s e => OfScientific.ofScientific m s e
  decLt := fun _ _ => inferInstance
  decLe := fun _ _ => inferInstance
  beq := fun a b => decide (a = b)
  abs := fun x => if x < 0 then -x else x

end Gama.LS
