/-
  LS8 — generalised inverses of the normal matrix `N = Aᵀ P A` and the projector `A Q Aᵀ P`.

  Main facts (P symmetric positive definite, Q ANY g-inverse of N, i.e. `N Q N = N`):
    `a_q_n`            A Q N = A
    `n_q_at`           N Q Aᵀ = Aᵀ
    `aqat_invariant`   A Q₁ Aᵀ = A Q₂ Aᵀ for any two g-inverses (cofactors of adjusted
                       observations do not depend on the datum / regularisation / algorithm)
    `proj_idempotent`  (A Q Aᵀ P)² = A Q Aᵀ P
    `proj_trace`       trace (A Q Aᵀ P) = trace (Q N)
  and for unit weights (homogenised system) the hat matrix Π = A Q Aᵀ is symmetric idempotent,
  `0 ≤ Π i i ≤ 1`.  The rank/trace identities are in `Rank.lean`.
-/
import Gama.Lemmas.LS.Transform
import Mathlib.LinearAlgebra.Matrix.Trace

namespace Gama.LS
open Matrix Finset

set_option linter.unusedSectionVars false

variable {𝕜 : Type*} [Field 𝕜]
variable {m n : Type*} [Fintype m] [Fintype n]
variable {A : Matrix m n 𝕜} {P : Matrix m m 𝕜} {Q Q₁ Q₂ : Matrix n n 𝕜}

theorem normalMatrix_symm (hP : Pᵀ = P) (A : Matrix m n 𝕜) : (Aᵀ * P * A)ᵀ = Aᵀ * P * A := by
  rw [transpose_mul, transpose_mul, transpose_transpose, hP, Matrix.mul_assoc]

theorem normal_mulVec (A : Matrix m n 𝕜) (P : Matrix m m 𝕜) (w : n → 𝕜) :
    Aᵀ *ᵥ (P *ᵥ (A *ᵥ w)) = (Aᵀ * P * A) *ᵥ w := by
  rw [mulVec_mulVec, mulVec_mulVec, Matrix.mul_assoc]

/-- the transpose of a g-inverse of a symmetric matrix is a g-inverse -/
theorem ginv_transpose {N : Matrix n n 𝕜} (hN : Nᵀ = N) (hQ : N * Q * N = N) :
    N * Qᵀ * N = N := by
  have := congrArg transpose hQ
  rw [transpose_mul, transpose_mul, hN, ← Matrix.mul_assoc] at this
  exact this

/-- transposing `A Qᵀ N = A` for symmetric `N` -/
theorem transpose_aqn {N : Matrix n n 𝕜} (hN : Nᵀ = N) (h : A * Qᵀ * N = A) :
    N * Q * Aᵀ = Aᵀ := by
  have := congrArg transpose h
  rw [transpose_mul, transpose_mul, transpose_transpose, hN, ← Matrix.mul_assoc] at this
  exact this

/-- reflexivity is not needed for idempotence of the projector, but when available: -/
theorem proj_idempotent (hQ : Q * (Aᵀ * P * A) * Q = Q) :
    (A * Q * Aᵀ * P) * (A * Q * Aᵀ * P) = A * Q * Aᵀ * P := by
  calc (A * Q * Aᵀ * P) * (A * Q * Aᵀ * P)
      = A * (Q * (Aᵀ * P * A) * Q) * Aᵀ * P := by simp only [Matrix.mul_assoc]
    _ = A * Q * Aᵀ * P := by rw [hQ]

/-- **LS8** trace of the projector -/
theorem proj_trace (A : Matrix m n 𝕜) (P : Matrix m m 𝕜) (Q : Matrix n n 𝕜) :
    trace (A * Q * Aᵀ * P) = trace (Q * (Aᵀ * P * A)) := by
  rw [Matrix.mul_assoc, Matrix.mul_assoc, Matrix.mul_assoc, trace_mul_comm]
  simp only [Matrix.mul_assoc]

section Ordered
variable [LinearOrder 𝕜] [IsStrictOrderedRing 𝕜]

/-- **LS8 / C03** for P symmetric PD and any g-inverse Q of N: `A Q N = A` -/
theorem a_q_n (hpd : ∀ d, d ≠ 0 → 0 < d ⬝ᵥ P *ᵥ d)
    (hQ : (Aᵀ * P * A) * Q * (Aᵀ * P * A) = Aᵀ * P * A) : A * Q * (Aᵀ * P * A) = A := by
  apply Matrix.mulVec_injective
  funext z
  have h0 : Aᵀ *ᵥ (P *ᵥ (A *ᵥ ((Q * (Aᵀ * P * A)) *ᵥ z - z))) = 0 := by
    rw [normal_mulVec, mulVec_sub, mulVec_mulVec, ← Matrix.mul_assoc, hQ, sub_self]
  have h1 := mulVec_eq_zero_of_normal hpd h0
  rw [mulVec_sub, sub_eq_zero, mulVec_mulVec, ← Matrix.mul_assoc] at h1
  exact h1

/-- **LS8 / C03** `N Q Aᵀ = Aᵀ` -/
theorem n_q_at (hP : Pᵀ = P) (hpd : ∀ d, d ≠ 0 → 0 < d ⬝ᵥ P *ᵥ d)
    (hQ : (Aᵀ * P * A) * Q * (Aᵀ * P * A) = Aᵀ * P * A) : (Aᵀ * P * A) * Q * Aᵀ = Aᵀ := by
  have hN := normalMatrix_symm hP A
  exact transpose_aqn hN (a_q_n hpd (ginv_transpose hN hQ))

/-- **LS7 / LS8 / C03 / C08** `A Q Aᵀ` is the same for ALL generalised inverses of `N = Aᵀ P A`
    (P symmetric positive definite): the cofactors of the adjusted observations do not depend on
    the regularisation subset, on reflexivity or symmetry of Q, or on the algorithm -/
theorem aqat_invariant (hP : Pᵀ = P) (hpd : ∀ d, d ≠ 0 → 0 < d ⬝ᵥ P *ᵥ d)
    (hQ₁ : (Aᵀ * P * A) * Q₁ * (Aᵀ * P * A) = Aᵀ * P * A)
    (hQ₂ : (Aᵀ * P * A) * Q₂ * (Aᵀ * P * A) = Aᵀ * P * A) :
    A * Q₁ * Aᵀ = A * Q₂ * Aᵀ := by
  calc A * Q₁ * Aᵀ = A * Q₁ * ((Aᵀ * P * A) * Q₂ * Aᵀ) := by rw [n_q_at hP hpd hQ₂]
    _ = (A * Q₁ * (Aᵀ * P * A)) * Q₂ * Aᵀ := by simp only [Matrix.mul_assoc]
    _ = A * Q₂ * Aᵀ := by rw [a_q_n hpd hQ₁]

/-- the projector reproduces the columns of A: `(A Q Aᵀ P) A = A` -/
theorem proj_mul_A (hpd : ∀ d, d ≠ 0 → 0 < d ⬝ᵥ P *ᵥ d)
    (hQ : (Aᵀ * P * A) * Q * (Aᵀ * P * A) = Aᵀ * P * A) : (A * Q * Aᵀ * P) * A = A := by
  have := a_q_n hpd hQ
  simpa only [Matrix.mul_assoc] using this

/-- **LS8** idempotence of `A Q Aᵀ P` for any g-inverse (P PD), reflexivity not needed -/
theorem proj_idempotent' (hpd : ∀ d, d ≠ 0 → 0 < d ⬝ᵥ P *ᵥ d)
    (hQ : (Aᵀ * P * A) * Q * (Aᵀ * P * A) = Aᵀ * P * A) :
    (A * Q * Aᵀ * P) * (A * Q * Aᵀ * P) = A * Q * Aᵀ * P := by
  calc (A * Q * Aᵀ * P) * (A * Q * Aᵀ * P)
      = ((A * Q * Aᵀ * P) * A) * Q * Aᵀ * P := by simp only [Matrix.mul_assoc]
    _ = A * Q * Aᵀ * P := by rw [proj_mul_A hpd hQ]

/-- with a g-inverse Q of N, `x := Q Aᵀ P b` solves the normal equations -/
theorem ginv_solves (hP : Pᵀ = P) (hpd : ∀ d, d ≠ 0 → 0 < d ⬝ᵥ P *ᵥ d)
    (hQ : (Aᵀ * P * A) * Q * (Aᵀ * P * A) = Aᵀ * P * A) (b : m → 𝕜) :
    NormalEq A b P (Q *ᵥ (Aᵀ *ᵥ (P *ᵥ b))) := by
  have hM : (Aᵀ * P * A) * Q * Aᵀ * P = Aᵀ * P := by rw [n_q_at hP hpd hQ]
  unfold NormalEq
  rw [mulVec_sub, mulVec_sub, sub_eq_zero, normal_mulVec]
  simp only [mulVec_mulVec]
  simp only [← Matrix.mul_assoc]
  rw [hM]

-- ---------------------------------------------------------------- symmetric idempotent matrices

/-- diagonal of a symmetric idempotent matrix is a sum of squares -/
theorem symm_idem_diag {M : Matrix m m 𝕜} (hs : Mᵀ = M) (hi : M * M = M) (i : m) :
    M i i = ∑ j, M i j * M i j := by
  have h := congrFun (congrFun hi i) i
  rw [Matrix.mul_apply] at h
  rw [← h]
  refine sum_congr rfl fun j _ => ?_
  have : M j i = M i j := by
    have := congrFun (congrFun hs i) j; simpa [transpose_apply] using this
  rw [this]

theorem symm_idem_diag_nonneg {M : Matrix m m 𝕜} (hs : Mᵀ = M) (hi : M * M = M) (i : m) :
    0 ≤ M i i := by
  rw [symm_idem_diag hs hi]; exact sum_nonneg fun j _ => mul_self_nonneg _

theorem symm_idem_diag_le_one {M : Matrix m m 𝕜} (hs : Mᵀ = M) (hi : M * M = M) (i : m) :
    M i i ≤ 1 := by
  have h1 : M i i * M i i ≤ M i i := by
    conv_rhs => rw [symm_idem_diag hs hi]
    exact single_le_sum (f := fun j => M i j * M i j) (fun j _ => mul_self_nonneg _)
      (mem_univ i)
  by_contra hlt
  have hlt := not_le.1 hlt
  have : M i i < M i i * M i i := by nlinarith
  linarith

-- ---------------------------------------------------------------- unit weights: hat matrix

variable [DecidableEq m]

theorem hat_symm (hQs : Qᵀ = Q) : (A * Q * Aᵀ)ᵀ = A * Q * Aᵀ := by
  rw [transpose_mul, transpose_mul, transpose_transpose, hQs, Matrix.mul_assoc]

/-- **LS8** unit weights, reflexive g-inverse: Π = A Q Aᵀ is idempotent -/
theorem hat_idempotent (hQ : Q * (Aᵀ * A) * Q = Q) :
    (A * Q * Aᵀ) * (A * Q * Aᵀ) = A * Q * Aᵀ := by
  calc (A * Q * Aᵀ) * (A * Q * Aᵀ) = A * (Q * (Aᵀ * A) * Q) * Aᵀ := by
        simp only [Matrix.mul_assoc]
    _ = A * Q * Aᵀ := by rw [hQ]

/-- **LS8** unit weights, any g-inverse: Π = A Q Aᵀ is idempotent -/
theorem hat_idempotent' (hQ : (Aᵀ * A) * Q * (Aᵀ * A) = Aᵀ * A) :
    (A * Q * Aᵀ) * (A * Q * Aᵀ) = A * Q * Aᵀ := by
  have hQ' : (Aᵀ * (1 : Matrix m m 𝕜) * A) * Q * (Aᵀ * (1 : Matrix m m 𝕜) * A)
      = Aᵀ * (1 : Matrix m m 𝕜) * A := by
    simpa only [Matrix.mul_one] using hQ
  have := proj_idempotent' (P := (1 : Matrix m m 𝕜)) one_pd hQ'
  simpa only [Matrix.mul_one] using this

/-- **LS8 / C03** `0 ≤ Π i i` -/
theorem hat_diag_nonneg (hQs : Qᵀ = Q) (hQ : Q * (Aᵀ * A) * Q = Q) (i : m) :
    0 ≤ (A * Q * Aᵀ) i i :=
  symm_idem_diag_nonneg (hat_symm hQs) (hat_idempotent hQ) i

/-- **LS8 / C03** `Π i i ≤ 1` -/
theorem hat_diag_le_one (hQs : Qᵀ = Q) (hQ : Q * (Aᵀ * A) * Q = Q) (i : m) :
    (A * Q * Aᵀ) i i ≤ 1 :=
  symm_idem_diag_le_one (hat_symm hQs) (hat_idempotent hQ) i

/-- the hat matrix of ANY g-inverse is symmetric (it equals the one of the symmetric part) -/
theorem hat_symm' (hQ : (Aᵀ * A) * Q * (Aᵀ * A) = Aᵀ * A) : (A * Q * Aᵀ)ᵀ = A * Q * Aᵀ := by
  have h1 : (Aᵀ * (1 : Matrix m m 𝕜) * A) * Q * (Aᵀ * (1 : Matrix m m 𝕜) * A)
      = Aᵀ * (1 : Matrix m m 𝕜) * A := by
    simpa only [Matrix.mul_one] using hQ
  have hN : (Aᵀ * (1 : Matrix m m 𝕜) * A)ᵀ = Aᵀ * (1 : Matrix m m 𝕜) * A := normalMatrix_symm one_symm A
  have h2 := ginv_transpose hN h1
  rw [transpose_mul, transpose_mul, transpose_transpose, Matrix.mul_assoc]
  simpa only [Matrix.mul_assoc] using aqat_invariant one_symm one_pd h2 h1

end Ordered

/-- **LS8** `trace Π = trace (Q N)` (unit weights) -/
theorem hat_trace (A : Matrix m n 𝕜) (Q : Matrix n n 𝕜) :
    trace (A * Q * Aᵀ) = trace (Q * (Aᵀ * A)) := by
  rw [Matrix.mul_assoc, trace_mul_comm]; simp only [Matrix.mul_assoc]

-- ---------------------------------------------------------------- LS8: Q = T Q₀ Tᵀ

/-- rows of `G` outside `S` replaced by zero (`G_S` padded to full height) -/
def restrictS {k : Type*} (S : Finset n) [DecidablePred (· ∈ S)] (G : Matrix n k 𝕜) : Matrix n k 𝕜 :=
  Matrix.of fun i j => if i ∈ S then G i j else 0

theorem restrictS_transpose_mulVec {k : Type*} [Fintype k] (S : Finset n) [DecidablePred (· ∈ S)]
    (G : Matrix n k 𝕜) (x : n → 𝕜) (j : k) :
    ((restrictS S G)ᵀ *ᵥ x) j = ∑ i ∈ S, x i * G i j := by
  simp only [mulVec, dotProduct, transpose_apply, restrictS, of_apply]
  rw [← Finset.sum_filter_add_sum_filter_not univ (· ∈ S)]
  have h2 : ∑ i ∈ univ.filter (fun i => ¬ i ∈ S), (if i ∈ S then G i j else 0) * x i = 0 :=
    sum_eq_zero fun i hi => by simp [(mem_filter.1 hi).2]
  rw [h2, add_zero]
  have : univ.filter (· ∈ S) = S := by ext i; simp
  rw [this]
  refine sum_congr rfl fun i hi => by simp [hi, mul_comm]

section SProjector
variable {k : Type*} [Fintype k] [DecidableEq k] [DecidableEq n]
variable {N Q₀ : Matrix n n 𝕜} {G H : Matrix n k 𝕜}

/-- the S-projector `T = I − G Hᵀ` of the code (`T_row`, `AdjCholDec::T`): `G` spans the kernel of
    `N`, `H = G` restricted to the rows in `S`, normalised so that `Hᵀ G = I`
    (Gram–Schmidt over `min_x_list`) -/
def sProj (G H : Matrix n k 𝕜) : Matrix n n 𝕜 := 1 - G * Hᵀ

theorem N_mul_sProj (hNG : N * G = 0) : N * sProj G H = N := by
  unfold sProj; rw [Matrix.mul_sub, Matrix.mul_one, ← Matrix.mul_assoc, hNG, Matrix.zero_mul, sub_zero]

theorem sProjT_mul_N (hN : Nᵀ = N) (hNG : N * G = 0) : (sProj G H)ᵀ * N = N := by
  have := congrArg transpose (N_mul_sProj (H := H) hNG)
  rwa [transpose_mul, hN] at this

theorem Ht_mul_sProj (hHG : Hᵀ * G = 1) : Hᵀ * sProj G H = 0 := by
  unfold sProj; rw [Matrix.mul_sub, Matrix.mul_one, ← Matrix.mul_assoc, hHG, Matrix.one_mul, sub_self]

theorem sProj_mul_G (hHG : Hᵀ * G = 1) : sProj G H * G = 0 := by
  unfold sProj; rw [Matrix.sub_mul, Matrix.one_mul, Matrix.mul_assoc, hHG, Matrix.mul_one, sub_self]

theorem sProj_idempotent (hHG : Hᵀ * G = 1) : sProj G H * sProj G H = sProj G H := by
  have h : sProj G H * sProj G H = sProj G H - G * (Hᵀ * sProj G H) := by
    conv_lhs => lhs; unfold sProj
    rw [Matrix.sub_mul, Matrix.one_mul, Matrix.mul_assoc]
  rw [h, Ht_mul_sProj hHG, Matrix.mul_zero, sub_zero]

/-- **LS8** `Q = T Q₀ Tᵀ` is a g-inverse of `N` when `Q₀` is -/
theorem tq0t_ginv (hN : Nᵀ = N) (hNG : N * G = 0) (hQ₀ : N * Q₀ * N = N) :
    N * (sProj G H * Q₀ * (sProj G H)ᵀ) * N = N := by
  calc N * (sProj G H * Q₀ * (sProj G H)ᵀ) * N
      = (N * sProj G H) * Q₀ * ((sProj G H)ᵀ * N) := by simp only [Matrix.mul_assoc]
    _ = N := by rw [N_mul_sProj hNG, sProjT_mul_N hN hNG, hQ₀]

/-- **LS8** … and reflexive when `Q₀` is -/
theorem tq0t_reflexive (hN : Nᵀ = N) (hNG : N * G = 0) (hQ₀ : Q₀ * N * Q₀ = Q₀) :
    (sProj G H * Q₀ * (sProj G H)ᵀ) * N * (sProj G H * Q₀ * (sProj G H)ᵀ)
      = sProj G H * Q₀ * (sProj G H)ᵀ := by
  calc (sProj G H * Q₀ * (sProj G H)ᵀ) * N * (sProj G H * Q₀ * (sProj G H)ᵀ)
      = sProj G H * (Q₀ * (((sProj G H)ᵀ * N) * sProj G H) * Q₀) * (sProj G H)ᵀ := by
        simp only [Matrix.mul_assoc]
    _ = sProj G H * Q₀ * (sProj G H)ᵀ := by
        rw [sProjT_mul_N hN hNG, N_mul_sProj hNG, hQ₀]

/-- **LS8** … symmetric when `Q₀` is -/
theorem tq0t_symm (hQ₀ : Q₀ᵀ = Q₀) :
    (sProj G H * Q₀ * (sProj G H)ᵀ)ᵀ = sProj G H * Q₀ * (sProj G H)ᵀ := by
  rw [transpose_mul, transpose_mul, transpose_transpose, hQ₀, Matrix.mul_assoc]

/-- **LS8** … positive semi-definite when `Q₀` is -/
theorem tq0t_psd [LinearOrder 𝕜] [IsStrictOrderedRing 𝕜] (hQ₀ : ∀ d, 0 ≤ d ⬝ᵥ Q₀ *ᵥ d) :
    ∀ d, 0 ≤ d ⬝ᵥ (sProj G H * Q₀ * (sProj G H)ᵀ) *ᵥ d := fun d => by
  have : d ⬝ᵥ (sProj G H * Q₀ * (sProj G H)ᵀ) *ᵥ d
      = ((sProj G H)ᵀ *ᵥ d) ⬝ᵥ Q₀ *ᵥ ((sProj G H)ᵀ *ᵥ d) := by
    rw [← mulVec_mulVec, ← mulVec_mulVec, mulVec_dot (sProj G H)ᵀ, transpose_transpose]
  rw [this]; exact hQ₀ _

/-- **LS8 / C03 "belongs to the chosen regularisation"** the range of `Q = T Q₀ Tᵀ` is
    S-orthogonal to the kernel basis: `Hᵀ Q = 0` -/
theorem Ht_mul_tq0t (hHG : Hᵀ * G = 1) : Hᵀ * (sProj G H * Q₀ * (sProj G H)ᵀ) = 0 := by
  rw [← Matrix.mul_assoc, ← Matrix.mul_assoc, Ht_mul_sProj hHG, Matrix.zero_mul, Matrix.zero_mul]

/-- … hence `x = Q c` satisfies the second criterion w.r.t. the columns of `G` -/
theorem tq0t_mulVec_orth (S : Finset n) [DecidablePred (· ∈ S)] (hH : H = restrictS S G)
    (hHG : Hᵀ * G = 1) (c : n → 𝕜) (j : k) :
    ∑ i ∈ S, ((sProj G H * Q₀ * (sProj G H)ᵀ) *ᵥ c) i * G i j = 0 := by
  rw [← restrictS_transpose_mulVec, ← hH, mulVec_mulVec, Ht_mul_tq0t hHG, zero_mulVec]; rfl

end SProjector

/-- **C03** regular case: a g-inverse of an invertible N is its inverse -/
theorem ginv_eq_inv_of_regular [DecidableEq n] {N : Matrix n n 𝕜} (hN : IsUnit N.det)
    (hQ : N * Q * N = N) : Q = N⁻¹ := by
  have h1 : N * Q = 1 := by
    have := congrArg (· * N⁻¹) hQ
    simp only [Matrix.mul_assoc, mul_nonsing_inv N hN, Matrix.mul_one] at this
    exact this
  exact (inv_eq_right_inv h1).symm

end Gama.LS
