/-
  A concrete rank-deficient weighted problem over ℚ used for the non-vacuity `example`s of
  Props/C01/Spec.lean and Props/C08.lean:

      A = [1 0 1; 0 1 1; 1 1 2; 1 -1 0]   (4×3, rank 2, ker = span (1,1,-1))
      b = (3, 5/4, 2, 1),  P = diag(1, 4, 1, 1/4) = Wᵀ W,  W = diag(1, 2, 1, 1/2)
      S  = {0,1}: x  = (1/2, -1/2, 3/2)       S' = {2}: x' = (2, 1, 0)
      v = (-1, -1/4, 1, 0),  vᵀPv = 9/4
-/
import Gama.Lemmas.LS.Rank
import Gama.Lemmas.LS.Bridge
import Mathlib.LinearAlgebra.Matrix.Notation
import Mathlib.Tactic.FinCases
import Mathlib.Tactic.NormNum

namespace Gama.LS.Ex
open Matrix Finset

set_option linter.unnecessarySeqFocus false

def A : Matrix (Fin 4) (Fin 3) ℚ := !![1, 0, 1; 0, 1, 1; 1, 1, 2; 1, -1, 0]
def b : Fin 4 → ℚ := ![3, 5/4, 2, 1]
def w : Fin 4 → ℚ := ![1, 4, 1, 1/4]
def P : Matrix (Fin 4) (Fin 4) ℚ := diagonal w
def W : Matrix (Fin 4) (Fin 4) ℚ := diagonal ![1, 2, 1, 1/2]
def S : Finset (Fin 3) := {0, 1}
def S' : Finset (Fin 3) := {2}
def x : Fin 3 → ℚ := ![1/2, -1/2, 3/2]
def x' : Fin 3 → ℚ := ![2, 1, 0]
def v : Fin 4 → ℚ := ![-1, -1/4, 1, 0]
def g₀ : Fin 3 → ℚ := ![1, 1, -1]

theorem P_symm : Pᵀ = P := diagonal_symm w

theorem P_pd : ∀ d : Fin 4 → ℚ, d ≠ 0 → 0 < d ⬝ᵥ P *ᵥ d :=
  diagonal_pd w (fun i => by fin_cases i <;> simp [w])

theorem W_gram : Wᵀ * W = P := by
  unfold W P
  rw [diagonal_transpose, diagonal_mul_diagonal]
  congr 1; funext i; fin_cases i <;> norm_num [w]

theorem W_inj : ∀ d : Fin 4 → ℚ, W *ᵥ d = 0 → d = 0 := by
  intro d hd
  funext i
  have := congrFun hd i
  fin_cases i <;> simpa [W, mulVec_diagonal] using this

theorem ker_iff (g : Fin 3 → ℚ) : A *ᵥ g = 0 ↔ g 0 + g 2 = 0 ∧ g 1 + g 2 = 0 := by
  constructor
  · intro h
    have h0 := congrFun h 0
    have h1 := congrFun h 1
    simp [A, mulVec, dotProduct, Fin.sum_univ_succ] at h0 h1
    exact ⟨h0, h1⟩
  · rintro ⟨h0, h1⟩
    funext i
    fin_cases i <;> simp [A, mulVec, dotProduct, Fin.sum_univ_succ] <;> linarith

/-- the kernel is non-trivial: the problem is genuinely rank deficient -/
theorem g₀_ker : A *ᵥ g₀ = 0 ∧ g₀ ≠ 0 := by
  refine ⟨(ker_iff _).2 ⟨by simp [g₀], by simp [g₀]⟩, fun h => ?_⟩
  have := congrFun h 0; simp [g₀] at this

theorem S_resolves : Resolves A S := by
  intro g hg hS
  obtain ⟨h0, h1⟩ := (ker_iff g).1 hg
  have e0 : g 0 = 0 := hS 0 (by simp [S])
  have e1 : g 1 = 0 := hS 1 (by simp [S])
  funext i; fin_cases i
  · exact e0
  · exact e1
  · show g 2 = 0; linarith

theorem S'_resolves : Resolves A S' := by
  intro g hg hS
  obtain ⟨h0, h1⟩ := (ker_iff g).1 hg
  have e2 : g 2 = 0 := hS 2 (by simp [S'])
  funext i; fin_cases i
  · show g 0 = 0; linarith
  · show g 1 = 0; linarith
  · exact e2

theorem res_x : v = A *ᵥ x - b := by
  funext i; fin_cases i <;> norm_num [v, A, x, b, mulVec, dotProduct, Fin.sum_univ_succ]

theorem res_x' : v = A *ᵥ x' - b := by
  funext i; fin_cases i <;> norm_num [v, A, x', b, mulVec, dotProduct, Fin.sum_univ_succ]

theorem Pv : P *ᵥ v = ![-1, -1, 1, 0] := by
  funext i; fin_cases i <;> simp [P, w, v, mulVec_diagonal] <;> norm_num

theorem normal_v : Aᵀ *ᵥ (P *ᵥ v) = 0 := by
  rw [Pv]; funext i
  fin_cases i <;> simp [A, mulVec, dotProduct, Fin.sum_univ_succ, transpose_apply] <;> norm_num

theorem rtr_v : (9 / 4 : ℚ) = v ⬝ᵥ P *ᵥ v := by
  rw [Pv]; simp [v, dotProduct, Fin.sum_univ_succ]; norm_num

/-- the solution regularised over `S = {0,1}` -/
theorem sol : IsLSSolution A b P S x v (9 / 4) where
  res := res_x
  normal := normal_v
  rtr_eq := rtr_v
  orth := fun g hg => by
    obtain ⟨h0, h1⟩ := (ker_iff g).1 hg
    have : ∑ i ∈ S, x i * g i = x 0 * g 0 + x 1 * g 1 := by
      simp [S, sum_pair (show (0 : Fin 3) ≠ 1 by decide)]
    rw [this]; norm_num [x]; linarith

/-- the solution regularised over `S' = {2}` -/
theorem sol' : IsLSSolution A b P S' x' v (9 / 4) where
  res := res_x'
  normal := normal_v
  rtr_eq := rtr_v
  orth := fun g _ => by simp [S', x']

/-- the two datum choices give different unknowns -/
theorem x_ne_x' : x ≠ x' := fun h => by
  have := congrFun h 2; simp [x, x'] at this

/-- the homogenised problem `(W A, W b, 1)` with its solution -/
theorem sol_whitened : IsLSSolution (W * A) (W *ᵥ b) 1 S x (W *ᵥ v) (9 / 4) :=
  sol.to_whitened W_gram W_inj

/-! cofactors: two different reflexive symmetric g-inverses of `N = Aᵀ P A` (belonging to S and S') -/

def N : Matrix (Fin 3) (Fin 3) ℚ := !![9/4, 3/4, 3; 3/4, 21/4, 6; 3, 6, 9]
def Q : Matrix (Fin 3) (Fin 3) ℚ := !![1/5, -1/5, 1/15; -1/5, 1/5, -1/15; 1/15, -1/15, 2/15]
def Q' : Matrix (Fin 3) (Fin 3) ℚ := !![7/15, -1/15, 0; -1/15, 1/5, 0; 0, 0, 0]

theorem N_eq : Aᵀ * P * A = N := by
  ext i j
  fin_cases i <;> fin_cases j <;>
    simp [A, P, w, N, Matrix.mul_apply, Fin.sum_univ_succ, diagonal_apply, transpose_apply] <;>
    norm_num

theorem Q_ginv : N * Q * N = N := by
  ext i j
  fin_cases i <;> fin_cases j <;> simp [N, Q, Matrix.mul_apply, Fin.sum_univ_succ] <;> norm_num

theorem Q'_ginv : N * Q' * N = N := by
  ext i j
  fin_cases i <;> fin_cases j <;> simp [N, Q', Matrix.mul_apply, Fin.sum_univ_succ] <;> norm_num

theorem Q_refl : Q * N * Q = Q := by
  ext i j
  fin_cases i <;> fin_cases j <;> simp [N, Q, Matrix.mul_apply, Fin.sum_univ_succ] <;> norm_num

theorem Q'_refl : Q' * N * Q' = Q' := by
  ext i j
  fin_cases i <;> fin_cases j <;> simp [N, Q', Matrix.mul_apply, Fin.sum_univ_succ] <;> norm_num

theorem Q_symm : Qᵀ = Q := by
  ext i j; fin_cases i <;> fin_cases j <;> simp [Q, transpose_apply]

theorem Q_ne_Q' : Q ≠ Q' := fun h => by
  have := congrFun (congrFun h 2) 2; simp [Q, Q'] at this

/-! the same problem in the executable vocabulary (`Gama.Ls.Problem ℚ`, sparse rows, packed
    covariance block, 1-based regularisation list) and an answer record, through the bridge -/

open Gama.Ls in
abbrev pEx : Problem ℚ where
  m := 4
  n := 3
  rows := #[#[(1, 1), (3, 1)], #[(2, 1), (3, 1)], #[(1, 1), (2, 1), (3, 2)], #[(1, 1), (2, -1)]]
  cov := #[⟨4, 0, #[1, 1/4, 1, 4]⟩]
  rhs := #[3, 5/4, 2, 1]
  reg := .subset [1, 2]

open Gama.Ls in
def aEx : Answer ℚ where
  x := #[1/2, -1/2, 3/2]
  r := #[-1, -1/4, 1, 0]
  rtr := 9/4
  defect := 1
  qxx := fun _ _ => .error .NotModelled
  q0xx := fun _ _ => .error .NotModelled
  qbb := fun _ _ => .error .NotModelled
  qbx := fun _ _ => .error .NotModelled
  lindep := fun _ => .error .NotModelled

/-- the `Scalar` signature of ℚ built from the field (square root never used here) -/
abbrev scQ : Gama.Scalar ℚ := fieldScalar id

theorem pEx_A : @Gama.Ls.Problem.A ℚ scQ pEx = A := by
  ext i j; fin_cases i <;> fin_cases j <;> decide +kernel

theorem pEx_b : @Gama.Ls.Problem.b ℚ scQ pEx = b := by
  ext i; fin_cases i <;> decide +kernel

theorem pEx_C : @Gama.Ls.Problem.C ℚ scQ pEx = diagonal ![1, 1/4, 1, 4] := by
  ext i j; fin_cases i <;> fin_cases j <;> decide +kernel

theorem pEx_S : pEx.S = S := by
  show (pEx.S : Finset (Fin 3)) = S
  decide

theorem pEx_weight : @Gama.Ls.Problem.IsWeight ℚ _ scQ pEx P := by
  have h : (diagonal ![1, 1/4, 1, 4] : Matrix (Fin 4) (Fin 4) ℚ) * P = 1 := by
    unfold P
    rw [diagonal_mul_diagonal, ← diagonal_one]
    congr 1; funext i; fin_cases i <;> norm_num [w]
  show (@Gama.Ls.Problem.C ℚ scQ pEx : Matrix (Fin 4) (Fin 4) ℚ) * P = 1
  rw [pEx_C]; exact h

theorem aEx_x : @Gama.Ls.Answer.xVec ℚ scQ aEx 3 = x := by
  ext i; fin_cases i <;> decide +kernel

theorem aEx_r : @Gama.Ls.Answer.rVec ℚ scQ aEx 4 = v := by
  ext i; fin_cases i <;> decide +kernel

/-- the bridge statement a solver builder proves, on the concrete instance -/
theorem aEx_isLS : @Gama.Ls.Answer.IsLS ℚ _ scQ pEx P aEx := by
  unfold Gama.Ls.Answer.IsLS
  rw [pEx_A, pEx_b, pEx_S]
  exact (aEx_x ▸ aEx_r ▸ sol :
    IsLSSolution A b P S (@Gama.Ls.Answer.xVec ℚ scQ aEx 3) (@Gama.Ls.Answer.rVec ℚ scQ aEx 4) (9 / 4))

end Gama.LS.Ex
