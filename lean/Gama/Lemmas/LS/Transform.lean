/-
  Transformations of a least-squares problem and what they do to its solution:
  LS4 whitening / homogenisation, LS5 row and column permutations, LS6 shift of the right-hand
  side along a column of A, LS9 scaling of the weight matrix (change of a priori σ₀).
-/
import Gama.Lemmas.LS.Solution
import Mathlib.LinearAlgebra.Matrix.NonsingularInverse

namespace Gama.LS
open Matrix Finset

set_option linter.unusedSectionVars false

variable {𝕜 : Type*} [Field 𝕜]
variable {m n k : Type*} [Fintype m] [Fintype n] [Fintype k]

-- ------------------------------------------------------------------ unit and Gram weights

section Weights
variable [DecidableEq m]

theorem one_symm : (1 : Matrix m m 𝕜)ᵀ = 1 := transpose_one

theorem gram_symm (W : Matrix k m 𝕜) : (Wᵀ * W)ᵀ = Wᵀ * W := by
  rw [transpose_mul, transpose_transpose]

/-- `u · (WᵀW) w = (W u) · (W w)` -/
theorem gram_dot (W : Matrix k m 𝕜) (u w : m → 𝕜) :
    u ⬝ᵥ (Wᵀ * W) *ᵥ w = (W *ᵥ u) ⬝ᵥ (W *ᵥ w) := by
  rw [← mulVec_mulVec, mulVec_dot]

variable [LinearOrder 𝕜] [IsStrictOrderedRing 𝕜]

theorem one_psd : ∀ d : m → 𝕜, 0 ≤ d ⬝ᵥ (1 : Matrix m m 𝕜) *ᵥ d := fun d => by
  rw [one_mulVec]; exact dot_self_nonneg d

theorem one_pd : ∀ d : m → 𝕜, d ≠ 0 → 0 < d ⬝ᵥ (1 : Matrix m m 𝕜) *ᵥ d := fun d hd => by
  rw [one_mulVec]; exact dot_self_pos hd

theorem gram_psd (W : Matrix k m 𝕜) : ∀ d : m → 𝕜, 0 ≤ d ⬝ᵥ (Wᵀ * W) *ᵥ d := fun d => by
  rw [gram_dot]; exact dot_self_nonneg _

theorem gram_pd (W : Matrix k m 𝕜) (hW : ∀ d, W *ᵥ d = 0 → d = 0) :
    ∀ d : m → 𝕜, d ≠ 0 → 0 < d ⬝ᵥ (Wᵀ * W) *ᵥ d := fun d hd => by
  rw [gram_dot]; exact dot_self_pos fun h => hd (hW d h)

theorem diagonal_symm (w : m → 𝕜) : (diagonal w)ᵀ = diagonal w := diagonal_transpose w

theorem diagonal_quad (w d : m → 𝕜) : d ⬝ᵥ (diagonal w) *ᵥ d = ∑ i, w i * (d i * d i) := by
  simp only [dotProduct, mulVec_diagonal]
  refine sum_congr rfl fun i _ => by ring

/-- a diagonal weight matrix with positive weights is PD -/
theorem diagonal_pd (w : m → 𝕜) (hw : ∀ i, 0 < w i) :
    ∀ d : m → 𝕜, d ≠ 0 → 0 < d ⬝ᵥ (diagonal w) *ᵥ d := fun d hd => by
  rw [diagonal_quad]
  obtain ⟨j, hj⟩ : ∃ j, d j ≠ 0 := by
    by_contra h; exact hd (funext fun j => by simpa using fun hh => h ⟨j, hh⟩)
  have hnn : ∀ i ∈ univ, 0 ≤ w i * (d i * d i) := fun i _ =>
    mul_nonneg (hw i).le (mul_self_nonneg _)
  have hpos : 0 < w j * (d j * d j) := mul_pos (hw j) (mul_self_pos.2 hj)
  exact lt_of_lt_of_le hpos (single_le_sum hnn (mem_univ j))

/-- PD implies PSD -/
theorem psd_of_pd {P : Matrix m m 𝕜} (hpd : ∀ d, d ≠ 0 → 0 < d ⬝ᵥ P *ᵥ d) :
    ∀ d, 0 ≤ d ⬝ᵥ P *ᵥ d := fun d => by
  by_cases hd : d = 0
  · simp [hd]
  · exact (hpd d hd).le

end Weights

-- ------------------------------------------------------------------ LS4 whitening

section Whitening
variable [DecidableEq m] [DecidableEq k]
variable {A : Matrix m n 𝕜} {b : m → 𝕜} {P : Matrix m m 𝕜} {W : Matrix k m 𝕜}

/-- residual of the whitened problem = whitened residual -/
theorem whiten_residual (W : Matrix k m 𝕜) (A : Matrix m n 𝕜) (b : m → 𝕜) (x : n → 𝕜) :
    (W * A) *ᵥ x - W *ᵥ b = W *ᵥ (A *ᵥ x - b) := by
  rw [mulVec_sub, mulVec_mulVec]

/-- **LS4** same normal matrix -/
theorem whiten_normalMatrix (hW : Wᵀ * W = P) (A : Matrix m n 𝕜) :
    (W * A)ᵀ * (1 : Matrix k k 𝕜) * (W * A) = Aᵀ * P * A := by
  rw [Matrix.mul_one, transpose_mul, ← hW]; simp only [Matrix.mul_assoc]

/-- **LS4** same gradient (left-hand side of the normal equations) -/
theorem whiten_gradient (hW : Wᵀ * W = P) (A : Matrix m n 𝕜) (b : m → 𝕜) (x : n → 𝕜) :
    (W * A)ᵀ *ᵥ ((1 : Matrix k k 𝕜) *ᵥ ((W * A) *ᵥ x - W *ᵥ b)) = Aᵀ *ᵥ (P *ᵥ (A *ᵥ x - b)) := by
  rw [one_mulVec, whiten_residual, transpose_mul, ← hW, ← mulVec_mulVec, ← mulVec_mulVec]

/-- **LS4** same normal equations -/
theorem whiten_normalEq_iff (hW : Wᵀ * W = P) (x : n → 𝕜) :
    NormalEq (W * A) (W *ᵥ b) 1 x ↔ NormalEq A b P x := by
  unfold NormalEq; rw [whiten_gradient hW]

/-- **LS4** same objective -/
theorem whiten_Phi (hW : Wᵀ * W = P) (x : n → 𝕜) :
    Phi (W * A) (W *ᵥ b) 1 x = Phi A b P x := by
  unfold Phi; rw [one_mulVec, whiten_residual, ← hW, gram_dot]

/-- **LS4**, Cholesky form: `C = L Lᵀ`, `Linv L = 1`, `C P = 1` ⇒ `W := Linv` has `Wᵀ W = P` -/
theorem whiten_of_chol {C L Linv P : Matrix m m 𝕜} (hC : C = L * Lᵀ) (hL : Linv * L = 1)
    (hP : C * P = 1) : Linvᵀ * Linv = P := by
  have hL' : L * Linv = 1 := mul_eq_one_comm.1 hL
  have h1 : Linvᵀ * Linv * C = 1 := by
    rw [hC, Matrix.mul_assoc, ← Matrix.mul_assoc Linv, hL, Matrix.one_mul, ← transpose_mul, hL',
      transpose_one]
  calc Linvᵀ * Linv = Linvᵀ * Linv * (C * P) := by rw [hP, Matrix.mul_one]
    _ = P := by rw [← Matrix.mul_assoc, h1, Matrix.one_mul]

/-- **LS4** with Mathlib's inverse: `C = L Lᵀ`, `L` invertible, `P = C⁻¹` ⇒ `(L⁻¹)ᵀ L⁻¹ = P` -/
theorem whiten_of_chol_inv {C L : Matrix m m 𝕜} (hC : C = L * Lᵀ) (hL : IsUnit L.det) :
    (L⁻¹)ᵀ * L⁻¹ = C⁻¹ := by
  have hCu : IsUnit C.det := by
    rw [hC, det_mul, det_transpose]; exact hL.mul hL
  exact whiten_of_chol hC (nonsing_inv_mul L hL) (mul_nonsing_inv C hCu)

/-- a solution of the homogenised problem `(W A, W b, 1)` is a solution of `(A, b, P)`,
    `P = Wᵀ W`, with the ORIGINAL residuals `A x − b` and the same sum of squares -/
theorem IsLSSolution.of_whitened {S : Finset n} {x : n → 𝕜} {vbar : k → 𝕜} {rtr : 𝕜}
    (hW : Wᵀ * W = P) (h : IsLSSolution (W * A) (W *ᵥ b) 1 S x vbar rtr) :
    IsLSSolution A b P S x (A *ᵥ x - b) rtr where
  res := rfl
  normal := by
    have := h.normal; rw [h.res, whiten_gradient hW] at this; exact this
  rtr_eq := by
    rw [h.rtr_eq, h.res, one_mulVec, whiten_residual, ← hW, gram_dot]
  orth := fun g hg => h.orth g (by rw [← mulVec_mulVec, hg, mulVec_zero])

/-- the homogenised residuals are the whitened residuals -/
theorem IsLSSolution.whitened_residual {S : Finset n} {x : n → 𝕜} {vbar : k → 𝕜} {rtr : 𝕜}
    (h : IsLSSolution (W * A) (W *ᵥ b) 1 S x vbar rtr) : vbar = W *ᵥ (A *ᵥ x - b) := by
  rw [h.res, whiten_residual]

/-- conversely a solution of `(A, b, WᵀW)` gives a solution of the homogenised problem, provided
    `W` is injective (so that the kernels of `A` and `W A` agree) -/
theorem IsLSSolution.to_whitened {S : Finset n} {x : n → 𝕜} {v : m → 𝕜} {rtr : 𝕜}
    (hW : Wᵀ * W = P) (hinj : ∀ d, W *ᵥ d = 0 → d = 0) (h : IsLSSolution A b P S x v rtr) :
    IsLSSolution (W * A) (W *ᵥ b) 1 S x (W *ᵥ v) rtr where
  res := by rw [h.res, whiten_residual]
  normal := by
    have := h.normal
    rw [h.res, ← whiten_gradient hW, whiten_residual] at this; rw [h.res]; exact this
  rtr_eq := by rw [h.rtr_eq, one_mulVec, ← hW, gram_dot]
  orth := fun g hg => h.orth g (hinj _ (by rw [mulVec_mulVec]; exact hg))

end Whitening

-- ------------------------------------------------------------------ LS5 permutations

section Perm
variable {m' n' : Type*} [Fintype m'] [Fintype n']
variable {A : Matrix m n 𝕜} {b : m → 𝕜} {P : Matrix m m 𝕜}

theorem perm_mulVec (A : Matrix m n 𝕜) (e₁ : m' ≃ m) (e₂ : n' ≃ n) (x : n → 𝕜) :
    (A.submatrix e₁ e₂) *ᵥ (x ∘ e₂) = (A *ᵥ x) ∘ e₁ := by
  rw [submatrix_mulVec_equiv]; congr 2; ext i; simp

/-- **LS5** residuals of the permuted problem at the permuted point -/
theorem perm_residual (A : Matrix m n 𝕜) (b : m → 𝕜) (e₁ : m' ≃ m) (e₂ : n' ≃ n) (x : n → 𝕜) :
    (A.submatrix e₁ e₂) *ᵥ (x ∘ e₂) - b ∘ e₁ = (A *ᵥ x - b) ∘ e₁ := by
  rw [perm_mulVec]; rfl

/-- **LS5** gradient of the permuted problem is the permuted gradient -/
theorem perm_gradient (A : Matrix m n 𝕜) (b : m → 𝕜) (P : Matrix m m 𝕜) (e₁ : m' ≃ m)
    (e₂ : n' ≃ n) (x : n → 𝕜) :
    (A.submatrix e₁ e₂)ᵀ *ᵥ ((P.submatrix e₁ e₁) *ᵥ ((A.submatrix e₁ e₂) *ᵥ (x ∘ e₂) - b ∘ e₁))
      = (Aᵀ *ᵥ (P *ᵥ (A *ᵥ x - b))) ∘ e₂ := by
  rw [perm_residual, perm_mulVec, transpose_submatrix, perm_mulVec]

/-- **LS5** the permuted point solves the permuted normal equations iff the point solves the
    original ones -/
theorem perm_normalEq_iff (e₁ : m' ≃ m) (e₂ : n' ≃ n) (x : n → 𝕜) :
    NormalEq (A.submatrix e₁ e₂) (b ∘ e₁) (P.submatrix e₁ e₁) (x ∘ e₂) ↔ NormalEq A b P x := by
  unfold NormalEq; rw [perm_gradient]
  constructor
  · intro h; funext j
    have := congrFun h (e₂.symm j); simpa using this
  · intro h; rw [h]; rfl

/-- **LS5** same objective -/
theorem perm_Phi (e₁ : m' ≃ m) (e₂ : n' ≃ n) (x : n → 𝕜) :
    Phi (A.submatrix e₁ e₂) (b ∘ e₁) (P.submatrix e₁ e₁) (x ∘ e₂) = Phi A b P x := by
  unfold Phi; rw [perm_residual, perm_mulVec, comp_equiv_dotProduct_comp_equiv]

/-- **LS5** same S-norm for the transported subset -/
theorem perm_normS (e₂ : n' ≃ n) (S : Finset n) (x : n → 𝕜) :
    normS (S.map e₂.symm.toEmbedding) (x ∘ e₂) = normS S x := by
  unfold normS; rw [sum_map]; simp

/-- **LS5** the solution of the permuted problem is the permuted solution (x, v, Φ) -/
theorem IsLSSolution.perm {S : Finset n} {x : n → 𝕜} {v : m → 𝕜} {rtr : 𝕜}
    (e₁ : m' ≃ m) (e₂ : n' ≃ n) (h : IsLSSolution A b P S x v rtr) :
    IsLSSolution (A.submatrix e₁ e₂) (b ∘ e₁) (P.submatrix e₁ e₁) (S.map e₂.symm.toEmbedding)
      (x ∘ e₂) (v ∘ e₁) rtr where
  res := by rw [h.res, perm_residual]
  normal := by
    have := h.normal
    rw [transpose_submatrix, perm_mulVec, perm_mulVec, this]; rfl
  rtr_eq := by rw [h.rtr_eq, perm_mulVec, comp_equiv_dotProduct_comp_equiv]
  orth := by
    intro g hg
    have hk : A *ᵥ (g ∘ e₂.symm) = 0 := by
      have h1 := perm_mulVec A e₁ e₂ (g ∘ e₂.symm)
      have h2 : (g ∘ e₂.symm) ∘ e₂ = g := by ext i; simp
      rw [h2, hg] at h1
      funext i
      have := congrFun h1 (e₁.symm i); simpa using this.symm
    have := h.orth _ hk
    rw [sum_map]; simpa using this

end Perm

-- ------------------------------------------------------------------ LS6 shift of the rhs

section Shift
variable {A : Matrix m n 𝕜} {b : m → 𝕜} {P : Matrix m m 𝕜}

/-- **LS6** `b' = b + A t`, `x' = x + t` ⇒ same residuals -/
theorem shift_residual (A : Matrix m n 𝕜) (b : m → 𝕜) (x t : n → 𝕜) :
    A *ᵥ (x + t) - (b + A *ᵥ t) = A *ᵥ x - b := by
  rw [mulVec_add]; abel

theorem shift_normalEq_iff (x t : n → 𝕜) :
    NormalEq A (b + A *ᵥ t) P (x + t) ↔ NormalEq A b P x := by
  unfold NormalEq; rw [shift_residual]

theorem shift_Phi (x t : n → 𝕜) : Phi A (b + A *ᵥ t) P (x + t) = Phi A b P x := by
  unfold Phi; rw [shift_residual]

/-- **LS6** shifted right-hand side ⇒ shifted solution, same v and rtr; side condition: the
    shift `t` is itself S-orthogonal to the kernel (e.g. it vanishes on `S`, or `ker A = 0`) -/
theorem IsLSSolution.shift {S : Finset n} {x : n → 𝕜} {v : m → 𝕜} {rtr : 𝕜} (t : n → 𝕜)
    (ht : ∀ g, A *ᵥ g = 0 → ∑ i ∈ S, t i * g i = 0) (h : IsLSSolution A b P S x v rtr) :
    IsLSSolution A (b + A *ᵥ t) P S (x + t) v rtr where
  res := by rw [h.res, shift_residual]
  normal := h.normal
  rtr_eq := h.rtr_eq
  orth := fun g hg => by
    have e : ∑ i ∈ S, (x + t) i * g i = ∑ i ∈ S, x i * g i + ∑ i ∈ S, t i * g i := by
      rw [← sum_add_distrib]; refine sum_congr rfl fun i _ => ?_
      simp only [Pi.add_apply]; ring
    rw [e, h.orth g hg, ht g hg, add_zero]

/-- **LS6** in the form of the task: `b' = b + c • A eₖ` ⇒ `x' = x + c • eₖ`, `v' = v`, `Φ' = Φ`
    when the shifted unknown `k` is not in the regularisation subset -/
theorem IsLSSolution.shift_single [DecidableEq n] {S : Finset n} {x : n → 𝕜} {v : m → 𝕜}
    {rtr : 𝕜} (kk : n) (c : 𝕜) (hk : kk ∉ S) (h : IsLSSolution A b P S x v rtr) :
    IsLSSolution A (b + c • A *ᵥ Pi.single kk 1) P S (x + c • Pi.single kk 1) v rtr := by
  have := h.shift (c • Pi.single kk 1) (fun g _ => by
    apply sum_eq_zero; intro i hi
    have : i ≠ kk := fun e => hk (e ▸ hi)
    simp [this])
  rwa [mulVec_smul] at this

end Shift

-- ------------------------------------------------------------------ LS9 scaling of the weights

section Scale
variable {A : Matrix m n 𝕜} {b : m → 𝕜} {P : Matrix m m 𝕜}

theorem scale_gradient (s : 𝕜) (x : n → 𝕜) :
    Aᵀ *ᵥ ((s ^ 2 • P) *ᵥ (A *ᵥ x - b)) = s ^ 2 • Aᵀ *ᵥ (P *ᵥ (A *ᵥ x - b)) := by
  rw [smul_mulVec, mulVec_smul]

/-- **LS9** same normal equations (hence the same solutions x, v) for `s ≠ 0` -/
theorem scale_normalEq_iff {s : 𝕜} (hs : s ≠ 0) (x : n → 𝕜) :
    NormalEq A b (s ^ 2 • P) x ↔ NormalEq A b P x := by
  unfold NormalEq; rw [scale_gradient, smul_eq_zero]
  constructor
  · rintro (h | h)
    · exact absurd ((pow_eq_zero_iff two_ne_zero).1 h) hs
    · exact h
  · exact fun h => Or.inr h

/-- **LS9** `Φ ↦ s² Φ` -/
theorem scale_Phi (s : 𝕜) (x : n → 𝕜) : Phi A b (s ^ 2 • P) x = s ^ 2 * Phi A b P x := by
  unfold Phi; rw [smul_mulVec, dotProduct_smul, smul_eq_mul]

/-- **LS9** normal matrix scales -/
theorem scale_normalMatrix (s : 𝕜) : Aᵀ * (s ^ 2 • P) * A = s ^ 2 • (Aᵀ * P * A) := by
  rw [Matrix.mul_smul, Matrix.smul_mul]

/-- **LS9** same x and v, `rtr ↦ s² rtr` -/
theorem IsLSSolution.scale {S : Finset n} {x : n → 𝕜} {v : m → 𝕜} {rtr : 𝕜} (s : 𝕜)
    (h : IsLSSolution A b P S x v rtr) : IsLSSolution A b (s ^ 2 • P) S x v (s ^ 2 * rtr) where
  res := h.res
  normal := by rw [smul_mulVec, mulVec_smul, h.normal, smul_zero]
  rtr_eq := by rw [h.rtr_eq, smul_mulVec, dotProduct_smul, smul_eq_mul]
  orth := h.orth

/-- **LS9** `Q ↦ s⁻² Q` is a reflexive g-inverse of the scaled normal matrix -/
theorem ginv_scale {N Q : Matrix n n 𝕜} {s : 𝕜} (hs : s ≠ 0) (hQ : IsReflGInv N Q) :
    IsReflGInv (s ^ 2 • N) ((s ^ 2)⁻¹ • Q) := by
  have h2 : s ^ 2 ≠ 0 := pow_ne_zero 2 hs
  constructor
  · rw [Matrix.mul_smul, Matrix.smul_mul, Matrix.smul_mul, Matrix.mul_smul, Matrix.smul_mul,
      hQ.1, smul_smul, smul_smul, mul_assoc, mul_inv_cancel₀ h2, mul_one]
  · rw [Matrix.mul_smul, Matrix.smul_mul, Matrix.smul_mul, Matrix.mul_smul, Matrix.smul_mul,
      hQ.2, smul_smul, smul_smul, mul_assoc, inv_mul_cancel₀ h2, mul_one]

/-- **LS9** hence `m₀² Q` (posterior covariance) is unchanged: `(s² φ)·(s⁻² Q) = φ·Q` -/
theorem scale_cov_invariant {Q : Matrix n n 𝕜} {s : 𝕜} (hs : s ≠ 0) (φ : 𝕜) :
    (s ^ 2 * φ) • ((s ^ 2)⁻¹ • Q) = φ • Q := by
  have h2 : s ^ 2 ≠ 0 := pow_ne_zero 2 hs
  rw [smul_smul]; congr 1; field_simp

section Ordered
variable [LinearOrder 𝕜] [IsStrictOrderedRing 𝕜]

theorem scale_pd {s : 𝕜} (hs : s ≠ 0) (hpd : ∀ d, d ≠ 0 → 0 < d ⬝ᵥ P *ᵥ d) :
    ∀ d, d ≠ 0 → 0 < d ⬝ᵥ (s ^ 2 • P) *ᵥ d := fun d hd => by
  rw [smul_mulVec, dotProduct_smul, smul_eq_mul]
  exact mul_pos (by positivity) (hpd d hd)

end Ordered
end Scale
end Gama.LS
