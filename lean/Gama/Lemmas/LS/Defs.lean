/-
  Least-squares specification layer (DESIGN §5.1) — vocabulary.

  Pure mathematics over a linearly ordered field `𝕜`, Mathlib matrices with arbitrary finite
  index types (`Fin m`, `Fin n` in the bridge).  Weight matrix `P`: symmetry (`Pᵀ = P`),
  positive semi-definiteness (`∀ d, 0 ≤ d ⬝ᵥ P *ᵥ d`) and definiteness
  (`∀ d, d ≠ 0 → 0 < d ⬝ᵥ P *ᵥ d`) are always explicit hypotheses.
-/
import Mathlib.LinearAlgebra.Matrix.DotProduct
import Mathlib.Data.Matrix.Mul
import Mathlib.Algebra.Order.Field.Basic
import Mathlib.Algebra.Order.BigOperators.Ring.Finset
import Mathlib.Tactic.Ring
import Mathlib.Tactic.Linarith
import Mathlib.Tactic.Abel

namespace Gama.LS
open Matrix Finset

set_option linter.unusedSectionVars false

variable {𝕜 : Type*} [Field 𝕜]
variable {m n : Type*} [Fintype m] [Fintype n]

/-- objective `Φ x = (A x − b)ᵀ P (A x − b)` -/
def Phi (A : Matrix m n 𝕜) (b : m → 𝕜) (P : Matrix m m 𝕜) (x : n → 𝕜) : 𝕜 :=
  (A *ᵥ x - b) ⬝ᵥ P *ᵥ (A *ᵥ x - b)

/-- normal equations `Aᵀ P (A x − b) = 0` -/
@[reducible] def NormalEq (A : Matrix m n 𝕜) (b : m → 𝕜) (P : Matrix m m 𝕜) (x : n → 𝕜) : Prop :=
  Aᵀ *ᵥ (P *ᵥ (A *ᵥ x - b)) = 0

/-- normal matrix `N = Aᵀ P A` -/
@[reducible] def normalMatrix (A : Matrix m n 𝕜) (P : Matrix m m 𝕜) : Matrix n n 𝕜 := Aᵀ * P * A

/-- squared seminorm over the regularisation subset, `Σ_{i∈S} x_i²` -/
def normS (S : Finset n) (x : n → 𝕜) : 𝕜 := ∑ i ∈ S, x i * x i

/-- `x` is `S`-orthogonal to the kernel of `A`: `∀ g, A g = 0 → Σ_{i∈S} x_i g_i = 0` -/
@[reducible] def SOrth (A : Matrix m n 𝕜) (S : Finset n) (x : n → 𝕜) : Prop :=
  ∀ g, A *ᵥ g = 0 → ∑ i ∈ S, x i * g i = 0

/-- `S` resolves the defect of `A`: a kernel vector vanishing on `S` is zero -/
@[reducible] def Resolves (A : Matrix m n 𝕜) (S : Finset n) : Prop :=
  ∀ g, A *ᵥ g = 0 → (∀ i ∈ S, g i = 0) → g = 0

/-- `Q` is a generalised inverse of `N` -/
@[reducible] def IsGInv (N Q : Matrix n n 𝕜) : Prop := N * Q * N = N

/-- `Q` is a reflexive generalised inverse of `N` -/
@[reducible] def IsReflGInv (N Q : Matrix n n 𝕜) : Prop := N * Q * N = N ∧ Q * N * Q = Q

-- ------------------------------------------------------------------ elementary identities

theorem dot_mulVec_symm {P : Matrix m m 𝕜} (hP : Pᵀ = P) (u w : m → 𝕜) :
    u ⬝ᵥ P *ᵥ w = w ⬝ᵥ P *ᵥ u :=
  calc u ⬝ᵥ P *ᵥ w = (u ᵥ* P) ⬝ᵥ w := dotProduct_mulVec _ _ _
    _ = (u ᵥ* Pᵀ) ⬝ᵥ w := by rw [hP]
    _ = (P *ᵥ u) ⬝ᵥ w := by rw [vecMul_transpose]
    _ = w ⬝ᵥ P *ᵥ u := dotProduct_comm _ _

/-- `(A d) · z = d · (Aᵀ z)` -/
theorem mulVec_dot (A : Matrix m n 𝕜) (d : n → 𝕜) (z : m → 𝕜) :
    (A *ᵥ d) ⬝ᵥ z = d ⬝ᵥ Aᵀ *ᵥ z := by
  rw [dotProduct_mulVec, vecMul_transpose]

theorem quad_add {P : Matrix m m 𝕜} (hP : Pᵀ = P) (u w : m → 𝕜) :
    (u + w) ⬝ᵥ P *ᵥ (u + w) = u ⬝ᵥ P *ᵥ u + 2 * (w ⬝ᵥ P *ᵥ u) + w ⬝ᵥ P *ᵥ w := by
  rw [mulVec_add, add_dotProduct, dotProduct_add, dotProduct_add, dot_mulVec_symm hP u w]; ring

/-- second-order expansion of the objective around `x` -/
theorem Phi_add (A : Matrix m n 𝕜) (b : m → 𝕜) {P : Matrix m m 𝕜} (hP : Pᵀ = P) (x d : n → 𝕜) :
    Phi A b P (x + d) = Phi A b P x + 2 * (d ⬝ᵥ Aᵀ *ᵥ (P *ᵥ (A *ᵥ x - b)))
      + (A *ᵥ d) ⬝ᵥ P *ᵥ (A *ᵥ d) := by
  have h : A *ᵥ (x + d) - b = (A *ᵥ x - b) + A *ᵥ d := by rw [mulVec_add]; abel
  unfold Phi
  rw [h, quad_add hP, mulVec_dot]

theorem normS_add (S : Finset n) (x g : n → 𝕜) :
    normS S (x + g) = normS S x + 2 * (∑ i ∈ S, x i * g i) + normS S g := by
  unfold normS
  rw [mul_sum, ← sum_add_distrib, ← sum_add_distrib]
  refine sum_congr rfl fun i _ => ?_
  simp only [Pi.add_apply]; ring

theorem normS_smul (S : Finset n) (t : 𝕜) (g : n → 𝕜) : normS S (t • g) = t ^ 2 * normS S g := by
  unfold normS
  rw [mul_sum]
  refine sum_congr rfl fun i _ => ?_
  simp only [Pi.smul_apply, smul_eq_mul]; ring

section Ordered
variable [LinearOrder 𝕜] [IsStrictOrderedRing 𝕜]

theorem dot_self_nonneg (v : n → 𝕜) : 0 ≤ v ⬝ᵥ v :=
  sum_nonneg fun i _ => mul_self_nonneg (v i)

theorem dot_self_pos {v : n → 𝕜} (hv : v ≠ 0) : 0 < v ⬝ᵥ v :=
  lt_of_le_of_ne (dot_self_nonneg v) fun h => hv (dotProduct_self_eq_zero.1 h.symm)

theorem normS_nonneg (S : Finset n) (x : n → 𝕜) : 0 ≤ normS S x :=
  sum_nonneg fun i _ => mul_self_nonneg (x i)

theorem normS_eq_zero {S : Finset n} {x : n → 𝕜} (h : normS S x = 0) : ∀ i ∈ S, x i = 0 := by
  intro i hi
  have := (sum_eq_zero_iff_of_nonneg (fun i _ => mul_self_nonneg (x i))).1 h i hi
  exact mul_self_eq_zero.1 this

/-- a quadratic `2 t c + t² q` with `q ≥ 0` that is non-negative for every `t` has `c = 0`
    (the perturbation argument of LS1 "←" and LS3 "→") -/
theorem eq_zero_of_forall_quad_nonneg {c q : 𝕜} (hq : 0 ≤ q)
    (h : ∀ t : 𝕜, 0 ≤ 2 * t * c + t ^ 2 * q) : c = 0 := by
  by_contra hc
  have hq1 : 0 < q + 1 := by linarith
  have hs : 0 < (q + 1)⁻¹ := inv_pos.2 hq1
  have h1 := h (-c * (q + 1)⁻¹)
  have hc2 : 0 < c ^ 2 := by positivity
  have hsq : (q + 1)⁻¹ * q < 1 := by
    rw [inv_mul_lt_iff₀ hq1]; linarith
  have e : 2 * (-c * (q + 1)⁻¹) * c + (-c * (q + 1)⁻¹) ^ 2 * q
      = c ^ 2 * (q + 1)⁻¹ * ((q + 1)⁻¹ * q - 2) := by ring
  rw [e] at h1
  have : c ^ 2 * (q + 1)⁻¹ * ((q + 1)⁻¹ * q - 2) < 0 :=
    mul_neg_of_pos_of_neg (mul_pos hc2 hs) (by linarith)
  linarith

end Ordered
end Gama.LS
