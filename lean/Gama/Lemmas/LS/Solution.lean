/-
  `IsLSSolution` — the single predicate a solver model has to establish for its output —
  and its consequences (C01 / C02 / C08 statements as corollaries of LS1, LS2, LS3, LS7).
  Mathlib only (no model import); `Lemmas/LS/Bridge.lean` connects it to `Gama.Ls.Problem`.
-/
import Gama.Lemmas.LS.Basic

namespace Gama.LS
open Matrix Finset

set_option linter.unusedSectionVars false

variable {𝕜 : Type*} [Field 𝕜]
variable {m n : Type*} [Fintype m] [Fintype n]

/-- `(x, v, rtr)` is a weighted least-squares solution of `(A, b, P)` regularised over `S`:
    residual definition, normal equations, reported sum of squares, and the second criterion
    in its first-order form (x is S-orthogonal to the kernel of A). -/
structure IsLSSolution (A : Matrix m n 𝕜) (b : m → 𝕜) (P : Matrix m m 𝕜) (S : Finset n)
    (x : n → 𝕜) (v : m → 𝕜) (rtr : 𝕜) : Prop where
  res : v = A *ᵥ x - b
  normal : Aᵀ *ᵥ (P *ᵥ v) = 0
  rtr_eq : rtr = v ⬝ᵥ P *ᵥ v
  orth : ∀ g, A *ᵥ g = 0 → ∑ i ∈ S, x i * g i = 0

namespace IsLSSolution
variable {A : Matrix m n 𝕜} {b : m → 𝕜} {P : Matrix m m 𝕜} {S S' : Finset n}
variable {x x' : n → 𝕜} {v v' : m → 𝕜} {rtr rtr' : 𝕜}

/-- alternative constructor: normal equations in the form `N x = Aᵀ P b` -/
theorem of_normal_matrix (hN : (Aᵀ * P * A) *ᵥ x = Aᵀ *ᵥ (P *ᵥ b))
    (horth : ∀ g, A *ᵥ g = 0 → ∑ i ∈ S, x i * g i = 0) :
    IsLSSolution A b P S x (A *ᵥ x - b) ((A *ᵥ x - b) ⬝ᵥ P *ᵥ (A *ᵥ x - b)) where
  res := rfl
  normal := by
    rw [mulVec_sub, mulVec_sub, ← hN, mulVec_mulVec, mulVec_mulVec, sub_self]
  rtr_eq := rfl
  orth := horth

/-- alternative constructor when `A` has trivial kernel (regular case): no second criterion -/
theorem of_regular (hker : ∀ g, A *ᵥ g = 0 → g = 0) (hres : v = A *ᵥ x - b)
    (hn : Aᵀ *ᵥ (P *ᵥ v) = 0) (hr : rtr = v ⬝ᵥ P *ᵥ v) : IsLSSolution A b P S x v rtr where
  res := hres
  normal := hn
  rtr_eq := hr
  orth := fun g hg => by rw [hker g hg]; simp

/-- second criterion from a spanning family of the kernel: it suffices to be S-orthogonal
    to the columns of a matrix `G` whose range contains `ker A` -/
theorem orth_of_span {k : Type*} [Fintype k] (G : Matrix n k 𝕜)
    (hspan : ∀ g, A *ᵥ g = 0 → ∃ c, g = G *ᵥ c)
    (hG : ∀ j, ∑ i ∈ S, x i * G i j = 0) :
    ∀ g, A *ᵥ g = 0 → ∑ i ∈ S, x i * g i = 0 := by
  intro g hg
  obtain ⟨c, rfl⟩ := hspan g hg
  have : ∑ i ∈ S, x i * (G *ᵥ c) i = ∑ j, c j * ∑ i ∈ S, x i * G i j := by
    simp only [mulVec, dotProduct, mul_sum]
    rw [sum_comm]
    refine sum_congr rfl fun j _ => sum_congr rfl fun i _ => by ring
  rw [this]; simp [hG]

theorem normalEq (h : IsLSSolution A b P S x v rtr) : NormalEq A b P x := by
  have := h.normal; rwa [h.res] at this

theorem rtr_eq_Phi (h : IsLSSolution A b P S x v rtr) : rtr = Phi A b P x := by
  rw [h.rtr_eq, h.res]; rfl

section Ordered
variable [LinearOrder 𝕜] [IsStrictOrderedRing 𝕜]

/-- **C01** the objective is minimal at `x` (LS1) -/
theorem minimal (h : IsLSSolution A b P S x v rtr) (hP : Pᵀ = P)
    (hpsd : ∀ d, 0 ≤ d ⬝ᵥ P *ᵥ d) : ∀ y, Phi A b P x ≤ Phi A b P y :=
  normal_eq_min hP hpsd h.normalEq

/-- the reported sum of squares is the minimum of the objective -/
theorem rtr_minimal (h : IsLSSolution A b P S x v rtr) (hP : Pᵀ = P)
    (hpsd : ∀ d, 0 ≤ d ⬝ᵥ P *ᵥ d) : ∀ y, rtr ≤ Phi A b P y := by
  rw [h.rtr_eq_Phi]; exact h.minimal hP hpsd

/-- **C01** among all solutions of the normal equations `x` has minimal S-norm (LS3) -/
theorem min_norm (h : IsLSSolution A b P S x v rtr) (hpd : ∀ d, d ≠ 0 → 0 < d ⬝ᵥ P *ᵥ d) :
    ∀ y, NormalEq A b P y → normS S x ≤ normS S y :=
  sorth_min_norm hpd h.normalEq h.orth

/-- among all minimisers of the objective `x` has minimal S-norm (LS1 + LS3) -/
theorem min_norm_among_minimisers (h : IsLSSolution A b P S x v rtr) (hP : Pᵀ = P)
    (hpd : ∀ d, d ≠ 0 → 0 < d ⬝ᵥ P *ᵥ d) :
    ∀ y, (∀ z, Phi A b P y ≤ Phi A b P z) → normS S x ≤ normS S y := by
  have hpsd : ∀ d, 0 ≤ d ⬝ᵥ P *ᵥ d := fun d => by
    by_cases hd : d = 0
    · simp [hd]
    · exact (hpd d hd).le
  exact fun y hy => h.min_norm hpd y (min_normal_eq hP hpsd hy)

/-- **C01/C02** if `S` resolves the defect the solution is unique: any two `IsLSSolution`s of the
    same problem (e.g. the outputs of two algorithms) coincide in x, v and rtr (LS3) -/
theorem unique (h : IsLSSolution A b P S x v rtr) (h' : IsLSSolution A b P S x' v' rtr')
    (hpd : ∀ d, d ≠ 0 → 0 < d ⬝ᵥ P *ᵥ d) (hS : Resolves A S) :
    x = x' ∧ v = v' ∧ rtr = rtr' := by
  have hx := sorth_unique hpd hS h.normalEq h'.normalEq h.orth h'.orth
  have hv : v = v' := by rw [h.res, h'.res, hx]
  exact ⟨hx, hv, by rw [h.rtr_eq, h'.rtr_eq, hv]⟩

/-- **C08** (LS7) solutions for two regularisation subsets: same adjusted observations -/
theorem adjusted_obs_eq (h : IsLSSolution A b P S x v rtr) (h' : IsLSSolution A b P S' x' v' rtr')
    (hpd : ∀ d, d ≠ 0 → 0 < d ⬝ᵥ P *ᵥ d) : A *ᵥ x = A *ᵥ x' :=
  normal_eq_mulVec_eq hpd h.normalEq h'.normalEq

/-- **C08** same residuals -/
theorem residuals_eq (h : IsLSSolution A b P S x v rtr) (h' : IsLSSolution A b P S' x' v' rtr')
    (hpd : ∀ d, d ≠ 0 → 0 < d ⬝ᵥ P *ᵥ d) : v = v' := by
  rw [h.res, h'.res, h.adjusted_obs_eq h' hpd]

/-- **C08** same sum of squares -/
theorem rtr_eq_rtr (h : IsLSSolution A b P S x v rtr) (h' : IsLSSolution A b P S' x' v' rtr')
    (hpd : ∀ d, d ≠ 0 → 0 < d ⬝ᵥ P *ᵥ d) : rtr = rtr' := by
  rw [h.rtr_eq, h'.rtr_eq, h.residuals_eq h' hpd]

/-- **C08** the two solutions differ by a kernel vector (a datum transformation) -/
theorem sub_mem_ker (h : IsLSSolution A b P S x v rtr) (h' : IsLSSolution A b P S' x' v' rtr')
    (hpd : ∀ d, d ≠ 0 → 0 < d ⬝ᵥ P *ᵥ d) : A *ᵥ (x - x') = 0 :=
  normal_eq_sub_mem_ker hpd h'.normalEq h.normalEq

end Ordered
end IsLSSolution
end Gama.LS
