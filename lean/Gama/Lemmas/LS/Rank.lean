/-
  LS10 and the rank form of LS8:
    `rank_add_nullity`     rank A + dim ker A = n
    `dof_bookkeeping`      m − n + dim ker A = m − rank A            (in ℤ)
    `trace_idempotent`     trace M = rank M for an idempotent matrix
    `proj_trace_eq_rank`   trace (A Q Aᵀ P) = rank A for any g-inverse Q of N = AᵀPA (P PD)
    `hat_trace_eq_rank`    trace (A Q Aᵀ) = rank A                   (unit weights)
    `redundancy_sum`       Σ_i (1 − Π_ii) = m − rank A
-/
import Gama.Lemmas.LS.GInverse
import Mathlib.LinearAlgebra.Matrix.Rank
import Mathlib.LinearAlgebra.Trace
import Mathlib.LinearAlgebra.FiniteDimensional.Lemmas

namespace Gama.LS
open Matrix Finset Module

set_option linter.unusedSectionVars false

variable {𝕜 : Type*} [Field 𝕜]
variable {m n : Type*} [Fintype m] [Fintype n]

/-- dimension of the kernel `{g | A g = 0}` (the defect) -/
noncomputable def nullity (A : Matrix m n 𝕜) : ℕ := finrank 𝕜 (LinearMap.ker A.mulVecLin)

theorem mem_ker_iff (A : Matrix m n 𝕜) (g : n → 𝕜) :
    g ∈ LinearMap.ker A.mulVecLin ↔ A *ᵥ g = 0 := by
  rw [LinearMap.mem_ker, mulVecLin_apply]

/-- **LS10** rank–nullity for the design matrix -/
theorem rank_add_nullity (A : Matrix m n 𝕜) : A.rank + nullity A = Fintype.card n := by
  unfold Matrix.rank nullity
  rw [LinearMap.finrank_range_add_finrank_ker, finrank_fintype_fun_eq_card]

/-- **LS10** degrees of freedom: `m − n + defect = m − rank A` -/
theorem dof_bookkeeping (A : Matrix m n 𝕜) :
    (Fintype.card m : ℤ) - Fintype.card n + nullity A = Fintype.card m - A.rank := by
  have := rank_add_nullity A
  omega

/-- trivial kernel ⇔ nullity 0 -/
theorem nullity_eq_zero_iff (A : Matrix m n 𝕜) :
    nullity A = 0 ↔ ∀ g, A *ᵥ g = 0 → g = 0 := by
  unfold nullity
  rw [Submodule.finrank_eq_zero, LinearMap.ker_eq_bot']
  simp only [mulVecLin_apply]

variable [DecidableEq m]

/-- trace of an idempotent matrix is its rank -/
theorem trace_idempotent {M : Matrix m m 𝕜} (hM : M * M = M) : trace M = (M.rank : 𝕜) := by
  have hid : IsIdempotentElem (Matrix.toLin' M) := by
    unfold IsIdempotentElem
    rw [Module.End.mul_eq_comp, ← Matrix.toLin'_mul, hM]
  have hp := (LinearMap.isProj_range_iff_isIdempotentElem _).2 hid
  have := hp.trace
  rw [Matrix.trace_toLin'_eq] at this
  rw [this, Matrix.rank, Matrix.toLin'_apply']

section Ordered
variable [LinearOrder 𝕜] [IsStrictOrderedRing 𝕜]
variable {A : Matrix m n 𝕜} {P : Matrix m m 𝕜} {Q : Matrix n n 𝕜}

/-- the projector has the rank of A -/
theorem proj_rank (hpd : ∀ d, d ≠ 0 → 0 < d ⬝ᵥ P *ᵥ d)
    (hQ : (Aᵀ * P * A) * Q * (Aᵀ * P * A) = Aᵀ * P * A) : (A * Q * Aᵀ * P).rank = A.rank := by
  apply le_antisymm
  · have : A * Q * Aᵀ * P = A * (Q * Aᵀ * P) := by simp only [Matrix.mul_assoc]
    rw [this]; exact rank_mul_le_left _ _
  · conv_lhs => rw [← proj_mul_A hpd hQ]
    exact rank_mul_le_left _ _

/-- **LS8** `trace (A Q Aᵀ P) = rank A` for every g-inverse Q of `N = Aᵀ P A`, P PD -/
theorem proj_trace_eq_rank (hpd : ∀ d, d ≠ 0 → 0 < d ⬝ᵥ P *ᵥ d)
    (hQ : (Aᵀ * P * A) * Q * (Aᵀ * P * A) = Aᵀ * P * A) :
    trace (A * Q * Aᵀ * P) = (A.rank : 𝕜) := by
  rw [trace_idempotent (proj_idempotent' hpd hQ), proj_rank hpd hQ]

/-- **LS8** `trace (Q N) = rank A` -/
theorem trace_qn_eq_rank (hpd : ∀ d, d ≠ 0 → 0 < d ⬝ᵥ P *ᵥ d)
    (hQ : (Aᵀ * P * A) * Q * (Aᵀ * P * A) = Aᵀ * P * A) :
    trace (Q * (Aᵀ * P * A)) = (A.rank : 𝕜) := by
  rw [← proj_trace, proj_trace_eq_rank hpd hQ]

/-- **LS8 / C03** unit weights: `trace Π = rank A` -/
theorem hat_trace_eq_rank (hQ : (Aᵀ * A) * Q * (Aᵀ * A) = Aᵀ * A) :
    trace (A * Q * Aᵀ) = (A.rank : 𝕜) := by
  have hQ' : (Aᵀ * (1 : Matrix m m 𝕜) * A) * Q * (Aᵀ * (1 : Matrix m m 𝕜) * A)
      = Aᵀ * (1 : Matrix m m 𝕜) * A := by
    simpa only [Matrix.mul_one] using hQ
  have := proj_trace_eq_rank (P := (1 : Matrix m m 𝕜)) one_pd hQ'
  simpa only [Matrix.mul_one] using this

/-- **LS8 / C03** redundancy numbers sum to the degrees of freedom: `Σ (1 − Π_ii) = m − rank A` -/
theorem redundancy_sum (hQ : (Aᵀ * A) * Q * (Aᵀ * A) = Aᵀ * A) :
    ∑ i, (1 - (A * Q * Aᵀ) i i) = (Fintype.card m : 𝕜) - (A.rank : 𝕜) := by
  rw [sum_sub_distrib, ← hat_trace_eq_rank hQ]
  simp [Matrix.trace]

/-- **C03** redundancy in the form `m − n + defect` -/
theorem redundancy_sum' (hQ : (Aᵀ * A) * Q * (Aᵀ * A) = Aᵀ * A) :
    ∑ i, (1 - (A * Q * Aᵀ) i i)
      = (Fintype.card m : 𝕜) - (Fintype.card n : 𝕜) + (nullity A : 𝕜) := by
  rw [redundancy_sum hQ, ← rank_add_nullity A]; push_cast; ring

end Ordered
end Gama.LS
