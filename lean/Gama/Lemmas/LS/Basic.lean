/-
  LS1 (normal equations ⇔ minimum), LS2 (solutions of the normal equations differ by kernel
  vectors), LS3 (minimum S-norm ⇔ S-orthogonal to the kernel; uniqueness when S resolves the
  defect), LS7 (two resolving subsets: same A x, v, Φ; difference in the kernel).
-/
import Gama.Lemmas.LS.Defs

namespace Gama.LS
open Matrix Finset

set_option linter.unusedSectionVars false

variable {𝕜 : Type*} [Field 𝕜] [LinearOrder 𝕜] [IsStrictOrderedRing 𝕜]
variable {m n : Type*} [Fintype m] [Fintype n]
variable {A : Matrix m n 𝕜} {b : m → 𝕜} {P : Matrix m m 𝕜}

-- ------------------------------------------------------------------ LS1

/-- LS1 "→": a solution of the normal equations minimises Φ (P symmetric PSD) -/
theorem normal_eq_min (hP : Pᵀ = P) (hpsd : ∀ d, 0 ≤ d ⬝ᵥ P *ᵥ d) {x : n → 𝕜}
    (h : NormalEq A b P x) : ∀ y, Phi A b P x ≤ Phi A b P y := by
  intro y
  have e : y = x + (y - x) := by abel
  rw [e, Phi_add A b hP, h, dotProduct_zero]
  have := hpsd (A *ᵥ (y - x))
  linarith

/-- LS1 "←": a minimiser of Φ solves the normal equations (perturbation along `Aᵀ P v`) -/
theorem min_normal_eq (hP : Pᵀ = P) (hpsd : ∀ d, 0 ≤ d ⬝ᵥ P *ᵥ d) {x : n → 𝕜}
    (h : ∀ y, Phi A b P x ≤ Phi A b P y) : NormalEq A b P x := by
  set g := Aᵀ *ᵥ (P *ᵥ (A *ᵥ x - b)) with hg
  have hgg : g ⬝ᵥ g = 0 := by
    apply eq_zero_of_forall_quad_nonneg (hpsd (A *ᵥ g))
    intro t
    have h1 := h (x + t • g)
    rw [Phi_add A b hP, ← hg, smul_dotProduct, mulVec_smul, mulVec_smul, smul_dotProduct,
      dotProduct_smul, smul_eq_mul, smul_eq_mul, smul_eq_mul] at h1
    nlinarith [h1]
  exact dotProduct_self_eq_zero.1 hgg

/-- **LS1** `Aᵀ P (A x − b) = 0 ↔ ∀ y, Φ x ≤ Φ y` -/
theorem normal_eq_iff_min (hP : Pᵀ = P) (hpsd : ∀ d, 0 ≤ d ⬝ᵥ P *ᵥ d) (x : n → 𝕜) :
    Aᵀ *ᵥ (P *ᵥ (A *ᵥ x - b)) = 0 ↔ ∀ y, Phi A b P x ≤ Phi A b P y :=
  ⟨normal_eq_min hP hpsd, min_normal_eq hP hpsd⟩

-- ------------------------------------------------------------------ LS2

/-- for PD `P`: `Aᵀ P A d = 0 → A d = 0` -/
theorem mulVec_eq_zero_of_normal (hpd : ∀ d, d ≠ 0 → 0 < d ⬝ᵥ P *ᵥ d) {d : n → 𝕜}
    (h : Aᵀ *ᵥ (P *ᵥ (A *ᵥ d)) = 0) : A *ᵥ d = 0 := by
  by_contra hne
  have h1 := hpd _ hne
  rw [mulVec_dot, h, dotProduct_zero] at h1
  exact lt_irrefl _ h1

/-- **LS2** two solutions of the normal equations (P PD) give the same adjusted observations -/
theorem normal_eq_mulVec_eq (hpd : ∀ d, d ≠ 0 → 0 < d ⬝ᵥ P *ᵥ d) {x y : n → 𝕜}
    (hx : NormalEq A b P x) (hy : NormalEq A b P y) : A *ᵥ x = A *ᵥ y := by
  have h : Aᵀ *ᵥ (P *ᵥ (A *ᵥ (y - x))) = 0 := by
    have e : A *ᵥ (y - x) = (A *ᵥ y - b) - (A *ᵥ x - b) := by rw [mulVec_sub]; abel
    rw [e, mulVec_sub, mulVec_sub, hx, hy, sub_zero]
  have := mulVec_eq_zero_of_normal hpd h
  rw [mulVec_sub, sub_eq_zero] at this
  exact this.symm

/-- LS2: the difference lies in the kernel -/
theorem normal_eq_sub_mem_ker (hpd : ∀ d, d ≠ 0 → 0 < d ⬝ᵥ P *ᵥ d) {x y : n → 𝕜}
    (hx : NormalEq A b P x) (hy : NormalEq A b P y) : A *ᵥ (y - x) = 0 := by
  rw [mulVec_sub, normal_eq_mulVec_eq hpd hx hy, sub_self]

/-- LS2: equal residuals -/
theorem normal_eq_residual_eq (hpd : ∀ d, d ≠ 0 → 0 < d ⬝ᵥ P *ᵥ d) {x y : n → 𝕜}
    (hx : NormalEq A b P x) (hy : NormalEq A b P y) : A *ᵥ x - b = A *ᵥ y - b := by
  rw [normal_eq_mulVec_eq hpd hx hy]

/-- LS2: equal objective -/
theorem normal_eq_Phi_eq (hpd : ∀ d, d ≠ 0 → 0 < d ⬝ᵥ P *ᵥ d) {x y : n → 𝕜}
    (hx : NormalEq A b P x) (hy : NormalEq A b P y) : Phi A b P x = Phi A b P y := by
  unfold Phi; rw [normal_eq_mulVec_eq hpd hx hy]

/-- the set of solutions of the normal equations is `x + ker A` (no definiteness needed for ⊇) -/
theorem normalEq_add_ker {x g : n → 𝕜} (hx : NormalEq A b P x) (hg : A *ᵥ g = 0) :
    NormalEq A b P (x + g) := by
  unfold NormalEq at *
  rw [mulVec_add, hg, add_zero]; exact hx

-- ------------------------------------------------------------------ LS3

/-- LS3 "←": S-orthogonal to the kernel ⇒ minimal S-norm among the solutions -/
theorem sorth_min_norm (hpd : ∀ d, d ≠ 0 → 0 < d ⬝ᵥ P *ᵥ d) {S : Finset n} {x : n → 𝕜}
    (hx : NormalEq A b P x) (ho : SOrth A S x) :
    ∀ y, NormalEq A b P y → normS S x ≤ normS S y := by
  intro y hy
  have e : y = x + (y - x) := by abel
  rw [e, normS_add, ho _ (normal_eq_sub_mem_ker hpd hx hy)]
  have := normS_nonneg S (y - x)
  linarith

/-- LS3 "→": minimal S-norm among the solutions ⇒ S-orthogonal to the kernel
    (needs no definiteness: `x + t g` is a solution for every kernel vector `g`) -/
theorem min_norm_sorth {S : Finset n} {x : n → 𝕜} (hx : NormalEq A b P x)
    (h : ∀ y, NormalEq A b P y → normS S x ≤ normS S y) : SOrth A S x := by
  intro g hg
  apply eq_zero_of_forall_quad_nonneg (normS_nonneg S g)
  intro t
  have hk : A *ᵥ (t • g) = 0 := by rw [mulVec_smul, hg, smul_zero]
  have h1 := h _ (normalEq_add_ker hx hk)
  rw [normS_add, normS_smul] at h1
  have e : ∑ i ∈ S, x i * (t • g) i = t * ∑ i ∈ S, x i * g i := by
    rw [mul_sum]; refine sum_congr rfl fun i _ => ?_
    simp only [Pi.smul_apply, smul_eq_mul]; ring
  rw [e] at h1
  nlinarith [h1]

/-- **LS3** among the solutions of the normal equations, `x` has minimal S-norm iff it is
    S-orthogonal to the kernel of `A` -/
theorem min_norm_iff_sorth (hpd : ∀ d, d ≠ 0 → 0 < d ⬝ᵥ P *ᵥ d) (S : Finset n) {x : n → 𝕜}
    (hx : NormalEq A b P x) :
    (∀ y, NormalEq A b P y → normS S x ≤ normS S y) ↔
      ∀ g, A *ᵥ g = 0 → ∑ i ∈ S, x i * g i = 0 :=
  ⟨min_norm_sorth hx, sorth_min_norm hpd hx⟩

/-- LS3 uniqueness: if `S` resolves the defect, two S-orthogonal solutions coincide -/
theorem sorth_unique (hpd : ∀ d, d ≠ 0 → 0 < d ⬝ᵥ P *ᵥ d) {S : Finset n}
    (hS : Resolves A S) {x y : n → 𝕜} (hx : NormalEq A b P x) (hy : NormalEq A b P y)
    (hox : SOrth A S x) (hoy : SOrth A S y) : x = y := by
  have hk := normal_eq_sub_mem_ker hpd hx hy
  have h0 : normS S (y - x) = 0 := by
    unfold normS
    have e : ∑ i ∈ S, (y - x) i * (y - x) i
        = ∑ i ∈ S, y i * (y - x) i - ∑ i ∈ S, x i * (y - x) i := by
      rw [← sum_sub_distrib]; refine sum_congr rfl fun i _ => ?_
      simp only [Pi.sub_apply]; ring
    rw [e, hox _ hk, hoy _ hk, sub_zero]
  have := hS _ hk (normS_eq_zero h0)
  exact (sub_eq_zero.1 this).symm

/-- LS3 uniqueness, minimiser form -/
theorem min_norm_unique (hpd : ∀ d, d ≠ 0 → 0 < d ⬝ᵥ P *ᵥ d) {S : Finset n}
    (hS : Resolves A S) {x y : n → 𝕜} (hx : NormalEq A b P x) (hy : NormalEq A b P y)
    (hmx : ∀ z, NormalEq A b P z → normS S x ≤ normS S z)
    (hmy : ∀ z, NormalEq A b P z → normS S y ≤ normS S z) : x = y :=
  sorth_unique hpd hS hx hy (min_norm_sorth hx hmx) (min_norm_sorth hy hmy)

/-- when `A` has trivial kernel every subset resolves the defect and S-orthogonality is vacuous -/
theorem resolves_of_ker_trivial (h : ∀ g, A *ᵥ g = 0 → g = 0) (S : Finset n) : Resolves A S :=
  fun g hg _ => h g hg

/-- `univ` always resolves the defect -/
theorem resolves_univ : Resolves A (Finset.univ : Finset n) :=
  fun _ _ h => funext fun i => h i (mem_univ i)

/-- a superset of a resolving subset resolves -/
theorem Resolves.mono {S T : Finset n} (h : Resolves A S) (hST : S ⊆ T) : Resolves A T :=
  fun g hg hT => h g hg fun i hi => hT i (hST hi)

-- ------------------------------------------------------------------ LS7

/-- **LS7** two solutions of the normal equations belonging to two regularisation subsets
    (nothing about the subsets is needed for the invariants): same adjusted observations,
    residuals, objective; the difference is a kernel vector -/
theorem datum_invariance (hpd : ∀ d, d ≠ 0 → 0 < d ⬝ᵥ P *ᵥ d) {x x' : n → 𝕜}
    (hx : NormalEq A b P x) (hx' : NormalEq A b P x') :
    A *ᵥ x = A *ᵥ x' ∧ A *ᵥ x - b = A *ᵥ x' - b ∧ Phi A b P x = Phi A b P x'
      ∧ A *ᵥ (x - x') = 0 :=
  ⟨normal_eq_mulVec_eq hpd hx hx', normal_eq_residual_eq hpd hx hx',
   normal_eq_Phi_eq hpd hx hx', normal_eq_sub_mem_ker hpd hx' hx⟩

end Gama.LS
