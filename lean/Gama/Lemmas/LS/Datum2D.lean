/-
  Geometric reading of the kernel for a 2D distance network (C08, B-level).

  Unknowns are indexed by (point, coordinate) with coordinate `0 = x`, `1 = y`.  The row of a
  distance observation `from → to` produced by the linearisation (Gen/Linearization.lean,
  `distance`: pushes `-cos s, -sin s` at `from` and `cos s, sin s` at `to`, `s` the bearing) has
  the coefficients `(-c, -s)` at `from` and `(c, s)` at `to` with `(c, s)` parallel to
  `(Δx, Δy)`; only this shape is used: `c * Δy = s * Δx`.

  The kernel of every such design matrix contains the two translations and the infinitesimal
  rotation; so "x_S − x_S′ ∈ ker A" (C08_difference_in_kernel) means that two datum choices
  differ by an infinitesimal rigid motion (plus whatever else the configuration leaves free).
-/
import Gama.Lemmas.LS.Defs
import Mathlib.Algebra.BigOperators.Fin
import Mathlib.Algebra.BigOperators.Pi
import Mathlib.Tactic.LinearCombination

namespace Gama.LS.Datum2D
open Matrix Finset

set_option linter.unusedSectionVars false

variable {𝕜 : Type*} [Field 𝕜]
variable {ι κ : Type*} [Fintype ι] [DecidableEq ι] [Fintype κ]

/-- design matrix of a distance network: observation `k` joins `(obs k).1 → (obs k).2` and has the
    direction coefficients `cs k = (c, s)` -/
def distDesign (obs : κ → ι × ι) (cs : κ → 𝕜 × 𝕜) : Matrix κ (ι × Fin 2) 𝕜 :=
  Matrix.of fun k pa =>
    (if pa.1 = (obs k).2 then (if pa.2 = 0 then (cs k).1 else (cs k).2) else 0)
      - (if pa.1 = (obs k).1 then (if pa.2 = 0 then (cs k).1 else (cs k).2) else 0)

/-- a row applied to a vector of coordinate corrections: `c (δx_to − δx_from) + s (δy_to − δy_from)` -/
theorem distDesign_mulVec (obs : κ → ι × ι) (cs : κ → 𝕜 × 𝕜) (g : ι × Fin 2 → 𝕜) (k : κ) :
    (distDesign obs cs *ᵥ g) k
      = (cs k).1 * (g ((obs k).2, 0) - g ((obs k).1, 0))
        + (cs k).2 * (g ((obs k).2, 1) - g ((obs k).1, 1)) := by
  simp only [mulVec, dotProduct, distDesign, of_apply, Fintype.sum_prod_type, Fin.sum_univ_two,
    sub_mul, ite_mul, zero_mul, sum_add_distrib, sum_sub_distrib, sum_ite_eq', mem_univ, if_true]
  have h10 : ((1 : Fin 2) = 0) = False := by simp
  simp only [h10, if_false]
  ring

/-- translation along x -/
def transX : ι × Fin 2 → 𝕜 := fun pa => if pa.2 = 0 then 1 else 0
/-- translation along y -/
def transY : ι × Fin 2 → 𝕜 := fun pa => if pa.2 = 0 then 0 else 1
/-- infinitesimal rotation about the origin at the approximate coordinates `pts` -/
def rot (pts : ι → 𝕜 × 𝕜) : ι × Fin 2 → 𝕜 := fun pa => if pa.2 = 0 then -(pts pa.1).2 else (pts pa.1).1

theorem transX_mem_ker (obs : κ → ι × ι) (cs : κ → 𝕜 × 𝕜) :
    distDesign obs cs *ᵥ (transX : ι × Fin 2 → 𝕜) = 0 := by
  funext k; rw [distDesign_mulVec]; simp [transX]

theorem transY_mem_ker (obs : κ → ι × ι) (cs : κ → 𝕜 × 𝕜) :
    distDesign obs cs *ᵥ (transY : ι × Fin 2 → 𝕜) = 0 := by
  funext k; rw [distDesign_mulVec]; simp [transY]

/-- the rotation is a kernel vector as soon as every row's `(c, s)` is parallel to `(Δx, Δy)` -/
theorem rot_mem_ker (pts : ι → 𝕜 × 𝕜) (obs : κ → ι × ι) (cs : κ → 𝕜 × 𝕜)
    (hpar : ∀ k, (cs k).1 * ((pts (obs k).2).2 - (pts (obs k).1).2)
                = (cs k).2 * ((pts (obs k).2).1 - (pts (obs k).1).1)) :
    distDesign obs cs *ᵥ rot pts = 0 := by
  funext k; rw [distDesign_mulVec]
  simp [rot]
  linear_combination -(hpar k)

/-- every infinitesimal rigid motion `a·T_x + b·T_y + ω·R` is in the kernel -/
theorem rigid_mem_ker (pts : ι → 𝕜 × 𝕜) (obs : κ → ι × ι) (cs : κ → 𝕜 × 𝕜)
    (hpar : ∀ k, (cs k).1 * ((pts (obs k).2).2 - (pts (obs k).1).2)
                = (cs k).2 * ((pts (obs k).2).1 - (pts (obs k).1).1)) (a b ω : 𝕜) :
    distDesign obs cs *ᵥ (a • transX + b • transY + ω • rot pts) = 0 := by
  rw [mulVec_add, mulVec_add, mulVec_smul, mulVec_smul, mulVec_smul, transX_mem_ker, transY_mem_ker,
    rot_mem_ker pts obs cs hpar]; simp

/-- the direction cosines `(Δx/d, Δy/d)` used by the linearisation satisfy the parallelism
    hypothesis for every non-zero `d` (indeed for every scalar factor) -/
theorem hpar_of_cosines (pts : ι → 𝕜 × 𝕜) (obs : κ → ι × ι) (d : κ → 𝕜) (k : κ) :
    (((pts (obs k).2).1 - (pts (obs k).1).1) / d k) * ((pts (obs k).2).2 - (pts (obs k).1).2)
      = (((pts (obs k).2).2 - (pts (obs k).1).2) / d k) * ((pts (obs k).2).1 - (pts (obs k).1).1) := by
  ring

end Gama.LS.Datum2D
