/-
  DataParser, whole documents: acceptance of `DP.crun` split into the four kinds of demands a document has to meet.

  Every event of a document gets a VERDICT (walking the document from the start; the walk is the run itself as long as nothing
  has been refused, and only the verdicts up to the first one that is not `ok` matter):

    ok          the handler of the event calls `error()` nowhere
    structure   refused for a reason that is not a data condition: unknown / unexpected element (`stag = parser_error`),
                attributes where none are allowed, text that is not blank between elements, unexpected end tag
                (`after[state] = s_error`) — error kinds `unknown_tag`, `context`, `attributes`, `text`, `end_tag` — or a data
                error raised before any condition was evaluated
    field       `error("… data …")` and the condition evaluated last is a stream test (`pure_data(istr >> x1 … >> xn)` /
                `!(istr >> x1 … >> xn)`) whose TEXT is not in the language of the chain
    computed    … the condition evaluated last is one of the recognisers on the whole buffer (`deg2gon`, `IsFloat`, `IsInteger`):
                the pooled text is not in `Lit.deg2gonAccepts` / `Lit.isFloat` / `Lit.isInteger`
                (the same blame for an `attributes` error raised right after a condition: the xmlns test of `<gama-data>`)
    oracle      … the condition evaluated last is NOT computed from the document: a `Cond.other` (model state, id lookups,
                counters, matrix code, the xmlns loop) or the guard conjunct of a `pure` condition whose text IS in the language

  `Lemmas` may carry definitions that the driver does not need.
-/
import Gama.Lemmas.DataParserValues
set_option linter.unusedSimpArgs false
namespace Gama.DP

inductive Verdict where | ok | struct | field | computed | oracle
  deriving DecidableEq, Repr, Inhabited

/-- the text a condition is about -/
def Src.text (src : Src) (piece buf : List Char) : List Char :=
  match src with | .buffer => buf | .piece => piece

/-- who is to blame when the handler called `error("… data …")` right after evaluating `cd` -/
def condClass (cd : Cond) (piece buf : List Char) : Verdict :=
  match cd with
  | .pure src chain _ _ => if pureOk chain (src.text piece buf) then .oracle else .field
  | .fails _ _ => .field
  | .lit _ _ => .computed
  | .other => .oracle

def CEvent.piece : CEvent → List Char
  | .text s _ => s
  | _ => []

/-- verdict of one event handled in the situation `cs` -/
def verdict (cs : CSt) (e : CEvent) : Verdict :=
  match (ccall cs e).st.err with
  | none => .ok
  | some (_, k) =>
    if k = .data ∨ k = .attributes then
      match (ccall cs e).last with
      | some cd => condClass cd e.piece cs.buf
      | none => .struct
    else .struct

/-- the verdicts of the events of a document, by recursion over the event list, UP TO AND INCLUDING the first one that is not
    `ok` (what follows a refusal is not judged: the parser is in `s_error`) -/
def verdicts : CSt → List CEvent → List Verdict
  | _, [] => []
  | cs, e :: r => if verdict cs e = .ok then .ok :: verdicts (cstep cs e) r else [verdict cs e]

/-- the document is not refused with verdict `v` (no event up to the first refusal has verdict `v`) -/
def noVerdict (v : Verdict) (cs : CSt) (evs : List CEvent) : Bool := !(verdicts cs evs).contains v

/-- element structure (names, nesting, attributes, blank text between elements) allowed by the automaton … -/
def structureOk (cs : CSt) (evs : List CEvent) : Bool := noVerdict .struct cs evs
/-- every text read by a stream test is in the language of its extraction chain -/
def allFieldsInLanguage (cs : CSt) (evs : List CEvent) : Bool := noVerdict .field cs evs
/-- every text read by `deg2gon` / `IsFloat` / `IsInteger` is in that recogniser's language -/
def computedCondsOk (cs : CSt) (evs : List CEvent) : Bool := noVerdict .computed cs evs
/-- the conditions that are NOT functions of the document (oracle bits of the events) let every handler pass -/
def oracleBitsOk (cs : CSt) (evs : List CEvent) : Bool := noVerdict .oracle cs evs

/-- accepted: `error()` was never called and the parser is in `s_stop` -/
def accepted (cs : CSt) : Prop := cs.st.err = none ∧ cs.st.state = .s_stop

theorem condClass_ne_ok (cd : Cond) (piece buf : List Char) : condClass cd piece buf ≠ .ok := by
  cases cd <;> simp [condClass]
  split <;> simp

theorem verdict_ok_iff (cs : CSt) (e : CEvent) : verdict cs e = .ok ↔ (ccall cs e).st.err = none := by
  unfold verdict
  cases h : (ccall cs e).st.err with
  | none => simp
  | some ik =>
    obtain ⟨i, k⟩ := ik
    simp only [reduceCtorEq, iff_false]
    split
    · cases (ccall cs e).last with
      | none => simp
      | some cd => exact condClass_ne_ok _ _ _
    · simp

theorem cstep_err (cs : CSt) (e : CEvent) : (cstep cs e).st.err = (ccall cs e).st.err := rfl

theorem cstep_err_none_iff (cs : CSt) (e : CEvent) :
    (cstep cs e).st.err = none ↔ cs.st.err = none ∧ verdict cs e = .ok := by
  rw [verdict_ok_iff, ← cstep_err]
  constructor
  · intro h
    refine ⟨?_, h⟩
    cases hc : cs.st.err with
    | none => rfl
    | some x =>
      have := crun_err_preserved [e] cs x hc
      simp only [crun, List.foldl_cons, List.foldl_nil] at this
      rw [this] at h; cases h
  · exact fun h => h.2

/-- a run records no error IFF it starts without one and every event's verdict is `ok` -/
theorem crun_clean_iff (evs : List CEvent) : ∀ cs : CSt,
    (crun cs evs).st.err = none ↔ cs.st.err = none ∧ ∀ v ∈ verdicts cs evs, v = .ok := by
  induction evs with
  | nil => intro cs; simp [crun, verdicts]
  | cons e r ih =>
    intro cs
    have : crun cs (e :: r) = crun (cstep cs e) r := rfl
    rw [this, ih, cstep_err_none_iff]
    by_cases hv : verdict cs e = .ok
    · simp [verdicts, hv]
    · simp [verdicts, hv]

theorem all_ok_iff (l : List Verdict) :
    (∀ v ∈ l, v = .ok) ↔ (.struct ∉ l ∧ .field ∉ l ∧ .computed ∉ l ∧ .oracle ∉ l) := by
  constructor
  · intro h
    refine ⟨?_, ?_, ?_, ?_⟩ <;> intro hm <;> have := h _ hm <;> cases this
  · intro ⟨h1, h2, h3, h4⟩ v hv
    cases v with
    | ok => rfl
    | struct => exact absurd hv h1
    | field => exact absurd hv h2
    | computed => exact absurd hv h3
    | oracle => exact absurd hv h4

theorem noVerdict_iff (v : Verdict) (cs : CSt) (evs : List CEvent) : noVerdict v cs evs = true ↔ v ∉ verdicts cs evs := by
  simp [noVerdict]

/-! ### a run without recorded error follows the TABLES: its state is the walk along `next` / `after` -/

/-- the automaton alone: a start tag moves along `next[state][tag]`, an end tag along `after[state]`, text stays -/
def tstep (s : State) : CEvent → State
  | .start t _ _ => next s t
  | .stop _ => after s
  | .text _ _ => s

/-- the state the TABLES lead to on the element sequence of a document (no handler is executed) -/
def twalk (s : State) (evs : List CEvent) : State := evs.foldl tstep s

/-- every outcome of the handler started in `(s, no error)` either has recorded an error or is in state `target` -/
def cleanTo (p : Prog) (c : Ctx) (s target : State) : Bool :=
  (execAbs p c (s, false)).all (fun r => r.1.2 || r.1.1 == target)

/-- all handlers that can run in state `s`: start (every entry of the row, with and without attributes), end, text -/
def walkOk (s : State) : Bool :=
  (row s).all (fun e => cleanTo (startProg e.h) ⟨e.tag, true, true⟩ s e.next && cleanTo (startProg e.h) ⟨e.tag, false, true⟩ s e.next) &&
  cleanTo (endProg (etag s)) ⟨.t_unused, true, true⟩ s (after s) &&
  cleanTo (dataProg (dataH s)) ⟨.t_unused, true, true⟩ s s && cleanTo (dataProg (dataH s)) ⟨.t_unused, true, false⟩ s s

theorem walk_ok : ∀ s : State, walkOk s = true := by
  intro s
  cases s <;> rfl

theorem cleanTo_sound {p : Prog} {c : Ctx} {s target : State} (h : cleanTo p c s target = true)
    (d : List Bool) (st : St) (hs : st.state = s) (hn : st.err = none) (hc : (exec p c d st).1.err = none) :
    (exec p c d st).1.state = target := by
  have hm := exec_abs p c d st
  have habs : st.abs = (s, false) := by simp [St.abs, hn, hs]
  rw [habs] at hm
  have := (List.all_eq_true.mp h) _ hm
  simp only [St.abs, hc, Option.isSome_none, Bool.false_or, beq_iff_eq] at this
  exact this

def Event.toC : Event → CEvent
  | .start t ae d => .start t ae d
  | .stop d => .stop d
  | .text s d => .text s d

theorem react_clean_state (st : St) (ev : Event) (hn : st.err = none) (hc : (react st ev).err = none) :
    (react st ev).state = tstep st.state ev.toC := by
  have hok := walk_ok st.state
  simp only [walkOk, Bool.and_eq_true] at hok
  obtain ⟨⟨⟨hrow, hend⟩, hblank⟩, htext⟩ := hok
  cases ev with
  | start t ae d =>
    simp only [react] at hc ⊢
    by_cases ht : t = .t_unknown
    · subst ht
      rw [stag_unknown, parser_error_exec] at hc
      have := error_err_isSome (tagCall st .t_unknown) .context
      rw [hc] at this; cases this
    · have htc : tagCall st t = st := by simp [tagCall, ht]
      rw [htc] at hc ⊢
      cases hl : lookup st.state t with
      | none =>
        have h1 : stag st.state t = .h_parser_error := by simp [stag, hl]
        rw [h1, parser_error_exec] at hc
        have := error_err_isSome st .context
        rw [hc] at this; cases this
      | some e =>
        obtain ⟨he, hte⟩ := lookup_mem hl
        have hst : stag st.state t = e.h := by simp [stag, hl]
        have hnx : next st.state t = e.next := by simp [next, hl]
        have := (List.all_eq_true.mp hrow) e he
        simp only [Bool.and_eq_true] at this
        rw [hst] at hc ⊢
        simp only [Event.toC, tstep, hnx]
        rw [← hte] at hc ⊢
        cases ae with
        | true => exact cleanTo_sound this.1 d st rfl hn hc
        | false => exact cleanTo_sound this.2 d st rfl hn hc
  | stop d =>
    simp only [react] at hc ⊢
    exact cleanTo_sound hend d st rfl hn hc
  | text s d =>
    simp only [react] at hc ⊢
    cases hb : isBlank s with
    | true => rw [hb] at hc; exact cleanTo_sound hblank d st rfl hn hc
    | false => rw [hb] at hc; exact cleanTo_sound htext d st rfl hn hc

theorem toAbs_toC (cs : CSt) (e : CEvent) : tstep cs.st.state (toAbs cs e).toC = tstep cs.st.state e := by
  cases e <;> rfl

/-- one event of the run on real text: no error before, none recorded ⇒ the new state is the table step -/
theorem cstep_clean_state (cs : CSt) (e : CEvent) (hn : cs.st.err = none) (hc : (cstep cs e).st.err = none) :
    (cstep cs e).st.state = tstep cs.st.state e := by
  rw [cstep_st] at hc ⊢
  have h1 : (step cs.st (toAbs cs e)).err = (react cs.st (toAbs cs e)).err := rfl
  have h2 : (step cs.st (toAbs cs e)).state = (react cs.st (toAbs cs e)).state := rfl
  rw [h1] at hc
  rw [h2, react_clean_state cs.st _ hn hc, toAbs_toC]

/-- a run that records no error ends in the state the tables lead to -/
theorem crun_clean_state (evs : List CEvent) : ∀ cs : CSt, (crun cs evs).st.err = none →
    (crun cs evs).st.state = twalk cs.st.state evs := by
  induction evs with
  | nil => intro cs _; rfl
  | cons e r ih =>
    intro cs h
    have hc : crun cs (e :: r) = crun (cstep cs e) r := rfl
    rw [hc] at h ⊢
    have h1 : (cstep cs e).st.err = none := ((crun_clean_iff r _).mp h).1
    have h0 : cs.st.err = none := ((cstep_err_none_iff cs e).mp h1).1
    rw [ih _ h, cstep_clean_state cs e h0 h1]
    rfl

/-- … and the element sequence, followed through the TABLES `next` / `after` alone, ends in `s_stop` (the root element is closed) -/
def endsInStop (cs : CSt) (evs : List CEvent) : Bool := twalk cs.st.state evs == .s_stop

/-- THE DOCUMENT THEOREM: accepted IFF (element structure allowed ∧ the table walk ends in `s_stop`) ∧ every stream-read text in its
    chain language ∧ every recogniser-read text in its language ∧ the conditions that are not functions of the document hold -/
theorem document_accepted_iff (cs : CSt) (evs : List CEvent) (h0 : cs.st.err = none) :
    accepted (crun cs evs) ↔
      (structureOk cs evs = true ∧ endsInStop cs evs = true) ∧ allFieldsInLanguage cs evs = true ∧
        computedCondsOk cs evs = true ∧ oracleBitsOk cs evs = true := by
  unfold accepted structureOk allFieldsInLanguage computedCondsOk oracleBitsOk endsInStop
  simp only [noVerdict_iff, beq_iff_eq]
  constructor
  · rintro ⟨he, hs⟩
    rw [crun_clean_state evs cs he] at hs
    rw [crun_clean_iff, all_ok_iff] at he
    obtain ⟨_, h1, h2, h3, h4⟩ := he
    exact ⟨⟨h1, hs⟩, h2, h3, h4⟩
  · rintro ⟨⟨h1, hs⟩, h2, h3, h4⟩
    have he : (crun cs evs).st.err = none := by
      rw [crun_clean_iff, all_ok_iff]; exact ⟨h0, h1, h2, h3, h4⟩
    exact ⟨he, by rw [crun_clean_state evs cs he]; exact hs⟩

/-! ### the automaton's own refusals are `struct`, whatever the data -/

/-- a start tag for which `init()` installed no entry in the row of the current state (that includes every unknown element name):
    verdict `struct`, whatever the attributes and the oracle bits -/
theorem verdict_no_entry (cs : CSt) (t : Tag) (ae : Bool) (o : List Bool) (hclean : cs.st.err = none)
    (h : lookup cs.st.state t = none) : verdict cs (.start t ae o) = .struct := by
  have hs : stag cs.st.state t = .h_parser_error := by simp [stag, h]
  unfold verdict
  simp only [ccall, hs]
  by_cases ht : t = .t_unknown <;> simp [cStartProg, cexec, tagCall, ht, St.error, hclean]

/-- text that is not blank in a state whose character-data handler is `white_spaces` (between elements): verdict `struct` -/
theorem verdict_text_between (cs : CSt) (x : List Char) (o : List Bool) (hclean : cs.st.err = none)
    (h : dataH cs.st.state = .h_white_spaces) (hx : isBlank x = false) : verdict cs (.text x o) = .struct := by
  unfold verdict
  simp [ccall, h, cDataProg, cexec, hx, St.error, hclean]

/-- … and blank text there, or any text in a state that pools it (`add_text`), is `ok` -/
theorem verdict_text_ok (cs : CSt) (x : List Char) (o : List Bool) (hclean : cs.st.err = none)
    (h : (dataH cs.st.state = .h_white_spaces ∧ isBlank x = true) ∨ dataH cs.st.state = .h_add_text) :
    verdict cs (.text x o) = .ok := by
  unfold verdict
  rcases h with ⟨h, hx⟩ | h
  · simp [ccall, h, cDataProg, cexec, hx, hclean]
  · simp [ccall, h, cDataProg, cexec, hclean]

/-! ### what the verdict of a field element says -/

/-- the end event of an element read by ONE `pure_data` test (`isField`), in a situation without recorded error:
    `field` iff the pooled text is not in the language of the chain; `oracle` iff it is and the guard conjunct fails; else `ok` -/
theorem field_verdict (cs : CSt) (o : List Bool) (chain : List XKind) (g : Guard) (hclean : cs.st.err = none)
    (hh : isField (cEndProg (etag cs.st.state)) = some (chain, g)) :
    verdict cs (.stop o) =
      if pureOk chain cs.buf then (if guardOk g o then .ok else .oracle) else .field := by
  have ha := field_after_ok cs.st.state (by rw [hh]; rfl)
  unfold verdict
  simp only [ccall]
  rw [isField_sound hh]
  cases hp : pureOk chain cs.buf
  · cases g <;>
      simp [fieldProg, cexec, condBit, hp, St.error, hclean, condClass, Src.text, CEvent.piece, cEndTagProg_eq]
  · cases hg : guardOk g o
    · cases g <;>
        simp_all [fieldProg, cexec, condBit, St.error, condClass, Src.text, CEvent.piece, cEndTagProg_eq, guardOk]
    · cases g <;>
        simp_all [fieldProg, cexec, condBit, St.error, condClass, Src.text, CEvent.piece, cEndTagProg_eq, guardOk]

/-- the two shapes in which a recogniser over the whole buffer guards an element:
    `if (!k(text_buffer)) return error(…); text_buffer.erase(); return end_tag(name);`              (`<b>`, `<l>` of a g3 point)
    `{ … if (!k(b, e)) error(…); text_buffer.clear(); } return end_tag(name);`                      (g3 adjustment results) -/
def litProgA (k : LitKind) : CProg :=
  .seq (.ifData (.lit k true) (.seq (.err .data) .ret) .skip) (.seq .clearText (.seq (.scope cEndTagProg) .ret))
def litProgB (k : LitKind) : CProg :=
  .seq (.scope (.seq (.ifData (.lit k true) (.err .data) .skip) .clearText)) (.seq (.scope cEndTagProg) .ret)

/-- the handlers of the current tree that have one of the two shapes -/
def isLitField (p : CProg) : Option LitKind :=
  [LitKind.deg2gon, .isFloat, .isInteger].find? (fun k => p = litProgA k ∨ p = litProgB k)

theorem isLitField_sound {p : CProg} {k : LitKind} (h : isLitField p = some k) : p = litProgA k ∨ p = litProgB k := by
  unfold isLitField at h
  have := List.find?_some h
  simpa using this

/-- in every state whose end handler has one of the two shapes the end tag is allowed (table fact, all states) -/
theorem lit_after_ok : ∀ s : State, (isLitField (cEndProg (etag s))).isSome = true → after s ≠ .s_error := by
  intro s
  cases s <;> decide

/-- the end event of such an element, in a situation without recorded error: `computed` iff the pooled text is not in the
    recogniser's language, `ok` otherwise -/
theorem lit_verdict (cs : CSt) (o : List Bool) (k : LitKind) (hclean : cs.st.err = none)
    (hh : isLitField (cEndProg (etag cs.st.state)) = some k) :
    verdict cs (.stop o) = if litOk k cs.buf then .ok else .computed := by
  have hae : after .s_error = .s_error := by decide
  have ha := lit_after_ok cs.st.state (by rw [hh]; rfl)
  unfold verdict
  simp only [ccall]
  rcases isLitField_sound hh with h | h <;> rw [h] <;> cases hp : litOk k cs.buf <;>
    simp [litProgA, litProgB, cexec, condBit, hp, ha, hae, St.error, hclean, condClass, CEvent.piece, cEndTagProg_eq]

end Gama.DP
