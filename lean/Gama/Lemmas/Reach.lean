/-
  `SparseMatrixGraph::connected()` (model: Gama/Model/Connected.lean) decides whether every
  node `1..nodes` is reachable from node 1 along the neighbour lists.

  Main results: `connected_iff`, `connected_isSome`, `connected_zero`, `connLoop_fuel`
  (the fuel `nodes + 1` of the model is never exhausted), `connLoop_tag_iff` (at exit the
  tagged nodes are exactly the reachable ones).

  Proof: loop invariant `ConnInv` (tagged nodes are reachable; stack ⊆ tagged; `unreachable`
  = nodes − #tagged; a tagged node that is not on the stack has all its neighbours tagged),
  potential `stack.length + unreachable` decreasing by one per iteration.
-/
import Gama.Lemmas.SparseBasic

namespace Gama

/-! sanity checks of the model on concrete graphs -/
-- path 1-2-3 plus isolated 4
example : connected { nodes := 4, xadj := #[0,0,1,3,4,4], adjncy := #[2,1,3,2] } = some false := by decide
-- path 1-2-3
example : connected { nodes := 3, xadj := #[0,0,1,3,4], adjncy := #[2,1,3,2] } = some true := by decide
-- single node
example : connected { nodes := 1, xadj := #[0,0,0], adjncy := #[] } = some true := by decide
-- empty graph
example : connected { nodes := 0, xadj := #[0,0,0], adjncy := #[] } = some false := by decide
-- directed, with duplicates: 1 -> 2,2,3 ; 3 -> 3
example : connected { nodes := 3, xadj := #[0,0,3,3,4], adjncy := #[2,2,3,3] } = some true := by decide
-- directed: 2 -> 1, 3 -> 1 : nothing but 1 reachable from 1
example : connected { nodes := 3, xadj := #[0,0,0,1,2], adjncy := #[1,1] } = some false := by decide

theorem conn_getElem!_setIfInBounds (tag : Array Nat) (y v : Nat) (hy : y < tag.size) :
    (tag.setIfInBounds y 1)[v]! = if v = y then 1 else tag[v]! := by
  simp only [getElem!_def, Array.getElem?_setIfInBounds]
  by_cases h : v = y
  · subst h; simp [hy]
  · have : ¬ y = v := fun e => h e.symm
    simp [h, this]

theorem conn_countP_flip {p q : Nat → Bool} {y : Nat} :
    ∀ (l : List Nat), l.Nodup → y ∈ l → p y = false → q y = true →
      (∀ v, v ≠ y → q v = p v) → l.countP q = l.countP p + 1
  | [], _, h, _, _, _ => by simp at h
  | a :: l, hnd, hm, hp, hq, hpq => by
    rw [List.nodup_cons] at hnd
    by_cases ha : a = y
    · subst ha
      have : l.countP q = l.countP p := by
        apply List.countP_congr
        intro v hv
        have : v ≠ a := fun e => hnd.1 (e ▸ hv)
        rw [hpq v this]
      simp [hp, hq, this]
    · have hm' : y ∈ l := by
        rcases List.mem_cons.1 hm with h | h
        · exact absurd h.symm ha
        · exact h
      have ih := conn_countP_flip l hnd.2 hm' hp hq hpq
      simp [List.countP_cons, ih, hpq a ha]
      omega

theorem conn_getElem!_replicate_zero (k v : Nat) : (Array.replicate k 0)[v]! = 0 := by
  simp only [getElem!_def, Array.getElem?_replicate]
  by_cases h : v < k <;> simp [h]

/-- number of tagged nodes among `1..n` -/
def connCount (n : Nat) (tag : Array Nat) : Nat :=
  (List.range' 1 n).countP (fun v => tag[v]! != 0)

theorem connCount_le (n : Nat) (tag : Array Nat) : connCount n tag ≤ n := by
  unfold connCount
  have := List.countP_le_length (p := fun v => tag[v]! != 0) (l := List.range' 1 n)
  simpa using this

theorem connCount_set (n : Nat) (tag : Array Nat) (y : Nat) (h1 : 1 ≤ y) (hn : y ≤ n)
    (hs : tag.size = n + 1) (h0 : tag[y]! = 0) :
    connCount n (tag.setIfInBounds y 1) = connCount n tag + 1 := by
  unfold connCount
  apply conn_countP_flip (y := y) _ (List.nodup_range' ..)
  · rw [List.mem_range'_1]; omega
  · simp [h0]
  · rw [conn_getElem!_setIfInBounds _ _ _ (by omega)]; simp
  · intro v hv
    rw [conn_getElem!_setIfInBounds _ _ _ (by omega)]; simp [hv]

theorem connCount_eq_iff (n : Nat) (tag : Array Nat) :
    connCount n tag = n ↔ ∀ v, 1 ≤ v → v ≤ n → tag[v]! ≠ 0 := by
  unfold connCount
  have h := List.countP_eq_length (p := fun v => tag[v]! != 0) (l := List.range' 1 n)
  rw [List.length_range'] at h
  rw [h]
  constructor
  · intro H v h1 hn
    have := H v (by rw [List.mem_range'_1]; omega)
    simpa using this
  · intro H v hv
    rw [List.mem_range'_1] at hv
    simpa using H v (by omega) (by omega)

/-- Loop invariant of `connected()`.  `x` is the node whose neighbour list is being scanned
    (`x = 0`: none; nodes are `1..n`). -/
structure ConnInv (g : Adj) (x : Nat) (s : ConnState) : Prop where
  size : s.tag.size = g.nodes + 1
  one : s.tag[1]! ≠ 0
  reach : ∀ v, 1 ≤ v → v ≤ g.nodes → s.tag[v]! ≠ 0 → Reach g 1 v
  stack : ∀ v ∈ s.stack, 1 ≤ v ∧ v ≤ g.nodes ∧ s.tag[v]! ≠ 0
  count : s.unreachable = (g.nodes : Int) - (connCount g.nodes s.tag : Int)
  closed : ∀ v, 1 ≤ v → v ≤ g.nodes → s.tag[v]! ≠ 0 → v ∉ s.stack → v ≠ x →
    ∀ y ∈ g.nbrs v, s.tag[y]! ≠ 0

/-- what one `connVisit` does, beyond keeping the invariant -/
structure ConnMono (s s' : ConnState) : Prop where
  mono : ∀ v : Nat, s.tag[v]! ≠ 0 → s'.tag[v]! ≠ 0
  pot : (s'.stack.length : Int) + s'.unreachable = (s.stack.length : Int) + s.unreachable

theorem ConnMono.refl (s : ConnState) : ConnMono s s := ⟨fun _ h => h, rfl⟩

theorem ConnMono.trans {a b c : ConnState} (h1 : ConnMono a b) (h2 : ConnMono b c) :
    ConnMono a c := ⟨fun v h => h2.mono v (h1.mono v h), h2.pot.trans h1.pot⟩

theorem connVisit_inv {g : Adj} {x : Nat} {s : ConnState} (J : ConnInv g x s) {y : Nat}
    (h1 : 1 ≤ y) (hn : y ≤ g.nodes) (hr : Reach g 1 y) :
    ConnInv g x (connVisit s y) ∧ ConnMono s (connVisit s y) ∧ (connVisit s y).tag[y]! ≠ 0 := by
  unfold connVisit
  by_cases h0 : s.tag[y]! = 0
  · have hlt : y < s.tag.size := by have := J.size; omega
    have hget : ∀ v, (s.tag.setIfInBounds y 1)[v]! = if v = y then 1 else s.tag[v]! :=
      fun v => conn_getElem!_setIfInBounds _ _ _ hlt
    have hmono : ∀ v : Nat, s.tag[v]! ≠ 0 → (s.tag.setIfInBounds y 1)[v]! ≠ 0 := by
      intro v hv; rw [hget]; split <;> simp [hv]
    simp only [h0, beq_self_eq_true, if_true]
    refine ⟨⟨?_, ?_, ?_, ?_, ?_, ?_⟩, ⟨hmono, ?_⟩, ?_⟩
    · simp [J.size]
    · exact hmono _ J.one
    · intro v hv1 hvn hv
      by_cases e : v = y
      · exact e ▸ hr
      · rw [hget, if_neg e] at hv; exact J.reach v hv1 hvn hv
    · intro v hv
      rcases List.mem_cons.1 hv with e | hv
      · subst e; refine ⟨h1, hn, ?_⟩; rw [hget]; simp
      · have := J.stack v hv; exact ⟨this.1, this.2.1, hmono _ this.2.2⟩
    · show s.unreachable - 1 = _
      rw [connCount_set _ _ _ h1 hn J.size h0, J.count]; push_cast; omega
    · intro v hv1 hvn hv hns hx z hz
      have hvy : v ≠ y := fun e => hns (e ▸ List.mem_cons_self)
      rw [hget, if_neg hvy] at hv
      exact hmono _ (J.closed v hv1 hvn hv (fun h => hns (List.mem_cons_of_mem _ h)) hx z hz)
    · show ((y :: s.stack).length : Int) + (s.unreachable - 1) = _
      simp only [List.length_cons]; push_cast; omega
    · show (s.tag.setIfInBounds y 1)[y]! ≠ 0
      rw [hget]; simp
  · have : (s.tag[y]! == 0) = false := by simpa using h0
    simp only [this]
    exact ⟨J, ConnMono.refl s, h0⟩

theorem connFold_inv {g : Adj} {x : Nat} : ∀ (l : List Nat) {s : ConnState}, ConnInv g x s →
    (∀ y ∈ l, 1 ≤ y ∧ y ≤ g.nodes ∧ Reach g 1 y) →
    ConnInv g x (l.foldl connVisit s) ∧ ConnMono s (l.foldl connVisit s) ∧
      ∀ y ∈ l, (l.foldl connVisit s).tag[y]! ≠ 0
  | [], s, J, _ => ⟨J, ConnMono.refl s, by simp⟩
  | y :: l, s, J, hl => by
    have hy := hl y List.mem_cons_self
    obtain ⟨J1, M1, T1⟩ := connVisit_inv J hy.1 hy.2.1 hy.2.2
    obtain ⟨J2, M2, T2⟩ := connFold_inv l J1 (fun z hz => hl z (List.mem_cons_of_mem _ hz))
    refine ⟨J2, M1.trans M2, ?_⟩
    intro z hz
    rcases List.mem_cons.1 hz with e | hz
    · subst e; exact M2.mono _ T1
    · exact T2 z hz

/-- one iteration of the `while` loop -/
theorem connStep_inv {g : Adj} (hr : g.InRange) {s : ConnState} (J : ConnInv g 0 s)
    {x : Nat} {st : List Nat} (hs : s.stack = x :: st) :
    ConnInv g 0 ((g.nbrs x).foldl connVisit { s with stack := st }) ∧
      (((g.nbrs x).foldl connVisit { s with stack := st }).stack.length : Int)
        + ((g.nbrs x).foldl connVisit { s with stack := st }).unreachable + 1
      = (s.stack.length : Int) + s.unreachable := by
  have hx := J.stack x (hs ▸ List.mem_cons_self)
  have hxr : Reach g 1 x := J.reach x hx.1 hx.2.1 hx.2.2
  have J0 : ConnInv g x { s with stack := st } := by
    refine ⟨J.size, J.one, J.reach, ?_, J.count, ?_⟩
    · intro v hv; exact J.stack v (hs ▸ List.mem_cons_of_mem _ hv)
    · intro v hv1 hvn hv hns hvx
      refine J.closed v hv1 hvn hv ?_ (by omega)
      rw [hs]; intro h
      rcases List.mem_cons.1 h with e | h
      · exact hvx e
      · exact hns h
  obtain ⟨J1, M1, T1⟩ := connFold_inv (g.nbrs x) J0
    (fun y hy => ⟨(hr x hx.1 hx.2.1 y hy).1, (hr x hx.1 hx.2.1 y hy).2, Reach.step hxr hy⟩)
  refine ⟨⟨J1.size, J1.one, J1.reach, J1.stack, J1.count, ?_⟩, ?_⟩
  · intro v hv1 hvn hv hns _ y hy
    by_cases e : v = x
    · subst e; exact T1 y hy
    · exact J1.closed v hv1 hvn hv hns e y hy
  · have := M1.pot
    simp only [hs, List.length_cons] at this ⊢
    push_cast; omega

/-- `nodes + 1` iterations are enough: the loop leaves with an empty stack.  (Potential
    `stack.length + unreachable` drops by one per iteration.) -/
theorem connLoop_inv {g : Adj} (hr : g.InRange) : ∀ (fuel : Nat) {s : ConnState},
    ConnInv g 0 s → (s.stack.length : Int) + s.unreachable ≤ fuel →
    ConnInv g 0 (connLoop g fuel s) ∧ (connLoop g fuel s).stack = []
  | 0, s, J, hp => by
    have h := connCount_le g.nodes s.tag
    have hc := J.count
    have : s.stack.length = 0 := by omega
    exact ⟨J, List.eq_nil_of_length_eq_zero this⟩
  | fuel + 1, s, J, hp => by
    unfold connLoop
    split
    · rename_i h; exact ⟨J, h⟩
    · rename_i x st h
      obtain ⟨J1, P1⟩ := connStep_inv hr J h
      exact connLoop_inv hr fuel J1 (by push_cast at hp; omega)

theorem connInit_inv (g : Adj) (hn : 1 ≤ g.nodes) : ConnInv g 0 (connInit g) := by
  have hget : ∀ v, (connInit g).tag[v]! = if v = 1 then 1 else 0 := by
    intro v
    show ((Array.replicate (g.nodes + 1) 0).setIfInBounds 1 1)[v]! = _
    rw [conn_getElem!_setIfInBounds _ _ _ (by simp; omega)]
    split
    · rfl
    · exact conn_getElem!_replicate_zero _ _
  refine ⟨?_, ?_, ?_, ?_, ?_, ?_⟩
  · simp [connInit]
  · rw [hget]; simp
  · intro v _ _ hv
    rw [hget] at hv
    by_cases e : v = 1
    · subst e; exact Reach.refl 1
    · simp [e] at hv
  · intro v hv
    have : v = 1 := by simpa [connInit] using hv
    subst this; refine ⟨Nat.le_refl _, hn, ?_⟩; rw [hget]; simp
  · show (g.nodes : Int) - 1 = _
    have h0 : connCount g.nodes (Array.replicate (g.nodes + 1) 0) = 0 := by
      unfold connCount
      rw [List.countP_eq_zero]
      intro v _
      simp [conn_getElem!_replicate_zero]
    have : connCount g.nodes (connInit g).tag = 1 := by
      show connCount g.nodes ((Array.replicate (g.nodes + 1) 0).setIfInBounds 1 1) = 1
      rw [connCount_set _ _ _ (Nat.le_refl _) hn (by simp) (conn_getElem!_replicate_zero _ _), h0]
    rw [this]; rfl
  · intro v _ _ hv hns
    rw [hget] at hv
    by_cases e : v = 1
    · subst e; exact absurd (by simp [connInit]) hns
    · simp [e] at hv

theorem connected_zero (g : Adj) (h : g.nodes = 0) : connected g = some false := by
  simp [connected, h]

theorem connected_isSome (g : Adj) (hn : 1 ≤ g.nodes) : ∃ b, connected g = some b := by
  have : g.nodes ≠ 0 := by omega
  unfold connected; rw [if_neg this]; exact ⟨_, rfl⟩

/-- final state of the loop: invariant with an empty stack -/
theorem connLoop_final (g : Adj) (hn : 1 ≤ g.nodes) (hr : g.InRange) :
    ConnInv g 0 (connLoop g (g.nodes + 1) (connInit g)) ∧
      (connLoop g (g.nodes + 1) (connInit g)).stack = [] := by
  apply connLoop_inv hr _ (connInit_inv g hn)
  show ((1 : Nat) : Int) + ((g.nodes : Int) - 1) ≤ _
  push_cast; omega


/-- once the loop has left with an empty stack, more fuel changes nothing -/
theorem connLoop_succ (g : Adj) : ∀ (fuel : Nat) (s : ConnState),
    (connLoop g fuel s).stack = [] → connLoop g (fuel + 1) s = connLoop g fuel s
  | 0, s, h => by
    have h' : s.stack = [] := h
    show connLoop g 1 s = s
    unfold connLoop; rw [h']
  | fuel + 1, s, h => by
    cases hs : s.stack with
    | nil =>
      rw [connLoop.eq_def, connLoop.eq_def g (fuel + 1)]; simp only [hs]
    | cons x st =>
      rw [connLoop.eq_def] at h; simp only [hs] at h
      rw [connLoop.eq_def, connLoop.eq_def g (fuel + 1)]; simp only [hs]
      exact connLoop_succ g fuel _ h

theorem connLoop_mono (g : Adj) (fuel : Nat) (s : ConnState)
    (h : (connLoop g fuel s).stack = []) :
    ∀ k, connLoop g (fuel + k) s = connLoop g fuel s
  | 0 => rfl
  | k + 1 => by
    have ih := connLoop_mono g fuel s h k
    rw [← Nat.add_assoc, connLoop_succ g (fuel + k) s (by rw [ih]; exact h), ih]

/-- The fuel of the model is sufficient: with `nodes + 1` iterations the `while` loop ends
    because the stack is empty, and any larger bound gives the same final state, i.e.
    `connLoop g (nodes+1)` is the result of the unbounded C++ loop. -/
theorem connLoop_fuel (g : Adj) (hn : 1 ≤ g.nodes) (hr : g.InRange) :
    (connLoop g (g.nodes + 1) (connInit g)).stack = [] ∧
      ∀ fuel, g.nodes + 1 ≤ fuel →
        connLoop g fuel (connInit g) = connLoop g (g.nodes + 1) (connInit g) := by
  have h := (connLoop_final g hn hr).2
  refine ⟨h, fun fuel hf => ?_⟩
  have := connLoop_mono g _ _ h (fuel - (g.nodes + 1))
  rwa [show g.nodes + 1 + (fuel - (g.nodes + 1)) = fuel by omega] at this

/-- at exit the tagged nodes are exactly the nodes reachable from node 1 -/
theorem connLoop_tag_iff (g : Adj) (hn : 1 ≤ g.nodes) (hr : g.InRange) (v : Nat) :
    (1 ≤ v ∧ v ≤ g.nodes ∧ (connLoop g (g.nodes + 1) (connInit g)).tag[v]! ≠ 0) ↔ Reach g 1 v := by
  obtain ⟨J, hs⟩ := connLoop_final g hn hr
  constructor
  · rintro ⟨h1, h2, h3⟩; exact J.reach v h1 h2 h3
  · intro h
    induction h with
    | refl => exact ⟨Nat.le_refl _, hn, J.one⟩
    | step _ hc ih =>
      obtain ⟨b1, bn, bt⟩ := ih
      have := hr _ b1 bn _ hc
      exact ⟨this.1, this.2, J.closed _ b1 bn bt (by simp [hs]) (by omega) _ hc⟩

theorem connected_iff (g : Adj) (hn : 1 ≤ g.nodes) (hr : g.InRange) :
    connected g = some true ↔ ∀ v, 1 ≤ v → v ≤ g.nodes → Reach g 1 v := by
  obtain ⟨J, hs⟩ := connLoop_final g hn hr
  have hne : g.nodes ≠ 0 := by omega
  have hcl := connCount_le g.nodes (connLoop g (g.nodes + 1) (connInit g)).tag
  have h1 : connected g = some true ↔
      connCount g.nodes (connLoop g (g.nodes + 1) (connInit g)).tag = g.nodes := by
    simp only [connected, hne, if_false, Option.some.injEq, beq_iff_eq, J.count]
    omega
  rw [h1, connCount_eq_iff]
  constructor
  · intro H v hv1 hvn
    exact (connLoop_tag_iff g hn hr v).1 ⟨hv1, hvn, H v hv1 hvn⟩
  · intro H v hv1 hvn
    exact ((connLoop_tag_iff g hn hr v).2 (H v hv1 hvn)).2.2

theorem connected_false_iff (g : Adj) (hn : 1 ≤ g.nodes) (hr : g.InRange) :
    connected g = some false ↔ ∃ v, 1 ≤ v ∧ v ≤ g.nodes ∧ ¬ Reach g 1 v := by
  obtain ⟨b, hb⟩ := connected_isSome g hn
  have h := connected_iff g hn hr
  rw [hb] at h ⊢
  cases b
  · simp only [true_iff]
    apply Classical.byContradiction
    intro hne
    have : ∀ v, 1 ≤ v → v ≤ g.nodes → Reach g 1 v := by
      intro v h1 h2
      apply Classical.byContradiction
      intro hv; exact hne ⟨v, h1, h2, hv⟩
    exact absurd (h.2 this) (by simp)
  · constructor
    · intro hf; cases hf
    · rintro ⟨v, h1, h2, hv⟩; exact absurd (h.1 rfl v h1 h2) hv

/-! `InRange` cannot be dropped: a neighbour `0` (cell 0 of `tag`) or a neighbour `> nodes`
    (C++: read past the end of `tag`; model: default cell 0, never tagged) decrements the
    counter although no node `1..nodes` was reached; node 2 is unreachable here. -/
example : connected { nodes := 2, xadj := #[0,0,1,1], adjncy := #[0] } = some true := by decide
example : connected { nodes := 2, xadj := #[0,0,1,1], adjncy := #[7] } = some true := by decide

end Gama
