/-
  Theorems about the numeric half of `singular_coords` (`Model/SingularCoords.lean`) over an ordered
  field with an exact square root (`IsSqrt sq`); the model runs at `MatVec.fieldScalar K sq`
  (`Lemmas/C15Field.lean`: every operation is the field's, `1e-12` is `1/10^12`):

    * `degenD_swap`            the swap makes `D` symmetric in the two columns;
    * `degen_both_zero`        both columns zero ⇒ `D = 0`: the point is removed (the `aa == 0` branch — the only
                               guard of the division);
    * `degen_one_zero_column`  exactly one column zero ⇒ the divisor `sqrt(aa·bb)` is 0 although the guard passed;
                               `D = 1 − 0/0`: in the field reading (`x/0 = 0`) `D = 1`, the point STAYS
                               (at `double`: NaN, `NaN < 1e-12` is false — same decision; exercised by the
                               correspondence).  The zero column is then left to the solver (`lindep`);
    * `degen_iff`              both sums positive: removed ⇔ `(1 − 1e-12)·sqrt(aa·bb) < |ab|`  (|cos| > 1 − 1e-12);
    * `degen_parallel`         `ab² = aa·bb` (exactly parallel columns: Cauchy–Schwarz with equality) ⇒ removed;
    * `degen_orthogonal`       `ab = 0`, both sums positive ⇒ not removed.
-/
import Gama.Model.SingularCoords
import Gama.Lemmas.C15Field
import Gama.Lemmas.Ls.ScalarLaws
import Mathlib.Tactic.Positivity
import Mathlib.Tactic.NormNum
namespace Gama.SingularCoords
open Gama Gama.Ls

variable {K : Type} [Field K] [LinearOrder K] [IsStrictOrderedRing K] (sq : K → K)

/-- the decision from the three sums, at the field instance -/
def degenB (aa ab bb : K) : Bool :=
  decide (@degenD K (MatVec.fieldScalar K sq) aa ab bb < @eps12 K (MatVec.fieldScalar K sq))

theorem degenTest_eq (A : DMat K) (ix iy : Nat) :
    @degenTest K (MatVec.fieldScalar K sq) A ix iy =
      degenB sq (@colSums K (MatVec.fieldScalar K sq) A ix iy).1 (@colSums K (MatVec.fieldScalar K sq) A ix iy).2.1
        (@colSums K (MatVec.fieldScalar K sq) A ix iy).2.2 := rfl

/-- `D` with the field's operations -/
theorem degenD_eq (aa ab bb : K) :
    @degenD K (MatVec.fieldScalar K sq) aa ab bb =
      if max aa bb = 0 then 0 else 1 - |ab| / sq (max aa bb * min aa bb) := by
  have hmax : (if aa < bb then bb else aa) = max aa bb := by
    split
    · next h => exact (max_eq_right (le_of_lt h)).symm
    · next h => exact (max_eq_left (not_lt.1 h)).symm
  have hmin : (if aa < bb then aa else bb) = min aa bb := by
    split
    · next h => exact (min_eq_left (le_of_lt h)).symm
    · next h => exact (min_eq_right (not_lt.1 h)).symm
  show (if decide ((if aa < bb then bb else aa) = 0) = true then (0 : K)
      else ((1 : Nat) : K) - |ab| / sq ((if aa < bb then bb else aa) * (if aa < bb then aa else bb))) = _
  rw [hmax, hmin, Nat.cast_one]
  simp only [decide_eq_true_eq]

theorem eps12_eq : @eps12 K (MatVec.fieldScalar K sq) = 1 / 10 ^ 12 := by
  show (if true = true then ((1 : Nat) : K) / (10 : K) ^ 12 else ((1 : Nat) : K) * (10 : K) ^ 12) = _
  simp

theorem eps12_pos : (0 : K) < @eps12 K (MatVec.fieldScalar K sq) := by
  rw [eps12_eq]; positivity

theorem eps12_lt_one : @eps12 K (MatVec.fieldScalar K sq) < (1 : K) := by
  rw [eps12_eq, div_lt_one (by positivity)]
  exact one_lt_pow₀ (by norm_num) (by norm_num)

/-- the swap makes the test symmetric in the two columns -/
theorem degenD_swap (aa ab bb : K) :
    @degenD K (MatVec.fieldScalar K sq) aa ab bb = @degenD K (MatVec.fieldScalar K sq) bb ab aa := by
  rw [degenD_eq, degenD_eq, max_comm, min_comm]

/-- both columns exactly zero: `D = 0`, the point is removed -/
theorem degen_both_zero (ab : K) : degenB sq 0 ab 0 = true := by
  unfold degenB
  rw [degenD_eq]
  simp only [max_self, if_true]
  exact decide_eq_true (eps12_pos sq)

/-- **the unguarded division**: the guard `aa == 0` looks at the LARGER sum only; with exactly one zero
    column the divisor `sqrt(aa·bb)` is `sqrt 0 = 0`.  Field reading (`x/0 = 0`): `D = 1`, the point stays. -/
theorem degen_one_zero_column (hsq : IsSqrt sq) (aa ab : K) (haa : 0 < aa) :
    @degenD K (MatVec.fieldScalar K sq) aa ab 0 = 1 ∧ degenB sq aa ab 0 = false ∧ degenB sq 0 ab aa = false := by
  have h0 : sq 0 = 0 := by
    have := hsq.mul_self 0 (le_refl _)
    exact mul_self_eq_zero.1 this
  have hD : @degenD K (MatVec.fieldScalar K sq) aa ab 0 = 1 := by
    rw [degenD_eq, max_eq_left (le_of_lt haa), min_eq_right (le_of_lt haa), if_neg (ne_of_gt haa), mul_zero, h0,
      div_zero, sub_zero]
  refine ⟨hD, ?_, ?_⟩
  · unfold degenB
    rw [hD]
    exact decide_eq_false (not_lt.2 (le_of_lt (eps12_lt_one sq)))
  · unfold degenB
    rw [degenD_swap, hD]
    exact decide_eq_false (not_lt.2 (le_of_lt (eps12_lt_one sq)))

/-- both sums positive: the point is removed iff `|cos(a,b)| > 1 − 1e-12` -/
theorem degen_iff (hsq : IsSqrt sq) (aa ab bb : K) (haa : 0 < aa) (hbb : 0 < bb) :
    degenB sq aa ab bb = true ↔
      (1 - @eps12 K (MatVec.fieldScalar K sq)) * sq (aa * bb) < |ab| := by
  have hmm : max aa bb * min aa bb = aa * bb := by
    rcases le_total aa bb with h | h
    · rw [max_eq_right h, min_eq_left h, mul_comm]
    · rw [max_eq_left h, min_eq_right h]
  have hpos : 0 < aa * bb := mul_pos haa hbb
  have hs : 0 < sq (aa * bb) := by
    have h1 := hsq.nonneg _ (le_of_lt hpos)
    have h2 := hsq.mul_self _ (le_of_lt hpos)
    rcases eq_or_lt_of_le h1 with h | h
    · rw [← h, mul_zero] at h2; exact absurd h2 (ne_of_lt hpos)
    · exact h
  unfold degenB
  rw [decide_eq_true_eq, degenD_eq, if_neg (ne_of_gt (lt_max_of_lt_left haa)), hmm]
  rw [sub_lt_comm, lt_div_iff₀ hs]

/-- exactly parallel columns (`ab² = aa·bb`, Cauchy–Schwarz with equality): removed -/
theorem degen_parallel (hsq : IsSqrt sq) (aa ab bb : K) (haa : 0 < aa) (hbb : 0 < bb) (hpar : ab * ab = aa * bb) :
    degenB sq aa ab bb = true := by
  rw [degen_iff sq hsq aa ab bb haa hbb]
  have hpos : 0 < aa * bb := mul_pos haa hbb
  have h1 := hsq.nonneg _ (le_of_lt hpos)
  have h2 := hsq.mul_self _ (le_of_lt hpos)
  have habs : |ab| = sq (aa * bb) := by
    have : |ab| * |ab| = sq (aa * bb) * sq (aa * bb) := by rw [abs_mul_abs_self, hpar, h2]
    exact (mul_self_inj (abs_nonneg _) h1).1 this
  rw [habs]
  have hs : 0 < sq (aa * bb) := by
    rcases eq_or_lt_of_le h1 with h | h
    · rw [← h, mul_zero] at h2; exact absurd h2 (ne_of_lt hpos)
    · exact h
  have := eps12_pos (K := K) sq
  nlinarith

/-- orthogonal non-zero columns: not removed -/
theorem degen_orthogonal (hsq : IsSqrt sq) (aa bb : K) (haa : 0 < aa) (hbb : 0 < bb) :
    degenB sq aa 0 bb = false := by
  cases h : degenB sq aa 0 bb with
  | false => rfl
  | true =>
    exfalso
    rw [degen_iff sq hsq aa 0 bb haa hbb, abs_zero] at h
    have hpos : 0 < aa * bb := mul_pos haa hbb
    have h1 := hsq.nonneg _ (le_of_lt hpos)
    have := eps12_lt_one (K := K) sq
    nlinarith

end Gama.SingularCoords
