/-
  A valid `Doc'` (Model/GkfDocTree.lean: validity as a predicate of the document alone) meets every bookkeeping
  condition of the parser along its own events: `Doc'.valid d ∧ Doc'.valuesOk d → allDocOk CSt.init d.events`.

  The hand-written documented rules (`docRules`, `Leaf'.count`, `tagHandler`) are compared with the GENERATED tables
  (`requiredVars`, `requiredPairs`, `crossRules`, `bindVar`, `varInit`, `effects`, `finishSpec`, `start`, `stop`) by
  `decide` in the `…_table` facts below; everything else is induction over the tree.
-/
import Gama.Model.GkfDocTree
import Gama.Lemmas.GkfValues
import Gama.Lemmas.GkfCovBounds
namespace Gama.Gkf
open Gama.Lit

/-! ### attribute lookup: the parser's `env` against the document's `attrVal` -/

theorem find?_congr' {α : Type} (p q : α → Bool) : ∀ (l : List α), (∀ a ∈ l, p a = q a) → l.find? p = l.find? q := by
  intro l
  induction l with
  | nil => intro _; rfl
  | cons a r ih =>
    intro h
    simp only [List.find?_cons, h a List.mem_cons_self]
    rw [ih (fun b hb => h b (List.mem_cons_of_mem _ hb))]

/-- among the documented attribute names of `g`, exactly `n` is assigned to the variable `v` -/
def binds (g : Handler) (n v : String) : Bool := (docNames g).all (fun m => (bindVar g m == some v) == (m == n))

/-- … and `v` starts empty -/
def plain (g : Handler) (n v : String) : Bool := binds g n v && varInit g v == .empty

theorem env_lookup (ctx : Ctx) (g : Handler) (as : List CAttr) (n v : String)
    (hdoc : ∀ a ∈ as, a.name ∈ docNames g) (hb : binds g n v = true) :
    env ctx g as v = match attrVal as n with
      | some x => x
      | none => srcVal ctx (varInit g v) := by
  have hc : as.reverse.find? (fun a => bindVar g a.name == some v) = as.reverse.find? (fun a => a.name == n) := by
    apply find?_congr'
    intro a ha
    have hm := hdoc a (by simpa using ha)
    have := (List.all_eq_true.mp hb) a.name hm
    simpa using this
  unfold env attrVal
  rw [hc]
  cases as.reverse.find? (fun a => a.name == n) <;> rfl

theorem env_plain (ctx : Ctx) (g : Handler) (as : List CAttr) (n v : String)
    (hdoc : ∀ a ∈ as, a.name ∈ docNames g) (hp : plain g n v = true) : env ctx g as v = attrStr as n := by
  simp only [plain, Bool.and_eq_true, beq_iff_eq] at hp
  rw [env_lookup ctx g as n v hdoc hp.1, hp.2]
  unfold attrStr
  cases attrVal as n <;> rfl

theorem env_from (ctx : Ctx) (g : Handler) (as : List CAttr) (v : String)
    (hdoc : ∀ a ∈ as, a.name ∈ docNames g) (hb : binds g "from" v = true) (hi : varInit g v = .standpointId) :
    env ctx g as v = effFrom ctx.standpointId as := by
  rw [env_lookup ctx g as "from" v hdoc hb, hi]
  rfl

theorem env_unbound (ctx : Ctx) (g : Handler) (as : List CAttr) (v : String)
    (hdoc : ∀ a ∈ as, a.name ∈ docNames g) (hb : (docNames g).all (fun m => bindVar g m != some v) = true) :
    env ctx g as v = srcVal ctx (varInit g v) := by
  have hc : as.reverse.find? (fun a => bindVar g a.name == some v) = none := by
    rw [List.find?_eq_none]
    intro a ha
    have hm := hdoc a (by simpa using ha)
    have := (List.all_eq_true.mp hb) a.name hm
    simpa using this
  unfold env
  rw [hc]

/-! ### the documented rules cover the generated requirements -/

def coversReq (g : Handler) (v : String) : Rule → Bool
  | .req n => plain g n v && !pointIdVars.contains v
  | .reqId n => plain g n v && pointIdVars.contains v
  | .reqFrom => binds g "from" v && varInit g v == .standpointId && !pointIdVars.contains v
  | .inherited => (docNames g).all (fun m => bindVar g m != some v) && varInit g v == .standpointId &&
      !pointIdVars.contains v
  | _ => false

def coversPair (g : Handler) (p : String × String) : Rule → Bool
  | .pair na nb => plain g na p.1 && plain g nb p.2
  | _ => false

def coversCross (g : Handler) : Cross → Rule → Bool
  | .positive v c, .positive n c' => plain g n v && c == c'
  | .distinct a b, .distinctFrom n => binds g "from" a && varInit g a == .standpointId && plain g n b
  | .less a b, .less na nb => plain g na a && plain g nb b
  | _, _ => false

/-- every refusal of `process_g` that is not about one value — a required variable, the `x`/`y` pair, what the
    observation constructors throw on, `band < dim` — is one of the documented rules of the element -/
def rulesCover (g : Handler) : Bool :=
  ((docRules g).isEmpty || attrLoop g == .all) &&
  (requiredVars g).all (fun v => (docRules g).any (coversReq g v)) &&
  (requiredPairs g).all (fun p => (docRules g).any (coversPair g p)) &&
  (crossRules g).all (fun c => (docRules g).any (coversCross g c))

theorem rules_cover_table : ∀ g : Handler, rulesCover g = true := forall_handler (by decide)

theorem normId_nil : normId [] = [] := rfl

theorem required_of_rules (ctx : Ctx) (g : Handler) (as : List CAttr) (hdoc : ∀ a ∈ as, a.name ∈ docNames g)
    (hr : (docRules g).all (ruleOk ctx.standpointId as) = true) : requiredOk ctx g as = true := by
  have T := rules_cover_table g
  simp only [rulesCover, Bool.and_eq_true] at T
  simp only [requiredOk, List.all_eq_true]
  intro v hv
  obtain ⟨r, hrm, hcov⟩ := List.any_eq_true.mp ((List.all_eq_true.mp T.1.1.2) v hv)
  have hrule := (List.all_eq_true.mp hr) r hrm
  cases r with
  | req n =>
    simp only [coversReq, Bool.and_eq_true, Bool.not_eq_true'] at hcov
    simp only [ruleOk] at hrule
    simp only [hcov.2, env_plain ctx g as n v hdoc hcov.1, Bool.false_eq_true, if_false]
    exact hrule
  | reqId n =>
    simp only [coversReq, Bool.and_eq_true] at hcov
    simp only [ruleOk] at hrule
    simp only [hcov.2, env_plain ctx g as n v hdoc hcov.1, if_true]
    exact hrule
  | reqFrom =>
    simp only [coversReq, Bool.and_eq_true, Bool.not_eq_true', beq_iff_eq] at hcov
    simp only [ruleOk] at hrule
    simp only [hcov.2, env_from ctx g as v hdoc hcov.1.1 hcov.1.2, Bool.false_eq_true, if_false]
    exact hrule
  | inherited =>
    simp only [coversReq, Bool.and_eq_true, Bool.not_eq_true', beq_iff_eq] at hcov
    simp only [ruleOk] at hrule
    simp only [hcov.2, env_unbound ctx g as v hdoc hcov.1.1, hcov.1.2, srcVal, Bool.false_eq_true, if_false]
    exact hrule
  | pair a b => simp [coversReq] at hcov
  | positive n c => simp [coversReq] at hcov
  | distinctFrom n => simp [coversReq] at hcov
  | less a b => simp [coversReq] at hcov

theorem pairs_of_rules (ctx : Ctx) (g : Handler) (as : List CAttr) (hdoc : ∀ a ∈ as, a.name ∈ docNames g)
    (hr : (docRules g).all (ruleOk ctx.standpointId as) = true) : pairsOk ctx g as = true := by
  have T := rules_cover_table g
  simp only [rulesCover, Bool.and_eq_true] at T
  simp only [pairsOk, List.all_eq_true]
  intro p hp
  obtain ⟨r, hrm, hcov⟩ := List.any_eq_true.mp ((List.all_eq_true.mp T.1.2) p hp)
  have hrule := (List.all_eq_true.mp hr) r hrm
  cases r with
  | pair a b =>
    simp only [coversPair, Bool.and_eq_true] at hcov
    simp only [ruleOk] at hrule
    rw [env_plain ctx g as a p.1 hdoc hcov.1, env_plain ctx g as b p.2 hdoc hcov.2]
    exact hrule
  | req n => simp [coversPair] at hcov
  | reqId n => simp [coversPair] at hcov
  | reqFrom => simp [coversPair] at hcov
  | inherited => simp [coversPair] at hcov
  | positive n c => simp [coversPair] at hcov
  | distinctFrom n => simp [coversPair] at hcov
  | less a b => simp [coversPair] at hcov

theorem cross_of_rules (ctx : Ctx) (g : Handler) (as : List CAttr) (hdoc : ∀ a ∈ as, a.name ∈ docNames g)
    (hr : (docRules g).all (ruleOk ctx.standpointId as) = true) : crossAllOk ctx g as = true := by
  have T := rules_cover_table g
  simp only [rulesCover, Bool.and_eq_true] at T
  simp only [crossAllOk, List.all_eq_true]
  intro c hc
  obtain ⟨r, hrm, hcov⟩ := List.any_eq_true.mp ((List.all_eq_true.mp T.2) c hc)
  have hrule := (List.all_eq_true.mp hr) r hrm
  cases c with
  | positive v cv =>
    cases r with
    | positive n c' =>
      simp only [coversCross, Bool.and_eq_true, beq_iff_eq] at hcov
      simp only [ruleOk] at hrule
      simp only [crossOk, env_plain ctx g as n v hdoc hcov.1, hcov.2]
      exact hrule
    | _ => simp [coversCross] at hcov
  | nonnegative v cv => cases r <;> simp [coversCross] at hcov
  | distinct a b =>
    cases r with
    | distinctFrom n =>
      simp only [coversCross, Bool.and_eq_true, beq_iff_eq] at hcov
      simp only [ruleOk] at hrule
      simp only [crossOk, env_from ctx g as a hdoc hcov.1.1 hcov.1.2, env_plain ctx g as n b hdoc hcov.2]
      exact hrule
    | _ => simp [coversCross] at hcov
  | less a b =>
    cases r with
    | less na nb =>
      simp only [coversCross, Bool.and_eq_true] at hcov
      simp only [ruleOk] at hrule
      simp only [crossOk, env_plain ctx g as na a hdoc hcov.1, env_plain ctx g as nb b hdoc hcov.2]
      exact hrule
    | _ => simp [coversCross] at hcov

/-! ### one event -/

theorem attrsDocOk_eq (t : Tag) (as : List CAttr) : attrsDocOk t as = docValuesOk (tagHandler t) as := rfl

theorem examined_sub (g : Handler) (as : List CAttr) : ∀ a ∈ examined g as, a ∈ as := by
  intro a ha
  unfold examined at ha
  cases hl : attrLoop g <;> rw [hl] at ha
  · exact ha
  · exact List.mem_of_mem_take ha
  · cases ha

theorem names_of_attrsDocOk (t : Tag) (as : List CAttr) (h : attrsDocOk t as = true) :
    ∀ a ∈ as, a.name ∈ docNames (tagHandler t) := by
  intro a ha
  have := (List.all_eq_true.mp h) a ha
  simp only [Bool.and_eq_true, List.contains_iff_mem] at this
  exact this.1

def tagTablesOk (t : Tag) : Bool := docNames (tagHandler t) == docAttrs t
theorem tag_tables : ∀ t : Tag, tagTablesOk t = true := forall_tag (by decide)

theorem documented_of_attrsDocOk (t : Tag) (as : List CAttr) (h : attrsDocOk t as = true) :
    attrsDocumented t (absAttrs as) = true := by
  have hn := names_of_attrsDocOk t as h
  have ht : docNames (tagHandler t) = docAttrs t := by simpa [tagTablesOk] using tag_tables t
  simp only [attrsDocumented, absAttrs, List.all_map, List.all_eq_true]
  intro a ha
  have := hn a ha
  rw [ht] at this
  simpa using this

/-- the handler a start tag runs applies the value checks of the element's documented key -/
def vhOk (s : State) : Bool :=
  Tag.all.all (fun t => match start s t with
    | .run h => valueHandler h == tagHandler t
    | _ => true)
theorem value_handler_table : ∀ s : State, vhOk s = true := forall_state (by decide)

theorem valueHandler_eq (s : State) (t : Tag) (h : Handler) (hrun : start s t = .run h) :
    valueHandler h = tagHandler t := by
  have := (List.all_eq_true.mp (value_handler_table s)) t (Tag.mem_all t)
  rw [hrun] at this
  simpa using this

theorem rules_examined (g : Handler) (inh : List Char) (as : List CAttr)
    (h : (docRules g).all (ruleOk inh as) = true) : (docRules g).all (ruleOk inh (examined g as)) = true := by
  have T := rules_cover_table g
  simp only [rulesCover, Bool.and_eq_true, Bool.or_eq_true, beq_iff_eq] at T
  rcases T.1.1.1 with he | hl
  · have : docRules g = [] := by simpa using he
    rw [this]; rfl
  · simp only [examined, hl]; exact h

/-- a start tag of an element that meets its documented rules and values, in a clean state: every documented
    condition of the event holds, the automaton moves on, the members change as `startCtx` says -/
theorem start_event_ok (cs : CSt) (s s1 : State) (t : Tag) (as : List CAttr) (h : Handler)
    (hc : Clean cs.st s) (hrun : start s t = .run h) (hs : startOk s t s1 = true)
    (hx : needsXYZ s t = true → hasXYorZ (absAttrs as) = true)
    (hvals : attrsDocOk t as = true) (hrules : rulesOk cs.ctx.standpointId t as = true) :
    docEventOk cs (.start t as) = true ∧ Clean (cstep cs (.start t as)).st s1 ∧
      (cstep cs (.start t as)).ctx = startCtx cs.ctx h as := by
  have hg := valueHandler_eq s t h hrun
  have hdoc : docEventOk cs (.start t as) = true := by
    simp only [docEventOk, hc.1, hrun, hg, Bool.and_eq_true]
    have hv : docValuesOk (tagHandler t) (examined (tagHandler t) as) = true := by
      rw [attrsDocOk_eq] at hvals
      simp only [docValuesOk, List.all_eq_true] at hvals ⊢
      intro a ha
      exact hvals a (examined_sub _ _ a ha)
    have hn : ∀ a ∈ examined (tagHandler t) as, a.name ∈ docNames (tagHandler t) :=
      fun a ha => names_of_attrsDocOk t as hvals a (examined_sub _ _ a ha)
    have hr := rules_examined (tagHandler t) cs.ctx.standpointId as hrules
    exact ⟨⟨⟨hv, required_of_rules _ _ _ hn hr⟩, pairs_of_rules _ _ _ hn hr⟩, cross_of_rules _ _ _ hn hr⟩
  refine ⟨hdoc, ?_, ?_⟩
  · simp only [cstep, toAbs_of_docOk cs _ hdoc, shape]
    exact step_start_clean cs.st s s1 t (absAttrs as) hc hs (documented_of_attrsDocOk t as hvals) hx
  · simp only [cstep, nextCtx, hc.1, hrun]

/-- a start tag that only sets the state (`<description>`) -/
theorem start_set_ok (cs : CSt) (s s1 : State) (t : Tag) (hc : Clean cs.st s) (hset : start s t = .set s1) :
    docEventOk cs (.start t []) = true ∧ Clean (cstep cs (.start t [])).st s1 ∧ (cstep cs (.start t [])).ctx = cs.ctx := by
  have hdoc : docEventOk cs (.start t []) = true := by simp only [docEventOk, hc.1, hset]
  refine ⟨hdoc, ?_, ?_⟩
  · simp only [cstep, toAbs_of_docOk cs _ hdoc, shape, step, react, hc.1, hset, absAttrs, List.map_nil]
    exact ⟨rfl, hc.2⟩
  · simp only [cstep, nextCtx, hc.1, hset]

/-- an end tag that calls no `finish_*` -/
theorem stop_plain_ok (cs : CSt) (s s1 : State) (pd : Bool) (hc : Clean cs.st s) (hstop : stop s = .goto s1 none) :
    docEventOk cs (.stop pd) = true ∧ Clean (cstep cs (.stop pd)).st s1 ∧ (cstep cs (.stop pd)).ctx = cs.ctx := by
  have hdoc : docEventOk cs (.stop pd) = true := by simp only [docEventOk, hc.1, hstop]
  refine ⟨hdoc, ?_, ?_⟩
  · simp only [cstep, toAbs_of_docOk cs _ hdoc, shape]
    exact step_stop_clean cs.st s s1 hc (by simp [stopOk, hstop])
  · simp only [cstep, nextCtx, hc.1, hstop]

/-- an end tag that calls `finish_f`, whose checks pass -/
theorem stop_finish_ok (cs : CSt) (s s1 : State) (f : Finish) (pd : Bool) (hc : Clean cs.st s)
    (hstop : stop s = .goto s1 (some f)) (hf : finishOk cs.ctx f pd = true) :
    docEventOk cs (.stop pd) = true ∧ Clean (cstep cs (.stop pd)).st s1 ∧
      (cstep cs (.stop pd)).ctx = finishCtx cs.ctx f := by
  have hdoc : docEventOk cs (.stop pd) = true := by simp only [docEventOk, hc.1, hstop, hf]
  refine ⟨hdoc, ?_, ?_⟩
  · simp only [cstep, toAbs_of_docOk cs _ hdoc, shape]
    exact step_stop_clean cs.st s s1 hc (by simp [stopOk, hstop])
  · simp only [cstep, nextCtx, hc.1, hstop]

theorem text_ok (cs : CSt) (s : State) (x : List Char) (hc : Clean cs.st s) (ha : textAccepting s = true) :
    docEventOk cs (.text x) = true ∧ Clean (cstep cs (.text x)).st s ∧
      (cstep cs (.text x)).ctx = (if covTextState s then { cs.ctx with covData := cs.ctx.covData ++ x } else cs.ctx) := by
  refine ⟨rfl, ?_, ?_⟩
  · simp only [cstep, toAbs, step, react, hc.1, ha, Bool.true_or, if_true]
    exact ⟨rfl, hc.2⟩
  · simp only [cstep, nextCtx, hc.1]

/-! ### segments -/

/-- run from `cs`, the events `evs` meet every documented condition, end without error in state `s`, and the
    members then satisfy `P` -/
def Seg (cs : CSt) (evs : List CEvent) (s : State) (P : Ctx → Prop) : Prop :=
  allDocOk cs evs = true ∧ Clean (crun cs evs).st s ∧ P (crun cs evs).ctx

theorem allDocOk_append : ∀ (a b : List CEvent) (cs : CSt),
    allDocOk cs (a ++ b) = (allDocOk cs a && allDocOk (crun cs a) b) := by
  intro a
  induction a with
  | nil => intro b cs; simp [allDocOk, crun_nil]
  | cons e r ih => intro b cs; simp only [List.cons_append, allDocOk, crun_cons, ih, Bool.and_assoc]

theorem Seg.nil (cs : CSt) (s : State) (P : Ctx → Prop) (hc : Clean cs.st s) (hp : P cs.ctx) : Seg cs [] s P :=
  ⟨rfl, hc, hp⟩

theorem Seg.single (cs : CSt) (e : CEvent) (s : State) (P : Ctx → Prop)
    (h : docEventOk cs e = true ∧ Clean (cstep cs e).st s ∧ P (cstep cs e).ctx) : Seg cs [e] s P := by
  refine ⟨?_, h.2.1, h.2.2⟩
  simp [allDocOk, h.1]

theorem Seg.append {cs : CSt} {a b : List CEvent} {s1 s2 : State} {P Q : Ctx → Prop}
    (h1 : Seg cs a s1 P) (h2 : ∀ cs' : CSt, Clean cs'.st s1 → P cs'.ctx → Seg cs' b s2 Q) : Seg cs (a ++ b) s2 Q := by
  have := h2 (crun cs a) h1.2.1 h1.2.2
  refine ⟨?_, ?_, ?_⟩
  · rw [allDocOk_append, h1.1, this.1]; rfl
  · rw [crun_append]; exact this.2.1
  · rw [crun_append]; exact this.2.2

theorem Seg.cons {cs : CSt} {e : CEvent} {b : List CEvent} {s1 s2 : State} {P Q : Ctx → Prop}
    (h1 : docEventOk cs e = true ∧ Clean (cstep cs e).st s1 ∧ P (cstep cs e).ctx)
    (h2 : ∀ cs' : CSt, Clean cs'.st s1 → P cs'.ctx → Seg cs' b s2 Q) : Seg cs (e :: b) s2 Q :=
  Seg.append (a := [e]) (Seg.single cs e s1 P h1) h2

theorem Seg.mono {cs : CSt} {a : List CEvent} {s : State} {P Q : Ctx → Prop} (h : Seg cs a s P)
    (hpq : ∀ c, P c → Q c) : Seg cs a s Q := ⟨h.1, h.2.1, hpq _ h.2.2⟩

theorem Seg.flatMap {α : Type} (s : State) (P : Ctx → Prop) (f : α → List CEvent) :
    ∀ (l : List α) (cs : CSt), (∀ a ∈ l, ∀ cs' : CSt, Clean cs'.st s → P cs'.ctx → Seg cs' (f a) s P) →
      Clean cs.st s → P cs.ctx → Seg cs (l.flatMap f) s P := by
  intro l
  induction l with
  | nil => intro cs _ hc hp; exact Seg.nil cs s P hc hp
  | cons a r ih =>
    intro cs h hc hp
    simp only [List.flatMap_cons]
    exact Seg.append (h a List.mem_cons_self cs hc hp)
      (fun cs' hc' hp' => ih cs' (fun b hb => h b (List.mem_cons_of_mem _ hb)) hc' hp')

/-! ### what a start tag does to the members (generated `effects` against the document's own count) -/

/-- the handler sets no standpoint, no dimension, opens no cluster -/
def plainEff (e : Effects) : Bool := e.setStandpoint.isNone && !e.resetDim && !e.newCluster && e.cov.isNone

theorem applyEff_plain (ctx : Ctx) (g : Handler) (xs as : List CAttr) (e : Effects) (h : plainEff e = true) :
    (applyEff ctx g xs as e).standpointId = ctx.standpointId ∧ (applyEff ctx g xs as e).idim = ctx.idim ∧
    (applyEff ctx g xs as e).iband = ctx.iband ∧ (applyEff ctx g xs as e).covData = ctx.covData ∧
    (applyEff ctx g xs as e).nobs = ctx.nobs + e.pushes + (if nonEmptyAttr as "x" then e.pushXY else 0) +
      (if nonEmptyAttr as "z" then e.pushZ else 0) := by
  simp only [plainEff, Bool.and_eq_true, Option.isNone_iff_eq_none, Bool.not_eq_true'] at h
  obtain ⟨⟨⟨h1, h2⟩, h3⟩, h4⟩ := h
  unfold applyEff
  simp only [h1, h2, h3, h4, Bool.false_eq_true, if_false]
  split <;> simp

/-- observations pushed by `process_h` (callee inlined): unconditionally, when x is given, when z is given -/
def effSum (h : Handler) : Nat × Nat × Nat :=
  let g := valueHandler h
  if g == h then ((effects g).pushes, (effects g).pushXY, (effects g).pushZ)
  else ((effects g).pushes + (effects h).pushes, (effects g).pushXY + (effects h).pushXY,
        (effects g).pushZ + (effects h).pushZ)

theorem startCtx_plain (ctx : Ctx) (h : Handler) (as : List CAttr)
    (h1 : plainEff (effects (valueHandler h)) = true) (h2 : plainEff (effects h) = true) :
    (startCtx ctx h as).standpointId = ctx.standpointId ∧ (startCtx ctx h as).idim = ctx.idim ∧
    (startCtx ctx h as).iband = ctx.iband ∧ (startCtx ctx h as).covData = ctx.covData ∧
    (startCtx ctx h as).nobs = ctx.nobs + (effSum h).1 + (if nonEmptyAttr as "x" then (effSum h).2.1 else 0) +
      (if nonEmptyAttr as "z" then (effSum h).2.2 else 0) := by
  unfold startCtx effSum
  have a1 := applyEff_plain ctx (valueHandler h) (examined (valueHandler h) as) as _ h1
  by_cases hg : (valueHandler h == h) = true
  · simp only [hg, if_true]
    exact a1
  · have hg' : (valueHandler h == h) = false := by simpa using hg
    simp only [hg', Bool.false_eq_true, if_false]
    have a2 := applyEff_plain (applyEff ctx (valueHandler h) (examined (valueHandler h) as) as (effects (valueHandler h)))
      h (examined h as) as _ h2
    refine ⟨a2.1.trans a1.1, a2.2.1.trans a1.2.1, a2.2.2.1.trans a1.2.2.1, a2.2.2.2.1.trans a1.2.2.2.1, ?_⟩
    rw [a2.2.2.2.2, a1.2.2.2.2]
    cases nonEmptyAttr as "x" <;> cases nonEmptyAttr as "z" <;> simp <;> omega

def cBase : Tag → Nat
  | .vec => 3 | .point_ => 0 | _ => 1
def cXY : Tag → Nat
  | .point_ => 2 | _ => 0
def cZ : Tag → Nat
  | .point_ => 1 | _ => 0

theorem count_eq (t : Tag) (as : List CAttr) :
    Leaf'.count ⟨t, as⟩ = cBase t + (if nonEmptyAttr as "x" then cXY t else 0) + (if nonEmptyAttr as "z" then cZ t else 0) := by
  cases t <;> simp [Leaf'.count, cBase, cXY, cZ]

/-- an empty element in state `s`: its start tag runs a handler, leads to a state whose end tag leads back to `s`
    calling no `finish_*`; the handler only pushes observations -/
def leafOk (s : State) (t : Tag) : Bool :=
  match start s t with
  | .run h =>
    startOk s t (opsFinal (handlerOps h) s) && stop (opsFinal (handlerOps h) s) == .goto s none &&
    plainEff (effects (valueHandler h)) && plainEff (effects h)
  | _ => false

/-- … inside the cluster `k`: it pushes what the document counts for it (`Leaf'.count`) -/
def itemEffOk (k : ClusterKind) : Bool :=
  (clusterTags k).all (fun t => leafOk k.state t && (needsXYZ k.state t == (k == .coords)) &&
    match start k.state t with
    | .run h => effSum h == (cBase t, cXY t, cZ t)
    | _ => false)

theorem item_effects_table : ∀ k : ClusterKind, itemEffOk k = true := by intro k; cases k <;> decide

theorem spine_leaf_table : leafOk .point_obs .point_ = true ∧ leafOk .network .parameters = true ∧
    needsXYZ .point_obs .point_ = false ∧ needsXYZ .network .parameters = false := by decide

/-- members untouched by a plain handler: everything the later checks of the cluster read, except the count -/
def SameBut (c0 c : Ctx) : Prop :=
  c.standpointId = c0.standpointId ∧ c.idim = c0.idim ∧ c.iband = c0.iband ∧ c.covData = c0.covData

theorem leaf_seg (cs : CSt) (s : State) (l : Leaf') (hc : Clean cs.st s) (ht : leafOk s l.tag = true)
    (hx : needsXYZ s l.tag = true → hasXYorZ (absAttrs l.attrs) = true)
    (hvals : l.valuesOk = true) (hrules : rulesOk cs.ctx.standpointId l.tag l.attrs = true) :
    ∃ h, start s l.tag = .run h ∧
      Seg cs l.events s (fun c => SameBut cs.ctx c ∧
        c.nobs = cs.ctx.nobs + (effSum h).1 + (if nonEmptyAttr l.attrs "x" then (effSum h).2.1 else 0) +
          (if nonEmptyAttr l.attrs "z" then (effSum h).2.2 else 0)) := by
  unfold leafOk at ht
  cases hstart : start s l.tag with
  | run h =>
    rw [hstart] at ht
    simp only [Bool.and_eq_true, beq_iff_eq] at ht
    obtain ⟨⟨⟨h1, h2⟩, h3⟩, h4⟩ := ht
    refine ⟨h, rfl, ?_⟩
    have hp := startCtx_plain cs.ctx h l.attrs h3 h4
    have e1 := start_event_ok cs s _ l.tag l.attrs h hc hstart h1 hx hvals hrules
    unfold Leaf'.events
    refine Seg.cons (P := fun c => c = startCtx cs.ctx h l.attrs) e1 ?_
    intro cs' hc' hp'
    have e2 := stop_plain_ok cs' _ s true hc' h2
    refine Seg.single cs' _ s _ ⟨e2.1, e2.2.1, ?_⟩
    rw [e2.2.2, hp']
    exact ⟨⟨hp.1, hp.2.1, hp.2.2.1, hp.2.2.2.1⟩, hp.2.2.2.2⟩
  | set s' => rw [hstart] at ht; cases ht
  | err k => rw [hstart] at ht; cases ht
  | ignore => rw [hstart] at ht; cases ht

/-! ### clusters -/

/-- between the children of `<points-observations>`: no standpoint, no pending `<cov-mat>` -/
def Inv0 (c : Ctx) : Prop := c.standpointId = [] ∧ c.idim = 0 ∧ c.covData = []

/-- inside a cluster whose items inherit `inh`, after `n` observations, before its `<cov-mat>` -/
def InCluster (inh : List Char) (n : Nat) (c : Ctx) : Prop :=
  c.standpointId = inh ∧ c.idim = 0 ∧ c.covData = [] ∧ c.nobs = n

def ClusterKind.openHandler : ClusterKind → Handler
  | .obs => .obs_ | .hdiffs => .hdiffs_ | .coords => .coords_ | .vectors => .vectors_
def ClusterKind.covHandler : ClusterKind → Handler
  | .obs => .obs_cov_ | .hdiffs => .hdiffs_cov_ | .coords => .coords_cov_ | .vectors => .vectors_cov_
def ClusterKind.finish : ClusterKind → Finish
  | .obs => .obs_ | .hdiffs => .hdiffs_ | .coords => .coords_ | .vectors => .vectors_

/-- the automaton around a cluster, and what its handlers do to the members: the opening tag starts a new cluster
    (count 0; `<obs>` also sets the standpoint and clears the dimension), `<cov-mat>` sets dimension and bandwidth from
    `dim` / `band`, both closing tags of the cluster call the same `finish_*`, which checks `dim` against the count -/
def clusterCtxOk (k : ClusterKind) : Bool :=
  start .point_obs k.tag == .run k.openHandler && valueHandler k.openHandler == k.openHandler && attrLoop k.openHandler != .none &&
  effects k.openHandler == ⟨if k == .obs then some "ss" else none, k == .obs, true, 0, 0, 0, none⟩ &&
  start k.state .cov_mat == .run k.covHandler && valueHandler k.covHandler == .cov_ &&
  plainEff (effects k.covHandler) && effSum k.covHandler == (0, 0, 0) &&
  effects .cov_ == ⟨none, false, false, 0, 0, 0, some ("sdim", "sband")⟩ && attrLoop .cov_ == .all &&
  plain .cov_ "dim" "sdim" && plain .cov_ "band" "sband" && plain .obs_ "from" "ss" && attrLoop .obs_ == .all &&
  (attrNames .cov_).all (fun a => bindVar .cov_ a != some "pp_id") &&
  (attrNames k.openHandler).all (fun a => bindVar k.openHandler a != some "pp_id") &&
  (attrNames k.covHandler).all (fun a => bindVar k.covHandler a != some "pp_id") &&
  stop k.covState == .goto k.afterCov none && covTextState k.covState &&
  stop k.afterCov == .goto .point_obs (some k.finish) && stop k.state == .goto .point_obs (some k.finish) &&
  (finishSpec k.finish).requiresCov == (k == .coords || k == .vectors) &&
  finishResetsStandpoint k.finish == (k == .obs)

theorem cluster_ctx_table : ∀ k : ClusterKind, clusterCtxOk k = true := by intro k; cases k <;> decide

theorem rulesOk_cov (inh : List Char) (as : List CAttr) : rulesOk inh .cov_mat as = rulesOk [] .cov_mat as := rfl

theorem rulesOk_cluster (inh : List Char) (k : ClusterKind) (as : List CAttr) :
    rulesOk inh k.tag as = true := by cases k <;> rfl

theorem text_seg (s : State) (ha : textAccepting s = true) : ∀ (ts : List (List Char)) (cs : CSt), Clean cs.st s →
    Seg cs (ts.map CEvent.text) s (fun c =>
      c = if covTextState s then { cs.ctx with covData := cs.ctx.covData ++ ts.flatten } else cs.ctx) := by
  intro ts
  induction ts with
  | nil =>
    intro cs hc
    refine Seg.nil cs s _ hc ?_
    split <;> simp
  | cons x r ih =>
    intro cs hc
    have e := text_ok cs s x hc ha
    simp only [List.map_cons]
    refine Seg.cons (P := fun c => c = (cstep cs (.text x)).ctx) ⟨e.1, e.2.1, rfl⟩ ?_
    intro cs' hc' hp'
    refine Seg.mono (ih cs' hc') ?_
    intro c hcx
    rw [hcx, hp', e.2.2]
    split <;> simp [List.append_assoc]

theorem items_seg (k : ClusterKind) (inh : List Char) : ∀ (items : List Leaf') (cs : CSt) (n : Nat),
    Clean cs.st k.state → InCluster inh n cs.ctx →
    (∀ l ∈ items, k.itemOk l.abs = true ∧ l.valuesOk = true ∧ rulesOk inh l.tag l.attrs = true) →
    Seg cs (items.flatMap Leaf'.events) k.state (InCluster inh (n + (items.map Leaf'.count).sum)) := by
  intro items
  induction items with
  | nil => intro cs n hc hi _; exact Seg.nil cs _ _ hc (by simpa using hi)
  | cons l r ih =>
    intro cs n hc hi hall
    obtain ⟨hitem, hvals, hrules⟩ := hall l List.mem_cons_self
    obtain ⟨hmem, _, hxy⟩ := itemOk_tag k l.abs hitem
    have T := (List.all_eq_true.mp (item_effects_table k)) l.tag hmem
    simp only [Bool.and_eq_true, beq_iff_eq] at T
    obtain ⟨⟨hleaf, hneed⟩, heff⟩ := T
    obtain ⟨h, hstart, hseg⟩ := leaf_seg cs k.state l hc hleaf
      (by intro hn; rw [hneed] at hn; exact hxy (by simpa using hn)) hvals (by rw [hi.1]; exact hrules)
    rw [hstart] at heff
    simp only [beq_iff_eq] at heff
    simp only [List.flatMap_cons, List.map_cons, List.sum_cons]
    refine Seg.append hseg ?_
    intro cs' hc' hp'
    have hin : InCluster inh (n + l.count) cs'.ctx := by
      obtain ⟨⟨a1, a2, _, a4⟩, a5⟩ := hp'
      refine ⟨a1.trans hi.1, a2.trans hi.2.1, a4.trans hi.2.2.1, ?_⟩
      have hcnt : l.count = _ := count_eq l.tag l.attrs
      rw [a5, heff, hi.2.2.2, hcnt]
      dsimp only
      omega
    have := ih cs' (n + l.count) hc' hin (fun b hb => hall b (List.mem_cons_of_mem _ hb))
    rw [Nat.add_assoc] at this
    exact this

theorem applyEff_fields (ctx : Ctx) (g : Handler) (xs as : List CAttr) (e : Effects) :
    (applyEff ctx g xs as e).standpointId =
      (match e.setStandpoint with | some v => env ctx g xs v | none => ctx.standpointId) ∧
    (applyEff ctx g xs as e).idim =
      (match e.cov with | some p => (toIndex (env ctx g xs p.1)).getD 0 | none => if e.resetDim then 0 else ctx.idim) ∧
    (applyEff ctx g xs as e).iband =
      (match e.cov with | some p => (toIndex (env ctx g xs p.2)).getD 0 | none => ctx.iband) ∧
    (applyEff ctx g xs as e).covData = ctx.covData ∧
    (applyEff ctx g xs as e).nobs = (if e.newCluster then 0 else ctx.nobs) + e.pushes +
      (if nonEmptyAttr as "x" then e.pushXY else 0) + (if nonEmptyAttr as "z" then e.pushZ else 0) := by
  obtain ⟨sp, rd, nc, p, pxy, pz, cov⟩ := e
  cases sp <;> cases rd <;> cases nc <;> cases cov <;> simp only [applyEff] <;> split <;> simp

theorem cluster_start_ctx (k : ClusterKind) (ctx : Ctx) (as : List CAttr)
    (hdoc : ∀ a ∈ as, a.name ∈ docNames k.openHandler) (h0 : Inv0 ctx) :
    InCluster (if k == .obs then attrStr as "from" else []) 0 (startCtx ctx k.openHandler as) := by
  have hv : valueHandler k.openHandler = k.openHandler := by cases k <;> decide
  unfold startCtx
  simp only [hv, beq_self_eq_true, if_true]
  have F := applyEff_fields ctx k.openHandler (examined k.openHandler as) as (effects k.openHandler)
  cases k
  · have hex : examined .obs_ as = as := by simp [examined, attrLoop]
    simp only [ClusterKind.openHandler, effects, hex] at F ⊢
    refine ⟨?_, by simpa using F.2.1, by rw [F.2.2.2.1]; exact h0.2.2, by simpa using F.2.2.2.2⟩
    rw [F.1]
    exact env_plain ctx .obs_ as "from" "ss" hdoc (by decide)
  all_goals
    simp only [ClusterKind.openHandler, effects] at F ⊢
    exact ⟨by rw [F.1]; exact h0.1, by rw [F.2.1]; simpa using h0.2.1, by rw [F.2.2.2.1]; exact h0.2.2,
      by simpa using F.2.2.2.2⟩

theorem cov_start_ctx (k : ClusterKind) (ctx : Ctx) (as : List CAttr) (hdoc : ∀ a ∈ as, a.name ∈ docNames .cov_) :
    (startCtx ctx k.covHandler as).standpointId = ctx.standpointId ∧
    (startCtx ctx k.covHandler as).covData = ctx.covData ∧ (startCtx ctx k.covHandler as).nobs = ctx.nobs ∧
    (startCtx ctx k.covHandler as).idim = (toIndex (attrStr as "dim")).getD 0 ∧
    (startCtx ctx k.covHandler as).iband = (toIndex (attrStr as "band")).getD 0 := by
  have hv : valueHandler k.covHandler = .cov_ := by cases k <;> decide
  have hne : (Handler.cov_ == k.covHandler) = false := by cases k <;> decide
  have hp : plainEff (effects k.covHandler) = true := by cases k <;> decide
  have hz : effects k.covHandler = ⟨none, false, false, 0, 0, 0, none⟩ := by cases k <;> rfl
  have he : effects .cov_ = ⟨none, false, false, 0, 0, 0, some ("sdim", "sband")⟩ := rfl
  have hex : examined .cov_ as = as := by simp [examined, attrLoop]
  unfold startCtx
  simp only [hv, hne, Bool.false_eq_true, if_false]
  rw [hex, hz, he]
  have F := applyEff_fields ctx .cov_ as as ⟨none, false, false, 0, 0, 0, some ("sdim", "sband")⟩
  have G := applyEff_fields (applyEff ctx .cov_ as as ⟨none, false, false, 0, 0, 0, some ("sdim", "sband")⟩)
    k.covHandler (examined k.covHandler as) as ⟨none, false, false, 0, 0, 0, none⟩
  simp only [Bool.false_eq_true, if_false, Nat.add_zero] at F G
  refine ⟨G.1.trans F.1, G.2.2.2.1.trans F.2.2.2.1, ?_, ?_, ?_⟩
  · rw [G.2.2.2.2, F.2.2.2.2]; simp
  · rw [G.2.1, F.2.1, env_plain ctx .cov_ as "dim" "sdim" hdoc (by decide)]
  · rw [G.2.2.1, F.2.2.1, env_plain ctx .cov_ as "band" "sband" hdoc (by decide)]

/-- the checks of `finish_*` for a cluster without `<cov-mat>` (allowed in `<obs>` and `<height-differences>`) -/
theorem finish_nocov (k : ClusterKind) (ctx : Ctx) (inh : List Char) (n : Nat) (hk : k = .obs ∨ k = .hdiffs)
    (hi : InCluster inh n ctx) (hinh : k ≠ .obs → inh = []) :
    finishOk ctx k.finish true = true ∧ Inv0 (finishCtx ctx k.finish) := by
  obtain ⟨h1, h2, h3, _⟩ := hi
  rcases hk with hk | hk <;> subst hk
  · refine ⟨by simp [finishOk, ClusterKind.finish, finishSpec, h2], ?_⟩
    simp [finishCtx, ClusterKind.finish, finishResetsStandpoint, h2, Inv0, h3]
  · refine ⟨by simp [finishOk, ClusterKind.finish, finishSpec, h2], ?_⟩
    simp [finishCtx, ClusterKind.finish, finishResetsStandpoint, h2, Inv0, h3, h1, hinh (by decide)]

/-- … and with one: `dim` = number of observations ≥ 1, the text fills the band -/
theorem finish_cov (k : ClusterKind) (ctx : Ctx) (inh : List Char) (n d b : Nat) (text : List Char)
    (h1 : ctx.standpointId = inh) (hinh : k ≠ .obs → inh = []) (hd : ctx.idim = d) (hb : ctx.iband = b)
    (hn : ctx.nobs = n) (ht : ctx.covData = text) (hdn : d = n) (hpos : 0 < d)
    (hw : (Cov.words text).length = covElements d b) (hf : (Cov.words text).all toDoubleOk = true) :
    finishOk ctx k.finish true = true ∧ Inv0 (finishCtx ctx k.finish) := by
  obtain ⟨ps, hps⟩ := Cov.finishCov_complete d b text hw (fun w hw' => (List.all_eq_true.mp hf) w hw')
  have hne : ctx.idim ≠ 0 := by omega
  constructor
  · simp only [finishOk, hd, hb, hn, ht, hdn, Bool.and_true, Bool.and_eq_true, Bool.or_eq_true]
    subst hdn
    have : (d != 0) = true := by simpa using (by omega : d ≠ 0)
    simp only [this]
    exact ⟨⟨Or.inr trivial, Or.inr (by simp)⟩, Or.inr (by rw [hps])⟩
  · have hne' : (ctx.idim != 0) = true := by simpa using hne
    cases k <;> simp [finishCtx, ClusterKind.finish, finishResetsStandpoint, hne', Inv0]
    all_goals (rw [h1]; exact hinh (by decide))

/-- `finish_cov` expects the documented number of band elements -/
theorem band_elems_table (dim band : Nat) : covElements dim band = bandElems dim band := rfl

theorem cov_dim_pos (as : List CAttr) (n : Nat) (hr : rulesOk [] .cov_mat as = true)
    (hd : toIndex (attrStr as "dim") = some n) : 0 < n := by
  simp only [rulesOk, tagHandler, docRules, List.all_cons, List.all_nil, ruleOk, Bool.and_true, Bool.and_eq_true, hd] at hr
  have h3 := hr.2.2
  cases hb : toIndex (attrStr as "band") with
  | none => rw [hb] at h3; cases h3
  | some x =>
    rw [hb] at h3
    have : x < n := by simpa using h3
    omega

/-- a valid cluster, entered between two children of `<points-observations>`, meets every documented condition of the
    parser's bookkeeping and leaves the members as it found them -/
theorem cluster_seg (c : Cluster') (cs : CSt) (hc : Clean cs.st .point_obs) (h0 : Inv0 cs.ctx)
    (hshape : c.abs.valid = true) (hv : c.valid = true) (hvals : c.valuesOk = true) :
    Seg cs c.events .point_obs Inv0 := by
  have T := cluster_table c.kind
  simp only [clusterTableOk, Bool.and_eq_true] at T
  obtain ⟨⟨⟨⟨⟨⟨h_open, _⟩, h_cov⟩, h_txt⟩, _⟩, _⟩, _⟩ := T
  simp only [Cluster'.valid, Bool.and_eq_true] at hv
  obtain ⟨⟨⟨hv_attrs, hv_items⟩, hv_cov⟩, hv_pd⟩ := hv
  simp only [Cluster'.valuesOk, Bool.and_eq_true] at hvals
  obtain ⟨⟨hx_attrs, hx_items⟩, hx_cov⟩ := hvals
  simp only [Cluster.valid, Cluster'.abs, Bool.and_eq_true] at hshape
  obtain ⟨⟨⟨_, hs_items⟩, _⟩, hs_kind⟩ := hshape
  have hstart : start .point_obs c.kind.tag = .run c.kind.openHandler := by cases c.kind <;> rfl
  have hinh : c.kind ≠ .obs → c.inh = [] := by
    intro hk
    have : (c.kind == ClusterKind.obs) = false := by simpa using hk
    simp [Cluster'.inh, this]
  unfold Cluster'.events
  have e1 := start_event_ok cs .point_obs c.kind.state c.kind.tag c.attrs c.kind.openHandler hc hstart h_open
    (by intro hn; exfalso; revert hn; cases c.kind <;> decide) hx_attrs (by rw [h0.1]; exact hv_attrs)
  have hdocnames : ∀ a ∈ c.attrs, a.name ∈ docNames c.kind.openHandler := by
    have := names_of_attrsDocOk c.kind.tag c.attrs hx_attrs
    have hh : tagHandler c.kind.tag = c.kind.openHandler := by cases c.kind <;> rfl
    rwa [hh] at this
  refine Seg.cons (P := InCluster c.inh 0) ⟨e1.1, e1.2.1, ?_⟩ ?_
  · rw [e1.2.2]; exact cluster_start_ctx c.kind cs.ctx c.attrs hdocnames h0
  intro cs1 hc1 hp1
  have hitems := items_seg c.kind c.inh c.items cs1 0 hc1 hp1 (by
    intro l hl
    refine ⟨?_, (List.all_eq_true.mp hx_items) l hl, (List.all_eq_true.mp hv_items) l hl⟩
    exact (List.all_eq_true.mp hs_items) l.abs (List.mem_map_of_mem hl))
  refine Seg.append hitems ?_
  intro cs2 hc2 hp2
  simp only [Nat.zero_add] at hp2
  cases hcov : c.cov with
  | none =>
    simp only [List.nil_append]
    have hk : c.kind = .obs ∨ c.kind = .hdiffs := by
      rw [hcov] at hs_kind
      revert hs_kind
      cases c.kind <;> simp
    have hf := finish_nocov c.kind cs2.ctx c.inh _ hk hp2 hinh
    have hstop : stop c.kind.state = .goto .point_obs (some c.kind.finish) := by cases c.kind <;> rfl
    have e := stop_finish_ok cs2 _ _ _ c.pd hc2 hstop (by rw [hv_pd]; exact hf.1)
    exact Seg.single cs2 _ _ _ ⟨e.1, e.2.1, by rw [e.2.2]; exact hf.2⟩
  | some cv =>
    rw [hcov] at hv_cov hx_cov
    simp only [CovEl'.valid, Bool.and_eq_true, beq_iff_eq] at hv_cov
    obtain ⟨⟨hr, hdim⟩, hwords⟩ := hv_cov
    simp only [CovEl'.valuesOk, Bool.and_eq_true] at hx_cov
    have hdimv : cv.dim = c.count := by simp [CovEl'.dim, hdim]
    simp only [CovEl'.events, List.cons_append, List.append_assoc]
    have hstartc : start c.kind.state .cov_mat = .run c.kind.covHandler := by cases c.kind <;> rfl
    have e2 := start_event_ok cs2 c.kind.state c.kind.covState .cov_mat cv.attrs c.kind.covHandler hc2 hstartc h_cov
      (by intro hn; exfalso; revert hn; cases c.kind <;> decide) hx_cov.1 (by rw [rulesOk_cov]; exact hr)
    have hcs := cov_start_ctx c.kind cs2.ctx cv.attrs (names_of_attrsDocOk .cov_mat cv.attrs hx_cov.1)
    refine Seg.cons (P := fun x => x.standpointId = c.inh ∧ x.covData = [] ∧ x.nobs = c.count ∧ x.idim = cv.dim ∧
      x.iband = cv.band) ⟨e2.1, e2.2.1, ?_⟩ ?_
    · rw [e2.2.2]
      exact ⟨hcs.1.trans hp2.1, hcs.2.1.trans hp2.2.2.1, hcs.2.2.1.trans hp2.2.2.2, hcs.2.2.2.1, hcs.2.2.2.2⟩
    intro cs3 hc3 hp3
    have hct : covTextState c.kind.covState = true := by cases c.kind <;> decide
    refine Seg.append (text_seg c.kind.covState h_txt cv.text cs3 hc3) ?_
    intro cs4 hc4 hp4
    simp only [hct, if_true] at hp4
    have hstopc : stop c.kind.covState = .goto c.kind.afterCov none := by cases c.kind <;> rfl
    have e4 := stop_plain_ok cs4 _ _ true hc4 hstopc
    refine Seg.cons (P := fun x => x = cs4.ctx) ⟨e4.1, e4.2.1, e4.2.2⟩ ?_
    intro cs5 hc5 hp5
    have hstopa : stop c.kind.afterCov = .goto .point_obs (some c.kind.finish) := by cases c.kind <;> rfl
    have hf := finish_cov c.kind cs5.ctx c.inh c.count cv.dim cv.band cv.text.flatten
      (by rw [hp5, hp4]; exact hp3.1) hinh (by rw [hp5, hp4]; exact hp3.2.2.2.1) (by rw [hp5, hp4]; exact hp3.2.2.2.2)
      (by rw [hp5, hp4]; exact hp3.2.2.1) (by rw [hp5, hp4]; simp [hp3.2.1]) hdimv
      (by rw [hdimv]; exact cov_dim_pos cv.attrs c.count hr hdim) (by rw [band_elems_table]; exact hwords) hx_cov.2
    have e5 := stop_finish_ok cs5 _ _ _ c.pd hc5 hstopa (by rw [hv_pd]; exact hf.1)
    exact Seg.single cs5 _ _ _ ⟨e5.1, e5.2.1, by rw [e5.2.2]; exact hf.2⟩

/-! ### points-observations, network, document -/

theorem inv0_plain (ctx : Ctx) (h : Handler) (as : List CAttr) (h1 : plainEff (effects (valueHandler h)) = true)
    (h2 : plainEff (effects h) = true) (h0 : Inv0 ctx) : Inv0 (startCtx ctx h as) := by
  have hp := startCtx_plain ctx h as h1 h2
  exact ⟨hp.1.trans h0.1, hp.2.1.trans h0.2.1, hp.2.2.2.1.trans h0.2.2⟩

theorem inv0_sameBut {c0 c : Ctx} (h0 : Inv0 c0) (h : SameBut c0 c) : Inv0 c :=
  ⟨h.1.trans h0.1, h.2.1.trans h0.2.1, h.2.2.2.trans h0.2.2⟩

theorem poitem_seg (p : POItem') (cs : CSt) (hc : Clean cs.st .point_obs) (h0 : Inv0 cs.ctx)
    (hshape : p.abs.valid = true) (hv : p.valid = true) (hvals : p.valuesOk = true) :
    Seg cs p.events .point_obs Inv0 := by
  cases p with
  | point l =>
    simp only [POItem'.abs, POItem.valid, Leaf'.abs, Bool.and_eq_true, beq_iff_eq] at hshape
    have T := spine_leaf_table
    obtain ⟨h, _, hseg⟩ := leaf_seg cs .point_obs l hc (by rw [hshape.1]; exact T.1)
      (by rw [hshape.1, T.2.2.1]; intro hh; cases hh) hvals (by rw [h0.1]; exact hv)
    exact Seg.mono hseg (fun c hcx => inv0_sameBut h0 hcx.1)
  | cluster c => exact cluster_seg c cs hc h0 hshape hv hvals

theorem spine_ctx_table :
    start .network .description = .set .description ∧ textAccepting .description = true ∧
    covTextState .description = false ∧ stop .description = .goto .network none ∧
    start .network .points_observations = .run .point_obs_ ∧ plainEff (effects (valueHandler .point_obs_)) = true ∧
    plainEff (effects .point_obs_) = true ∧ stop .point_obs = .goto .network none ∧
    start .start_ .gama_xml = .run .gama_xml_ ∧ plainEff (effects (valueHandler .gama_xml_)) = true ∧
    plainEff (effects .gama_xml_) = true ∧
    start .gama_xml .network = .run .network_ ∧ plainEff (effects (valueHandler .network_)) = true ∧
    plainEff (effects .network_) = true ∧
    stop .network = .goto .gama_xml none ∧ stop .gama_xml = .goto .stop_ none := by decide

theorem netitem_seg (i : NetItem') (cs : CSt) (hc : Clean cs.st .network) (h0 : Inv0 cs.ctx)
    (hshape : i.abs.valid = true) (hv : i.valid = true) (hvals : i.valuesOk = true) :
    Seg cs i.events .network Inv0 := by
  have T := spine_table
  have U := spine_ctx_table
  cases i with
  | description text =>
    simp only [NetItem'.events]
    have e1 := start_set_ok cs .network .description .description hc U.1
    refine Seg.cons (P := fun c => c = cs.ctx) e1 ?_
    intro cs1 hc1 hp1
    refine Seg.append (text_seg .description U.2.1 text cs1 hc1) ?_
    intro cs2 hc2 hp2
    simp only [U.2.2.1, Bool.false_eq_true, if_false] at hp2
    have e3 := stop_plain_ok cs2 _ _ true hc2 U.2.2.2.1
    exact Seg.single cs2 _ _ _ ⟨e3.1, e3.2.1, by rw [e3.2.2, hp2, hp1]; exact h0⟩
  | parameters as =>
    have S := spine_leaf_table
    obtain ⟨h, _, hseg⟩ := leaf_seg cs .network ⟨.parameters, as⟩ hc S.2.1
      (by simp only; rw [S.2.2.2]; intro hh; cases hh) hvals (by rw [h0.1]; exact hv)
    exact Seg.mono hseg (fun c hcx => inv0_sameBut h0 hcx.1)
  | pointsObs as items =>
    simp only [NetItem'.abs, NetItem.valid, Bool.and_eq_true] at hshape
    simp only [NetItem'.valid, Bool.and_eq_true] at hv
    simp only [NetItem'.valuesOk, Bool.and_eq_true] at hvals
    simp only [NetItem'.events]
    have e1 := start_event_ok cs .network .point_obs .points_observations as .point_obs_ hc U.2.2.2.2.1
      T.2.2.2.2.2.2.2.1 (by rw [T.2.2.2.2.2.2.2.2.2.2.2.2.2.1]; intro hh; cases hh) hvals.1 (by rw [h0.1]; exact hv.1)
    refine Seg.cons (P := Inv0) ⟨e1.1, e1.2.1, ?_⟩ ?_
    · rw [e1.2.2]; exact inv0_plain _ _ _ U.2.2.2.2.2.1 U.2.2.2.2.2.2.1 h0
    intro cs1 hc1 hp1
    refine Seg.append (Seg.flatMap .point_obs Inv0 POItem'.events items cs1 ?_ hc1 hp1) ?_
    · intro p hp cs' hc' h0'
      exact poitem_seg p cs' hc' h0' ((List.all_eq_true.mp hshape.2) p.abs (List.mem_map_of_mem hp))
        ((List.all_eq_true.mp hv.2) p hp) ((List.all_eq_true.mp hvals.2) p hp)
    intro cs2 hc2 hp2
    have e3 := stop_plain_ok cs2 _ _ true hc2 U.2.2.2.2.2.2.2.1
    exact Seg.single cs2 _ _ _ ⟨e3.1, e3.2.1, by rw [e3.2.2]; exact hp2⟩

theorem inv0_init : Inv0 CSt.init.ctx := ⟨rfl, rfl, rfl⟩

/-- the whole document: every documented condition of the parser's bookkeeping holds along its events -/
theorem doc_seg (d : Doc') (hv : d.valid = true) (hvals : d.valuesOk = true) : Seg CSt.init d.events .stop_ Inv0 := by
  have T := spine_table
  have U := spine_ctx_table
  simp only [Doc'.valid, Bool.and_eq_true] at hv
  obtain ⟨⟨⟨hshape, hr1⟩, hr2⟩, hitems⟩ := hv
  simp only [Doc.valid, Doc'.abs, Bool.and_eq_true] at hshape
  simp only [Doc'.valuesOk, Bool.and_eq_true] at hvals
  unfold Doc'.events
  have hc0 : Clean CSt.init.st .start_ := ⟨rfl, rfl⟩
  have e1 := start_event_ok CSt.init .start_ .gama_xml .gama_xml d.attrs .gama_xml_ hc0 U.2.2.2.2.2.2.2.2.1 T.1
    (by rw [T.2.2.2.2.2.2.2.2.2.2.2.2.2.2.2.1]; intro hh; cases hh) hvals.1.1 hr1
  refine Seg.cons (P := Inv0) ⟨e1.1, e1.2.1, ?_⟩ ?_
  · rw [e1.2.2]; exact inv0_plain _ _ _ U.2.2.2.2.2.2.2.2.2.1 U.2.2.2.2.2.2.2.2.2.2.1 inv0_init
  intro cs1 hc1 hp1
  have e2 := start_event_ok cs1 .gama_xml .network .network d.netAttrs .network_ hc1 U.2.2.2.2.2.2.2.2.2.2.2.1 T.2.1
    (by rw [T.2.2.2.2.2.2.2.2.2.2.2.2.2.2.2.2.1]; intro hh; cases hh) hvals.1.2 (by rw [hp1.1]; exact hr2)
  refine Seg.cons (P := Inv0) ⟨e2.1, e2.2.1, ?_⟩ ?_
  · rw [e2.2.2]; exact inv0_plain _ _ _ U.2.2.2.2.2.2.2.2.2.2.2.2.1 U.2.2.2.2.2.2.2.2.2.2.2.2.2.1 hp1
  intro cs2 hc2 hp2
  refine Seg.append (Seg.flatMap .network Inv0 NetItem'.events d.items cs2 ?_ hc2 hp2) ?_
  · intro i hi cs' hc' h0'
    exact netitem_seg i cs' hc' h0' ((List.all_eq_true.mp hshape.2) i.abs (List.mem_map_of_mem hi))
      ((List.all_eq_true.mp hitems) i hi) ((List.all_eq_true.mp hvals.2) i hi)
  intro cs3 hc3 hp3
  have e3 := stop_plain_ok cs3 _ _ true hc3 U.2.2.2.2.2.2.2.2.2.2.2.2.2.2.1
  refine Seg.cons (P := Inv0) ⟨e3.1, e3.2.1, by rw [e3.2.2]; exact hp3⟩ ?_
  intro cs4 hc4 hp4
  have e4 := stop_plain_ok cs4 _ _ true hc4 U.2.2.2.2.2.2.2.2.2.2.2.2.2.2.2
  exact Seg.single cs4 _ _ _ ⟨e4.1, e4.2.1, by rw [e4.2.2]; exact hp4⟩

/-- `Doc'.valid d ∧ Doc'.valuesOk d → allDocOk CSt.init d.events` -/
theorem allDocOk_of_valid (d : Doc') (hv : d.valid = true) (hvals : d.valuesOk = true) :
    allDocOk CSt.init d.events = true := (doc_seg d hv hvals).1

/-! ### the events of a `Doc'` have the shape of its grammar document -/

theorem leaf_shape (l : Leaf') : l.events.map shape = l.abs.events := rfl

theorem text_shape (ts : List (List Char)) : (ts.map CEvent.text).map shape = ts.map Event.text := by
  simp [List.map_map, Function.comp_def, shape]

theorem cov_shape (c : CovEl') : c.events.map shape = c.abs.events := by
  simp [CovEl'.events, CovEl.events, CovEl'.abs, text_shape, shape]

theorem flatMap_shape {α β : Type} (f : α → List CEvent) (g : β → List Event) (ab : α → β)
    (h : ∀ a, (f a).map shape = g (ab a)) : ∀ l : List α, (l.flatMap f).map shape = (l.map ab).flatMap g := by
  intro l
  induction l with
  | nil => rfl
  | cons a r ih => simp [List.flatMap_cons, h a, ih]

theorem cluster_shape (c : Cluster') : c.events.map shape = c.abs.events := by
  simp only [Cluster'.events, Cluster.events, Cluster'.abs, List.map_cons, List.map_append,
    flatMap_shape Leaf'.events Leaf.events Leaf'.abs leaf_shape]
  cases c.cov with
  | none => simp [shape]
  | some cv => simp [shape, cov_shape]

theorem poitem_shape (p : POItem') : p.events.map shape = p.abs.events := by
  cases p with
  | point l => exact leaf_shape l
  | cluster c => exact cluster_shape c

theorem netitem_shape (i : NetItem') : i.events.map shape = i.abs.events := by
  cases i with
  | description text => simp [NetItem'.events, NetItem.events, NetItem'.abs, text_shape, shape, absAttrs]
  | parameters as => rfl
  | pointsObs as items =>
    simp [NetItem'.events, NetItem.events, NetItem'.abs, shape,
      flatMap_shape POItem'.events POItem.events POItem'.abs poitem_shape]

theorem doc_shape (d : Doc') : d.events.map shape = d.abs.events := by
  simp [Doc'.events, Doc.events, Doc'.abs, shape, flatMap_shape NetItem'.events NetItem.events NetItem'.abs netitem_shape]

/-! ### the converse table: every documented rule IS enforced by a refusal of the handler -/

def enforcedBy (g : Handler) (r : Rule) : Bool :=
  (requiredVars g).any (fun v => coversReq g v r) || (requiredPairs g).any (fun p => coversPair g p r) ||
  (crossRules g).any (fun c => coversCross g c r)

/-- every documented rule of an element corresponds to a required variable, a pair rule or a constructor refusal of
    its handler (a `return error(..)` dropped from a `process_*` makes this false) -/
def rulesEnforced (g : Handler) : Bool := (docRules g).all (enforcedBy g)

theorem rules_enforced_table : ∀ g : Handler, rulesEnforced g = true := forall_handler (by decide)

theorem req_component (ctx : Ctx) (g : Handler) (as : List CAttr) (v : String) (r : Rule)
    (hdoc : ∀ a ∈ as, a.name ∈ docNames g) (hcov : coversReq g v r = true) :
    (!(if pointIdVars.contains v then normId (env ctx g as v) else env ctx g as v).isEmpty) =
      ruleOk ctx.standpointId as r := by
  cases r with
  | req n =>
    simp only [coversReq, Bool.and_eq_true, Bool.not_eq_true'] at hcov
    simp only [ruleOk, hcov.2, env_plain ctx g as n v hdoc hcov.1, Bool.false_eq_true, if_false]
  | reqId n =>
    simp only [coversReq, Bool.and_eq_true] at hcov
    simp only [ruleOk, hcov.2, env_plain ctx g as n v hdoc hcov.1, if_true]
  | reqFrom =>
    simp only [coversReq, Bool.and_eq_true, Bool.not_eq_true', beq_iff_eq] at hcov
    simp only [ruleOk, hcov.2, env_from ctx g as v hdoc hcov.1.1 hcov.1.2, Bool.false_eq_true, if_false]
  | inherited =>
    simp only [coversReq, Bool.and_eq_true, Bool.not_eq_true', beq_iff_eq] at hcov
    simp only [ruleOk, hcov.2, env_unbound ctx g as v hdoc hcov.1.1, hcov.1.2, srcVal, Bool.false_eq_true, if_false]
  | pair a b => simp [coversReq] at hcov
  | positive n c => simp [coversReq] at hcov
  | distinctFrom n => simp [coversReq] at hcov
  | less a b => simp [coversReq] at hcov

theorem pair_component (ctx : Ctx) (g : Handler) (as : List CAttr) (p : String × String) (r : Rule)
    (hdoc : ∀ a ∈ as, a.name ∈ docNames g) (hcov : coversPair g p r = true) :
    ((env ctx g as p.1).isEmpty || !(env ctx g as p.2).isEmpty) = ruleOk ctx.standpointId as r := by
  cases r with
  | pair a b =>
    simp only [coversPair, Bool.and_eq_true] at hcov
    simp only [ruleOk, env_plain ctx g as a p.1 hdoc hcov.1, env_plain ctx g as b p.2 hdoc hcov.2]
  | req n => simp [coversPair] at hcov
  | reqId n => simp [coversPair] at hcov
  | reqFrom => simp [coversPair] at hcov
  | inherited => simp [coversPair] at hcov
  | positive n c => simp [coversPair] at hcov
  | distinctFrom n => simp [coversPair] at hcov
  | less a b => simp [coversPair] at hcov

theorem cross_component (ctx : Ctx) (g : Handler) (as : List CAttr) (c : Cross) (r : Rule)
    (hdoc : ∀ a ∈ as, a.name ∈ docNames g) (hcov : coversCross g c r = true) :
    crossOk ctx g as c = ruleOk ctx.standpointId as r := by
  cases c with
  | positive v cv =>
    cases r with
    | positive n c' =>
      simp only [coversCross, Bool.and_eq_true, beq_iff_eq] at hcov
      simp only [ruleOk, crossOk, env_plain ctx g as n v hdoc hcov.1, hcov.2]
    | _ => simp [coversCross] at hcov
  | nonnegative v cv => cases r <;> simp [coversCross] at hcov
  | distinct a b =>
    cases r with
    | distinctFrom n =>
      simp only [coversCross, Bool.and_eq_true, beq_iff_eq] at hcov
      simp only [ruleOk, crossOk, env_from ctx g as a hdoc hcov.1.1 hcov.1.2, env_plain ctx g as n b hdoc hcov.2]
    | _ => simp [coversCross] at hcov
  | less a b =>
    cases r with
    | less na nb =>
      simp only [coversCross, Bool.and_eq_true] at hcov
      simp only [ruleOk, crossOk, env_plain ctx g as na a hdoc hcov.1, env_plain ctx g as nb b hdoc hcov.2]
      cases toIndex (attrStr as na) <;> cases toIndex (attrStr as nb) <;> rfl
    | _ => simp [coversCross] at hcov

/-- an element (documented attribute names) that breaks one of its documented rules fails the handler's checks -/
theorem handlerOk_false_of_rule (ctx : Ctx) (g : Handler) (as : List CAttr) (r : Rule)
    (hdoc : ∀ a ∈ as, a.name ∈ docNames g) (hr : r ∈ docRules g) (hbad : ruleOk ctx.standpointId as r = false) :
    handlerOk ctx g as = false := by
  have T := rules_cover_table g
  simp only [rulesCover, Bool.and_eq_true, Bool.or_eq_true, beq_iff_eq] at T
  have hex : examined g as = as := by
    rcases T.1.1.1 with he | hl
    · have : docRules g = [] := by simpa using he
      rw [this] at hr; cases hr
    · simp only [examined, hl]
  have E := (List.all_eq_true.mp (rules_enforced_table g)) r hr
  simp only [enforcedBy, Bool.or_eq_true, List.any_eq_true] at E
  simp only [handlerOk, hex]
  rcases E with (⟨v, hv, hcov⟩ | ⟨p, hp, hcov⟩) | ⟨c, hc, hcov⟩
  · have : requiredOk ctx g as = false := by
      rw [Bool.eq_false_iff]
      intro hall
      have := (List.all_eq_true.mp hall) v hv
      rw [req_component ctx g as v r hdoc hcov, hbad] at this
      cases this
    simp [this]
  · have : pairsOk ctx g as = false := by
      rw [Bool.eq_false_iff]
      intro hall
      have := (List.all_eq_true.mp hall) p hp
      rw [pair_component ctx g as p r hdoc hcov, hbad] at this
      cases this
    simp [this]
  · have : crossAllOk ctx g as = false := by
      rw [Bool.eq_false_iff]
      intro hall
      have := (List.all_eq_true.mp hall) c hc
      rw [cross_component ctx g as c r hdoc hcov, hbad] at this
      cases this
    simp [this]

/-- both closing tags of a cluster compare `dim` with the number of observations (`finish_*`) -/
theorem finish_checks_dim_table : ∀ f : Finish, (finishSpec f).checksDim = true := by intro f; cases f <;> decide

theorem finishOk_false_of_dim (ctx : Ctx) (f : Finish) (pd : Bool) (h1 : ctx.idim ≠ 0) (h2 : ctx.idim ≠ ctx.nobs) :
    finishOk ctx f pd = false := by
  have a : (ctx.idim == 0) = false := by simpa using h1
  have b : (ctx.idim == ctx.nobs) = false := by simpa using h2
  simp [finishOk, finish_checks_dim_table f, a, b]

/-- an end tag whose `finish_*` refuses records `finish` at this event, whatever follows, and the document is refused
    with that location (the index stands for the line of the closing tag) -/
theorem finish_fail_located (pre post : List CEvent) (pd : Bool) (s1 : State) (f : Finish)
    (hclean : (crun CSt.init pre).st.err = none)
    (hstop : stop (crun CSt.init pre).st.state = .goto s1 (some f))
    (hf : finishOk (crun CSt.init pre).ctx f pd = false) :
    (crun CSt.init (pre ++ .stop pd :: post)).st.err = some (pre.length, .finish) ∧
    outcome (crun CSt.init (pre ++ .stop pd :: post)).st = .refused (some (pre.length, .finish)) := by
  have hn : (crun CSt.init pre).st.n = pre.length := by
    rw [crun_st, run_n, absEvents_length]; simp [CSt.init, St.init]
  have hstep : (cstep (crun CSt.init pre) (.stop pd)).st.err = some (pre.length, .finish) := by
    simp only [cstep, toAbs, hstop, hf, step, react, St.error, hclean, Bool.false_eq_true, if_false]
    rw [← hn]
  have herr : (crun CSt.init (pre ++ .stop pd :: post)).st.err = some (pre.length, .finish) := by
    rw [crun_append, crun_cons, crun_st]
    exact run_err_preserved _ _ _ hstep
  refine ⟨herr, ?_⟩
  have hst : (crun CSt.init (pre ++ .stop pd :: post)).st.state = .error_ := by
    have h1 := crun_st (pre ++ .stop pd :: post) CSt.init
    have h2 := run_errImplies (absEvents CSt.init (pre ++ .stop pd :: post)) St.init (fun h0 => by cases h0)
    rw [h1] at herr ⊢
    have herr' : (run St.init (absEvents CSt.init (pre ++ .stop pd :: post))).err = some (pre.length, .finish) := herr
    exact h2 (by rw [herr']; rfl)
  simp [outcome, hst, herr]

end Gama.Gkf
