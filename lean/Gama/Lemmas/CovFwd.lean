/-
  `Adj::forwardSubstitution(chol, v)` (lib/gnu_gama/adj/adj.cpp; model `forwardSubst` in
  Model/BandChol.lean) solves the lower-triangular band system  L̃ x = v,
  L̃(i,j) = chol(i,j) for j ≤ i  (`chol(i,j)` reads 0 outside the band), and the solution of
  such a system is unique when the diagonal is non-zero — so the dense and the sparse forward
  substitution must agree.

  The loop is first analysed for an arbitrary coefficient function `g i j` over a field
  (`fwdGen`); `forwardSubst` at the `Scalar` structure `fieldScalar K sqrt` is definitionally
  `fwdGen (chol.get · ·)`.
-/
import Gama.Lemmas.CovGetSet
import Gama.Lemmas.CovField
import Gama.Model.BandChol
import Mathlib.Algebra.BigOperators.Intervals
import Mathlib.Tactic.Ring
import Mathlib.Tactic.Linarith
namespace Gama.Cov

section Gen
variable {K : Type} [Field K]

/-- `for j = m .. m+n-1: acc -= f j` -/
theorem foldl_sub_eq (f : Nat → K) (a : K) (m n : Nat) :
    (List.range' m n).foldl (fun acc j => acc - f j) a = a - ∑ j ∈ Finset.Ico m (m + n), f j := by
  induction n with
  | zero => simp
  | succ n ih =>
    rw [List.range'_1_concat, List.foldl_append, ih, List.foldl_cons, List.foldl_nil,
      ← Nat.add_assoc, Finset.sum_Ico_succ_top (Nat.le_add_right m n)]
    ring

omit [Field K] in
theorem getD_setIfInBounds (x : Array K) (n k : Nat) (a z : K) :
    (x.setIfInBounds n a).getD k z = if k = n ∧ n < x.size then a else x.getD k z := by
  by_cases hk : k < x.size
  · by_cases e : k = n
    · subst e
      simp [Array.getD, hk]
    · have e' : n ≠ k := fun h => e h.symm
      simp [Array.getD, hk, e, e']
  · have : ¬ (k = n ∧ n < x.size) := by rintro ⟨rfl, h⟩; exact hk h
    simp [Array.getD, hk, this]

/-- one iteration of the outer loop of `Adj::forwardSubstitution` with coefficients `g` -/
def fwdStep (g : Nat → Nat → K) (b : Nat) (x : Array K) (i : Nat) : Array K :=
  let m := if i > b + 1 then i - b else 1
  let s := (List.range' m (i - m)).foldl (fun acc j => acc - g i j * x.getD (j - 1) 0)
    (x.getD (i - 1) 0)
  x.setIfInBounds (i - 1) (s / g i i)

/-- rows `1 .. n` -/
def fwdGen (g : Nat → Nat → K) (b n : Nat) (v : Array K) : Array K :=
  (List.range' 1 n).foldl (fwdStep g b) v

theorem fwdGen_succ (g : Nat → Nat → K) (b n : Nat) (v : Array K) :
    fwdGen g b (n + 1) v = fwdStep g b (fwdGen g b n v) (n + 1) := by
  unfold fwdGen
  rw [List.range'_1_concat, List.foldl_append, List.foldl_cons, List.foldl_nil, Nat.add_comm 1 n]

/-- loop invariant after `n` rows: size unchanged, positions `≥ n` (0-based) untouched,
    equations `1..n` hold (and stay valid: later rows do not write positions `< n`) -/
theorem fwdGen_inv (g : Nat → Nat → K) (b : Nat) (v : Array K)
    (hg0 : ∀ i j, j + b < i → g i j = 0) (N : Nat)
    (hd : ∀ i, 1 ≤ i → i ≤ N → g i i ≠ 0) (hN : N ≤ v.size) :
    ∀ n, n ≤ N →
      (fwdGen g b n v).size = v.size ∧
      (∀ k, n ≤ k → (fwdGen g b n v).getD k 0 = v.getD k 0) ∧
      ∀ i, 1 ≤ i → i ≤ n →
        ∑ j ∈ Finset.Icc 1 i, g i j * (fwdGen g b n v).getD (j - 1) 0 = v.getD (i - 1) 0 := by
  intro n
  induction n with
  | zero =>
    intro _
    refine ⟨rfl, fun _ _ => rfl, ?_⟩
    intro i h1 h2; omega
  | succ n ih =>
    intro hn
    obtain ⟨hsz, hun, heq⟩ := ih (by omega)
    rw [fwdGen_succ]
    generalize fwdGen g b n v = x at hsz hun heq
    have hgd : g (n + 1) (n + 1) ≠ 0 := hd (n + 1) (by omega) hn
    have hnx : n < x.size := by omega
    -- the new array
    have hx' : ∀ k, (fwdStep g b x (n + 1)).getD k 0 =
        if k = n then
          ((List.range' (if n + 1 > b + 1 then n + 1 - b else 1)
              (n + 1 - (if n + 1 > b + 1 then n + 1 - b else 1))).foldl
            (fun acc j => acc - g (n + 1) j * x.getD (j - 1) 0) (x.getD n 0)) / g (n + 1) (n + 1)
        else x.getD k 0 := by
      intro k
      unfold fwdStep
      simp only [Nat.add_sub_cancel]
      rw [getD_setIfInBounds]
      by_cases e : k = n
      · rw [if_pos ⟨e, hnx⟩, if_pos e]
      · rw [if_neg (fun h => e h.1), if_neg e]
    refine ⟨?_, ?_, ?_⟩
    · unfold fwdStep
      simp only [Array.size_setIfInBounds]
      exact hsz
    · intro k hk
      rw [hx' k, if_neg (by omega)]
      exact hun k (by omega)
    · intro i hi1 hi2
      by_cases hi : i ≤ n
      · rw [← heq i hi1 hi]
        refine Finset.sum_congr rfl fun j hj => ?_
        rw [Finset.mem_Icc] at hj
        rw [hx' (j - 1), if_neg (by omega)]
      · have ei : i = n + 1 := by omega
        subst ei
        rw [Finset.sum_Icc_succ_top (by omega), Nat.add_sub_cancel, hx' n, if_pos rfl,
          mul_div_cancel₀ _ hgd]
        -- lower part: unchanged entries
        have hlow : ∑ j ∈ Finset.Icc 1 n, g (n + 1) j * (fwdStep g b x (n + 1)).getD (j - 1) 0 =
            ∑ j ∈ Finset.Icc 1 n, g (n + 1) j * x.getD (j - 1) 0 := by
          refine Finset.sum_congr rfl fun j hj => ?_
          rw [Finset.mem_Icc] at hj
          rw [hx' (j - 1), if_neg (by omega)]
        rw [hlow, foldl_sub_eq (fun j => g (n + 1) j * x.getD (j - 1) 0)]
        -- the coded range m..n against 1..n
        obtain ⟨m, hm⟩ : ∃ m, m = (if n + 1 > b + 1 then n + 1 - b else 1) := ⟨_, rfl⟩
        rw [← hm]
        have hm1 : 1 ≤ m := by rw [hm]; split_ifs <;> omega
        have hm2 : m ≤ n + 1 := by rw [hm]; split_ifs <;> omega
        have hmb : ∀ j, j < m → j + b < n + 1 ∨ j = 0 := by
          intro j hj; rw [hm] at hj; split_ifs at hj <;> omega
        have e1 : m + (n + 1 - m) = n + 1 := by omega
        rw [e1]
        have hIcc : Finset.Icc 1 n = Finset.Ico 1 (n + 1) := by
          ext t; simp only [Finset.mem_Icc, Finset.mem_Ico]; omega
        rw [hIcc, ← Finset.sum_Ico_consecutive _ hm1 hm2]
        have hzero : ∑ j ∈ Finset.Ico 1 m, g (n + 1) j * x.getD (j - 1) 0 = 0 := by
          refine Finset.sum_eq_zero fun j hj => ?_
          rw [Finset.mem_Ico] at hj
          rcases hmb j hj.2 with h | h
          · rw [hg0 (n + 1) j h, zero_mul]
          · omega
        rw [hzero, hun n (le_refl _)]
        ring

/-- **forward substitution solves the lower-triangular band system** (generic coefficients) -/
theorem fwdGen_spec (g : Nat → Nat → K) (b : Nat) (v : Array K)
    (hg0 : ∀ i j, j + b < i → g i j = 0) (N : Nat)
    (hd : ∀ i, 1 ≤ i → i ≤ N → g i i ≠ 0) (hN : N ≤ v.size) :
    (fwdGen g b N v).size = v.size ∧
      ∀ i, 1 ≤ i → i ≤ N →
        ∑ j ∈ Finset.Icc 1 i, g i j * (fwdGen g b N v).getD (j - 1) 0 = v.getD (i - 1) 0 :=
  let h := fwdGen_inv g b v hg0 N hd hN N (le_refl _)
  ⟨h.1, h.2.2⟩

/-- a lower-triangular system with non-zero diagonal has at most one solution -/
theorem lower_unique (g : Nat → Nat → K) (N : Nat) (hd : ∀ i, 1 ≤ i → i ≤ N → g i i ≠ 0)
    (x y rhs : Nat → K)
    (hx : ∀ i, 1 ≤ i → i ≤ N → ∑ j ∈ Finset.Icc 1 i, g i j * x (j - 1) = rhs i)
    (hy : ∀ i, 1 ≤ i → i ≤ N → ∑ j ∈ Finset.Icc 1 i, g i j * y (j - 1) = rhs i) :
    ∀ i, 1 ≤ i → i ≤ N → x (i - 1) = y (i - 1) := by
  intro i
  induction i using Nat.strong_induction_on with
  | _ i ih =>
    intro h1 h2
    obtain ⟨k, rfl⟩ : ∃ k, i = k + 1 := ⟨i - 1, by omega⟩
    have ex := hx (k + 1) h1 h2
    have ey := hy (k + 1) h1 h2
    rw [Finset.sum_Icc_succ_top (by omega)] at ex ey
    have hlow : ∑ j ∈ Finset.Icc 1 k, g (k + 1) j * x (j - 1) =
        ∑ j ∈ Finset.Icc 1 k, g (k + 1) j * y (j - 1) := by
      refine Finset.sum_congr rfl fun j hj => ?_
      rw [Finset.mem_Icc] at hj
      rw [ih j (by omega) hj.1 (by omega)]
    rw [hlow] at ex
    have : g (k + 1) (k + 1) * x (k + 1 - 1) = g (k + 1) (k + 1) * y (k + 1 - 1) := by
      have := ex.trans ey.symm
      exact add_left_cancel this
    exact mul_left_cancel₀ (hd (k + 1) h1 h2) this

end Gen

/-! ### `Adj::forwardSubstitution` -/

section Adj
variable {K : Type} [Field K] [LinearOrder K]

/-- the model at `fieldScalar K sqrt` is the generic loop with `g = chol(·,·)` -/
theorem forwardSubst_eq_fwdGen (sqrt : K → K) (chol : CovMat K) (v : Array K) :
    let _ : Scalar K := fieldScalar K sqrt
    forwardSubst chol v = fwdGen (fun i j => chol.get i j) chol.band chol.dim v := rfl

/-- `chol(i,j)` reads 0 below the band -/
theorem get_below_band {K' : Type} [Zero K'] (chol : CovMat K') {i j : Nat}
    (h : j + chol.band < i) : chol.get i j = 0 := by
  rw [CovMat.get_symm]
  exact CovMat.get_outside _ (by omega) (by omega)

/-- **`Adj::forwardSubstitution` solves `L̃ x = v`**, `L̃(i,j) = chol(i,j)` for `j ≤ i`.
    No well-formedness of `chol` is needed (`get` reads 0 outside the band / buffer). -/
theorem forwardSubst_spec (sqrt : K → K) (chol : CovMat K) (v : Array K)
    (hv : v.size = chol.dim)
    (hd : ∀ i, 1 ≤ i → i ≤ chol.dim → (letI := fieldScalar K sqrt; chol.get i i) ≠ 0) :
    let _ : Scalar K := fieldScalar K sqrt
    (forwardSubst chol v).size = v.size ∧
    ∀ i, 1 ≤ i → i ≤ chol.dim →
      (∑ j ∈ Finset.Icc 1 i, chol.get i j * (forwardSubst chol v).getD (j - 1) 0)
        = v.getD (i - 1) 0 := by
  exact fwdGen_spec (fun i j => chol.get i j) chol.band v
    (fun i j h => get_below_band chol h) chol.dim hd (by omega)

/-- **uniqueness**: any `y` satisfying the same equations agrees entrywise with
    `forwardSubst chol v` (so dense and sparse forward substitution agree). -/
theorem forwardSubst_unique (sqrt : K → K) (chol : CovMat K) (v : Array K)
    (hv : v.size = chol.dim)
    (hd : ∀ i, 1 ≤ i → i ≤ chol.dim → (letI := fieldScalar K sqrt; chol.get i i) ≠ 0)
    (y : Array K)
    (hy : ∀ i, 1 ≤ i → i ≤ chol.dim →
      (letI := fieldScalar K sqrt;
        ∑ j ∈ Finset.Icc 1 i, chol.get i j * y.getD (j - 1) 0) = v.getD (i - 1) 0) :
    let _ : Scalar K := fieldScalar K sqrt
    ∀ i, 1 ≤ i → i ≤ chol.dim → y.getD (i - 1) 0 = (forwardSubst chol v).getD (i - 1) 0 := by
  let _ : Scalar K := fieldScalar K sqrt
  have hs := (forwardSubst_spec sqrt chol v hv hd).2
  exact lower_unique (fun i j => chol.get i j) chol.dim hd
    (fun k => y.getD k 0) (fun k => (forwardSubst chol v).getD k 0) (fun i => v.getD (i - 1) 0)
    hy hs

/-- … hence equality of the arrays when the sizes agree. -/
theorem forwardSubst_unique_array (sqrt : K → K) (chol : CovMat K) (v : Array K)
    (hv : v.size = chol.dim)
    (hd : ∀ i, 1 ≤ i → i ≤ chol.dim → (letI := fieldScalar K sqrt; chol.get i i) ≠ 0)
    (y : Array K) (hys : y.size = chol.dim)
    (hy : ∀ i, 1 ≤ i → i ≤ chol.dim →
      (letI := fieldScalar K sqrt;
        ∑ j ∈ Finset.Icc 1 i, chol.get i j * y.getD (j - 1) 0) = v.getD (i - 1) 0) :
    let _ : Scalar K := fieldScalar K sqrt
    y = forwardSubst chol v := by
  let _ : Scalar K := fieldScalar K sqrt
  have hsz := (forwardSubst_spec sqrt chol v hv hd).1
  have hu := forwardSubst_unique sqrt chol v hv hd y hy
  apply Array.ext
  · rw [hys]; exact (hsz.trans hv).symm
  · intro k hk1 hk2
    have := hu (k + 1) (by omega) (by omega)
    simp only [Nat.add_sub_cancel] at this
    simpa [Array.getD, hk1, hk2] using this

/-- non-vacuity: `chol = [[2,·],[1,3]]` (dim 2, band 1, packed buffer `2 1 3`), `v = (4, 11)`
    meet the hypotheses of `forwardSubst_spec` (size, non-zero diagonal). -/
example :
    let chol : CovMat ℚ := ⟨2, 1, #[2, 1, 3]⟩
    (#[4, 11] : Array ℚ).size = chol.dim ∧
    (∀ i, 1 ≤ i → i ≤ chol.dim → (letI := fieldScalar ℚ id; chol.get i i) ≠ 0) := by
  intro chol
  refine ⟨rfl, ?_⟩
  intro i h1 h2
  have : i = 1 ∨ i = 2 := by simp only [chol] at h2; omega
  rcases this with rfl | rfl <;> decide

end Adj

end Gama.Cov
