/-
  C04 round 9 — `denoteOut` of the answer after any history is `specRead` of the current configuration and class
  (Model/NetDenote.lean).  Core Lean only.
-/
import Gama.Model.NetDenote
import Gama.Lemmas.NetStateSolver
namespace Gama.C04.Net
open Gama

variable {K : Type} [TrigScalar K]

theorem snap_snap2 (c : Cfg) : snap (snap c 2) 2 = snap c 2 := rfl

/-- the list the machine calls current IS `np.minx` of the equations of the current configuration -/
theorem curList_of_pe (W : NWorld K) (inp : NInput) (s : NState) (np : Ls.Net.NetProblem K) (u : PE.Unknowns K)
    (h : PE.projectEquations (W (snap s.cfg 2)) = .ok (np, u)) :
    curList (minputOf W inp) s = .given np.minx := by
  simp only [curList, minputOf, lstOf, h]

/-- a solver holding the current list, of the current class, on the equations of the current configuration: the
    adjustment the specification names -/
theorem adjOf_cur (W : NWorld K) (inp : NInput) (s : NState) (cls : String) :
    adjOf W (snap s.cfg 3) (curList (minputOf W inp) s) cls = specRead W cls s.cfg 3 := by
  have h3 : snap s.cfg 3 = s.cfg := rfl
  rw [h3]
  unfold adjOf specRead
  cases ha : algOfClass cls with
  | none => rfl
  | some alg =>
    cases hp : PE.projectEquations (W (snap s.cfg 2)) with
    | error e => rfl
    | ok r =>
      obtain ⟨np, u⟩ := r
      simp only [curList_of_pe W inp s np u hp, SList.toMinx]

theorem denote_step (W : NWorld K) (inp : NInput) (hthr : inp.throws = false) {m : MState}
    (hi : MInv (minputOf W inp) m) (mem : Gen.Member) (hm : mem.WF) :
    denoteOut W (mstep (minputOf W inp) m (.net (.call mem))).2 = mem.reads.map (specRead W m.cls m.net.cfg) := by
  have hs := (nstep_spec inp hthr hi.net (.call mem) hm).2.1
  have h1 : (mstep (minputOf W inp) m (.net (.call mem))).2.1 = nspec m.net.cfg (.call mem) := hs
  have hspec : nspec m.net.cfg (.call mem) = .read (mem.reads.map fun l => (l, some (snap m.net.cfg l))) := rfl
  have hd : denoteOut W (mstep (minputOf W inp) m (.net (.call mem))).2
      = (mem.reads.map fun l => (l, some (snap m.net.cfg l))).map
          (denoteRead W (mstep (minputOf W inp) m (.net (.call mem))).2.2) := by
    have : (mstep (minputOf W inp) m (.net (.call mem))).2
        = ((mstep (minputOf W inp) m (.net (.call mem))).2.1, (mstep (minputOf W inp) m (.net (.call mem))).2.2) := rfl
    rw [this, h1, hspec]
    rfl
  rw [hd, List.map_map]
  apply List.map_congr_left
  intro l hl
  obtain ⟨e, he, hle⟩ := hm.reads l hl
  have he3 := hm.ens e he
  have hl3 : l = 0 ∨ l = 1 ∨ l = 2 ∨ l = 3 := by omega
  rcases hl3 with rfl | rfl | rfl | rfl
  · rfl
  · rfl
  · rfl
  · have hr : readsAdjustment (.call mem) = true := by
      simp only [readsAdjustment, List.contains_eq_mem, decide_eq_true_eq]; exact hl
    have hsol := mstep_reads (minputOf W inp) hthr hi (.call mem) hm hr
    show denoteRead W _ (3, some (snap m.net.cfg 3)) = _
    rw [hsol]
    exact adjOf_cur W inp m.net m.cls

end Gama.C04.Net
