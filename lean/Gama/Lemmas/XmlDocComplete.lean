/-
  C12 round 6 — the matcher `accepts` (Model/XmlDoc.lean) is COMPLETE w.r.t. the generation relation `Gen`: the shape
  of every token sequence a skeleton generates is accepted — any skeleton, any sequence, any size.  Two facts carry it:
  (i) the fuel `sk.size + 1` that `accepts` gives `matchSk` reaches every level of the skeleton (`matchSk_complete`
      is by structural induction on the skeleton, under `sk.size ≤ fuel`);
  (ii) `closure` with fuel `inp.size + 1` returns a set that is CLOSED under one more loop iteration
      (`closure_closed`): every round that does not stop adds a position `< inp.size + 1` that was not yet there, so
      the number of positions still missing (`missing`) strictly decreases and the fuel cannot run out first.
      Iterations that consume nothing (which `matchSk` filters away, `q < r`) do not move the position.
  With `accepts_sound` (Lemmas/XmlDocMatch.lean) this gives `accepts_iff`.
-/
import Gama.Lemmas.XmlDocMatch
namespace Gama.XmlDoc
open Gama.XmlEsc Gama.Gen.XmlSites

/-! ### counting -/

theorem filter_length_le {α : Type} (p q : α → Bool) (hpq : ∀ x, p x = true → q x = true) :
    ∀ L : List α, (L.filter p).length ≤ (L.filter q).length
  | [] => Nat.le_refl _
  | a :: L => by
    have ih := filter_length_le p q hpq L
    simp only [List.filter_cons]
    cases hp : p a with
    | true => simp only [hpq a hp, if_true, List.length_cons]; omega
    | false =>
      cases hq : q a
      · simpa using ih
      · simp only [if_true, List.length_cons, Bool.false_eq_true, if_false]; omega

theorem filter_length_lt {α : Type} (p q : α → Bool) (hpq : ∀ x, p x = true → q x = true) (z : α)
    (hqz : q z = true) (hpz : p z = false) :
    ∀ L : List α, z ∈ L → (L.filter p).length < (L.filter q).length
  | [], h => by simp at h
  | a :: L, h => by
    simp only [List.filter_cons]
    rcases List.mem_cons.mp h with rfl | h'
    · have := filter_length_le p q hpq L
      simp only [hqz, hpz, if_true, List.length_cons, Bool.false_eq_true, if_false]; omega
    · have ih := filter_length_lt p q hpq z hqz hpz L h'
      cases hp : p a with
      | true => simp only [hpq a hp, if_true, List.length_cons]; omega
      | false =>
        cases hq : q a
        · simpa using ih
        · simp only [if_true, List.length_cons, Bool.false_eq_true, if_false]; omega

/-- the number of positions `< N` not yet in `acc` -/
def missing (N : Nat) (acc : List Nat) : Nat := ((List.range N).filter (fun x => !acc.contains x)).length

theorem missing_lt (N : Nat) (acc acc' : List Nat) (hsub : ∀ x ∈ acc, x ∈ acc') (z : Nat) (hz : z < N)
    (hza : z ∉ acc) (hza' : z ∈ acc') : missing N acc' < missing N acc := by
  refine filter_length_lt _ _ ?_ z ?_ ?_ _ (List.mem_range.mpr hz)
  · intro x hx
    simp only [List.contains_eq_mem, Bool.not_eq_eq_eq_not, Bool.not_true, decide_eq_false_iff_not] at hx ⊢
    exact fun h => hx (hsub x h)
  · simpa using hza
  · simpa using hza'

theorem missing_singleton_lt (N p : Nat) (hp : p < N) : missing N [p] < N := by
  have h := missing_lt N [] [p] (by simp) p hp (by simp) (by simp)
  have h0 : missing N [] = N := by
    have : (List.range N).filter (fun _ => true) = List.range N := List.filter_eq_self.mpr (by simp)
    simp [missing, this]
  omega

/-! ### `closure` returns a closed set -/

/-- if every round can only add positions `< N` and the fuel exceeds the number of positions still missing, the result
    of `closure` contains `acc` and is closed under `g` (one more expansion of any of its elements adds nothing) -/
theorem closure_closed (g : Nat → List Nat) (step : List Nat → List Nat)
    (hstep : ∀ fr y, y ∈ step fr ↔ ∃ x ∈ fr, y ∈ g x) (N : Nat) (hg : ∀ x y, y ∈ g x → y < N) :
    ∀ (n : Nat) (fr acc : List Nat),
      (∀ x ∈ acc, x ∈ fr ∨ ∀ y ∈ g x, y ∈ acc) → missing N acc < n →
      (∀ x ∈ acc, x ∈ closure n step fr acc) ∧
      (∀ x ∈ closure n step fr acc, ∀ y ∈ g x, y ∈ closure n step fr acc)
  | 0, _, _, _, hfuel => absurd hfuel (Nat.not_lt_zero _)
  | n + 1, fr, acc, hinv, hfuel => by
    simp only [closure]
    split
    · rename_i hempty
      refine ⟨fun x hx => hx, fun x hx y hy => ?_⟩
      rcases hinv x hx with hfr | hcl
      · have hys : y ∈ step fr := (hstep fr y).mpr ⟨x, hfr, hy⟩
        apply Classical.byContradiction
        intro hya
        have hmem : y ∈ (step fr).filter (fun x => !acc.contains x) := by
          simp only [List.mem_filter, List.contains_eq_mem, Bool.not_eq_eq_eq_not, Bool.not_true,
            decide_eq_false_iff_not]
          exact ⟨hys, hya⟩
        rw [List.isEmpty_iff.mp hempty] at hmem
        simp at hmem
      · exact hcl y hy
    · rename_i hne
      have hnew : ∀ z, z ∈ (step fr).filter (fun x => !acc.contains x) ↔ z ∈ step fr ∧ z ∉ acc := by
        intro z
        simp only [List.mem_filter, List.contains_eq_mem, Bool.not_eq_eq_eq_not, Bool.not_true,
          decide_eq_false_iff_not]
      have hinv' : ∀ x ∈ acc ++ (step fr).filter (fun x => !acc.contains x),
          x ∈ (step fr).filter (fun x => !acc.contains x) ∨
            ∀ y ∈ g x, y ∈ acc ++ (step fr).filter (fun x => !acc.contains x) := by
        intro x hx
        rcases List.mem_append.mp hx with hxa | hxn
        · rcases hinv x hxa with hfr | hcl
          · right
            intro y hy
            have hys : y ∈ step fr := (hstep fr y).mpr ⟨x, hfr, hy⟩
            by_cases hya : y ∈ acc
            · exact List.mem_append_left _ hya
            · exact List.mem_append_right _ ((hnew y).mpr ⟨hys, hya⟩)
          · exact Or.inr (fun y hy => List.mem_append_left _ (hcl y hy))
        · exact Or.inl hxn
      have hfuel' : missing N (acc ++ (step fr).filter (fun x => !acc.contains x)) < n := by
        have hne' : (step fr).filter (fun x => !acc.contains x) ≠ [] := fun h => hne (by rw [h]; rfl)
        obtain ⟨z, hz⟩ := List.exists_mem_of_ne_nil _ hne'
        obtain ⟨hzs, hza⟩ := (hnew z).mp hz
        obtain ⟨x, _, hzx⟩ := (hstep fr z).mp hzs
        have := missing_lt N acc (acc ++ (step fr).filter (fun x => !acc.contains x))
          (fun x hx => List.mem_append_left _ hx) z (hg x z hzx) hza (List.mem_append_right _ hz)
        omega
      have ih := closure_closed g step hstep N hg n _ _ hinv' hfuel'
      exact ⟨fun x hx => ih.1 x (List.mem_append_left _ hx), ih.2⟩

/-! ### positions stay inside the input -/

/-- a position `matchSk` reports from `p` is `p` itself or a position of the input (`≤ inp.size`) -/
theorem matchSk_bound (inp : Array RTok) :
    ∀ (f : Nat) (sk : Sk) (p q : Nat), q ∈ matchSk f sk inp p → q ≤ inp.size ∨ q = p
  | 0, _, _, _, h => by simp [matchSk] at h
  | f + 1, .eps, p, q, h => by
    simp only [matchSk, List.mem_singleton] at h
    exact Or.inr h
  | f + 1, .tok t, p, q, h => by
    simp only [matchSk, List.mem_append] at h
    rcases h with h | h
    · right
      cases t with
      | chars s =>
        simp only at h
        split at h
        · simpa using h
        · simp at h
      | text tag k e => simpa using h
      | _ => simp at h
    · left
      cases hr : inp[p]? with
      | none => simp [hr] at h
      | some r =>
        simp only [hr] at h
        split at h
        · simp only [List.mem_singleton] at h
          obtain ⟨hlt, _⟩ := Array.getElem?_eq_some_iff.mp hr
          omega
        · simp at h
  | f + 1, .seq a b, p, q, h => by
    simp only [matchSk, mem_dedupNat, List.mem_flatMap] at h
    obtain ⟨q1, h1, h2⟩ := h
    rcases matchSk_bound inp f b q1 q h2 with h | h
    · exact Or.inl h
    · subst h; exact matchSk_bound inp f a p q h1
  | f + 1, .alt a b, p, q, h => by
    simp only [matchSk, mem_dedupNat, List.mem_append] at h
    rcases h with h | h
    · exact matchSk_bound inp f a p q h
    · exact matchSk_bound inp f b p q h
  | f + 1, .star a, p, q, h => by
    simp only [matchSk] at h
    refine closure_sub (fun q => q ≤ inp.size ∨ q = p) _ ?_ _ [p] [p] ?_ ?_ q h
    · intro fr _ y hy
      simp only [mem_dedupNat, List.mem_flatMap, List.mem_filter, decide_eq_true_eq] at hy
      obtain ⟨q0, _, hy, hlt⟩ := hy
      rcases matchSk_bound inp f a q0 y hy with h | h
      · exact Or.inl h
      · omega
    · intro x hx; exact Or.inr (by simpa using hx)
    · intro x hx; exact Or.inr (by simpa using hx)

/-! ### tokens -/

/-- the names of the attributes a start tag writes are matched by `attrsMatch` -/
theorem attrsMatch_of_conc {as : List AttrSk} {cs : List (String × Bytes)} (h : AttrsConc as cs) :
    attrsMatch as (cs.map (·.1)) = true := by
  induction h with
  | nil => rfl
  | @skip a as cs ho _ ih =>
    cases cs with
    | nil => simpa [attrsMatch, ho] using ih
    | cons c cs => simp only [List.map_cons, attrsMatch, ho, Bool.true_and] at ih ⊢; simp [ih]
  | @take a as cs b _ _ ih => simp [attrsMatch, ih]

theorem drop_eq_cons_getElem? {α : Type} {l : List α} {p : Nat} {r : α} {rest : List α}
    (h : l.drop p = r :: rest) : l[p]? = some r := by
  have := List.getElem?_drop (xs := l) (i := p) (j := 0)
  rw [h] at this
  simpa using this.symm

theorem drop_add_of_drop_eq {α : Type} {l : List α} {p : Nat} {u rest : List α}
    (h : l.drop p = u ++ rest) : l.drop (p + u.length) = rest := by
  rw [← List.drop_drop, h, List.drop_left]

theorem add_le_of_drop_eq {α : Type} {l : List α} {p : Nat} {u rest : List α} (hp : p ≤ l.length)
    (h : l.drop p = u ++ rest) : p + u.length ≤ l.length := by
  have := congrArg List.length h
  simp only [List.length_drop, List.length_append] at this
  omega

/-- the shape of a concrete token the skeleton token produces is matched at the position where it stands (a
    white-space-only token, of which nothing is sent, leaves the position where it is) -/
theorem matchSk_tok_complete (l : List RTok) {t : TokSk} {c : Tok} (h : Conc t c) (f p : Nat) (rest : List RTok)
    (hd : l.drop p = shape [c] ++ rest) : p + (shape [c]).length ∈ matchSk (f + 1) (.tok t) l.toArray p := by
  simp only [matchSk, List.mem_append, List.getElem?_toArray]
  cases h with
  | decl =>
    right
    have hd' : l.drop p = RTok.decl :: rest := by simpa [shape, rshape] using hd
    simp [shape, rshape, drop_eq_cons_getElem? hd', tokMatch]
  | @stag n as cs e hc =>
    right
    have hd' : l.drop p = RTok.stag n (cs.map (·.1)) e :: rest := by simpa [shape, rshape] using hd
    simp [shape, rshape, drop_eq_cons_getElem? hd', tokMatch, attrsMatch_of_conc hc]
  | @etag n =>
    right
    have hd' : l.drop p = RTok.etag n :: rest := by simpa [shape, rshape] using hd
    simp [shape, rshape, drop_eq_cons_getElem? hd', tokMatch]
  | @comment s =>
    right
    have hd' : l.drop p = RTok.comment :: rest := by simpa [shape, rshape] using hd
    simp [shape, rshape, drop_eq_cons_getElem? hd', tokMatch]
  | @chars s =>
    cases hb : isBlank (bytesOf s) with
    | true => left; simp [shape, rshape, hb]
    | false =>
      right
      have hd' : l.drop p = RTok.chars false :: rest := by simpa [shape, rshape, hb] using hd
      simp [shape, rshape, hb, drop_eq_cons_getElem? hd', tokMatch]
  | @text tag k e b _ =>
    cases hb : isBlank b with
    | true => left; simp [shape, rshape, hb]
    | false =>
      right
      have hd' : l.drop p = RTok.chars false :: rest := by simpa [shape, rshape, hb] using hd
      simp [shape, rshape, hb, drop_eq_cons_getElem? hd', tokMatch]

/-! ### loops -/

/-- a set of positions closed under one (consuming) iteration of the body is closed under any number of iterations -/
theorem star_closed_complete (l : List RTok) (a : Sk) (G : Nat → List Nat)
    (H : ∀ u, Gen a u → ∀ p rest, p ≤ l.length → l.drop p = shape u ++ rest → p + (shape u).length ∈ G p)
    (S : List Nat) (hS : ∀ x ∈ S, ∀ y ∈ (G x).filter (fun r => x < r), y ∈ S) :
    ∀ v, Gen (.star a) v → ∀ x ∈ S, ∀ rest, x ≤ l.length → l.drop x = shape v ++ rest →
      x + (shape v).length ∈ S := by
  intro v hv
  generalize hs : Sk.star a = s at hv
  induction hv with
  | starNil => intro x hx rest _ _; simpa [shape] using hx
  | @starCons a' u v hu _ _ ih =>
    cases hs
    intro x hx rest hxl hd
    rw [shape_append, List.append_assoc] at hd
    have h1 : x + (shape u).length ∈ G x := H u hu x _ hxl hd
    have hx' : x + (shape u).length ∈ S := by
      by_cases h0 : (shape u).length = 0
      · rw [h0]; exact hx
      · exact hS x hx _ (List.mem_filter.mpr ⟨h1, by simp; omega⟩)
    have := ih rfl _ hx' rest (add_le_of_drop_eq hxl hd) (drop_add_of_drop_eq hd)
    rw [shape_append, List.length_append, ← Nat.add_assoc]
    exact this
  | _ => cases hs

/-! ### the matcher is complete -/

/-- **completeness of `matchSk`**: with fuel at least the size of the skeleton, the end position of the shape of every
    generated token sequence that stands in the input at `p` is reported from `p` -/
theorem matchSk_complete (l : List RTok) :
    ∀ (sk : Sk) (f : Nat), sk.size ≤ f → ∀ t', Gen sk t' → ∀ p rest, p ≤ l.length → l.drop p = shape t' ++ rest →
      p + (shape t').length ∈ matchSk f sk l.toArray p := by
  intro sk
  induction sk with
  | eps =>
    intro f hf t' hg p rest _ _
    cases f with
    | zero => simp [Sk.size] at hf
    | succ f => cases hg; simp [matchSk, shape]
  | tok t =>
    intro f hf t' hg p rest _ hd
    cases f with
    | zero => simp [Sk.size] at hf
    | succ f =>
      cases hg with
      | tok hc => exact matchSk_tok_complete l hc f p rest hd
  | seq a b iha ihb =>
    intro f hf t' hg p rest hp hd
    cases f with
    | zero => simp [Sk.size] at hf
    | succ f =>
      simp only [Sk.size] at hf
      cases hg with
      | @seq _ _ u v gu gv =>
        rw [shape_append, List.append_assoc] at hd
        have h1 := iha f (by omega) u gu p _ hp hd
        have h2 := ihb f (by omega) v gv _ rest (add_le_of_drop_eq hp hd) (drop_add_of_drop_eq hd)
        simp only [matchSk, mem_dedupNat, List.mem_flatMap]
        refine ⟨_, h1, ?_⟩
        rw [shape_append, List.length_append, ← Nat.add_assoc]
        exact h2
  | alt a b iha ihb =>
    intro f hf t' hg p rest hp hd
    cases f with
    | zero => simp [Sk.size] at hf
    | succ f =>
      simp only [Sk.size] at hf
      simp only [matchSk, mem_dedupNat, List.mem_append]
      cases hg with
      | altL g => exact Or.inl (iha f (by omega) t' g p rest hp hd)
      | altR g => exact Or.inr (ihb f (by omega) t' g p rest hp hd)
  | star a iha =>
    intro f hf t' hg p rest hp hd
    cases f with
    | zero => simp [Sk.size] at hf
    | succ f =>
      simp only [Sk.size] at hf
      have hcl := closure_closed
        (fun q => (matchSk f a l.toArray q).filter (fun r => q < r))
        (fun fr => dedupNat (fr.flatMap (fun q => (matchSk f a l.toArray q).filter (fun r => q < r))))
        (by intro fr y; simp only [mem_dedupNat, List.mem_flatMap])
        (l.toArray.size + 1)
        (by
          intro x y hy
          simp only [List.mem_filter, decide_eq_true_eq] at hy
          rcases matchSk_bound l.toArray f a x y hy.1 with h | h <;> omega)
        (l.toArray.size + 1) [p] [p] (fun x hx => Or.inl hx)
        (missing_singleton_lt _ p (by simp; omega))
      simp only [matchSk]
      exact star_closed_complete l a (fun q => matchSk f a l.toArray q) (iha f (by omega)) _ hcl.2 t' hg p
        (hcl.1 p (by simp)) rest hp hd

/-- **the matcher is complete**: the shape of every token sequence the skeleton generates is accepted -/
theorem accepts_complete (sk : Sk) (t' : List Tok) (g : Gen sk t') : accepts sk (shape t') = true := by
  simp only [accepts, List.contains_eq_mem, decide_eq_true_eq]
  have := matchSk_complete (shape t') sk (sk.size + 1) (Nat.le_succ _) t' g 0 [] (Nat.zero_le _) (by simp)
  simpa using this

/-- **the matcher decides membership of a shape in the language of the skeleton**: a list of token shapes without
    white-space-only character data is accepted iff it is the shape of a generated token sequence -/
theorem accepts_iff (sk : Sk) (l : List RTok) (hl : ∀ r ∈ l, r ≠ .chars true) :
    accepts sk l = true ↔ ∃ t', Gen sk t' ∧ shape t' = l :=
  ⟨accepts_sound sk l hl, fun ⟨t', g, e⟩ => e ▸ accepts_complete sk t' g⟩

end Gama.XmlDoc
