/-
  C14 — the target-counting loop of `LocalNetwork::revision_observations()` as coded
  (`Gen.targetsBody`, regenerated; interpreter `TStmt.run` in `Model/ReviseTypes.lean`) against its
  closed form: after the loop `targets` is the duplicate-free list (first occurrences, in order) of the
  targets of the ACTIVE directions and `active_directions` is its length — whatever the order of the
  readings and whichever of them are passive.  Core Lean only (imported by `Lemmas/Revise.lean`).
-/
import Gama.Model.Revise
namespace Gama.Rev
variable {K : Type}

/-- what the regenerated loop body does to (`targets`, `active_directions`), for every state: a
    target is recorded and counted when the reading is active and the target is not yet in the set;
    a passive reading leaves both untouched.  (A change of the C++ loop body that alters this —
    e.g. recording the target of a passive reading — breaks this proof.) -/
theorem targetsBody_spec (act : Bool) (to : Nat) (s : TState) :
    (Gen.targetsBody.run act to s).targets =
      (if act = true ∧ to ∉ s.targets then s.targets ++ [to] else s.targets) ∧
    (Gen.targetsBody.run act to s).count =
      (if act = true ∧ to ∉ s.targets then s.count + 1 else s.count) := by
  cases act <;> by_cases h : to ∈ s.targets <;>
    simp [Gen.targetsBody, TStmt.run, TCond.eval, TState.insert, h]

theorem targetStep_spec (s : TState) (o : Obs K) :
    (targetStep s o).targets =
      (if isActiveDir o = true ∧ o.to ∉ s.targets then s.targets ++ [o.to] else s.targets) ∧
    (targetStep s o).count =
      (if isActiveDir o = true ∧ o.to ∉ s.targets then s.count + 1 else s.count) := by
  unfold targetStep isActiveDir
  by_cases hd : (o.ty == ObsType.direction) = true
  · simp only [hd, if_true, Bool.true_and]
    exact targetsBody_spec o.active o.to s
  · simp [hd]

/-- the targets of the active directions, in list order -/
def activeTargets (os : List (Obs K)) : List Nat := (os.filter isActiveDir).map (·.to)

theorem activeTargets_cons (o : Obs K) (os : List (Obs K)) :
    activeTargets (o :: os) = if isActiveDir o then o.to :: activeTargets os else activeTargets os := by
  unfold activeTargets
  cases h : isActiveDir o <;> simp [List.filter_cons, h]

/-- loop invariant, from any state: the set grows by the first occurrences of the new targets of
    active readings, the counter by their number -/
theorem foldl_targetStep (os : List (Obs K)) (s : TState) :
    (os.foldl targetStep s).targets =
      s.targets ++ ((activeTargets os).filter (fun t => !decide (t ∈ s.targets))).eraseDups ∧
    (os.foldl targetStep s).count =
      s.count + ((activeTargets os).filter (fun t => !decide (t ∈ s.targets))).eraseDups.length := by
  induction os generalizing s with
  | nil => simp [activeTargets]
  | cons o os ih =>
    rw [List.foldl_cons]
    obtain ⟨ht, hc⟩ := targetStep_spec s o
    obtain ⟨iht, ihc⟩ := ih (targetStep s o)
    rw [iht, ihc, ht, hc, activeTargets_cons]
    by_cases ha : isActiveDir o = true
    · by_cases hm : o.to ∈ s.targets
      · simp [ha, hm]
      · have hf : (fun t => !decide (t ∈ s.targets ++ [o.to])) =
            (fun t => (!t == o.to) && !decide (t ∈ s.targets)) := by
          funext t
          by_cases e : t = o.to
          · simp [e]
          · simp [e, Bool.and_comm]
        simp only [ha, hm, not_false_eq_true, and_self, if_true, List.filter_cons, decide_false,
          Bool.not_false, List.eraseDups_cons, List.length_cons, List.filter_filter, hf]
        constructor
        · simp [List.append_assoc]
        · omega
    · simp [ha]

theorem filter_const_true (l : List Nat) : l.filter (fun _ => true) = l := by
  induction l with
  | nil => rfl
  | cons a l ih => simp

/-- THE LOOP AS CODED COUNTS the distinct targets of the active directions -/
theorem activeDirections_eq (os : List (Obs K)) : activeDirections os = distinctTargets os := by
  unfold activeDirections countTargets distinctTargets
  have := (foldl_targetStep os { targets := [], count := 0, it := false }).2
  simpa [activeTargets, filter_const_true] using this

theorem countTargets_targets (os : List (Obs K)) :
    (countTargets os).targets = (activeTargets os).eraseDups := by
  unfold countTargets
  have := (foldl_targetStep os { targets := [], count := 0, it := false }).1
  simpa [filter_const_true] using this

/-- the regenerated test is `active_directions < 2` -/
theorem standCmp_holds (n : Nat) : Gen.standCmp.holds n Gen.standBound = decide (n < 2) := rfl

theorem standRule_def (c : Cluster K) :
    standRule c =
      if c.stand && decide (distinctTargets c.obs < 2) then { c with obs := c.obs.map passDir } else c := by
  unfold standRule
  rw [standCmp_holds, activeDirections_eq]

/-! ### `eraseDups`: no duplicates, same members -/

theorem nodup_eraseDups : ∀ (n : Nat) (l : List Nat), l.length ≤ n → l.eraseDups.Nodup
  | _, [], _ => by simp
  | 0, _ :: _, h => by simp at h
  | n + 1, a :: l, h => by
    rw [List.eraseDups_cons, List.nodup_cons]
    refine ⟨?_, nodup_eraseDups n _ ?_⟩
    · simp
    · have := List.length_filter_le (fun b => !b == a) l
      simp only [List.length_cons] at h
      omega

/-- the closed form, as a list: duplicate free, and its members are exactly the targets that have
    AT LEAST ONE active reading -/
theorem distinctTargets_char (os : List (Obs K)) :
    (activeTargets os).eraseDups.Nodup ∧
    distinctTargets os = (activeTargets os).eraseDups.length ∧
    ∀ t, t ∈ (activeTargets os).eraseDups ↔
      ∃ o ∈ os, o.ty = .direction ∧ o.active = true ∧ o.to = t := by
  refine ⟨nodup_eraseDups _ _ (Nat.le_refl _), rfl, fun t => ?_⟩
  rw [List.mem_eraseDups]
  unfold activeTargets isActiveDir
  simp only [List.mem_map, List.mem_filter, Bool.and_eq_true, beq_iff_eq]
  constructor
  · rintro ⟨o, ⟨ho, h1, h2⟩, rfl⟩
    exact ⟨o, ho, h1, h2, rfl⟩
  · rintro ⟨o, ho, h1, h2, rfl⟩
    exact ⟨o, ⟨ho, h1, h2⟩, rfl⟩

end Gama.Rev
