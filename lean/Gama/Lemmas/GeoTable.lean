/-
  The regenerated ellipsoid table (Gama/Gen/Ellipsoids.lean): every row yields a
  well-formed ellipsoid over ℝ.  The per-row side conditions are natural-number
  inequalities on the source literals, decided for the whole (finite) table.
-/
import Gama.Lemmas.GeoEllipsoid
namespace Gama.Ellipsoid
open Gama.Gen

/-- decidable side condition on the two literals of a row: 0 < b ≤ a / 0 < f < 1 / 1/f > 1 -/
def rowGood (r : EllRow) : Bool :=
  match r.kind with
  | .ab  => decide (0 < r.p.1) && decide (r.p.1 * 10 ^ r.a.2 ≤ r.a.1 * 10 ^ r.p.2)
  | .af  => decide (0 < r.a.1) && decide (0 < r.p.1) && decide (r.p.1 < 10 ^ r.p.2)
  | .af1 => decide (0 < r.a.1) && decide (10 ^ r.p.2 < r.p.1)

theorem lit_real (p : ℕ × ℕ) : (lit p : ℝ) = (p.1 : ℝ) / (10 : ℝ) ^ p.2 := by
  unfold lit; exact scalar_ofSci_real p.1 p.2

theorem ofRow_wf (r : EllRow) (h : rowGood r = true) : WF (ofRow r : Ellipsoid ℝ) := by
  have h10 : ∀ n : ℕ, (0 : ℝ) < (10 : ℝ) ^ n := fun n => by positivity
  unfold rowGood at h
  unfold ofRow
  cases hk : r.kind <;> simp only [hk, Bool.and_eq_true, decide_eq_true_eq] at h ⊢
  · -- set_ab
    obtain ⟨h1, h2⟩ := h
    apply setAb_wf
    · rw [lit_real]; have : (0 : ℝ) < r.p.1 := by exact_mod_cast h1
      exact div_pos this (h10 _)
    · rw [lit_real, lit_real, div_le_div_iff₀ (h10 _) (h10 _)]
      exact_mod_cast h2
  · -- set_af
    obtain ⟨⟨h1, h2⟩, h3⟩ := h
    apply setAf_wf
    · rw [lit_real]; have : (0 : ℝ) < r.a.1 := by exact_mod_cast h1
      exact div_pos this (h10 _)
    · rw [lit_real]; have : (0 : ℝ) < r.p.1 := by exact_mod_cast h2
      exact div_pos this (h10 _)
    · rw [lit_real, div_lt_one (h10 _)]; exact_mod_cast h3
  · -- set_af1
    obtain ⟨h1, h2⟩ := h
    apply setAf1_wf
    · rw [lit_real]; have : (0 : ℝ) < r.a.1 := by exact_mod_cast h1
      exact div_pos this (h10 _)
    · rw [lit_real, lt_div_iff₀ (h10 _), one_mul]; exact_mod_cast h2

/-- decided for the finite table: re-checked whenever ellipsoids.cpp changes -/
theorem table_good : ∀ r ∈ ellipsoidTable, rowGood r = true := by decide

theorem default_good : rowGood defaultEllipsoid = true := by decide

end Gama.Ellipsoid
