/-
  Correctness of `SymMat<>::invert()` (lib/matvec/symmat.h), model `symInvert1` / `symInvert`
  in `Gama/Model/SymChol.lean`, over a linearly ordered field (`Scalar` structure
  `fieldScalar K sq`):

  * `symInvert_step_spec` : closed form of one outer iteration on the packed 1-based storage
                            (including the "no read after write" argument on the offsets),
  * `exchange_step`       : the algebraic exchange step on full matrices,
  * `symInvert_correct`   : `symInvert n s = .ok r`, no pivot zero  ⇒  `R·A = 1` (and `A·R = 1`).
-/
import Gama.Model.SymChol
import Gama.Lemmas.C15Field
import Gama.Lemmas.SymChol
import Mathlib.Algebra.Order.Field.Basic
import Mathlib.Algebra.BigOperators.Intervals
import Mathlib.Algebra.BigOperators.Ring.Finset
import Mathlib.Algebra.BigOperators.Field
import Mathlib.Tactic.Ring
import Mathlib.Tactic.Linarith
import Mathlib.Tactic.FieldSimp

namespace Gama.MatVec
open Finset

set_option linter.unusedSectionVars false
set_option linter.unusedVariables false

/-! ### the loops of one outer iteration, with the field operations -/

section Loops
variable {K : Type} [Field K] [LinearOrder K] [IsStrictOrderedRing K]

/-- `for (ij=m+2; ij<=ii; ij++) a[ij-i] = a[ij] + q*w(ij-m);` (first `n` iterations) -/
def sinvInner (q : K) (w : Nat → K) (m i : Nat) (n : Nat) (b : Box (Nat → K)) : Box (Nat → K) :=
  forUp n (fun u (b : Box (Nat → K)) =>
    ⟨fset b.val (m + 2 + u - i) (b.val (m + 2 + u) + q * w (m + 2 + u - m)), b.cnt + 1⟩) b

/-- body of the `i` loop -/
def sinvRow (p : K) (k : Nat) (i0 : Nat) (st : SInvSt K) : SInvSt K :=
  ⟨(sinvInner (st.a (st.ii + 1))
      (fset st.w (i0 + 2)
        (if i0 + 2 ≤ k then (-(st.a (st.ii + 1))) / p else st.a (st.ii + 1) / p))
      st.ii (i0 + 2) (st.ii + (i0 + 2) + 1 - (st.ii + 2)) ⟨st.a, 0⟩).val,
   fset st.w (i0 + 2)
     (if i0 + 2 ≤ k then (-(st.a (st.ii + 1))) / p else st.a (st.ii + 1) / p),
   st.ii + (i0 + 2), st.ii⟩

/-- the `i` loop (first `r` iterations) -/
def sinvRows (p : K) (k : Nat) (r : Nat) (st : SInvSt K) : SInvSt K :=
  forUp r (sinvRow p k) st

/-- `for (i=2; i<=n; i++) a[m+i] = w(i);` (first `r` iterations) -/
def sinvFill (m : Nat) (w : Nat → K) (r : Nat) (b : Box (Nat → K)) : Box (Nat → K) :=
  forUp r (fun i0 (b : Box (Nat → K)) => ⟨fset b.val (m + (i0 + 2)) (w (i0 + 2)), b.cnt + 1⟩) b

/-- body of the `k` loop (`k = n - t`) -/
def sinvBody (n t : Nat) (st : SInvSt K) : Except CholErr (SInvSt K) :=
  if st.a 1 < 0 then .error .badRank else
  let st1 := sinvRows (st.a 1) (n - t) (n - 1) { st with ii := 1 }
  .ok ⟨(sinvFill (st1.m - 1) st1.w (n - 1) ⟨fset st1.a st1.ii (1 / st.a 1), 0⟩).val,
       st1.w, st1.ii, st1.m - 1⟩

theorem symInvert1_eq (sq : K → K) (n : Nat) (a : Nat → K) :
    @symInvert1 K (fieldScalar K sq) n a =
      if n = 1 then
        if a 1 < 0 then .error .badRank else .ok (fset a 1 (1 / a 1))
      else
        match forUpM n (sinvBody n) ⟨a, fun _ => 0, 1, 0⟩ with
        | .error e => .error e
        | .ok st => .ok st.a := rfl

theorem symInvert_eq (sq : K → K) (n : Nat) (s : Nat → K) :
    @symInvert K (fieldScalar K sq) n s =
      match @symInvert1 K (fieldScalar K sq) n (fun k => s (k - 1)) with
      | .error e => .error e
      | .ok a => .ok (fun p => a (p + 1)) := rfl

/-- inner loop: the writes go to `c+1 .. c+n` (`c + i = m + 1`), every read is at an offset
    `> c + n`, hence sees the value before the loop -/
theorem sinvInner_spec (q : K) (w : Nat → K) (m i c : Nat) (hc : c + i = m + 1)
    (b : Box (Nat → K)) :
    ∀ n pos, (sinvInner q w m i n b).val pos =
      if c + 1 ≤ pos ∧ pos ≤ c + n then b.val (pos + i) + q * w (pos + 1 - c) else b.val pos := by
  intro n
  induction n with
  | zero =>
    intro pos
    rw [if_neg (by omega)]
    rfl
  | succ n ih =>
    intro pos
    show fset (sinvInner q w m i n b).val (m + 2 + n - i)
      ((sinvInner q w m i n b).val (m + 2 + n) + q * w (m + 2 + n - m)) pos = _
    have e1 : m + 2 + n - i = c + n + 1 := by omega
    have e2 : m + 2 + n = c + n + 1 + i := by omega
    have e3 : c + n + 1 + i - m = c + n + 1 + 1 - c := by omega
    rw [e1, e2, e3]
    by_cases hp : pos = c + n + 1
    · subst hp
      rw [fset_eq, ih, if_neg (by omega), if_pos (by omega)]
    · rw [fset_ne _ _ _ hp, ih]
      by_cases h : c + 1 ≤ pos ∧ pos ≤ c + n
      · rw [if_pos h, if_pos (by omega)]
      · rw [if_neg h, if_neg (by omega)]

theorem sinvFill_spec (m : Nat) (w : Nat → K) (b : Box (Nat → K)) :
    ∀ r pos, (sinvFill m w r b).val pos =
      if m + 2 ≤ pos ∧ pos < m + 2 + r then w (pos - m) else b.val pos := by
  intro r
  induction r with
  | zero =>
    intro pos
    rw [if_neg (by omega)]
    rfl
  | succ r ih =>
    intro pos
    show fset (sinvFill m w r b).val (m + (r + 2)) (w (r + 2)) pos = _
    by_cases hp : pos = m + (r + 2)
    · subst hp
      rw [fset_eq, if_pos (by omega)]
      congr 1
      omega
    · rw [fset_ne _ _ _ hp, ih]
      by_cases h : m + 2 ≤ pos ∧ pos < m + 2 + r
      · rw [if_pos h, if_pos (by omega)]
      · rw [if_neg h, if_neg (by omega)]

/-- `w(j)` of the step with pivot `a[1]`, `k` not yet processed variables -/
def sinvW (k : Nat) (a : Nat → K) (j : Nat) : K :=
  if j ≤ k then (-(a (Tr j + 1))) / a 1 else a (Tr j + 1) / a 1

/-- invariant of the `i` loop: rows `2..r+1` have been moved up-left; everything at an offset
    `> Tr (r+1)` (rows `≥ r+1` of the old matrix) is still untouched -/
theorem sinvRows_spec (k : Nat) (st : SInvSt K) (hii : st.ii = 1) :
    ∀ r,
      (sinvRows (st.a 1) k r st).ii = Tr (r + 2) ∧
      (1 ≤ r → (sinvRows (st.a 1) k r st).m = Tr (r + 1)) ∧
      (∀ j, 2 ≤ j → j ≤ r + 1 → (sinvRows (st.a 1) k r st).w j = sinvW k st.a j) ∧
      (∀ pos, Tr (r + 1) < pos → (sinvRows (st.a 1) k r st).a pos = st.a pos) ∧
      (∀ i j, 2 ≤ j → j ≤ i → i ≤ r + 1 →
        (sinvRows (st.a 1) k r st).a (Tr (i - 1) + (j - 1))
          = st.a (Tr i + j) + st.a (Tr i + 1) * sinvW k st.a j) := by
  intro r
  induction r with
  | zero =>
    refine ⟨hii, fun h => by omega, fun j h1 h2 => by omega, fun _ _ => rfl,
      fun i j h1 h2 h3 => by omega⟩
  | succ r ih =>
    obtain ⟨h1, h2, h3, h4, h5⟩ := ih
    generalize hs : sinvRows (st.a 1) k r st = s1 at h1 h2 h3 h4 h5
    have hstep : sinvRows (st.a 1) k (r + 1) st = sinvRow (st.a 1) k r s1 := by
      rw [← hs]; rfl
    rw [hstep]
    have hT2 : Tr (r + 2) = Tr (r + 1) + (r + 1) := Tr_succ (r + 1)
    have hT3 : Tr (r + 3) = Tr (r + 2) + (r + 2) := Tr_succ (r + 2)
    have hq : s1.a (s1.ii + 1) = st.a (Tr (r + 2) + 1) := by
      rw [h1, h4 _ (by omega)]
    have hw : (if r + 2 ≤ k then (-(s1.a (s1.ii + 1))) / st.a 1 else s1.a (s1.ii + 1) / st.a 1)
        = sinvW k st.a (r + 2) := by
      rw [hq]; rfl
    have hwj : ∀ j, 2 ≤ j → j ≤ r + 2 →
        fset s1.w (r + 2) (sinvW k st.a (r + 2)) j = sinvW k st.a j := by
      intro j hj1 hj2
      by_cases hj : j = r + 2
      · subst hj; rw [fset_eq]
      · rw [fset_ne _ _ _ hj]; exact h3 j hj1 (by omega)
    have hA : ∀ pos, (sinvRow (st.a 1) k r s1).a pos =
        if Tr (r + 1) + 1 ≤ pos ∧ pos ≤ Tr (r + 1) + (r + 1) then
          s1.a (pos + (r + 2)) + st.a (Tr (r + 2) + 1)
            * fset s1.w (r + 2) (sinvW k st.a (r + 2)) (pos + 1 - Tr (r + 1))
        else s1.a pos := by
      intro pos
      show (sinvInner _ _ _ _ _ _).val pos = _
      rw [hw, hq, sinvInner_spec _ _ s1.ii (r + 2) (Tr (r + 1)) (by omega) ⟨s1.a, 0⟩,
        show s1.ii + (r + 2) + 1 - (s1.ii + 2) = r + 1 by omega]
    refine ⟨?_, ?_, ?_, ?_, ?_⟩
    · show s1.ii + (r + 2) = Tr (r + 1 + 2)
      rw [h1]; exact hT3.symm
    · intro _
      show s1.ii = Tr (r + 1 + 1)
      exact h1
    · intro j hj1 hj2
      show fset s1.w (r + 2) _ j = _
      rw [hw]
      exact hwj j hj1 (by omega)
    · intro pos hpos
      have hpos' : Tr (r + 2) < pos := hpos
      rw [hA, if_neg (by omega)]
      exact h4 pos (by omega)
    · intro i j hj1 hj2 hi
      rw [hA]
      by_cases hir : i = r + 2
      · subst hir
        have e0 : r + 2 - 1 = r + 1 := by omega
        rw [e0, if_pos (by omega)]
        have e1 : Tr (r + 1) + (j - 1) + (r + 2) = Tr (r + 2) + j := by omega
        have e2 : Tr (r + 1) + (j - 1) + 1 - Tr (r + 1) = j := by omega
        rw [e1, e2, h4 _ (by omega), hwj j hj1 hj2]
      · have hi' : i ≤ r + 1 := by omega
        obtain ⟨i', rfl⟩ : ∃ i', i = i' + 1 := ⟨i - 1, by omega⟩
        have hm : Tr (i' + 1) ≤ Tr (r + 1) := Tr_mono hi'
        have hTi : Tr (i' + 1) = Tr i' + i' := Tr_succ i'
        have h5' := h5 (i' + 1) j hj1 hj2 hi'
        rw [Nat.add_sub_cancel] at h5' ⊢
        rw [if_neg (by omega)]
        exact h5'

end Loops

/-! ### one outer iteration -/

section Step
variable {K : Type} [Field K] [LinearOrder K] [IsStrictOrderedRing K]

/-- closed form of one outer iteration (`k = n - t`) on the packed 1-based storage:
    `new(i-1,j-1) = old(i,j) + old(i,1)·w(j)`, `new(n,n) = 1/p`, `new(n,i-1) = w(i)` with
    `w(j) = ∓ old(j,1)/p` (`-` for `j ≤ k`) -/
theorem symInvert_step_spec (n t : Nat) (hn : 2 ≤ n) (st st' : SInvSt K)
    (h : sinvBody n t st = .ok st') :
    ¬ st.a 1 < 0 ∧
    (∀ i j, 2 ≤ j → j ≤ i → i ≤ n →
      st'.a (Tr (i - 1) + (j - 1)) = st.a (Tr i + j) + st.a (Tr i + 1) * sinvW (n - t) st.a j) ∧
    st'.a (Tr n + n) = 1 / st.a 1 ∧
    (∀ i, 2 ≤ i → i ≤ n → st'.a (Tr n + (i - 1)) = sinvW (n - t) st.a i) := by
  obtain ⟨n', rfl⟩ : ∃ n', n = n' + 1 := ⟨n - 1, by omega⟩
  unfold sinvBody at h
  by_cases hp : st.a 1 < 0
  · rw [if_pos hp] at h; cases h
  rw [if_neg hp] at h
  dsimp only at h
  obtain ⟨h1, h2, h3, h4, h5⟩ :=
    sinvRows_spec (n' + 1 - t) { st with ii := 1 } rfl n'
  rw [Nat.add_sub_cancel] at h
  change (sinvRows (st.a 1) (n' + 1 - t) n' { st with ii := 1 }).ii = _ at h1
  generalize sinvRows (st.a 1) (n' + 1 - t) n' { st with ii := 1 } = s1 at h h1 h2 h3 h4 h5
  have hm := h2 (by omega)
  have hTn : Tr (n' + 2) = Tr (n' + 1) + (n' + 1) := Tr_succ (n' + 1)
  have hTn' : Tr (n' + 1) = Tr n' + n' := Tr_succ n'
  have hst' : st'.a = (sinvFill (s1.m - 1) s1.w n'
      ⟨fset s1.a s1.ii (1 / st.a 1), 0⟩).val := by
    cases h; rfl
  have hA : ∀ pos, st'.a pos =
      if Tr (n' + 1) + 1 ≤ pos ∧ pos < Tr (n' + 1) + 1 + n' then s1.w (pos - (Tr (n' + 1) - 1))
      else fset s1.a (Tr (n' + 1) + (n' + 1)) (1 / st.a 1) pos := by
    intro pos
    rw [hst', sinvFill_spec, hm, h1, hTn]
    have : Tr (n' + 1) - 1 + 2 = Tr (n' + 1) + 1 := by omega
    rw [this]
  refine ⟨hp, ?_, ?_, ?_⟩
  · intro i j hj1 hj2 hi
    obtain ⟨i', rfl⟩ : ∃ i', i = i' + 1 := ⟨i - 1, by omega⟩
    have hm' : Tr (i' + 1) ≤ Tr (n' + 1) := Tr_mono hi
    have hTi : Tr (i' + 1) = Tr i' + i' := Tr_succ i'
    have h5' := h5 (i' + 1) j hj1 hj2 hi
    rw [Nat.add_sub_cancel] at h5' ⊢
    rw [hA, if_neg (by omega), fset_ne _ _ _ (by omega)]
    exact h5'
  · rw [hA, if_neg (by omega), fset_eq]
  · intro i hi1 hi2
    rw [hA, if_pos (by omega)]
    have : Tr (n' + 1) + (i - 1) - (Tr (n' + 1) - 1) = i := by omega
    rw [this]
    exact h3 i hi1 hi2

end Step

/-! ### the algebraic exchange step on full matrices -/

section Exchange
variable {K : Type} [Field K]

/-- Exchange step with pivot `(1,1)` and cyclic renumbering (new position `q` ↔ old position
    `q+1`, new position `n'+1` ↔ old position `1`): if `v = T u` then `v' = T' u'`, where
    `u'`, `v'` are `u`, `v` renumbered with the roles of `u 1`, `v 1` exchanged. -/
theorem exchange_step (n' : Nat) (T T' : Nat → Nat → K) (u v u' v' : Nat → K) (p : K)
    (hp : p ≠ 0) (hp1 : T 1 1 = p)
    (hold : ∀ i, 1 ≤ i → i ≤ n' + 1 → v i = ∑ j ∈ range (n' + 1), T i (j + 1) * u (j + 1))
    (hu : ∀ q, 1 ≤ q → q ≤ n' → u' q = u (q + 1))
    (hv : ∀ q, 1 ≤ q → q ≤ n' → v' q = v (q + 1))
    (hun : u' (n' + 1) = v 1) (hvn : v' (n' + 1) = u 1)
    (hT1 : ∀ a b, 1 ≤ a → a ≤ n' → 1 ≤ b → b ≤ n' →
      T' a b = T (a + 1) (b + 1) - T (a + 1) 1 * T 1 (b + 1) / p)
    (hT2 : ∀ b, 1 ≤ b → b ≤ n' → T' (n' + 1) b = -T 1 (b + 1) / p)
    (hT3 : ∀ a, 1 ≤ a → a ≤ n' → T' a (n' + 1) = T (a + 1) 1 / p)
    (hT4 : T' (n' + 1) (n' + 1) = 1 / p) :
    ∀ i, 1 ≤ i → i ≤ n' + 1 → v' i = ∑ j ∈ range (n' + 1), T' i (j + 1) * u' (j + 1) := by
  have hrow : ∀ i, 1 ≤ i → i ≤ n' + 1 →
      v i = ∑ j ∈ range n', T i (j + 2) * u (j + 2) + T i 1 * u 1 := by
    intro i h1 h2
    rw [hold i h1 h2, sum_range_succ']
  have h1 := hrow 1 (Nat.le_refl 1) (by omega)
  rw [hp1] at h1
  have hu1 : u 1 = (v 1 - ∑ j ∈ range n', T 1 (j + 2) * u (j + 2)) / p := by
    rw [h1]; field_simp; ring
  intro i hi1 hi2
  rw [sum_range_succ, hun]
  by_cases hin : i = n' + 1
  · subst hin
    rw [hvn, hT4, hu1]
    have : ∑ j ∈ range n', T' (n' + 1) (j + 1) * u' (j + 1)
        = -(∑ j ∈ range n', T 1 (j + 2) * u (j + 2)) / p := by
      rw [neg_div, sum_div, ← sum_neg_distrib]
      refine sum_congr rfl (fun j hj => ?_)
      have hj' := mem_range.mp hj
      rw [hT2 (j + 1) (by omega) (by omega), hu (j + 1) (by omega) (by omega)]
      ring
    rw [this]
    ring
  · have hin' : i ≤ n' := by omega
    rw [hv i hi1 hin', hrow (i + 1) (by omega) (by omega), hT3 i hi1 hin', hu1]
    have : ∑ j ∈ range n', T' i (j + 1) * u' (j + 1)
        = ∑ j ∈ range n', T (i + 1) (j + 2) * u (j + 2)
          - T (i + 1) 1 / p * ∑ j ∈ range n', T 1 (j + 2) * u (j + 2) := by
      rw [mul_sum, ← sum_sub_distrib]
      refine sum_congr rfl (fun j hj => ?_)
      have hj' := mem_range.mp hj
      rw [hT1 i (j + 1) hi1 hin' (by omega) (by omega), hu (j + 1) (by omega) (by omega)]
      ring
    rw [this]
    ring

end Exchange

/-! ### the invariant -/

section Invariant
variable {K : Type} [Field K] [LinearOrder K] [IsStrictOrderedRing K]

/-- entry `(i,j)` (1-based) of the full symmetric matrix stored packed in the 1-based view `a` -/
def Sf (a : Nat → K) (i j : Nat) : K := a (Tr (max i j) + min i j)

theorem Sf_ge (a : Nat → K) {i j : Nat} (h : j ≤ i) : Sf a i j = a (Tr i + j) := by
  unfold Sf; rw [Nat.max_eq_left h, Nat.min_eq_right h]

theorem Sf_le (a : Nat → K) {i j : Nat} (h : i ≤ j) : Sf a i j = a (Tr j + i) := by
  unfold Sf; rw [Nat.max_eq_right h, Nat.min_eq_left h]

theorem Sf_symm (a : Nat → K) (i j : Nat) : Sf a i j = Sf a j i := by
  unfold Sf; rw [Nat.max_comm, Nat.min_comm]

/-- the sign-adjusted matrix: only the block (not yet processed) × (processed) flips -/
def Tf (k : Nat) (a : Nat → K) (i j : Nat) : K :=
  if i ≤ k ∧ k < j then -Sf a i j else Sf a i j

/-- after `t` steps position `pos ≤ n-t` holds the original variable `pos+t`, position
    `pos > n-t` the (processed) original variable `pos-(n-t)` -/
def uvec (n t : Nat) (x y : Nat → K) (pos : Nat) : K :=
  if pos ≤ n - t then x (pos + t) else y (pos - (n - t))

def vvec (n t : Nat) (x y : Nat → K) (pos : Nat) : K :=
  if pos ≤ n - t then y (pos + t) else x (pos - (n - t))

/-- `y = A x` -/
def Ax (n : Nat) (a0 : Nat → K) (x : Nat → K) (o : Nat) : K :=
  ∑ c ∈ range n, Sf a0 o (c + 1) * x (c + 1)

/-- invariant after `t` steps: for every `x`, with `y = A x`, the exchanged vectors satisfy
    `v = T u` -/
def SInv (n : Nat) (a0 : Nat → K) (t : Nat) (a : Nat → K) : Prop :=
  ∀ x : Nat → K, ∀ i, 1 ≤ i → i ≤ n →
    vvec n t x (Ax n a0 x) i
      = ∑ j ∈ range n, Tf (n - t) a i (j + 1) * uvec n t x (Ax n a0 x) (j + 1)

theorem SInv_init (n : Nat) (a0 : Nat → K) : SInv n a0 0 a0 := by
  intro x i hi1 hi2
  unfold vvec
  rw [if_pos (by omega)]
  show Ax n a0 x i = _
  unfold Ax
  refine sum_congr rfl (fun j hj => ?_)
  have hj' := mem_range.mp hj
  unfold Tf uvec
  rw [if_neg (by omega), if_pos (by omega)]

/-- one outer iteration of the model advances the invariant (pivot non-zero) -/
theorem SInv_step (n' t : Nat) (ht : t < n' + 1) (a0 : Nat → K) (st st' : SInvSt K)
    (hn : 2 ≤ n' + 1) (hp : st.a 1 ≠ 0) (hinv : SInv (n' + 1) a0 t st.a)
    (h : sinvBody (n' + 1) t st = .ok st') : SInv (n' + 1) a0 (t + 1) st'.a := by
  obtain ⟨_, hs2, hs3, hs4⟩ := symInvert_step_spec (n' + 1) t hn st st' h
  intro x
  refine exchange_step n' (Tf (n' + 1 - t) st.a) (Tf (n' + 1 - (t + 1)) st'.a)
    (uvec (n' + 1) t x (Ax (n' + 1) a0 x)) (vvec (n' + 1) t x (Ax (n' + 1) a0 x))
    (uvec (n' + 1) (t + 1) x (Ax (n' + 1) a0 x)) (vvec (n' + 1) (t + 1) x (Ax (n' + 1) a0 x))
    (st.a 1) hp ?_ (hinv x) ?_ ?_ ?_ ?_ ?_ ?_ ?_ ?_
  · unfold Tf
    rw [if_neg (by omega), Sf_ge _ (Nat.le_refl 1), Tr_one]
  · intro q hq1 hq2
    unfold uvec
    split_ifs <;> first | (exfalso; omega) | (congr 1; omega)
  · intro q hq1 hq2
    unfold vvec
    split_ifs <;> first | (exfalso; omega) | (congr 1; omega)
  · unfold uvec vvec
    rw [if_neg (by omega), if_pos (by omega)]
    congr 1; omega
  · unfold uvec vvec
    rw [if_neg (by omega), if_pos (by omega)]
    congr 1; omega
  · intro a b ha1 ha2 hb1 hb2
    rcases Nat.le_total b a with hba | hab
    · have e := hs2 (a + 1) (b + 1) (by omega) (by omega) (by omega)
      rw [Nat.add_sub_cancel, Nat.add_sub_cancel] at e
      unfold Tf
      rw [Sf_ge _ hba, Sf_ge _ (by omega : b + 1 ≤ a + 1), Sf_ge _ (by omega : 1 ≤ a + 1),
        Sf_le _ (by omega : 1 ≤ b + 1), e]
      unfold sinvW
      split_ifs <;> first | (exfalso; omega) | ring
    · have e := hs2 (b + 1) (a + 1) (by omega) (by omega) (by omega)
      rw [Nat.add_sub_cancel, Nat.add_sub_cancel] at e
      unfold Tf
      rw [Sf_le _ hab, Sf_le _ (by omega : a + 1 ≤ b + 1), Sf_ge _ (by omega : 1 ≤ a + 1),
        Sf_le _ (by omega : 1 ≤ b + 1), e]
      unfold sinvW
      split_ifs <;> first | (exfalso; omega) | ring
  · intro b hb1 hb2
    have e := hs4 (b + 1) (by omega) (by omega)
    rw [Nat.add_sub_cancel] at e
    unfold Tf
    rw [Sf_ge _ (by omega : b ≤ n' + 1), Sf_le _ (by omega : 1 ≤ b + 1), e]
    unfold sinvW
    split_ifs <;> first | (exfalso; omega) | ring
  · intro a ha1 ha2
    have e := hs4 (a + 1) (by omega) (by omega)
    rw [Nat.add_sub_cancel] at e
    unfold Tf
    rw [Sf_le _ (by omega : a ≤ n' + 1), Sf_ge _ (by omega : 1 ≤ a + 1), e]
    unfold sinvW
    split_ifs <;> first | (exfalso; omega) | ring
  · unfold Tf
    rw [if_neg (by omega), Sf_ge _ (Nat.le_refl _), hs3]

/-- the state after the first `t` iterations of the outer loop of `symInvert1` (`n ≠ 1`) -/
def symInvertState (n : Nat) (a : Nat → K) (t : Nat) : Except CholErr (SInvSt K) :=
  forUpM t (sinvBody n) ⟨a, fun _ => 0, 1, 0⟩

/-- `symInvertState` is the outer loop of the model: `symInvert1` returns the storage of the
    state after `n` iterations -/
theorem symInvert1_eq_state (sq : K → K) (n : Nat) (hn : n ≠ 1) (a : Nat → K) :
    @symInvert1 K (fieldScalar K sq) n a =
      match symInvertState n a n with
      | .error e => .error e
      | .ok st => .ok st.a := by
  rw [symInvert1_eq, if_neg hn]
  rfl

/-- the invariant holds after `t ≤ n` steps, if no pivot was zero -/
theorem SInv_all (n : Nat) (hn : 2 ≤ n) (a : Nat → K)
    (hpiv : ∀ t, t < n → ∀ st, symInvertState n a t = .ok st → st.a 1 ≠ 0) :
    ∀ t, t ≤ n → ∀ st, symInvertState n a t = .ok st → SInv n a t st.a := by
  intro t
  induction t with
  | zero =>
    intro _ st h
    rw [forUpM_zero_ok _ _ _ h]
    exact SInv_init n a
  | succ t ih =>
    intro ht st h
    obtain ⟨s1, h1, h2⟩ := forUpM_succ_ok _ _ _ _ h
    obtain ⟨n', rfl⟩ : ∃ n', n = n' + 1 := ⟨n - 1, by omega⟩
    exact SInv_step n' t (by omega) a s1 st hn (hpiv t (by omega) s1 h1)
      (ih (by omega) s1 h1) h2

end Invariant

/-! ### `invert` -/

section Final
variable {K : Type} [Field K] [LinearOrder K] [IsStrictOrderedRing K]

/-- 1-based view, `n ≥ 2`: the result is a left inverse of the full symmetric matrix -/
theorem symInvert1_left (sq : K → K) (n : Nat) (hn : 2 ≤ n) (a r : Nat → K)
    (hpiv : ∀ t, t < n → ∀ st, symInvertState n a t = .ok st → st.a 1 ≠ 0)
    (h : @symInvert1 K (fieldScalar K sq) n a = .ok r) :
    ∀ i j, 1 ≤ i → i ≤ n → 1 ≤ j → j ≤ n →
      ∑ c ∈ range n, Sf r i (c + 1) * Sf a (c + 1) j = if i = j then 1 else 0 := by
  rw [symInvert1_eq, if_neg (by omega)] at h
  split at h
  · cases h
  · rename_i st hst
    have hr : r = st.a := (Except.ok.inj h).symm
    subst hr
    have hinv := SInv_all n hn a hpiv n (Nat.le_refl n) st hst
    intro i j hi1 hi2 hj1 hj2
    have hy : ∀ o, Ax n a (fun o => if o = j then 1 else 0) o = Sf a o j := by
      intro o
      unfold Ax
      rw [sum_eq_single (j - 1)]
      · beta_reduce
        rw [if_pos (by omega), mul_one, show j - 1 + 1 = j by omega]
      · intro c _ hc
        beta_reduce
        rw [if_neg (by omega), mul_zero]
      · intro hh
        exfalso
        apply hh
        rw [mem_range]
        omega
    have key := hinv (fun o => if o = j then 1 else 0) i hi1 hi2
    unfold vvec at key
    rw [if_neg (by omega), Nat.sub_self, Nat.sub_zero] at key
    rw [show (if i = j then (1 : K) else 0) = _ from key]
    refine sum_congr rfl (fun c hc => ?_)
    have hc' := mem_range.mp hc
    unfold Tf uvec
    rw [Nat.sub_self, if_neg (by omega), if_neg (by omega), Nat.sub_zero, hy]

theorem symEntry_eq_Sf (s : Nat → K) (i j : Nat) (hi : 1 ≤ i) (hj : 1 ≤ j) :
    symEntry s i j = Sf (fun k => s (k - 1)) i j := by
  unfold symEntry Sf
  show s (tri _ _) = s (_ - 1)
  rw [tri_eq]

theorem symEntry_eq_Sf' (a : Nat → K) (i j : Nat) (hi : 1 ≤ i) (hj : 1 ≤ j) :
    symEntry (fun p => a (p + 1)) i j = Sf a i j := by
  unfold symEntry Sf
  show a (tri _ _ + 1) = _
  rw [tri_eq]
  congr 1
  have : 1 ≤ min i j := by
    rcases Nat.le_total i j with h | h
    · rw [Nat.min_eq_left h]; exact hi
    · rw [Nat.min_eq_right h]; exact hj
  omega

/-- `SymMat::invert()`, `n ≥ 2`: if it does not throw and no pivot `a[1]` met by the `n`
    exchange steps is zero, the packed result `r` is the inverse of the packed input `s`
    (as full symmetric matrices, `symEntry`): `R·A = 1` and `A·R = 1`. -/
theorem symInvert_correct (sq : K → K) (n : Nat) (hn : 2 ≤ n) (s r : Nat → K)
    (hpiv : ∀ t, t < n → ∀ st,
      symInvertState n (fun k => s (k - 1)) t = .ok st → st.a 1 ≠ 0)
    (h : @symInvert K (fieldScalar K sq) n s = .ok r) :
    (∀ i j, 1 ≤ i → i ≤ n → 1 ≤ j → j ≤ n →
      ∑ c ∈ range n, symEntry r i (c + 1) * symEntry s (c + 1) j = if i = j then 1 else 0) ∧
    (∀ i j, 1 ≤ i → i ≤ n → 1 ≤ j → j ≤ n →
      ∑ c ∈ range n, symEntry s i (c + 1) * symEntry r (c + 1) j = if i = j then 1 else 0) := by
  rw [symInvert_eq] at h
  split at h
  · cases h
  · rename_i a ha
    have hr : r = fun p => a (p + 1) := (Except.ok.inj h).symm
    subst hr
    have hl := symInvert1_left sq n hn _ a hpiv ha
    refine ⟨?_, ?_⟩
    · intro i j hi1 hi2 hj1 hj2
      rw [← hl i j hi1 hi2 hj1 hj2]
      refine sum_congr rfl (fun c _ => ?_)
      rw [symEntry_eq_Sf' a _ _ hi1 (by omega), symEntry_eq_Sf s _ _ (by omega) hj1]
    · intro i j hi1 hi2 hj1 hj2
      have := hl j i hj1 hj2 hi1 hi2
      rw [show (if i = j then (1 : K) else 0) = if j = i then 1 else 0 by
        by_cases hij : i = j
        · rw [if_pos hij, if_pos hij.symm]
        · rw [if_neg hij, if_neg (fun h => hij h.symm)], ← this]
      refine sum_congr rfl (fun c _ => ?_)
      rw [symEntry_eq_Sf s _ _ hi1 (by omega), symEntry_eq_Sf' a _ _ (by omega) hj1,
        Sf_symm _ i, Sf_symm a _ j, mul_comm]

/-- `n = 1`: `invert` rejects a negative element, otherwise stores the reciprocal -/
theorem symInvert_correct_one (sq : K → K) (s r : Nat → K) (h0 : s 0 ≠ 0)
    (h : @symInvert K (fieldScalar K sq) 1 s = .ok r) :
    r 0 = 1 / s 0 ∧ r 0 * s 0 = 1 ∧ s 0 * r 0 = 1 := by
  rw [symInvert_eq, symInvert1_eq, if_pos rfl] at h
  split at h
  · cases h
  · rename_i a ha
    split at ha
    · cases ha
    · have hr : r = fun p => a (p + 1) := (Except.ok.inj h).symm
      have ha' : a = fset (fun k => s (k - 1)) 1 (1 / s (1 - 1)) := (Except.ok.inj ha).symm
      subst hr
      subst ha'
      have e : (fun p => fset (fun k => s (k - 1)) 1 (1 / s (1 - 1)) (p + 1)) 0 = 1 / s 0 := by
        show fset (fun k => s (k - 1)) 1 (1 / s (1 - 1)) 1 = _
        rw [fset_eq]
      rw [e]
      refine ⟨rfl, ?_, ?_⟩
      · field_simp
      · field_simp

end Final

/-! ### non-vacuity: the 2×2 matrix `[[4,2],[2,2]]` over `ℚ` -/

section Example

def sinvAEx : Nat → ℚ := fun k => if k = 0 then 4 else if k = 1 then 2 else if k = 2 then 2 else 0

/-- checker used to phrase the evaluation as a closed Boolean computation -/
def sinvChkEx (r : Except CholErr (Nat → ℚ)) : Bool :=
  match r with
  | .ok X => decide (X 0 = 1 / 2) && decide (X 1 = -1 / 2) && decide (X 2 = 1)
  | .error _ => false

theorem sinvChkEx_ok {r : Except CholErr (Nat → ℚ)} (h : sinvChkEx r = true) :
    ∃ X, r = .ok X ∧ X 0 = 1 / 2 ∧ X 1 = -1 / 2 ∧ X 2 = 1 := by
  match r, h with
  | .ok X, h =>
    simp only [sinvChkEx, Bool.and_eq_true, decide_eq_true_eq] at h
    obtain ⟨⟨h0, h1⟩, h2⟩ := h
    exact ⟨X, rfl, h0, h1, h2⟩
  | .error _, h => simp [sinvChkEx] at h

/-- `invert` accepts packed `[4,2,2]` (`[[4,2],[2,2]]`) and returns packed `[1/2,-1/2,1]` -/
theorem symInvert_example :
    ∃ X, @symInvert ℚ (fieldScalar ℚ id) 2 sinvAEx = .ok X ∧
      X 0 = 1 / 2 ∧ X 1 = -1 / 2 ∧ X 2 = 1 := by
  apply sinvChkEx_ok
  norm_num [sinvChkEx, symInvert, symInvert1, forUpM, forUp, fset, sinvAEx]

/-- the pivot hypothesis of `symInvert_correct` holds for the example (pivots `4`, `1`) -/
theorem symInvert_example_pivots : ∀ t, t < 2 → ∀ st,
    symInvertState 2 (fun k => sinvAEx (k - 1)) t = .ok st → st.a 1 ≠ 0 := by
  intro t ht st h
  match t, ht with
  | 0, _ =>
    rw [forUpM_zero_ok _ _ _ h]
    norm_num [sinvAEx]
  | 1, _ =>
    obtain ⟨s1, h1, h2⟩ := forUpM_succ_ok _ _ _ _ h
    rw [forUpM_zero_ok _ _ _ h1] at h2
    obtain ⟨_, hs2, _, _⟩ := symInvert_step_spec 2 0 (Nat.le_refl 2) _ st h2
    have e := hs2 2 2 (Nat.le_refl 2) (Nat.le_refl 2) (Nat.le_refl 2)
    have e' : st.a 1 = 1 := by
      rw [show (1 : Nat) = Tr (2 - 1) + (2 - 1) from rfl, e]
      norm_num [Tr, sinvW, sinvAEx]
    rw [e']
    exact one_ne_zero

end Example

end Gama.MatVec
