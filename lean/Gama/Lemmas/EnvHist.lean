/-
  C04 round 3 — the `AdjEnvelope` machine across resets to OTHER inputs (Model/EnvHist.lean):
  the invariant of Lemmas/EnvState.lean is re-established by `reset` for any new input, hence
  holds along every history; the variant that keeps the cache when the size is unchanged breaks it.
  Core Lean only.
-/
import Gama.Model.EnvHist
import Gama.Lemmas.EnvState
import Gama.Lemmas.EnvCfg
namespace Gama.C04
open Gama Gama.MTF

/-- a call is valid relative to the input the object holds WHEN it is made: query indices are unknowns of that
    system (`1 ≤ i ≤ n`), an input handed over has a 1-based ordering on its own unknowns -/
def HOp.Valid (cur : EnvInput) : HOp → Prop
  | .q op => op.Valid cur.n
  | .resetNew inp' => inp'.Pos

/-- the input held after the call -/
def HOp.next (cur : EnvInput) : HOp → EnvInput
  | .q _ => cur
  | .resetNew inp' => inp'

/-- validity of a history that starts with input `cur` (round 4: replaces `∀ o ∈ ops, o.Valid`, which could not
    bound the indices of a query by the size of the input current at that point) -/
def HValid (cur : EnvInput) : List HOp → Prop
  | [] => True
  | o :: os => o.Valid cur ∧ HValid (o.next cur) os

instance (cur : EnvInput) (op : Op) : Decidable ((HOp.q op).Valid cur) :=
  inferInstanceAs (Decidable (op.Valid cur.n))

theorem hstep_inp (h : HState) (o : HOp) : (hstep h o).1.inp = o.next h.inp := by
  cases o <;> rfl

/-- invariant of the multi-input machine: the single-input invariant for the CURRENT input -/
def HInv (h : HState) : Prop := h.inp.Pos ∧ Inv h.inp h.s ∧ MD h.inp h.s

/-- a new object given `inp`, regularisation list `m` configured -/
def hinit (inp : EnvInput) (m : Option (List Nat)) : HState := { inp := inp, s := init m }

theorem hinv_init {inp : EnvInput} (hp : inp.Pos) (m : Option (List Nat)) : HInv (hinit inp m) :=
  ⟨hp, inv_init inp m, fun hd => by simp [hinit, init, setStage] at hd⟩

theorem hstep_inv {h : HState} (hi : HInv h) (o : HOp) (hv : o.Valid h.inp) : HInv (hstep h o).1 := by
  cases o with
  | q op => exact ⟨hi.1, (step_spec hi.2.1 hi.1 op hv).1, (step_cfg h.inp h.s op hi.2.2).1⟩
  | resetNew inp' => exact ⟨hv, inv_reset hi.2.1, (reset_md inp' h.s).1⟩

theorem hrun_inv {h : HState} (hi : HInv h) {ops : List HOp} (hops : HValid h.inp ops) :
    HInv (hrun h ops) := by
  induction ops generalizing h with
  | nil => exact hi
  | cons o ops ih =>
    exact ih (hstep_inv hi o hops.1) ((hstep_inp h o).symm ▸ hops.2)

theorem hstep_eq_fresh {h : HState} (hi : HInv h) (op : Op) (hv : op.Valid h.inp.n) :
    (hstep h (.q op)).2 = fresh h.inp h.s.minx op :=
  step_eq_fresh hi.2.1 hi.1 op hv

theorem hstep_spec {h : HState} (hi : HInv h) (op : Op) (hv : op.Valid h.inp.n) :
    (hstep h (.q op)).2 = spec h.inp (eff h.inp h.s.minx) op :=
  (step_spec hi.2.1 hi.1 op hv).2

theorem fresh_eq_spec (inp : EnvInput) (hp : inp.Pos) (m : Option (List Nat)) (op : Op) (hv : op.Valid inp.n) :
    fresh inp m op = spec inp (eff inp m) op := by
  unfold fresh
  rw [(step_spec (inv_init inp m) hp op hv).2]
  simp [init, setStage]

/-- the answer is that of a brand-new object with the CALLER's configuration `cfg` (`none` = all parameters,
    or the list given to `min_x(n, list)`) — whatever `solve_x` materialised in between -/
theorem hstep_eq_fresh_cfg {h : HState} (hi : HInv h) (op : Op) (hv : op.Valid h.inp.n) :
    (hstep h (.q op)).2 = fresh h.inp (cfg h.s) op := by
  rw [hstep_spec hi op hv, fresh_eq_spec h.inp hi.1 _ op hv, eff_cfg hi.2.2]

/-- the configuration the caller's calls leave: the last `min_x…` of the history (resets do not count) -/
def lastCfg (c : Option (List Nat)) : List HOp → Option (List Nat)
  | [] => c
  | .q op :: os => lastCfg (nextCfg c op) os
  | .resetNew _ :: os => lastCfg c os

theorem hrun_cfg {h : HState} (hi : HInv h) {ops : List HOp} (hops : HValid h.inp ops) :
    cfg (hrun h ops).s = lastCfg (cfg h.s) ops := by
  induction ops generalizing h with
  | nil => rfl
  | cons o ops ih =>
    have hi' := hstep_inv hi o hops.1
    have := ih hi' ((hstep_inp h o).symm ▸ hops.2)
    show cfg (hrun (hstep h o).1 ops).s = _
    rw [this]
    cases o with
    | q op =>
      show lastCfg (cfg (step h.inp h.s op).1) ops = lastCfg (nextCfg (cfg h.s) op) ops
      rw [(step_cfg h.inp h.s op hi.2.2).2]
    | resetNew inp' =>
      show lastCfg (cfg (reset h.s)) ops = lastCfg (cfg h.s) ops
      rw [(reset_md inp' h.s).2]

theorem cfg_init (m : Option (List Nat)) : cfg (init m) = m := by simp [cfg, init, setStage]

/-- the single-input run is the multi-input run without `resetNew` -/
theorem hrun_q (inp : EnvInput) (s : EnvState) (d : Nat) (ops : List Op) :
    (hrun ⟨inp, s, d⟩ (ops.map .q)).inp = inp ∧ (hrun ⟨inp, s, d⟩ (ops.map .q)).s = run inp s ops := by
  induction ops generalizing s d with
  | nil => exact ⟨rfl, rfl⟩
  | cons o ops ih => exact ih _ _

/-- a history without `resetNew` is valid iff each call is valid for the one input -/
theorem hvalid_q (inp : EnvInput) (ops : List Op) (hops : ∀ o ∈ ops, o.Valid inp.n) :
    HValid inp (ops.map .q) := by
  induction ops with
  | nil => trivial
  | cons o ops ih =>
    exact ⟨hops o (List.mem_cons_self ..), ih (fun o' ho' => hops o' (List.mem_cons_of_mem _ ho'))⟩

/-- the invariants along a single-input run -/
theorem run_hinv (inp : EnvInput) (hp : inp.Pos) (m0 : Option (List Nat)) (ops : List Op)
    (hops : ∀ o ∈ ops, o.Valid inp.n) : HInv ⟨inp, run inp (init m0) ops, 0⟩ := by
  have := hrun_inv (hinv_init hp m0) (ops := ops.map .q) (hvalid_q inp ops hops)
  obtain ⟨e1, e2⟩ := hrun_q inp (init m0) 0 ops
  unfold HInv at this ⊢
  rw [hinit, e1, e2] at this
  exact this

end Gama.C04
