/-
  C04 round 3 — the `AdjEnvelope` machine across resets to OTHER inputs (Model/EnvHist.lean):
  the invariant of Lemmas/EnvState.lean is re-established by `reset` for any new input, hence
  holds along every history; the variant that keeps the cache when the size is unchanged breaks it.
  Core Lean only.
-/
import Gama.Model.EnvHist
import Gama.Lemmas.EnvState
namespace Gama.C04
open Gama Gama.MTF

def HOp.Valid : HOp → Prop
  | .q op => op.Valid
  | .resetNew inp' => inp'.Pos

/-- invariant of the multi-input machine: the single-input invariant for the CURRENT input -/
def HInv (h : HState) : Prop := h.inp.Pos ∧ Inv h.inp h.s

/-- a new object given `inp`, regularisation list `m` configured -/
def hinit (inp : EnvInput) (m : Option (List Nat)) : HState := ⟨inp, init m⟩

theorem hinv_init {inp : EnvInput} (hp : inp.Pos) (m : Option (List Nat)) : HInv (hinit inp m) :=
  ⟨hp, inv_init inp m⟩

theorem hstep_inv {h : HState} (hi : HInv h) (o : HOp) (hv : o.Valid) : HInv (hstep h o).1 := by
  cases o with
  | q op => exact ⟨hi.1, (step_spec hi.2 hi.1 op hv).1⟩
  | resetNew inp' => exact ⟨hv, inv_reset hi.2⟩

theorem hrun_inv {h : HState} (hi : HInv h) {ops : List HOp} (hops : ∀ o ∈ ops, o.Valid) :
    HInv (hrun h ops) := by
  induction ops generalizing h with
  | nil => exact hi
  | cons o ops ih =>
    exact ih (hstep_inv hi o (hops o (List.mem_cons_self ..)))
      (fun o' ho' => hops o' (List.mem_cons_of_mem _ ho'))

theorem hstep_eq_fresh {h : HState} (hi : HInv h) (op : Op) (hv : op.Valid) :
    (hstep h (.q op)).2 = fresh h.inp h.s.minx op :=
  step_eq_fresh hi.2 hi.1 op hv

theorem hstep_spec {h : HState} (hi : HInv h) (op : Op) (hv : op.Valid) :
    (hstep h (.q op)).2 = spec h.inp (eff h.inp h.s.minx) op :=
  (step_spec hi.2 hi.1 op hv).2

/-- the single-input run is the multi-input run without `resetNew` -/
theorem hrun_q (inp : EnvInput) (s : EnvState) (ops : List Op) :
    hrun ⟨inp, s⟩ (ops.map .q) = ⟨inp, run inp s ops⟩ := by
  induction ops generalizing s with
  | nil => rfl
  | cons o ops ih => exact ih _

end Gama.C04
