/-
  PE — lemmas about `Model/ProjectEquations.lean`, part 1: the linearisation pass over ANY carrier.

    A. a pass of `Lin.passFrom` from a well-formed index state: rows in range, columns of a row distinct
       when no two roles of the observation name one point, rows/rhs counted
    B. a pass only looks at the unknowns its events mention (`passFrom_agree`); after the prologue of
       `project_equations` the pass is the pass from the cleared state on every unknown of a point that
       satisfies the guard and on every orientation (`assemble_fresh`)
-/
import Gama.Lemmas.ProjectEquationsShape
import Gama.Lemmas.LinAssemble
import Gama.Model.ProjectEquations
namespace Gama.PE
open Gama Gama.Lin

variable {K : Type}

/-! ### names -/

/-- the point (or cluster) a role of the observation stands for -/
def roleId (ob : NObs K) : Role → Nat
  | .pfrom => ob.pfrom | .pto => ob.pto | .pfs => ob.pfs | .station => ob.sp

theorem name_eq (ob : NObs K) (r : Role) (c : Coord) : ob.name r c = ⟨roleId ob r, c⟩ := by
  cases r <;> rfl

/-- no two roles of the observation that receive coefficients name one point (`dh` from a point to itself
    and an angle with `bs = fs` are the excluded cases: their sparse row repeats a column) -/
def NoAlias (ob : NObs K) : Prop := ((pointRoles ob.kind).map (roleId ob)).Nodup

instance (ob : NObs K) : Decidable (NoAlias ob) := by unfold NoAlias; infer_instance

def shapeOfEv : Ev K → Bool × Role × Coord
  | .touch r c => (false, r, c)
  | .push r c _ => (true, r, c)

theorem evShape_eq_map (evs : List (Ev K)) : evShape evs = evs.map shapeOfEv := by
  induction evs with
  | nil => rfl
  | cons e t ih => cases e <;> simp [shapeOfEv, ih]

theorem evTarget_eq (name : Role → Coord → Unk) (e : Ev K) : evTarget name e = name (shapeOfEv e).2.1 (shapeOfEv e).2.2 := by
  cases e <;> rfl

theorem takeWhile_self {α : Type} (p : α → Bool) : ∀ l : List α, l.takeWhile p = l → ∀ x ∈ l, p x = true := by
  intro l
  induction l with
  | nil => intro _ x hx; cases hx
  | cons a t ih =>
    intro h x hx
    by_cases ha : p a = true
    · simp only [List.takeWhile_cons, ha, if_true, List.cons.injEq, true_and] at h
      rcases List.mem_cons.mp hx with rfl | hm
      · exact ha
      · exact ih h x hm
    · simp [List.takeWhile_cons, ha] at h

/-! ### A. one observation, from a well-formed state -/

/-- the columns of the row are the FINAL indexes of the unknowns pushed, all non-zero -/
theorem runEvs_cols (name : Role → Coord → Unk) (evs : List (Ev K)) :
    ∀ (s : IdxState) (seen : List (Role × Coord)), s.WF → (∀ rc ∈ seen, s.get (name rc.1 rc.2) ≠ 0) →
      wellTouched evs seen = true →
      (runEvs name evs s).2.map (·.1) = (pushes evs).map (fun p => (runEvs name evs s).1.get (name p.1 p.2.1)) ∧
      ∀ p ∈ pushes evs, (runEvs name evs s).1.get (name p.1 p.2.1) ≠ 0 := by
  induction evs with
  | nil => intro s seen _ _ _; exact ⟨rfl, fun p hp => by cases hp⟩
  | cons e t ih =>
    intro s seen h hseen hw
    cases e with
    | touch r c =>
      have hw' : wellTouched t ((r, c) :: seen) = true := hw
      have hs' : ∀ rc ∈ (r, c) :: seen, (s.touch (name r c)).get (name rc.1 rc.2) ≠ 0 := by
        intro rc hrc
        rcases List.mem_cons.mp hrc with rfl | hm
        · have := (IdxState.touch_get h (name r c)).1; intro h0; simp only at h0; omega
        · rw [IdxState.touch_get_of_ne_zero s _ _ (hseen rc hm)]; exact hseen rc hm
      exact ih (s.touch (name r c)) _ (IdxState.touch_wf h _) hs' hw'
    | push r c v =>
      have hw' : ((r, c) ∈ seen) ∧ wellTouched t seen = true := by simpa [wellTouched] using hw
      have hrun : runEvs name (Ev.push r c v :: t) s =
          ((runEvs name t s).1, (s.get (name r c), v) :: (runEvs name t s).2) := rfl
      obtain ⟨i1, i2⟩ := ih s seen h hseen hw'.2
      have h1 : s.get (name r c) ≠ 0 := hseen (r, c) hw'.1
      have h2 : (runEvs name t s).1.get (name r c) = s.get (name r c) := (runEvs_wf name t s h).2.2 _ h1
      rw [hrun]
      refine ⟨?_, ?_⟩
      · simp only [List.map_cons, pushes, h2, i1]
      · intro p hp
        simp only [pushes, List.mem_cons] at hp
        rcases hp with rfl | hp
        · simp only; rw [h2]; exact h1
        · exact i2 p hp

section pass
variable [TrigScalar K]

theorem passFrom_cons' {σ : Lin.Net K} {fuel : Nat} {ob : NObs K} {t : List (NObs K)} {s : IdxState} {res : PassOut K}
    (h : passFrom σ fuel (ob :: t) s = .ok res) :
    ∃ out r, ob.kind.lin fuel (σ.view ob) = .ok out ∧ passFrom σ fuel t (runEvs ob.name out.evs s).1 = .ok r ∧
      res = ⟨(runEvs ob.name out.evs s).2 :: r.rows, out.rhs :: r.rhs, r.idx⟩ := by
  simp only [passFrom] at h
  split at h
  · exact absurd h (by simp)
  · rename_i out ho
    split at h
    · exact absurd h (by simp)
    · rename_i r hr
      injection h with h
      exact ⟨out, r, ho, hr, h.symm⟩

theorem lin_wellTouched (k : Kind) (fuel : Nat) (o : Obs K) (out : LinOut K) (h : k.lin fuel o = .ok out) :
    wellTouched out.evs [] = true := by
  rw [wellTouched_eq, shape_of_ok k fuel o out h]; exact shapeB_wellTouched ..

/-- the names of the unknowns a row pushes are distinct when no two roles name one point -/
theorem lin_push_names_nodup (ob : NObs K) (fuel : Nat) (o : Obs K) (out : LinOut K)
    (h : ob.kind.lin fuel o = .ok out) (hna : NoAlias ob) :
    ((pushes out.evs).map (fun p => ob.name p.1 p.2.1)).Nodup := by
  have e : (pushes out.evs).map (fun p => ob.name p.1 p.2.1)
      = (pushesS (evShape out.evs)).map (fun rc => ob.name rc.1 rc.2) := by
    rw [← pushes_map_shape, List.map_map]; rfl
  rw [e, shape_of_ok _ fuel o out h]
  unfold kindShape
  refine List.Nodup.map_on ?_ (shapeB_pushes_nodup ..)
  intro x hx y hy hxy
  rw [name_eq, name_eq] at hxy
  have hc : x.2 = y.2 := by injection hxy
  have hid : roleId ob x.1 = roleId ob y.1 := by injection hxy
  rcases shapeB_pushes_roles _ _ _ _ _ _ x hx with rfl | ⟨hx1, hx2⟩
  · rcases shapeB_pushes_roles _ _ _ _ _ _ y hy with rfl | ⟨_, hy2⟩
    · rfl
    · exact absurd hc.symm hy2
  · rcases shapeB_pushes_roles _ _ _ _ _ _ y hy with rfl | ⟨hy1, _⟩
    · exact absurd hc hx2
    · have := List.inj_on_of_nodup_map hna hx1 hy1 hid
      exact Prod.ext this hc

/-- what a pass from a well-formed state guarantees -/
structure PassOK (obs : List (NObs K)) (s : IdxState) (b : PassOut K) : Prop where
  wf : b.idx.WF
  mono : s.maxn ≤ b.idx.maxn
  keep : ∀ v, s.get v ≠ 0 → b.idx.get v = s.get v
  nrows : b.rows.length = obs.length
  nrhs : b.rhs.length = obs.length
  range : ∀ row ∈ b.rows, ∀ e ∈ row, 1 ≤ e.1 ∧ e.1 ≤ b.idx.maxn
  nodup : (∀ ob ∈ obs, NoAlias ob) → ∀ row ∈ b.rows, (row.map (·.1)).Nodup

theorem passFrom_ok (σ : Lin.Net K) (fuel : Nat) (obs : List (NObs K)) :
    ∀ (s : IdxState) (b : PassOut K), s.WF → passFrom σ fuel obs s = .ok b → PassOK obs s b := by
  induction obs with
  | nil =>
    intro s b h hp
    simp only [passFrom] at hp; injection hp with hp; subst hp
    exact ⟨h, le_refl _, fun _ _ => rfl, rfl, rfl, fun row hr => (by cases hr), fun _ row hr => (by cases hr)⟩
  | cons ob t ih =>
    intro s b h hp
    obtain ⟨out, r, ho, hr, rfl⟩ := passFrom_cons' hp
    obtain ⟨w1, w2, w3⟩ := runEvs_wf ob.name out.evs s h
    have hwt := lin_wellTouched _ _ _ _ ho
    have I := ih _ r w1 hr
    refine ⟨I.wf, le_trans w2 I.mono, fun v hv => ?_, by simp [I.nrows], by simp [I.nrhs], ?_, ?_⟩
    · rw [I.keep v (by rw [w3 v hv]; exact hv), w3 v hv]
    · intro row hrow e he
      simp only [List.mem_cons] at hrow
      rcases hrow with rfl | hrow
      · have := runEvs_rows_in_range ob.name out.evs s [] h (by simp) hwt e he
        exact ⟨this.1, le_trans this.2 I.mono⟩
      · exact I.range row hrow e he
    · intro hna row hrow
      simp only [List.mem_cons] at hrow
      rcases hrow with rfl | hrow
      · obtain ⟨c1, c2⟩ := runEvs_cols ob.name out.evs s [] h (by simp) hwt
        rw [c1]
        have hn := lin_push_names_nodup ob fuel _ out ho (hna ob (List.mem_cons_self ..))
        have : (pushes out.evs).map (fun p => (runEvs ob.name out.evs s).1.get (ob.name p.1 p.2.1))
            = ((pushes out.evs).map (fun p => ob.name p.1 p.2.1)).map (runEvs ob.name out.evs s).1.get := by
          rw [List.map_map]; rfl
        rw [this]
        refine List.Nodup.map_on ?_ hn
        intro u hu v hv huv
        obtain ⟨p, hp, rfl⟩ := List.mem_map.mp hu
        exact IdxState.get_inj w1 (c2 p hp) huv
      · exact I.nodup (fun ob' h' => hna ob' (List.mem_cons_of_mem _ h')) row hrow

/-! ### B. a pass only looks at the unknowns its events mention -/

theorem passFrom_agree (σ : Lin.Net K) (fuel : Nat) (C : Unk → Prop) (obs : List (NObs K))
    (hC : ∀ ob ∈ obs, ∀ out, ob.kind.lin fuel (σ.view ob) = .ok out → ∀ e ∈ out.evs, C (evTarget ob.name e)) :
    ∀ (s t : IdxState), AgreeOn C s t → ∀ a, passFrom σ fuel obs s = .ok a →
      ∃ b, passFrom σ fuel obs t = .ok b ∧ a.rows = b.rows ∧ a.rhs = b.rhs ∧ AgreeOn C a.idx b.idx := by
  induction obs with
  | nil =>
    intro s t hst a ha
    simp only [passFrom] at ha; injection ha with ha; subst ha
    exact ⟨⟨[], [], t⟩, rfl, rfl, rfl, hst⟩
  | cons ob l ih =>
    intro s t hst a ha
    obtain ⟨out, r, ho, hr, rfl⟩ := passFrom_cons' ha
    obtain ⟨e1, e2⟩ := runEvs_agree ob.name C out.evs s t hst (hC ob (List.mem_cons_self ..) out ho)
    obtain ⟨b, hb, b1, b2, b3⟩ := ih (fun ob' h' => hC ob' (List.mem_cons_of_mem _ h')) _ _ e2 r hr
    refine ⟨⟨(runEvs ob.name out.evs t).2 :: b.rows, out.rhs :: b.rhs, b.idx⟩, ?_, ?_, ?_, b3⟩
    · simp only [passFrom, ho, hb]
    · simp only [e1, b1]
    · simp only [b2]

end pass

/-! ### the unknowns the prologue clears -/

/-- orientations and the coordinates of the points that satisfy the guard of the prologue -/
def Cleared [Zero K] (net : Net K) : Unk → Prop := fun u => u.c = .ori ∨ guardOf net u.id = true

theorem view_pt [Zero K] (net : Net K) (ob : NObs K) (r : Role) (hr : r ≠ .station) :
    ((sigmaOf net).view ob).pt r = ptAt net (roleId ob r) := by
  cases r <;> first | rfl | exact absurd rfl hr

theorem lin_events_cleared [TrigScalar K] (net : Net K) (ob : NObs K) (out : LinOut K)
    (h : ob.kind.lin net.fuel ((sigmaOf net).view ob) = .ok out) :
    ∀ e ∈ out.evs, Cleared net (evTarget ob.name e) := by
  intro e he
  have hs : shapeOfEv e ∈ kindShape ob.kind ((sigmaOf net).view ob) := by
    rw [← shape_of_ok _ _ _ _ h, evShape_eq_map]; exact List.mem_map_of_mem he
  have hf := shapeB_free _ _ _ _ _ _ _ hs
  rw [evTarget_eq, name_eq]
  generalize shapeOfEv e = x at hf
  obtain ⟨b, r, c⟩ := x
  simp only at hf ⊢
  cases c
  case ori => exact Or.inl rfl
  all_goals
    right
    show Gen.Lin.resetGuard (ptAt net (roleId ob r)) = true
    cases r
    case station => simp [freeB] at hf
    all_goals
      first
      | exact (resetGuard_of_free _).1 (by simpa [freeB, sigmaOf, Lin.Net.view, roleId] using hf)
      | exact (resetGuard_of_free _).2 (by simpa [freeB, sigmaOf, Lin.Net.view, roleId] using hf)
      | simp [freeB] at hf

theorem cleared_agree [Zero K] (net : Net K) (s : IdxState) :
    AgreeOn (Cleared net) (s.resetPass (guardOf net)) IdxState.init := by
  obtain ⟨h0, h1, h2⟩ := IdxState.resetPass_clean (guardOf net) s
  refine ⟨h0, ?_⟩
  intro u hu
  have : IdxState.init.get u = 0 := rfl
  rw [this]
  rcases hu with hu | hu
  · exact h1 u hu
  · exact h2 u hu

/-! ### one inner call is the pass from the cleared state -/

/-- `assemble net = .ok a` seen from the cleared state: `b` is the pass from `IdxState.init` -/
structure Fresh [TrigScalar K] (net : Net K) (a : Asm K) (b : PassOut K) : Prop where
  pass : passFrom (sigmaOf net) net.fuel (revisedObs net) IdxState.init = .ok b
  ok : PassOK (revisedObs net) IdxState.init b
  oris : ∀ ob ∈ revisedObs net, oriOK net ob = true
  m : a.np.m = (revisedObs net).length
  n : a.np.n = b.idx.maxn
  rows : a.np.rows = (b.rows.map List.toArray).toArray
  rhs : a.np.rhs = b.rhs.toArray
  clusters : a.np.clusters = npClusters net
  m0 : a.np.m0 = net.m0
  maxn : a.idx.maxn = b.idx.maxn
  agree : ∀ u, Cleared net u → a.idx.get u = b.idx.get u
  list : a.list = unknownsList net a.idx

theorem assemble_fresh [TrigScalar K] (net : Net K) (a : Asm K) (h : assemble net = .ok a) :
    ∃ b, Fresh net a b := by
  unfold assemble linPass at h
  simp only [] at h
  split at h
  · cases h
  · rename_i r hr
    split at hr
    · cases hr
    · rename_i r' hp
      split at hr
      · rename_i hlen
        injection hr with hr; subst hr
        injection h with h; subst h
        have hpre : (revisedObs net).takeWhile (oriOK net) = revisedObs net :=
          (List.takeWhile_prefix _).eq_of_length hlen
        rw [hpre] at hp
        have hall : ∀ ob ∈ revisedObs net, oriOK net ob = true := takeWhile_self _ _ hpre
        obtain ⟨b, hb, b1, b2, b3⟩ := passFrom_agree (sigmaOf net) net.fuel (Cleared net) (revisedObs net)
          (fun ob _ out ho => lin_events_cleared net ob out ho) _ _ (cleared_agree net net.idx) _ hp
        exact ⟨b, hb, passFrom_ok _ _ _ _ _ IdxState.wf_init hb, hall, rfl, b3.1, by simp only [b1], by simp only [b2],
          rfl, rfl, b3.1, b3.2, rfl⟩
      · cases hr

end Gama.PE
