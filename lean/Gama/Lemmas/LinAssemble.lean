/-
  C05 — the assembled design matrix of a whole pass (`Gama/Model/LinPass.lean`).

  Part 1 (this file, index bookkeeping): the entry `codeMatrix rows r (idx u)` is the sum of the
  coefficients the row pushed for roles that NAME the unknown `u` (`symEntry`) — for every unknown,
  whatever else the pass numbered, from any well-formed index state.  Number of columns.
  Part 2 (`LinJacobian.lean`): that sum is the derivative of the row's observation function wrt `u`.
-/
import Mathlib.Data.List.Dedup
import Gama.Lemmas.LinReal
import Gama.Model.LinPass
namespace Gama.Lin
open Real

/-! ### sums of pushes by the unknown they are for -/

/-- the sum of the coefficients a row pushed for roles that name the unknown `u` -/
def symEntry (name : Role → Coord → Unk) : List (Role × Coord × ℝ) → Unk → ℝ
  | [], _ => 0
  | p :: t, u => (if name p.1 p.2.1 = u then p.2.2 else 0) + symEntry name t u

@[simp] theorem symEntry_nil (name : Role → Coord → Unk) (u : Unk) : symEntry name [] u = 0 := rfl
@[simp] theorem symEntry_cons (name : Role → Coord → Unk) (r : Role) (c : Coord) (v : ℝ) (t) (u : Unk) :
    symEntry name ((r, c, v) :: t) u = (if name r c = u then v else 0) + symEntry name t u := rfl
@[simp] theorem symEntry_append (name : Role → Coord → Unk) (a b : List (Role × Coord × ℝ)) (u : Unk) :
    symEntry name (a ++ b) u = symEntry name a u + symEntry name b u := by
  induction a with
  | nil => simp
  | cons p t ih => obtain ⟨r, c, v⟩ := p; simp [ih, add_assoc]
@[simp] theorem symEntry_ite (name : Role → Coord → Unk) (b : Bool) (l : List (Role × Coord × ℝ)) (u : Unk) :
    symEntry name (if b = true then l else []) u = if b = true then symEntry name l u else 0 := by
  cases b <;> simp

@[simp] theorem pushes_nil {K : Type} : pushes ([] : List (Ev K)) = [] := rfl
@[simp] theorem pushes_push {K : Type} (r c) (v : K) (t) : pushes (Ev.push r c v :: t) = (r, c, v) :: pushes t := rfl
@[simp] theorem pushes_touch {K : Type} (r c) (t : List (Ev K)) : pushes (Ev.touch r c :: t) = pushes t := rfl
@[simp] theorem pushes_append {K : Type} (a b : List (Ev K)) : pushes (a ++ b) = pushes a ++ pushes b := by
  induction a with
  | nil => rfl
  | cons e t ih => cases e <;> simp [ih]
@[simp] theorem pushes_ite {K : Type} (b : Bool) (l : List (Ev K)) :
    pushes (if b = true then l else []) = if b = true then pushes l else [] := by
  cases b <;> simp

@[simp] theorem touches_nil {K : Type} : touches ([] : List (Ev K)) = [] := rfl
@[simp] theorem touches_push {K : Type} (r c) (v : K) (t) : touches (Ev.push r c v :: t) = touches t := rfl
@[simp] theorem touches_touch {K : Type} (r c) (t : List (Ev K)) : touches (Ev.touch r c :: t) = (r, c) :: touches t := rfl
@[simp] theorem touches_append {K : Type} (a b : List (Ev K)) : touches (a ++ b) = touches a ++ touches b := by
  induction a with
  | nil => rfl
  | cons e t ih => cases e <;> simp [ih]
@[simp] theorem touches_ite {K : Type} (b : Bool) (l : List (Ev K)) :
    touches (if b = true then l else []) = if b = true then touches l else [] := by
  cases b <;> simp

/-! ### the index state is injective on the unknowns it has numbered -/

theorem IdxState.get_mem {s : IdxState} {u : Unk} (h : s.get u ≠ 0) : (u, s.get u) ∈ s.tab := by
  unfold IdxState.get at h ⊢
  cases hf : s.tab.find? (fun e => e.1 = u) with
  | none => simp [hf] at h
  | some e =>
    have hm := List.mem_of_find?_eq_some hf
    have hk : e.1 = u := by simpa using List.find?_some hf
    simp only []
    rw [← hk]; exact hm

theorem IdxState.get_inj {s : IdxState} (h : s.WF) {u v : Unk} (hu : s.get u ≠ 0) (e : s.get u = s.get v) :
    u = v := by
  have hv : s.get v ≠ 0 := e ▸ hu
  have m1 := IdxState.get_mem hu
  have m2 := IdxState.get_mem hv
  have hnd : (s.tab.map Prod.snd).Nodup := by
    rw [h.vals]; exact List.nodup_reverse.mpr (List.nodup_range' (step := 1) (by omega))
  have := List.inj_on_of_nodup_map hnd m1 m2 (by simpa using e)
  exact congrArg Prod.fst this

theorem IdxState.maxn_eq_length {s : IdxState} (h : s.WF) : s.maxn = s.tab.length := by
  have := congrArg List.length h.vals
  simpa using this.symm

/-! ### one row -/

theorem rowSum_nil (j : Nat) : rowSum ([] : List (Nat × ℝ)) j = 0 := rfl
theorem rowSum_cons (i : Nat) (v : ℝ) (t : List (Nat × ℝ)) (j : Nat) :
    rowSum ((i, v) :: t) j = (if i = j then v else 0) + rowSum t j := by
  show (if i = j then v + rowSum t j else rowSum t j) = _
  split <;> simp

/-- the value in the column of `u` of the row an observation produces is the sum of the
    coefficients pushed for roles naming `u`; `sf` is any later index state of the pass -/
theorem rowSum_runEvs (name : Role → Coord → Unk) (sf : IdxState) (hsf : sf.WF) (u : Unk) (evs : List (Ev ℝ)) :
    ∀ (s : IdxState) (seen : List (Role × Coord)), s.WF → (∀ rc ∈ seen, s.get (name rc.1 rc.2) ≠ 0) →
      wellTouched evs seen = true →
      (∀ v, (runEvs name evs s).1.get v ≠ 0 → sf.get v = (runEvs name evs s).1.get v) →
      rowSum (runEvs name evs s).2 (sf.get u) = symEntry name (pushes evs) u := by
  induction evs with
  | nil => intro s seen _ _ _ _; rfl
  | cons e t ih =>
    intro s seen h hseen hw hext
    cases e with
    | touch r c =>
      have hw' : wellTouched t ((r, c) :: seen) = true := hw
      have hs' : ∀ rc ∈ (r, c) :: seen, (s.touch (name r c)).get (name rc.1 rc.2) ≠ 0 := by
        intro rc hrc
        rcases List.mem_cons.mp hrc with rfl | hm
        · have := (IdxState.touch_get h (name r c)).1; intro h0; simp only at h0; omega
        · rw [IdxState.touch_get_of_ne_zero s _ _ (hseen rc hm)]; exact hseen rc hm
      exact ih (s.touch (name r c)) _ (IdxState.touch_wf h _) hs' hw' hext
    | push r c v =>
      have hw' : ((r, c) ∈ seen) ∧ wellTouched t seen = true := by simpa [wellTouched] using hw
      have hrun : runEvs name (Ev.push r c v :: t) s =
          ((runEvs name t s).1, (s.get (name r c), v) :: (runEvs name t s).2) := rfl
      rw [hrun] at hext ⊢
      have h1 : s.get (name r c) ≠ 0 := hseen (r, c) hw'.1
      have h2 : (runEvs name t s).1.get (name r c) = s.get (name r c) := (runEvs_wf name t s h).2.2 _ h1
      have h3 : sf.get (name r c) = s.get (name r c) := by rw [hext _ (by rw [h2]; exact h1), h2]
      simp only [rowSum_cons, pushes_push, symEntry_cons]
      rw [ih s seen h hseen hw'.2 hext]
      congr 1
      by_cases hu : name r c = u
      · subst hu; simp [h3]
      · have : ¬ s.get (name r c) = sf.get u := by
          intro e
          apply hu
          exact IdxState.get_inj hsf (by rw [h3]; exact h1) (by rw [h3]; exact e)
        simp [hu, this]

/-! ### a whole pass -/

theorem passFrom_cons {σ : Net ℝ} {fuel : Nat} {ob : NObs ℝ} {t : List (NObs ℝ)} {s : IdxState} {res : PassOut ℝ}
    (h : passFrom σ fuel (ob :: t) s = .ok res) :
    ∃ out r, ob.kind.lin fuel (σ.view ob) = .ok out ∧ passFrom σ fuel t (runEvs ob.name out.evs s).1 = .ok r ∧
      res = ⟨(runEvs ob.name out.evs s).2 :: r.rows, out.rhs :: r.rhs, r.idx⟩ := by
  simp only [passFrom] at h
  split at h
  · exact absurd h (by simp)
  · rename_i out ho
    split at h
    · exact absurd h (by simp)
    · rename_i r hr
      injection h with h
      exact ⟨out, r, ho, hr, h.symm⟩

/-- the index state after a pass: well formed, counter not smaller, indexes handed out earlier kept -/
theorem passFrom_wf (σ : Net ℝ) (fuel : Nat) (obs : List (NObs ℝ)) :
    ∀ (s : IdxState) (res : PassOut ℝ), s.WF → passFrom σ fuel obs s = .ok res →
      res.idx.WF ∧ s.maxn ≤ res.idx.maxn ∧ (∀ v, s.get v ≠ 0 → res.idx.get v = s.get v) ∧
      res.rows.length = obs.length ∧ res.rhs.length = obs.length := by
  induction obs with
  | nil => intro s res h hp; simp only [passFrom] at hp; injection hp with hp; subst hp; exact ⟨h, le_refl _, fun _ _ => rfl, rfl, rfl⟩
  | cons ob t ih =>
    intro s res h hp
    obtain ⟨out, r, ho, hr, rfl⟩ := passFrom_cons hp
    obtain ⟨w1, w2, w3⟩ := runEvs_wf ob.name out.evs s h
    obtain ⟨a, b, c, d, e⟩ := ih _ r w1 hr
    refine ⟨a, le_trans w2 b, fun v hv => ?_, by simp [d], by simp [e]⟩
    rw [c v (by rw [w3 v hv]; exact hv), w3 v hv]

/-- every row of a pass: its right-hand side is the one the linearisation returned, and the value
    in the column of ANY unknown `u` (final numbering) is the sum of the coefficients pushed for
    roles naming `u` — provided that row's pushes follow touches -/
theorem passFrom_rows (σ : Net ℝ) (fuel : Nat) (obs : List (NObs ℝ)) :
    ∀ (s : IdxState) (res : PassOut ℝ), s.WF → passFrom σ fuel obs s = .ok res →
      ∀ (r : Nat) (ob : NObs ℝ), obs[r]? = some ob →
        ∃ out, ob.kind.lin fuel (σ.view ob) = .ok out ∧ res.rhs[r]? = some out.rhs ∧
          (wellTouched out.evs [] = true →
            ∀ u, codeMatrix res.rows r (res.idx.get u) = symEntry ob.name out.pushes u) := by
  induction obs with
  | nil => intro s res _ _ r ob hr; simp at hr
  | cons ob0 t ih =>
    intro s res h hp r ob hr
    obtain ⟨out, rr, ho, hrr, rfl⟩ := passFrom_cons hp
    obtain ⟨w1, w2, w3⟩ := runEvs_wf ob0.name out.evs s h
    obtain ⟨a, b, c, _, _⟩ := passFrom_wf σ fuel t _ rr w1 hrr
    cases r with
    | zero =>
      simp only [List.getElem?_cons_zero, Option.some.injEq] at hr
      subst hr
      refine ⟨out, ho, by simp, fun hw u => ?_⟩
      show rowSum ((runEvs ob0.name out.evs s).2) (rr.idx.get u) = _
      exact rowSum_runEvs ob0.name rr.idx a u out.evs s [] h (by simp) hw (fun v hv => c v hv)
    | succ n =>
      simp only [List.getElem?_cons_succ] at hr
      obtain ⟨out', h1, h2, h3⟩ := ih _ rr w1 hrr n ob hr
      exact ⟨out', h1, by simpa using h2, fun hw u => by simpa [codeMatrix] using h3 hw u⟩

/-! ### number of columns -/

theorem IdxState.mem_keys_touch (s : IdxState) (h : s.WF) (u v : Unk) :
    v ∈ (s.touch u).tab.map Prod.fst ↔ v = u ∨ v ∈ s.tab.map Prod.fst := by
  unfold IdxState.touch
  split
  · simp
  · rename_i h0
    have hu : u ∈ s.tab.map Prod.fst := by
      by_contra hn; exact h0 ((IdxState.get_eq_zero_iff h u).mpr hn)
    constructor
    · intro hv; exact Or.inr hv
    · rintro (rfl | hv)
      · exact hu
      · exact hv

theorem runEvs_keys {K : Type} (name : Role → Coord → Unk) (evs : List (Ev K)) :
    ∀ s : IdxState, s.WF → ∀ v, v ∈ (runEvs name evs s).1.tab.map Prod.fst ↔
      v ∈ s.tab.map Prod.fst ∨ v ∈ (touches evs).map (fun rc => name rc.1 rc.2) := by
  induction evs with
  | nil => intro s _ v; simp [runEvs, touches]
  | cons e t ih =>
    intro s h v
    cases e with
    | touch r c =>
      show v ∈ (runEvs name t (s.touch (name r c))).1.tab.map Prod.fst ↔ _
      rw [ih _ (IdxState.touch_wf h _), IdxState.mem_keys_touch s h]
      simp only [touches_touch, List.map_cons, List.mem_cons]
      tauto
    | push r c x =>
      show v ∈ (runEvs name t s).1.tab.map Prod.fst ↔ _
      rw [ih s h]; simp

/-- the unknowns a pass touches, in order, with repetitions -/
noncomputable def passTouched (σ : Net ℝ) (fuel : Nat) : List (NObs ℝ) → List Unk
  | [] => []
  | ob :: t =>
    (match ob.kind.lin fuel (σ.view ob) with
     | .ok out => (touches out.evs).map (fun rc => ob.name rc.1 rc.2)
     | .error _ => []) ++ passTouched σ fuel t

theorem passFrom_keys (σ : Net ℝ) (fuel : Nat) (obs : List (NObs ℝ)) :
    ∀ (s : IdxState) (res : PassOut ℝ), s.WF → passFrom σ fuel obs s = .ok res →
      ∀ v, v ∈ res.idx.tab.map Prod.fst ↔ v ∈ s.tab.map Prod.fst ∨ v ∈ passTouched σ fuel obs := by
  induction obs with
  | nil => intro s res _ hp v; simp only [passFrom] at hp; injection hp with hp; subst hp; simp [passTouched]
  | cons ob t ih =>
    intro s res h hp v
    obtain ⟨out, r, ho, hr, rfl⟩ := passFrom_cons hp
    have w1 := (runEvs_wf ob.name out.evs s h).1
    rw [ih _ r w1 hr v, runEvs_keys ob.name out.evs s h v]
    simp only [passTouched, ho, List.mem_append]
    tauto

/-- `loclin.unknowns()` after a pass that starts from the cleared state is the number of
    DISTINCT unknowns the pass touched -/
theorem passFrom_unknowns (σ : Net ℝ) (fuel : Nat) (obs : List (NObs ℝ)) (res : PassOut ℝ)
    (hp : passFrom σ fuel obs IdxState.init = .ok res) :
    res.idx.maxn = (passTouched σ fuel obs).dedup.length := by
  obtain ⟨hw, _, _, _, _⟩ := passFrom_wf σ fuel obs _ res IdxState.wf_init hp
  rw [IdxState.maxn_eq_length hw, ← List.length_map (f := Prod.fst)]
  apply List.Perm.length_eq
  apply (List.perm_ext_iff_of_nodup hw.keys (List.nodup_dedup _)).mpr
  intro v
  rw [passFrom_keys σ fuel obs _ res IdxState.wf_init hp v]
  simp [IdxState.init]

/-! ### the dense matrix -/

theorem denseRow_acc (row : List (Nat × ℝ)) (j : Nat) : ∀ a : ℝ, denseRow true row j a = a + rowSum row j := by
  induction row with
  | nil => intro a; simp [denseRow, rowSum_nil]
  | cons e t ih =>
    intro a
    obtain ⟨i, v⟩ := e
    simp only [denseRow, rowSum_cons, ih]
    split <;> simp <;> ring

/-- with `=` the entry is the LAST coefficient pushed for the column -/
theorem denseRow_overwrite_nodup (row : List (Nat × ℝ)) (j : Nat) (hn : (row.map (·.1)).Nodup) :
    ∀ a : ℝ, denseRow false row j a = if j ∈ row.map (·.1) then rowSum row j else a := by
  induction row with
  | nil => intro a; simp [denseRow]
  | cons e t ih =>
    intro a
    obtain ⟨i, v⟩ := e
    simp only [List.map_cons, List.nodup_cons] at hn
    simp only [denseRow, rowSum_cons, ih hn.2, List.map_cons, List.mem_cons]
    by_cases hij : i = j
    · subst hij
      have : rowSum t i = 0 := by
        have hni := hn.1
        clear ih hn
        induction t with
        | nil => rfl
        | cons e' t' ih' =>
          obtain ⟨i', v'⟩ := e'
          simp only [List.map_cons, List.mem_cons, not_or] at hni
          rw [rowSum_cons, ih' hni.2]
          simp [Ne.symm hni.1]
      simp [hn.1, this]
    · have : ¬ j = i := fun h => hij h.symm
      simp only [hij, this, if_false, zero_add, false_or]

end Gama.Lin
