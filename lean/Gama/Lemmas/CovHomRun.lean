/-
  `Homogenization::run()` end to end (model `Hom.run`, Model/Homogenization.lean): composition of
  the block lemmas (CovBdMulti, CovBdField, CovBdBuild, CovHomSweep, CovHomAsm, SparseBuild).

  * `Hom.run_eq`      : `run` = `cholDec` on the replica, then `Hom.finish` (everything after (1));
  * `cntSt_spec`      : the counting loop (row offsets, `total`, `block_cols`);
  * `asmSt_spec`      : the assembling loop = the blocks' rows one after the other, `perm` clean again;
  * `Hom.finish_spec` : for an object holding factors `Fs` with positive diagonals:
                        `L̃·pr = rhs`, `L̃·dense(sm) = dense(mat)` block by block (`sm` via `SMat.build`,
                        capacity `total` suffices);
  * `Hom.run_spec`    : the end-to-end theorem (rejection ⇔ a block is rejected; `L̃L̃ᵀ = C`,
                        `L̃·(W A) = A`, `L̃·(W b) = b`).
  No hypothesis on repeated column indices inside a sparse row (`SMat.nodupRows` is not assumed anywhere): the
  counting pass collects the columns in a set, the `width == 0` branch keeps every entry, the gather loop ADDS
  (`gather_spec`), and `denseRow` reads a repeated column as the sum.  Non-vacuity with a repeated column:
  `runExMatRep`, `runExRep_accepted`.
-/
import Gama.Lemmas.CovBdField
import Gama.Lemmas.CovBdBuild
import Gama.Lemmas.CovHomSweep
import Gama.Lemmas.CovHomAsm
import Gama.Lemmas.CovBd
import Gama.Lemmas.SparseBuild
namespace Gama.Cov
open Finset Packed CovMat Hom

attribute [local instance] inhabitedOfScalarH
set_option linter.unusedSectionVars false

/-! ### the part of `run` after the decomposition, as a function of the factored object -/
section Finish
variable {K : Type} [Scalar K]

/-- body of the counting loop -/
def cntStep (mat : SMat K) (bd : BlockDiag K) (st : Nat × Nat × Array Nat) (b : Nat) : Nat × Nat × Array Nat :=
  let c := Hom.countBlock mat st.1 (bd.dimOf b) (bd.widthOf b)
  (st.1 + bd.dimOf b, st.2.1 + c.1, if bd.widthOf b = 0 then st.2.2 else st.2.2.setIfInBounds b c.2)

/-- body of the assembling loop -/
def asmStep (mat : SMat K) (bd : BlockDiag K) (blockCols : Array Nat)
    (st : Nat × List (List (Nat × K)) × Array Nat) (b : Nat) : Nat × List (List (Nat × K)) × Array Nat :=
  if bd.widthOf b = 0 then
    (st.1 + bd.dimOf b, st.2.1 ++ Hom.diagBlock mat bd.nonz (bd.beginOf b) st.1 (bd.dimOf b), st.2.2)
  else
    let r := Hom.corrBlock mat bd.nonz bd.upperTable st.1 (bd.dimOf b) (blockCols.getD b 0) st.2.2
    (st.1 + bd.dimOf b, st.2.1 ++ r.1, r.2)

def cntSt (mat : SMat K) (bd : BlockDiag K) (n : Nat) : Nat × Nat × Array Nat :=
  (List.range' 1 n).foldl (cntStep mat bd) (0, 0, Array.replicate (bd.blocks + 1) 0)

def asmSt (mat : SMat K) (bd : BlockDiag K) (blockCols : Array Nat) (n : Nat) :
    Nat × List (List (Nat × K)) × Array Nat :=
  (List.range' 1 n).foldl (asmStep mat bd blockCols) (0, [], Array.replicate (mat.cols + 1) 0)

/-- everything `run` does once `cholDec` has returned 0 -/
def Hom.finish (mat : SMat K) (bd : BlockDiag K) (rhs : Array K) : Hom.Out K :=
  let cnt := cntSt mat bd bd.blocks
  let asm := asmSt mat bd cnt.2.2 bd.blocks
  { sm := SMat.build cnt.2.1 mat.rows mat.cols asm.2.1
    pr := sweepTab bd.nonz bd.upperTable 0 rhs.size rhs
    total := cnt.2.1 }

theorem Hom.run_eq (tol : K) (mat : SMat K) (cov : BlockDiag K) (rhs : Array K) :
    Hom.run tol mat cov rhs =
      if ((cov.replicate 0).cholDec tol).1 ≠ 0 then .error .NonPositiveDefinite
      else .ok (Hom.finish mat ((cov.replicate 0).cholDec tol).2 rhs) := rfl

end Finish

/-! ### generic list facts -/
section Lists

theorem foldl_add_sum {α : Type} (g : α → Nat) (l : List α) (a : Nat) :
    l.foldl (fun acc i => acc + g i) a = a + (l.map g).sum := by
  induction l generalizing a with
  | nil => simp
  | cons x l ih => rw [List.foldl_cons, ih, List.map_cons, List.sum_cons]; omega

theorem sum_map_le_mul {α : Type} (g : α → Nat) (m : Nat) (l : List α) (h : ∀ x ∈ l, g x ≤ m) :
    (l.map g).sum ≤ l.length * m := by
  induction l with
  | nil => simp
  | cons x l ih =>
    have h1 := h x (by simp)
    have h2 := ih (fun y hy => h y (by simp [hy]))
    rw [List.map_cons, List.sum_cons, List.length_cons, Nat.succ_mul]
    omega

theorem getD_append_left' {α : Type} (l m : List α) (i : Nat) (z : α) (h : i < l.length) :
    (l ++ m).getD i z = l.getD i z := by
  rw [List.getD_eq_getElem?_getD, List.getD_eq_getElem?_getD, List.getElem?_append_left h]

theorem getD_append_right' {α : Type} (l m : List α) (i : Nat) (z : α) :
    (l ++ m).getD (l.length + i) z = m.getD i z := by
  rw [List.getD_eq_getElem?_getD, List.getD_eq_getElem?_getD, List.getElem?_append_right (by omega)]
  congr 2
  omega

/-- blocks of known lengths written one after the other: total length and lookup -/
theorem flatMap_range'_getD {α : Type} (f : Nat → List α) (d : Nat → Nat) (hlen : ∀ b, (f b).length = d b) (z : α) :
    ∀ n, ((List.range' 1 n).flatMap f).length = ((List.range' 1 n).map d).sum ∧
      ∀ b, 1 ≤ b → b ≤ n → ∀ i, i < d b →
        ((List.range' 1 n).flatMap f).getD (((List.range' 1 (b - 1)).map d).sum + i) z = (f b).getD i z := by
  intro n
  induction n with
  | zero => exact ⟨rfl, fun b h1 h2 => by omega⟩
  | succ n ih =>
    obtain ⟨ih1, ih2⟩ := ih
    rw [List.range'_1_concat, List.flatMap_append, List.map_append, List.sum_append, List.length_append]
    simp only [List.flatMap_cons, List.flatMap_nil, List.append_nil, List.map_cons, List.map_nil, List.sum_cons,
      List.sum_nil, Nat.add_zero]
    refine ⟨by rw [ih1, hlen], ?_⟩
    intro b h1 h2 i hi
    by_cases e : b = n + 1
    · subst e
      rw [show n + 1 - 1 = n by omega, ← ih1, getD_append_right', Nat.add_comm 1 n]
    · have hb : b ≤ n := by omega
      have hmono : ((List.range' 1 (b - 1)).map d).sum + d b ≤ ((List.range' 1 n).map d).sum := by
        have : List.range' 1 n = List.range' 1 (b - 1) ++ List.range' b (n - (b - 1)) := by
          rw [show b = 1 + (b - 1) by omega, show 1 + (b - 1) - 1 = b - 1 by omega, List.range'_append_1]
          congr 1; omega
        rw [this, List.map_append, List.sum_append]
        obtain ⟨m, hm⟩ : ∃ m, n - (b - 1) = m + 1 := ⟨n - b, by omega⟩
        rw [hm, List.range'_succ, List.map_cons, List.sum_cons]
        omega
      rw [getD_append_left' _ _ _ _ (by rw [ih1]; omega)]
      exact ih2 b h1 hb i hi

theorem flatMap_range'_flatten_le {α : Type} (f : Nat → List (List α)) (cap : Nat → Nat)
    (n : Nat) (h : ∀ b, 1 ≤ b → b ≤ n → (f b).flatten.length ≤ cap b) :
    ((List.range' 1 n).flatMap f).flatten.length ≤ ((List.range' 1 n).map cap).sum := by
  induction n with
  | zero => simp
  | succ n ih =>
    rw [List.range'_1_concat, List.flatMap_append, List.map_append, List.sum_append, List.flatten_append,
      List.length_append]
    simp only [List.flatMap_cons, List.flatMap_nil, List.append_nil, List.map_cons, List.map_nil, List.sum_cons,
      List.sum_nil, Nat.add_zero]
    have h1 := ih (fun b hb1 hb2 => h b hb1 (by omega))
    have h2 := h (1 + n) (by omega) (by omega)
    omega

end Lists

/-! ### the two block loops -/
section Folds
variable {K : Type} [Scalar K]

/-- rows before block `n+1` according to the `dim` table -/
def offB (bd : BlockDiag K) (n : Nat) : Nat := ((List.range' 1 n).map bd.dimOf).sum

theorem offB_succ (bd : BlockDiag K) (n : Nat) : offB bd (n + 1) = offB bd n + bd.dimOf (n + 1) := by
  unfold offB
  rw [List.range'_1_concat, List.map_append, List.sum_append, Nat.add_comm 1 n]
  simp

theorem offB_mono (bd : BlockDiag K) {a : Nat} : ∀ b, a ≤ b → offB bd a ≤ offB bd b := by
  intro b
  induction b with
  | zero => intro h; have : a = 0 := by omega
            subst this; exact Nat.le_refl _
  | succ b ih =>
    intro h
    by_cases e : a = b + 1
    · subst e; exact Nat.le_refl _
    · have := ih (by omega)
      rw [offB_succ]; omega

theorem offB_eq_rowsBefore {bd : BlockDiag K} {Fs : List (CovMat K)} {tail : List K} (h : bd.Holds Fs tail) :
    ∀ n, n ≤ Fs.length → offB bd n = rowsBefore Fs n := by
  intro n
  induction n with
  | zero => intro _; simp [offB, rowsBefore]
  | succ n ih =>
    intro hn
    have hk : n < Fs.length := by omega
    rw [offB_succ, rowsBefore_succ hk, ih (by omega), ← (h.tables n hk).1, Nat.add_comm 1 n]

/-- capacity and `block_cols` entry that the counting loop computes for block `b` -/
def capOf (mat : SMat K) (bd : BlockDiag K) (b : Nat) : Nat :=
  (Hom.countBlock mat (offB bd (b - 1)) (bd.dimOf b) (bd.widthOf b)).1
def bcolsOf (mat : SMat K) (bd : BlockDiag K) (b : Nat) : Nat :=
  (Hom.countBlock mat (offB bd (b - 1)) (bd.dimOf b) (bd.widthOf b)).2

theorem cntSt_succ (mat : SMat K) (bd : BlockDiag K) (n : Nat) :
    cntSt mat bd (n + 1) = cntStep mat bd (cntSt mat bd n) (n + 1) := by
  unfold cntSt
  rw [List.range'_1_concat, List.foldl_append, Nat.add_comm 1 n]
  rfl

theorem asmSt_succ (mat : SMat K) (bd : BlockDiag K) (bc : Array Nat) (n : Nat) :
    asmSt mat bd bc (n + 1) = asmStep mat bd bc (asmSt mat bd bc n) (n + 1) := by
  unfold asmSt
  rw [List.range'_1_concat, List.foldl_append, Nat.add_comm 1 n]
  rfl

/-- the counting loop -/
theorem cntSt_spec (mat : SMat K) (bd : BlockDiag K) : ∀ n, n ≤ bd.blocks →
    (cntSt mat bd n).1 = offB bd n ∧
    (cntSt mat bd n).2.1 = ((List.range' 1 n).map (capOf mat bd)).sum ∧
    (cntSt mat bd n).2.2.size = bd.blocks + 1 ∧
    ∀ b, 1 ≤ b → b ≤ n → bd.widthOf b ≠ 0 → (cntSt mat bd n).2.2.getD b 0 = bcolsOf mat bd b := by
  intro n
  induction n with
  | zero => intro _; exact ⟨rfl, rfl, by simp [cntSt], fun b h1 h2 => by omega⟩
  | succ n ih =>
    intro hn
    obtain ⟨i1, i2, i3, i4⟩ := ih (by omega)
    rw [cntSt_succ]
    refine ⟨?_, ?_, ?_, ?_⟩
    · show (cntSt mat bd n).1 + bd.dimOf (n + 1) = _
      rw [i1, offB_succ]
    · show (cntSt mat bd n).2.1 + (Hom.countBlock mat (cntSt mat bd n).1 (bd.dimOf (n + 1)) (bd.widthOf (n + 1))).1 = _
      rw [i1, i2, List.range'_1_concat, List.map_append, List.sum_append, Nat.add_comm 1 n]
      simp [capOf]
    · show (if bd.widthOf (n + 1) = 0 then _ else _ : Array Nat).size = _
      split
      · exact i3
      · rw [Array.size_setIfInBounds]; exact i3
    · intro b h1 h2 hw
      show (if bd.widthOf (n + 1) = 0 then _ else _ : Array Nat).getD b 0 = _
      split
      · rename_i h0
        have : b ≠ n + 1 := fun e => hw (e ▸ h0)
        exact i4 b h1 (by omega) hw
      · rw [getD_setIfInBounds']
        by_cases e : b = n + 1
        · subst e
          rw [if_pos ⟨rfl, by omega⟩, i1]
          rfl
        · rw [if_neg (fun h => e h.1)]
          exact i4 b h1 (by omega) hw

end Folds

/-! ### the assembled rows -/
section Rows
variable {K : Type} [Scalar K]

/-- the rows the assembling loop writes for block `b` (on a clean `perm`) -/
def blockRows (mat : SMat K) (bd : BlockDiag K) (b : Nat) : List (List (Nat × K)) :=
  if bd.widthOf b = 0 then Hom.diagBlock mat bd.nonz (bd.beginOf b) (offB bd (b - 1)) (bd.dimOf b)
  else (Hom.corrBlock mat bd.nonz bd.upperTable (offB bd (b - 1)) (bd.dimOf b)
          (blockOcc mat (offB bd (b - 1)) (bd.dimOf b)).length (Array.replicate (mat.cols + 1) 0)).1

theorem blockRows_length (mat : SMat K) (bd : BlockDiag K) (b : Nat) :
    (blockRows mat bd b).length = bd.dimOf b := by
  unfold blockRows
  split
  · exact diagBlock_length _ _ _ _ _
  · rw [corrBlock_fst]; exact scatterRows_length _ _ _ _

theorem scatterRows_flatten_le (S : Array K → Array K) (g : Gather K) (dim bcols : Nat) :
    (scatterRows S g dim bcols).flatten.length ≤ dim * bcols := by
  rw [List.length_flatten]
  have := sum_map_le_mul List.length bcols (scatterRows S g dim bcols) (by
    intro row hrow
    unfold scatterRows at hrow
    rw [List.mem_map] at hrow
    obtain ⟨i, _, rfl⟩ := hrow
    refine Nat.le_trans (List.length_filterMap_le _ _) ?_
    simp)
  rw [scatterRows_length] at this
  exact this

theorem blockRows_cap (mat : SMat K) (bd : BlockDiag K) (b : Nat) :
    (blockRows mat bd b).flatten.length ≤ capOf mat bd b := by
  unfold blockRows capOf
  split
  · rename_i h0
    rw [h0]
    simp only [Hom.countBlock, if_true, Hom.diagBlock]
    rw [foldl_add_sum, List.length_flatten, List.map_map, Nat.zero_add]
    apply Nat.le_of_eq
    congr 1
    apply List.map_congr_left
    intro i _
    simp [rowCols_eq]
  · rename_i h0
    rw [countBlock_fst _ _ _ _ h0, corrBlock_fst]
    exact scatterRows_flatten_le _ _ _ _

end Rows

/-! ### over an ordered field -/
section Field
variable {K : Type} [Field K] [LinearOrder K] [IsStrictOrderedRing K] [SqrtFn K]

attribute [local instance] scalarOfField

omit [IsStrictOrderedRing K] in
theorem mat_cols_of_WF (mat : SMat K) (h : mat.WF) :
    ∀ r, 1 ≤ r → r ≤ mat.rows → ∀ e ∈ mat.rowEntries r, 1 ≤ e.1 ∧ e.1 ≤ mat.cols := by
  intro r h1 h2 e he
  have hc := SMat.toRows_colsIn mat h
  refine hc (mat.rowEntries r) ?_ e he
  unfold SMat.toRows
  exact List.mem_map.2 ⟨r, by rw [List.mem_range'_1]; omega, rfl⟩

omit [IsStrictOrderedRing K] in
theorem mat_nodup_of (mat : SMat K) (h : mat.nodupRows = true) :
    ∀ r, 1 ≤ r → r ≤ mat.rows → ((mat.rowEntries r).map (fun e => e.1)).Nodup := by
  intro r h1 h2
  unfold SMat.nodupRows at h
  rw [List.all_eq_true] at h
  have := h r (by rw [List.mem_range'_1]; omega)
  rw [← rowCols_eq]
  simpa using this

omit [IsStrictOrderedRing K] in
/-- the assembling loop: block after block on a clean `perm` -/
theorem asmSt_spec (mat : SMat K) (bd : BlockDiag K) (bc : Array Nat)
    (hbc : ∀ b, 1 ≤ b → b ≤ bd.blocks → bd.widthOf b ≠ 0 →
      bc.getD b 0 = (blockOcc mat (offB bd (b - 1)) (bd.dimOf b)).length)
    (hcols : ∀ r, 1 ≤ r → r ≤ offB bd bd.blocks → ∀ e ∈ mat.rowEntries r, 1 ≤ e.1 ∧ e.1 ≤ mat.cols) :
    ∀ n, n ≤ bd.blocks →
      asmSt mat bd bc n =
        (offB bd n, (List.range' 1 n).flatMap (blockRows mat bd), Array.replicate (mat.cols + 1) 0) := by
  intro n
  induction n with
  | zero => intro _; rfl
  | succ n ih =>
    intro hn
    rw [asmSt_succ, ih (by omega), List.range'_1_concat, List.flatMap_append, Nat.add_comm 1 n]
    simp only [List.flatMap_cons, List.flatMap_nil, List.append_nil]
    unfold asmStep blockRows
    simp only [show n + 1 - 1 = n by omega]
    split
    · rw [offB_succ]
    · rename_i hw
      rw [hbc (n + 1) (by omega) hn hw, show n + 1 - 1 = n by omega, offB_succ]
      have hle : offB bd (n + 1) ≤ offB bd bd.blocks := offB_mono bd _ hn
      rw [offB_succ] at hle
      obtain ⟨p1, p2⟩ := corrBlock_perm SqrtFn.sq mat bd.nonz bd.upperTable (offB bd n) (bd.dimOf (n + 1))
        (blockOcc mat (offB bd n) (bd.dimOf (n + 1))).length mat.cols (Array.replicate (mat.cols + 1) 0)
        (by intro c; simp [Array.getD]) (by simp)
        (fun i h1 h2 => hcols _ (by omega) (by omega)) rfl
      congr 2
      apply array_ext_getD _ _ 0 (by rw [p1])
      intro r _
      rw [p2 r]
      simp [Array.getD]

omit [LinearOrder K] [IsStrictOrderedRing K] [SqrtFn K] in
theorem mul_div_self_cancel (x a : K) (h : x ≠ 0) : x * (a / x) = a := by
  rw [div_eq_mul_inv, mul_comm a, ← mul_assoc, mul_inv_cancel₀ h, one_mul]

theorem rowOff_band0 (d i : Nat) (_h1 : 1 ≤ i) (h2 : i ≤ d) : off d 0 i i = (i : Int) - 1 := by
  unfold off
  rw [rowOff_eq]
  unfold corr
  rw [if_neg (by omega)]
  simp

/-- **everything after the decomposition**: for an object `bd` that holds the factors `Fs` (positive
    diagonals), `Hom.finish` leaves `L̃·pr = rhs` and `L̃·dense(sm) = dense(mat)` block by block -/
theorem Hom.finish_spec (mat : SMat K) (bd : BlockDiag K) (rhs : Array K) (Fs : List (CovMat K))
    (hH : bd.Holds Fs []) (hwf : ∀ F ∈ Fs, F.WF) (hsize : bd.size = (Fs.map (·.dim)).sum)
    (hpos : ∀ k (hk : k < Fs.length) i, 1 ≤ i → i ≤ (Fs[k]'hk).dim → 0 < (Fs[k]'hk).get i i)
    (hmat : mat.WF) (hrows : mat.rows = (Fs.map (·.dim)).sum) (hrhs : rhs.size = mat.rows) :
    (Hom.finish mat bd rhs).pr.size = rhs.size ∧
    (Hom.finish mat bd rhs).sm.rows = mat.rows ∧ (Hom.finish mat bd rhs).sm.cols = mat.cols ∧
    ∀ k (hk : k < Fs.length),
      (∀ i, 1 ≤ i → i ≤ (Fs[k]'hk).dim →
        ∑ j ∈ Icc 1 i, (Fs[k]'hk).get i j * (Hom.finish mat bd rhs).pr.getD (rowsBefore Fs k + j - 1) 0
          = rhs.getD (rowsBefore Fs k + i - 1) 0) ∧
      (∀ i c, 1 ≤ i → i ≤ (Fs[k]'hk).dim →
        ∑ j ∈ Icc 1 i, (Fs[k]'hk).get i j *
            denseRow ((Hom.finish mat bd rhs).sm.rowEntries (rowsBefore Fs k + j)) c
          = denseRow (mat.rowEntries (rowsBefore Fs k + i)) c) := by
  have htab : TabOK bd.upperTable Fs := upperTable_ok bd Fs [] hH hwf hsize
  have hn : bd.nonz.toList = flat Fs ++ [] := hH.nonz
  have hblocks : bd.blocks = Fs.length := hH.blocks
  have hoff : ∀ n, n ≤ Fs.length → offB bd n = rowsBefore Fs n := offB_eq_rowsBefore hH
  have hofftot : offB bd bd.blocks = mat.rows := by
    rw [hblocks, hoff _ (Nat.le_refl _), rowsBefore_length, hrows]
  -- the two loops
  obtain ⟨_, c2, _, c4⟩ := cntSt_spec mat bd bd.blocks (Nat.le_refl _)
  have hasm := asmSt_spec mat bd (cntSt mat bd bd.blocks).2.2
    (by
      intro b h1 h2 hw
      rw [c4 b h1 h2 hw]
      exact countBlock_snd _ _ _ _ hw)
    (by rw [hofftot]; exact mat_cols_of_WF mat hmat) bd.blocks (Nat.le_refl _)
  obtain ⟨hlen, hlook⟩ := flatMap_range'_getD (blockRows mat bd) bd.dimOf (blockRows_length mat bd) [] bd.blocks
  have hcap := flatMap_range'_flatten_le (blockRows mat bd) (capOf mat bd) bd.blocks
    (fun b _ _ => blockRows_cap mat bd b)
  have hlen' : ((List.range' 1 bd.blocks).flatMap (blockRows mat bd)).length = mat.rows := by
    rw [hlen]; exact hofftot
  obtain ⟨_, _, _, _, b5, b6, b7, _⟩ := SMat.build_entries (cntSt mat bd bd.blocks).2.1 mat.rows mat.cols
    ((List.range' 1 bd.blocks).flatMap (blockRows mat bd)) (by rw [hlen']) (by rw [c2]; exact hcap)
  have hsm : (Hom.finish mat bd rhs).sm = SMat.build (cntSt mat bd bd.blocks).2.1 mat.rows mat.cols
      ((List.range' 1 bd.blocks).flatMap (blockRows mat bd)) := by
    show SMat.build _ _ _ (asmSt mat bd (cntSt mat bd bd.blocks).2.2 bd.blocks).2.1 = _
    rw [hasm]
  -- the right-hand side
  obtain ⟨hseg, hprsize⟩ := sweepTab_whole hwf hn htab (m := rhs.size) (by rw [hrhs, hrows]) rhs rfl
  refine ⟨hprsize, by rw [hsm]; exact b5, by rw [hsm]; exact b6, ?_⟩
  intro k hk
  have hF : (Fs[k]'hk).WF := hwf _ (List.getElem_mem hk)
  have hne : ∀ i, 1 ≤ i → i ≤ (Fs[k]'hk).dim → (Fs[k]'hk).get i i ≠ 0 :=
    fun i h1 h2 => ne_of_gt (hpos k hk i h1 h2)
  have hbound : rowsBefore Fs k + (Fs[k]'hk).dim ≤ mat.rows := by
    rw [← rowsBefore_succ hk, hrows, ← rowsBefore_length]
    exact rowsBefore_mono _ (by omega) (Nat.le_refl _)
  obtain ⟨t1, t2, t3⟩ := hH.tables k hk
  rw [Nat.add_comm 1 k] at t1 t2 t3
  constructor
  · intro i h1 h2
    have hv : (rhs.extract (rowsBefore Fs k) (rowsBefore Fs k + (Fs[k]'hk).dim)).size = (Fs[k]'hk).dim := by
      rw [Array.size_extract]; omega
    obtain ⟨_, hs⟩ := sweep_spec SqrtFn.sq (Fs[k]'hk) hF _ hv hne
    have := hs i h1 h2
    rw [getD_extract _ _ _ _ _ (by omega) (by omega)] at this
    rw [show rowsBefore Fs k + i - 1 = rowsBefore Fs k + (i - 1) by omega, ← this]
    apply Finset.sum_congr rfl
    intro j hj
    rw [Finset.mem_Icc] at hj
    show _ * (sweepTab bd.nonz bd.upperTable 0 rhs.size rhs).getD _ 0 = _
    rw [show rowsBefore Fs k + j - 1 = rowsBefore Fs k + (j - 1) by omega, hseg k hk (j - 1) (by omega)]
  · intro i c h1 h2
    -- row `rowsBefore k + j` of `sm` is row `j` of block `k+1`
    have hrow : ∀ j, 1 ≤ j → j ≤ (Fs[k]'hk).dim →
        (Hom.finish mat bd rhs).sm.rowEntries (rowsBefore Fs k + j) = (blockRows mat bd (k + 1)).getD (j - 1) [] := by
      intro j j1 j2
      rw [hsm, b7 _ (by omega) (by rw [hlen']; omega), ← hoff k (by omega),
        show offB bd k + j - 1 = offB bd k + (j - 1) by omega]
      have := hlook (k + 1) (by omega) (by omega) (j - 1) (by rw [t1]; omega)
      rw [show k + 1 - 1 = k by omega] at this
      exact this
    have hcongr : ∑ j ∈ Icc 1 i, (Fs[k]'hk).get i j *
          denseRow ((Hom.finish mat bd rhs).sm.rowEntries (rowsBefore Fs k + j)) c =
        ∑ j ∈ Icc 1 i, (Fs[k]'hk).get i j * denseRow ((blockRows mat bd (k + 1)).getD (j - 1) []) c := by
      apply Finset.sum_congr rfl
      intro j hj
      rw [Finset.mem_Icc] at hj
      rw [hrow j hj.1 (by omega)]
    rw [hcongr]
    unfold blockRows
    rw [show k + 1 - 1 = k by omega, hoff k (by omega), t1, t2]
    by_cases hw : (Fs[k]'hk).band = 0
    · -- uncorrelated block
      rw [if_pos hw]
      obtain ⟨_, hd⟩ := diagBlock_rows SqrtFn.sq mat bd.nonz (bd.beginOf (k + 1)) (rowsBefore Fs k) (Fs[k]'hk).dim
      rw [Finset.sum_eq_single i]
      · rw [hd i h1 h2 c]
        have hdiag : bd.nonz.getD (bd.beginOf (k + 1) + (i - 1)) 0 = (Fs[k]'hk).get i i := by
          have hb : InBand (Fs[k]'hk).dim (Fs[k]'hk).band i i := ⟨h1, Nat.le_refl _, h2, by omega⟩
          rw [get_upper hb]
          refine nonz_read hn hk hF hb ?_
          rw [t3]
          unfold floatsBefore
          rw [hw, rowOff_band0 _ _ h1 h2]
          push_cast
          omega
        rw [hdiag]
        exact mul_div_self_cancel _ _ (hne i h1 h2)
      · intro j hj hji
        rw [Finset.mem_Icc] at hj
        rw [CovMat.get_symm, CovMat.get_outside _ hj.2 (by omega), zero_mul]
      · intro hi
        exact absurd (Finset.mem_Icc.2 ⟨h1, Nat.le_refl _⟩) hi
    · -- correlated block
      rw [if_neg hw]
      obtain ⟨_, hr⟩ := corrBlock_rows SqrtFn.sq mat bd.nonz bd.upperTable (rowsBefore Fs k) (Fs[k]'hk).dim
        (blockOcc mat (rowsBefore Fs k) (Fs[k]'hk).dim).length mat.cols (Array.replicate (mat.cols + 1) 0)
        (by intro c; simp [Array.getD]) (by simp)
        (fun i h1 h2 => mat_cols_of_WF mat hmat _ (by omega) (by omega)) rfl
      have hcongr2 : ∑ j ∈ Icc 1 i, (Fs[k]'hk).get i j *
          denseRow ((Hom.corrBlock mat bd.nonz bd.upperTable (rowsBefore Fs k) (Fs[k]'hk).dim
            (blockOcc mat (rowsBefore Fs k) (Fs[k]'hk).dim).length (Array.replicate (mat.cols + 1) 0)).1.getD (j - 1) []) c =
          ∑ j ∈ Icc 1 i, (Fs[k]'hk).get i j *
            (if c ∈ blockOcc mat (rowsBefore Fs k) (Fs[k]'hk).dim then
              (sweep (Fs[k]'hk) (colOf mat (rowsBefore Fs k) (Fs[k]'hk).dim c)).getD (j - 1) 0 else 0) := by
        apply Finset.sum_congr rfl
        intro j hj
        rw [Finset.mem_Icc] at hj
        rw [(hr j hj.1 (by omega)).2.1 c, sweepTab_block hwf hn htab hk]
      rw [hcongr2]
      by_cases hc : c ∈ blockOcc mat (rowsBefore Fs k) (Fs[k]'hk).dim
      · simp only [if_pos hc]
        obtain ⟨_, hs⟩ := sweep_spec SqrtFn.sq (Fs[k]'hk) hF (colOf mat (rowsBefore Fs k) (Fs[k]'hk).dim c)
          (colOf_size _ _ _ _) hne
        rw [hs i h1 h2, colOf_getD _ _ _ _ _ (by omega), show i - 1 + 1 = i by omega]
      · simp only [if_neg hc, mul_zero, Finset.sum_const_zero]
        symm
        apply denseRow_of_not_mem
        intro hm
        apply hc
        rw [blockOcc_eq, mem_occOf]
        rw [List.mem_map] at hm
        obtain ⟨e, he, hec⟩ := hm
        exact ⟨(i, e), (mem_tagged _ _ _ _).2 ⟨h1, h2, he⟩, hec⟩

omit [Field K] [LinearOrder K] [IsStrictOrderedRing K] [SqrtFn K] in
theorem rowsBefore_congr {Cs Fs : List (CovMat K)} (hl : Fs.length = Cs.length)
    (hd : ∀ k (hk : k < Cs.length) (hk' : k < Fs.length), (Fs[k]'hk').dim = (Cs[k]'hk).dim) :
    ∀ k, k ≤ Cs.length → rowsBefore Cs k = rowsBefore Fs k := by
  intro k
  induction k with
  | zero => intro _; simp [rowsBefore]
  | succ k ih =>
    intro hk
    rw [rowsBefore_succ (show k < Cs.length by omega), rowsBefore_succ (show k < Fs.length by omega),
      ih (by omega), hd k (by omega) (by omega)]

/-- the statement of `Hom.run_spec` for the result `res` of a run -/
def RunSpec (tol : K) (mat : SMat K) (rhs : Array K) (Cs : List (CovMat K))
    (res : Except Err (Hom.Out K)) : Prop :=
    ((∃ e, res = .error e) ↔ (bdCholDec tol Cs).1 ≠ 0) ∧
    (∀ e, res = .error e → e = .NonPositiveDefinite) ∧
    (∀ out, res = .ok out →
      ∃ Fs : List (CovMat K), Fs.length = Cs.length ∧
        out.pr.size = rhs.size ∧ out.sm.rows = mat.rows ∧ out.sm.cols = mat.cols ∧
        ∀ k (hk : k < Cs.length) (hk' : k < Fs.length),
          bdCholBlock tol (Cs[k]'hk) = .ok (Fs[k]'hk') ∧ (Fs[k]'hk').WF ∧
          (Fs[k]'hk').dim = (Cs[k]'hk).dim ∧ (Fs[k]'hk').band = (Cs[k]'hk).band ∧
          (∀ i, 1 ≤ i → i ≤ (Cs[k]'hk).dim → 0 < (Fs[k]'hk').get i i) ∧
          (∀ i j, 1 ≤ i → i ≤ j → j ≤ (Cs[k]'hk).dim →
            (Cs[k]'hk).get i j = ∑ r ∈ Icc 1 i, (Fs[k]'hk').get r i * (Fs[k]'hk').get r j) ∧
          (∀ i, 1 ≤ i → i ≤ (Cs[k]'hk).dim →
            ∑ j ∈ Icc 1 i, (Fs[k]'hk').get i j * out.pr.getD (rowsBefore Cs k + j - 1) 0
              = rhs.getD (rowsBefore Cs k + i - 1) 0) ∧
          (∀ i c, 1 ≤ i → i ≤ (Cs[k]'hk).dim →
            ∑ j ∈ Icc 1 i, (Fs[k]'hk').get i j * denseRow (out.sm.rowEntries (rowsBefore Cs k + j)) c
              = denseRow (mat.rowEntries (rowsBefore Cs k + i)) c))

theorem Hom.run_spec_aux
    (hsq : ∀ x : K, 0 < x → SqrtFn.sq x * SqrtFn.sq x = x ∧ 0 < SqrtFn.sq x)
    (tol : K) (htol : 0 < tol) (mat : SMat K) (bd0 : BlockDiag K) (rhs : Array K)
    (Cs : List (CovMat K))
    (hH : bd0.Holds Cs []) (hsz : bd0.size = (Cs.map (·.dim)).sum) (hwf : ∀ C ∈ Cs, C.WF)
    (hmat : mat.WF) (hrows : mat.rows = (Cs.map (·.dim)).sum) (hrhs : rhs.size = mat.rows) :
    RunSpec tol mat rhs Cs
      (if (bd0.cholDec tol).1 ≠ 0 then .error .NonPositiveDefinite
       else .ok (Hom.finish mat (bd0.cholDec tol).2 rhs)) := by
  obtain ⟨r1, _, _⟩ := BlockDiag.cholDec_blockwise tol bd0 Cs [] hH hwf
  obtain ⟨Fs, hF, hlen, hall⟩ := bd_choldec_blockwise hsq tol htol bd0 Cs [] hH hwf
  unfold RunSpec
  by_cases hret : (bd0.cholDec tol).1 = 0
  · rw [if_neg (not_not.2 hret)]
    refine ⟨⟨fun ⟨e, he⟩ => (by cases he), fun h => absurd (r1 ▸ hret) h⟩, fun e he => (by cases he), ?_⟩
    intro out hout
    cases hout
    have hk2 : ∀ k, k < Cs.length → k < Fs.length := fun k h => by omega
    have hdim : ∀ k (hk : k < Cs.length) (hk' : k < Fs.length), (Fs[k]'hk').dim = (Cs[k]'hk).dim :=
      fun k hk hk' => ((hall k hk hk').1 (Or.inl hret)).2.2.1
    have hrb := rowsBefore_congr hlen hdim
    have hsum : (Cs.map (·.dim)).sum = (Fs.map (·.dim)).sum := by
      have := hrb Cs.length (Nat.le_refl _)
      rw [rowsBefore_length Cs] at this
      rw [this, ← hlen, rowsBefore_length]
    have hwfF : ∀ F ∈ Fs, F.WF := by
      intro F hFm
      obtain ⟨k, hk', rfl⟩ := List.getElem_of_mem hFm
      exact ((hall k (by omega) hk').1 (Or.inl hret)).2.1
    have hposF : ∀ k (hk : k < Fs.length) i, 1 ≤ i → i ≤ (Fs[k]'hk).dim → 0 < (Fs[k]'hk).get i i := by
      intro k hk i h1 h2
      have hkC : k < Cs.length := by omega
      exact ((hall k hkC hk).1 (Or.inl hret)).2.2.2.2.1 i h1 (by rw [← hdim k hkC hk]; exact h2)
    obtain ⟨f1, f2, f3, f4⟩ := Hom.finish_spec mat (bd0.cholDec tol).2 rhs Fs hF hwfF
      (by rw [← hsum, ← hsz]; rfl) hposF hmat (by rw [← hsum]; exact hrows) hrhs
    refine ⟨Fs, hlen, f1, f2, f3, ?_⟩
    intro k hk hk'
    obtain ⟨a1, a2, a3, a4, a5, a6, _, _⟩ := (hall k hk hk').1 (Or.inl hret)
    obtain ⟨g1, g2⟩ := f4 k hk'
    rw [← hrb k (by omega), a3] at g1 g2
    exact ⟨a1, a2, a3, a4, a5, a6, g1, g2⟩
  · rw [if_pos hret]
    refine ⟨⟨fun _ => r1 ▸ hret, fun _ => ⟨_, rfl⟩⟩, fun e he => (by cases he; rfl), fun out hout => (by cases hout)⟩

/-- **`Homogenization::run()` end to end.**  A column index may be repeated inside a row of `mat`: its coefficients
    add up (`denseRow`). -/
theorem Hom.run_spec
    (hsq : ∀ x : K, 0 < x → SqrtFn.sq x * SqrtFn.sq x = x ∧ 0 < SqrtFn.sq x)
    (tol : K) (htol : 0 < tol) (mat : SMat K) (cov : BlockDiag K) (rhs : Array K)
    (Cs : List (CovMat K)) (tail : List K)
    (hcov : cov.Built Cs tail) (hwf : ∀ C ∈ Cs, C.WF)
    (hmat : mat.WF)
    (hrows : mat.rows = (Cs.map (·.dim)).sum) (hrhs : rhs.size = mat.rows) :
    -- (1) rejected iff some block is rejected
    ((∃ e, Hom.run tol mat cov rhs = .error e) ↔ (bdCholDec tol Cs).1 ≠ 0) ∧
    (∀ e, Hom.run tol mat cov rhs = .error e → e = .NonPositiveDefinite) ∧
    -- (2) accepted: the factors and the homogenised system in "L-form"
    (∀ out, Hom.run tol mat cov rhs = .ok out →
      ∃ Fs : List (CovMat K), Fs.length = Cs.length ∧
        out.pr.size = rhs.size ∧ out.sm.rows = mat.rows ∧ out.sm.cols = mat.cols ∧
        ∀ k (hk : k < Cs.length) (hk' : k < Fs.length),
          bdCholBlock tol (Cs[k]'hk) = .ok (Fs[k]'hk') ∧ (Fs[k]'hk').WF ∧
          (Fs[k]'hk').dim = (Cs[k]'hk).dim ∧ (Fs[k]'hk').band = (Cs[k]'hk).band ∧
          (∀ i, 1 ≤ i → i ≤ (Cs[k]'hk).dim → 0 < (Fs[k]'hk').get i i) ∧
          (∀ i j, 1 ≤ i → i ≤ j → j ≤ (Cs[k]'hk).dim →
            (Cs[k]'hk).get i j = ∑ r ∈ Icc 1 i, (Fs[k]'hk').get r i * (Fs[k]'hk').get r j) ∧
          -- L̃ · pr = rhs on the rows of block k   (L̃ = F_kᵀ, read through the symmetric `get`)
          (∀ i, 1 ≤ i → i ≤ (Cs[k]'hk).dim →
            ∑ j ∈ Icc 1 i, (Fs[k]'hk').get i j * out.pr.getD (rowsBefore Cs k + j - 1) 0
              = rhs.getD (rowsBefore Cs k + i - 1) 0) ∧
          -- L̃ · dense(sm) = dense(mat) on the rows of block k, every column c
          (∀ i c, 1 ≤ i → i ≤ (Cs[k]'hk).dim →
            ∑ j ∈ Icc 1 i, (Fs[k]'hk').get i j * denseRow (out.sm.rowEntries (rowsBefore Cs k + j)) c
              = denseRow (mat.rowEntries (rowsBefore Cs k + i)) c)) := by
  have hB := BlockDiag.built_replicate (Zero.zero : K) hcov hwf
  have h := Hom.run_spec_aux hsq tol htol mat _ rhs Cs hB.holds hB.size hwf hmat hrows hrhs
  unfold RunSpec at h
  rw [Hom.run_eq]
  exact h

end Field

/-! ### non-vacuity: blocks `[9]` (uncorrelated) and `[[4,2],[2,5]]` (correlated) over ℝ, a 3×2 matrix -/
section Example
noncomputable local instance : SqrtFn ℝ := ⟨Real.sqrt⟩
attribute [local instance] scalarOfField

/-- `BlockDiagonal(2, 4)` after `add_block(1,0,[9])`, `add_block(2,1,[4,2,5])` -/
noncomputable def runExCov : BlockDiag ℝ :=
  ((BlockDiag.init 0 2 4).addBlock 0 1 0 #[9]).addBlock 0 2 1 #[4, 2, 5]
noncomputable def runExMat : SMat ℝ := SMat.ofRows 3 2 [[(1, 1)], [(1, 2), (2, 1)], [(2, 3)]] []

theorem runExCov_built : runExCov.Built exCs [] := by
  have h0 := BlockDiag.built_init (0 : ℝ) 2 4
  have h1 := BlockDiag.built_addBlock 0 1 0 #[9] h0 (by decide)
  have h2 := BlockDiag.built_addBlock 0 2 1 #[4, 2, 5] h1 (by decide)
  exact h2

theorem runExMat_wf : runExMat.WF := SMat.ofRows_WF 3 2 _ [] rfl (by
    intro row hrow e he
    simp only [List.mem_cons, List.not_mem_nil, or_false] at hrow
    rcases hrow with rfl | rfl | rfl <;> simp at he <;> rcases he with rfl | rfl <;> decide)

/-- all hypotheses of `Hom.run_spec` hold for this input, and the run is accepted -/
theorem runEx_accepted : ∃ out, Hom.run (1 / 100 : ℝ) runExMat runExCov #[1, 2, 3] = .ok out := by
  have hsq : ∀ x : ℝ, 0 < x → SqrtFn.sq x * SqrtFn.sq x = x ∧ 0 < SqrtFn.sq x :=
    fun x hx => ⟨Real.mul_self_sqrt hx.le, Real.sqrt_pos.mpr hx⟩
  have h := Hom.run_spec (K := ℝ) hsq (1 / 100) (by norm_num) runExMat runExCov #[1, 2, 3] exCs []
    runExCov_built exCs_wf runExMat_wf (by decide) (by decide)
  have hacc : (bdCholDec (1 / 100 : ℝ) exCs).1 = 0 := by
    rw [← (BlockDiag.cholDec_blockwise (1 / 100 : ℝ) exBd exCs [] exBd_holds exCs_wf).1]
    exact exBd_accepts
  match hr : Hom.run (1 / 100 : ℝ) runExMat runExCov #[1, 2, 3] with
  | .ok out => exact ⟨out, rfl⟩
  | .error e => exact absurd hacc (h.1.1 ⟨e, hr⟩)

/-- the same matrix with a REPEATED column index: row 2 (first row of the correlated block) stores column 1 twice -/
noncomputable def runExMatRep : SMat ℝ := SMat.ofRows 3 2 [[(1, 1)], [(1, 2), (1, 1)], [(2, 3)]] []

theorem runExMatRep_wf : runExMatRep.WF := SMat.ofRows_WF 3 2 _ [] rfl (by
    intro row hrow e he
    simp only [List.mem_cons, List.not_mem_nil, or_false] at hrow
    rcases hrow with rfl | rfl | rfl <;> simp at he <;> rcases he with rfl | rfl <;> decide)

theorem runExMatRep_repeats : runExMatRep.nodupRows = false := by decide

/-- all hypotheses of `Hom.run_spec` hold for the input with the repeated column, and the run is accepted -/
theorem runExRep_accepted : ∃ out, Hom.run (1 / 100 : ℝ) runExMatRep runExCov #[1, 2, 3] = .ok out := by
  have hsq : ∀ x : ℝ, 0 < x → SqrtFn.sq x * SqrtFn.sq x = x ∧ 0 < SqrtFn.sq x :=
    fun x hx => ⟨Real.mul_self_sqrt hx.le, Real.sqrt_pos.mpr hx⟩
  have h := Hom.run_spec (K := ℝ) hsq (1 / 100) (by norm_num) runExMatRep runExCov #[1, 2, 3] exCs []
    runExCov_built exCs_wf runExMatRep_wf (by decide) (by decide)
  have hacc : (bdCholDec (1 / 100 : ℝ) exCs).1 = 0 := by
    rw [← (BlockDiag.cholDec_blockwise (1 / 100 : ℝ) exBd exCs [] exBd_holds exCs_wf).1]
    exact exBd_accepts
  match hr : Hom.run (1 / 100 : ℝ) runExMatRep runExCov #[1, 2, 3] with
  | .ok out => exact ⟨out, rfl⟩
  | .error e => exact absurd hacc (h.1.1 ⟨e, hr⟩)

end Example

end Gama.Cov
