/-
  `LocalNetwork::change_y_signs_for_inconsistent_system_` (Model/YSign.lean): the loop nest over the
  covariance matrix negates exactly the stored entries `(r,s)`, `r < s ≤ min(N, r+B)`, selected by the
  condition; with the condition `mirrored[r] ≠ mirrored[s]` the represented symmetric matrix becomes
  `D C D`, `D = diag(±1)`.
-/
import Gama.Gen.YSign
import Gama.Lemmas.CovScale
import Mathlib.Data.List.Nodup
import Mathlib.Data.Matrix.Basic
import Mathlib.Data.Matrix.Mul
import Mathlib.LinearAlgebra.Matrix.DotProduct
import Mathlib.Algebra.Order.Ring.Defs
import Mathlib.Tactic.Ring
import Mathlib.Tactic.Linarith
namespace Gama.Cov.YSign
open Packed CovMat

variable {K : Type}

/-- the nested loops `for r in rs: for c in cs r: f (r,c)` are one loop over the list of pairs -/
theorem foldl_nested {σ α β : Type} (f : σ → α × β → σ) (rs : List α) (cs : α → List β) (s0 : σ) :
    rs.foldl (fun s r => (cs r).foldl (fun s c => f s (r, c)) s) s0
      = (rs.flatMap fun r => (cs r).map (Prod.mk r)).foldl f s0 := by
  induction rs generalizing s0 with
  | nil => rfl
  | cons r rs ih =>
    rw [List.foldl_cons, List.flatMap_cons, List.foldl_append, List.foldl_map]
    exact ih _

/-- the index pairs the loop nest visits -/
def pairs (N B : Nat) : List (Nat × Nat) := (List.range' 1 N).flatMap fun r => (colsOf N B r).map (Prod.mk r)

theorem mem_pairs {N B : Nat} {p : Nat × Nat} :
    p ∈ pairs N B ↔ 1 ≤ p.1 ∧ p.1 < p.2 ∧ p.2 ≤ N ∧ p.2 ≤ p.1 + B := by
  obtain ⟨r, s⟩ := p
  unfold pairs colsOf
  simp only [List.mem_flatMap, List.mem_map, List.mem_range'_1, Prod.mk.injEq]
  constructor
  · rintro ⟨r', hr', s', hs', e1, e2⟩
    subst e1; subst e2
    omega
  · intro h
    exact ⟨r, by omega, s, by omega, rfl, rfl⟩

theorem pairs_nodup (N B : Nat) : (pairs N B).Nodup := by
  unfold pairs
  rw [List.nodup_flatMap]
  refine ⟨fun r _ => ?_, ?_⟩
  · exact (List.nodup_range' (step := 1)).map (fun a b e => (Prod.mk.inj e).2)
  · refine (List.pairwise_lt_range' (s := 1) (n := N)).imp ?_
    intro a b hab
    show List.Disjoint _ _
    intro p hp hq
    simp only [List.mem_map] at hp hq
    obtain ⟨_, _, e1⟩ := hp
    obtain ⟨_, _, e2⟩ := hq
    have : a = b := by rw [← e2] at e1; exact (Prod.mk.inj e1).1
    omega

section fold
variable [Zero K] [Neg K]

/-- the loop over a duplicate-free list of in-band strictly upper pairs -/
theorem pairFold_spec (cond : Bool → Bool → Bool) (ms : List Bool) (l : List (Nat × Nat)) (hnd : l.Nodup)
    (C : CovMat K) (h : C.WF) (hl : ∀ p ∈ l, InBand C.dim C.band p.1 p.2) :
    (l.foldl (flipStep cond ms) C).WF ∧ (l.foldl (flipStep cond ms) C).dim = C.dim ∧
    (l.foldl (flipStep cond ms) C).band = C.band ∧
    ∀ i j, InBand C.dim C.band i j →
      (l.foldl (flipStep cond ms) C).get i j =
        if (i, j) ∈ l ∧ cond (mirroredAt ms i) (mirroredAt ms j) = true then -(C.get i j) else C.get i j := by
  induction l generalizing C with
  | nil => exact ⟨h, rfl, rfl, fun i j _ => by simp⟩
  | cons x xs ih =>
    obtain ⟨r, s⟩ := x
    have hx : InBand C.dim C.band r s := hl (r, s) List.mem_cons_self
    have hndx := List.nodup_cons.mp hnd
    rw [List.foldl_cons]
    by_cases hc : cond (mirroredAt ms r) (mirroredAt ms s) = true
    · obtain ⟨R, hset, hwf, hd, hb, hg, ho⟩ := CovMat.set_spec h (Or.inl hx) (-(C.get r s))
      have hstep : flipStep cond ms C (r, s) = R := by
        unfold flipStep
        simp only [hc, if_true, hset]
      rw [hstep]
      obtain ⟨w, d, b, g⟩ := ih hndx.2 R hwf (by
        intro p hp; rw [hd, hb]; exact hl p (List.mem_cons_of_mem _ hp))
      refine ⟨w, d.trans hd, b.trans hb, ?_⟩
      intro i j hin
      rw [g i j (by rw [hd, hb]; exact hin)]
      by_cases e : i = r ∧ j = s
      · obtain ⟨e1, e2⟩ := e
        subst e1; subst e2
        have hnot : ¬ ((i, j) ∈ xs ∧ cond (mirroredAt ms i) (mirroredAt ms j) = true) := fun hh => hndx.1 hh.1
        rw [if_neg hnot, hg, if_pos ⟨List.mem_cons_self, hc⟩]
      · have hne : ¬ ((i = r ∧ j = s) ∨ (i = s ∧ j = r)) := by
          rintro (e' | ⟨e1, e2⟩)
          · exact e e'
          · apply e
            obtain ⟨_, h2, _, _⟩ := hin
            obtain ⟨_, h2', _, _⟩ := hx
            constructor <;> omega
        rw [ho i j hin hne]
        have hmem : (i, j) ∈ (r, s) :: xs ↔ (i, j) ∈ xs := by
          rw [List.mem_cons]
          constructor
          · rintro (e' | e')
            · exact absurd ⟨(Prod.mk.inj e').1, (Prod.mk.inj e').2⟩ e
            · exact e'
          · exact Or.inr
        simp only [hmem]
    · have hstep : flipStep cond ms C (r, s) = C := by
        unfold flipStep
        simp only [hc]
        rfl
      rw [hstep]
      obtain ⟨w, d, b, g⟩ := ih hndx.2 C h (fun p hp => hl p (List.mem_cons_of_mem _ hp))
      refine ⟨w, d, b, ?_⟩
      intro i j hin
      rw [g i j hin]
      by_cases e : i = r ∧ j = s
      · obtain ⟨e1, e2⟩ := e
        subst e1; subst e2
        have hnot : ¬ ((i, j) ∈ xs ∧ cond (mirroredAt ms i) (mirroredAt ms j) = true) := fun hh => hndx.1 hh.1
        have hnot' : ¬ ((i, j) ∈ (i, j) :: xs ∧ cond (mirroredAt ms i) (mirroredAt ms j) = true) := fun hh => hc hh.2
        rw [if_neg hnot, if_neg hnot']
      · have hmem : (i, j) ∈ (r, s) :: xs ↔ (i, j) ∈ xs := by
          rw [List.mem_cons]
          constructor
          · rintro (e' | e')
            · exact absurd ⟨(Prod.mk.inj e').1, (Prod.mk.inj e').2⟩ e
            · exact e'
          · exact Or.inr
        simp only [hmem]

theorem flipCov_eq (cond : Bool → Bool → Bool) (ms : List Bool) (C : CovMat K) :
    flipCov cond ms C = (pairs (nOf C ms) C.band).foldl (flipStep cond ms) C := by
  unfold flipCov pairs
  exact foldl_nested (flipStep cond ms) _ _ C

/-- **the loop nest as coded, any condition**: shape kept, and for every stored entry `(i, j)`, `i ≤ j`, of the
    band: negated iff it is strictly upper, both indices are `≤ N = min(dim, #observations)` and the condition
    holds for the two flags -/
theorem flipCov_spec (cond : Bool → Bool → Bool) (ms : List Bool) (C : CovMat K) (h : C.WF) :
    (flipCov cond ms C).WF ∧ (flipCov cond ms C).dim = C.dim ∧ (flipCov cond ms C).band = C.band ∧
    ∀ i j, InBand C.dim C.band i j →
      (flipCov cond ms C).get i j =
        if i < j ∧ j ≤ nOf C ms ∧ cond (mirroredAt ms i) (mirroredAt ms j) = true then -(C.get i j)
        else C.get i j := by
  rw [flipCov_eq]
  have hN : nOf C ms ≤ C.dim := Nat.min_le_left _ _
  obtain ⟨w, d, b, g⟩ := pairFold_spec cond ms (pairs (nOf C ms) C.band) (pairs_nodup _ _) C h (by
    intro p hp
    have := mem_pairs.mp hp
    unfold InBand
    omega)
  refine ⟨w, d, b, ?_⟩
  intro i j hin
  rw [g i j hin]
  obtain ⟨h1, h2, h3, h4⟩ := hin
  have e : ((i, j) ∈ pairs (nOf C ms) C.band ∧ cond (mirroredAt ms i) (mirroredAt ms j) = true) ↔
      (i < j ∧ j ≤ nOf C ms ∧ cond (mirroredAt ms i) (mirroredAt ms j) = true) := by
    rw [mem_pairs]
    constructor
    · rintro ⟨⟨_, a, b', _⟩, c⟩; exact ⟨a, b', c⟩
    · rintro ⟨a, b', c⟩; exact ⟨⟨h1, a, b', h4⟩, c⟩
  by_cases hc : (i, j) ∈ pairs (nOf C ms) C.band ∧ cond (mirroredAt ms i) (mirroredAt ms j) = true
  · rw [if_pos hc, if_pos (e.mp hc)]
  · rw [if_neg hc, if_neg (fun hh => hc (e.mpr hh))]

end fold

/-- flags beyond the pushed ones read `false` -/
theorem mirroredAt_beyond (ms : List Bool) {k : Nat} (hk : ms.length < k) : mirroredAt ms k = false := by
  unfold mirroredAt
  rw [List.getD_eq_getElem?_getD, List.getElem?_eq_none (by simp; omega)]
  rfl

theorem mirroredAt_zero (ms : List Bool) : mirroredAt ms 0 = false := rfl

/-- the sign `D_kk` of component `k` -/
def sgn [One K] [Neg K] (ms : List Bool) (k : Nat) : K := if mirroredAt ms k then -1 else 1

theorem sgn_mul_self [Ring K] (ms : List Bool) (k : Nat) : (sgn ms k : K) * sgn ms k = 1 := by
  unfold sgn; split <;> simp

/-- **`C ↦ D C D` entrywise** for the exclusive-or condition: for ALL `1 ≤ i, j ≤ dim` (inside the band by the loop,
    outside it both sides are 0, lower triangle by symmetry of the accessor, diagonal untouched).  `dim ≤ #observations`
    is what the parser guarantees (`C10_parse_dim`, `C10_parse_dim_obs`: dim = number of observations); with FEWER
    observations than rows the loop stops at `N = #observations` and the entries `(i, j)`, `i ≤ N < j`, keep their sign. -/
theorem flipCov_DCD [CommRing K] (cond : Bool → Bool → Bool) (hcond : ∀ a b, cond a b = (a != b))
    (ms : List Bool) (C : CovMat K) (h : C.WF) (hlen : C.dim ≤ ms.length) :
    (flipCov cond ms C).WF ∧ (flipCov cond ms C).dim = C.dim ∧ (flipCov cond ms C).band = C.band ∧
    ∀ i j, 1 ≤ i → i ≤ C.dim → 1 ≤ j → j ≤ C.dim →
      (flipCov cond ms C).get i j = sgn ms i * C.get i j * sgn ms j := by
  obtain ⟨w, d, b, g⟩ := flipCov_spec cond ms C h
  refine ⟨w, d, b, ?_⟩
  have main : ∀ i j, 1 ≤ i → i ≤ j → j ≤ C.dim →
      (flipCov cond ms C).get i j = sgn ms i * C.get i j * sgn ms j := by
    intro i j hi hij hj
    by_cases hband : j ≤ i + C.band
    · rw [g i j ⟨hi, hij, hj, hband⟩, hcond]
      by_cases hlt : i < j
      · by_cases hjN : j ≤ nOf C ms
        · unfold sgn
          cases hmi : mirroredAt ms i <;> cases hmj : mirroredAt ms j <;> simp [hlt, hjN]
        · exact absurd hj (by unfold nOf at hjN; omega)
      · have e : i = j := by omega
        subst e
        have hcd : ¬ (i < i ∧ i ≤ nOf C ms ∧ (mirroredAt ms i != mirroredAt ms i) = true) := fun hh => hlt hh.1
        rw [if_neg hcd]
        have := sgn_mul_self (K := K) ms i
        calc C.get i i = (sgn ms i * sgn ms i) * C.get i i := by rw [this, one_mul]
          _ = sgn ms i * C.get i i * sgn ms i := by ring
    · have hlt : j > i + C.band := by omega
      rw [get_outside _ hij (by rw [b]; exact hlt), get_outside _ hij hlt]
      simp
  intro i j hi hiN hj hjN
  rcases Nat.le_total i j with hij | hij
  · exact main i j hi hij hjN
  · rw [get_symm, main j i hj hij hiN, get_symm C j i]; ring


/-! ### the way out undoes the way in -/

theorem exportMirroredAt_eq (dim : Nat) (ms : List Bool) {k : Nat} (hk : k ≤ dim) :
    exportMirroredAt dim ms k = mirroredAt ms k := by
  unfold exportMirroredAt mirroredAt
  cases k with
  | zero => rfl
  | succ k =>
    simp only [List.getD_eq_getElem?_getD, List.getElem?_cons_succ]
    rw [List.getElem?_take_of_lt (by omega)]

/-- `updated_xml_covmat` (with `y_sign() < 0`) applied to the matrix `change_y_signs_for_inconsistent_system_` left
    writes the entries of the ORIGINAL matrix, when both use the same exclusive-or rule -/
theorem export_flipCov [Ring K] (cin cout : Bool → Bool → Bool) (hin : ∀ a b, cin a b = (a != b))
    (hout : ∀ a b, cout a b = (a != b)) (ms : List Bool) (C : CovMat K) (h : C.WF) (hlen : C.dim ≤ ms.length) :
    exportEntries cout true ms (flipCov cin ms C) = exportEntries (fun _ _ => false) false ms C := by
  obtain ⟨_, d, b, g⟩ := flipCov_spec cin ms C h
  unfold exportEntries
  rw [d, b]
  refine List.flatMap_congr fun i hi => List.map_congr_left fun j hj => ?_
  rw [List.mem_range'_1] at hi hj
  have hin' : InBand C.dim C.band i j := ⟨hi.1, hj.1, by omega, by omega⟩
  have hN : nOf C ms = C.dim := by unfold nOf; omega
  simp only [if_true, Bool.false_eq_true, if_false]
  rw [exportMirroredAt_eq _ _ (by omega : i ≤ C.dim), exportMirroredAt_eq _ _ (by omega : j ≤ C.dim), g i j hin', hout, hin, hN]
  by_cases e : i < j
  · have hj' : j ≤ C.dim := by omega
    cases hmi : mirroredAt ms i <;> cases hmj : mirroredAt ms j <;> simp [e, hj']
  · have : i = j := by omega
    subst this
    simp

/-! ### matrix form -/
open Matrix

/-- the full symmetric `N × N` matrix a `CovMat` represents (`Cov.toMatrix` without its field context) -/
def matN [Zero K] (N : Nat) (C : CovMat K) : Matrix (Fin N) (Fin N) K := fun i j => C.get (i.val + 1) (j.val + 1)

/-- the diagonal of `D`: `-1` for a mirrored component (`Y`, `Ydiff`), `+1` otherwise -/
def signVec [One K] [Neg K] (ms : List Bool) (N : Nat) : Fin N → K := fun i => sgn ms (i.val + 1)

theorem signVec_sq [Ring K] (ms : List Bool) (N : Nat) (i : Fin N) : (signVec ms N i : K) * signVec ms N i = 1 :=
  sgn_mul_self ms _

theorem matN_symm [Zero K] (N : Nat) (C : CovMat K) : (matN N C)ᵀ = matN N C := by
  ext i j; simp only [transpose_apply, matN]; exact get_symm _ _ _

/-- **`C ↦ D C D`** -/
theorem matN_flipCov [CommRing K] (cond : Bool → Bool → Bool) (hcond : ∀ a b, cond a b = (a != b))
    (ms : List Bool) (C : CovMat K) (h : C.WF) (hlen : C.dim ≤ ms.length) :
    matN C.dim (flipCov cond ms C) = diagonal (signVec ms C.dim) * matN C.dim C * diagonal (signVec ms C.dim) := by
  obtain ⟨_, _, _, g⟩ := flipCov_DCD cond hcond ms C h hlen
  ext i j
  rw [Matrix.mul_diagonal, Matrix.diagonal_mul]
  simp only [matN, signVec]
  exact g _ _ (by omega) (by omega) (by omega) (by omega)

section pd
variable [Field K] [LinearOrder K] [IsStrictOrderedRing K] {N : Nat}

/-- positive definiteness of the quadratic form -/
def PosDefQ (M : Matrix (Fin N) (Fin N) K) : Prop := ∀ d : Fin N → K, d ≠ 0 → 0 < d ⬝ᵥ (M *ᵥ d)

theorem diag_sq' (s : Fin N → K) (hs : ∀ i, s i * s i = 1) : diagonal s * diagonal s = (1 : Matrix (Fin N) (Fin N) K) := by
  rw [diagonal_mul_diagonal]
  ext i j
  by_cases e : i = j
  · subst e; simp [hs]
  · simp [e]

theorem quad_conj (s : Fin N → K) (M : Matrix (Fin N) (Fin N) K) (d : Fin N → K) :
    d ⬝ᵥ ((diagonal s * M * diagonal s) *ᵥ d) = (diagonal s *ᵥ d) ⬝ᵥ (M *ᵥ (diagonal s *ᵥ d)) := by
  have e : (diagonal s * M * diagonal s) *ᵥ d = diagonal s *ᵥ (M *ᵥ (diagonal s *ᵥ d)) := by
    simp only [mulVec_mulVec, Matrix.mul_assoc]
  rw [e, dotProduct_mulVec]
  congr 1
  ext i
  rw [vecMul_diagonal, mulVec_diagonal, mul_comm]

theorem posDefQ_conj (s : Fin N → K) (hs : ∀ i, s i * s i = 1) (M : Matrix (Fin N) (Fin N) K) :
    PosDefQ (diagonal s * M * diagonal s) ↔ PosDefQ M := by
  have inj : ∀ d : Fin N → K, d ≠ 0 → diagonal s *ᵥ d ≠ 0 := by
    intro d hd h0
    apply hd
    have : diagonal s *ᵥ (diagonal s *ᵥ d) = 0 := by rw [h0, mulVec_zero]
    rwa [mulVec_mulVec, diag_sq' s hs, one_mulVec] at this
  constructor
  · intro h d hd
    have := h (diagonal s *ᵥ d) (inj d hd)
    rw [quad_conj, mulVec_mulVec, diag_sq' s hs, one_mulVec] at this
    exact this
  · intro h d hd
    rw [quad_conj]
    exact h _ (inj d hd)

theorem inv_conj (s : Fin N → K) (hs : ∀ i, s i * s i = 1) (M P : Matrix (Fin N) (Fin N) K) (hP : M * P = 1) :
    (diagonal s * M * diagonal s) * (diagonal s * P * diagonal s) = 1 := by
  calc (diagonal s * M * diagonal s) * (diagonal s * P * diagonal s)
      = diagonal s * M * (diagonal s * diagonal s) * P * diagonal s := by simp only [Matrix.mul_assoc]
    _ = diagonal s * (M * P) * diagonal s := by rw [diag_sq' s hs]; simp only [Matrix.mul_one, Matrix.mul_assoc]
    _ = 1 := by rw [hP, Matrix.mul_one, diag_sq' s hs]

end pd

end Gama.Cov.YSign
