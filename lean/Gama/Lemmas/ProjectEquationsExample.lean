/-
  PE — a concrete network evaluated by the kernel (non-vacuity of `Props/C01/ProjectEquations.lean`).

  Levelling: `A` fixed, `B` constrained, `C` free (heights); one cluster of four height differences
  `A→B`, `B→C`, `C→A` (switched off), `C→C` (a point levelled to itself: its row names one unknown twice),
  variances 1, 4, 9, 1; a second cluster whose only observation refers to a point outside the network (passive).
  Over ℚ with arbitrary "trigonometric" functions: height differences do not use them — the structural
  theorems hold for every choice.
-/
import Gama.Lemmas.ProjectEquationsUnknowns
namespace Gama.PE.Ex
open Gama Gama.Lin Gama.PE

/-- ℚ with constant "trigonometric" functions (never evaluated by height differences) -/
def trigQ : TrigScalar ℚ :=
  { (inferInstance : Scalar ℚ) with sin := fun _ => 0, cos := fun _ => 1, atan2 := fun _ _ => 0, acos := fun _ => 0, pi := 3 }

attribute [local instance] trigQ

def hd (a : Bool) (f t : Nat) (v : ℚ) : Ob ℚ := ⟨a, .h_diff, f, t, 0, v⟩

/-- the network without the self-levelled observation -/
def net1 : Net ℚ :=
  { points := [⟨"A", ⟨0, 0, 100, .unused, .fixed⟩⟩, ⟨"B", ⟨0, 0, 110, .unused, .constrained⟩⟩, ⟨"C", ⟨0, 0, 105, .unused, .free⟩⟩]
    clusters := [⟨none, ⟨3, 0, #[1, 4, 9]⟩, [hd true 0 1 (1001/100), hd true 1 2 (-499/100), hd false 2 0 (-5)]⟩,
                 ⟨none, ⟨1, 0, #[1]⟩, [hd true 0 7 1]⟩]
    m0 := 2, xNorth := 0, fuel := 10
    idx := ⟨5, [(⟨0, .z⟩, 5), (⟨2, .z⟩, 4)]⟩ }     -- stale indexes of an earlier call

/-- the same with `C→C` appended to the first cluster -/
def net2 : Net ℚ :=
  { net1 with clusters := [⟨none, ⟨4, 0, #[1, 4, 9, 1]⟩,
      [hd true 0 1 (1001/100), hd true 1 2 (-499/100), hd false 2 0 (-5), hd true 2 2 (3/10000)]⟩] }

/-- what the examples read off a result -/
def counts (r : Except Err (Ls.Net.NetProblem ℚ × Unknowns ℚ)) : Option (Nat × Nat × List Nat × List (Nat × Nat)) :=
  match r with
  | .ok (np, _) => some (np.m, np.n, np.minx, rowRanges np)
  | .error _ => none

def system (r : Except Err (Ls.Net.NetProblem ℚ × Unknowns ℚ)) : Option (List (List (Nat × ℚ)) × List ℚ) :=
  match r with
  | .ok (np, _) => some (np.rows.toList.map (·.toList), np.rhs.toList)
  | .error _ => none

def table (r : Except Err (Ls.Net.NetProblem ℚ × Unknowns ℚ)) : Option (List (Option UEntry)) :=
  match r with
  | .ok (_, u) => some u.list
  | .error _ => none

theorem net1_counts : counts (projectEquations net1) = some (2, 2, [1], [(0, 2)]) := by decide +kernel
theorem net1_system : system (projectEquations net1) = some ([[(1, 1)], [(1, -1), (2, 1)]], [10, 10]) := by
  decide +kernel
theorem net1_table : table (projectEquations net1) = some [some ⟨"B", .Z, none⟩, some ⟨"C", .Z, none⟩] := by
  decide +kernel

theorem net2_counts : counts (projectEquations net2) = some (3, 2, [1], [(0, 3)]) := by decide +kernel
theorem net2_system : system (projectEquations net2) =
    some ([[(1, 1)], [(1, -1), (2, 1)], [(2, -1), (2, 1)]], [10, 10, 3/10]) := by decide +kernel

theorem net1_ok : ∃ np u, projectEquations net1 = .ok (np, u) := by
  cases h : projectEquations net1 with
  | ok r => exact ⟨r.1, r.2, rfl⟩
  | error e => have := net1_counts; rw [h] at this; simp [counts] at this

theorem net2_ok : ∃ np u, projectEquations net2 = .ok (np, u) := by
  cases h : projectEquations net2 with
  | ok r => exact ⟨r.1, r.2, rfl⟩
  | error e => have := net2_counts; rw [h] at this; simp [counts] at this

end Gama.PE.Ex
