/-
  C19 — the pending-attribute discipline of the g3 data parser makes records independent.
-/
import Gama.Gen.G3ParserSites
import Mathlib.Data.List.Perm.Basic
import Mathlib.Logic.Basic
namespace Gama
namespace G3Parser

variable {K α : Type}

theorem Field.mem_all (f : Field) : f ∈ Field.all := by cases f <;> simp [Field.all]
theorem Kind.mem_all (k : Kind) : k ∈ Kind.all := by cases k <;> simp [Kind.all]

@[simp] theorem upd_same (p : Pending K) (f : Field) (v : K) : upd p f v f = v := by simp [upd]
theorem upd_other (p : Pending K) {f g : Field} (v : K) (h : g ≠ f) : upd p f v g = p g := by simp [upd, h]

theorem setOpts_agree (R : Field → Prop) (o : List (Field × K)) :
    ∀ p q : Pending K, (∀ f, R f → p f = q f) → ∀ f, R f → setOpts p o f = setOpts q o f := by
  induction o with
  | nil => intro p q h f hf; exact h f hf
  | cons a t ih =>
    intro p q h f hf
    obtain ⟨g, v⟩ := a
    simp only [setOpts]
    apply ih _ _ _ f hf
    intro x hx
    by_cases e : x = g
    · subst e; simp
    · rw [upd_other _ _ e, upd_other _ _ e]; exact h x hx

theorem setOpts_untouched (o : List (Field × K)) :
    ∀ (p : Pending K) (f : Field), (∀ a ∈ o, a.1 ≠ f) → setOpts p o f = p f := by
  induction o with
  | nil => intro p f _; rfl
  | cons a t ih =>
    intro p f h
    obtain ⟨g, v⟩ := a
    simp only [setOpts]
    rw [ih _ f (fun a ha => h a (List.mem_cons_of_mem _ ha))]
    have : f ≠ g := fun e => h (g, v) List.mem_cons_self e.symm
    exact upd_other _ _ this

variable [Zero K]

theorem consume_agree (R : Field → Prop) (cs : List (Field × Field × Bool)) :
    ∀ p q : Pending K, (∀ c ∈ cs, R c.2.1) → (∀ f, R f → p f = q f) → (consume p cs).2 = (consume q cs).2 := by
  induction cs with
  | nil => intro p q _ _; rfl
  | cons c t ih =>
    intro p q hR h
    obtain ⟨m, f, b⟩ := c
    have hf : R f := hR (m, f, b) List.mem_cons_self
    simp only [consume]
    rw [h f hf]
    congr 1
    apply ih _ _ (fun c hc => hR c (List.mem_cons_of_mem _ hc))
    intro x hx
    cases b
    · simpa using h x hx
    · simp only [if_true]
      by_cases e : x = f
      · subst e; simp
      · rw [upd_other _ _ e, upd_other _ _ e]; exact h x hx

theorem consume_keep_or_zero (cs : List (Field × Field × Bool)) :
    ∀ (p : Pending K) (g : Field), (consume p cs).1 g = p g ∨ (consume p cs).1 g = 0 := by
  induction cs with
  | nil => intro p g; exact Or.inl rfl
  | cons c t ih =>
    intro p g
    obtain ⟨m, f, b⟩ := c
    simp only [consume]
    rcases ih (if b = true then upd p f 0 else p) g with h | h
    · cases b
      · left; simpa using h
      · by_cases e : g = f
        · right; rw [h]; subst e; simp
        · left; rw [h]; simp [upd_other _ _ e]
    · exact Or.inr h

theorem consume_cleared (cs : List (Field × Field × Bool)) :
    ∀ (p : Pending K) (g : Field), (∃ c ∈ cs, c.2.1 = g ∧ c.2.2 = true) → (consume p cs).1 g = 0 := by
  induction cs with
  | nil => intro p g h; obtain ⟨c, hc, _⟩ := h; cases hc
  | cons c t ih =>
    intro p g h
    obtain ⟨m, f, b⟩ := c
    simp only [consume]
    obtain ⟨c', hc', hg, hb⟩ := h
    rcases List.mem_cons.mp hc' with e | ht
    · subst e
      simp only at hg hb
      subst hg hb
      rcases consume_keep_or_zero t (if true = true then upd p f 0 else p) f with h | h
      · rw [h]; simp
      · exact h
    · exact ih _ g ⟨c', ht, hg, hb⟩

/-- every field that some handler reads is zero -/
def Clean (S : Sites) (p : Pending K) : Prop := ∀ f, S.read f = true → p f = 0

theorem read_of_consumes (S : Sites) (k : Kind) {c : Field × Field × Bool} (hc : c ∈ S.consumes k) :
    S.read c.2.1 = true := by
  simp only [Sites.read, List.any_eq_true]
  exact ⟨k, Kind.mem_all k, c, hc, by simp⟩

theorem ok_clears {S : Sites} (h : S.ok = true) {k : Kind} {f : Field} (hs : f ∈ S.settable k) (hr : S.read f = true) :
    ∃ c ∈ S.consumes k, c.2.1 = f ∧ c.2.2 = true := by
  simp only [Sites.ok, Bool.and_eq_true, List.all_eq_true] at h
  have := h.2 k (Kind.mem_all k) f hs
  simp only [hr, Bool.not_true, Bool.false_or, Sites.clears, List.any_eq_true, Bool.and_eq_true, beq_iff_eq] at this
  obtain ⟨c, hc, h1, h2⟩ := this
  exact ⟨c, hc, h1, h2⟩

theorem ok_initCleared {S : Sites} (h : S.ok = true) {f : Field} (hr : S.read f = true) : f ∈ S.initCleared := by
  simp only [Sites.ok, Bool.and_eq_true, List.all_eq_true] at h
  have := h.1 f (Field.mem_all f)
  simpa [hr] using this

theorem foldl_upd_zero (l : List Field) :
    ∀ (p : Pending K) (f : Field), (f ∈ l ∨ p f = 0) → (l.foldl (fun p f => upd p f 0) p) f = 0 := by
  induction l with
  | nil => intro p f h; rcases h with h | h; cases h; exact h
  | cons a t ih =>
    intro p f h
    simp only [List.foldl_cons]
    apply ih
    by_cases e : f = a
    · right; subst e; simp
    · rcases h with h | h
      · rcases List.mem_cons.mp h with h | h
        · exact absurd h e
        · exact Or.inl h
      · right; rw [upd_other _ _ e]; exact h

theorem initial_clean {S : Sites} (h : S.ok = true) (junk : Pending K) : Clean S (initial S junk) :=
  fun f hr => foldl_upd_zero _ _ f (Or.inl (ok_initCleared h hr))

/-- one record from a clean state: the observation built is the record's own, and the state is clean again -/
theorem step_clean {S : Sites} (h : S.ok = true) {p : Pending K} (hp : Clean S p) (r : Rec α K)
    (hw : wellFormed S r = true) :
    ∃ p', step S p r = .ok (p', build S r) ∧ Clean S p' := by
  refine ⟨(consume (setOpts p r.opts) (S.consumes r.kind)).1, ?_, ?_⟩
  · simp only [step, hw, if_true, build]
    congr 3
    apply consume_agree (fun f => S.read f = true)
    · intro c hc; exact read_of_consumes S r.kind hc
    · apply setOpts_agree
      intro f hf; exact hp f hf
  · intro f hr
    by_cases hm : ∃ a ∈ r.opts, a.1 = f
    · obtain ⟨a, ha, e⟩ := hm
      have hs : f ∈ S.settable r.kind := by
        simp only [wellFormed, List.all_eq_true] at hw
        have := hw a ha
        rw [e] at this
        simpa using this
      exact consume_cleared _ _ f (ok_clears h hs hr)
    · rcases consume_keep_or_zero (S.consumes r.kind) (setOpts p r.opts) f with e | e
      · rw [e, setOpts_untouched]
        · exact hp f hr
        · intro a ha e'; exact hm ⟨a, ha, e'⟩
      · exact e

theorem step_illformed (S : Sites) (p : Pending K) (r : Rec α K) (hw : wellFormed S r = false) :
    step S p r = .error .unknownTag := by
  simp [step, hw]

theorem parseFrom_clean {S : Sites} (h : S.ok = true) (rs : List (Rec α K)) :
    ∀ p : Pending K, Clean S p →
      parseFrom S p rs = if rs.all (wellFormed S) then .ok (rs.map (build S)) else .error .unknownTag := by
  induction rs with
  | nil => intro p _; simp [parseFrom]
  | cons r t ih =>
    intro p hp
    cases hw : wellFormed S r
    · simp [parseFrom, step_illformed S p r hw, hw]
    · obtain ⟨p', hs, hp'⟩ := step_clean h hp r hw
      simp only [parseFrom, hs, ih p' hp', List.all_cons, hw, Bool.true_and, List.map_cons]
      cases t.all (wellFormed S) <;> simp

/-- parsing a document: every observation is built from its own record alone -/
theorem parse_record_local {S : Sites} (h : S.ok = true) (junk : Pending K) (rs : List (Rec α K)) :
    parse S junk rs = if rs.all (wellFormed S) then .ok (rs.map (build S)) else .error .unknownTag :=
  parseFrom_clean h rs _ (initial_clean h junk)

theorem parse_perm {S : Sites} (h : S.ok = true) (junk junk' : Pending K) {rs rs' : List (Rec α K)} (hp : rs.Perm rs') :
    (∀ bs, parse S junk rs = .ok bs → ∃ bs', parse S junk' rs' = .ok bs' ∧ bs.Perm bs') ∧
    (∀ e, parse S junk rs = .error e → parse S junk' rs' = .error e) := by
  rw [parse_record_local h, parse_record_local h, ← hp.all_eq]
  cases rs.all (wellFormed S)
  · simp
  · simp only [if_true]
    refine ⟨fun bs hb => ⟨_, rfl, ?_⟩, fun e he => by cases he⟩
    cases hb
    exact hp.map _

/-! ### the cluster check: a class whose handler pushes too few scale entries is unreachable -/

theorem starved_unreachable (S : ObsSites) (k : Kind) (h : S.starves k = true) (rs : List ClusterRec)
    (hv : S.validRun rs = true) :
    scaleSize rs ≤ S.obsDim rs ∧ ((∃ r ∈ rs, S.builds r.1 = k) → scaleSize rs < S.obsDim rs) := by
  have hk : ∀ t c, c ∈ S.scalePushes t →
      c ≤ S.dimension (S.builds t) ∧ (S.builds t = k → c < S.dimension (S.builds t)) := by
    intro t c hc
    have h1 := (List.all_eq_true.mp h) t (Kind.mem_all t)
    have h2 := (List.all_eq_true.mp h1) c hc
    simp only [Bool.and_eq_true, Bool.or_eq_true, decide_eq_true_eq, bne_iff_ne, ne_eq] at h2
    refine ⟨h2.1, fun hb => ?_⟩
    rcases h2.2 with h3 | h3
    · exact absurd hb h3
    · exact h3
  induction rs with
  | nil => simp [scaleSize, ObsSites.obsDim]
  | cons r t ih =>
    simp only [ObsSites.validRun, List.all_cons, Bool.and_eq_true] at hv
    have hr : r.2 ∈ S.scalePushes r.1 := by simpa using hv.1
    obtain ⟨i1, i2⟩ := ih hv.2
    obtain ⟨k1, k2⟩ := hk r.1 r.2 hr
    simp only [scaleSize, ObsSites.obsDim, List.map_cons, List.sum_cons] at i1 i2 ⊢
    refine ⟨by omega, ?_⟩
    rintro ⟨q, hq, hb⟩
    rcases List.mem_cons.mp hq with rfl | hq
    · have := k2 hb; omega
    · have := i2 ⟨q, hq, hb⟩; omega

/-- a cluster that passes the first check of `DataParser::g3_obs` contains no record that builds a `k` -/
theorem starved_refused (S : ObsSites) (k : Kind) (h : S.starves k = true) (rs : List ClusterRec)
    (hv : S.validRun rs = true) (hc : S.scaleCheck rs = true) : ∀ r ∈ rs, S.builds r.1 ≠ k := by
  intro r hr hb
  have := (starved_unreachable S k h rs hv).2 ⟨r, hr, hb⟩
  simp only [ObsSites.scaleCheck, beq_iff_eq] at hc
  omega

end G3Parser
end Gama
