/-
  C19 — from sparse rows to the design matrix, and the transport of a least-squares solution when the
  input records are reordered (composition of `G3Book.order_independent` with LS5 `IsLSSolution.perm`),
  and the redundancy as `rows − rank` (LS10).

  A *symbolic row* keeps, for every coefficient, the identity of its unknown (point name, component);
  the sparse matrix of gama-g3 holds the same coefficients under `Parameter::index()` of that unknown.
-/
import Gama.Lemmas.G3BookLemmas
import Gama.Lemmas.G3LinShape
import Gama.Lemmas.LS.Transform
import Gama.Lemmas.LS.Rank
import Mathlib.Data.Fintype.EquivFin
import Mathlib.Data.Real.Basic
namespace Gama
namespace G3Lin
open G3Book Matrix

variable {ι : Type}

/-- a row with the identity of the unknown of every coefficient -/
abbrev SRow (ι : Type) := List (Par ι × ℝ)

/-- the symbolic form of a generated row: `names` tells which point every role is -/
def symRow (P : Pts ℝ) (names : Role → ι) (r : GRow ℝ) : SRow ι :=
  r.flatMap fun b => if b.active P then b.pushes.map (fun q => ((names q.role, q.comp), q.coef)) else []

/-- the sparse row of the code is the symbolic row under the column indices, whenever the points the
    linearisation reads carry the indices of the book (`(P role).index comp = index (names role, comp)`) -/
theorem evalRow_eq_symRow (P : Pts ℝ) (names : Role → ι) (index : Par ι → Nat)
    (h : ∀ r c, @GPt.index ℝ (P r) c = index (names r, c)) (r : GRow ℝ) :
    evalRow P r = (symRow P names r).map fun e => (e.2, index e.1) := by
  simp only [evalRow, symRow, List.map_flatMap]
  congr 1
  funext b
  by_cases hb : b.active P = true <;> simp [hb, h]

/-- the design matrix: entry (row r, column k) = sum of the coefficients of row r whose unknown has
    index k + 1 (`SparseMatrix` columns are 1-based; index 0 = not adjusted, never stored) -/
def matOf {m : Nat} (n : Nat) (index : Par ι → Nat) (rows : Fin m → SRow ι) : Matrix (Fin m) (Fin n) ℝ :=
  fun r k => (((rows r).filter fun e => index e.1 = k.val + 1).map (·.2)).sum

/-- renumbering the unknowns by a bijection of the columns and permuting the rows is `submatrix` -/
theorem matOf_renumber {m n : Nat} (index₁ index₂ : Par ι → Nat) (rows : Fin m → SRow ι)
    (e : Fin n ≃ Fin n) (ρ : Fin m ≃ Fin m)
    (h0 : ∀ q, index₁ q = 0 → index₂ q = 0)
    (h1 : ∀ q, index₁ q ≠ 0 → ∃ hq : index₁ q - 1 < n, index₂ q = (e ⟨index₁ q - 1, hq⟩).val + 1) :
    matOf n index₂ (rows ∘ ρ) = (matOf n index₁ rows).submatrix ρ e.symm := by
  funext r k
  simp only [matOf, submatrix_apply, Function.comp]
  congr 2
  apply List.filter_congr
  intro a _
  by_cases hz : index₁ a.1 = 0
  · simp [hz, h0 _ hz]
  · obtain ⟨hq, h2⟩ := h1 _ hz
    rw [h2]
    have hpos : 1 ≤ index₁ a.1 := Nat.one_le_iff_ne_zero.mpr hz
    simp only [decide_eq_decide, Nat.add_right_cancel_iff]
    constructor
    · intro h
      have : e ⟨index₁ a.1 - 1, hq⟩ = k := Fin.ext h
      have h3 : (⟨index₁ a.1 - 1, hq⟩ : Fin n) = e.symm k := by rw [← this]; simp
      have := congrArg Fin.val h3
      simp only at this
      omega
    · intro h
      have h3 : (⟨index₁ a.1 - 1, hq⟩ : Fin n) = e.symm k := Fin.ext (by simp only; omega)
      rw [h3]; simp

/-- a bijection of `Fin n` from an injective self-map of `1 … n` -/
theorem exists_equiv_of_sigma (n : Nat) (σ : Nat → Nat)
    (hr : ∀ k, 1 ≤ k → k ≤ n → 1 ≤ σ k ∧ σ k ≤ n)
    (hi : ∀ k k', 1 ≤ k → k ≤ n → 1 ≤ k' → k' ≤ n → σ k = σ k' → k = k') :
    ∃ e : Fin n ≃ Fin n, ∀ k : Fin n, (e k).val + 1 = σ (k.val + 1) := by
  let f : Fin n → Fin n := fun k => ⟨σ (k.val + 1) - 1, by
    have := hr (k.val + 1) (by omega) (by omega); omega⟩
  have hf : Function.Injective f := by
    intro a b hab
    have h1 := hr (a.val + 1) (by omega) (by omega)
    have h2 := hr (b.val + 1) (by omega) (by omega)
    have : σ (a.val + 1) - 1 = σ (b.val + 1) - 1 := congrArg Fin.val hab
    have := hi (a.val + 1) (b.val + 1) (by omega) (by omega) (by omega) (by omega) (by omega)
    exact Fin.ext (by omega)
  refine ⟨Equiv.ofBijective f (Finite.injective_iff_bijective.mp hf), fun k => ?_⟩
  have := hr (k.val + 1) (by omega) (by omega)
  show σ (k.val + 1) - 1 + 1 = σ (k.val + 1)
  omega

/-- **record order and the solution**: let `o₁ ~ o₂` be two orders of the input records, `n` the number of
    unknowns (the same for both, `order_independent`), `rows` the symbolic rows of the observations in the
    first order.  There is a renumbering `e` of the columns such that for every row permutation `ρ`
    (the order in which the second input lists the same rows), right-hand sides `b`, weights `W`:
    the design matrix of the second input is the first one with rows permuted by `ρ` and columns renumbered
    by `e`, and a least-squares solution `(x, v, Φ)` of the first problem (regularised over `S`) gives the
    solution of the second: unknowns renumbered, residuals permuted, same `Φ`, `S` transported (LS5). -/
theorem order_solution [DecidableEq ι] (P : Points ι) {o₁ o₂ : List (Obs ι)} (h : o₁.Perm o₂) {m : Nat}
    (rows : Fin m → SRow ι) :
    ∃ e : Fin (updateObservations P o₁).idx.cols ≃ Fin (updateObservations P o₁).idx.cols,
      ∀ (ρ : Fin m ≃ Fin m),
        matOf _ ((updateObservations P o₂).idx.index (isFreePar P)) (rows ∘ ρ) =
          (matOf _ ((updateObservations P o₁).idx.index (isFreePar P)) rows).submatrix ρ e.symm ∧
        ∀ (b : Fin m → ℝ) (W : Matrix (Fin m) (Fin m) ℝ) (S : Finset (Fin (updateObservations P o₁).idx.cols))
          (x : Fin (updateObservations P o₁).idx.cols → ℝ) (v : Fin m → ℝ) (rtr : ℝ),
          LS.IsLSSolution (matOf _ ((updateObservations P o₁).idx.index (isFreePar P)) rows) b W S x v rtr →
          LS.IsLSSolution (matOf _ ((updateObservations P o₂).idx.index (isFreePar P)) (rows ∘ ρ)) (b ∘ ρ)
            (W.submatrix ρ ρ) (S.map e.toEmbedding) (x ∘ e.symm) (v ∘ ρ) rtr := by
  obtain ⟨_, _, hc, _, σ, hr, hi, hσ⟩ := order_independent P h
  obtain ⟨inv, _⟩ := final_inv P o₁
  obtain ⟨e, he⟩ := exists_equiv_of_sigma _ σ (fun k a b => by rw [hc]; exact hr k a b) hi
  refine ⟨e, fun ρ => ?_⟩
  have hm := matOf_renumber ((updateObservations P o₁).idx.index (isFreePar P))
    ((updateObservations P o₂).idx.index (isFreePar P)) rows e ρ
    (fun q hq => by rw [hσ q]; simp [hq])
    (fun q hq => by
      have hle := (index_range inv hq).2
      have hpos : 1 ≤ (updateObservations P o₁).idx.index (isFreePar P) q := Nat.one_le_iff_ne_zero.mpr hq
      refine ⟨by omega, ?_⟩
      rw [hσ q, if_neg hq, he]
      simp only
      congr 1
      omega)
  refine ⟨hm, fun b W S x v rtr hs => ?_⟩
  rw [hm]
  have := hs.perm ρ e.symm
  simpa using this

/-- **redundancy = rows − rank** (LS10): with `defect` = the nullity of the assembled design matrix
    (what `Adj::defect` reports, C01/C20), the redundancy coded in `Model::update_adjustment` is the number
    of rows minus the rank of that matrix -/
theorem redundancy_rank (b : Book ι) (A : Matrix (Fin b.rows) (Fin b.idx.cols) ℝ) :
    redundancy b (LS.nullity A) = (b.rows : ℤ) - (A.rank : ℤ) := by
  have := LS.dof_bookkeeping A
  simp only [Fintype.card_fin] at this
  unfold redundancy
  omega

end G3Lin
end Gama
