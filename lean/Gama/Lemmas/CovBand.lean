/-
  Lemmas for C12 (covariance band): the packed position `CovMat::operator[]` computes is the number of
  `<flt>` elements the writer emitted before that row, hence reading returns what was written.
-/
import Gama.Model.CovBand
import Mathlib.Tactic.Ring
namespace Gama.CovBand

variable {K : Type}

/-! ### positions in a concatenation of rows -/

/-- number of elements in rows `0 … k-1` -/
def off (len : Nat → Nat) : Nat → Nat
  | 0 => 0
  | k + 1 => off len k + len k

theorem off_mono (len : Nat → Nat) {k n : Nat} (h : k ≤ n) : off len k ≤ off len n := by
  induction n with
  | zero => have : k = 0 := by omega
            subst this; exact Nat.le_refl _
  | succ n ih =>
    by_cases hk : k = n + 1
    · subst hk; exact Nat.le_refl _
    · have := ih (by omega); simp only [off]; omega

theorem length_flatMap_range {α : Type} (f : Nat → List α) (n : Nat) :
    ((List.range n).flatMap f).length = off (fun k => (f k).length) n := by
  induction n with
  | zero => simp [off]
  | succ n ih => simp [List.range_succ, List.flatMap_append, ih, off]

theorem getElem?_flatMap_range {α : Type} (f : Nat → List α) (n k t : Nat) (hk : k < n)
    (ht : t < (f k).length) :
    ((List.range n).flatMap f)[off (fun k => (f k).length) k + t]? = (f k)[t]? := by
  induction n with
  | zero => omega
  | succ n ih =>
    rw [List.range_succ, List.flatMap_append]
    by_cases h : k < n
    · have h1 : off (fun k => (f k).length) (k + 1) ≤ off (fun k => (f k).length) n :=
        off_mono _ (by omega)
      have hlt : off (fun k => (f k).length) k + t < ((List.range n).flatMap f).length := by
        rw [length_flatMap_range]; simp only [off] at h1; omega
      rw [List.getElem?_append_left hlt]; exact ih h
    · have hkn : k = n := by omega
      subst hkn
      rw [List.getElem?_append_right (by rw [length_flatMap_range]; omega), length_flatMap_range,
        Nat.add_sub_cancel_left]
      simp

/-! ### the closed form of `CovMat::operator[]` -/

theorem rowLen_eq (d b k : Nat) (hk : k < d) :
    rowLen d (b : Int) (k + 1) = min b (d - k - 1) + 1 := by
  unfold rowLen
  omega

theorem tri_succ (m : Int) : (m + 1) * (m + 1 + 1) / 2 = m * (m + 1) / 2 + (m + 1) := by
  have h : (m + 1) * (m + 1 + 1) = m * (m + 1) + 2 * (m + 1) := by ring
  rw [h]; omega

theorem rowStart_eq_off (d b : Nat) (hb : b < d) (k : Nat) (hk : k ≤ d) :
    rowStart d (b : Int) (k + 1) = (off (fun k => rowLen d (b : Int) (k + 1)) k : Int) := by
  induction k with
  | zero =>
    have hn : ¬ ((((0 + 1 : Nat) : Int) - 1) > (d : Int) - (b : Int)) := by omega
    simp only [rowStart, off, if_neg hn]
    simp
  | succ k ih =>
    have ihk := ih (by omega)
    simp only [off]
    rw [rowLen_eq d b k (by omega)]
    push_cast
    rw [← ihk]
    simp only [rowStart]
    have e1 : (((k + 1 + 1 : Nat) : Int) - 1) = (k : Int) + 1 := by omega
    have e0 : (((k + 1 : Nat) : Int) - 1) = (k : Int) := by omega
    rw [e1, e0]
    have hmul : ((k : Int) + 1) * ((b : Int) + 1) = (k : Int) * ((b : Int) + 1) + ((b : Int) + 1) := by ring
    rw [hmul]
    by_cases c1 : (k : Int) > (d : Int) - (b : Int)
    · have c2 : (k : Int) + 1 > (d : Int) - (b : Int) := by omega
      rw [if_pos c2, if_pos c1]
      have e2 : (k : Int) + 1 - ((d : Int) - (b : Int)) = ((k : Int) - ((d : Int) - (b : Int))) + 1 := by ring
      rw [e2, tri_succ]
      omega
    · rw [if_neg c1]
      by_cases c2 : (k : Int) + 1 > (d : Int) - (b : Int)
      · rw [if_pos c2]
        have e3 : (k : Int) + 1 - ((d : Int) - (b : Int)) = 1 := by omega
        rw [e3]
        omega
      · rw [if_neg c2]
        omega

theorem storage_eq_off (d b : Nat) (hb : b < d) :
    storage d (b : Int) = (off (fun k => rowLen d (b : Int) (k + 1)) d : Int) := by
  rw [← rowStart_eq_off d b hb d (Nat.le_refl _)]
  simp only [storage, rowStart]
  have e1 : (((d + 1 : Nat) : Int) - 1) = (d : Int) := by omega
  rw [e1]
  by_cases c : (d : Int) > (d : Int) - (b : Int)
  · rw [if_pos c]
    have : (d : Int) - ((d : Int) - (b : Int)) = (b : Int) := by ring
    rw [this]
  · rw [if_neg c]
    have : (b : Int) = 0 := by omega
    rw [this]; simp

/-! ### writer → reader -/

theorem clip_range (band : Int) (d : Nat) (hd : 0 < d) (hband : -1 ≤ band) :
    0 ≤ clip band d ∧ clip band d < d := by
  unfold clip
  split
  · omega
  · split <;> omega

theorem length_emitFlt (Q : Nat → Nat → K) (d : Nat) (b : Int) :
    (emitFlt Q d b).length = off (fun k => rowLen d b (k + 1)) d := by
  unfold emitFlt
  rw [length_flatMap_range]
  simp [emitRow]

theorem getElem?_emitFlt (Q : Nat → Nat → K) (d : Nat) (b : Int) (k t : Nat) (hk : k < d)
    (ht : t < rowLen d b (k + 1)) :
    (emitFlt Q d b)[off (fun k => rowLen d b (k + 1)) k + t]? = some (Q (k + 1) (k + 1 + t)) := by
  have h := getElem?_flatMap_range (fun i0 => emitRow Q d b (i0 + 1)) d k t hk (by simpa [emitRow] using ht)
  simp only [emitRow, List.length_map, List.length_range] at h
  unfold emitFlt
  simp only [emitRow]
  rw [h]
  simp [ht]

/-- the reader accepts what the writer wrote and every element of the reconstructed matrix is the
    band-limited `Q` -/
theorem read_write [Zero K] (Q : Nat → Nat → K) (d : Nat) (band : Int) (hband : -1 ≤ band) :
    ∃ C : CovMat K, read (write Q d band) = .ok C ∧ C.dim = d ∧ C.band = clip band d ∧
      ∀ i j, 1 ≤ i → i ≤ d → 1 ≤ j → j ≤ d → get C i j = bandOf Q (clip band d) i j := by
  by_cases hd : d = 0
  · subst hd
    refine ⟨⟨0, 0, []⟩, ?_, rfl, by simp [clip], ?_⟩
    · simp [read, write, clip, storage, emitFlt]
    · intro i j h1 h2; omega
  · have hd' : 0 < d := Nat.pos_of_ne_zero hd
    obtain ⟨hb0, hbd⟩ := clip_range band d hd' hband
    obtain ⟨b, hb⟩ : ∃ b : Nat, clip band d = (b : Int) := ⟨(clip band d).toNat, by omega⟩
    have hbd' : b < d := by omega
    have hlen := length_emitFlt Q d (b : Int)
    have hst := storage_eq_off d b hbd'
    refine ⟨⟨d, (b : Int), emitFlt Q d (b : Int)⟩, ?_, rfl, hb.symm, ?_⟩
    · simp only [read, write, hb, hst]
      have h1 : ¬ ((off (fun k => rowLen d (b : Int) (k + 1)) d : Int) < 0) := by omega
      simp only [h1, if_false, Int.toNat_natCast, hlen, Nat.lt_irrefl]
      rw [← hlen, List.take_length]
    · intro i j hi1 hid hj1 hjd
      simp only [get, bandOf, hb]
      generalize hlo : (if i > j then j else i) = lo
      generalize hhi : (if i > j then i else j) = hi
      have hlo1 : 1 ≤ lo := by rw [← hlo]; split <;> omega
      have hlohi : lo ≤ hi := by rw [← hlo, ← hhi]; split <;> omega
      have hhid : hi ≤ d := by rw [← hhi]; split <;> omega
      by_cases hout : (hi : Int) > (lo : Int) + (b : Int)
      · simp [hout]
      · simp only [hout, if_false]
        obtain ⟨k, rfl⟩ : ∃ k, lo = k + 1 := ⟨lo - 1, by omega⟩
        have hk : k < d := by omega
        rw [rowStart_eq_off d b hbd' k (by omega)]
        have ht : hi - (k + 1) < rowLen d (b : Int) (k + 1) := by
          rw [rowLen_eq d b k hk]; omega
        have hidx : ((off (fun k => rowLen d (b : Int) (k + 1)) k : Int) +
            ((hi : Int) - ((k + 1 : Nat) : Int))).toNat
            = off (fun k => rowLen d (b : Int) (k + 1)) k + (hi - (k + 1)) := by omega
        rw [hidx, List.getD_eq_getElem?_getD, getElem?_emitFlt Q d (b : Int) k _ hk ht]
        have : k + 1 + (hi - (k + 1)) = hi := by omega
        simp [this]

/-! ### index lists -/

theorem indList_eq_originalIndex (pts : List Pt) (oris : List Ori)
    (h : ∀ o ∈ oris, o.standpointIndex = o.i) : indList pts oris = originalIndex pts oris := by
  unfold indList originalIndex
  congr 1
  exact List.map_congr_left h

theorem ptInds_length (p : Pt) :
    (ptInds p).length = (if p.bxy then 2 else 0) + (if p.bz then 1 else 0) := by
  unfold ptInds; cases p.bxy <;> cases p.bz <;> simp

theorem readerNumber_spec (k : Nat) (sh : List (Bool × Bool)) :
    (readerNumber k sh).1.flatten = List.range' (k + 1) ((readerNumber k sh).2 - k) ∧
    k ≤ (readerNumber k sh).2 ∧
    (readerNumber k sh).2 - k = (sh.map (fun s => (if s.1 then 2 else 0) + (if s.2 then 1 else 0))).sum := by
  induction sh generalizing k with
  | nil => simp [readerNumber]
  | cons s sh ih =>
    obtain ⟨hxy, hz⟩ := s
    simp only [readerNumber]
    cases hxy <;> cases hz <;> simp only [if_true, if_false, Bool.false_eq_true, List.flatten_cons,
      List.nil_append, List.append_nil, List.map_cons, List.sum_cons]
    · have := ih k; simpa using this
    · obtain ⟨h1, h2, h3⟩ := ih (k + 1)
      refine ⟨?_, by omega, by omega⟩
      rw [h1]
      have : (readerNumber (k + 1) sh).2 - k = ((readerNumber (k + 1) sh).2 - (k + 1)) + 1 := by omega
      rw [this, Nat.add_comm _ 1, List.range'_succ]; simp
    · obtain ⟨h1, h2, h3⟩ := ih (k + 2)
      refine ⟨?_, by omega, by omega⟩
      rw [h1]
      have : (readerNumber (k + 2) sh).2 - k = ((readerNumber (k + 2) sh).2 - (k + 2)) + 1 + 1 := by omega
      rw [this, List.range'_succ, List.range'_succ]
      simp
    · obtain ⟨h1, h2, h3⟩ := ih (k + 2 + 1)
      refine ⟨?_, by omega, by omega⟩
      rw [h1]
      have : (readerNumber (k + 2 + 1) sh).2 - k = ((readerNumber (k + 2 + 1) sh).2 - (k + 2 + 1)) + 1 + 1 + 1 := by omega
      rw [this, List.range'_succ, List.range'_succ, List.range'_succ]
      simp

theorem adjustedShape_sum (pts : List Pt) :
    ((adjustedShape pts).map (fun s => (if s.1 then 2 else 0) + (if s.2 then 1 else 0))).sum
      = (pts.flatMap ptInds).length := by
  induction pts with
  | nil => simp [adjustedShape]
  | cons p pts ih =>
    simp only [adjustedShape, List.flatMap_cons, List.length_append, ptInds_length] at ih ⊢
    rw [← ih]
    cases h1 : p.bxy <;> cases h2 : p.bz <;> simp [List.filter_cons, h1, h2]

/-- the reader numbers the adjusted coordinates and orientations 1 … dim, in the writer's `ind[]` order -/
theorem readerIndexes_eq (pts : List Pt) (oris : List Ori) :
    readerIndexes pts oris = List.range' 1 (indList pts oris).length := by
  unfold readerIndexes indList
  obtain ⟨h1, h2, h3⟩ := readerNumber_spec 0 (adjustedShape pts)
  rw [adjustedShape_sum] at h3
  simp only [Nat.sub_zero, Nat.zero_add] at h1 h3
  simp only [h1, h3, List.length_append, List.length_map]
  rw [List.range'_append_1 |>.symm] <;> simp [List.range'_eq_map_range, Nat.add_comm, Nat.add_left_comm]

end Gama.CovBand
