/-
  The three models of the assembly loop of `LocalNetwork::project_equations()` are one loop.

    C05  `Lin.passFrom` / `Lin.codeMatrix` (`Model/LinPass.lean`; executed by `drv_lin`, `drv_pe`):
         linearise, thread the index state, keep the rows as pushed; entry = `rowSum` of the row
    C07  `Lin.runAll` / `Lin.codeMatrixOf` (`Lemmas/C07Perm.lean`): the same threading over observations
         given as (names, events); entry = `rowCoef` of the row; matrices indexed by `Fin`
    C14  `Rev.assemble` (`Model/Revise.lean`): the visiting order — clusters in list order, inside a cluster
         its active observations in list order — as a fold with an abstract step

  * `passFrom_runAll`            a successful `passFrom` IS `runAll` on the events the member functions returned
  * `rowCoef_eq_rowSum`          the two readings of a sparse row agree (repeated columns add up in both)
  * `codeMatrixOf_eq_codeMatrix` hence C07's design matrix of the pass in the given order is C05's `codeMatrix`,
                                 entry by entry, with the same number of columns (`finalState = res.idx`) and the
                                 right-hand sides of `passFrom`; in particular for C07's `obOf rows outs`
  * `assemble_visits`            `Rev.assemble` (cluster-local state trivial) is the left fold over
                                 `cls.flatMap (active observations)` — the list `PE.revisedFrom` builds
-/
import Gama.Lemmas.C07Assemble
import Gama.Lemmas.LinAssemble
import Gama.Model.Revise
namespace Gama.Lin
open Matrix

/-- the observations of a pass as C07 sees them: names of the roles and the events returned -/
def obsOfPass (obs : List (NObs ℝ)) (outs : List (LinOut ℝ)) : List (Ob ℝ) :=
  List.zipWith (fun ob out => ⟨ob.name, out.evs⟩) obs outs

/-- **C05 ↔ C07, the loop**: a pass that returns is `runAll` over the events its member functions returned -/
theorem passFrom_runAll (σ : Net ℝ) (fuel : Nat) : ∀ (obs : List (NObs ℝ)) (s : IdxState) (r : PassOut ℝ),
    passFrom σ fuel obs s = .ok r →
    ∃ outs : List (LinOut ℝ), List.Forall₂ (fun ob out => ob.kind.lin fuel (σ.view ob) = .ok out) obs outs ∧
      runAll (obsOfPass obs outs) s = (r.idx, r.rows) ∧ r.rhs = outs.map (·.rhs) := by
  intro obs
  induction obs with
  | nil =>
    intro s r h
    simp only [passFrom] at h; injection h with h; subst h
    exact ⟨[], .nil, rfl, rfl⟩
  | cons ob t ih =>
    intro s r h
    obtain ⟨out, r', ho, hr', rfl⟩ := passFrom_cons h
    obtain ⟨outs, h1, h2, h3⟩ := ih _ r' hr'
    refine ⟨out :: outs, .cons ho h1, ?_, by simp [h3]⟩
    simp only [obsOfPass, List.zipWith_cons_cons, runAll]
    have h2' : runAll (List.zipWith (fun ob out => (⟨ob.name, out.evs⟩ : Ob ℝ)) t outs) (runEvs ob.name out.evs s).1
        = (r'.idx, r'.rows) := h2
    rw [h2']

/-- the two readings of a sparse row: C07's `rowCoef` (filter, sum) and C05's `rowSum` -/
theorem rowCoef_eq_rowSum (row : List (Nat × ℝ)) (k : Nat) : rowCoef row k = rowSum row k := by
  induction row with
  | nil => simp [rowCoef, rowSum_nil]
  | cons e t ih =>
    obtain ⟨i, v⟩ := e
    rw [rowSum_cons, ← ih]
    unfold rowCoef
    by_cases h : i = k
    · simp [List.filter_cons, h]
    · simp [List.filter_cons, h]

section
variable {m : Nat} (obsF : Fin m → Ob ℝ)

/-- **C05 ↔ C07, the matrix**: when the observations of C07 are those of the pass (in the order of the pass),
    C07's final state is the pass's, and C07's design matrix is C05's `codeMatrix`, entry by entry -/
theorem codeMatrixOf_eq_codeMatrix (σ : Net ℝ) (fuel : Nat) (obs : List (NObs ℝ)) (r : PassOut ℝ)
    (hp : passFrom σ fuel obs IdxState.init = .ok r) :
    ∃ outs : List (LinOut ℝ), List.Forall₂ (fun ob out => ob.kind.lin fuel (σ.view ob) = .ok out) obs outs ∧
      r.rhs = outs.map (·.rhs) ∧
      ∀ {m : Nat} (obsF : Fin m → Ob ℝ), List.ofFn obsF = obsOfPass obs outs →
        finalState obsF (Equiv.refl _) = r.idx ∧ rowsOf obsF (Equiv.refl _) = r.rows ∧
        ∀ (i : Fin m) (j : Fin (finalState obsF (Equiv.refl _)).maxn),
          codeMatrixOf obsF (Equiv.refl _) i j = codeMatrix r.rows i.val (j.val + 1) := by
  obtain ⟨outs, h1, h2, h3⟩ := passFrom_runAll σ fuel obs _ r hp
  refine ⟨outs, h1, h3, ?_⟩
  intro m obsF hF
  have hl : orderList obsF (Equiv.refl _) = obsOfPass obs outs := by
    rw [← hF]; rfl
  have hs : finalState obsF (Equiv.refl _) = r.idx := by unfold finalState; rw [hl, h2]
  have hr : rowsOf obsF (Equiv.refl _) = r.rows := by unfold rowsOf; rw [hl, h2]
  refine ⟨hs, hr, fun i j => ?_⟩
  unfold codeMatrixOf codeMatrix
  rw [hr, rowCoef_eq_rowSum]

/-- … in particular for the observations C07's assembled theorems are about (`obOf rows outs`) -/
theorem codeMatrixOf_obOf_eq_codeMatrix (σ : Net ℝ) (fuel : Nat) (obs : List (NObs ℝ)) (r : PassOut ℝ)
    (hp : passFrom σ fuel obs IdxState.init = .ok r) :
    ∃ outs : List (LinOut ℝ), r.rhs = outs.map (·.rhs) ∧
      ∀ {m : Nat} (rows : Fin m → GenRow) (outsF : Fin m → LinOut ℝ),
        List.ofFn (obOf rows outsF) = obsOfPass obs outs →
        finalState (obOf rows outsF) (Equiv.refl _) = r.idx ∧
        ∀ (i : Fin m) (j : Fin (finalState (obOf rows outsF) (Equiv.refl _)).maxn),
          codeMatrixOf (obOf rows outsF) (Equiv.refl _) i j = codeMatrix r.rows i.val (j.val + 1) := by
  obtain ⟨outs, _, h2, h3⟩ := codeMatrixOf_eq_codeMatrix σ fuel obs r hp
  exact ⟨outs, h2, fun rows outsF hF => ⟨(h3 _ hF).1, (h3 _ hF).2.2⟩⟩

end

end Gama.Lin

namespace Gama.Rev
variable {K : Type}

/-- **C14, the visiting order**: with a trivial cluster-local state `Rev.assemble` is the left fold over the
    active observations of the clusters in list order — clusters in order, inside a cluster in order: the list
    `revised_obs_` (`PE.revisedFrom`, `Lin.passFrom`'s argument) -/
theorem assemble_visits {σ : Type} (step : σ × Unit → Obs K → List (Option (Pt K)) → σ × Unit) (init : σ) (n : Net K) :
    assemble step (fun _ => ()) init n =
      (n.cls.flatMap fun c => c.obs.filter (·.active)).foldl
        (fun s o => (step (s, ()) o ((Gen.requirements o.ty).map fun rf => findPt n.pts (o.roleId rf.1))).1) init := by
  unfold assemble
  generalize n.cls = cls
  induction cls generalizing init with
  | nil => rfl
  | cons c cs ih =>
    simp only [List.foldl_cons, List.flatMap_cons, List.foldl_append]
    rw [ih]
    congr 1
    unfold assembleCl
    generalize c.obs.filter (·.active) = os
    induction os generalizing init with
    | nil => rfl
    | cons o os ih2 =>
      simp only [List.foldl_cons]
      have : step (init, ()) o ((Gen.requirements o.ty).map fun rf => findPt n.pts (o.roleId rf.1))
          = ((step (init, ()) o ((Gen.requirements o.ty).map fun rf => findPt n.pts (o.roleId rf.1))).1, ()) := rfl
      rw [this]
      exact ih2 _

end Gama.Rev
