/-
  Bridge between the two Lean models of `GKFparser::finish_cov` (lib/gnu_gama/xml/gkfparser.cpp:1225-1261)
  (notes/CLAUSES.md, cross-cutting observation 2):

    C10  `Gama.Cov.CovParse.finishCov : St K → St K × CovMat K`     (Model/CovParse.lean)
           input: parser members `idim`, `iband`, `err` and the words of `cov_mat_data`, each already with the
           result of `toDouble` (`Option K`); output: new parser state (first error wins) and the filled matrix.
    C11  `Gama.Cov.finishCov dim band text : Except Verdict (List (Nat × Nat))`   (Model/GkfCov.lean)
           input: the character data; splits it into words itself, tests `toDoubleOk w` (`isFloat w && finiteLit w`); output: the list of
           (row, col) write positions, or the error kind.  No values, no matrix, no parser state.

  Link between the input abstractions: a tokenisation `tok : List Char → Option K` (= `toDouble`), the C10 word
  list being `(words text).map tok`.  Error kinds: `verr : Verdict → Option PErr` (injective; `ok ↦ none`).

  Main results (all for every dim, band, text; induction over the word list in `fillLoop_fill`):
    `size_toNat`         `(Packed.size d b).toNat = Gkf.covElements d b` for all d, b
    `finishCov_err`      if `tok` accepts exactly the `toDoubleOk` words and `0 ≤ Packed.size idim iband`:
                         C10's error after `finish_cov` = `verr` of C11's result (same accept set, same error kind)
    `verdict_bridge`     through `process_cov`, NO side condition: `finishCov ∘ processCov` (C10) reports exactly
                         `verr (verdict sdim sband text)` (C11), attributes related by `attrOf`
    `finishCov_values`   accepted (`1 ≤ dim`, `band < dim`): the k-th C11 write position has packed offset k
                         (`Packed.idx`), and the C10 matrix read at the C11 positions, in order, is the word values
    `differ_on_negative_size` and the DIFFERENCE example: the only place where they differ (element counter).
    `accept_of_accept_weak`: one direction survives if `tok` refuses more than `toDoubleOk` does.
-/
import Gama.Lemmas.CovParse
import Gama.Lemmas.GkfCovBounds
namespace Gama.Cov.Bridge
open Gama.Cov Gama.Cov.Packed Gama.Cov.CovMat Gama.Lit

variable {K : Type}

/-- error kinds: C11 `Verdict` ↦ C10 `PErr` (`UndefinedAttr`, `WithoutCov`, `DimDiffers`, `NotPD` of C10 belong to
    other functions and have no C11 counterpart here) -/
def verr : Verdict → Option CovParse.PErr
  | .ok => none
  | .missing_dim => some .MissingDim
  | .missing_band => some .MissingBand
  | .bad_dim => some .BadDim
  | .bad_band => some .BadBand
  | .too_many => some .TooMany
  | .bad_element => some .BadElement
  | .not_enough => some .NotEnough

/-- what C10's `err` member must be after a C11 result -/
def resErr {α : Type} : Except Verdict α → Option CovParse.PErr
  | .ok _ => none
  | .error v => verr v

/-- the error `finish_cov` reports for a result of its word loop (`if (elements) return error(not enough)`) -/
def loopErr : Except CovParse.PErr (Int × CovMat K) → Option CovParse.PErr
  | .error e => some e
  | .ok (el, _) => if el ≠ 0 then some .NotEnough else none

/-- `cov_mat(row,col) = d` cannot throw on the walk: `row ≤ col ≤ row + band` (no `dim` needed) -/
theorem set_ok (m : CovMat K) (row col : Nat) (v : K) (h1 : row ≤ col) (h2 : col ≤ row + m.band) :
    ∃ k, m.set row col v = .ok (m.rawSet k v) := by
  unfold CovMat.set Packed.idx
  have a : ¬ (row > col) := by omega
  have b : ¬ (col > row + m.band) := by omega
  simp only [a, b, if_false]
  exact ⟨_, rfl⟩

/-- the word loops agree, started anywhere on the walk with any element count and any matrix of the right band -/
theorem fillLoop_fill [Zero K] (tok : List Char → Option K) (htok : ∀ w, (tok w).isSome = toDoubleOk w)
    (dim band : Nat) :
    ∀ (ws : List (List Char)) (el row col : Nat) (m : CovMat K),
      m.band = band → row ≤ col → col ≤ row + band →
      loopErr (CovParse.fillLoop dim band (ws.map tok) (el : Int) row col m)
        = resErr (fill dim band ws el (row, col)) := by
  intro ws
  induction ws with
  | nil =>
    intro el row col m _ _ _
    by_cases h0 : el = 0
    · subst h0; simp [CovParse.fillLoop, fill, loopErr, resErr]
    · have : (el : Int) ≠ 0 := by omega
      simp [CovParse.fillLoop, fill, loopErr, resErr, h0, verr]
  | cons w ws ih =>
    intro el row col m hm h1 h2
    by_cases h0 : el = 0
    · subst h0; simp [CovParse.fillLoop, fill, loopErr, resErr, verr]
    · have h0' : (el : Int) ≠ 0 := by omega
      have hw := htok w
      cases ht : tok w with
      | none =>
        rw [ht] at hw
        have hf : toDoubleOk w = false := by simpa using hw.symm
        simp [CovParse.fillLoop, fill, loopErr, resErr, verr, h0, ht, hf]
      | some v =>
        rw [ht] at hw
        have hf : toDoubleOk w = true := by simpa using hw.symm
        obtain ⟨k, hk⟩ := set_ok m row col v h1 (by omega)
        have hcast : (el : Int) - 1 = ((el - 1 : Nat) : Int) := by omega
        have hb' : (m.rawSet k v).band = band := by rw [rawSet_band]; exact hm
        have hL : CovParse.fillLoop dim band ((w :: ws).map tok) (el : Int) row col m =
            if col + 1 > row + band ∨ col + 1 > dim then
              CovParse.fillLoop dim band (ws.map tok) ((el - 1 : Nat) : Int) (row + 1) (row + 1) (m.rawSet k v)
            else CovParse.fillLoop dim band (ws.map tok) ((el - 1 : Nat) : Int) row (col + 1) (m.rawSet k v) := by
          simp only [List.map_cons, ht, CovParse.fillLoop, h0', if_false, hk, hcast]
        have hR : resErr (fill dim band (w :: ws) el (row, col)) =
            resErr (fill dim band ws (el - 1) (nextPos dim band (row, col))) := by
          simp only [fill, h0, if_false, hf, Bool.not_true, Bool.false_eq_true]
          cases fill dim band ws (el - 1) (nextPos dim band (row, col)) <;> rfl
        rw [hL, hR]
        by_cases hc : col + 1 > row + band ∨ col + 1 > dim
        · rw [if_pos hc, nextPos_wrap dim band row col (by omega)]
          exact ih (el - 1) (row + 1) (row + 1) _ hb' (Nat.le_refl _) (by omega)
        · rw [if_neg hc, nextPos_stay dim band row col (by omega) (by omega)]
          exact ih (el - 1) row (col + 1) _ hb' (by omega) (by omega)

/-! ### element counter -/

/-- element counter: the C11 count is the C10 count cut at 0 (they agree iff the C `int` is non-negative) -/
theorem size_toNat (d b : Nat) : (Packed.size d b).toNat = Gkf.covElements d b := by
  unfold Packed.size Gkf.covElements
  have h1 : (d : Int) * ((b : Int) + 1) = ((d * (b + 1) : Nat) : Int) := by push_cast; rfl
  have h2 : (b : Int) * ((b : Int) + 1) = ((b * (b + 1) : Nat) : Int) := by push_cast; rfl
  rw [h1, h2]
  generalize d * (b + 1) = P
  generalize b * (b + 1) = Q
  omega

theorem size_eq_covElements (d b : Nat) (h : 0 ≤ Packed.size d b) :
    Packed.size d b = (Gkf.covElements d b : Int) := by
  rw [← size_toNat]; omega

/-! ### error kinds -/

/-- C10 `finish_cov` on an error-free state reports exactly the loop's error -/
theorem finishCov_err_loop [Zero K] (s : CovParse.St K) (hs : s.err = none) :
    (CovParse.finishCov s).1.err =
      loopErr (CovParse.fillLoop s.idim s.iband s.data (Packed.size s.idim s.iband) 1 1
        (CovMat.mk' s.idim s.iband 0)) := by
  unfold CovParse.finishCov
  dsimp only
  cases CovParse.fillLoop s.idim s.iband s.data (Packed.size s.idim s.iband) 1 1
      (CovMat.mk' s.idim s.iband 0) with
  | error e => simp only [loopErr]; exact CovParse.error_err_of_none e hs
  | ok p =>
    obtain ⟨el, m⟩ := p
    simp only [loopErr]
    by_cases he : el = 0
    · simp [he, hs]
    · simp only [he, ne_eq, not_false_eq_true, if_true]; exact CovParse.error_err_of_none _ hs

/-- first error wins: `finish_cov` never changes an error already stored -/
theorem finishCov_err_keep [Zero K] (s : CovParse.St K) (hs : s.err ≠ none) :
    (CovParse.finishCov s).1.err = s.err := by
  unfold CovParse.finishCov
  dsimp only
  split
  · rw [CovParse.error_of_ne _ hs]
  · split
    · rw [CovParse.error_of_ne _ hs]
    · rfl

/-- **same accept set and same error kind** (for all dim, band with a non-negative element count, all texts) -/
theorem finishCov_err [Zero K] (tok : List Char → Option K) (htok : ∀ w, (tok w).isSome = toDoubleOk w)
    (s : CovParse.St K) (text : List Char) (hs : s.err = none) (hdata : s.data = (words text).map tok)
    (hsz : 0 ≤ Packed.size s.idim s.iband) :
    (CovParse.finishCov s).1.err = resErr (Cov.finishCov s.idim s.iband text) := by
  rw [finishCov_err_loop s hs, hdata, size_eq_covElements _ _ hsz]
  exact fillLoop_fill tok htok s.idim s.iband (words text) _ 1 1 _ rfl (Nat.le_refl _) (by omega)

/-! ### through `process_cov` -/

/-- C11 attribute text ↦ C10 `Attr` (`sdim == ""`, `toIndex`) -/
def attrOf (s : List Char) : CovParse.Attr :=
  if s.isEmpty then .missing else
  match toIndex s with
  | none => .bad
  | some n => .val n

/-- **whole `<cov-mat>` element, no side condition**: `process_cov` then `finish_cov` in C10 = C11 `verdict` -/
theorem verdict_bridge [Zero K] (tok : List Char → Option K) (htok : ∀ w, (tok w).isSome = toDoubleOk w)
    (s0 : CovParse.St K) (sdim sband text : List Char) (hs : s0.err = none)
    (hdata : s0.data = (words text).map tok) :
    (CovParse.finishCov (CovParse.processCov s0 false (attrOf sdim) (attrOf sband))).1.err
      = verr (verdict sdim sband text) := by
  have keep : ∀ (s : CovParse.St K) (e : CovParse.PErr), s.err = none →
      (CovParse.finishCov (s.error e)).1.err = some e := by
    intro s e h
    rw [finishCov_err_keep _ (CovParse.error_err_ne s e)]
    exact CovParse.error_err_of_none e h
  unfold verdict Cov.processCov attrOf CovParse.processCov
  by_cases h1 : sdim.isEmpty = true
  · simp only [h1, if_true, Bool.false_eq_true, if_false]
    exact keep _ _ hs
  · by_cases h2 : sband.isEmpty = true
    · simp only [h1, h2, if_true, Bool.false_eq_true, if_false]
      cases toIndex sdim <;> exact keep _ _ hs
    · simp only [h1, h2, Bool.false_eq_true, if_false]
      cases hd : toIndex sdim with
      | none =>
        cases toIndex sband <;> exact keep _ _ hs
      | some d =>
        cases hb : toIndex sband with
        | none => exact keep _ _ hs
        | some b =>
          dsimp only
          by_cases c1 : d < 1
          · simp only [c1, if_true]; exact keep _ _ hs
          · by_cases c2 : b ≥ d
            · simp only [c1, c2, if_true, if_false]; exact keep _ _ hs
            · simp only [c1, c2, if_false]
              have := finishCov_err tok htok ({ s0 with idim := d, iband := b }) text hs hdata
                (Packed.size_nonneg (show b ≤ d by omega))
              rw [this]
              cases Cov.finishCov d b text <;> rfl

/-! ### fill order = packed storage order -/

/-- the walk `col++; if (col > row+iband || col > idim) col = ++row;` visits consecutive packed offsets -/
theorem posSeq_off {d b : Nat} (hb : b < d) :
    ∀ (n : Nat) (p : Nat × Nat) (k : Nat),
      (n ≠ 0 → InBand d b p.1 p.2 ∧ off d b p.1 p.2 = (k : Int)) →
      ((k + n : Nat) : Int) ≤ Packed.size d b →
      (posSeq d b n p).map (fun q => off d b q.1 q.2) = (List.range' k n).map (fun (i : Nat) => (i : Int)) ∧
      ∀ q ∈ posSeq d b n p, InBand d b q.1 q.2 := by
  intro n
  induction n with
  | zero => intro p k _ _; simp [posSeq]
  | succ n ih =>
    intro p k hp hle
    obtain ⟨row, col⟩ := p
    obtain ⟨hin, hoff⟩ := hp (Nat.succ_ne_zero n)
    dsimp only at hin hoff
    obtain ⟨i1, i2, i3, i4⟩ := hin
    have hnext : n ≠ 0 → InBand d b (nextPos d b (row, col)).1 (nextPos d b (row, col)).2 ∧
        off d b (nextPos d b (row, col)).1 (nextPos d b (row, col)).2 = ((k + 1 : Nat) : Int) := by
      intro hn
      by_cases hc : col + 1 > row + b ∨ col + 1 > d
      · rw [nextPos_wrap d b row col (by omega)]
        dsimp only
        have hs := rowOff_succ (d := d) (b := b) (r := row) (Nat.le_of_lt hb) i1 (by omega)
        have hl : (Packed.rowLen d b row : Int) = (col : Int) - (row : Int) + 1 := by
          unfold Packed.rowLen; omega
        have hoff' : off d b (row + 1) (row + 1) = off d b row col + 1 := by
          unfold off at hoff ⊢
          rw [hs, hl]; push_cast; omega
        have hrow : row + 1 ≤ d := by
          by_contra hcon
          have hrd : row = d := by omega
          have hlast := rowOff_last d b (Nat.le_of_lt hb)
          unfold off at hoff'
          rw [hrd] at hoff' hoff
          unfold off at hoff
          rw [hlast] at hoff'
          push_cast at hle
          omega
        exact ⟨⟨by omega, Nat.le_refl _, hrow, by omega⟩, by rw [hoff', hoff]; push_cast; rfl⟩
      · rw [nextPos_stay d b row col (by omega) (by omega)]
        dsimp only
        refine ⟨⟨i1, by omega, by omega, by omega⟩, ?_⟩
        unfold off at hoff ⊢
        push_cast; omega
    obtain ⟨h1, h2⟩ := ih (nextPos d b (row, col)) (k + 1) hnext (by push_cast at hle ⊢; omega)
    constructor
    · rw [posSeq, List.map_cons, h1, List.range'_succ, List.map_cons, hoff]
    · intro q hq
      rw [posSeq] at hq
      rcases List.mem_cons.mp hq with rfl | hq
      · exact ⟨i1, i2, i3, i4⟩
      · exact h2 q hq

theorem map_raw_range (M : CovMat K) (z : K) :
    (List.range' 0 M.buf.size).map (fun (i : Nat) => M.raw z (i : Int)) = M.buf.toList := by
  apply List.ext_getElem
  · simp
  · intro i h1 h2
    have hi : i < M.buf.size := by simpa using h2
    simp [CovMat.raw, CovMat.inBuf, hi, Array.getD]

/-- **accepted text: same packed element sequence** — C11 position k is packed offset k, and C10 stored word k there -/
theorem finishCov_values [Zero K] (tok : List Char → Option K) (htok : ∀ w, (tok w).isSome = toDoubleOk w)
    (s : CovParse.St K) (text : List Char) (ps : List (Nat × Nat)) (hs : s.err = none)
    (hdata : s.data = (words text).map tok) (hd : 1 ≤ s.idim) (hb : s.iband < s.idim)
    (h : Cov.finishCov s.idim s.iband text = .ok ps) :
    (CovParse.finishCov s).1.err = none ∧
    (CovParse.finishCov s).2.buf.toList = (words text).map (fun w => (tok w).getD 0) ∧
    ps.map (fun q => Packed.idx s.idim s.iband q.1 q.2)
      = (List.range ps.length).map (fun (i : Nat) => some (i : Int)) ∧
    ps.map (fun q => (CovParse.finishCov s).2.get q.1 q.2)
      = (words text).map (fun w => (tok w).getD 0) := by
  have hble : s.iband ≤ s.idim := Nat.le_of_lt hb
  have herr : (CovParse.finishCov s).1.err = none := by
    rw [finishCov_err tok htok s text hs hdata (Packed.size_nonneg hble), h]; rfl
  obtain ⟨k1, k2, k3, k4, -⟩ := CovParse.finishCov_ok hs hd hb herr
  rw [hdata, List.map_map] at k4
  have k4 : (CovParse.finishCov s).2.buf.toList = (words text).map (fun w => (tok w).getD 0) := k4
  obtain ⟨f1, -, f3⟩ := (fill_ok_iff _ _ _ _ _ _).mp h
  have hsz := size_eq_covElements _ _ (Packed.size_nonneg hble)
  obtain ⟨o1, o2⟩ := posSeq_off hb (Gkf.covElements s.idim s.iband) (1, 1) 0
    (fun _ => ⟨⟨Nat.le_refl _, Nat.le_refl _, hd, by omega⟩, by
      unfold off; rw [rowOff_one _ _ hd hble]; simp⟩)
    (by rw [hsz]; simp)
  rw [← f3] at o1 o2
  have hlen : ps.length = Gkf.covElements s.idim s.iband := by rw [f3, posSeq_length]
  have hbuf : (CovParse.finishCov s).2.buf.size = Gkf.covElements s.idim s.iband := by
    have := congrArg List.length k4
    simp only [Array.length_toList, List.length_map] at this
    rw [this, f1]
  refine ⟨herr, k4, ?_, ?_⟩
  · have e1 : ps.map (fun q => Packed.idx s.idim s.iband q.1 q.2)
        = (ps.map (fun q => off s.idim s.iband q.1 q.2)).map some := by
      rw [List.map_map]
      exact List.map_congr_left (fun q hq => idx_upper (o2 q hq))
    rw [e1, o1, List.map_map, hlen, List.range_eq_range']
    rfl
  · have e1 : ps.map (fun q => (CovParse.finishCov s).2.get q.1 q.2)
        = (ps.map (fun q => off s.idim s.iband q.1 q.2)).map (fun k => (CovParse.finishCov s).2.raw 0 k) := by
      rw [List.map_map]
      refine List.map_congr_left (fun q hq => ?_)
      have hq' : InBand (CovParse.finishCov s).2.dim (CovParse.finishCov s).2.band q.1 q.2 := by
        rw [k1, k2]; exact o2 q hq
      rw [get_upper hq', k1, k2]; rfl
    rw [e1, o1, List.map_map, ← hbuf, ← k4]
    exact map_raw_range (CovParse.finishCov s).2 0

/-! ### corollaries -/

theorem resErr_none_iff {α : Type} (r : Except Verdict α) (hr : r ≠ .error .ok) :
    resErr r = none ↔ ∃ a, r = .ok a := by
  cases r with
  | ok a => exact ⟨fun _ => ⟨a, rfl⟩, fun _ => rfl⟩
  | error v =>
    constructor
    · intro h
      cases v <;> first | exact absurd rfl hr | cases h
    · rintro ⟨a, h⟩; cases h

/-- acceptance coincides -/
theorem finishCov_accept_iff [Zero K] (tok : List Char → Option K) (htok : ∀ w, (tok w).isSome = toDoubleOk w)
    (s : CovParse.St K) (text : List Char) (hs : s.err = none) (hdata : s.data = (words text).map tok)
    (hsz : 0 ≤ Packed.size s.idim s.iband) :
    (CovParse.finishCov s).1.err = none ↔ ∃ ps, Cov.finishCov s.idim s.iband text = .ok ps := by
  rw [finishCov_err tok htok s text hs hdata hsz]
  exact resErr_none_iff _ (fill_error_ne_ok _ _ _ _ _)

/-- every C10 error kind comes from the C11 error kind mapped by `verr`, and conversely -/
theorem finishCov_error_iff [Zero K] (tok : List Char → Option K) (htok : ∀ w, (tok w).isSome = toDoubleOk w)
    (s : CovParse.St K) (text : List Char) (hs : s.err = none) (hdata : s.data = (words text).map tok)
    (hsz : 0 ≤ Packed.size s.idim s.iband) (e : CovParse.PErr) :
    (CovParse.finishCov s).1.err = some e ↔
      ∃ v, Cov.finishCov s.idim s.iband text = .error v ∧ verr v = some e := by
  rw [finishCov_err tok htok s text hs hdata hsz]
  cases Cov.finishCov s.idim s.iband text with
  | ok a => simp [resErr]
  | error v => simp [resErr]

theorem verr_injective : ∀ v w : Verdict, verr v = verr w → v = w := by
  intro v w h; cases v <;> cases w <;> first | rfl | cases h

/-! ### where the two models differ -/

/-- negative `int elements` (`band > 2 dim`, unreachable after an accepted `process_cov`): C11 accepts the empty
    text, C10 (as the C++: `if (elements)`) reports "not enough" -/
theorem differ_on_negative_size [Zero K] (s : CovParse.St K) (hs : s.err = none) (hdata : s.data = [])
    (hneg : Packed.size s.idim s.iband < 0) :
    Cov.finishCov s.idim s.iband [] = .ok [] ∧ (CovParse.finishCov s).1.err = some .NotEnough := by
  constructor
  · have h0 : Gkf.covElements s.idim s.iband = 0 := by rw [← size_toNat]; omega
    simp [Cov.finishCov, words, wordsAux, fill, h0]
  · rw [finishCov_err_loop s hs, hdata]
    have hne : Packed.size s.idim s.iband ≠ 0 := by omega
    simp [CovParse.fillLoop, loopErr, hne]

/-- if `tok` may refuse some `toDoubleOk` words, one direction survives: C10 accepts ⇒ C11 accepts -/
theorem accept_of_accept_weak [Zero K] (tok : List Char → Option K) (htok : ∀ w, (tok w).isSome = true → toDoubleOk w = true)
    (s : CovParse.St K) (text : List Char) (hs : s.err = none) (hdata : s.data = (words text).map tok)
    (hd : 1 ≤ s.idim) (hb : s.iband < s.idim) (h : (CovParse.finishCov s).1.err = none) :
    ∃ ps, Cov.finishCov s.idim s.iband text = .ok ps := by
  obtain ⟨h1, h2⟩ := (CovParse.finishCov_accept hs hd hb).mp h
  rw [hdata] at h1 h2
  apply finishCov_complete
  · rw [← size_toNat, ← h1, List.length_map]
  · intro w hw
    apply htok
    have := h2 (tok w) (List.mem_map_of_mem hw)
    cases ht : tok w with
    | none => exact absurd ht this
    | some v => rfl

/-! ### non-vacuity and the concrete differences -/

/-- a tokenisation meeting `htok` (value = the digit string; enough for the examples) -/
def tokN (w : List Char) : Option Rat := if toDoubleOk w then some ((digitsVal w : Nat) : Rat) else none

theorem tokN_spec : ∀ w, (tokN w).isSome = toDoubleOk w := by
  intro w; unfold tokN; cases toDoubleOk w <;> rfl

def stOf (tok : List Char → Option Rat) (d b : Nat) (text : String) : CovParse.St Rat :=
  { idim := d, iband := b, data := (words text.toList).map tok }

example : (stOf tokN 3 1 " 1 2 3 4 5 ").err = none ∧ (0 : Int) ≤ Packed.size 3 1 ∧
    (CovParse.finishCov (stOf tokN 3 1 " 1 2 3 4 5 ")).1.err = none ∧
    (Cov.finishCov 3 1 " 1 2 3 4 5 ".toList).toOption = some [(1,1), (1,2), (2,2), (2,3), (3,3)] ∧
    (CovParse.finishCov (stOf tokN 3 1 " 1 2 3 4 5 ")).2.buf.toList = [1, 2, 3, 4, 5] := by
  decide +kernel

/-- the three error kinds of `finish_cov`, both models, related by `verr` (`finishCov_err`, `finishCov_error_iff`) -/
example :
    (CovParse.finishCov (stOf tokN 3 1 "1 2 3 4 5 6")).1.err = some .TooMany ∧
    Cov.finishCov 3 1 "1 2 3 4 5 6".toList = .error .too_many ∧ verr .too_many = some .TooMany ∧
    (CovParse.finishCov (stOf tokN 3 1 "1 2 x 4 5 6")).1.err = some .BadElement ∧
    Cov.finishCov 3 1 "1 2 x 4 5 6".toList = .error .bad_element ∧ verr .bad_element = some .BadElement ∧
    (CovParse.finishCov (stOf tokN 3 1 "1 2 3 4")).1.err = some .NotEnough ∧
    Cov.finishCov 3 1 "1 2 3 4".toList = .error .not_enough ∧ verr .not_enough = some .NotEnough := by
  decide +kernel

/-- `verdict_bridge`: accepted, and each `process_cov` refusal -/
example :
    (CovParse.finishCov (CovParse.processCov (stOf tokN 0 0 "1 2 3 4 5") false
      (attrOf " 3 ".toList) (attrOf "1".toList))).1.err = none ∧
    verdict " 3 ".toList "1".toList "1 2 3 4 5".toList = .ok ∧
    attrOf " 3 ".toList = .val 3 ∧ attrOf [] = .missing ∧ attrOf "x".toList = .bad ∧
    (CovParse.finishCov (CovParse.processCov (stOf tokN 0 0 "1") false
      (attrOf "1".toList) (attrOf "5".toList))).1.err = some .BadBand ∧
    verdict "1".toList "5".toList "1".toList = .bad_band ∧
    (CovParse.finishCov (CovParse.processCov (stOf tokN 0 0 "1") false
      (attrOf "".toList) (attrOf "5".toList))).1.err = some .MissingDim ∧
    verdict "".toList "5".toList "1".toList = .missing_dim ∧
    (CovParse.finishCov (CovParse.processCov (stOf tokN 0 0 "1") false
      (attrOf "2".toList) (attrOf "-1".toList))).1.err = some .BadBand ∧
    verdict "2".toList "-1".toList "1".toList = .bad_band := by
  decide +kernel

/-- `finishCov_values`: hypotheses satisfiable; the C11 write positions are the packed offsets 0,1,2,… and
    reading the C10 matrix there gives the words in order -/
example : (1 : Nat) ≤ 4 ∧ (2 : Nat) < 4 ∧
    Cov.finishCov 4 2 "1 2 3 4 5 6 7 8 9".toList
      = .ok [(1,1), (1,2), (1,3), (2,2), (2,3), (2,4), (3,3), (3,4), (4,4)] ∧
    [(1,1), (1,2), (1,3), (2,2), (2,3), (2,4), (3,3), (3,4), (4,4)].map (fun q => Packed.idx 4 2 q.1 q.2)
      = (List.range 9).map (fun (i : Nat) => some (i : Int)) ∧
    [(1,1), (1,2), (1,3), (2,2), (2,3), (2,4), (3,3), (3,4), (4,4)].map
        (fun q => (CovParse.finishCov (stOf tokN 4 2 "1 2 3 4 5 6 7 8 9")).2.get q.1 q.2)
      = [1, 2, 3, 4, 5, 6, 7, 8, 9] := by
  decide +kernel

/-- DIFFERENCE 1 (element counter; `differ_on_negative_size`): `dim*(band+1) - band*(band+1)/2` is a C `int`,
    negative for `band > 2*dim`.  C10 (`Packed.size : Int`) follows the C++ (`elements == 0` is false, `if (elements)`
    is true: "not enough"); C11 (`Gkf.covElements : Nat`, truncated subtraction) sees 0 expected elements.
    Such (dim, band) never pass `process_cov` (`band < dim`), and the C++ has then already stored BadBand. -/
example :
    Packed.size 0 2 = -3 ∧ Gkf.covElements 0 2 = 0 ∧
    Cov.finishCov 0 2 [] = .ok [] ∧
    (CovParse.finishCov (stOf tokN 0 2 "")).1.err = some .NotEnough ∧
    Packed.size 1 5 = -9 ∧ Gkf.covElements 1 5 = 0 ∧
    Cov.finishCov 1 5 "1".toList = .error .too_many ∧
    (CovParse.finishCov (stOf tokN 1 5 "1")).1.err = some .NotEnough := by
  decide +kernel

/-- AGREEMENT on the element test (was a difference until C11 `fill` switched from `isFloat` to `toDoubleOk`):
    the C++ tests `toDouble(w, d)` = `IsFloat(w) && isfinite(atof(w))` (baseparser.cpp since 425dbdc);
    the overflowing literal is an `IsFloat` word refused by both models with "bad element".
    Also: `accept_of_accept_weak` is not vacuous (`tokN` meets the weak hypothesis, accepted text). -/
example :
    isFloat "1e999".toList = true ∧ toDoubleOk "1e999".toList = false ∧ tokN "1e999".toList = none ∧
    Cov.finishCov 1 0 "1e999".toList = .error .bad_element ∧
    (CovParse.finishCov (stOf tokN 1 0 "1e999")).1.err = some .BadElement ∧
    (CovParse.finishCov (stOf tokN 2 1 "4 1 4")).1.err = none ∧
    (Cov.finishCov 2 1 "4 1 4".toList).toOption = some [(1,1), (1,2), (2,2)] := by
  decide +kernel

end Gama.Cov.Bridge
