/-
  The observations of an `AdjGSO` object (`obsGso`) meet `SolverObs.Sound` — from the solver's own
  theorems (`C02_refusal_gso`, `C20_gso_lindep_true`, `C20_gso_removal_full_rank`, `C20_gso_count`,
  i.e. `Lemmas/Ls/GsoRefuse.lean`, `GsoCof.lean`, `GsoMore.lean`).

  `obsGso p`: refusal = the error of `gsoSolve p` (a fresh object throws from every query);
  defect, flags, cofactors = those of `gsoSolveWith false p`, the state `AdjGSO::solve()` leaves in the
  object BEFORE it throws (`is_solved = true`, `icgs.lindep_columns` filled by `icgs1`): this is what
  `null_space()` reads through `lindep(i)` / `defect()` after it caught the exception.
-/
import Gama.Lemmas.NetWorldSound
import Gama.Lemmas.Ls.GsoRefuse
import Gama.Lemmas.Ls.GsoMore
import Gama.Lemmas.Ls.GsoCof
namespace Gama.NetDecision
open Gama Gama.Ls Gama.LS Gama.Ls.Gso Matrix Finset

set_option linter.unusedSectionVars false

-- ------------------------------------------------------------------ counting flags

/-- the list of flagged indices and the finite set of flagged unknowns have the same size -/
theorem flaggedOf_length_eq_card (n : Nat) (f : Nat → Bool) :
    (flaggedOf n f).length = (univ.filter fun j : Fin n => f (j.val + 1) = true).card := by
  have hnd : (flaggedOf n f).Nodup := by
    unfold flaggedOf
    apply List.Nodup.filterMap _ List.nodup_range
    intro a a' b hb hb'
    by_cases h1 : f (a + 1) = true <;> by_cases h2 : f (a' + 1) = true <;> simp [h1, h2] at hb hb'
    omega
  rw [← List.toFinset_card_of_nodup hnd]
  symm
  refine card_bij (fun (j : Fin n) _ => j.val + 1) ?_ ?_ ?_
  · intro j hj
    have := (mem_filter.1 hj).2
    exact List.mem_toFinset.2 (mem_flaggedOf.2 ⟨by omega, by omega, this⟩)
  · intro j _ k _ hjk; exact Fin.ext (by omega)
  · intro z hz
    obtain ⟨h1, h2, h3⟩ := mem_flaggedOf.1 (List.mem_toFinset.1 hz)
    exact ⟨⟨z - 1, by omega⟩, by simp [Nat.sub_add_cancel h1, h3], by simp; omega⟩

theorem obsOfAnswer_lindep {K : Type} [Scalar K] (a : Answer K) (r : Option ErrKind) (i : Nat) :
    (obsOfAnswer a r).lindep i = true ↔ a.lindep i = .ok true := by
  unfold obsOfAnswer
  simp only
  cases a.lindep i with
  | ok b => cases b <;> simp
  | error e => simp

-- ------------------------------------------------------------------ gso

variable {K : Type} [Field K] [LinearOrder K] [IsStrictOrderedRing K] [SqrtField K]

/-- observations of an `AdjGSO` object fed with `p` (see the header) -/
def obsGso (p : Problem K) : SolverObs K :=
  match gsoSolveWith false p with
  | .ok a => obsOfAnswer a (match gsoSolve p with
      | .error e => some e
      | .ok _ => none)
  | .error e => { refused := some e, defect := 0, lindep := fun _ => false, qxx := fun _ => 0 }

theorem obsGso_eq (p : Problem K) (a : Answer K) (ha : gsoSolveWith false p = .ok a) :
    obsGso p = obsOfAnswer a (match gsoSolve p with
      | .error e => some e
      | .ok _ => none) := by unfold obsGso; rw [ha]

theorem gsoSolveWith_false_ok (p : Problem K) (hreg : regInRange p.n p.reg = true) :
    ∃ a, gsoSolveWith false p = .ok a := by
  unfold gsoSolveWith
  simp [hreg]

theorem gsoSolve_error (p : Problem K) (hreg : regInRange p.n p.reg = true) (e : ErrKind)
    (h : gsoSolve p = .error e) : e = .BadRegularization := by
  unfold gsoSolve gsoSolveWith at h
  simp only [hreg, Bool.not_true, Bool.and_false, Bool.false_eq_true, if_false, Bool.true_and] at h
  split at h
  · cases h; rfl
  · cases h

/-- **the observations of the Gram–Schmidt solver are sound** (hypotheses of its own theorems) -/
theorem obsGso_sound (p : Problem K) (hU : Unambiguous p) (hreg : regInRange p.n p.reg = true) :
    (obsGso p).Sound p.A p.S := by
  obtain ⟨a, ha⟩ := gsoSolveWith_false_ok p hreg
  have ho : obsGso p = obsOfAnswer a (match gsoSolve p with
      | .error e => some e
      | .ok _ => none) := by unfold obsGso; rw [ha]
  have hld : ∀ i, (obsGso p).lindep i = true ↔ a.lindep i = .ok true := by
    intro i; rw [ho]; exact obsOfAnswer_lindep a _ i
  have hdef : (obsGso p).defect = a.defect := by rw [ho]; rfl
  have href : (obsGso p).refused = match gsoSolve p with
      | .error e => some e
      | .ok _ => none := by rw [ho]; rfl
  obtain ⟨hcnt, hrank⟩ := gso_count p hU ha
  refine ⟨?_, ?_, ?_, ?_, ?_, ?_⟩
  · rw [href, ← (show gsoSolve p = .error .BadRegularization ↔ ¬ Resolves p.A p.S from by
      rw [show (gsoSolve p = .error .BadRegularization ↔ (runOf p).err ≠ 0) from by
        by_cases he : (runOf p).err = 0 <;> simp [gsoSolve, gsoSolveWith, hreg, he]]
      exact ⟨gso_not_resolves_of_err p hU, fun hS he => hS (gso_resolves_of_err_zero p hU he)⟩)]
    cases hg : gsoSolve p with
    | ok b => simp
    | error e => simp
  · intro e he
    rw [href] at he
    cases hg : gsoSolve p with
    | ok b => rw [hg] at he; cases he
    | error e' => rw [hg] at he; cases he; exact gsoSolve_error p hreg _ hg
  · rw [flaggedOf_length_eq_card, hdef, ← hcnt]
    congr 1
    ext j
    simp only [mem_filter, mem_univ, true_and]
    exact hld _
  · intro i hi
    obtain ⟨hi1, γ, hγ, hcol⟩ := gso_lindep_true p hU ha (i.val + 1) ((hld _).1 hi)
    refine ⟨fun j => if j = i then -1 else γ j, ?_, by simp⟩
    funext r
    simp only [mulVec, dotProduct, Pi.zero_apply]
    have hi0 : γ i = 0 := hγ i (by simp)
    have hc := hcol r
    have hii : (⟨i.val + 1 - 1, by omega⟩ : Fin p.n) = i := Fin.ext (by simp)
    rw [hii] at hc
    have : ∀ j, p.A r j * (if j = i then (-1 : K) else γ j) = p.A r j * γ j - (if j = i then p.A r i else 0) := by
      intro j
      by_cases hj : j = i
      · subst hj; simp [hi0]
      · simp [hj]
    rw [sum_congr rfl (fun j _ => this j), sum_sub_distrib, sum_ite_eq' univ i]
    simp only [mem_univ, if_true]
    rw [← hc]; exact sub_self _
  · intro g hg hz
    exact gso_removal_full_rank p hU ha g (fun j hj => hz j ((hld _).2 hj)) hg
  · rw [hdef]; exact hrank

end Gama.NetDecision
