/-
  Joint witness for the square-root law of the Cholesky theorems (C15).

  `symchol`, `symchol_solve`, `symchol_psd`, `symchol_nullity` assume `hsq : ∀ x ≥ 0, sq x · sq x = x`
  together with a successful `cholDec`.  The evaluated examples over ℚ use a table `sqEx` that is a
  square root at the two arguments met and NOT lawful elsewhere.  Here the same run is evaluated over
  ℝ with `sq := Real.sqrt`, which satisfies `hsq` for every argument: all hypotheses of the theorems
  hold at once.
-/
import Gama.Lemmas.SymCholPSD
import Mathlib.Analysis.Real.Sqrt
namespace Gama.MatVec
open Finset

/-- the square-root law, for `Real.sqrt` -/
theorem real_hsq : ∀ x : ℝ, 0 ≤ x → Real.sqrt x * Real.sqrt x = x := fun _ hx => Real.mul_self_sqrt hx

theorem real_sqrt_four : Real.sqrt 4 = 2 := by
  rw [show (4 : ℝ) = 2 * 2 by norm_num]; exact Real.sqrt_mul_self (by norm_num)

/-- packed `[4,2,2]` = `[[4,2],[2,2]]` over ℝ -/
noncomputable def sExR : Nat → ℝ := fun k => if k = 0 then 4 else if k = 1 then 2 else if k = 2 then 2 else 0

def chkExR (r : Except CholErr ((Nat → ℝ) × Nat)) : Prop :=
  match r with
  | .ok (L, idf) => idf = 0 ∧ L 0 = 2 ∧ L 1 = 1 ∧ L 2 = 1
  | .error _ => False

theorem chkExR_ok {r : Except CholErr ((Nat → ℝ) × Nat)} (h : chkExR r) :
    ∃ L, r = .ok (L, 0) ∧ L 0 = 2 ∧ L 1 = 1 ∧ L 2 = 1 := by
  match r, h with
  | .ok (L, idf), h =>
    obtain ⟨rfl, h0, h1, h2⟩ := h
    exact ⟨L, rfl, h0, h1, h2⟩
  | .error _, h => exact h.elim

/-- `cholDec` over ℝ with the REAL square root accepts `[[4,2],[2,2]]` with nullity 0 and returns
    `L = [[2,0],[1,1]]` -/
theorem cholDec_real_example :
    ∃ L, @cholDec ℝ (fieldScalar ℝ Real.sqrt) 2 (1 / 100000000) sExR = .ok (L, 0) ∧
      L 0 = 2 ∧ L 1 = 1 ∧ L 2 = 1 := by
  apply chkExR_ok
  norm_num [chkExR, cholDec, cholDec1, forUpM, cholCell, cholInner, forUp, fset, sExR,
    Scalar.sqrt, Scalar.beq, real_sqrt_four]

/-! ### nullity 1 over ℝ: `[[1,1],[1,1]]` — `hsq`, `hpsd`, `hz` and the successful run, all at once -/

noncomputable def sEx1R : Nat → ℝ := fun k => if k = 0 then 1 else if k = 1 then 1 else if k = 2 then 1 else 0

def chkEx1R (r : Except CholErr ((Nat → ℝ) × Nat)) : Prop :=
  match r with
  | .ok (L, idf) => idf = 1 ∧ L 0 = 1 ∧ L 1 = 1 ∧ L 2 = 0
  | .error _ => False

theorem chkEx1R_ok {r : Except CholErr ((Nat → ℝ) × Nat)} (h : chkEx1R r) :
    ∃ L, r = .ok (L, 1) ∧ L 0 = 1 ∧ L 1 = 1 ∧ L 2 = 0 := by
  match r, h with
  | .ok (L, idf), h =>
    obtain ⟨rfl, h0, h1, h2⟩ := h
    exact ⟨L, rfl, h0, h1, h2⟩
  | .error _, h => exact h.elim

theorem cholDec_real_psd_example :
    ∃ L, @cholDec ℝ (fieldScalar ℝ Real.sqrt) 2 (1 / 100000000) sEx1R = .ok (L, 1) ∧
      L 0 = 1 ∧ L 1 = 1 ∧ L 2 = 0 := by
  apply chkEx1R_ok
  norm_num [chkEx1R, cholDec, cholDec1, forUpM, cholCell, cholInner, forUp, fset, sEx1R,
    Scalar.sqrt, Scalar.beq]

theorem cholDec_real_psd_example_hyps :
    (∀ v : ℕ → ℝ, 0 ≤ ∑ r ∈ Icc 1 2, ∑ c ∈ Icc 1 2, v r * symEntry sEx1R r c * v c) ∧
    (∀ L : ℕ → ℝ, L 0 = 1 → L 1 = 1 → L 2 = 0 → ∀ i, 1 ≤ i → i ≤ 2 →
      ¬ (sEx1R (tri i i) * (1 / 100000000) < cholX sEx1R L i i) → cholX sEx1R L i i = 0) := by
  constructor
  · intro v
    have h12 : Icc 1 2 = ({1, 2} : Finset ℕ) := by decide
    rw [h12]
    simp [symEntry, tri, sEx1R]
    nlinarith [sq_nonneg (v 1 + v 2)]
  · intro L h0 h1 h2 i hi1 hi2 hn
    interval_cases i
    · exfalso
      apply hn
      norm_num [cholX, tri, sEx1R]
    · norm_num [cholX, tri, sEx1R, h1]

end Gama.MatVec
