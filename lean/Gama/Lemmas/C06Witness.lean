/-
  C06 — non-vacuity witnesses for the seven intersection-primitive theorems of Props/C06
  (`C06_cogo_exact_distance_distance`, `_direction_direction`, `_direction_distance`, `_circle`,
  `_direction_angle`, `_distance_angle`, `_angle_angle`).

  For each theorem ONE concrete configuration (explicit points, values, the model's default small-angle
  limit `salDefault` = 0.15) for which ALL hypotheses hold simultaneously — in particular the
  "guard not fired" hypotheses `(… ).small = false` and the "circle centre ≠ other centre" hypotheses
  `hcen` together with the exact-data hypotheses.  `wit_…` states the conjunction of the instantiated
  hypotheses; `wit_…_eval` is the model evaluated on the configuration; `wit_…_concl` is the theorem's
  underlying lemma applied to the witness.

  Configurations (3-4-5 triangles, bearings multiples of π/2):
    X = (0,0) seen from / seeing B1 = (6,0), B2 = (0,8), B4 = (-6,0): inner angles π/2,
    circles with centres (3,4), (-3,4) and radius 5.
-/
import Gama.Lemmas.C06Circle
open Gama Gama.Cogo Gama.C06R
namespace Gama.C06L

/-! ### evaluation helpers -/

theorem sqrt_of_sq {a b : ℝ} (hb : 0 ≤ b) (h : a = b ^ 2) : Real.sqrt a = b := by
  rw [h]; exact Real.sqrt_sq hb

/-- the model's default small-angle limit, `set_small_angle_limit(0)` ⇒ 0.15 -/
theorem salDefault_eq : (salDefault : ℝ) = 15 / 100 := by
  simp [salDefault, Scalar.ofSci]; norm_num

theorem salDefault_pos : 0 < (salDefault : ℝ) := by rw [salDefault_eq]; norm_num

theorem signum_pos' {a : ℝ} (h : 0 < a) : signum a = 1 := by
  unfold signum; simp only [lt_eq, zero_eq]
  simp [h, not_lt.mpr h.le]

/-! ### Distance_distance: B1 = (0,0), B2 = (6,0), X = (3,4), r1 = r2 = 5 -/

theorem wit_distance_distance_eval :
    distDist (⟨0, 0⟩ : Pt ℝ) ⟨6, 0⟩ 5 5 salDefault = ⟨[⟨3, 4⟩, ⟨3, -4⟩], false⟩ := by
  have h36 : Real.sqrt 36 = 6 := sqrt_of_sq (by norm_num) (by norm_num)
  have h49 : Real.sqrt (4 / 9) = 2 / 3 := sqrt_of_sq (by norm_num) (by norm_num)
  unfold distDist
  simp only [add_eq, sub_eq, mul_eq, div_eq, sqrt_eq, sqr_eq, two_eq, lt_eq, zero_eq, one_eq, salDefault_eq]
  norm_num [h36, h49, none', smallAngle]

/-- all hypotheses of `C06_cogo_exact_distance_distance` (`distDist_exact`) at once -/
theorem wit_distance_distance :
    (((6:ℝ) - 0) ^ 2 + ((0:ℝ) - 0) ^ 2 ≠ 0) ∧ (0:ℝ) ≤ 5 ∧ (0:ℝ) ≤ 5 ∧
    ((5:ℝ) ^ 2 = (3 - 0) ^ 2 + (4 - 0) ^ 2) ∧ ((5:ℝ) ^ 2 = (3 - 6) ^ 2 + (4 - 0) ^ 2) ∧
    (distDist (⟨0, 0⟩ : Pt ℝ) ⟨6, 0⟩ 5 5 salDefault).small = false ∧
    0 < across (⟨0, 0⟩ : Pt ℝ) ⟨6, 0⟩ ⟨3, 4⟩ := by
  refine ⟨by norm_num, by norm_num, by norm_num, by norm_num, by norm_num, ?_, ?_⟩
  · rw [wit_distance_distance_eval]
  · simp only [across]; norm_num

/-- the theorem applied to the witness: the solutions are X and its mirror image, in this order -/
theorem wit_distance_distance_concl :
    (distDist (⟨0, 0⟩ : Pt ℝ) ⟨6, 0⟩ 5 5 salDefault).sols = [⟨3, 4⟩, mirror ⟨0, 0⟩ ⟨6, 0⟩ ⟨3, 4⟩] := by
  obtain ⟨a, b, c, d, e, f, g⟩ := wit_distance_distance
  exact (distDist_exact ⟨0, 0⟩ ⟨6, 0⟩ ⟨3, 4⟩ 5 5 salDefault a b c d e f).1 g

/-! ### Direction_direction: B1 = (0,0), h1 = 0; B2 = (10,-10), h2 = π/2; X = (10,0), t1 = t2 = 10 -/

theorem wit_direction_direction_eval :
    dirDir (⟨0, 0⟩ : Pt ℝ) 0 ⟨10, -10⟩ (Real.pi / 2) salDefault = ⟨[⟨10, 0⟩], false⟩ := by
  have hs : signum (10 : ℝ) = 1 := signum_pos' (by norm_num)
  have hs1 : signum (1 : ℝ) = 1 := signum_pos' (by norm_num)
  unfold dirDir dirDirCore
  simp only [add_eq, sub_eq, mul_eq, div_eq, abs_eq, sin_eq, cos_eq, lt_eq, salDefault_eq,
    Real.sin_zero, Real.cos_zero, Real.sin_pi_div_two, Real.cos_pi_div_two]
  norm_num [hs, hs1, none', smallAngle]

/-- all hypotheses of `C06_cogo_exact_direction_direction` (`dirDir_exact`) at once -/
theorem wit_direction_direction :
    (0:ℝ) < 10 ∧ (0:ℝ) < 10 ∧ 0 < (salDefault : ℝ) ∧
    ((10:ℝ) = 0 + 10 * Real.cos 0) ∧ ((0:ℝ) = 0 + 10 * Real.sin 0) ∧
    ((10:ℝ) = 10 + 10 * Real.cos (Real.pi / 2)) ∧ ((0:ℝ) = -10 + 10 * Real.sin (Real.pi / 2)) ∧
    (dirDir (⟨0, 0⟩ : Pt ℝ) 0 ⟨10, -10⟩ (Real.pi / 2) salDefault).small = false := by
  refine ⟨by norm_num, by norm_num, salDefault_pos, ?_, ?_, ?_, ?_, ?_⟩
  · rw [Real.cos_zero]; norm_num
  · rw [Real.sin_zero]; norm_num
  · rw [Real.cos_pi_div_two]; norm_num
  · rw [Real.sin_pi_div_two]; norm_num
  · rw [wit_direction_direction_eval]

theorem wit_direction_direction_concl :
    (dirDir (⟨0, 0⟩ : Pt ℝ) 0 ⟨10, -10⟩ (Real.pi / 2) salDefault).sols = [⟨10, 0⟩] := by
  obtain ⟨a, b, c, d, e, f, g, h⟩ := wit_direction_direction
  exact dirDir_exact ⟨0, 0⟩ ⟨10, -10⟩ ⟨10, 0⟩ 0 (Real.pi / 2) 10 10 salDefault a b c d e f g h

/-! ### Direction_distance: B1 = (0,0), h1 = 0, t = 3; B2 = (0,4), r = 5; X = (3,0) -/

theorem wit_direction_distance_eval :
    dirDist (⟨0, 0⟩ : Pt ℝ) 0 ⟨0, 4⟩ 5 salDefault = ⟨[⟨3, 0⟩], false⟩ := by
  have h9 : Real.sqrt 9 = 3 := sqrt_of_sq (by norm_num) (by norm_num)
  unfold dirDist
  simp only [add_eq, sub_eq, mul_eq, neg_eq, abs_eq, sqrt_eq, sqr_eq, sin_eq, cos_eq, lt_eq, le_eq, zero_eq,
    salDefault_eq, tiny_eq, Real.sin_zero, Real.cos_zero]
  norm_num [h9, none', smallAngle]

/-- all hypotheses of `C06_cogo_exact_direction_distance` (`dirDist_exact`) at once -/
theorem wit_direction_distance :
    ((1:ℝ) / 10 ^ 6 < 3) ∧ (0:ℝ) < 5 ∧
    ((3:ℝ) = 0 + 3 * Real.cos 0) ∧ ((0:ℝ) = 0 + 3 * Real.sin 0) ∧
    ((5:ℝ) ^ 2 = (3 - 0) ^ 2 + (0 - 4) ^ 2) ∧
    (dirDist (⟨0, 0⟩ : Pt ℝ) 0 ⟨0, 4⟩ 5 salDefault).small = false := by
  refine ⟨by norm_num, by norm_num, ?_, ?_, by norm_num, ?_⟩
  · rw [Real.cos_zero]; norm_num
  · rw [Real.sin_zero]; norm_num
  · rw [wit_direction_distance_eval]

theorem wit_direction_distance_concl :
    (⟨3, 0⟩ : Pt ℝ) ∈ (dirDist (⟨0, 0⟩ : Pt ℝ) 0 ⟨0, 4⟩ 5 salDefault).sols := by
  obtain ⟨a, b, c, d, e, f⟩ := wit_direction_distance
  exact dirDist_exact ⟨0, 0⟩ ⟨0, 4⟩ ⟨3, 0⟩ 0 3 5 salDefault a b c d e f

/-! ### bearings and inner angles at X = (0,0) towards points on the axes; the right-angle circle -/

theorem far_of_sq {p q : Pt ℝ} (c : ℝ) (hc : 1 / 10 ^ 6 ≤ c)
    (h : (q.y - p.y) * (q.y - p.y) + (q.x - p.x) * (q.x - p.x) = c ^ 2) : Far p q := by
  unfold Far
  rw [sqrt_of_sq (le_trans (by positivity) hc) h]
  exact not_lt.mpr hc

theorem bearing_of_far (p q : Pt ℝ) (h : Far p q) : bearing p q = Lin.brg (q.x - p.x) (q.y - p.y) := by
  unfold bearing; rw [bearingDistance_spec _ _ _ _ h]

theorem brg_pos_x {a : ℝ} (ha : 0 < a) : Lin.brg a 0 = 0 := by
  have : Complex.arg ⟨a, 0⟩ = 0 := Complex.arg_eq_zero_iff.mpr ⟨ha.le, rfl⟩
  unfold Lin.brg; rw [this]; simp

theorem brg_pos_y {b : ℝ} (hb : 0 < b) : Lin.brg 0 b = Real.pi / 2 := by
  have : Complex.arg ⟨0, b⟩ = Real.pi / 2 := Complex.arg_eq_pi_div_two_iff.mpr ⟨rfl, hb⟩
  unfold Lin.brg; rw [this, if_pos (by linarith [Real.pi_pos])]

theorem brg_neg_x {a : ℝ} (ha : a < 0) : Lin.brg a 0 = Real.pi := by
  have : Complex.arg ⟨a, 0⟩ = Real.pi := Complex.arg_eq_pi_iff.mpr ⟨ha, rfl⟩
  unfold Lin.brg; rw [this]; simp [Real.pi_pos.le]

theorem wit_far_X_B1 : Far (⟨0, 0⟩ : Pt ℝ) ⟨6, 0⟩ := far_of_sq 6 (by norm_num) (by norm_num)
theorem wit_far_X_B2 : Far (⟨0, 0⟩ : Pt ℝ) ⟨0, 8⟩ := far_of_sq 8 (by norm_num) (by norm_num)
theorem wit_far_X_B4 : Far (⟨0, 0⟩ : Pt ℝ) ⟨-6, 0⟩ := far_of_sq 6 (by norm_num) (by norm_num)
theorem wit_far_B1_B2 : Far (⟨6, 0⟩ : Pt ℝ) ⟨0, 8⟩ := far_of_sq 10 (by norm_num) (by norm_num)
theorem wit_far_B2_B4 : Far (⟨0, 8⟩ : Pt ℝ) ⟨-6, 0⟩ := far_of_sq 10 (by norm_num) (by norm_num)

theorem wit_bearing_X_B1 : bearing (⟨0, 0⟩ : Pt ℝ) ⟨6, 0⟩ = 0 := by
  rw [bearing_of_far _ _ wit_far_X_B1]
  simp only [sub_zero]; exact brg_pos_x (by norm_num)

theorem wit_bearing_X_B2 : bearing (⟨0, 0⟩ : Pt ℝ) ⟨0, 8⟩ = Real.pi / 2 := by
  rw [bearing_of_far _ _ wit_far_X_B2]
  simp only [sub_zero]; exact brg_pos_y (by norm_num)

theorem wit_bearing_X_B4 : bearing (⟨0, 0⟩ : Pt ℝ) ⟨-6, 0⟩ = Real.pi := by
  rw [bearing_of_far _ _ wit_far_X_B4]
  simp only [sub_zero]; exact brg_neg_x (by norm_num)

/-- X = (0,0) sees B1 = (6,0), B2 = (0,8) under the inner angle π/2 -/
theorem wit_innerAngle_12 : innerAngle (⟨0, 0⟩ : Pt ℝ) ⟨6, 0⟩ ⟨0, 8⟩ = Real.pi / 2 := by
  unfold innerAngle
  rw [wit_bearing_X_B1, wit_bearing_X_B2]
  simp only [sub_eq, add_eq, lt_eq, zero_eq]
  have : ¬ (Real.pi / 2 - 0 < 0) := not_lt.mpr (by linarith [Real.pi_pos])
  rw [if_neg this]; ring

/-- X = (0,0) sees B3 = (0,8), B4 = (-6,0) under the inner angle π/2 -/
theorem wit_innerAngle_34 : innerAngle (⟨0, 0⟩ : Pt ℝ) ⟨0, 8⟩ ⟨-6, 0⟩ = Real.pi / 2 := by
  unfold innerAngle
  rw [wit_bearing_X_B2, wit_bearing_X_B4]
  simp only [sub_eq, add_eq, lt_eq, zero_eq]
  have : ¬ (Real.pi - Real.pi / 2 < 0) := not_lt.mpr (by linarith [Real.pi_pos])
  rw [if_neg this]; ring

/-- Circle::calculation for the inner angle π/2 (Thales): centre = midpoint of B1 B2, radius = |B1 B2| / 2 -/
theorem circle_right (B1 B2 : Pt ℝ) (sal d : ℝ) (hsal : sal ≤ 1) (hd0 : 1 / 10 ^ 6 ≤ d)
    (hd : (B2.y - B1.y) * (B2.y - B1.y) + (B2.x - B1.x) * (B2.x - B1.x) = d ^ 2) :
    circle B1 B2 (Real.pi / 2) sal =
      (some (⟨B1.x + (B2.x - B1.x) / 2, B1.y + (B2.y - B1.y) / 2⟩, d / 2), false) := by
  have hdpos : 0 < d := lt_of_lt_of_le (by positivity) hd0
  have hsq : Real.sqrt ((B2.y - B1.y) * (B2.y - B1.y) + (B2.x - B1.x) * (B2.x - B1.x)) = d :=
    sqrt_of_sq hdpos.le hd
  have hsq' : Real.sqrt ((B2.x - B1.x) * (B2.x - B1.x) + (B2.y - B1.y) * (B2.y - B1.y)) = d := by
    rw [add_comm]; exact hsq
  have hbd := bearingDistance_spec B1.y B1.x B2.y B2.x (by rw [hsq]; exact not_lt.mpr hd0)
  rw [hsq] at hbd
  have hbeq : Scalar.beq d 0 = false := by
    rw [Bool.eq_false_iff]; intro h; rw [beq_eq] at h; exact hdpos.ne' h
  have h1 : ¬ |(1:ℝ)| < sal := by rw [abs_one]; exact not_lt.mpr hsal
  have hc := Lin.cos_brg (x := B2.x - B1.x) (y := B2.y - B1.y) (by rw [hsq']; exact hdpos.ne')
  have hs := Lin.sin_brg (x := B2.x - B1.x) (y := B2.y - B1.y) (by rw [hsq']; exact hdpos.ne')
  rw [hsq'] at hc hs
  unfold circle
  simp only [abs_eq, sin_eq, cos_eq, Real.sin_pi_div_two, h1, if_false, hbd, hbeq, Bool.false_eq_true,
    div_eq, two_eq, sub_eq, mul_eq, add_eq, Real.sin_sub_pi_div_two, Real.cos_sub_pi_div_two, hc, hs]
  have hdne := hdpos.ne'
  have e : |d / 1 / 2| = d / 2 := by rw [div_one, abs_of_pos (by positivity)]
  rw [e]
  simp only [Prod.mk.injEq, Option.some.injEq, Pt.mk.injEq, and_true]
  constructor
  · field_simp; ring
  · field_simp

theorem salDefault_le_one : (salDefault : ℝ) ≤ 1 := by rw [salDefault_eq]; norm_num

/-! ### Circle: X = (0,0), B1 = (6,0), B2 = (0,8): centre (3,4), radius 5 -/

theorem wit_circle_eval :
    circle (⟨6, 0⟩ : Pt ℝ) ⟨0, 8⟩ (innerAngle (⟨0, 0⟩ : Pt ℝ) ⟨6, 0⟩ ⟨0, 8⟩) salDefault
      = (some (⟨3, 4⟩, 5), false) := by
  rw [wit_innerAngle_12, circle_right _ _ _ 10 salDefault_le_one (by norm_num) (by norm_num)]
  norm_num

/-- the second circle of the resection: B3 = (0,8), B4 = (-6,0): centre (-3,4), radius 5 -/
theorem wit_circle34_eval :
    circle (⟨0, 8⟩ : Pt ℝ) ⟨-6, 0⟩ (innerAngle (⟨0, 0⟩ : Pt ℝ) ⟨0, 8⟩ ⟨-6, 0⟩) salDefault
      = (some (⟨-3, 4⟩, 5), false) := by
  rw [wit_innerAngle_34, circle_right _ _ _ 10 salDefault_le_one (by norm_num) (by norm_num)]
  norm_num

theorem wit_not_small_12 :
    ¬ |Real.sin (innerAngle (⟨0, 0⟩ : Pt ℝ) ⟨6, 0⟩ ⟨0, 8⟩)| < salDefault := by
  rw [wit_innerAngle_12, Real.sin_pi_div_two, abs_one]; exact not_lt.mpr salDefault_le_one

theorem wit_not_small_34 :
    ¬ |Real.sin (innerAngle (⟨0, 0⟩ : Pt ℝ) ⟨0, 8⟩ ⟨-6, 0⟩)| < salDefault := by
  rw [wit_innerAngle_34, Real.sin_pi_div_two, abs_one]; exact not_lt.mpr salDefault_le_one

/-- all hypotheses of `C06_cogo_exact_circle` (`circle_of_obs`) at once -/
theorem wit_circle :
    Far (⟨0, 0⟩ : Pt ℝ) ⟨6, 0⟩ ∧ Far (⟨0, 0⟩ : Pt ℝ) ⟨0, 8⟩ ∧ Far (⟨6, 0⟩ : Pt ℝ) ⟨0, 8⟩ ∧
    0 < (salDefault : ℝ) ∧
    ¬ |Real.sin (innerAngle (⟨0, 0⟩ : Pt ℝ) ⟨6, 0⟩ ⟨0, 8⟩)| < salDefault :=
  ⟨wit_far_X_B1, wit_far_X_B2, wit_far_B1_B2, salDefault_pos, wit_not_small_12⟩

theorem wit_circle_concl :
    ∃ C R, circle (⟨6, 0⟩ : Pt ℝ) ⟨0, 8⟩ (innerAngle (⟨0, 0⟩ : Pt ℝ) ⟨6, 0⟩ ⟨0, 8⟩) salDefault
        = (some (C, R), false) ∧
      ((0:ℝ) - C.x) ^ 2 + ((0:ℝ) - C.y) ^ 2 = R ^ 2 ∧ 0 < R := by
  obtain ⟨a, b, c, d, e⟩ := wit_circle
  exact circle_of_obs ⟨6, 0⟩ ⟨0, 8⟩ ⟨0, 0⟩ salDefault a b c d e

/-! ### Direction_angle: S = (-4,0), h1 = 0, t = 4; inner angle at X = (0,0) between B1 = (6,0), B2 = (0,8) -/

theorem wit_dirDist_circle_eval :
    dirDist (⟨-4, 0⟩ : Pt ℝ) 0 ⟨3, 4⟩ 5 salDefault = ⟨[⟨6, 0⟩, ⟨0, 0⟩], false⟩ := by
  have h9 : Real.sqrt 9 = 3 := sqrt_of_sq (by norm_num) (by norm_num)
  unfold dirDist
  simp only [add_eq, sub_eq, mul_eq, neg_eq, abs_eq, sqrt_eq, sqr_eq, sin_eq, cos_eq, lt_eq, le_eq, zero_eq,
    salDefault_eq, tiny_eq, Real.sin_zero, Real.cos_zero]
  norm_num [h9, none', smallAngle]

theorem wit_direction_angle_small :
    (dirAngle (⟨-4, 0⟩ : Pt ℝ) 0 ⟨6, 0⟩ ⟨0, 8⟩ (innerAngle (⟨0, 0⟩ : Pt ℝ) ⟨6, 0⟩ ⟨0, 8⟩) salDefault).small
      = false := by
  unfold dirAngle
  rw [wit_circle_eval]
  simp only
  rw [wit_dirDist_circle_eval]

/-- all hypotheses of `C06_cogo_exact_direction_angle` (`dirAngle_exact`) at once -/
theorem wit_direction_angle :
    Far (⟨0, 0⟩ : Pt ℝ) ⟨6, 0⟩ ∧ Far (⟨0, 0⟩ : Pt ℝ) ⟨0, 8⟩ ∧ Far (⟨6, 0⟩ : Pt ℝ) ⟨0, 8⟩ ∧
    0 < (salDefault : ℝ) ∧
    (¬ |Real.sin (innerAngle (⟨0, 0⟩ : Pt ℝ) ⟨6, 0⟩ ⟨0, 8⟩)| < salDefault) ∧
    ((1:ℝ) / 10 ^ 6 < 4) ∧
    ((0:ℝ) = -4 + 4 * Real.cos 0) ∧ ((0:ℝ) = 0 + 4 * Real.sin 0) ∧
    (dirAngle (⟨-4, 0⟩ : Pt ℝ) 0 ⟨6, 0⟩ ⟨0, 8⟩ (innerAngle (⟨0, 0⟩ : Pt ℝ) ⟨6, 0⟩ ⟨0, 8⟩) salDefault).small
      = false := by
  refine ⟨wit_far_X_B1, wit_far_X_B2, wit_far_B1_B2, salDefault_pos, wit_not_small_12, by norm_num, ?_, ?_,
    wit_direction_angle_small⟩
  · rw [Real.cos_zero]; norm_num
  · rw [Real.sin_zero]; norm_num

theorem wit_direction_angle_concl :
    (⟨0, 0⟩ : Pt ℝ) ∈
      (dirAngle (⟨-4, 0⟩ : Pt ℝ) 0 ⟨6, 0⟩ ⟨0, 8⟩ (innerAngle (⟨0, 0⟩ : Pt ℝ) ⟨6, 0⟩ ⟨0, 8⟩) salDefault).sols := by
  obtain ⟨a, b, c, d, e, f, g, h, i⟩ := wit_direction_angle
  exact dirAngle_exact ⟨-4, 0⟩ ⟨6, 0⟩ ⟨0, 8⟩ ⟨0, 0⟩ 0 4 salDefault a b c d e f g h i

/-! ### Distance_angle: BB = (3,-4), dd1 = 5 (BB ≠ circle centre (3,4)); inner angle as above -/

theorem wit_distDist_circle_eval :
    distDist (⟨3, -4⟩ : Pt ℝ) ⟨3, 4⟩ 5 5 salDefault = ⟨[⟨0, 0⟩, ⟨6, 0⟩], false⟩ := by
  have h64 : Real.sqrt 64 = 8 := sqrt_of_sq (by norm_num) (by norm_num)
  have h964 : Real.sqrt (9 / 64) = 3 / 8 := sqrt_of_sq (by norm_num) (by norm_num)
  unfold distDist
  simp only [add_eq, sub_eq, mul_eq, div_eq, sqrt_eq, sqr_eq, two_eq, lt_eq, zero_eq, one_eq, salDefault_eq]
  norm_num [h64, h964, none', smallAngle]

theorem wit_distance_angle_small :
    (distAngle (⟨3, -4⟩ : Pt ℝ) 5 ⟨6, 0⟩ ⟨0, 8⟩ (innerAngle (⟨0, 0⟩ : Pt ℝ) ⟨6, 0⟩ ⟨0, 8⟩) salDefault).small
      = false := by
  unfold distAngle
  rw [wit_circle_eval]
  simp only
  rw [wit_distDist_circle_eval]

/-- all hypotheses of `C06_cogo_exact_distance_angle` (`distAngle_exact`) at once -/
theorem wit_distance_angle :
    Far (⟨0, 0⟩ : Pt ℝ) ⟨6, 0⟩ ∧ Far (⟨0, 0⟩ : Pt ℝ) ⟨0, 8⟩ ∧ Far (⟨6, 0⟩ : Pt ℝ) ⟨0, 8⟩ ∧
    0 < (salDefault : ℝ) ∧
    (¬ |Real.sin (innerAngle (⟨0, 0⟩ : Pt ℝ) ⟨6, 0⟩ ⟨0, 8⟩)| < salDefault) ∧
    (0:ℝ) ≤ 5 ∧ ((5:ℝ) ^ 2 = (0 - 3) ^ 2 + (0 - -4) ^ 2) ∧
    (∀ C R, circle (⟨6, 0⟩ : Pt ℝ) ⟨0, 8⟩ (innerAngle (⟨0, 0⟩ : Pt ℝ) ⟨6, 0⟩ ⟨0, 8⟩) salDefault
        = (some (C, R), false) → (C.x - 3) ^ 2 + (C.y - -4) ^ 2 ≠ 0) ∧
    (distAngle (⟨3, -4⟩ : Pt ℝ) 5 ⟨6, 0⟩ ⟨0, 8⟩ (innerAngle (⟨0, 0⟩ : Pt ℝ) ⟨6, 0⟩ ⟨0, 8⟩) salDefault).small
      = false := by
  refine ⟨wit_far_X_B1, wit_far_X_B2, wit_far_B1_B2, salDefault_pos, wit_not_small_12, by norm_num, by norm_num,
    ?_, wit_distance_angle_small⟩
  intro C R h
  rw [wit_circle_eval] at h
  simp only [Prod.mk.injEq, Option.some.injEq, and_true] at h
  obtain ⟨rfl, _⟩ := h
  norm_num

theorem wit_distance_angle_concl :
    (⟨0, 0⟩ : Pt ℝ) ∈
      (distAngle (⟨3, -4⟩ : Pt ℝ) 5 ⟨6, 0⟩ ⟨0, 8⟩ (innerAngle (⟨0, 0⟩ : Pt ℝ) ⟨6, 0⟩ ⟨0, 8⟩) salDefault).sols := by
  obtain ⟨a, b, c, d, e, f, g, h, i⟩ := wit_distance_angle
  exact distAngle_exact ⟨3, -4⟩ ⟨6, 0⟩ ⟨0, 8⟩ ⟨0, 0⟩ 5 salDefault a b c d e f g h i

/-! ### Angle_angle (resection): X = (0,0); B1 = (6,0), B2 = (0,8); B3 = (0,8), B4 = (-6,0);
    circle centres (3,4) ≠ (-3,4), radii 5 -/

theorem wit_distDist_circles_eval :
    distDist (⟨3, 4⟩ : Pt ℝ) ⟨-3, 4⟩ 5 5 salDefault = ⟨[⟨0, 0⟩, ⟨0, 8⟩], false⟩ := by
  have h36 : Real.sqrt 36 = 6 := sqrt_of_sq (by norm_num) (by norm_num)
  have h49 : Real.sqrt (4 / 9) = 2 / 3 := sqrt_of_sq (by norm_num) (by norm_num)
  unfold distDist
  simp only [add_eq, sub_eq, mul_eq, div_eq, sqrt_eq, sqr_eq, two_eq, lt_eq, zero_eq, one_eq, salDefault_eq]
  norm_num [h36, h49, none', smallAngle]

theorem wit_angle_angle_small :
    (angleAngle (⟨6, 0⟩ : Pt ℝ) ⟨0, 8⟩ (innerAngle (⟨0, 0⟩ : Pt ℝ) ⟨6, 0⟩ ⟨0, 8⟩)
        ⟨0, 8⟩ ⟨-6, 0⟩ (innerAngle (⟨0, 0⟩ : Pt ℝ) ⟨0, 8⟩ ⟨-6, 0⟩) salDefault).small = false := by
  unfold angleAngle
  rw [wit_circle_eval, wit_circle34_eval]
  simp only
  rw [wit_distDist_circles_eval]

/-- all hypotheses of `C06_cogo_exact_angle_angle` (`angleAngle_exact`) at once -/
theorem wit_angle_angle :
    Far (⟨0, 0⟩ : Pt ℝ) ⟨6, 0⟩ ∧ Far (⟨0, 0⟩ : Pt ℝ) ⟨0, 8⟩ ∧ Far (⟨6, 0⟩ : Pt ℝ) ⟨0, 8⟩ ∧
    Far (⟨0, 0⟩ : Pt ℝ) ⟨0, 8⟩ ∧ Far (⟨0, 0⟩ : Pt ℝ) ⟨-6, 0⟩ ∧ Far (⟨0, 8⟩ : Pt ℝ) ⟨-6, 0⟩ ∧
    0 < (salDefault : ℝ) ∧
    (¬ |Real.sin (innerAngle (⟨0, 0⟩ : Pt ℝ) ⟨6, 0⟩ ⟨0, 8⟩)| < salDefault) ∧
    (¬ |Real.sin (innerAngle (⟨0, 0⟩ : Pt ℝ) ⟨0, 8⟩ ⟨-6, 0⟩)| < salDefault) ∧
    (∀ C1 R1 C2 R2,
        circle (⟨6, 0⟩ : Pt ℝ) ⟨0, 8⟩ (innerAngle (⟨0, 0⟩ : Pt ℝ) ⟨6, 0⟩ ⟨0, 8⟩) salDefault
          = (some (C1, R1), false) →
        circle (⟨0, 8⟩ : Pt ℝ) ⟨-6, 0⟩ (innerAngle (⟨0, 0⟩ : Pt ℝ) ⟨0, 8⟩ ⟨-6, 0⟩) salDefault
          = (some (C2, R2), false) →
        (C2.x - C1.x) ^ 2 + (C2.y - C1.y) ^ 2 ≠ 0) ∧
    (angleAngle (⟨6, 0⟩ : Pt ℝ) ⟨0, 8⟩ (innerAngle (⟨0, 0⟩ : Pt ℝ) ⟨6, 0⟩ ⟨0, 8⟩)
        ⟨0, 8⟩ ⟨-6, 0⟩ (innerAngle (⟨0, 0⟩ : Pt ℝ) ⟨0, 8⟩ ⟨-6, 0⟩) salDefault).small = false := by
  refine ⟨wit_far_X_B1, wit_far_X_B2, wit_far_B1_B2, wit_far_X_B2, wit_far_X_B4, wit_far_B2_B4, salDefault_pos,
    wit_not_small_12, wit_not_small_34, ?_, wit_angle_angle_small⟩
  intro C1 R1 C2 R2 h1 h2
  rw [wit_circle_eval] at h1
  rw [wit_circle34_eval] at h2
  simp only [Prod.mk.injEq, Option.some.injEq, and_true] at h1 h2
  obtain ⟨rfl, _⟩ := h1
  obtain ⟨rfl, _⟩ := h2
  norm_num

theorem wit_angle_angle_concl :
    (⟨0, 0⟩ : Pt ℝ) ∈
      (angleAngle (⟨6, 0⟩ : Pt ℝ) ⟨0, 8⟩ (innerAngle (⟨0, 0⟩ : Pt ℝ) ⟨6, 0⟩ ⟨0, 8⟩)
        ⟨0, 8⟩ ⟨-6, 0⟩ (innerAngle (⟨0, 0⟩ : Pt ℝ) ⟨0, 8⟩ ⟨-6, 0⟩) salDefault).sols := by
  obtain ⟨a, b, c, d, e, f, g, h, i, j, k⟩ := wit_angle_angle
  exact angleAngle_exact ⟨6, 0⟩ ⟨0, 8⟩ ⟨0, 8⟩ ⟨-6, 0⟩ ⟨0, 0⟩ salDefault a b c d e f g h i j k

end Gama.C06L
