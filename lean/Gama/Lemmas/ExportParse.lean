/-
  C13: what the parser establishes of `Net.WF` (the hypothesis of the round-trip theorems) for EVERY document it accepts.
  Proved: the parameter guards, point ids non-empty and pairwise distinct (PointData is a map), the shape of every
  covariance matrix `parseCovChecked` returns.  Not a theorem, because false for the parser (see the report): the
  cluster-level part of `Net.WF` fails for a `<dh>` with both `dist` and `stdev`, a `<vec>` with `from_dh` / `to_dh`,
  a `<coordinates>` point that is not active (before 6848bc2a also: whose coordinates were overwritten later) — exactly the documents the
  driver reports as `wf 0` on the `doc` stream.
-/
import Gama.Lemmas.ExportNet
namespace Gama.Export
open Gama.Gen.GkfAttrs Gama.Gen.GkfDoc

variable {K : Type}

/-! ## points -/

def PointsOk (ps : List (Point K)) : Prop := (∀ p ∈ ps, p.id ≠ "") ∧ (ps.map (·.id)).Nodup

theorem foldl_applySetter_id (l : List Setter) (p : Point K) : (l.foldl applySetter p).id = p.id := by
  induction l generalizing p with
  | nil => rfl
  | cons s l ih =>
    rw [List.foldl_cons, ih]
    cases s <;> rfl

theorem apply_id (u : PointUpd K) (p : Point K) : (u.apply p).id = p.id := by
  unfold PointUpd.apply
  simp only [foldl_applySetter_id]

theorem applyObs_id (u : PointUpd K) (p : Point K) : (u.applyObs p).id = p.id := by
  unfold PointUpd.applyObs
  simp only [foldl_applySetter_id]

theorem foldl_applySetter_xy (l : List Setter) (p : Point K) : (l.foldl applySetter p).xy = p.xy ∧ (l.foldl applySetter p).z = p.z := by
  induction l generalizing p with
  | nil => exact ⟨rfl, rfl⟩
  | cons s l ih =>
    rw [List.foldl_cons]
    obtain ⟨h1, h2⟩ := ih (applySetter p s)
    rw [h1, h2]
    cases s <;> exact ⟨rfl, rfl⟩

/-- 6848bc2a: a point inside `<coordinates>` does not replace a coordinate group the point already has -/
theorem applyObs_keeps (u : PointUpd K) (p : Point K) :
    (p.xy.isSome = true → (u.applyObs p).xy = p.xy) ∧ (p.z.isSome = true → (u.applyObs p).z = p.z) := by
  unfold PointUpd.applyObs
  simp only [(foldl_applySetter_xy _ _).1, (foldl_applySetter_xy _ _).2]
  constructor
  · intro h
    cases hu : u.xy <;> simp [h, coordsPointObserved, observedKeepsXY]
  · intro h
    cases hu : u.z <;> simp [h, coordsPointObserved, observedKeepsZ]

theorem parsePointAttrs_id (C : Codec K) (pp : String) (as : List (PAttr × String)) (u : PointUpd K)
    (h : parsePointAttrs C pp as = .ok u) : u.id ≠ "" := by
  unfold parsePointAttrs at h
  simp only [bind, Except.bind, pure, Except.pure, throw, throwThe, MonadExceptOf.throw] at h
  generalize (if (as.any fun a => a.fst.role == PRole.id) = true then pvar as PRole.id else pp) = idv at h
  by_cases hid : idv = ""
  · simp only [hid, if_true] at h
    cases h
  · simp only [hid, if_false] at h
    repeat' split at h
    all_goals first
      | (cases h; done)
      | (injection h with h; subst h; exact hid)

theorem upsert_ok (ps : List (Point K)) (id : String) (f : Point K → Point K) (hid : id ≠ "") (hf : ∀ p, (f p).id = p.id)
    (h : PointsOk ps) : PointsOk (upsert ps id f) := by
  unfold upsert
  split
  · have hm : (ps.map (fun p => if (p.id == id) = true then f p else p)).map (·.id) = ps.map (·.id) := by
      rw [List.map_map]
      apply List.map_congr_left
      intro p _
      simp only [Function.comp]
      split <;> simp [hf]
    refine ⟨?_, by rw [hm]; exact h.2⟩
    intro q hq
    obtain ⟨p, hp, rfl⟩ := List.mem_map.mp hq
    split
    · rw [hf]; exact h.1 p hp
    · exact h.1 p hp
  · rename_i hany
    have hfresh : ∀ p ∈ ps, p.id ≠ id := by
      intro p hp e
      apply hany
      simp only [List.any_eq_true, beq_iff_eq]
      exact ⟨p, hp, e⟩
    refine ⟨?_, ?_⟩
    · intro q hq
      rcases List.mem_append.mp hq with hq | hq
      · exact h.1 q hq
      · simp only [List.mem_singleton] at hq
        subst hq
        rw [hf]
        exact hid
    · rw [List.map_append, List.nodup_append]
      refine ⟨h.2, by simp, ?_⟩
      intro a ha b hb
      simp only [List.map_cons, List.map_nil, List.mem_singleton] at hb
      subst hb
      rw [hf]
      obtain ⟨p, hp, rfl⟩ := List.mem_map.mp ha
      exact hfresh p hp

theorem parseCoordPts_ok (C : Codec K) (ps : List (Point K)) (pp : String) (pts : List (List (PAttr × String)))
    (ps' : List (Point K)) (pp' : String) (cps : List (CPoint K))
    (h : parseCoordPts C ps pp pts = .ok (ps', pp', cps)) (hok : PointsOk ps) : PointsOk ps' := by
  induction pts generalizing ps pp ps' pp' cps with
  | nil =>
    simp only [parseCoordPts, Except.ok.injEq, Prod.mk.injEq] at h
    rw [← h.1]; exact hok
  | cons as rest ih =>
    unfold parseCoordPts at h
    split at h
    · cases h
    · rename_i u hu
      split at h
      · cases h
      · split at h
        · cases h
        · rename_i ps2 pp2 cps2 hrest
          simp only [Except.ok.injEq, Prod.mk.injEq] at h
          rw [← h.1]
          exact ih _ _ _ _ _ hrest (upsert_ok ps u.id u.applyObs (parsePointAttrs_id C pp as u hu) (applyObs_id u) hok)

/-- **a `<coordinates>` cluster never changes coordinates a point already has** (any accepted cluster, any PointData):
    every point of PointData is still there, with its id, and with every coordinate group it had -/
theorem parseCoordPts_keeps (C : Codec K) (ps : List (Point K)) (pp : String) (pts : List (List (PAttr × String)))
    (ps' : List (Point K)) (pp' : String) (cps : List (CPoint K))
    (h : parseCoordPts C ps pp pts = .ok (ps', pp', cps)) :
    ∀ p ∈ ps, ∃ p' ∈ ps', p'.id = p.id ∧ (p.xy.isSome = true → p'.xy = p.xy) ∧ (p.z.isSome = true → p'.z = p.z) := by
  induction pts generalizing ps pp ps' pp' cps with
  | nil =>
    simp only [parseCoordPts, Except.ok.injEq, Prod.mk.injEq] at h
    intro p hp
    exact ⟨p, by rw [← h.1]; exact hp, rfl, fun _ => rfl, fun _ => rfl⟩
  | cons as rest ih =>
    unfold parseCoordPts at h
    split at h
    · cases h
    · rename_i u hu
      split at h
      · cases h
      · split at h
        · cases h
        · rename_i ps2 pp2 cps2 hrest
          simp only [Except.ok.injEq, Prod.mk.injEq] at h
          rw [← h.1]
          intro p hp
          -- the image of `p` under the update of this point
          have hq : ∃ q ∈ upsert ps u.id u.applyObs, q.id = p.id ∧ (p.xy.isSome = true → q.xy = p.xy) ∧
              (p.z.isSome = true → q.z = p.z) := by
            unfold upsert
            split
            · by_cases he : (p.id == u.id) = true
              · refine ⟨u.applyObs p, List.mem_map.mpr ⟨p, hp, by simp [he]⟩, applyObs_id u p, (applyObs_keeps u p).1, (applyObs_keeps u p).2⟩
              · refine ⟨p, List.mem_map.mpr ⟨p, hp, by simp [he]⟩, rfl, fun _ => rfl, fun _ => rfl⟩
            · exact ⟨p, List.mem_append_left _ hp, rfl, fun _ => rfl, fun _ => rfl⟩
          obtain ⟨q, hqm, hqid, hqxy, hqz⟩ := hq
          obtain ⟨p', hp', hid', hxy', hz'⟩ := ih _ _ _ _ _ hrest q hqm
          refine ⟨p', hp', hid'.trans hqid, ?_, ?_⟩
          · intro hs
            have := hqxy hs
            rw [← this]
            exact hxy' (by rw [this]; exact hs)
          · intro hs
            have := hqz hs
            rw [← this]
            exact hz' (by rw [this]; exact hs)

theorem parseItem_ok (C : Codec K) (impl : Kind → K) (par : Params K) (s s' : PState K) (it : DItem)
    (h : parseItem C impl par s it = .ok s') (hok : PointsOk s.points) : PointsOk s'.points := by
  cases it with
  | point as =>
    simp only [parseItem] at h
    split at h
    · cases h
    · rename_i u hu
      injection h with h
      subst h
      exact upsert_ok s.points u.id u.apply (parsePointAttrs_id C s.ppId as u hu) (apply_id u) hok
  | obs as els cov =>
    simp only [parseItem] at h
    repeat' split at h
    all_goals first
      | (cases h; done)
      | (injection h with h; subst h; exact hok)
  | hdiffs els cov =>
    simp only [parseItem] at h
    repeat' split at h
    all_goals first
      | (cases h; done)
      | (injection h with h; subst h; exact hok)
  | coords as pts cov =>
    simp only [parseItem] at h
    split at h
    · cases h
    · split at h
      · cases h
      · rename_i ps pp cps hp
        repeat' split at h
        all_goals first
          | (cases h; done)
          | (injection h with h; subst h; exact parseCoordPts_ok C _ _ _ _ _ _ hp hok)
  | vectors vecs cov =>
    simp only [parseItem] at h
    repeat' split at h
    all_goals first
      | (cases h; done)
      | (injection h with h; subst h; exact hok)

theorem foldlM_parseItem_ok (C : Codec K) (impl : Kind → K) (par : Params K) (items : List DItem) (s s' : PState K)
    (h : items.foldlM (parseItem C impl par) s = .ok s') (hok : PointsOk s.points) : PointsOk s'.points := by
  induction items generalizing s with
  | nil =>
    simp only [List.foldlM_nil, pure, Except.pure, Except.ok.injEq] at h
    subst h; exact hok
  | cons it rest ih =>
    simp only [List.foldlM_cons, bind, Except.bind] at h
    split at h
    · cases h
    · rename_i s1 h1
      exact ih s1 h (parseItem_ok C impl par s s1 it h1 hok)

theorem mirrorNet_points_ok (C : Codec K) (n : Net K) (h : PointsOk n.points) : PointsOk (mirrorNet C n).points := by
  unfold mirrorNet
  split
  · have hm : (n.points.map (mirrorPoint C)).map (·.id) = n.points.map (·.id) := by
      rw [List.map_map]; rfl
    refine ⟨?_, by simp only [hm]; exact h.2⟩
    intro q hq
    obtain ⟨p, hp, rfl⟩ := List.mem_map.mp hq
    exact h.1 p hp
  · exact h

/-- every network the parser returns has non-empty, pairwise distinct point ids -/
theorem parseNet_points_ok (C : Codec K) (impl : Kind → K) (par0 : Params K) (d : Doc) (n : Net K)
    (h : parseNet C impl par0 d = .ok n) : PointsOk n.points := by
  unfold parseNet at h
  cases hr : parseRaw C impl par0 d with
  | error e => rw [hr] at h; cases h
  | ok m =>
    rw [hr] at h
    simp only [Except.map, Except.ok.injEq] at h
    subst h
    apply mirrorNet_points_ok
    unfold parseRaw at hr
    simp only [bind, Except.bind, pure, Except.pure] at hr
    repeat' split at hr
    all_goals first
      | (cases hr; done)
      | (injection hr with hr
         subst hr
         rename_i s hs
         exact foldlM_parseItem_ok C impl _ d.items ⟨[], [], ""⟩ s hs ⟨by simp, by simp⟩)

/-! ## parameters -/

/-- the part of `Params.WF` that does not speak about representable numbers -/
def Params.Guards (C : Codec K) (p : Params K) : Prop :=
  C.pos p.sigmaApr = true ∧ (C.pos p.confPr = true ∧ C.lt1 p.confPr = true) ∧ C.pos p.tolAbs = true ∧
  (∀ a, p.algorithm = some a → a ∈ algNames) ∧ (∀ e, p.ellipsoid = some e → C.ellKnown e = true) ∧ -1 ≤ p.covBand

theorem Params.wf_of_guards (C : Codec K) (p : Params K) (h : p.Guards C) : p.WF C (fun _ => True) :=
  ⟨h.1, h.2.1, h.2.2.1, h.2.2.2.1, h.2.2.2.2.1, h.2.2.2.2.2, trivial, trivial, trivial, fun _ _ => trivial⟩

theorem map_eq_ok {ε α β : Type} (f : α → β) (X : Except ε α) (b : β) (h : X.map f = .ok b) : ∃ y, X = .ok y ∧ f y = b := by
  cases X with
  | error e => cases h
  | ok y => exact ⟨y, rfl, by injection h⟩

theorem num_guard (C : Codec K) (g : K → Bool) (v : String) (y : K)
    (h : (match C.rd v with
          | some x => if g x = true then Except.ok x else Except.error Err.badParameter
          | none => Except.error Err.badParameter : Except Err K) = .ok y) : g y = true := by
  cases hr : C.rd v with
  | none => rw [hr] at h; cases h
  | some x =>
    rw [hr] at h
    by_cases hg : g x = true
    · simp only [hg, if_true, Except.ok.injEq] at h
      subst h; exact hg
    · simp only [hg, if_false] at h
      cases h

set_option maxRecDepth 4000 in
theorem parseParam_guards (C : Codec K) (hell : C.ellKnown "wgs84" = true) (p p' : Params K) (a : ParAttr × String)
    (h : parseParam C p a = .ok p') (hg : p.Guards C) : p'.Guards C := by
  obtain ⟨g1, g2, g3, g4, g5, g6⟩ := hg
  obtain ⟨an, v⟩ := a
  have hdef : algDefault ∈ algNames := by decide
  unfold parseParam at h
  cases hd : an.dest <;> simp only [hd] at h
  case sigmaApr =>
    obtain ⟨y, hn, rfl⟩ := map_eq_ok _ _ _ h
    · have hy := num_guard C (guardOk C an.guard) v y hn
      have : an.guard = .pos := by cases an <;> simp_all [ParAttr.dest, ParAttr.guard]
      rw [this] at hy
      exact ⟨hy, g2, g3, g4, g5, g6⟩
  case confPr =>
    obtain ⟨y, hn, rfl⟩ := map_eq_ok _ _ _ h
    · have hy := num_guard C (guardOk C an.guard) v y hn
      have : an.guard = .unit := by cases an <;> simp_all [ParAttr.dest, ParAttr.guard]
      rw [this] at hy
      simp only [guardOk, Bool.and_eq_true] at hy
      exact ⟨g1, hy, g3, g4, g5, g6⟩
  case tolAbs =>
    obtain ⟨y, hn, rfl⟩ := map_eq_ok _ _ _ h
    · have hy := num_guard C (guardOk C an.guard) v y hn
      have : an.guard = .pos := by cases an <;> simp_all [ParAttr.dest, ParAttr.guard]
      rw [this] at hy
      exact ⟨g1, g2, hy, g4, g5, g6⟩
  case sigmaAct =>
    split at h
    · injection h with h; subst h; exact ⟨g1, g2, g3, g4, g5, g6⟩
    · cases h
  case angular =>
    split at h
    · injection h with h; subst h; exact ⟨g1, g2, g3, g4, g5, g6⟩
    · cases h
  case algorithm =>
    injection h with h; subst h
    refine ⟨g1, g2, g3, ?_, g5, g6⟩
    intro a ha
    simp only [Option.some.injEq] at ha
    subst ha
    split
    · rename_i hc; simpa using hc
    · exact hdef
  case covBand =>
    split at h
    · injection h with h; subst h
      refine ⟨g1, g2, g3, g4, g5, ?_⟩
      simp only
      split <;> omega
    · cases h
  case latitude =>
    repeat' split at h
    all_goals first
      | (cases h; done)
      | (injection h with h; subst h; exact ⟨g1, g2, g3, g4, g5, g6⟩)
  case ellipsoid =>
    injection h with h; subst h
    refine ⟨g1, g2, g3, g4, ?_, g6⟩
    intro e he
    simp only [Option.some.injEq] at he
    subst he
    split
    · rename_i hc; exact hc
    · exact hell
  case ignored =>
    injection h with h; subst h; exact ⟨g1, g2, g3, g4, g5, g6⟩

theorem parseParams_guards (C : Codec K) (hell : C.ellKnown "wgs84" = true) (as : List (ParAttr × String)) (p p' : Params K)
    (h : parseParams C p as = .ok p') (hg : p.Guards C) : p'.Guards C := by
  unfold parseParams at h
  induction as generalizing p with
  | nil =>
    simp only [List.foldlM_nil, pure, Except.pure, Except.ok.injEq] at h
    subst h; exact hg
  | cons a rest ih =>
    simp only [List.foldlM_cons, bind, Except.bind] at h
    split at h
    · cases h
    · rename_i p1 h1
      exact ih p1 h (parseParam_guards C hell p p1 a h1 hg)

/-- every network the parser returns has its parameters within the guards of the setters (given that the defaults of the
    reading network are: `par0.Guards`; the replacement ellipsoid `wgs84` is a known one) -/
theorem parseRaw_par (C : Codec K) (impl : Kind → K) (par0 : Params K) (d : Doc) (m : Net K)
    (hr : parseRaw C impl par0 d = .ok m) :
    parseParams C { par0 with algorithm := none, latitude := none, ellipsoid := none } d.par = .ok m.par := by
  unfold parseRaw at hr
  simp only [bind, Except.bind, pure, Except.pure, throw, throwThe, MonadExceptOf.throw] at hr
  cases hh : parseHead C d.net with
  | error e => rw [hh] at hr; cases hr
  | ok head =>
    rw [hh] at hr
    cases hp : parseParams C { par0 with algorithm := none, latitude := none, ellipsoid := none } d.par with
    | error e => rw [hp] at hr; cases hr
    | ok par =>
      rw [hp] at hr
      simp only at hr
      repeat' split at hr
      all_goals first
        | (cases hr; done)
        | (injection hr with hr; subst hr; rfl)

theorem parseNet_params_ok (C : Codec K) (hell : C.ellKnown "wgs84" = true) (impl : Kind → K) (par0 : Params K) (d : Doc) (n : Net K)
    (h : parseNet C impl par0 d = .ok n) (h0 : par0.Guards C) : n.par.Guards C := by
  unfold parseNet at h
  cases hr : parseRaw C impl par0 d with
  | error e => rw [hr] at h; cases h
  | ok m =>
    rw [hr] at h
    simp only [Except.map, Except.ok.injEq] at h
    subst h
    have hp : (mirrorNet C m).par = m.par := by unfold mirrorNet; split <;> rfl
    rw [hp]
    exact parseParams_guards C hell d.par _ m.par (parseRaw_par C impl par0 d m hr)
      ⟨h0.1, h0.2.1, h0.2.2.1, (fun _ e => by cases e), (fun _ e => by cases e), h0.2.2.2.2.2⟩

/-! ## covariance matrices -/

theorem mapM_option_length {α β : Type} (f : α → Option β) (l : List α) (r : List β) (h : l.mapM f = some r) :
    r.length = l.length := by
  induction l generalizing r with
  | nil => simp at h; subst h; rfl
  | cons a l ih =>
    rw [List.mapM_cons] at h
    cases hb : f a with
    | none => simp [hb] at h
    | some b =>
      cases hr : l.mapM f with
      | none => simp [hb, hr] at h
      | some r' =>
        simp [hb, hr] at h
        subst h
        simp [ih r' hr]

/-- `process_cov` + `finish_cov` + the dimension check of `finish_<cluster>`: what comes out has dim ≥ 1, band < dim,
    dim = number of observations and exactly the packed number of elements -/
theorem parseCovChecked_wf (C : Codec K) (n : Nat) (d : CovDoc) (c : Cov K) (h : parseCovChecked C n d = .ok c) :
    c.WF (fun _ => True) n := by
  unfold parseCovChecked at h
  split at h
  · cases h
  · rename_i hcond
    split at h
    · rename_i c' hc'
      injection h with h
      subst h
      simp only [parseCov, Option.map_eq_some_iff] at hc'
      obtain ⟨xs, hxs, rfl⟩ := hc'
      have hl := mapM_option_length _ _ _ hxs
      simp only [not_or, Nat.not_lt, ge_iff_le, Nat.not_le, ne_eq, Decidable.not_not] at hcond
      exact ⟨hcond.1, hcond.2.1, hcond.2.2.1, by simp only [hl]; exact hcond.2.2.2, fun _ _ => trivial⟩
    · cases h

end Gama.Export
