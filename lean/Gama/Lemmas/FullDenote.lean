/-
  C04 round 3 — the symbolic answers of the chol/gso/svd machines denote what a fresh object computes.
  Core Lean only.
-/
import Gama.Model.FullDenote
import Gama.Lemmas.FullHist
namespace Gama.C04.Full
open Gama Gama.Ls Gama.C04

variable {K : Type} [Scalar K]

theorem denoteF_spec (k : Kind) (alg : Ls.Alg) (p : Problem K) (c : Reg) (inp : Input) (l : List Nat) (op : Op) :
    denoteF alg p c (spec k inp l op) = directF alg p c (inp.nullity != 0) l false op := by
  by_cases hn : inp.nullity = 0
  · cases op <;> cases k <;> simp [spec, denoteF, directF, vexp, hn, ansOf, withAns]
  · cases op <;> cases k <;> simp [spec, denoteF, directF, vexp, hn, ansOf, withAns]

theorem denoteF_sspec (alg : Ls.Alg) (p : Problem K) (c : Reg) (inp : Input) (c' : Option (List Nat)) (op : Op) :
    denoteF alg p c (sspec inp c' op)
      = directF alg p c (inp.nullity != 0 && c'.isSome) (c'.getD []) true op := by
  by_cases hn : inp.nullity = 0
  · cases op <;> cases c' <;> simp [sspec, denoteF, directF, svexp, hn, ansOf, withAns]
  · cases op <;> cases c' <;> simp [sspec, denoteF, directF, svexp, hn, ansOf, withAns]

/-! ### round 4 -/

theorem factsF_inputOf (alg : Ls.Alg) (p : Problem K) : FactsF alg p (inputOf alg p) := ⟨rfl, rfl, fun _ => rfl⟩

/-- chol / gso: with the facts of the problem, `directF` (algorithm of the kind, configuration of the state) is
    `answerF` — a function of the problem, the caller's configuration and the query -/
theorem directF_eq_answerF (k : Kind) (p : Problem K) (inp : Input) (hF : FactsF (algOf k) p inp) (s : FState) (op : Op) :
    directF (algOf k) p (cfgReg s.useAll s.list) (inp.nullity != 0) (eff inp s) false op
      = answerF (algOf k) p s.useAll s.list op := by
  simp only [answerF, eff, hF.n, hF.nullity]

theorem directF_eq_answerS (p : Problem K) (inp : Input) (hF : FactsF .svd p inp) (s : SState) (op : Op) :
    directF .svd p (cfgReg (!s.sub) s.list) (inp.nullity != 0 && (seff s).isSome) ((seff s).getD []) true op
      = answerS p s.sub s.list op := by
  simp only [answerS, seff, hF.nullity]
  cases s.sub <;> simp

end Gama.C04.Full
