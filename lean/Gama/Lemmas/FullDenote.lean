/-
  C04 round 3 — the symbolic answers of the chol/gso/svd machines denote what a fresh object computes.
  Core Lean only.
-/
import Gama.Model.FullDenote
import Gama.Lemmas.FullHist
namespace Gama.C04.Full
open Gama Gama.Ls Gama.C04

variable {K : Type} [Scalar K]

theorem denoteF_spec (k : Kind) (alg : Ls.Alg) (p : Problem K) (c : Reg) (inp : Input) (l : List Nat) (op : Op) :
    denoteF alg p c (spec k inp l op) = directF alg p c (inp.nullity != 0) l false op := by
  by_cases hn : inp.nullity = 0
  · cases op <;> cases k <;> simp [spec, denoteF, directF, vexp, hn, ansOf, withAns]
  · cases op <;> cases k <;> simp [spec, denoteF, directF, vexp, hn, ansOf, withAns]

theorem denoteF_sspec (alg : Ls.Alg) (p : Problem K) (c : Reg) (inp : Input) (c' : Option (List Nat)) (op : Op) :
    denoteF alg p c (sspec inp c' op)
      = directF alg p c (inp.nullity != 0 && c'.isSome) (c'.getD []) true op := by
  by_cases hn : inp.nullity = 0
  · cases op <;> cases c' <;> simp [sspec, denoteF, directF, svexp, hn, ansOf, withAns]
  · cases op <;> cases c' <;> simp [sspec, denoteF, directF, svexp, hn, ansOf, withAns]

end Gama.C04.Full
