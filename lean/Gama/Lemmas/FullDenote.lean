/-
  C04 round 3 — the symbolic answers of the chol/gso/svd machines denote what a fresh object computes.
  Core Lean only.
-/
import Gama.Model.FullDenote
import Gama.Lemmas.FullHist
import Gama.Lemmas.FullStateFacts
namespace Gama.C04.Full
open Gama Gama.Ls Gama.C04

variable {K : Type} [Scalar K]

theorem denoteF_spec (k : Kind) (alg : Ls.Alg) (p : Problem K) (c : Reg) (inp : Input) (l : List Nat) (op : Op) :
    denoteF alg p c (spec k inp l op) = directF alg p c (inp.nullity != 0) l false op := by
  by_cases hn : inp.nullity = 0
  · cases op <;> cases k <;> simp [spec, denoteF, directF, vexp, hn, ansOf, withAns]
  · cases op <;> cases k <;> simp [spec, denoteF, directF, vexp, hn, ansOf, withAns]

theorem denoteF_sspec (alg : Ls.Alg) (p : Problem K) (c : Reg) (inp : Input) (c' : Option (List Nat)) (op : Op) :
    denoteF alg p c (sspec inp c' op)
      = directF alg p c (inp.nullity != 0 && c'.isSome) (c'.getD []) true op := by
  by_cases hn : inp.nullity = 0
  · cases op <;> cases c' <;> simp [sspec, denoteF, directF, svexp, hn, ansOf, withAns]
  · cases op <;> cases c' <;> simp [sspec, denoteF, directF, svexp, hn, ansOf, withAns]

/-! ### round 4 -/

theorem factsF_inputOf (alg : Ls.Alg) (p : Problem K) : FactsF alg p (inputOf alg p) := ⟨rfl, rfl, fun _ => rfl⟩

/-! ### round 6: `answerF` / `answerS` do not branch on the defect

`directF` (what the symbolic answers denote) evaluates the solver model over `.subset (effective list)` or with the
configuration as it stands, depending on the singularity flag and the query.  Both are the SAME configuration for the
solver model: they differ only in `min_x()` (`.all`) versus the materialised list `1..n` (`chol_all`, `gso_all`); for
svd they coincide literally.  So `directF`, whatever the flag, is the field of ONE run of the solver model under the
caller's configuration. -/

theorem solver_all (k : Kind) (p : Problem K) :
    solverOf (algOf k) { p with reg := .subset (allList p.n) } = solverOf (algOf k) { p with reg := .all } := by
  cases k
  · exact chol_all p
  · exact gso_all p

/-- over the effective list = under the caller's configuration -/
theorem solver_eff (k : Kind) (p : Problem K) (inp : Input) (hn : inp.n = p.n) (s : FState) :
    solverOf (algOf k) { p with reg := .subset (eff inp s) }
      = solverOf (algOf k) { p with reg := cfgReg s.useAll s.list } := by
  unfold eff cfgReg
  rw [hn]
  cases s.useAll
  · rfl
  · exact solver_all k p

/-- chol / gso: `directF` (algorithm of the kind, configuration of the state) is `answerF` — the field of the solver
    model on the problem under the caller's configuration; holds for EITHER value of the singularity flag -/
theorem directF_eq_answerF' (k : Kind) (p : Problem K) (inp : Input) (hn : inp.n = p.n) (s : FState) (sing : Bool)
    (op : Op) :
    directF (algOf k) p (cfgReg s.useAll s.list) sing (eff inp s) false op
      = answerF (algOf k) p s.useAll s.list op := by
  have hE := solver_eff k p inp hn s
  cases op <;> cases sing <;> simp [directF, answerF, fieldF, hE]

theorem directF_eq_answerF (k : Kind) (p : Problem K) (inp : Input) (hF : FactsF (algOf k) p inp) (s : FState) (op : Op) :
    directF (algOf k) p (cfgReg s.useAll s.list) (inp.nullity != 0) (eff inp s) false op
      = answerF (algOf k) p s.useAll s.list op :=
  directF_eq_answerF' k p inp hF.n s _ op

theorem directF_eq_answerS (p : Problem K) (inp : Input) (_hF : FactsF .svd p inp) (s : SState) (op : Op) :
    directF .svd p (cfgReg (!s.sub) s.list) (inp.nullity != 0 && (seff s).isSome) ((seff s).getD []) true op
      = answerS p s.sub s.list op := by
  cases hs : s.sub <;> cases hb : (inp.nullity != 0) <;> cases op <;>
    simp [directF, answerS, fieldF, seff, cfgReg, hs]

/-! ### the regular case: the configuration does not matter at all -/

/-- chol / gso: if the solver model reports defect 0 for `p` under one configuration, `answerF` is the same under
    every configuration the model covers -/
theorem answerF_regular (k : Kind) (p : Problem K) (ua ua' : Bool) (l l' : Option (List Nat)) (a : Answer K)
    (h : solverOf (algOf k) { p with reg := cfgReg ua l } = .ok a) (hd : a.defect = 0)
    (hr : RegCovered (algOf k) p.n (cfgReg ua' l')) (op : Op) :
    answerF (algOf k) p ua' l' op = answerF (algOf k) p ua l op := by
  unfold answerF
  rw [solver_regular (algOf k) (by cases k <;> simp [algOf]) p _ (cfgReg ua' l') a h hd hr, h]

theorem answerS_regular (p : Problem K) (sub sub' : Bool) (l l' : Option (List Nat)) (a : Answer K)
    (h : solverOf .svd { p with reg := cfgReg (!sub) l } = .ok a) (hd : a.defect = 0) (op : Op) :
    answerS p sub' l' op = answerS p sub l op := by
  unfold answerS
  rw [solver_regular .svd (by simp) p _ (cfgReg (!sub') l') a h hd (fun hc => by cases hc), h]

/-! ### the driver's input -/

/-- an accepted `info` line carries the size and the defect of `inputOf` -/
theorem FInfo.agrees_spec {f : FInfo} {alg : Ls.Alg} {p : Problem K} (h : f.agrees alg p = true) :
    f.n = (inputOf alg p).n ∧ f.nullity = (inputOf alg p).nullity := by
  simp only [FInfo.agrees, Bool.and_eq_true, beq_iff_eq] at h
  exact h

end Gama.C04.Full
