/-
  C09 — the statistics model (`Gama/Model/Stats.lean`) read over ℝ.

  * `Scalar ℝ`, `StatsTrig ℝ`: the signature's operations are the field's, `sqrt = Real.sqrt`,
    `atan2 y x = Complex.arg (x + y i)` (the mathematical meaning of C's `atan2`), `pi = π`.
  * lemmas behind the property theorems of `Props/C09.lean`.
-/
import Gama.Model.Stats
import Gama.Lemmas.RealScalar
import Mathlib.Analysis.SpecialFunctions.Complex.Arg
import Mathlib.Tactic.Linarith
import Mathlib.Tactic.Ring
import Mathlib.Tactic.FieldSimp
import Mathlib.Tactic.LinearCombination

namespace Gama

/- `Scalar ℝ` (`Gama.instScalarReal`) is declared once, in `Lemmas/RealScalar.lean`, shared with the
   C05/C06/C07 and C17/C18 lemma files (its literal `ofSci` is `OfScientific.ofScientific`:
   `Gama.scalar_ofSci_eq_ofScientific`; the statistics model uses no literal). -/

noncomputable instance instStatsTrigReal : StatsTrig ℝ where
  atan2 := fun y x => Complex.arg ⟨x, y⟩
  pi := Real.pi

namespace Stats
open Real

@[simp] theorem sqrt_real (x : ℝ) : Scalar.sqrt x = √x := rfl
@[simp] theorem ofNat_real (n : ℕ) : (Scalar.ofNat n : ℝ) = (n : ℝ) := rfl
@[simp] theorem abs_real (x : ℝ) : Scalar.abs x = |x| := rfl
theorem beq_real (a b : ℝ) : Scalar.beq a b = true ↔ a = b := by
  show @decide (a = b) (Classical.dec _) = true ↔ a = b
  simp
@[simp] theorem atan2_real (y x : ℝ) : StatsTrig.atan2 y x = Complex.arg ⟨x, y⟩ := rfl
@[simp] theorem pi_real : (StatsTrig.pi : ℝ) = π := rfl

theorem ofInt_real (i : ℤ) : (Scalar.ofInt i : ℝ) = (i : ℝ) := by
  unfold Scalar.ofInt
  have h2 : ((i.natAbs : ℕ) : ℝ) = ((i.natAbs : ℤ) : ℝ) := (Int.cast_natCast _).symm
  split_ifs with h
  · show -((i.natAbs : ℕ) : ℝ) = i
    have : ((i.natAbs : ℤ)) = -i := by omega
    rw [h2, this]; push_cast; ring
  · show ((i.natAbs : ℕ) : ℝ) = i
    have : ((i.natAbs : ℤ)) = i := by omega
    rw [h2, this]

/-! ### reference standard deviation -/

theorem m0_apost_sq (phi : ℝ) (dof : ℤ) (hd : 0 < dof) (hphi : 0 ≤ phi) :
    m0 .aposteriori (0 : ℝ) phi dof ^ 2 * (dof : ℝ) = phi ∧
    m0Aposteriori phi dof ^ 2 * (dof : ℝ) = phi := by
  have hd' : (0 : ℝ) < (dof : ℝ) := Int.cast_pos.mpr hd
  have hq : 0 ≤ phi / (dof : ℝ) := div_nonneg hphi hd'.le
  have key : √(phi / (dof : ℝ)) ^ 2 * (dof : ℝ) = phi := by
    rw [Real.sq_sqrt hq]; field_simp
  constructor
  · simp only [m0, if_pos hd, sqrt_real, ofInt_real]; exact key
  · simp only [m0Aposteriori, if_pos hd, sqrt_real, ofInt_real]; exact key

/-! ### standard deviations -/

theorem unknownStdev_sq (m q : ℝ) (hq : 0 ≤ q) : unknownStdev m q ^ 2 = m ^ 2 * q := by
  simp only [unknownStdev, sqrt_real]
  rw [mul_pow, Real.sq_sqrt hq]

theorem sigmaL_sq (m sapr qbb stdev : ℝ) (hq : 0 ≤ qbb) (hs : sapr ≠ 0) :
    sigmaL m sapr qbb stdev ^ 2 = m ^ 2 * (qbb * stdev ^ 2 / sapr ^ 2) := by
  simp only [sigmaL, sqrt_real]
  rw [mul_pow, mul_pow, Real.sq_sqrt hq]
  field_simp

theorem weightObs_eq (sapr stdev : ℝ) : weightObs sapr stdev = (sapr / stdev) ^ 2 := by
  simp only [weightObs]; ring

theorem wcoefRes_of_nonneg (qbb w : ℝ) (h : 0 ≤ 1 / w - qbb / w) :
    wcoefRes qbb w = 1 / w - qbb / w := by
  have e : (1 - qbb) / w = 1 / w - qbb / w := by ring
  simp only [wcoefRes]
  rw [e, if_pos h]

theorem wcoefRes_of_neg (qbb w : ℝ) (h : 1 / w - qbb / w < 0) : wcoefRes qbb w = 0 := by
  have e : (1 - qbb) / w = 1 / w - qbb / w := by ring
  simp only [wcoefRes]
  rw [e, if_neg (not_le.mpr h)]

/-! ### error ellipse -/

/-- atan2 in polar form: with `θ = arg (d + e i)` and `c = √(d²+e²) ≠ 0`,
    `d = c cos θ`, `e = c sin θ` -/
theorem arg_polar (d e : ℝ) (hc : √(d ^ 2 + e ^ 2) ≠ 0) :
    d = √(d ^ 2 + e ^ 2) * cos (Complex.arg ⟨d, e⟩) ∧
    e = √(d ^ 2 + e ^ 2) * sin (Complex.arg ⟨d, e⟩) := by
  have hz : (⟨d, e⟩ : ℂ) ≠ 0 := by
    intro h
    have h1 : d = 0 := congrArg Complex.re h
    have h2 : e = 0 := congrArg Complex.im h
    apply hc; rw [h1, h2]; simp
  have hn : ‖(⟨d, e⟩ : ℂ)‖ = √(d ^ 2 + e ^ 2) := Complex.norm_eq_sqrt_sq_add_sq _
  rw [Complex.cos_arg hz, Complex.sin_arg, hn]
  constructor <;> field_simp

/-- the symmetric matrix `[[cxx,cxy],[cxy,cyy]]` applied to `(cos α, sin α)` where
    `2α = θ (mod 2π)`, `cxx - cyy = c cos θ`, `2 cxy = c sin θ` -/
theorem eigvec_of_half (cxx cxy cyy c α θ : ℝ)
    (hd : cxx - cyy = c * cos θ) (he : 2 * cxy = c * sin θ)
    (hcos : cos θ = cos (2 * α)) (hsin : sin θ = sin (2 * α)) :
    cxx * cos α + cxy * sin α = (cxx + cyy + c) / 2 * cos α ∧
    cxy * cos α + cyy * sin α = (cxx + cyy + c) / 2 * sin α := by
  rw [hcos] at hd; rw [hsin] at he
  rw [cos_two_mul] at hd; rw [sin_two_mul] at he
  have h1 := sin_sq_add_cos_sq α
  constructor
  · linear_combination (cos α / 2) * hd + (sin α / 2) * he + (c * cos α) * h1
  · linear_combination (cos α / 2) * he - (sin α / 2) * hd

/-- half of the atan2 angle, shifted into `[0, π)` as the code does
    (`alfa = atan2(..)/2; if (alfa < 0) alfa += M_PI`) -/
noncomputable def halfBearing (d e : ℝ) : ℝ :=
  if Complex.arg ⟨d, e⟩ / 2 < 0 then Complex.arg ⟨d, e⟩ / 2 + π else Complex.arg ⟨d, e⟩ / 2

theorem halfBearing_range (d e : ℝ) : 0 ≤ halfBearing d e ∧ halfBearing d e < π := by
  unfold halfBearing
  have h1 := Complex.neg_pi_lt_arg ⟨d, e⟩
  have h2 := Complex.arg_le_pi ⟨d, e⟩
  have := Real.pi_pos
  split_ifs with h
  · constructor <;> linarith
  · constructor <;> linarith

theorem halfBearing_double (d e : ℝ) :
    cos (Complex.arg ⟨d, e⟩) = cos (2 * halfBearing d e) ∧
    sin (Complex.arg ⟨d, e⟩) = sin (2 * halfBearing d e) := by
  unfold halfBearing
  split_ifs with h
  · have : 2 * (Complex.arg ⟨d, e⟩ / 2 + π) = Complex.arg ⟨d, e⟩ + 2 * π := by ring
    rw [this, Real.cos_add_two_pi, Real.sin_add_two_pi]; exact ⟨rfl, rfl⟩
  · have : 2 * (Complex.arg ⟨d, e⟩ / 2) = Complex.arg ⟨d, e⟩ := by ring
    rw [this]; exact ⟨rfl, rfl⟩

/-- positive rescaling does not change the bearing -/
theorem halfBearing_scale (d e t : ℝ) (ht : 0 < t) :
    halfBearing (t * d) (t * e) = halfBearing d e := by
  have : (⟨t * d, t * e⟩ : ℂ) = (t : ℂ) * ⟨d, e⟩ := by
    apply Complex.ext <;> simp
  unfold halfBearing
  rw [this, Complex.arg_real_mul _ ht]

/-- the three outputs of `std_error_ellipse` in closed form, for any input -/
theorem ellipse_general (cxx cxy cyy m : ℝ) :
    stdErrorEllipse cyy cxy cxx m =
      (m * √(max ((cyy + cxx - √((cxx - cyy) * (cxx - cyy) + 4 * cxy * cxy)) / 2) 0
              + √((cxx - cyy) * (cxx - cyy) + 4 * cxy * cxy)),
       m * √(max ((cyy + cxx - √((cxx - cyy) * (cxx - cyy) + 4 * cxy * cxy)) / 2) 0),
       if √((cxx - cyy) * (cxx - cyy) + 4 * cxy * cxy) = 0 then 0
       else halfBearing (cxx - cyy) (2 * cxy)) := by
  simp only [stdErrorEllipse, sqrt_real, ofNat_real, atan2_real, pi_real, Nat.cast_ofNat,
    halfBearing]
  set c := √((cxx - cyy) * (cxx - cyy) + 4 * cxy * cxy) with hc
  have hmax : (if (cyy + cxx - c) / 2 < 0 then (0 : ℝ) else (cyy + cxx - c) / 2)
      = max ((cyy + cxx - c) / 2) 0 := by
    split_ifs with h
    · exact (max_eq_right h.le).symm
    · exact (max_eq_left (not_lt.mp h)).symm
  rw [hmax]
  by_cases h0 : c = 0
  · have : Scalar.beq c 0 = true := (beq_real c 0).mpr h0
    rw [if_pos this, if_pos h0]
  · have : ¬ (Scalar.beq c 0 = true) := fun h => h0 ((beq_real c 0).mp h)
    rw [if_neg this, if_neg h0]

/-- for a positive semidefinite 2×2 block the clamp is inactive -/
theorem ellipse_val (cxx cxy cyy m : ℝ) (hxx : 0 ≤ cxx) (hyy : 0 ≤ cyy)
    (hdet : cxy ^ 2 ≤ cxx * cyy) :
    stdErrorEllipse cyy cxy cxx m =
      (m * √((cxx + cyy + √((cxx - cyy) * (cxx - cyy) + 4 * cxy * cxy)) / 2),
       m * √((cxx + cyy - √((cxx - cyy) * (cxx - cyy) + 4 * cxy * cxy)) / 2),
       if √((cxx - cyy) * (cxx - cyy) + 4 * cxy * cxy) = 0 then 0
       else halfBearing (cxx - cyy) (2 * cxy)) := by
  rw [ellipse_general]
  set X := (cxx - cyy) * (cxx - cyy) + 4 * cxy * cxy with hX
  have hX0 : 0 ≤ X := by nlinarith [sq_nonneg (cxx - cyy), sq_nonneg cxy]
  set c := √X with hc
  have hctr : c ≤ cxx + cyy := by
    have : X ≤ (cxx + cyy) ^ 2 := by nlinarith
    calc c = √X := rfl
      _ ≤ √((cxx + cyy) ^ 2) := Real.sqrt_le_sqrt this
      _ = cxx + cyy := Real.sqrt_sq (by linarith)
  have hb : max ((cyy + cxx - c) / 2) 0 = (cxx + cyy - c) / 2 := by
    rw [max_eq_left (by linarith)]; ring
  rw [hb]
  have e1 : (cxx + cyy - c) / 2 + c = (cxx + cyy + c) / 2 := by ring
  rw [e1]

theorem ellipse_eigen (cxx cxy cyy m : ℝ) (hxx : 0 ≤ cxx) (hyy : 0 ≤ cyy)
    (hdet : cxy ^ 2 ≤ cxx * cyy) :
    ∃ l1 l2 : ℝ,
      l1 ^ 2 - (cxx + cyy) * l1 + (cxx * cyy - cxy ^ 2) = 0 ∧
      l2 ^ 2 - (cxx + cyy) * l2 + (cxx * cyy - cxy ^ 2) = 0 ∧
      l1 + l2 = cxx + cyy ∧ 0 ≤ l2 ∧ l2 ≤ l1 ∧
      (stdErrorEllipse cyy cxy cxx m).1 = m * √l1 ∧
      (stdErrorEllipse cyy cxy cxx m).2.1 = m * √l2 ∧
      cxx * cos (stdErrorEllipse cyy cxy cxx m).2.2 + cxy * sin (stdErrorEllipse cyy cxy cxx m).2.2
        = l1 * cos (stdErrorEllipse cyy cxy cxx m).2.2 ∧
      cxy * cos (stdErrorEllipse cyy cxy cxx m).2.2 + cyy * sin (stdErrorEllipse cyy cxy cxx m).2.2
        = l1 * sin (stdErrorEllipse cyy cxy cxx m).2.2 ∧
      0 ≤ (stdErrorEllipse cyy cxy cxx m).2.2 ∧ (stdErrorEllipse cyy cxy cxx m).2.2 < π := by
  set X := (cxx - cyy) * (cxx - cyy) + 4 * cxy * cxy with hX
  have hX0 : 0 ≤ X := by nlinarith [sq_nonneg (cxx - cyy), sq_nonneg cxy]
  set c := √X with hc
  have hc0 : 0 ≤ c := Real.sqrt_nonneg _
  have hcc : c * c = X := Real.mul_self_sqrt hX0
  have hctr : c ≤ cxx + cyy := by
    have : X ≤ (cxx + cyy) ^ 2 := by nlinarith
    calc c = √X := rfl
      _ ≤ √((cxx + cyy) ^ 2) := Real.sqrt_le_sqrt this
      _ = cxx + cyy := Real.sqrt_sq (by linarith)
  rw [ellipse_val cxx cxy cyy m hxx hyy hdet]
  have hXe : (cxx - cyy) ^ 2 + (2 * cxy) ^ 2 = X := by rw [hX]; ring
  refine ⟨(cxx + cyy + c) / 2, (cxx + cyy - c) / 2, ?_, ?_, ?_, ?_, ?_, rfl, rfl, ?_⟩
  · nlinarith
  · nlinarith
  · ring
  · linarith
  · linarith
  · dsimp only
    by_cases h0 : c = 0
    · rw [if_pos h0]
      simp only [Real.cos_zero, Real.sin_zero, mul_one, mul_zero, add_zero]
      have hd : cxx - cyy = 0 := by nlinarith [sq_nonneg (cxx - cyy), sq_nonneg cxy]
      have he : cxy = 0 := by nlinarith [sq_nonneg (cxx - cyy), sq_nonneg cxy]
      refine ⟨?_, ?_, le_refl _, Real.pi_pos⟩
      · rw [h0]; linarith
      · rw [he]
    · rw [if_neg h0]
      have hcX : √((cxx - cyy) ^ 2 + (2 * cxy) ^ 2) = c := by rw [hXe]
      have hne : √((cxx - cyy) ^ 2 + (2 * cxy) ^ 2) ≠ 0 := by rw [hcX]; exact h0
      obtain ⟨p1, p2⟩ := arg_polar (cxx - cyy) (2 * cxy) hne
      rw [hcX] at p1 p2
      obtain ⟨q1, q2⟩ := halfBearing_double (cxx - cyy) (2 * cxy)
      obtain ⟨r1, r2⟩ :=
        eigvec_of_half cxx cxy cyy c (halfBearing (cxx - cyy) (2 * cxy)) _ p1 p2 q1 q2
      exact ⟨r1, r2, (halfBearing_range _ _).1, (halfBearing_range _ _).2⟩

/-! ### change of the a priori reference standard deviation (`P ↦ s²P`) -/

theorem sqrt_div_sq (y s : ℝ) (hs : 0 < s) : √(y / s ^ 2) = √y / s := by
  rw [Real.sqrt_div' y (sq_nonneg s), Real.sqrt_sq hs.le]

/-- the ellipse computed from `Q/s²` with reference deviation `s·m` is the ellipse from `Q`, `m` -/
theorem ellipse_scale (cxx cxy cyy m s : ℝ) (hs : 0 < s) :
    stdErrorEllipse (cyy / s ^ 2) (cxy / s ^ 2) (cxx / s ^ 2) (s * m)
      = stdErrorEllipse cyy cxy cxx m := by
  rw [ellipse_general, ellipse_general]
  have hs2 : 0 < s ^ 2 := by positivity
  have hsne : s ≠ 0 := hs.ne'
  set X := (cxx - cyy) * (cxx - cyy) + 4 * cxy * cxy with hX
  have hX' : (cxx / s ^ 2 - cyy / s ^ 2) * (cxx / s ^ 2 - cyy / s ^ 2)
      + 4 * (cxy / s ^ 2) * (cxy / s ^ 2) = X / (s ^ 2) ^ 2 := by
    rw [hX]; field_simp
  rw [hX']
  have hc' : √(X / (s ^ 2) ^ 2) = √X / s ^ 2 := sqrt_div_sq X (s ^ 2) hs2
  rw [hc']
  set c := √X with hc
  have hbq : (cyy / s ^ 2 + cxx / s ^ 2 - c / s ^ 2) / 2 = ((cyy + cxx - c) / 2) / s ^ 2 := by
    field_simp
  have hmax : max ((cyy / s ^ 2 + cxx / s ^ 2 - c / s ^ 2) / 2) 0
      = max ((cyy + cxx - c) / 2) 0 / s ^ 2 := by
    rw [hbq]
    rcases le_total 0 ((cyy + cxx - c) / 2) with h | h
    · rw [max_eq_left h, max_eq_left (div_nonneg h hs2.le)]
    · rw [max_eq_right h, max_eq_right (div_nonpos_of_nonpos_of_nonneg h hs2.le)]; simp
  rw [hmax]
  set b := max ((cyy + cxx - c) / 2) 0 with hb
  have h1 : s * m * √(b / s ^ 2 + c / s ^ 2) = m * √(b + c) := by
    have : b / s ^ 2 + c / s ^ 2 = (b + c) / s ^ 2 := by ring
    rw [this, sqrt_div_sq _ s hs]; field_simp
  have h2 : s * m * √(b / s ^ 2) = m * √b := by
    rw [sqrt_div_sq _ s hs]; field_simp
  have h3 : (c / s ^ 2 = 0) ↔ c = 0 := by
    constructor
    · intro h; have := div_eq_zero_iff.mp h
      rcases this with h | h
      · exact h
      · exact absurd h hs2.ne'
    · intro h; rw [h]; simp
  have h4 : halfBearing (cxx / s ^ 2 - cyy / s ^ 2) (2 * (cxy / s ^ 2))
      = halfBearing (cxx - cyy) (2 * cxy) := by
    have e1 : cxx / s ^ 2 - cyy / s ^ 2 = (1 / s ^ 2) * (cxx - cyy) := by ring
    have e2 : 2 * (cxy / s ^ 2) = (1 / s ^ 2) * (2 * cxy) := by ring
    rw [e1, e2, halfBearing_scale _ _ _ (by positivity)]
  rw [h1, h2, h4]
  by_cases h0 : c = 0
  · rw [if_pos h0, if_pos (h3.mpr h0)]
  · rw [if_neg h0, if_neg (fun h => h0 (h3.mp h))]


/-! ### round 3: the guarded regions, explicit eigen-decomposition, uniqueness of the bearing -/

/-- `ellipse_eigen` with the eigenvalues written out: `c = √((cxx−cyy)² + 4cxy²)`,
    `λ₁ = (tr + c)/2`, `λ₂ = (tr − c)/2` -/
theorem ellipse_full (cxx cxy cyy m : ℝ) (hxx : 0 ≤ cxx) (hyy : 0 ≤ cyy)
    (hdet : cxy ^ 2 ≤ cxx * cyy) :
    0 ≤ √((cxx - cyy) * (cxx - cyy) + 4 * cxy * cxy) ∧
    √((cxx - cyy) * (cxx - cyy) + 4 * cxy * cxy) ≤ cxx + cyy ∧
    √((cxx - cyy) * (cxx - cyy) + 4 * cxy * cxy) * √((cxx - cyy) * (cxx - cyy) + 4 * cxy * cxy)
      = (cxx - cyy) * (cxx - cyy) + 4 * cxy * cxy ∧
    (stdErrorEllipse cyy cxy cxx m).1
      = m * √((cxx + cyy + √((cxx - cyy) * (cxx - cyy) + 4 * cxy * cxy)) / 2) ∧
    (stdErrorEllipse cyy cxy cxx m).2.1
      = m * √((cxx + cyy - √((cxx - cyy) * (cxx - cyy) + 4 * cxy * cxy)) / 2) ∧
    cxx * cos (stdErrorEllipse cyy cxy cxx m).2.2 + cxy * sin (stdErrorEllipse cyy cxy cxx m).2.2
      = (cxx + cyy + √((cxx - cyy) * (cxx - cyy) + 4 * cxy * cxy)) / 2
          * cos (stdErrorEllipse cyy cxy cxx m).2.2 ∧
    cxy * cos (stdErrorEllipse cyy cxy cxx m).2.2 + cyy * sin (stdErrorEllipse cyy cxy cxx m).2.2
      = (cxx + cyy + √((cxx - cyy) * (cxx - cyy) + 4 * cxy * cxy)) / 2
          * sin (stdErrorEllipse cyy cxy cxx m).2.2 ∧
    0 ≤ (stdErrorEllipse cyy cxy cxx m).2.2 ∧ (stdErrorEllipse cyy cxy cxx m).2.2 < π := by
  set X := (cxx - cyy) * (cxx - cyy) + 4 * cxy * cxy with hX
  have hX0 : 0 ≤ X := by nlinarith [sq_nonneg (cxx - cyy), sq_nonneg cxy]
  set c := √X with hc
  have hc0 : 0 ≤ c := Real.sqrt_nonneg _
  have hcc : c * c = X := Real.mul_self_sqrt hX0
  have hctr : c ≤ cxx + cyy := by
    have : X ≤ (cxx + cyy) ^ 2 := by nlinarith
    calc c = √X := rfl
      _ ≤ √((cxx + cyy) ^ 2) := Real.sqrt_le_sqrt this
      _ = cxx + cyy := Real.sqrt_sq (by linarith)
  rw [ellipse_val cxx cxy cyy m hxx hyy hdet]
  have hXe : (cxx - cyy) ^ 2 + (2 * cxy) ^ 2 = X := by rw [hX]; ring
  refine ⟨hc0, hctr, hcc, rfl, rfl, ?_⟩
  dsimp only
  by_cases h0 : c = 0
  · rw [if_pos h0]
    simp only [Real.cos_zero, Real.sin_zero, mul_one, mul_zero, add_zero]
    have hd : cxx - cyy = 0 := by nlinarith [sq_nonneg (cxx - cyy), sq_nonneg cxy]
    have he : cxy = 0 := by nlinarith [sq_nonneg (cxx - cyy), sq_nonneg cxy]
    refine ⟨?_, ?_, le_refl _, Real.pi_pos⟩
    · rw [h0]; linarith
    · rw [he]
  · rw [if_neg h0]
    have hcX : √((cxx - cyy) ^ 2 + (2 * cxy) ^ 2) = c := by rw [hXe]
    have hne : √((cxx - cyy) ^ 2 + (2 * cxy) ^ 2) ≠ 0 := by rw [hcX]; exact h0
    obtain ⟨p1, p2⟩ := arg_polar (cxx - cyy) (2 * cxy) hne
    rw [hcX] at p1 p2
    obtain ⟨q1, q2⟩ := halfBearing_double (cxx - cyy) (2 * cxy)
    obtain ⟨r1, r2⟩ :=
      eigvec_of_half cxx cxy cyy c (halfBearing (cxx - cyy) (2 * cxy)) _ p1 p2 q1 q2
    exact ⟨r1, r2, (halfBearing_range _ _).1, (halfBearing_range _ _).2⟩

/-- two unit vectors `(cos α, sin α)`, `(cos β, sin β)` with `α, β ∈ [0, π)` that are both
    eigenvectors of the symmetric `[[cxx,cxy],[cxy,cyy]]` for a SIMPLE eigenvalue `l1`
    (`l1 + l2 = trace`, `l1 ≠ l2`) have the same bearing -/
theorem eigvec_unique (cxx cxy cyy l1 l2 α β : ℝ) (hs : l1 + l2 = cxx + cyy) (hne : l1 ≠ l2)
    (hα0 : 0 ≤ α) (hαπ : α < π) (hβ0 : 0 ≤ β) (hβπ : β < π)
    (a1 : cxx * cos α + cxy * sin α = l1 * cos α) (a2 : cxy * cos α + cyy * sin α = l1 * sin α)
    (b1 : cxx * cos β + cxy * sin β = l1 * cos β) (b2 : cxy * cos β + cyy * sin β = l1 * sin β) :
    β = α := by
  have hcross : (l2 - l1) * (sin β * cos α - cos β * sin α) = 0 := by
    linear_combination (sin β * cos α - cos β * sin α) * hs + sin β * a1 - sin α * b1
      + cos α * b2 - cos β * a2
  have hsin : sin (β - α) = 0 := by
    rw [Real.sin_sub]
    rcases mul_eq_zero.mp hcross with h | h
    · exact absurd (by linarith : l1 = l2) hne
    · exact h
  have := (Real.sin_eq_zero_iff_of_lt_of_lt (by linarith) (by linarith)).mp hsin
  linarith

/-! the clamp of the residual cofactor and the `> 0` guard of the studentized residual carry no
    absolute scale -/

theorem wcoefRes_scale (qbb w t : ℝ) (ht : 0 < t) :
    wcoefRes qbb (t * w) = wcoefRes qbb w / t := by
  simp only [wcoefRes]
  have e : (1 - qbb) / (t * w) = (1 - qbb) / w / t := by rw [div_div, mul_comm]
  rw [e]
  by_cases h : 0 ≤ (1 - qbb) / w
  · rw [if_pos h, if_pos (div_nonneg h ht.le)]
  · rw [if_neg h, if_neg (fun h' => h (by
      have := mul_nonneg h' ht.le
      rwa [div_mul_cancel₀ _ ht.ne'] at this))]
    simp

theorem wcoefRes_nonneg (qbb w : ℝ) : 0 ≤ wcoefRes qbb w := by
  simp only [wcoefRes]
  split_ifs with h
  · exact h
  · exact le_refl _

theorem stdevRes_scale (m q t : ℝ) (ht : 0 < t) : stdevRes (√t * m) (q / t) = stdevRes m q := by
  simp only [stdevRes, sqrt_real, abs_real]
  rw [abs_div, abs_of_pos ht, Real.sqrt_div' _ ht.le]
  have : √t ≠ 0 := (Real.sqrt_pos.mpr ht).ne'
  field_simp

theorem stdevRes_nonneg (m q : ℝ) (hm : 0 ≤ m) : 0 ≤ stdevRes m q := by
  simp only [stdevRes, sqrt_real, abs_real]
  exact mul_nonneg hm (Real.sqrt_nonneg _)

theorem studentized_scale (sres r k : ℝ) (hk : 0 < k) :
    studentizedResidual (k * sres) (k * r) = studentizedResidual sres r := by
  simp only [studentizedResidual]
  by_cases h : 0 < sres
  · rw [if_pos h, if_pos (mul_pos hk h)]; field_simp
  · rw [if_neg h, if_neg (fun h' => h (by
      rcases lt_or_ge 0 sres with h1 | h1
      · exact h1
      · exact absurd h' (not_lt.mpr (mul_nonpos_of_nonneg_of_nonpos hk.le h1))))]

theorem errObsAdj_scale (v q w t : ℝ) (ht : 0 < t) : errObsAdj v (q / t) (t * w) = errObsAdj v q w := by
  simp only [errObsAdj]
  have : q / t * (t * w) = q * w := by field_simp
  rw [this]

theorem m0_scale (act : SigmaAct) (sapr phi s : ℝ) (dof : ℤ) (hs : 0 < s) :
    m0 act (s * sapr) (s ^ 2 * phi) dof = s * m0 act sapr phi dof := by
  cases act
  · rfl
  · simp only [m0]
    split_ifs with h
    · simp only [sqrt_real, ofInt_real]
      have : s ^ 2 * phi / (dof : ℝ) = s ^ 2 * (phi / (dof : ℝ)) := by ring
      rw [this, mul_comm (s ^ 2), Real.sqrt_mul' _ (sq_nonneg s), Real.sqrt_sq hs.le]; ring
    · simp

end Stats
end Gama
