/- Lemmas about the cov-mat element accounting (Model/GkfCov.lean). -/
import Gama.Model.GkfCov
namespace Gama.Cov

def InBandRow (band : Nat) (p : Nat × Nat) : Prop := p.1 ≤ p.2 ∧ p.2 ≤ p.1 + band

theorem nextPos_inBandRow (dim band : Nat) (p : Nat × Nat) (h : InBandRow band p) : InBandRow band (nextPos dim band p) := by
  unfold nextPos InBandRow at *
  split
  · simp
  · rename_i hc
    simp only [Bool.or_eq_true, decide_eq_true_eq, not_or, Nat.not_lt] at hc
    simp only; omega

/-- an accepted text supplies exactly `elements` words, one write each, every write in the band of its row -/
theorem fill_ok (dim band : Nat) : ∀ (ws : List (List Char)) (e : Nat) (p : Nat × Nat) (ps : List (Nat × Nat)),
    InBandRow band p → fill dim band ws e p = .ok ps →
    ws.length = e ∧ ps.length = e ∧ (∀ w ∈ ws, Lit.toDoubleOk w = true) ∧ ∀ q ∈ ps, InBandRow band q := by
  intro ws
  induction ws with
  | nil =>
    intro e p ps _ h
    unfold fill at h
    split at h
    · cases h; rename_i he; simp [he]
    · cases h
  | cons w ws ih =>
    intro e p ps hp h
    unfold fill at h
    split at h
    · cases h
    · rename_i he
      split at h
      · cases h
      · rename_i hf
        split at h
        · rename_i ps' hrec
          cases h
          obtain ⟨h1, h2, h3, h4⟩ := ih (e - 1) _ ps' (nextPos_inBandRow dim band p hp) hrec
          refine ⟨by simp; omega, by simp; omega, ?_, ?_⟩
          · intro x hx
            cases hx with
            | head => simpa using hf
            | tail _ hx => exact h3 x hx
          · intro q hq
            cases hq with
            | head => exact hp
            | tail _ hq => exact h4 q hq
        · cases h

end Gama.Cov
