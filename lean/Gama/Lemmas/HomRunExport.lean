/-
  What C10's `Hom.run_spec` (Lemmas/CovHomRun.lean) proves inside but does not export, re-derived from the same
  lemmas (imported read-only): the sparse matrix `Homogenization::run` leaves is WELL FORMED and its stored rows are
  the block rows `blockRows` — hence its column PATTERN, block by block:
    * uncorrelated block (`width = 0`): the pattern of the input row;
    * correlated block: the distinct columns of the block in order of first appearance (`blockOcc`) whose
      homogenised value in that row is not exactly zero.

    * `Hom.finish_rows`  : `sm = SMat.build …`, `sm.WF`, `sm.rowEntries (rowsBefore k + j) = (blockRows (k+1))[j−1]`;
    * `blockRows_cols`   : the column lists of `blockRows`;
    * `Hom.run_export`   : the same for `out` of an accepted `Hom.run`, in terms of the input blocks `Cs`.
-/
import Gama.Lemmas.CovHomRun

namespace Gama.Cov
open Finset Packed CovMat Hom

attribute [local instance] inhabitedOfScalarH
set_option linter.unusedSectionVars false
set_option linter.unusedVariables false

section Field
variable {K : Type} [Field K] [LinearOrder K] [IsStrictOrderedRing K] [SqrtFn K]
attribute [local instance] scalarOfField

/-- columns of the rows written for block `b` are columns of the input rows of that block -/
theorem blockRows_colsIn (mat : SMat K) (bd : BlockDiag K) (b : Nat)
    (hcols : ∀ i, 1 ≤ i → i ≤ bd.dimOf b → ∀ e ∈ mat.rowEntries (offB bd (b - 1) + i), 1 ≤ e.1 ∧ e.1 ≤ mat.cols) :
    ∀ row ∈ blockRows mat bd b, ∀ e ∈ row, 1 ≤ e.1 ∧ e.1 ≤ mat.cols := by
  intro row hrow e he
  obtain ⟨j, hj, rfl⟩ := List.getElem_of_mem hrow
  rw [blockRows_length] at hj
  have hget : (blockRows mat bd b)[j] = (blockRows mat bd b).getD (j + 1 - 1) [] := by
    rw [Nat.add_sub_cancel, List.getD_eq_getElem?_getD, List.getElem?_eq_getElem (by rw [blockRows_length]; exact hj)]
    rfl
  rw [hget] at he
  unfold blockRows at he
  split at he
  · rw [diagBlock_getD _ _ _ _ _ (j + 1) (by omega) (by omega), List.mem_map] at he
    obtain ⟨e', he', rfl⟩ := he
    exact hcols (j + 1) (by omega) (by omega) e' he'
  · obtain ⟨_, hr⟩ := corrBlock_rows SqrtFn.sq mat bd.nonz bd.upperTable (offB bd (b - 1)) (bd.dimOf b)
      (blockOcc mat (offB bd (b - 1)) (bd.dimOf b)).length mat.cols (Array.replicate (mat.cols + 1) 0)
      (by intro c; simp [Array.getD]) (by simp) hcols rfl
    obtain ⟨_, _, _, hsub, _⟩ := hr (j + 1) (by omega) (by omega)
    have hmem : e.1 ∈ blockOcc mat (offB bd (b - 1)) (bd.dimOf b) :=
      hsub.subset (List.mem_map.2 ⟨e, he, rfl⟩)
    rw [blockOcc_eq, mem_occOf] at hmem
    obtain ⟨q, hq, hqc⟩ := hmem
    obtain ⟨q1, q2, q3⟩ := (mem_tagged _ _ _ _).1 hq
    rw [← hqc]
    exact hcols q.1 q1 q2 q.2 q3

/-- **the sparse matrix `Hom.finish` builds**: well formed, and its stored rows are the block rows -/
theorem Hom.finish_rows (mat : SMat K) (bd : BlockDiag K) (rhs : Array K) (Fs : List (CovMat K))
    (hH : bd.Holds Fs []) (hmat : mat.WF) (hrows : mat.rows = (Fs.map (·.dim)).sum) :
    (Hom.finish mat bd rhs).sm.WF ∧
    ∀ k (hk : k < Fs.length) j, 1 ≤ j → j ≤ (Fs[k]'hk).dim →
      (Hom.finish mat bd rhs).sm.rowEntries (rowsBefore Fs k + j) = (blockRows mat bd (k + 1)).getD (j - 1) [] := by
  have hblocks : bd.blocks = Fs.length := hH.blocks
  have hoff : ∀ n, n ≤ Fs.length → offB bd n = rowsBefore Fs n := offB_eq_rowsBefore hH
  have hofftot : offB bd bd.blocks = mat.rows := by
    rw [hblocks, hoff _ (Nat.le_refl _), rowsBefore_length, hrows]
  obtain ⟨_, c2, _, c4⟩ := cntSt_spec mat bd bd.blocks (Nat.le_refl _)
  have hasm := asmSt_spec mat bd (cntSt mat bd bd.blocks).2.2
    (by
      intro b h1 h2 hw
      rw [c4 b h1 h2 hw]
      exact countBlock_snd _ _ _ _ hw)
    (by rw [hofftot]; exact mat_cols_of_WF mat hmat) bd.blocks (Nat.le_refl _)
  obtain ⟨hlen, hlook⟩ := flatMap_range'_getD (blockRows mat bd) bd.dimOf (blockRows_length mat bd) [] bd.blocks
  have hcap := flatMap_range'_flatten_le (blockRows mat bd) (capOf mat bd) bd.blocks
    (fun b _ _ => blockRows_cap mat bd b)
  have hlen' : ((List.range' 1 bd.blocks).flatMap (blockRows mat bd)).length = mat.rows := by
    rw [hlen]; exact hofftot
  obtain ⟨_, _, _, _, b5, b6, b7, _⟩ := SMat.build_entries (cntSt mat bd bd.blocks).2.1 mat.rows mat.cols
    ((List.range' 1 bd.blocks).flatMap (blockRows mat bd)) (by rw [hlen']) (by rw [c2]; exact hcap)
  have hsm : (Hom.finish mat bd rhs).sm = SMat.build (cntSt mat bd bd.blocks).2.1 mat.rows mat.cols
      ((List.range' 1 bd.blocks).flatMap (blockRows mat bd)) := by
    show SMat.build _ _ _ (asmSt mat bd (cntSt mat bd bd.blocks).2.2 bd.blocks).2.1 = _
    rw [hasm]
  have hbnd : ∀ b, 1 ≤ b → b ≤ bd.blocks → offB bd (b - 1) + bd.dimOf b ≤ mat.rows := by
    intro b h1 h2
    have hm : offB bd b ≤ offB bd bd.blocks := offB_mono bd bd.blocks h2
    have hs := offB_succ bd (b - 1)
    rw [show b - 1 + 1 = b by omega] at hs
    rw [← hofftot, ← hs]
    exact hm
  constructor
  · rw [hsm]
    refine SMat.build_WF _ _ _ _ hlen' (by rw [c2]; exact hcap) ?_
    intro row hrow e he
    rw [List.mem_flatMap] at hrow
    obtain ⟨b, hb, hrow⟩ := hrow
    rw [List.mem_range'_1] at hb
    refine blockRows_colsIn mat bd b ?_ row hrow e he
    intro i i1 i2
    have := hbnd b hb.1 (by omega)
    exact mat_cols_of_WF mat hmat _ (by omega) (by omega)
  · intro k hk j j1 j2
    obtain ⟨t1, _, _⟩ := hH.tables k hk
    rw [Nat.add_comm 1 k] at t1
    rw [hsm, b7 _ (by omega) (by
        rw [hlen', ← hofftot]
        have := hbnd (k + 1) (by omega) (by omega)
        rw [show k + 1 - 1 = k by omega, hoff k (by omega), t1] at this
        rw [hofftot]; omega),
      ← hoff k (by omega), show offB bd k + j - 1 = offB bd k + (j - 1) by omega]
    have := hlook (k + 1) (by omega) (by omega) (j - 1) (by rw [t1]; omega)
    rw [show k + 1 - 1 = k by omega] at this
    exact this

/-- the column lists of the rows written for a block that holds the factor `F` at offset `off` -/
theorem blockRows_cols (mat : SMat K) (bd : BlockDiag K) (b off dim band : Nat)
    (hoff : offB bd (b - 1) = off) (hdim : bd.dimOf b = dim) (hband : bd.widthOf b = band)
    (hcols : ∀ i, 1 ≤ i → i ≤ dim → ∀ e ∈ mat.rowEntries (off + i), 1 ≤ e.1 ∧ e.1 ≤ mat.cols)
    (j : Nat) (j1 : 1 ≤ j) (j2 : j ≤ dim) :
    (band = 0 → ((blockRows mat bd b).getD (j - 1) []).map (fun e => e.1) =
      (mat.rowEntries (off + j)).map (fun e => e.1)) ∧
    (band ≠ 0 → ((blockRows mat bd b).getD (j - 1) []).map (fun e => e.1) =
      (blockOcc mat off dim).filter
        (fun c => !Scalar.beq (denseRow ((blockRows mat bd b).getD (j - 1) []) c) 0)) := by
  unfold blockRows
  rw [hoff, hdim, hband]
  constructor
  · intro h0
    rw [if_pos h0, diagBlock_getD _ _ _ _ _ j j1 j2, List.map_map]
    rfl
  · intro h0
    rw [if_neg h0]
    obtain ⟨_, hr⟩ := corrBlock_rows SqrtFn.sq mat bd.nonz bd.upperTable off dim
      (blockOcc mat off dim).length mat.cols (Array.replicate (mat.cols + 1) 0)
      (by intro c; simp [Array.getD]) (by simp) hcols rfl
    obtain ⟨r1, r2, _⟩ := hr j j1 j2
    rw [r1, cols_filterMap_keepNZ]
    apply List.filter_congr
    intro c hc
    rw [← r1, r2 c, if_pos hc]

/-- **`Hom.run`, exported**: the sparse matrix of an accepted run is well formed and has, block by block, the
    pattern described above (`Cs` = the input blocks, `rowsBefore Cs k` rows precede block `k`) -/
theorem Hom.run_export
    (hsq : ∀ x : K, 0 < x → SqrtFn.sq x * SqrtFn.sq x = x ∧ 0 < SqrtFn.sq x)
    (tol : K) (htol : 0 < tol) (mat : SMat K) (cov : BlockDiag K) (rhs : Array K)
    (Cs : List (CovMat K)) (tail : List K)
    (hcov : cov.Built Cs tail) (hwf : ∀ C ∈ Cs, C.WF)
    (hmat : mat.WF) (hrows : mat.rows = (Cs.map (·.dim)).sum)
    (out : Hom.Out K) (hout : Hom.run tol mat cov rhs = .ok out) :
    out.sm.WF ∧
    ∀ k (hk : k < Cs.length) j, 1 ≤ j → j ≤ (Cs[k]'hk).dim →
      ((Cs[k]'hk).band = 0 → (out.sm.rowEntries (rowsBefore Cs k + j)).map (fun e => e.1) =
        (mat.rowEntries (rowsBefore Cs k + j)).map (fun e => e.1)) ∧
      ((Cs[k]'hk).band ≠ 0 → (out.sm.rowEntries (rowsBefore Cs k + j)).map (fun e => e.1) =
        (blockOcc mat (rowsBefore Cs k) (Cs[k]'hk).dim).filter
          (fun c => !Scalar.beq (denseRow (out.sm.rowEntries (rowsBefore Cs k + j)) c) 0)) := by
  have hB := BlockDiag.built_replicate (Zero.zero : K) hcov hwf
  rw [Hom.run_eq] at hout
  by_cases hret : ((cov.replicate 0).cholDec tol).1 = 0
  swap
  · rw [if_pos hret] at hout; cases hout
  rw [if_neg (not_not.2 hret)] at hout
  have hout' := (Except.ok.inj hout).symm
  subst hout'
  obtain ⟨Fs, hF, hlen, hall⟩ := bd_choldec_blockwise hsq tol htol (cov.replicate 0) Cs [] hB.holds hwf
  have hdim : ∀ k (hk : k < Cs.length) (hk' : k < Fs.length), (Fs[k]'hk').dim = (Cs[k]'hk).dim :=
    fun k hk hk' => ((hall k hk hk').1 (Or.inl hret)).2.2.1
  have hband : ∀ k (hk : k < Cs.length) (hk' : k < Fs.length), (Fs[k]'hk').band = (Cs[k]'hk).band :=
    fun k hk hk' => ((hall k hk hk').1 (Or.inl hret)).2.2.2.1
  have hrb := rowsBefore_congr hlen hdim
  have hsum : (Cs.map (·.dim)).sum = (Fs.map (·.dim)).sum := by
    have := hrb Cs.length (Nat.le_refl _)
    rw [rowsBefore_length Cs] at this
    rw [this, ← hlen, rowsBefore_length]
  obtain ⟨f1, f2⟩ := Hom.finish_rows mat ((cov.replicate 0).cholDec tol).2 rhs Fs hF hmat
    (by rw [← hsum]; exact hrows)
  refine ⟨f1, ?_⟩
  intro k hk j j1 j2
  have hk' : k < Fs.length := by omega
  have hoff := offB_eq_rowsBefore hF k (by omega)
  obtain ⟨t1, t2, _⟩ := hF.tables k hk'
  rw [Nat.add_comm 1 k] at t1 t2
  have hbound : rowsBefore Cs k + (Cs[k]'hk).dim ≤ mat.rows := by
    rw [← rowsBefore_succ hk, hrows, ← rowsBefore_length]
    exact rowsBefore_mono _ (by omega) (Nat.le_refl _)
  rw [hrb k (by omega), f2 k hk' j j1 (by rw [hdim k hk hk']; exact j2), ← hrb k (by omega)]
  exact blockRows_cols mat _ (k + 1) (rowsBefore Cs k) (Cs[k]'hk).dim (Cs[k]'hk).band
    (by rw [show k + 1 - 1 = k by omega, hoff, hrb k (by omega)]) (by rw [t1, hdim k hk hk'])
    (by rw [t2, hband k hk hk'])
    (fun i i1 i2 => mat_cols_of_WF mat hmat _ (by omega) (by omega)) j j1 j2

end Field
end Gama.Cov
