/-
  Generic facts about the loop primitives of the regenerated matvec kernels (Model/KernelLoops.lean):
  a counted accumulation loop `s = 0; for …: s += g(pointers); pointers += strides` IS `sumLoop` over the
  closed-form pointer positions (`forE_acc`, `walk_*`), a loop of sequential stores `*c++ = g` into a fresh
  result object IS `tabulate` (`forE_fill`, `fill_fresh`).  With these the regenerated kernels are rewritten,
  loop by loop, into the closed-form hand models of Model/MatVec.lean (Lemmas/MatVecKernels.lean).
-/
import Gama.Model.KernelLoops
import Gama.Lemmas.MatVecAlg
namespace Gama.MatVec
variable {K : Type}

/-- the pointer state after `k` passes: `h (lo+k-1) (… (h lo t))` -/
def walk {τ : Type} (h : Nat → τ → τ) (lo : Nat) : Nat → τ → τ
  | 0, t => t
  | k+1, t => h (lo + k) (walk h lo k t)

theorem forE_acc [Add K] [Zero K] {τ : Type} (lo n : Nat) (t0 : τ) (g : Nat → τ → Except Err K) (h : Nat → τ → τ) :
    forE lo n ((0 : K), t0) (fun k st => (g k st.2) >>= fun x => pure (st.1 + x, h k st.2))
      = (sumLoop n (fun k => g (lo + k) (walk h lo k t0))) >>= fun s => pure (s, walk h lo n t0) := by
  induction n with
  | zero => rfl
  | succ n ih =>
    simp only [forE, ih, sumLoop, walk]
    cases sumLoop n (fun k => g (lo + k) (walk h lo k t0)) with
    | error e => rfl
    | ok s =>
      simp only [bind, Except.bind, pure, Except.pure]
      cases g (lo + n) (walk h lo n t0) <;> rfl

theorem walk_add1 (d1 : Nat) (lo k p : Nat) :
    walk (fun _ (t : Nat) => t + d1) lo k p = p + k * d1 := by
  induction k with
  | zero => simp [walk]
  | succ k ih => simp [walk, ih, Nat.succ_mul, Nat.add_assoc]

theorem walk_add2 (d1 d2 : Nat) (lo k p q : Nat) :
    walk (fun _ (t : Nat × Nat) => (t.1 + d1, t.2 + d2)) lo k (p, q) = (p + k * d1, q + k * d2) := by
  induction k with
  | zero => simp [walk]
  | succ k ih => simp [walk, ih, Nat.succ_mul, Nat.add_assoc]

theorem walk_id {τ : Type} (lo k : Nat) (t : τ) : walk (fun _ (t : τ) => t) lo k t = t := by
  induction k with
  | zero => rfl
  | succ k ih => simp [walk, ih]

theorem tabulate_size (n : Nat) (f : Nat → Except Err K) (a : Array K) (h : tabulate n f = .ok a) : a.size = n := by
  induction n generalizing a with
  | zero => simp [tabulate] at h; subst h; rfl
  | succ n ih =>
    simp only [tabulate] at h
    cases hT : tabulate n f with
    | error e => simp [hT] at h
    | ok a' =>
      cases hf : f n with
      | error e => simp [hT, hf] at h
      | ok x =>
        simp [hT, hf] at h
        subst h
        simp [ih a' hT]

theorem set_fresh [Zero K] (pre a : Array K) (m : Nat) (x : K) :
    (pre ++ a ++ Array.replicate (m + 1) (0 : K)).setIfInBounds (pre.size + a.size) x
      = pre ++ a.push x ++ Array.replicate m (0 : K) := by
  apply Array.ext'
  simp [List.replicate_succ]

/-- sequential stores `*c++ = g i` into the unwritten part of a fresh buffer -/
theorem forE_fill [Zero K] {υ : Type} (lo r n : Nat) (hn : n ≤ r) (done : Array K) (u0 : υ)
    (g : Nat → υ → Except Err K) (h : Nat → υ → υ) :
    forE lo n (done ++ Array.replicate r (0 : K), done.size, u0)
        (fun i st => g i st.2.2 >>= fun x => wr st.1 st.2.1 x >>= fun t' => pure (t', st.2.1 + 1, h i st.2.2))
      = (tabulate n (fun k => g (lo + k) (walk h lo k u0))) >>= fun a =>
          pure (done ++ a ++ Array.replicate (r - n) (0 : K), done.size + n, walk h lo n u0) := by
  induction n with
  | zero => simp [forE, tabulate, walk, bind, Except.bind, pure, Except.pure]
  | succ n ih =>
    simp only [forE, ih (by omega), tabulate, walk]
    cases hT : tabulate n (fun k => g (lo + k) (walk h lo k u0)) with
    | error e => rfl
    | ok a =>
      simp only [bind, Except.bind, pure, Except.pure]
      cases g (lo + n) (walk h lo n u0) with
      | error e => rfl
      | ok x =>
        have hsz : a.size = n := tabulate_size _ _ _ hT
        obtain ⟨m, hm⟩ : ∃ m, r - n = m + 1 := ⟨r - n - 1, by omega⟩
        have hm' : r - (n + 1) = m := by omega
        have hlt : done.size + n < (done ++ a ++ Array.replicate (m + 1) (0 : K)).size := by
          simp [hsz]
        rw [hm, hm']
        simp only [wr, hlt, if_true]
        rw [← hsz, set_fresh, hsz]
        rfl

/-- the same for a whole fresh result object: `Vec t(n); for …: *ti++ = g i` is `tabulate n g` -/
theorem fill_fresh [Zero K] {υ : Type} (lo n : Nat) (u0 : υ)
    (g : Nat → υ → Except Err K) (h : Nat → υ → υ) :
    forE lo n ((mkBuf n : Array K), 0, u0)
        (fun i st => g i st.2.2 >>= fun x => wr st.1 st.2.1 x >>= fun t' => pure (t', st.2.1 + 1, h i st.2.2))
      = (tabulate n (fun k => g (lo + k) (walk h lo k u0))) >>= fun a => pure (a, n, walk h lo n u0) := by
  have := forE_fill (K := K) lo n n (Nat.le_refl n) #[] u0 g h
  simp only [Array.empty_append, Array.size_empty, Nat.sub_self, Nat.zero_add] at this
  rw [mkBuf, this]
  cases tabulate n (fun k => g (lo + k) (walk h lo k u0)) with
  | error e => rfl
  | ok a => simp [bind, Except.bind, pure, Except.pure]

end Gama.MatVec
