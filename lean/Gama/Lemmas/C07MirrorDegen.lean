/-
  C07 — part 3 of the route to `DegenInv` (round 12), façade cone only (scalar structure `scalarOfField`):

    * `rightInv`        the block lower factor `L̃` that `prepareProjectEquations()` uses has a right inverse (forward
                        substitution solves `L̃ y = x` for EVERY `x`: `seg_solve`) — no `C P = 1` hypothesis needed
    * `gram_mirror`     pure matrices: `L Ad = A`, `L' Ad' = D_s A D_t`, `L' L'ᵀ = D_s (L Lᵀ) D_s`, both factors right
                        invertible ⇒ `(Ad'ᵀ Ad')(x,y) = t_x (Adᵀ Ad)(x,y) t_y`
    * `colSums_mmk`     the three foldl sums of `SingularCoords.colSums` over a dense matrix `mmk m n f` as finite sums
    * `degenD_sign`     `D = 1 − |ab|/√(aa·bb)` does not see the sign of `ab`
    * `degenTest_mirror` the verdict `D < 1e-12` is the same for the two homogenised matrices
-/
import Gama.Lemmas.Ls.NetFacade
import Gama.Model.SingularCoords
namespace Gama.C07Degen
open Gama Gama.Ls Gama.Ls.Net Gama.Ls.AdjM Gama.Ls.Env Gama.Ls.Dn Gama.LS Gama.SingularCoords Matrix Finset

variable {K : Type} [Field K] [LinearOrder K] [IsStrictOrderedRing K] [SqrtFn K]
attribute [local instance 2000] scalarOfField

/-- **`L̃` has a right inverse** -/
theorem rightInv (hsq : IsSqrt (SqrtFn.sq : K → K)) (np : NetProblem K) (hdim : (dimsN np).sum = np.m)
    (Us : List (Cov.CovMat K)) (hF : factors (cofs np) = .ok Us) :
    ∃ R : Matrix (Fin (toProblem np).m) (Fin (toProblem np).m) K, Lgen np Us * R = 1 := by
  let yOf : (Nat → K) → Nat → K := fun x s =>
    Dn.vget (Cov.forwardSubst (Us.getD (AdjM.locate (dimsN np) s).1 ⟨0, 0, #[]⟩)
      (vmk ((dimsN np).getD (AdjM.locate (dimsN np) s).1 0) fun k => x ((AdjM.locate (dimsN np) s).2 + k)))
      (s - (AdjM.locate (dimsN np) s).2)
  refine ⟨Matrix.of fun i j => yOf (fun s => if s = j.val then 1 else 0) i.val, ?_⟩
  funext s j
  rw [Matrix.mul_apply]
  have := seg_solve hsq np hdim Us hF Cov.forwardSubst
    (fun C U hC hU col hcol u hu => (block_facts hsq C hC U hU).2.2.2 col hcol u hu)
    (fun s => if s = j.val then 1 else 0) (yOf (fun s => if s = j.val then 1 else 0)) (fun s _ => rfl) s
  rw [Matrix.one_apply]
  have e : (if s = j then (1 : K) else 0) = if s.val = j.val then 1 else 0 := by
    by_cases h : s = j
    · rw [if_pos h, if_pos (by rw [h])]
    · rw [if_neg h, if_neg (fun hv => h (Fin.ext hv))]
  rw [e]
  exact this

/-- pure matrices: the Gram matrix of the homogenised mirrored design matrix -/
theorem gram_mirror {m n : Type} [Fintype m] [Fintype n] [DecidableEq m] [DecidableEq n]
    (L R L' R' : Matrix m m K) (Ad A Ad' : Matrix m n K) (s : m → K) (t : n → K) (hs : ∀ i, s i * s i = 1)
    (hLA : L * Ad = A) (hLR : L * R = 1) (hLA' : L' * Ad' = diagonal s * A * diagonal t) (hLR' : L' * R' = 1)
    (hC' : L' * L'ᵀ = diagonal s * (L * Lᵀ) * diagonal s) (x y : n) :
    (Ad'ᵀ * Ad') x y = t x * (Adᵀ * Ad) x y * t y := by
  have hRL : R * L = 1 := mul_eq_one_comm.1 hLR
  have hRL' : R' * L' = 1 := mul_eq_one_comm.1 hLR'
  have hAd : Ad = R * A := by rw [← hLA, ← Matrix.mul_assoc, hRL, Matrix.one_mul]
  have hAd' : Ad' = R' * (diagonal s * A * diagonal t) := by rw [← hLA', ← Matrix.mul_assoc, hRL', Matrix.one_mul]
  have hss : diagonal s * diagonal s = (1 : Matrix m m K) := by
    rw [diagonal_mul_diagonal]; simp [hs]
  -- P = RᵀR is the inverse of C = L Lᵀ
  have hCP : (L * Lᵀ) * (Rᵀ * R) = 1 := by
    calc (L * Lᵀ) * (Rᵀ * R) = L * ((R * L)ᵀ) * R := by rw [transpose_mul]; simp only [Matrix.mul_assoc]
      _ = 1 := by rw [hRL, transpose_one, Matrix.mul_one, hLR]
  have hCP' : (L' * L'ᵀ) * (R'ᵀ * R') = 1 := by
    calc (L' * L'ᵀ) * (R'ᵀ * R') = L' * ((R' * L')ᵀ) * R' := by rw [transpose_mul]; simp only [Matrix.mul_assoc]
      _ = 1 := by rw [hRL', transpose_one, Matrix.mul_one, hLR']
  have hPC' : (R'ᵀ * R') * (L' * L'ᵀ) = 1 := mul_eq_one_comm.1 hCP'
  -- the conjugate of P is an inverse of C' too, hence equal to P'
  have hconj : (L' * L'ᵀ) * (diagonal s * (Rᵀ * R) * diagonal s) = 1 := by
    rw [hC']
    calc diagonal s * (L * Lᵀ) * diagonal s * (diagonal s * (Rᵀ * R) * diagonal s)
        = diagonal s * ((L * Lᵀ) * ((diagonal s * diagonal s) * (Rᵀ * R))) * diagonal s := by
          simp only [Matrix.mul_assoc]
      _ = 1 := by rw [hss, Matrix.one_mul, hCP, Matrix.mul_one, hss]
  have hP' : R'ᵀ * R' = diagonal s * (Rᵀ * R) * diagonal s := by
    calc R'ᵀ * R' = (R'ᵀ * R') * ((L' * L'ᵀ) * (diagonal s * (Rᵀ * R) * diagonal s)) := by rw [hconj, Matrix.mul_one]
      _ = ((R'ᵀ * R') * (L' * L'ᵀ)) * (diagonal s * (Rᵀ * R) * diagonal s) := by simp only [Matrix.mul_assoc]
      _ = diagonal s * (Rᵀ * R) * diagonal s := by rw [hPC', Matrix.one_mul]
  have e1 : Adᵀ * Ad = Aᵀ * (Rᵀ * R) * A := by rw [hAd, transpose_mul]; simp only [Matrix.mul_assoc]
  have e2 : Ad'ᵀ * Ad' = (diagonal s * A * diagonal t)ᵀ * (diagonal s * (Rᵀ * R) * diagonal s) *
      (diagonal s * A * diagonal t) := by
    rw [hAd', transpose_mul, ← hP']; simp only [Matrix.mul_assoc]
  have e3 : (diagonal s * A * diagonal t)ᵀ * (diagonal s * (Rᵀ * R) * diagonal s) * (diagonal s * A * diagonal t)
      = diagonal t * (Aᵀ * (Rᵀ * R) * A) * diagonal t := by
    rw [transpose_mul, transpose_mul, diagonal_transpose, diagonal_transpose]
    calc diagonal t * (Aᵀ * diagonal s) * (diagonal s * (Rᵀ * R) * diagonal s) * (diagonal s * A * diagonal t)
        = diagonal t * (Aᵀ * ((diagonal s * diagonal s) * (Rᵀ * R) * (diagonal s * diagonal s)) * A) * diagonal t := by
          simp only [Matrix.mul_assoc]
      _ = diagonal t * (Aᵀ * (Rᵀ * R) * A) * diagonal t := by rw [hss, Matrix.one_mul, Matrix.mul_one]
  rw [e2, e3, e1, mul_diagonal, diagonal_mul]

/-! ### the sums of `singular_coords` -/

/-- entry `(i, c)` of the dense matrix `mmk m n f` as `at1` reads it (0 outside) -/
def ent (n : Nat) (f : Nat → Nat → K) (i c : Nat) : K := if c < n then f i c else 0

theorem foldl_sums (a b : Array K → K) : ∀ (l : List (Array K)) (s : K × K × K),
    l.foldl (fun (s : K × K × K) row => (s.1 + a row * a row, s.2.1 + a row * b row, s.2.2 + b row * b row)) s
      = (s.1 + (l.map fun r => a r * a r).sum, s.2.1 + (l.map fun r => a r * b r).sum,
         s.2.2 + (l.map fun r => b r * b r).sum)
  | [], s => by simp
  | r :: l, s => by
    rw [List.foldl_cons, foldl_sums a b l]
    simp only [List.map_cons, List.sum_cons]
    ext <;> simp only [] <;> ring

theorem at1_ofFn (n : Nat) (g : Nat → K) (c : Nat) :
    at1 (Array.ofFn (n := n) fun j => g j.val) c = if c - 1 < n then g (c - 1) else 0 := by
  unfold at1
  by_cases h : c - 1 < n
  · rw [if_pos h]; simp [Array.getD, h]
  · rw [if_neg h]; simp [Array.getD, h]

theorem colSums_mmk (m n : Nat) (f : Nat → Nat → K) (ix iy : Nat) :
    colSums (mmk m n f) ix iy =
      (∑ i : Fin m, ent n f i.val (ix - 1) * ent n f i.val (ix - 1),
       ∑ i : Fin m, ent n f i.val (ix - 1) * ent n f i.val (iy - 1),
       ∑ i : Fin m, ent n f i.val (iy - 1) * ent n f i.val (iy - 1)) := by
  unfold colSums mmk
  rw [← Array.foldl_toList, Array.toList_ofFn]
  have := foldl_sums (fun row => at1 row ix) (fun row => at1 row iy)
    (List.ofFn fun i : Fin m => Array.ofFn (n := n) fun j => f i.val j.val) (0, 0, 0)
  refine Eq.trans this ?_
  simp only [zero_add, List.map_ofFn, List.sum_ofFn, Function.comp, at1_ofFn n (f _), ent]

/-- `D` does not see the sign of `ab` -/
theorem degenD_sign (aa ab bb c : K) (hc : c = 1 ∨ c = -1) : degenD aa (c * ab) bb = degenD aa ab bb := by
  rcases hc with rfl | rfl
  · rw [one_mul]
  · unfold degenD
    have : (Scalar.abs (-1 * ab) : K) = Scalar.abs ab := by
      show (if -1 * ab < 0 then -(-1 * ab) else -1 * ab) = if ab < 0 then -ab else ab
      rcases lt_trichotomy ab 0 with h | h | h
      · rw [if_neg (by linarith), if_pos h]; ring
      · subst h; simp
      · rw [if_pos (by linarith), if_neg (by linarith)]; ring
    rw [this]

/-- **the verdict of the numeric test is the same** for two dense matrices whose Gram matrices differ by signs
    `t_x t_y` (`t = ±1`) -/
theorem degenTest_mirror (m n : Nat) (f f' : Nat → Nat → K) (t : Nat → K) (ht : ∀ j, t j = 1 ∨ t j = -1)
    (hG : ∀ x y, x < n → y < n →
      ∑ i : Fin m, f' i.val x * f' i.val y = t x * (∑ i : Fin m, f i.val x * f i.val y) * t y)
    (ix iy : Nat) : degenTest (mmk m n f') ix iy = degenTest (mmk m n f) ix iy := by
  have hE : ∀ x y, ∑ i : Fin m, ent n f' i.val x * ent n f' i.val y
      = t x * (∑ i : Fin m, ent n f i.val x * ent n f i.val y) * t y := by
    intro x y
    unfold ent
    by_cases hx : x < n
    · by_cases hy : y < n
      · simp only [if_pos hx, if_pos hy]; exact hG x y hx hy
      · simp only [if_neg hy, mul_zero, Finset.sum_const_zero, zero_mul]
    · simp only [if_neg hx, zero_mul, Finset.sum_const_zero, mul_zero]
  have hsq : ∀ x, t x * t x = 1 := fun x => by rcases ht x with h | h <;> rw [h] <;> ring
  unfold degenTest
  rw [colSums_mmk, colSums_mmk]
  simp only []
  rw [hE (ix - 1) (ix - 1), hE (ix - 1) (iy - 1), hE (iy - 1) (iy - 1)]
  have e1 : ∀ x (g : K), t x * g * t x = g := fun x g => by
    calc t x * g * t x = (t x * t x) * g := by ring
      _ = g := by rw [hsq, one_mul]
  rw [e1, e1]
  have e2 : ∀ g : K, t (ix - 1) * g * t (iy - 1) = (t (ix - 1) * t (iy - 1)) * g := fun g => by ring
  rw [e2, degenD_sign]
  rcases ht (ix - 1) with h | h <;> rcases ht (iy - 1) with h' | h' <;> rw [h, h'] <;> norm_num

end Gama.C07Degen

namespace Gama.C07Degen
open Gama Gama.Ls Gama.Ls.Net Gama.Ls.AdjM Gama.Ls.Env Gama.Ls.Dn Gama.LS Gama.SingularCoords Matrix Finset

variable {K : Type} [Field K] [LinearOrder K] [IsStrictOrderedRing K] [SqrtFn K]
attribute [local instance 2000] scalarOfField

/-- **the numeric half of `singular_coords` on two assembled problems related by the mirror.**  `np2` is `np` with other
    rows, right-hand sides and clusters (same `m`, `n`, `m0`); both are homogenised by `prepareProjectEquations()`;
    the dense design matrices satisfy `A₂ = D_s A D_t` and the cofactor matrices `C₂ = D_s C D_s` entry by entry
    (`s, t = ±1`).  Then `D < 1e-12` has the same truth value on any two columns of the two homogenised matrices. -/
theorem degenTest_prepare (hsq : IsSqrt (SqrtFn.sq : K → K)) (np : NetProblem K)
    (r2 : Array (Array (Nat × K))) (b2 : Array K) (c2 : List (Cluster K))
    (hdim : (dimsN np).sum = np.m)
    (hdim2 : (dimsN { np with rows := r2, rhs := b2, clusters := c2 }).sum = np.m)
    (h h2 : Hom K) (hp : prepare np = .ok h) (hp2 : prepare { np with rows := r2, rhs := b2, clusters := c2 } = .ok h2)
    (s : Fin (toProblem np).m → K) (t : Nat → K) (hs : ∀ i, s i = 1 ∨ s i = -1) (ht : ∀ j, t j = 1 ∨ t j = -1)
    (hA : ∀ (i : Fin (toProblem np).m) (j : Fin (toProblem np).n),
      Dn.mget (denseA { np with rows := r2, rhs := b2, clusters := c2 }) i.val j.val
        = s i * Dn.mget (denseA np) i.val j.val * t j.val)
    (hC : ∀ i j : Fin (toProblem np).m,
      (toProblem { np with rows := r2, rhs := b2, clusters := c2 }).C i j = s i * (toProblem np).C i j * s j)
    (ix iy : Nat) : degenTest h2.Ad ix iy = degenTest h.Ad ix iy := by
  set np2 : NetProblem K := { np with rows := r2, rhs := b2, clusters := c2 } with hnp2
  obtain ⟨hF, hAd, _⟩ := prepare_ok np h hp
  obtain ⟨hF2, hAd2, _⟩ := prepare_ok np2 h2 hp2
  have hdim' : (dimsOf (toProblem np)).sum = (toProblem np).m := by rw [dimsOf_toProblem]; exact hdim
  have hdim2' : (dimsOf (toProblem np2)).sum = (toProblem np2).m := by rw [dimsOf_toProblem]; exact hdim2
  obtain ⟨R, hR⟩ := rightInv hsq np hdim h.Us hF
  obtain ⟨R2, hR2⟩ := rightInv hsq np2 hdim2 h2.Us hF2
  have hLL : Lgen np h.Us * (Lgen np h.Us)ᵀ = (toProblem np).C := by
    rw [← Cadj_eq_C (toProblem np) hdim']; exact Lgen_mul_transpose hsq np hdim h.Us hF
  have hLL2 : Lgen np2 h2.Us * (Lgen np2 h2.Us)ᵀ = (toProblem np2).C := by
    rw [← Cadj_eq_C (toProblem np2) hdim2']; exact Lgen_mul_transpose hsq np2 hdim2 h2.Us hF2
  have hLA := (prepare_solve hsq np hdim h hp).1
  have hLA2 := (prepare_solve hsq np2 hdim2 h2 hp2).1
  have hss : ∀ i, s i * s i = 1 := fun i => by rcases hs i with e | e <;> rw [e] <;> ring
  let L2 : Matrix (Fin (toProblem np).m) (Fin (toProblem np).m) K := Lgen np2 h2.Us
  let R2' : Matrix (Fin (toProblem np).m) (Fin (toProblem np).m) K := R2
  let Ad2 : Matrix (Fin (toProblem np).m) (Fin (toProblem np).n) K :=
    toMatrix (toProblem np2).m (toProblem np2).n h2.Ad
  let A2 : Matrix (Fin (toProblem np).m) (Fin (toProblem np).n) K :=
    toMatrix (toProblem np2).m (toProblem np2).n (denseA np2)
  let C2 : Matrix (Fin (toProblem np).m) (Fin (toProblem np).m) K := (toProblem np2).C
  have hLA2' : L2 * Ad2 = A2 := hLA2
  have hR2' : L2 * R2' = 1 := hR2
  have hLL2' : L2 * L2ᵀ = C2 := hLL2
  have hA' : A2 = diagonal s * toMatrix (toProblem np).m (toProblem np).n (denseA np) *
      diagonal (fun j : Fin (toProblem np).n => t j.val) := by
    funext i j
    rw [mul_diagonal, diagonal_mul]
    exact hA i j
  have hC' : L2 * L2ᵀ = diagonal s * (Lgen np h.Us * (Lgen np h.Us)ᵀ) * diagonal s := by
    rw [hLL2', hLL]
    funext i j
    rw [mul_diagonal, diagonal_mul]
    exact hC i j
  rw [hA'] at hLA2'
  have hG := gram_mirror (Lgen np h.Us) R L2 R2'
    (toMatrix (toProblem np).m (toProblem np).n h.Ad) (toMatrix (toProblem np).m (toProblem np).n (denseA np))
    Ad2 s (fun j : Fin (toProblem np).n => t j.val) hss hLA hR hLA2' hR2' hC'
  rw [hAd, hAd2]
  refine degenTest_mirror np.m np.n _ _ t ht ?_ ix iy
  intro x y hx hy
  have key : ∀ (M : DMat K) (g : Nat → Nat → K), M = mmk np.m np.n g →
      ((toMatrix (toProblem np).m (toProblem np).n M)ᵀ * toMatrix (toProblem np).m (toProblem np).n M) ⟨x, hx⟩ ⟨y, hy⟩
        = ∑ i : Fin np.m, g i.val x * g i.val y := by
    intro M g hM
    subst hM
    rw [Matrix.mul_apply]
    refine Finset.sum_congr rfl fun i _ => ?_
    show Dn.mget (mmk np.m np.n g) i.val x * Dn.mget (mmk np.m np.n g) i.val y = _
    rw [mget_mmk, mget_mmk, if_pos ⟨i.isLt, hx⟩, if_pos ⟨i.isLt, hy⟩]
  have h1 := key h2.Ad _ hAd2
  have h0 := key h.Ad _ hAd
  have hg := hG ⟨x, hx⟩ ⟨y, hy⟩
  rw [h0] at hg
  exact h1.symm.trans hg

end Gama.C07Degen
