/-
  Least-squares specification layer (DESIGN §5.1), umbrella import.
    Defs       vocabulary (Phi, NormalEq, normS, SOrth, Resolves, g-inverse predicates)
    Basic      LS1, LS2, LS3, LS7
    Solution   IsLSSolution and its corollaries
    Transform  LS4 whitening, LS5 permutations, LS6 shift, LS9 scaling
    GInverse   LS8 (g-inverses, projector, hat matrix)
    Rank       LS10, trace = rank
    Bridge     Problem / DMat / Array / Reg  →  Mathlib objects
    Datum2D    kernel of a 2D distance network contains the rigid motions (C08, geometric reading)
-/
import Gama.Lemmas.LS.Defs
import Gama.Lemmas.LS.Basic
import Gama.Lemmas.LS.Solution
import Gama.Lemmas.LS.Transform
import Gama.Lemmas.LS.GInverse
import Gama.Lemmas.LS.Rank
import Gama.Lemmas.LS.Bridge
import Gama.Lemmas.LS.Datum2D
