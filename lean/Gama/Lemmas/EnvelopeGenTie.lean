/-
  Source tie of `Envelope::cholDec` (C16, round 7).

  `Gen/CholDecLoop.lean` is rewritten from lib/gnu_gama/adj/envelope.h on every run of the check
  (tools/gen/c16_choldec.py): the loop nest is matched against a skeleton, every bound, index expression, operator and
  test is the text of the current tree.  The hand model `Env.cholRow` / `Env.cholDec` (Model/Envelope.lean) — the
  object of the C16 factorisation theorems and what `drv_sparse` / `drv_ls` run — is EQUAL to the regenerated one.
  Core Lean only.
-/
import Gama.Model.Envelope
import Gama.Gen.CholDecLoop
namespace Gama.Env
variable {K : Type} [Scalar K]

theorem effTol_eq_gen (tol : K) : effTol tol = Gen.Chol.effTol tol := rfl

/-- one pass of the row loop: `start`, `stop`, the two solves in order, the accumulation `s += u·u·d`, the pivot
    `d − s` at index `row − 1`, the test `|d| < tol`, zeroing and `defect_++` -/
theorem cholRow_eq_gen (tol : K) (E : Env K) (row : Nat) : cholRow tol E row = Gen.Chol.cholRow tol E row := rfl

theorem cholFirstRow_eq_gen : Gen.cholFirstRow = Gen.Chol.firstRow := rfl

/-- the whole factorisation: default tolerance, `defect_ = 0`, rows `firstRow … dim_` -/
theorem cholDec_eq_gen (E : Env K) (tol : K) : cholDec E tol = Gen.Chol.cholDec E tol := rfl

end Gama.Env
