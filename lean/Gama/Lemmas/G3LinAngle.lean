/-
  C19 — the horizontal-angle coefficients of the generated g3 linearisation are the derivative of the
  horizontal angle (difference of the direction angles to the right and the left target in the station's
  n-e plane) along every displacement of the three points, each displaced in its own n-e-u frame;
  and the target part of the zenith-angle coefficients.

  The polar-angle calculus (a differentiable choice of the direction angle along a straight line, with the
  cross product over the squared distance as derivative) is C05's: `Gama.Lin.exists_polar_lift`.
-/
import Gama.Lemmas.G3LinZenith
import Gama.Lemmas.LinReal
namespace Gama
namespace G3Lin
open Neu G3Book Gama.Gen.G3Lin

/-- the frame `R_3::set_rotation(B, L)` of a point as the angular linearisations rebuild it -/
noncomputable def frameOf (p : GPt ℝ) : Rot ℝ := frame p.B p.L

def edot (a b : E3 ℝ) : ℝ := a.e1 * b.e1 + a.e2 * b.e2 + a.e3 * b.e3

/-- transposition: `(Rᵀ v) · w = v · (R w)` -/
theorem inverse_dot (R : Rot ℝ) (v w : E3 ℝ) :
    edot (@E3.inverse ℝ realScalar R v) w = edot v (@E3.rotation ℝ realScalar R w) := by
  simp only [edot, E3.inverse, E3.rotation]; ring

/-- `Rᵀ (R w) = w` for an orthonormal frame -/
theorem inverse_rotation {R : Rot ℝ} (h : Orthonormal R) (w : E3 ℝ) :
    @E3.inverse ℝ realScalar R (@E3.rotation ℝ realScalar R w) = w := by
  obtain ⟨c11, c22, c33, c12, c13, c23⟩ := h
  cases w with
  | mk w1 w2 w3 =>
    simp only [E3.inverse, E3.rotation]
    congr 1
    · linear_combination w1 * c11 + w2 * c12 + w3 * c13
    · linear_combination w1 * c12 + w2 * c22 + w3 * c23
    · linear_combination w1 * c13 + w2 * c23 + w3 * c33

/-- the displacement of a target relative to the station, seen in the station's frame, when the station moves by
    `ξf` and the target by `ξt` — each in its own n-e-u frame -/
noncomputable def relDisp (Rf Rt : Rot ℝ) (ξf ξt : E3 ℝ) : E3 ℝ :=
  @E3.inverse ℝ realScalar Rf (vsub (@E3.rotation ℝ realScalar Rt ξt) (@E3.rotation ℝ realScalar Rf ξf))

/-- linear algebra of the rotated coefficient triples: a coefficient `c` given in the station's frame, handed to the
    target as `R_tᵀ R_f c` and to the station as `−c`, contracts with the displacements to `c · relDisp` -/
theorem coef_contract {Rf : Rot ℝ} (hf : Orthonormal Rf) (Rt : Rot ℝ) (c ξf ξt : E3 ℝ) :
    edot (@E3.inverse ℝ realScalar Rt (@E3.rotation ℝ realScalar Rf c)) ξt - edot c ξf = edot c (relDisp Rf Rt ξf ξt) := by
  have h1 : edot c (relDisp Rf Rt ξf ξt) =
      edot c (@E3.inverse ℝ realScalar Rf (@E3.rotation ℝ realScalar Rt ξt)) -
        edot c (@E3.inverse ℝ realScalar Rf (@E3.rotation ℝ realScalar Rf ξf)) := by
    simp only [relDisp, vsub, edot, E3.inverse]; ring
  rw [h1, inverse_rotation hf, inverse_dot]
  simp only [edot, E3.inverse, E3.rotation]; ring

/-! ### horizontal angle -/

/-- the left / right target relative to the station in the station's frame, from the initial values
    (`Lneu`, `Rneu` of `Model::linearization(Angle*)`) -/
noncomputable def aLocal (P : Pts ℝ) (r : Role) : E3 ℝ :=
  @E3.inverse ℝ realScalar (frameOf (P .frm))
    ⟨(P r).X0 - (P .frm).X0, (P r).Y0 - (P .frm).Y0, (P r).Z0 - (P .frm).Z0⟩

/-- the coefficient triples `Lcoef`, `Rcoef` in the station's frame -/
noncomputable def aLcoef (P : Pts ℝ) : E3 ℝ :=
  let l := aLocal P .left
  let d := Real.sqrt (l.e1 * l.e1 + l.e2 * l.e2)
  ⟨Real.sin (Complex.arg ⟨l.e1, l.e2⟩) / d, -(Real.cos (Complex.arg ⟨l.e1, l.e2⟩) / d), 0⟩
noncomputable def aRcoef (P : Pts ℝ) : E3 ℝ :=
  let l := aLocal P .right
  let d := Real.sqrt (l.e1 * l.e1 + l.e2 * l.e2)
  ⟨-(Real.sin (Complex.arg ⟨l.e1, l.e2⟩) / d), Real.cos (Complex.arg ⟨l.e1, l.e2⟩) / d, 0⟩

/-- the generated angle row: nine coefficients — station `−(Rcoef + Lcoef)`, left `R_leftᵀ R_f Lcoef`,
    right `R_rightᵀ R_f Rcoef`, all times `Angular().scale()/Linear().scale()` -/
theorem angle_coeffs (P : Pts ℝ) (o : GObs ℝ) (tol : ℝ) :
    ∃ cF cL cR : E3 ℝ,
      (@angle ℝ realTrig P o tol).rows =
        [[⟨[(.frm, .freeN)], [⟨.frm, .N, cF.e1⟩]⟩, ⟨[(.frm, .freeE)], [⟨.frm, .E, cF.e2⟩]⟩,
          ⟨[(.frm, .freeU)], [⟨.frm, .U, cF.e3⟩]⟩,
          ⟨[(.left, .freeN)], [⟨.left, .N, cL.e1⟩]⟩, ⟨[(.left, .freeE)], [⟨.left, .E, cL.e2⟩]⟩,
          ⟨[(.left, .freeU)], [⟨.left, .U, cL.e3⟩]⟩,
          ⟨[(.right, .freeN)], [⟨.right, .N, cR.e1⟩]⟩, ⟨[(.right, .freeE)], [⟨.right, .E, cR.e2⟩]⟩,
          ⟨[(.right, .freeU)], [⟨.right, .U, cR.e3⟩]⟩]] ∧
      cF = @E3.smul ℝ realScalar (@E3.smul ℝ realScalar (@E3.add ℝ realScalar (aRcoef P) (aLcoef P)) (-1)) angPerLin ∧
      cL = @E3.smul ℝ realScalar (@E3.inverse ℝ realScalar (frameOf (P .left))
              (@E3.rotation ℝ realScalar (frameOf (P .frm)) (aLcoef P))) angPerLin ∧
      cR = @E3.smul ℝ realScalar (@E3.inverse ℝ realScalar (frameOf (P .right))
              (@E3.rotation ℝ realScalar (frameOf (P .frm)) (aRcoef P))) angPerLin :=
  ⟨_, _, _, rfl, rfl, rfl, rfl⟩

theorem norm_mk' (x y : ℝ) : ‖(⟨x, y⟩ : ℂ)‖ = Real.sqrt (x * x + y * y) := Gama.Lin.norm_mk x y

/-- `Lcoef · δ = −(x δ₂ − y δ₁)/(x² + y²)` : minus the rate of the direction angle to the left target -/
theorem aLcoef_dot (P : Pts ℝ) (δ : E3 ℝ)
    (h : (aLocal P .left).e1 * (aLocal P .left).e1 + (aLocal P .left).e2 * (aLocal P .left).e2 ≠ 0) :
    edot (aLcoef P) δ = -(((aLocal P .left).e1 * δ.e2 - (aLocal P .left).e2 * δ.e1) /
      ((aLocal P .left).e1 * (aLocal P .left).e1 + (aLocal P .left).e2 * (aLocal P .left).e2)) := by
  set x := (aLocal P .left).e1
  set y := (aLocal P .left).e2
  have hq : 0 < x * x + y * y := lt_of_le_of_ne (add_nonneg (mul_self_nonneg _) (mul_self_nonneg _)) (Ne.symm h)
  have hd : 0 < Real.sqrt (x * x + y * y) := Real.sqrt_pos.mpr hq
  have hd2 : Real.sqrt (x * x + y * y) * Real.sqrt (x * x + y * y) = x * x + y * y := Real.mul_self_sqrt hq.le
  have hz : (⟨x, y⟩ : ℂ) ≠ 0 := by
    intro e; have h1 := congrArg Complex.re e; have h2 := congrArg Complex.im e
    simp at h1 h2; rw [h1, h2] at hq; simp at hq
  have hs : Real.sin (Complex.arg ⟨x, y⟩) = y / Real.sqrt (x * x + y * y) := by
    rw [Complex.sin_arg, norm_mk']
  have hc : Real.cos (Complex.arg ⟨x, y⟩) = x / Real.sqrt (x * x + y * y) := by
    rw [Complex.cos_arg hz, norm_mk']
  simp only [edot, aLcoef]
  rw [hs, hc]
  generalize Real.sqrt (x * x + y * y) = d at hd hd2
  rw [← hd2]
  field_simp
  ring

theorem aRcoef_dot (P : Pts ℝ) (δ : E3 ℝ)
    (h : (aLocal P .right).e1 * (aLocal P .right).e1 + (aLocal P .right).e2 * (aLocal P .right).e2 ≠ 0) :
    edot (aRcoef P) δ = ((aLocal P .right).e1 * δ.e2 - (aLocal P .right).e2 * δ.e1) /
      ((aLocal P .right).e1 * (aLocal P .right).e1 + (aLocal P .right).e2 * (aLocal P .right).e2) := by
  set x := (aLocal P .right).e1
  set y := (aLocal P .right).e2
  have hq : 0 < x * x + y * y := lt_of_le_of_ne (add_nonneg (mul_self_nonneg _) (mul_self_nonneg _)) (Ne.symm h)
  have hd : 0 < Real.sqrt (x * x + y * y) := Real.sqrt_pos.mpr hq
  have hd2 : Real.sqrt (x * x + y * y) * Real.sqrt (x * x + y * y) = x * x + y * y := Real.mul_self_sqrt hq.le
  have hz : (⟨x, y⟩ : ℂ) ≠ 0 := by
    intro e; have h1 := congrArg Complex.re e; have h2 := congrArg Complex.im e
    simp at h1 h2; rw [h1, h2] at hq; simp at hq
  have hs : Real.sin (Complex.arg ⟨x, y⟩) = y / Real.sqrt (x * x + y * y) := by
    rw [Complex.sin_arg, norm_mk']
  have hc : Real.cos (Complex.arg ⟨x, y⟩) = x / Real.sqrt (x * x + y * y) := by
    rw [Complex.cos_arg hz, norm_mk']
  simp only [edot, aRcoef]
  rw [hs, hc]
  generalize Real.sqrt (x * x + y * y) = d at hd hd2
  rw [← hd2]
  field_simp
  ring

/-- the value of the generated angle row on the unknowns `ξ` (n, e, u of station, left, right; all nine taken as
    adjusted) -/
noncomputable def angleRowDot (cF cL cR ξf ξl ξr : E3 ℝ) : ℝ := edot cF ξf + edot cL ξl + edot cR ξr

/-- **the angle coefficients are the derivative of the horizontal angle.**  Station, left and right target are
    displaced by `t·ξf`, `t·ξl`, `t·ξr`, each in its own n-e-u frame (these are the unknowns).  Along this motion there
    are differentiable direction angles `θl`, `θr` (polar angles of the horizontal part of the vectors station → left /
    right target in the station's frame, `Lin.IsPolarAngle`) that start at the code's `atan2` values (as bearings in
    `[0, 2π)`), and the derivative of `scale · (θr − θl)` at `t = 0` is the generated row applied to `ξ`.
    Hypotheses: neither target is in the station's vertical (horizontal distances ≠ 0).  The angle is the one the
    coefficients are computed from: initial coordinates, geodetic frame of the station (the right-hand side
    additionally uses instrument / target heights and the deflection of the vertical). -/
theorem angle_is_derivative (P : Pts ℝ) (o : GObs ℝ) (tol : ℝ) (ξf ξl ξr : E3 ℝ)
    (hl : (aLocal P .left).e1 * (aLocal P .left).e1 + (aLocal P .left).e2 * (aLocal P .left).e2 ≠ 0)
    (hr : (aLocal P .right).e1 * (aLocal P .right).e1 + (aLocal P .right).e2 * (aLocal P .right).e2 ≠ 0) :
    ∃ cF cL cR : E3 ℝ,
      (@angle ℝ realTrig P o tol).rows =
        [[⟨[(.frm, .freeN)], [⟨.frm, .N, cF.e1⟩]⟩, ⟨[(.frm, .freeE)], [⟨.frm, .E, cF.e2⟩]⟩,
          ⟨[(.frm, .freeU)], [⟨.frm, .U, cF.e3⟩]⟩,
          ⟨[(.left, .freeN)], [⟨.left, .N, cL.e1⟩]⟩, ⟨[(.left, .freeE)], [⟨.left, .E, cL.e2⟩]⟩,
          ⟨[(.left, .freeU)], [⟨.left, .U, cL.e3⟩]⟩,
          ⟨[(.right, .freeN)], [⟨.right, .N, cR.e1⟩]⟩, ⟨[(.right, .freeE)], [⟨.right, .E, cR.e2⟩]⟩,
          ⟨[(.right, .freeU)], [⟨.right, .U, cR.e3⟩]⟩]] ∧
      ∃ θl θr : ℝ → ℝ,
        θl 0 = Gama.Lin.brg (aLocal P .left).e1 (aLocal P .left).e2 ∧
        θr 0 = Gama.Lin.brg (aLocal P .right).e1 (aLocal P .right).e2 ∧
        (∀ t, Gama.Lin.IsPolarAngle
          ((aLocal P .left).e1 + (relDisp (frameOf (P .frm)) (frameOf (P .left)) ξf ξl).e1 * t)
          ((aLocal P .left).e2 + (relDisp (frameOf (P .frm)) (frameOf (P .left)) ξf ξl).e2 * t) (θl t)) ∧
        (∀ t, Gama.Lin.IsPolarAngle
          ((aLocal P .right).e1 + (relDisp (frameOf (P .frm)) (frameOf (P .right)) ξf ξr).e1 * t)
          ((aLocal P .right).e2 + (relDisp (frameOf (P .frm)) (frameOf (P .right)) ξf ξr).e2 * t) (θr t)) ∧
        HasDerivAt (fun t => angPerLin * (θr t - θl t)) (angleRowDot cF cL cR ξf ξl ξr) 0 := by
  obtain ⟨cF, cL, cR, hrows, hF, hL, hR⟩ := angle_coeffs P o tol
  refine ⟨cF, cL, cR, hrows, ?_⟩
  set δl := relDisp (frameOf (P .frm)) (frameOf (P .left)) ξf ξl with hδl
  set δr := relDisp (frameOf (P .frm)) (frameOf (P .right)) ξf ξr with hδr
  obtain ⟨θl, hl0, hlp, hld⟩ := Gama.Lin.exists_polar_lift (aLocal P .left).e1 (aLocal P .left).e2 δl.e1 δl.e2 hl
  obtain ⟨θr, hr0, hrp, hrd⟩ := Gama.Lin.exists_polar_lift (aLocal P .right).e1 (aLocal P .right).e2 δr.e1 δr.e2 hr
  refine ⟨θl, θr, hl0, hr0, hlp, hrp, ?_⟩
  have hd := (hrd.sub hld).const_mul angPerLin
  refine hd.congr_deriv ?_
  have horth : Orthonormal (frameOf (P .frm)) := frame_orthonormal _ _
  have e1 := coef_contract horth (frameOf (P .left)) (aLcoef P) ξf ξl
  have e2 := coef_contract horth (frameOf (P .right)) (aRcoef P) ξf ξr
  rw [← hδl] at e1
  rw [← hδr] at e2
  have d1 := aLcoef_dot P δl hl
  have d2 := aRcoef_dot P δr hr
  rw [← d2, ← e2]
  have d1' : ((aLocal P .left).e1 * δl.e2 - (aLocal P .left).e2 * δl.e1) /
      ((aLocal P .left).e1 * (aLocal P .left).e1 + (aLocal P .left).e2 * (aLocal P .left).e2) = -edot (aLcoef P) δl := by
    rw [d1]; ring
  rw [d1', ← e1, hF, hL, hR]
  simp only [angleRowDot, edot, E3.smul, E3.add]
  ring

/-! ### zenith angle: station and target together -/

/-- the coefficient triple `pd` of the zenith linearisation in the station's frame (repaired formula) -/
noncomputable def zPd (P : Pts ℝ) (o : GObs ℝ) : E3 ℝ :=
  let l := zLocal P o
  let r := Real.sqrt (l.e1 * l.e1 + l.e2 * l.e2)
  let s := l.e1 * l.e1 + l.e2 * l.e2 + l.e3 * l.e3
  ⟨-l.e1 * l.e3 * (1 / (r * s)), -l.e2 * l.e3 * (1 / (r * s)), r / s⟩

theorem zenith_coeffs (P : Pts ℝ) (o : GObs ℝ) (tol : ℝ) :
    ∃ cF cT : E3 ℝ,
      (@zenith ℝ realTrig P o tol).rows =
        [[⟨[(.frm, .freeH)], [⟨.frm, .N, cF.e1⟩, ⟨.frm, .E, cF.e2⟩]⟩, ⟨[(.frm, .freeU)], [⟨.frm, .U, cF.e3⟩]⟩,
          ⟨[(.to, .freeH)], [⟨.to, .N, cT.e1⟩, ⟨.to, .E, cT.e2⟩]⟩, ⟨[(.to, .freeU)], [⟨.to, .U, cT.e3⟩]⟩]] ∧
      cF = @E3.smul ℝ realScalar (zPd P o) angPerLin ∧
      cT = @E3.smul ℝ realScalar (@E3.inverse ℝ realScalar (frameOf (P .to))
        (@E3.smul ℝ realScalar (@E3.rotation ℝ realScalar (frameOf (P .frm)) (zPd P o)) (-1))) angPerLin :=
  ⟨_, _, rfl, rfl, rfl⟩

/-- `zenithFn` is the zenith angle of the line of sight in the station's frame, when the vertical the zenith angle
    refers to is the station's geodetic normal (no deflection: `dB = dL = 0`) -/
theorem zenithFn_eq_zen (P : Pts ℝ) (o : GObs ℝ) (hB : (P .frm).dB = 0) (hL : (P .frm).dL = 0) :
    zenithFn P o = zen (zLocal P o).e1 (zLocal P o).e2 (zLocal P o).e3 := by
  have hb := Real.sin_sq_add_cos_sq (P .frm).B
  have hl := Real.sin_sq_add_cos_sq (P .frm).L
  set s := sight P o with hs
  have hl3 : (zLocal P o).e3 = (up (P .frm)).e1 * s.e1 + (up (P .frm)).e2 * s.e2 + (up (P .frm)).e3 * s.e3 := by
    simp only [zLocal, sightLocal, E3.inverse, frame_eq, up, hB, hL, add_zero, ← hs]
  have hnn : (zLocal P o).e1 * (zLocal P o).e1 + (zLocal P o).e2 * (zLocal P o).e2 + (zLocal P o).e3 * (zLocal P o).e3 =
      s.e1 * s.e1 + s.e2 * s.e2 + s.e3 * s.e3 := by
    simp only [zLocal, sightLocal, E3.inverse, frame_eq, ← hs]
    linear_combination ((Real.cos (P .frm).L * s.e1 + Real.sin (P .frm).L * s.e2) ^ 2 + s.e3 ^ 2) * hb +
      (s.e1 ^ 2 + s.e2 ^ 2) * hl
  have hupn : (up (P .frm)).e1 * (up (P .frm)).e1 + (up (P .frm)).e2 * (up (P .frm)).e2 +
      (up (P .frm)).e3 * (up (P .frm)).e3 = 1 := by
    simp only [up, hB, hL, add_zero]
    linear_combination (Real.cos (P .frm).B) ^ 2 * hl + hb
  unfold zenithFn angle3 zen
  rw [← hs, hnn, hl3, hupn, one_mul]

theorem zPd_dot (l1 l2 l3 a b c r : ℝ) (hr : r ≠ 0) (hr2 : r * r = l1 * l1 + l2 * l2)
    (hs : l1 * l1 + l2 * l2 + l3 * l3 ≠ 0) :
    -c / r + l3 * (l1 * a + l2 * b + l3 * c) / (r * (l1 * l1 + l2 * l2 + l3 * l3)) =
      -(-l1 * l3 * (1 / (r * (l1 * l1 + l2 * l2 + l3 * l3))) * a +
        -l2 * l3 * (1 / (r * (l1 * l1 + l2 * l2 + l3 * l3))) * b + r / (l1 * l1 + l2 * l2 + l3 * l3) * c) := by
  have hS : l1 * l1 + l2 * l2 + l3 * l3 = r * r + l3 * l3 := by rw [hr2]
  rw [hS] at hs ⊢
  have hs' : r ^ 2 + l3 ^ 2 ≠ 0 := by simpa [sq] using hs
  field_simp
  ring

/-- **the zenith coefficients are the derivative of the zenith angle**, station and target together: station and
    target are displaced by `t·ξf`, `t·ξt`, each in its own n-e-u frame; the line of sight in the station's frame then
    is `l + t·δ` with `δ = R_fᵀ(R_t ξt − R_f ξf)` (`relDisp`), and the derivative of `scale · zen (l + t δ)` at 0 is the
    generated row applied to `(ξf, ξt)`.  `zen l` is the zenith angle the right-hand side uses (`zenithFn_eq_zen`,
    station without deflection of the vertical).  Hypothesis: the sight is not vertical. -/
theorem zenith_is_derivative (P : Pts ℝ) (o : GObs ℝ) (tol : ℝ) (ξf ξt : E3 ℝ)
    (h : (zLocal P o).e1 * (zLocal P o).e1 + (zLocal P o).e2 * (zLocal P o).e2 ≠ 0) :
    ∃ cF cT : E3 ℝ,
      (@zenith ℝ realTrig P o tol).rows =
        [[⟨[(.frm, .freeH)], [⟨.frm, .N, cF.e1⟩, ⟨.frm, .E, cF.e2⟩]⟩, ⟨[(.frm, .freeU)], [⟨.frm, .U, cF.e3⟩]⟩,
          ⟨[(.to, .freeH)], [⟨.to, .N, cT.e1⟩, ⟨.to, .E, cT.e2⟩]⟩, ⟨[(.to, .freeU)], [⟨.to, .U, cT.e3⟩]⟩]] ∧
      HasDerivAt (fun t => angPerLin * zen
          ((zLocal P o).e1 + (relDisp (frameOf (P .frm)) (frameOf (P .to)) ξf ξt).e1 * t)
          ((zLocal P o).e2 + (relDisp (frameOf (P .frm)) (frameOf (P .to)) ξf ξt).e2 * t)
          ((zLocal P o).e3 + (relDisp (frameOf (P .frm)) (frameOf (P .to)) ξf ξt).e3 * t))
        (edot cF ξf + edot cT ξt) 0 := by
  obtain ⟨cF, cT, hrows, hF, hT⟩ := zenith_coeffs P o tol
  refine ⟨cF, cT, hrows, ?_⟩
  set δ := relDisp (frameOf (P .frm)) (frameOf (P .to)) ξf ξt with hδ
  set l1 := (zLocal P o).e1
  set l2 := (zLocal P o).e2
  set l3 := (zLocal P o).e3
  have hq2 : 0 < l1 * l1 + l2 * l2 := lt_of_le_of_ne (add_nonneg (mul_self_nonneg _) (mul_self_nonneg _)) (Ne.symm h)
  have hr : 0 < Real.sqrt (l1 * l1 + l2 * l2) := Real.sqrt_pos.mpr hq2
  have hr2 : Real.sqrt (l1 * l1 + l2 * l2) * Real.sqrt (l1 * l1 + l2 * l2) = l1 * l1 + l2 * l2 := Real.mul_self_sqrt hq2.le
  have hs : 0 < l1 * l1 + l2 * l2 + l3 * l3 := by nlinarith [mul_self_nonneg l3]
  have hd := (hasDerivAt_zen l1 l2 l3 δ.e1 δ.e2 δ.e3 h).const_mul angPerLin
  refine hd.congr_deriv ?_
  have horth : Orthonormal (frameOf (P .frm)) := frame_orthonormal _ _
  have e1 := coef_contract horth (frameOf (P .to)) (zPd P o) ξf ξt
  rw [← hδ] at e1
  have hz := zPd_dot l1 l2 l3 δ.e1 δ.e2 δ.e3 _ hr.ne' hr2 hs.ne'
  rw [hz]
  have hpd : edot (zPd P o) δ = -l1 * l3 * (1 / (Real.sqrt (l1 * l1 + l2 * l2) * (l1 * l1 + l2 * l2 + l3 * l3))) * δ.e1 +
      -l2 * l3 * (1 / (Real.sqrt (l1 * l1 + l2 * l2) * (l1 * l1 + l2 * l2 + l3 * l3))) * δ.e2 +
      Real.sqrt (l1 * l1 + l2 * l2) / (l1 * l1 + l2 * l2 + l3 * l3) * δ.e3 := rfl
  rw [← hpd, ← e1, hF, hT]
  simp only [edot, E3.smul, E3.inverse, E3.rotation]
  ring

end G3Lin
end Gama
