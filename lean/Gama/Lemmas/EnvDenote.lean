/-
  C04 round 3 — the symbolic answer of the envelope machine denotes the number a fresh object
  computes: `denote (spec …) = direct …`, hence (with `step_spec`) along every history.
  Core Lean only.
-/
import Gama.Model.EnvDenote
import Gama.Lemmas.EnvHist
namespace Gama.C04
open Gama Gama.Ls

variable {K : Type} [Scalar K]

/-- the numeric world knows the ordering of the input: `perm` inverts `invp` on the unknowns `1..n`
    (bounded by `inp.n`, round 4: the driver's `world` satisfies it — `worldOf_describes`, Lemmas/EnvStateFacts.lean —, the former unbounded
    form it did not) -/
def World.Describes (W : World K) (inp : EnvInput) : Prop :=
  ∀ i, 1 ≤ i → i ≤ inp.n → W.perm inp.id (inp.invp i) = i

/-- which element of the symmetric inverse `q0_xx(i,j)` reads outside the envelope (`if (ii < jj) swap`) -/
def q0pair (inp : EnvInput) (i j : Nat) : Nat × Nat :=
  if inp.inEnv (inp.invp i) (inp.invp j) then (i, j)
  else if inp.invp i < inp.invp j then (j, i) else (i, j)

/-- `direct` with the element order of the code for `q0_xx` (the numeric inverse is symmetric; the
    model keeps the order in which the code indexes it) -/
def directC (inp : EnvInput) (p : Problem K) (m : Option (List Nat)) (reg : List Nat) : Op → DVal K
  | .q0xx i j => direct inp p m reg (.q0xx (q0pair inp i j).1 (q0pair inp i j).2)
  | .qxx i j => if inp.nullity = 0 then direct inp p m reg (.q0xx (q0pair inp i j).1 (q0pair inp i j).2)
                else direct inp p m reg (.qxx i j)
  | op => direct inp p m reg op

theorem denote_q0spec (W : World K) (inp : EnvInput) (hd : W.Describes inp) (m : Option (List Nat))
    {i j : Nat} (hi : 1 ≤ i ∧ i ≤ inp.n) (hj : 1 ≤ j ∧ j ≤ inp.n) :
    denote W inp.id m (q0spec inp i j)
      = ofE .num (envSolve { W.prob inp.id with reg := regOf m } >>= fun r => r.q0xx (q0pair inp i j).1 (q0pair inp i j).2) := by
  unfold q0spec q0pair
  by_cases he : inp.inEnv (inp.invp i) (inp.invp j) = true
  · simp [he, denote, hd i hi.1 hi.2, hd j hj.1 hj.2]
  · by_cases hlt : inp.invp i < inp.invp j
    · simp [he, hlt, denote, hd i hi.1 hi.2, hd j hj.1 hj.2]
    · simp [he, hlt, denote, hd i hi.1 hi.2, hd j hj.1 hj.2]

/-- the history-free specification denotes what a fresh object computes -/
theorem denote_spec (W : World K) (inp : EnvInput) (hd : W.Describes inp) (m : Option (List Nat))
    (reg : List Nat) (op : Op) (hv : op.Valid inp.n) :
    denote W inp.id m (spec inp reg op) = directC inp (W.prob inp.id) m reg op := by
  cases op with
  | unknowns =>
    by_cases hn : inp.nullity = 0
    · simp [spec, directC, direct, denote, hn, Option.orElse]
    · by_cases hr : inp.resolves reg = true
      · simp [spec, directC, direct, denote, hn, hr, Option.orElse, regOf]
      · simp [spec, directC, direct, denote, hn, hr]
  | residuals => simp [spec, directC, direct, denote]
  | sumsq => simp [spec, directC, direct, denote]
  | defect => simp [spec, directC, direct, denote]
  | lindep i => simp [spec, directC, direct, denote]
  | q0xx i j =>
    simp only [spec, directC, direct]
    exact denote_q0spec W inp hd m hv.1 hv.2
  | qxx i j =>
    by_cases hn : inp.nullity = 0
    · simp only [spec, directC, direct, hn, if_true]
      exact denote_q0spec W inp hd m hv.1 hv.2
    · by_cases hr : inp.resolves reg = true
      · simp [spec, directC, direct, denote, hn, hr]
      · simp [spec, directC, direct, denote, hn, hr]
  | qbb i j =>
    by_cases hb : inp.qbbIn i j = true
    · simp [spec, directC, direct, denote, hb]
    · simp [spec, directC, direct, denote, hb]
  | minxAll => simp [spec, directC, direct, denote]
  | minx l => simp [spec, directC, direct, denote]
  | reset => simp [spec, directC, direct, denote]

/-- **answer_denotes** (one step from a state satisfying the invariant) -/
theorem hstep_denotes (W : World K) {h : HState} (hi : HInv h) (hd : W.Describes h.inp)
    (m : Option (List Nat)) (op : Op) (hv : op.Valid h.inp.n) :
    denote W h.inp.id m (hstep h (.q op)).2
      = directC h.inp (W.prob h.inp.id) m (eff h.inp h.s.minx) op := by
  rw [hstep_spec hi op hv]
  exact denote_spec W h.inp hd m _ op hv

end Gama.C04
