/-
  PE — lemmas about `Model/ProjectEquations.lean`, part 2: a completed call.

    C. the cluster walk: rows = Σ activeObs, the row ranges partition `0..m`
    D. the recursion through `singular_coords`: a completed call IS its last inner call (`pe_final`),
       on a network whose statuses lie below the input's and whose observations are the input's
    E. the numbering of the last inner call restricted to the live unknowns: in `1..n`, injective
    F. the regularisation list
    G. the list `unknowns_`
-/
import Gama.Lemmas.ProjectEquations
import Gama.Lemmas.MinX
namespace Gama.PE
open Gama Gama.Lin Gama.NetDecision

variable {K : Type}

/-! ### C. the cluster walk -/

theorem nAct_np (c : Cluster K) :
    (⟨c.cov, c.obs.map (·.active)⟩ : Ls.Net.Cluster K).nAct = (c.obs.filter (·.active)).length := by
  simp [Ls.Net.Cluster.nAct, List.filter_map, Function.comp_def]

theorem revisedFrom_length (cs : List (Cluster K)) : ∀ k,
    (revisedFrom k cs).length =
      ((cs.map fun c => (⟨c.cov, c.obs.map (·.active)⟩ : Ls.Net.Cluster K)).map (·.nAct)).sum := by
  induction cs with
  | nil => intro k; rfl
  | cons c cs ih => intro k; simp [revisedFrom, nAct_np, ih]

theorem sum_active (cl : List (Ls.Net.Cluster K)) :
    ((cl.filter fun c => c.nAct != 0).map (·.nAct)).sum = (cl.map (·.nAct)).sum := by
  induction cl with
  | nil => rfl
  | cons c cl ih =>
    by_cases h : c.nAct = 0
    · simp [List.filter_cons, h, ih]
    · simp [List.filter_cons, h, ih]

/-- the clusters with active observations cut the rows `s, s+1, …` into consecutive ranges -/
theorem ranges_partition (cl : List (Ls.Net.Cluster K)) : ∀ s,
    (rangesFrom s cl).flatMap (fun r => List.range' r.1 r.2) = List.range' s ((cl.map (·.nAct)).sum) := by
  induction cl with
  | nil => intro s; rfl
  | cons c cl ih =>
    intro s
    by_cases h : c.nAct = 0
    · simp [rangesFrom, h, ih]
    · have hb : (c.nAct != 0) = true := by simpa using h
      simp only [rangesFrom, hb, if_true, List.flatMap_cons, ih, List.map_cons, List.sum_cons]
      exact List.range'_append_1

theorem ranges_dims (cl : List (Ls.Net.Cluster K)) : ∀ s,
    (rangesFrom s cl).map (·.2) = (cl.filter fun c => c.nAct != 0).map (·.nAct) := by
  induction cl with
  | nil => intro s; rfl
  | cons c cl ih =>
    intro s
    by_cases h : c.nAct = 0
    · simp [rangesFrom, List.filter_cons, h, ih]
    · simp [rangesFrom, List.filter_cons, h, ih]

/-! ### D. the recursion -/

/-- a point after removals: same id, same z status, xy status kept or switched off -/
def PtLe (p q : Point K) : Prop :=
  q.id = p.id ∧ q.pt.sz = p.pt.sz ∧ (q.pt.sxy = p.pt.sxy ∨ q.pt.sxy = .unused)

/-- class and roles of every observation of every cluster -/
def obsShape (net : Net K) : List (List (Kind × Nat × Nat × Nat)) :=
  net.clusters.map fun c => c.obs.map fun o => (o.kind, o.pfrom, o.pto, o.pfs)

structure Below (base net : Net K) : Prop where
  pts : List.Forall₂ PtLe base.points net.points
  shape : obsShape net = obsShape base

theorem forall₂_self {α : Type} (R : α → α → Prop) (hR : ∀ a, R a a) : ∀ l : List α, List.Forall₂ R l l
  | [] => .nil
  | a :: l => .cons (hR a) (forall₂_self R hR l)

theorem Below.refl (net : Net K) : Below net net :=
  ⟨forall₂_self _ (fun p => ⟨rfl, rfl, Or.inl rfl⟩) _, rfl⟩

theorem reviseFrom_shape (pts : List MinX.PtS) (all : List (Bool × MinX.Obs)) (cs : List (Cluster K)) : ∀ k,
    (reviseFrom pts all k cs).map (fun c => c.obs.map fun o => (o.kind, o.pfrom, o.pto, o.pfs))
      = cs.map (fun c => c.obs.map fun o => (o.kind, o.pfrom, o.pto, o.pfs)) := by
  induction cs with
  | nil => intro k; rfl
  | cons c cs ih => intro k; simp [reviseFrom, ih, Function.comp_def]

theorem obsShape_revise (net : Net K) : obsShape (revise net) = obsShape net := reviseFrom_shape _ _ _ 0

theorem applySingular_le (l ps : List (Point K)) (h : List.Forall₂ PtLe l ps) :
    ∀ qs : List MinX.PtS, List.Forall₂ PtLe l (applySingular ps qs) := by
  induction h with
  | nil => intro qs; cases qs <;> exact .nil
  | @cons a p l ps hap _ ih =>
    intro qs
    cases qs with
    | nil => exact .cons hap (by simpa [applySingular] using ih [])
    | cons q qs =>
      simp only [applySingular]
      refine .cons ?_ (ih qs)
      split
      · exact ⟨hap.1, hap.2.1, Or.inr rfl⟩
      · exact hap

/-- a completed call is its last inner call -/
structure Final [TrigScalar K] (base : Net K) (np : Ls.Net.NetProblem K) (u : Unknowns K)
    (net : Net K) (a : Asm K) : Prop where
  below : Below base net
  revised : ∃ n1, net = revise n1
  asm : assemble net = .ok a
  nosing : ∃ h, Ls.Net.prepare a.np = .ok h ∧
    (SingularCoords.singularCoords h.Ad (idxFn a.idx) (ptsOf net)).1 = false
  np_eq : np = { a.np with minx := (MinX.feed (idxFn a.idx) (ptsOf net)).2 }
  u_n : u.n = a.np.n
  u_list : u.list = a.list
  u_net : u.net = { net with idx := a.idx }

theorem peLoop_final [TrigScalar K] : ∀ (fuel : Nat) (base net0 : Net K) (rm : List String)
    (np : Ls.Net.NetProblem K) (u : Unknowns K), Below base net0 → peLoop fuel net0 rm = .ok (np, u) →
    ∃ net a, Final base np u net a := by
  intro fuel
  induction fuel with
  | zero => intro base net0 rm np u _ h; simp [peLoop] at h
  | succ f ih =>
    intro base net0 rm np u hb h
    simp only [peLoop] at h
    split at h
    · cases h
    · rename_i a ha
      split at h
      · cases h
      · rename_i hh hp
        split at h
        · refine ih base _ _ np u ?_ h
          exact ⟨applySingular_le _ _ hb.pts _, by rw [← hb.shape, ← obsShape_revise net0]; rfl⟩
        · rename_i hs
          injection h with h
          injection h with h1 h2
          subst h1 h2
          exact ⟨revise net0, a, ⟨hb.pts, by rw [obsShape_revise]; exact hb.shape⟩, ⟨net0, rfl⟩, ha,
            ⟨hh, hp, by simpa using hs⟩, rfl, rfl, rfl, rfl⟩

theorem pe_final [TrigScalar K] (net0 : Net K) (np : Ls.Net.NetProblem K) (u : Unknowns K)
    (h : projectEquations net0 = .ok (np, u)) : ∃ net a, Final net0 np u net a :=
  peLoop_final _ net0 net0 [] np u (Below.refl net0) h

/-! ### E. the numbering on the live unknowns -/

theorem toLin_inj {a b : MinX.Unk} (h : toLin a = toLin b) : a = b := by
  cases a <;> cases b <;> simp [toLin] at h <;> simp [h]

theorem xyOf_ptsOf [Zero K] (net : Net K) (p : Nat) : MinX.xyOf (ptsOf net) p = cstat (ptAt net p).sxy := by
  unfold MinX.xyOf ptsOf ptAt
  rw [List.getElem?_map]
  cases net.points[p]? <;> rfl

theorem zOf_ptsOf [Zero K] (net : Net K) (p : Nat) : MinX.zOf (ptsOf net) p = cstat (ptAt net p).sz := by
  unfold MinX.zOf ptsOf ptAt
  rw [List.getElem?_map]
  cases net.points[p]? <;> rfl

theorem adjusted_cstat (s : Status) : (cstat s).adjusted = s.isFree := by cases s <;> rfl
theorem active_cstat (s : Status) : (cstat s).active = s.isActive := by cases s <;> rfl

/-- a live unknown (`free_xy()` / `free_z()` of its point, or an orientation) is cleared by the prologue -/
theorem live_cleared [Zero K] (net : Net K) (u : MinX.Unk) (h : MinX.live (ptsOf net) u = true) :
    Cleared net (toLin u) := by
  cases u with
  | ori k => exact Or.inl rfl
  | x p =>
    right
    simp only [MinX.live, xyOf_ptsOf, adjusted_cstat] at h
    exact (resetGuard_of_free _).1 h
  | y p =>
    right
    simp only [MinX.live, xyOf_ptsOf, adjusted_cstat] at h
    exact (resetGuard_of_free _).1 h
  | z p =>
    right
    simp only [MinX.live, zOf_ptsOf, adjusted_cstat] at h
    exact (resetGuard_of_free _).2 h

section fresh
variable [TrigScalar K] {net : Net K} {a : Asm K} {b : PassOut K}

theorem Fresh.get_le (F : Fresh net a b) (v : Unk) (hv : Cleared net v) : a.idx.get v ≤ a.np.n := by
  rw [F.agree v hv, F.n]; exact IdxState.get_pos_le F.ok.wf v

theorem Fresh.get_inj (F : Fresh net a b) (v w : Unk) (hv : Cleared net v) (hw : Cleared net w)
    (e : a.idx.get v = a.idx.get w) (h0 : a.idx.get v ≠ 0) : v = w := by
  rw [F.agree v hv] at e h0
  rw [F.agree w hw] at e
  exact IdxState.get_inj F.ok.wf h0 e

theorem Fresh.live_le (F : Fresh net a b) (u : MinX.Unk) (h : MinX.live (ptsOf net) u = true) :
    idxFn a.idx u ≤ a.np.n := F.get_le _ (live_cleared net u h)

theorem Fresh.live_inj (F : Fresh net a b) (u v : MinX.Unk) (hu : MinX.live (ptsOf net) u = true)
    (hv : MinX.live (ptsOf net) v = true) (e : idxFn a.idx u = idxFn a.idx v) (h0 : idxFn a.idx u ≠ 0) : u = v :=
  toLin_inj (F.get_inj _ _ (live_cleared net u hu) (live_cleared net v hv) e h0)

end fresh

/-! ### F. the regularisation list -/

open MinX in
/-- `MinX.fill_valid` from the two halves of `NumInv` that it uses -/
theorem fill_valid' (pts : List PtS) (idx : MinX.Unk → Nat) (n : Nat)
    (hle : ∀ u, live pts u = true → idx u ≤ n)
    (hinj : ∀ u v, live pts u = true → live pts v = true → idx u = idx v → idx u ≠ 0 → u = v)
    (degen : Nat → Bool) (hns : (singularCoords degen idx pts).1 = false) :
    (∀ u ∈ consFrom idx 0 pts, live pts u = true ∧ idx u ≠ 0) ∧
    (∀ i ∈ fillMin idx pts, 1 ≤ i ∧ i ≤ n) ∧ (fillMin idx pts).Nodup := by
  have hmem := consFrom_mem pts idx pts 0 (TailAt.self pts)
  have hsf := singularFrom_false pts degen idx pts 0 (TailAt.self pts) hns
  have hgood : ∀ u ∈ consFrom idx 0 pts, live pts u = true ∧ idx u ≠ 0 := by
    intro u hu
    rcases hmem u hu with ⟨k, huk, hc, hx⟩ | ⟨k, rfl, hc, hz⟩
    · have hlive : live pts u = true := by rcases huk with rfl | rfl <;> simp [live, hc, CStat.adjusted]
      refine ⟨hlive, ?_⟩
      rcases huk with rfl | rfl
      · exact hx
      · rcases hk : pts[k]? with _ | q
        · simp [xyOf, hk] at hc
        · have hq : q.xy = .constrained := by rw [← getElem?_xyOf pts k q hk]; exact hc
          have := hsf k q hk (by rw [hq]; simp) (by rw [hq]; rfl)
          simpa using this.2
    · exact ⟨by simp [live, hc, CStat.adjusted], hz⟩
  refine ⟨hgood, ?_⟩
  unfold fillMin
  rw [fillFrom_eq_map]
  refine ⟨fun i hi => ?_, ?_⟩
  · obtain ⟨u, hu, rfl⟩ := List.mem_map.mp hi
    obtain ⟨hl, h0⟩ := hgood u hu
    exact ⟨Nat.pos_of_ne_zero h0, hle u hl⟩
  · refine List.Nodup.map_on ?_ (consFrom_nodup idx pts 0)
    intro u hu v hv huv
    exact hinj u v (hgood u hu).1 (hgood v hv).1 huv (hgood u hu).2

open MinX in
/-- membership in the list: exactly the non-zero indexes of the constrained coordinates -/
theorem fill_mem (pts : List PtS) (idx : MinX.Unk → Nat) (degen : Nat → Bool)
    (hns : (singularCoords degen idx pts).1 = false)
    (hgood : ∀ u ∈ consFrom idx 0 pts, live pts u = true ∧ idx u ≠ 0) (i : Nat) :
    i ∈ fillMin idx pts ↔ ∃ u, consCoord pts u = true ∧ idx u ≠ 0 ∧ idx u = i := by
  have hsf := singularFrom_false pts degen idx pts 0 (TailAt.self pts) hns
  rw [fillMin, fillFrom_eq_map, List.mem_map]
  constructor
  · rintro ⟨u, hu, rfl⟩
    refine ⟨u, ?_, (hgood u hu).2, rfl⟩
    rcases consFrom_mem pts idx pts 0 (TailAt.self _) u hu with ⟨k, huk, hc, _⟩ | ⟨k, rfl, hc, _⟩
    · rcases huk with rfl | rfl <;> simp [consCoord, hc]
    · simp [consCoord, hc]
  · rintro ⟨u, hc, h0, rfl⟩
    refine ⟨u, ?_, rfl⟩
    cases u with
    | ori k => simp [consCoord] at hc
    | x k =>
      simp only [consCoord, decide_eq_true_eq] at hc
      rcases hk : pts[k]? with _ | q
      · simp [xyOf, hk] at hc
      · have hq : q.xy = .constrained := by rw [← getElem?_xyOf pts k q hk]; exact hc
        have := (consFrom_of idx pts 0 k q hk).1 hq (by simpa using h0)
        simpa using this.1
    | y k =>
      simp only [consCoord, decide_eq_true_eq] at hc
      rcases hk : pts[k]? with _ | q
      · simp [xyOf, hk] at hc
      · have hq : q.xy = .constrained := by rw [← getElem?_xyOf pts k q hk]; exact hc
        have hxk := (hsf k q hk (by rw [hq]; simp) (by rw [hq]; rfl)).1
        have := (consFrom_of idx pts 0 k q hk).1 hq (by simpa using hxk)
        simpa using this.2
    | z k =>
      simp only [consCoord, decide_eq_true_eq] at hc
      rcases hk : pts[k]? with _ | q
      · simp [zOf, hk] at hc
      · have hq : q.z = .constrained := by rw [← getElem?_zOf pts k q hk]; exact hc
        have := (consFrom_of idx pts 0 k q hk).2 hq (by simpa using h0)
        simpa using this

end Gama.PE
