/-
  White space / blank character data BETWEEN elements does not change the verdict of the GKF value parser.

  The tree `Doc'` (Model/GkfDocTree.lean) has no slots for the blank text expat delivers between tags ("\n  ").  Such an
  event only advances the event counter: `cstep cs (.text b)` for blank `b` outside a `<cov-mat>` text leaves state,
  error and members as they are (`blank_step_sim`).  `BlankExt cs evs evs'`: `evs'` is `evs` with blank text events
  inserted at places where the parser (started in `cs`, following `evs`) is not collecting `<cov-mat>` text.  Inside
  `<cov-mat>` character data is DATA (the pieces are concatenated without separator), it is in the tree.
  `blankExt_sim`: the two runs end in the same state, with the same kind of recorded error (or none) and the same
  members; only the event index of the error moves with the inserted events, as the line number does.
-/
import Gama.Lemmas.GkfValues
namespace Gama.Gkf
open Gama.Lit

/-- same automaton state, same error kind (or none): everything but the event counter / index -/
def SSim (a b : St) : Prop := a.state = b.state ∧ a.err.map Prod.snd = b.err.map Prod.snd

theorem SSim.refl (a : St) : SSim a a := ⟨rfl, rfl⟩

theorem error_sim {a b : St} (k : ErrKind) (h : SSim a b) : SSim (a.error k) (b.error k) := by
  obtain ⟨h1, h2⟩ := h
  unfold St.error
  cases ha : a.err <;> cases hb : b.err <;> simp only [ha, hb, Option.map] at h2 ⊢
  · exact ⟨rfl, rfl⟩
  · cases h2
  · cases h2
  · exact ⟨h1, by simpa [ha, hb] using h2⟩

theorem setState_sim {a b : St} (s : State) (h : SSim a b) : SSim { a with state := s } { b with state := s } :=
  ⟨rfl, h.2⟩

theorem execOps_sim (as : List Attr) (d : Bool) : ∀ (ops : List Op) (a b : St) (f : Bool), SSim a b →
    SSim (execOps ops as d a f) (execOps ops as d b f) := by
  intro ops
  induction ops with
  | nil => intro a b f h; exact h
  | cons o r ih =>
    intro a b f h
    cases o with
    | setState s => simp only [execOps]; exact ih _ _ f (setState_sim s h)
    | attrs g =>
      simp only [execOps]
      split
      · exact ih _ _ false h
      · exact ih _ _ true (error_sim .handler h)
    | retIfFailed =>
      simp only [execOps]
      split
      · exact h
      · exact ih _ _ f h
    | needXYorZ =>
      simp only [execOps]
      split
      · exact ih _ _ false h
      · exact ih _ _ true (error_sim .handler h)
    | ret => simp only [execOps]; exact h

theorem react_sim {a b : St} (ev : Event) (h : SSim a b) : SSim (react a ev) (react b ev) := by
  cases ev with
  | start t as d =>
    simp only [react, ← h.1]
    cases start a.state t with
    | run g => exact execOps_sim as d _ a b false h
    | set s => exact setState_sim s h
    | err k => exact error_sim k h
    | ignore => exact h
  | stop d =>
    simp only [react, ← h.1]
    cases stop a.state with
    | goto s f =>
      cases f with
      | none => exact setState_sim s h
      | some f =>
        simp only
        split
        · exact setState_sim s h
        · exact error_sim .finish (setState_sim s h)
    | fail k => exact error_sim k h
    | silent => exact setState_sim .error_ h
  | text s =>
    simp only [react, ← h.1]
    split
    · exact h
    · exact error_sim _ h

theorem step_sim {a b : St} (ev : Event) (h : SSim a b) : SSim (step a ev) (step b ev) := by
  have := react_sim ev h
  exact ⟨this.1, this.2⟩

/-- the value parser's state up to the event counter -/
def CSim (a b : CSt) : Prop := SSim a.st b.st ∧ a.ctx = b.ctx

theorem CSim.refl (a : CSt) : CSim a a := ⟨SSim.refl _, rfl⟩

theorem cstep_sim {a b : CSt} (e : CEvent) (h : CSim a b) : CSim (cstep a e) (cstep b e) := by
  obtain ⟨hs, hc⟩ := h
  have hab : toAbs a e = toAbs b e := by cases e <;> simp only [toAbs, hs.1, hc]
  have hctx : nextCtx a e = nextCtx b e := by cases e <;> simp only [nextCtx, hs.1, hc]
  refine ⟨?_, hctx⟩
  show SSim (step a.st (toAbs a e)) (step b.st (toAbs b e))
  rw [hab]
  exact step_sim _ hs

/-- blank character data outside a `<cov-mat>` text only advances the event counter -/
theorem blank_step_sim (cs : CSt) (b : List Char) (hb : isBlank b = true) (hs : covTextState cs.st.state = false) :
    CSim (cstep cs (.text b)) cs := by
  refine ⟨⟨?_, ?_⟩, ?_⟩
  · simp [cstep, toAbs, step, react, hb]
  · simp [cstep, toAbs, step, react, hb]
  · simp [cstep, nextCtx, hs]

/-- `evs'` is `evs` with blank text inserted where the parser, started in `cs`, is not inside a `<cov-mat>` text -/
inductive BlankExt : CSt → List CEvent → List CEvent → Prop
  | nil (cs : CSt) : BlankExt cs [] []
  | cons (cs : CSt) (e : CEvent) (r r' : List CEvent) : BlankExt (cstep cs e) r r' → BlankExt cs (e :: r) (e :: r')
  | blank (cs : CSt) (b : List Char) (r r' : List CEvent) : isBlank b = true → covTextState cs.st.state = false →
      BlankExt cs r r' → BlankExt cs r (.text b :: r')

theorem CSim.trans {a b c : CSt} (h1 : CSim a b) (h2 : CSim b c) : CSim a c :=
  ⟨⟨h1.1.1.trans h2.1.1, h1.1.2.trans h2.1.2⟩, h1.2.trans h2.2⟩

theorem CSim.symm {a b : CSt} (h : CSim a b) : CSim b a := ⟨⟨h.1.1.symm, h.1.2.symm⟩, h.2.symm⟩

theorem blankExt_sim {cs : CSt} {evs evs' : List CEvent} (h : BlankExt cs evs evs') :
    ∀ cs' : CSt, CSim cs cs' → CSim (crun cs evs) (crun cs' evs') := by
  induction h with
  | nil cs => intro cs' hs; exact hs
  | cons cs e r r' _ ih => intro cs' hs; exact ih _ (cstep_sim e hs)
  | blank cs b r r' hb hst _ ih =>
    intro cs' hs
    rw [crun_cons]
    apply ih
    have hst' : covTextState cs'.st.state = false := by rw [← hs.1.1]; exact hst
    exact CSim.trans hs (CSim.symm (blank_step_sim cs' b hb hst'))

theorem outcome_accepted_iff (st : St) : outcome st = .accepted ↔ st.state ≠ .error_ := by
  unfold outcome
  split <;> simp [*]

end Gama.Gkf
