/-
  Consistency of duplicated models (notes/CLAUSES.md, cross-cutting item 2).

  1. `bearing_distance` (bearing.cpp) has three Lean models:
       `Gen.Lin.bearingDistance`  — regenerated from the C++ on every run   (C05/C06/C07)
       `Bearing.bearingDistance`  — hand-written, `Model/Bearing.lean`       (C18)
       `Cogo.bearingDistance`     — hand-written, `Model/Cogo.lean`          (C06)
     over three different signatures (`TrigScalar`, `Scalar + Transc`, `Scalar + Trig`).  They are the
     same function on every carrier on which the signatures name the same `atan2` and `M_PI`, up to
     ONE point: the generated text returns `Scalar.ofNat 0` (the C++ literal `0` converted) where the
     two hand-written models write the `Zero` of the carrier; hypothesis `h0`.  At `Float` the
     instances satisfy the `atan2`/`pi` hypotheses by `rfl`, `h0` is `Float.ofNat 0 = 0` (both are the
     double `+0.0`; not provable, `Float` is opaque — executed by `drv_lin`, op `zero`).
  2. the numbering of the unknowns by `project_equations` has the models
       `Lin.IdxState / runEvs / passFrom` (C05; table of non-zero index fields, events of the
                                           regenerated linearisation)
       `MinX.Num / touchG / number`       (C08; index function, reference lists `Obs.refs` written by hand)
     They assign the same index to every unknown and count the same number of unknowns, for every
     observation list, from corresponding states, including the prologue (`resetPass` vs `MinX.reset`).
     This also shows that the hand-written `MinX.Obs.refs` (order of first use, guards `live`) is
     what the generated member functions do.
-/
import Gama.Lemmas.LinPattern
import Gama.Model.Bearing
import Gama.Model.Cogo
import Gama.Model.MinX
namespace Gama.Lin

/-! ### 1. bearing_distance -/

theorem bearingDistance_models_agree {K : Type} [TrigScalar K] [Trig K] [Transc K]
    (h0 : (Scalar.ofNat 0 : K) = 0)
    (hT : ∀ y x : K, Trig.atan2 y x = TrigScalar.atan2 y x) (hTp : (Trig.pi : K) = TrigScalar.pi)
    (hC : ∀ y x : K, Transc.atan2 y x = TrigScalar.atan2 y x) (hCp : (Transc.pi : K) = TrigScalar.pi)
    (ya xa yb xb : K) :
    Bearing.bearingDistance ya xa yb xb = Gen.Lin.bearingDistance ya xa yb xb ∧
    Cogo.bearingDistance ya xa yb xb = Gen.Lin.bearingDistance ya xa yb xb := by
  constructor
  · simp only [Bearing.bearingDistance, Gen.Lin.bearingDistance, Bearing.cut, hC, hCp, h0, decide_eq_true_eq]
  · simp only [Cogo.bearingDistance, Gen.Lin.bearingDistance, Cogo.tiny, Cogo.twoPi, Cogo.two, hT, hTp, h0,
      decide_eq_true_eq]

/-- the `Float` instances of the three signatures name the same libm functions and the same `M_PI` -/
theorem float_instances_agree :
    (∀ y x : Float, (Trig.atan2 y x : Float) = TrigScalar.atan2 y x) ∧ ((Trig.pi : Float) = TrigScalar.pi) ∧
    (∀ y x : Float, (Transc.atan2 y x : Float) = TrigScalar.atan2 y x) ∧ ((Transc.pi : Float) = TrigScalar.pi) :=
  ⟨fun _ _ => rfl, rfl, fun _ _ => rfl, rfl⟩

/-! ### 2. numbering of the unknowns -/

/-! the dictionary between the two models -/

def kindToMinX : Kind → MinX.Kind
  | .direction => .direction | .distance => .distance | .angle => .angle | .h_diff => .h_diff
  | .s_distance => .s_distance | .z_angle => .z_angle | .x => .x | .y => .y | .z => .z
  | .xdiff => .xdiff | .ydiff => .ydiff | .zdiff => .zdiff | .azimuth => .azimuth

def NObs.toMinX {K : Type} (ob : NObs K) : MinX.Obs := ⟨kindToMinX ob.kind, ob.sp, ob.pfrom, ob.pto, ob.pfs⟩

/-- C08's name of an unknown in C05's vocabulary -/
def toLin : MinX.Unk → Unk
  | .ori k => ⟨k, .ori⟩ | .x p => ⟨p, .x⟩ | .y p => ⟨p, .y⟩ | .z p => ⟨p, .z⟩

theorem toLin_inj {a b : MinX.Unk} (h : toLin a = toLin b) : a = b := by
  cases a <;> cases b <;> simp [toLin] at h <;> simp [h]

/-- the unknown (C08 name) a role of the observation stands for -/
def unkOf {K : Type} (ob : NObs K) : Role × Coord → MinX.Unk
  | (.station, _) => .ori ob.sp
  | (.pfrom, .x) => .x ob.pfrom | (.pfrom, .y) => .y ob.pfrom | (.pfrom, .z) => .z ob.pfrom
  | (.pto, .x) => .x ob.pto | (.pto, .y) => .y ob.pto | (.pto, .z) => .z ob.pto
  | (.pfs, .x) => .x ob.pfs | (.pfs, .y) => .y ob.pfs | (.pfs, .z) => .z ob.pfs
  | (.pfrom, .ori) => .ori ob.sp | (.pto, .ori) => .ori ob.sp | (.pfs, .ori) => .ori ob.sp

/-- C08's hand-written reference lists are the touch lists of the generated member functions -/
theorem refs_eq_touchList {K : Type} (ob : NObs K) : ob.toMinX.refs = ob.kind.touchList.map (unkOf ob) := by
  obtain ⟨k, sp, f, t, s, v⟩ := ob
  cases k <;> rfl

/-- the two index states hold the same numbering -/
def Sim (s : IdxState) (n : MinX.Num) : Prop := s.maxn = n.maxn ∧ ∀ u, s.get (toLin u) = n.idx u

theorem Sim.touch {s : IdxState} {n : MinX.Num} (h : Sim s n) (u : MinX.Unk) : Sim (s.touch (toLin u)) (MinX.touch n u) := by
  unfold MinX.touch
  by_cases h0 : n.idx u = 0
  · rw [if_pos h0]
    refine ⟨?_, fun v => ?_⟩
    · unfold IdxState.touch; rw [h.2 u, if_pos h0]; simp [h.1]
    · rw [IdxState.get_touch, h.2 u, h.2 v, h.1]
      by_cases hv : v = u
      · subst hv; simp [h0]
      · have : ¬ toLin v = toLin u := fun e => hv (toLin_inj e)
        simp [hv, this]
  · rw [if_neg h0]
    have : s.touch (toLin u) = s := by unfold IdxState.touch; rw [h.2 u, if_neg h0]
    rw [this]; exact h

/-- the statuses the two models read are the same -/
def FlagsAgree (σ : Net ℝ) (pts : List MinX.PtS) : Prop :=
  ∀ p, (σ.pt p).free_xy = (MinX.xyOf pts p).adjusted ∧ (σ.pt p).free_z = (MinX.zOf pts p).adjusted

theorem live_eq_freeAt (σ : Net ℝ) (pts : List MinX.PtS) (hfl : FlagsAgree σ pts) (ob : NObs ℝ) :
    ∀ rc ∈ ob.kind.touchList, MinX.live pts (unkOf ob rc) = freeAt (σ.view ob) rc := by
  obtain ⟨k, sp, f, t, s, v⟩ := ob
  cases k <;> simp [Kind.touchList, unkOf, MinX.live, freeAt, Obs.pt, Net.view, (hfl _).1, (hfl _).2]

theorem toLin_unkOf (ob : NObs ℝ) : ∀ rc ∈ ob.kind.touchList, toLin (unkOf ob rc) = ob.name rc.1 rc.2 := by
  obtain ⟨k, sp, f, t, s, v⟩ := ob
  cases k <;> simp [Kind.touchList, unkOf, toLin, NObs.name]

/-- folding C05's touches over a sub-list of the touch list = folding C08's guarded touches -/
theorem fold_touch_sim (σ : Net ℝ) (pts : List MinX.PtS) (hfl : FlagsAgree σ pts) (ob : NObs ℝ) :
    ∀ (l : List (Role × Coord)), (∀ rc ∈ l, rc ∈ ob.kind.touchList) → ∀ (s : IdxState) (n : MinX.Num), Sim s n →
      Sim ((l.filter (freeAt (σ.view ob))).foldl (fun s rc => s.touch (ob.name rc.1 rc.2)) s)
          ((l.map (unkOf ob)).foldl (MinX.touchG pts) n) := by
  intro l
  induction l with
  | nil => intro _ s n h; exact h
  | cons rc t ih =>
    intro hl s n h
    have hrc := hl rc (List.mem_cons_self ..)
    have ht : ∀ rc ∈ t, rc ∈ ob.kind.touchList := fun q hq => hl q (List.mem_cons_of_mem _ hq)
    simp only [List.map_cons, List.foldl_cons, List.filter_cons]
    have hl' : MinX.touchG pts n (unkOf ob rc) =
        if freeAt (σ.view ob) rc = true then MinX.touch n (unkOf ob rc) else n := by
      unfold MinX.touchG; rw [live_eq_freeAt σ pts hfl ob rc hrc]
    rw [hl']
    cases hf : freeAt (σ.view ob) rc
    · simpa using ih ht s n h
    · simp only [if_true, List.foldl_cons]
      rw [← toLin_unkOf ob rc hrc]
      exact ih ht _ _ (h.touch _)

/-- **same indices for the same observation list**: a pass of C05's model and the numbering loop
    of C08's model, from corresponding states, end in corresponding states (same index for every
    unknown, same number of unknowns) — whenever the pass does not throw -/
theorem numbering_models_agree (σ : Net ℝ) (pts : List MinX.PtS) (hfl : FlagsAgree σ pts) (fuel : Nat)
    (obs : List (NObs ℝ)) :
    ∀ (s : IdxState) (n : MinX.Num) (res : PassOut ℝ), Sim s n → passFrom σ fuel obs s = .ok res →
      Sim res.idx (MinX.number pts (obs.map NObs.toMinX) n) := by
  induction obs with
  | nil =>
    intro s n res h hp
    simp only [passFrom] at hp; injection hp with hp; subst hp
    exact h
  | cons ob t ih =>
    intro s n res h hp
    obtain ⟨out, r, ho, hr, rfl⟩ := passFrom_cons hp
    have h1 : Sim (runEvs ob.name out.evs s).1 ((ob.toMinX.refs).foldl (MinX.touchG pts) n) := by
      rw [runEvs_state, touches_of_ok ob.kind fuel _ out ho, refs_eq_touchList]
      exact fold_touch_sim σ pts hfl ob _ (fun _ h => h) s n h
    have := ih _ _ r h1 hr
    simpa [MinX.number] using this

/-! the prologue -/

theorem IdxState.get_filter (tab : List (Unk × Nat)) (maxn m : Nat) (keep : Unk → Bool) (u : Unk) :
    (IdxState.mk m (tab.filter (fun e => keep e.1))).get u = if keep u then (IdxState.mk maxn tab).get u else 0 := by
  induction tab with
  | nil => simp [IdxState.get]
  | cons e t ih =>
    simp only [IdxState.get] at ih ⊢
    by_cases hk : keep e.1
    · simp only [List.filter_cons, hk, if_true]
      by_cases he : e.1 = u
      · subst he; simp [hk]
      · simp only [List.find?_cons, he, decide_false]
        exact ih
    · simp only [List.filter_cons, hk]
      by_cases he : e.1 = u
      · subst he
        simp only [Bool.false_eq_true, if_false] at ih ⊢
        simpa [hk] using ih
      · simp only [List.find?_cons, he, decide_false]
        exact ih

/-- the prologue of `project_equations` in the two models: corresponding index fields before,
    corresponding states after (`guard` = `active_xy() || active_z()` of the point) -/
theorem reset_models_agree (pts : List MinX.PtS) (s : IdxState) (idx : MinX.Unk → Nat)
    (h : ∀ u, s.get (toLin u) = idx u) :
    Sim (s.resetPass (fun p => (MinX.xyOf pts p).active || (MinX.zOf pts p).active)) (MinX.reset pts idx) := by
  refine ⟨rfl, fun u => ?_⟩
  have := IdxState.get_filter s.tab s.maxn 0
    (fun v => match v.c with | .ori => false | _ => !((MinX.xyOf pts v.id).active || (MinX.zOf pts v.id).active)) (toLin u)
  have e : s.resetPass (fun p => (MinX.xyOf pts p).active || (MinX.zOf pts p).active) =
      IdxState.mk 0 (s.tab.filter (fun e => (fun v : Unk => match v.c with
        | .ori => false | _ => !((MinX.xyOf pts v.id).active || (MinX.zOf pts v.id).active)) e.1)) := rfl
  rw [e, this]
  have hs : (IdxState.mk s.maxn s.tab) = s := rfl
  rw [hs, h u]
  cases u <;> simp [toLin, MinX.reset, MinX.vis] <;> split <;> simp_all

end Gama.Lin
