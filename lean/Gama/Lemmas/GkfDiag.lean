/-
  "Refused ⇒ located diagnostic" and "a recorded error is never lost" for the GKF parser model.
  The facts about the GENERATED tables (`handlers_guarded`, `start_depth`, `stop_depth`) are proved by
  `decide`; they fail to check when the C++ has a handler that assigns `state` after a failed check,
  or an end-tag case that sets `state_error` without calling `error()` for an open element.
-/
import Gama.Lemmas.Gkf
namespace Gama.Gkf

/-- every check in a handler skeleton is immediately followed by "return if it failed" -/
def opsGuarded : List Op → Bool
  | [] => true
  | .attrs _ :: .retIfFailed :: r => opsGuarded r
  | .needXYorZ :: .retIfFailed :: r => opsGuarded r
  | .attrs _ :: _ => false
  | .needXYorZ :: _ => false
  | .retIfFailed :: r => opsGuarded r
  | .setState _ :: r => opsGuarded r
  | .ret :: _ => true

/-- state after a handler none of whose checks fails -/
def opsFinal : List Op → State → State
  | [], s => s
  | .setState x :: r, _ => opsFinal r x
  | .ret :: _, s => s
  | _ :: r, s => opsFinal r s

theorem handlers_guarded : ∀ h : Handler, opsGuarded (handlerOps h) = true := forall_handler (by decide)

/-- with guarded checks: either no error was recorded and the handler ran to its end,
    or an error is recorded and the state is `state_error` -/
theorem execOps_guarded (ops : List Op) (as : List Attr) (d : Bool) :
    ∀ st : St, opsGuarded ops = true → st.err = none →
      ((execOps ops as d st false).err = none ∧ (execOps ops as d st false).state = opsFinal ops st.state) ∨
      ((execOps ops as d st false).err.isSome ∧ (execOps ops as d st false).state = .error_) := by
  induction ops using opsGuarded.induct with
  | case1 => intro st _ h; left; simp [execOps, opsFinal, h]
  | case2 hd r ih =>
    intro st hg h
    simp only [opsGuarded] at hg
    simp only [execOps]
    split
    · simpa [opsFinal] using ih st hg h
    · right
      rw [error_of_none _ h]; simp
  | case3 r ih =>
    intro st hg h
    simp only [opsGuarded] at hg
    simp only [execOps]
    split
    · simpa [opsFinal] using ih st hg h
    · right
      rw [error_of_none _ h]; simp
  | case4 hd r hne => intro st hg; simp [opsGuarded] at hg
  | case5 r hne => intro st hg; simp [opsGuarded] at hg
  | case6 r ih =>
    intro st hg h
    simp only [opsGuarded] at hg
    simpa [execOps, opsFinal] using ih st hg h
  | case7 s r ih =>
    intro st hg h
    simp only [opsGuarded] at hg
    simpa [execOps, opsFinal] using ih { st with state := s } hg (by simpa using h)
  | case8 r => intro st _ h; left; simp [execOps, opsFinal, h]

/-! ### a recorded error is never lost -/

def ErrImpliesErrorState (st : St) : Prop := st.err.isSome → st.state = .error_

theorem react_errImplies (st : St) (ev : Event) (hI : ErrImpliesErrorState st) : ErrImpliesErrorState (react st ev) := by
  unfold ErrImpliesErrorState at *
  cases herr : st.err with
  | some e =>
    have hs := hI (by simp [herr])
    intro _
    exact react_error_absorbing st ev hs
  | none =>
    cases ev with
    | start t as d =>
      simp only [react]
      split
      · rename_i hd _
        rcases execOps_guarded (handlerOps hd) as d st (handlers_guarded hd) herr with ⟨h1, _⟩ | ⟨_, h2⟩
        · intro h; rw [h1] at h; cases h
        · intro _; exact h2
      · simp [herr]
      · intro _; rw [error_of_none _ herr]
      · simp [herr]
    | stop d =>
      simp only [react]
      split
      · split
        · simp [herr]
        · split
          · simp [herr]
          · intro _; rw [error_of_none _ (by simpa using herr)]
      · intro _; rw [error_of_none _ herr]
      · simp [herr]
    | text s =>
      simp only [react]; split
      · simp [herr]
      · intro _; rw [error_of_none _ herr]

theorem run_errImplies (evs : List Event) : ∀ st, ErrImpliesErrorState st → ErrImpliesErrorState (run st evs) := by
  induction evs with
  | nil => intro st h; exact h
  | cons e es ih =>
    intro st h; rw [run_cons]; apply ih
    have := react_errImplies st e h
    simpa [ErrImpliesErrorState, step] using this

/-! ### refused ⇒ the diagnostic has a line (for well-nested event sequences) -/

/-- number of open elements when the automaton is in state `s` (hand-written; `error_` arbitrary) -/
def depthOf : State → Nat
  | .error_ => 0 | .start_ => 0 | .stop_ => 0
  | .gama_xml => 1 | .network => 2
  | .description => 3 | .parameters => 3 | .point_obs => 3
  | .point_ => 4 | .obs => 4 | .coords => 4 | .hdiffs => 4 | .vectors => 4
  | .obs_after_cov => 4 | .coords_after_cov => 4 | .hdiffs_after_cov => 4 | .vectors_after_cov => 4
  | .obs_direction => 5 | .obs_distance => 5 | .obs_angle => 5 | .obs_sdistance => 5 | .obs_zangle => 5
  | .obs_azimuth => 5 | .obs_cov => 5 | .coords_point => 5 | .coords_cov => 5
  | .hdiffs_dh => 5 | .hdiffs_cov => 5 | .vectors_vec => 5 | .vectors_cov => 5

def startDepthOk (s : State) (t : Tag) : Bool :=
  match start s t with
  | .run h => depthOf (opsFinal (handlerOps h) s) == depthOf s + 1
  | .set s' => depthOf s' == depthOf s + 1
  | .err _ => true
  | .ignore => false

def stopDepthOk (s : State) : Bool :=
  match stop s with
  | .goto s' _ => depthOf s' + 1 == depthOf s && s' != .error_
  | .fail _ => true
  | .silent => false

theorem start_depth : ∀ (s : State) (t : Tag), s ≠ .error_ → startDepthOk s t = true := by
  have h : ∀ s, Tag.all.all (fun t => decide (s ≠ .error_ → startDepthOk s t = true)) = true := forall_state (by decide)
  intro s t
  exact forall_tag (p := fun t => s ≠ .error_ → startDepthOk s t = true) (h s) t

/-- an end tag arriving while an element is open never leads to `state_error` without `error()` -/
theorem stop_depth : ∀ s : State, s ≠ .error_ → 0 < depthOf s → stopDepthOk s = true :=
  forall_state (p := fun s => s ≠ .error_ → 0 < depthOf s → stopDepthOk s = true) (by decide)

/-- nesting depth after a sequence of events; `none` if an end tag arrives with nothing open -/
def depthAfter : List Event → Nat → Option Nat
  | [], d => some d
  | .start _ _ _ :: r, d => depthAfter r (d + 1)
  | .stop _ :: r, d => if d = 0 then none else depthAfter r (d - 1)
  | .text _ :: r, d => depthAfter r d

/-- `state == 0 ⇔ errCode != 0`, and the automaton tracks the nesting depth -/
structure Located (st : St) (d : Nat) : Prop where
  err_of_error : st.state = .error_ → st.err.isSome
  ok : st.state ≠ .error_ → st.err = none ∧ depthOf st.state = d

theorem located_error_of_none {st : St} (h : st.err = none) (k : ErrKind) (d : Nat) : Located (st.error k) d := by
  rw [error_of_none k h]
  exact ⟨fun _ => rfl, fun hne => absurd rfl hne⟩

theorem depthOf_error_of_pos {s : State} (h : 0 < depthOf s) : s ≠ .error_ := by
  intro he; rw [he] at h; exact absurd h (by decide)

theorem react_located (st : St) (ev : Event) (d d' : Nat) (hL : Located st d)
    (hd : depthAfter [ev] d = some d') : Located (react st ev) d' := by
  by_cases hs : st.state = .error_
  · -- already refused: stays refused, the recorded error is kept
    obtain ⟨e, he⟩ := Option.isSome_iff_exists.mp (hL.err_of_error hs)
    have h1 := react_error_absorbing st ev hs
    have h2 := react_err_preserved st ev he
    exact ⟨fun _ => by simp [h2], fun hne => absurd h1 hne⟩
  · obtain ⟨herr, hdep⟩ := hL.ok hs
    cases ev with
    | start t as dd =>
      have hd' : d' = d + 1 := by simp [depthAfter] at hd; omega
      have hsd := start_depth st.state t hs
      simp only [react]
      unfold startDepthOk at hsd
      split
      · rename_i hh heq
        rw [heq] at hsd
        simp only [beq_iff_eq] at hsd
        rcases execOps_guarded (handlerOps hh) as dd st (handlers_guarded hh) herr with ⟨h1, h2⟩ | ⟨h1, h2⟩
        · refine ⟨fun he => ?_, fun _ => ⟨h1, ?_⟩⟩
          · rw [h2] at he
            have : depthOf (opsFinal (handlerOps hh) st.state) = 0 := by rw [he]; rfl
            omega
          · rw [h2, hsd, hdep, hd']
        · exact ⟨fun _ => h1, fun hne => absurd h2 hne⟩
      · rename_i s' heq
        rw [heq] at hsd
        simp only [beq_iff_eq] at hsd
        refine ⟨fun he => ?_, fun _ => ⟨by simpa using herr, ?_⟩⟩
        · simp only at he
          have : depthOf s' = 0 := by rw [he]; rfl
          omega
        · simp only; rw [hsd, hdep, hd']
      · exact located_error_of_none herr _ _
      · rename_i heq; rw [heq] at hsd; cases hsd
    | stop dd =>
      have hd0 : d ≠ 0 := by intro h0; simp [depthAfter, h0] at hd
      have hd' : d' = d - 1 := by simp [depthAfter, hd0] at hd; omega
      have hst := stop_depth st.state hs (by omega)
      simp only [react]
      unfold stopDepthOk at hst
      split
      · rename_i s' f heq
        rw [heq] at hst
        simp only [Bool.and_eq_true, beq_iff_eq, bne_iff_ne, ne_eq] at hst
        have hL1 : Located { st with state := s' } d' :=
          ⟨fun he => absurd he hst.2, fun _ => ⟨by simpa using herr, by simp only; omega⟩⟩
        split
        · exact hL1
        · split
          · exact hL1
          · exact located_error_of_none (by simpa using herr) _ _
      · exact located_error_of_none herr _ _
      · rename_i heq; rw [heq] at hst; cases hst
    | text cs =>
      have hd' : d' = d := by simp [depthAfter] at hd; omega
      simp only [react]
      split
      · rw [hd']; exact hL
      · exact located_error_of_none herr _ _

theorem step_located (st : St) (ev : Event) (d d' : Nat) (hL : Located st d)
    (hd : depthAfter [ev] d = some d') : Located (step st ev) d' := by
  have := react_located st ev d d' hL hd
  exact ⟨fun h => by simpa [step] using this.err_of_error (by simpa [step] using h),
         fun h => by simpa [step] using this.ok (by simpa [step] using h)⟩

theorem depthAfter_cons (ev : Event) (r : List Event) (d : Nat) :
    depthAfter (ev :: r) d = (depthAfter [ev] d).bind (depthAfter r) := by
  cases ev <;> simp [depthAfter]
  split <;> simp

theorem run_located (evs : List Event) : ∀ (st : St) (d d' : Nat), Located st d →
    depthAfter evs d = some d' → Located (run st evs) d' := by
  induction evs with
  | nil => intro st d d' h hd; simp [depthAfter] at hd; subst hd; exact h
  | cons e es ih =>
    intro st d d' h hd
    rw [depthAfter_cons] at hd
    cases h1 : depthAfter [e] d with
    | none => rw [h1] at hd; cases hd
    | some d1 =>
      rw [h1] at hd
      rw [run_cons]
      exact ih _ d1 d' (step_located st e d d1 h h1) (by simpa using hd)

theorem init_located : Located St.init 0 :=
  ⟨fun h => absurd h (by decide), fun _ => ⟨rfl, rfl⟩⟩

end Gama.Gkf
