/-
  C12 round 4 / C03 row 11 — the writer site of the covariance matrix, taken from the REGENERATED format table
  (`Gen/FormatSites.lean`, tools/gen/c12_formats.py: symbolic execution of `LocalNetworkXML::write`'s cov-mat loop):
  every xml entry of a group "cov(i,j)" evaluates to `m_0()·m_0()·qxx(ind[i],ind[j])`.
-/
import Gama.Lemmas.FormatExpr
import Gama.Gen.FormatSites
namespace Gama.XmlCovSite
open Gama.FormatExpr Gama.Gen.FormatSites

/-- number of an accessor atom in the regenerated table -/
def atomIx (name : String) : Nat := atomNames.idxOf name

/-- the accessor atoms of the covariance site -/
def aM0 : Nat := atomIx "net.m_0()"
def aQxx : Nat := atomIx "net.qxx(ind[i],ind[j])"

/-- `g` is a group of the quantity "cov(i,j)" and `e` its XML writer's entry -/
def IsCovXml (g : Group) (e : Entry) : Prop :=
  g ∈ groups ∧ g.q = "cov(i,j)" ∧ e ∈ g.entries ∧ e.base = "xml"

/-- the check on the regenerated table (evaluated by the kernel on the tree being checked): both atoms exist, and
    every xml entry of every "cov(i,j)" group has the normal form of `m_0 · m_0 · qxx` -/
def covTableOK : Bool :=
  atomNames.contains "net.m_0()" && atomNames.contains "net.qxx(ind[i],ind[j])" &&
  groups.all fun g => g.q != "cov(i,j)" ||
    g.entries.all fun e => e.base != "xml" ||
      decide (canon e.expr = canon (.mul (.mul (.atom aM0) (.atom aM0)) (.atom aQxx)))

/-- at least one such site exists (the XML writer does print the matrix) -/
def covSiteExists : Bool :=
  groups.any fun g => g.q == "cov(i,j)" && g.entries.any fun e => e.base == "xml"

variable {K : Type} [CommRing K]

/-- **the value the XML writer streams at the covariance site** is `m_0()² · qxx(ind[i],ind[j])` for every
    valuation of the accessors — read off the regenerated table -/
theorem covXml_eval (hT : covTableOK = true) {g : Group} {e : Entry} (h : IsCovXml g e) (inv ρ : Nat → K) :
    eval inv ρ e.expr = ρ aM0 * ρ aM0 * ρ aQxx := by
  obtain ⟨hg, hq, he, hb⟩ := h
  simp only [covTableOK, Bool.and_eq_true, List.all_eq_true, Bool.or_eq_true, bne_iff_ne, ne_eq,
    decide_eq_true_eq] at hT
  have h1 := hT.2 g hg
  rcases h1 with h1 | h1
  · exact absurd hq h1
  · rcases h1 e he with h2 | h2
    · exact absurd hb h2
    · rw [canon_sound inv ρ h2]; rfl

end Gama.XmlCovSite
