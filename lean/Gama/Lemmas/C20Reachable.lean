/-
  `peOn R base` — the executed `project_equations()` world `peWorld base` restricted to a set `R` of configurations (the empty
  response elsewhere, as `peWorld` itself gives for a failed call).  The per-configuration hypothesis of the C20/C02 theorems
  (`NetHyp alg np`) is then needed on `R` only (`peOn_sound`, `peOn_hdim`), and on networks of a set `R` closed under the
  decision layer's own steps (`NetDecision.Closed`) the decision is the one of the unrestricted world (`peOn_decide`).
-/
import Gama.Lemmas.C20ObsNet
import Gama.Lemmas.NetDecisionRestrict
namespace Gama.Ls.Net
open Gama Gama.Ls Gama.LS Gama.NetDecision Matrix Gama.PE

section R
variable {K : Type} [Field K] [LinearOrder K] [IsStrictOrderedRing K] [Gso.SqrtField K]
attribute [local instance] sqrtFnOfSqrtField
attribute [local instance 2000] scalarOfField

open Classical in
/-- `peWorld base` on the configurations of `R`, the empty response elsewhere -/
noncomputable def peOn (t : TrigFns K) (R : NetDecision.Net → Prop) (base : PE.Net K) :
    NetDecision.Net → ProjEq (Option (NetProblem K)) := fun dnet =>
  if R dnet then @peWorld K (trigOfField t) base dnet else ⟨dnet, [], [], 0, 0, none⟩

theorem peOn_pos (t : TrigFns K) (R : NetDecision.Net → Prop) (base : PE.Net K) (dnet : NetDecision.Net) (h : R dnet) :
    peOn t R base dnet = @peWorld K (trigOfField t) base dnet := by
  unfold peOn; rw [if_pos h]

theorem peOn_neg (t : TrigFns K) (R : NetDecision.Net → Prop) (base : PE.Net K) (dnet : NetDecision.Net) (h : ¬ R dnet) :
    peOn t R base dnet = ⟨dnet, [], [], 0, 0, none⟩ := by
  unfold peOn; rw [if_neg h]

/-- `Sound` on every configuration of the restricted world, from `NetHyp` on `R` only -/
theorem peOn_sound (t : TrigFns K) (R : NetDecision.Net → Prop) (base : PE.Net K) (alg : Alg) (halg : alg ≠ .svd)
    (hH : ∀ dnet, R dnet → ∀ np, (@peWorld K (trigOfField t) base dnet).prob = some np → NetHyp alg np)
    (dnet : NetDecision.Net) :
    (obsNet alg (peOn t R base dnet).prob).Sound (linO (peOn t R base dnet).prob).A (linO (peOn t R base dnet).prob).S := by
  by_cases h : R dnet
  · rw [peOn_pos t R base dnet h]
    refine obsNet_sound_opt alg halg _ (fun np hp => ?_)
    obtain ⟨hacc, hdim, _, hr⟩ := peWorld_facts t base dnet np hp
    exact ⟨(hH dnet h np hp).shape hacc hdim hr, (hH dnet h np hp).first, (hH dnet h np hp).second⟩
  · rw [peOn_neg t R base dnet h]
    exact obsNet_sound_opt alg halg _ (fun np hp => by cases hp)

theorem peOn_hdim (t : TrigFns K) (R : NetDecision.Net → Prop) (base : PE.Net K) (hds : DirFromStation base)
    (dnet : NetDecision.Net) :
    (linO (peOn t R base dnet).prob).n = (peOn t R base dnet).unknowns.length := by
  by_cases h : R dnet
  · rw [peOn_pos t R base dnet h]; exact peWorld_hdim t base hds dnet
  · rw [peOn_neg t R base dnet h]; rfl

/-- on a closed set the restricted world decides as the executed one -/
theorem peOn_decide (t : TrigFns K) (R : NetDecision.Net → Prop) (base : PE.Net K) (alg : Alg) (m0 : K)
    (hc : Closed R ((worldOf (@peWorld K (trigOfField t) base) (obsNet alg)).abs m0)) (net : NetDecision.Net) (hn : R net) :
    NetDecision.decide m0 (worldOf (@peWorld K (trigOfField t) base) (obsNet alg)) net
      = NetDecision.decide m0 (worldOf (peOn t R base) (obsNet alg)) net := by
  unfold NetDecision.decide
  refine decideA_congr (R := R) (fun n hn' => ?_) hc net hn
  unfold World.abs worldOf
  rw [peOn_pos t R base n hn']

end R

section sub
variable {K : Type}

/-- revision of points / `singular_coords` (`PtLe`: same id, same z status, xy status kept or made unused), read at the
    decision layer's statuses -/
theorem subOf_of_ptLe (ps qs : List (PE.Point K)) (h : List.Forall₂ PtLe ps qs) : SubOf (dnetOfPts ps) (dnetOfPts qs) := by
  induction h with
  | nil => exact .nil
  | @cons p q ps qs hpq _ ih =>
    refine .cons ⟨hpq.1, ?_, ?_⟩ ih
    · rcases hpq.2.2 with e | e
      · exact Or.inl (by show cstat q.pt.sxy = cstat p.pt.sxy; rw [e])
      · exact Or.inr (by show cstat q.pt.sxy = .unused; rw [e]; rfl)
    · exact Or.inl (by show cstat q.pt.sz = cstat p.pt.sz; rw [hpq.2.1])

/-- **`project_equations()` only makes coordinate groups unused**: the points it returns are a sub-configuration of
    the points it was given — every configuration, every base network -/
theorem peWorld_subOf [TrigScalar K] (base : PE.Net K) (dnet : NetDecision.Net) :
    SubOf dnet (peWorld base dnet).net := by
  unfold peWorld
  split
  · cases h : projectEquations (withStatuses base dnet) with
    | error e => exact SubOf.refl dnet
    | ok r =>
      obtain ⟨np, u⟩ := r
      simp only []
      obtain ⟨net, a, F⟩ := pe_final _ np u h
      have hpts : u.net.points = net.points := by rw [F.u_net]
      have hb : List.Forall₂ PtLe (mkPts base 0 dnet) net.points := F.below.pts
      have := subOf_of_ptLe _ _ hb
      rw [dnetOf_mkPts base dnet 0, ← hpts] at this
      exact this
  · exact SubOf.refl dnet

end sub

section closed
variable {K : Type} [Field K] [LinearOrder K] [IsStrictOrderedRing K] [Gso.SqrtField K]
attribute [local instance] sqrtFnOfSqrtField
attribute [local instance 2000] scalarOfField

/-- **the sub-configurations of a network are closed under everything the decision layer does** with the executed world -/
theorem closed_subOf (t : TrigFns K) (base : PE.Net K) (alg : Alg) (m0 : K) (net : NetDecision.Net) :
    Closed (SubOf net) ((worldOf (@peWorld K (trigOfField t) base) (obsNet alg)).abs m0) :=
  ⟨fun n h => h.trans (@peWorld_subOf K (trigOfField t) base n), fun a _ h => h.hugePass a,
   fun pid c _ h => h.mapStrip pid c⟩

end closed
end Gama.Ls.Net
