/-
  Source tie of the ellipsoid model (C18, round 7).

  `Gen/EllipsoidExpr.lean` is rewritten from lib/gnu_gama/ellipsoid.{h,cpp} on every run of the check
  (tools/gen/c18_ellipsoid.py): one Lean definition per member function, one line per C++ statement.
  Here every function of the hand model `Model/Ellipsoid.lean` — the object of all C18 theorems — is proved
  EQUAL to the regenerated function, for every scalar type (so for `Float`, which the driver runs, and for `ℝ`,
  which the theorems are about).  A changed sign, factor, operand, guard, branch or statement order in the C++
  changes the right-hand side and the proof below fails.

  Core Lean only (no Mathlib): the equalities are definitional up to case splits on the `if`s of the code.
-/
import Gama.Model.Ellipsoid
import Gama.Gen.EllipsoidExpr
namespace Gama.Ellipsoid
open Gama Scalar Transc
variable {K : Type} [Scalar K]

/-- the structure has exactly the data members the class declares -/
theorem members_eq_gen :
    Gen.Ell.members = ["A", "B", "ff", "n", "e2", "e22", "Ime2", "Ipe22", "AIme2", "AB"] := rfl

theorem setAbff1_eq_gen (pa pb pf pf1 : K) : setAbff1 pa pb pf pf1 = Gen.Ell.set_abff1 pa pb pf pf1 := by
  unfold setAbff1 Gen.Ell.set_abff1
  by_cases h1 : (!(Scalar.beq pb 0)) = true
  · simp only [h1, ↓reduceIte]; rfl
  · by_cases h2 : (!(Scalar.beq pf 0)) = true
    · simp only [h1, h2, ↓reduceIte]; rfl
    · simp only [h1, h2, ↓reduceIte]; rfl

/-- the three setters a table row can call -/
def ofRowGen (r : Gen.EllRow) : Ellipsoid K :=
  match r.kind with
  | .ab  => Gen.Ell.set_ab  (lit r.a) (lit r.p)
  | .af  => Gen.Ell.set_af  (lit r.a) (lit r.p)
  | .af1 => Gen.Ell.set_af1 (lit r.a) (lit r.p)

theorem setAb_eq_gen (pa pb : K) : setAb pa pb = Gen.Ell.set_ab pa pb := setAbff1_eq_gen ..
theorem setAf_eq_gen (pa pf : K) : setAf pa pf = Gen.Ell.set_af pa pf := setAbff1_eq_gen ..
theorem setAf1_eq_gen (pa pf : K) : setAf1 pa pf = Gen.Ell.set_af1 pa pf := setAbff1_eq_gen ..

theorem ofRow_eq_gen (r : Gen.EllRow) : (ofRow r : Ellipsoid K) = ofRowGen r := by
  unfold ofRow ofRowGen
  cases r.kind
  · exact setAb_eq_gen ..
  · exact setAf_eq_gen ..
  · exact setAf1_eq_gen ..

variable [Transc K]

theorem W_eq_gen (e : Ellipsoid K) (b : K) : e.W b = Gen.Ell.W e b := rfl
theorem N_eq_gen (e : Ellipsoid K) (b : K) : e.N b = Gen.Ell.N e b := rfl
theorem M_eq_gen (e : Ellipsoid K) (b : K) : e.M b = Gen.Ell.M e b := rfl
theorem V_eq_gen (e : Ellipsoid K) (b : K) : e.V b = Gen.Ell.V e b := rfl
theorem F_eq_gen (e : Ellipsoid K) (b : K) : e.F b = Gen.Ell.F e b := rfl

theorem blh2xyz_eq_gen (e : Ellipsoid K) (b l h : K) : e.blh2xyz b l h = Gen.Ell.blh2xyz e b l h := rfl

/-- the second pass with the clamp switched on, the guard written as the C++ writes it -/
theorem bowring2_clamped (e : Ellipsoid K) (x z b : K) :
    bowring2 true e x z b =
      (let sin_u := e.Ime2 * e.N b / e.B * sin b
       let sin2_u := sin_u * sin_u
       let cos2_u := 1 - sin2_u
       let cos2_u := if cos2_u < 0 then 0 else cos2_u
       let cos_u := Scalar.sqrt cos2_u
       let yx := e.bowringYX x z sin_u sin2_u cos_u cos2_u
       atan2 yx.1 yx.2) := by
  unfold bowring2
  simp only [Bool.true_and, decide_eq_true_eq]

/-- `xyz2blh` of the current tree: `atan2`, the axis branch (poles, early return), the first Bowring pass, the
    second pass with its clamp, the two height formulas -/
theorem xyz2blh_eq_gen (e : Ellipsoid K) (x y z : K) : e.xyz2blh x y z = Gen.Ell.xyz2blh e x y z := by
  unfold xyz2blh xyz2blhWith Gen.Ell.xyz2blh axisDist
  by_cases h1 : Scalar.abs y < Scalar.abs x
  · simp only [h1, ↓reduceIte, Gen.bowringClamp, bowring2_clamped]; rfl
  · by_cases h2 : (!(Scalar.beq (Scalar.abs y) 0)) = true
    · simp only [h1, h2, ↓reduceIte, Gen.bowringClamp, bowring2_clamped]; rfl
    · by_cases h3 : (0 : K) < z
      · simp only [h1, h2, h3, ↓reduceIte]; rfl
      · simp only [h1, h2, h3, ↓reduceIte]; rfl

end Gama.Ellipsoid
