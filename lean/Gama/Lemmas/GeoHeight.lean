/-
  C18: (a) pole / longitude hypotheses discharged for terrestrial ellipsoids and `h ≥ −10 km`;
       (b) the HEIGHT returned by `xyz2blh ∘ blh2xyz` off the surface, as a function of the latitude
           error: `|h' − h| ≤ 2·(N+h)·|sin(B − φ)|` for either height formula the code selects
           (`x/cos B − N(B)` when `|z| < x`, `z/sin B − (1−e²)N(B)` otherwise).

  (b) by elementary estimates over ℝ.  With `δ = B − φ`, `s = sin δ`, `c = cos δ > 0`, `|s| ≤ 1/100`:
    cos φ = cos B·c + sin B·s, sin φ = sin B·c − cos B·s, hence `|cos φ − cos B|, |sin φ − sin B| ≤ 1.01|s|`;
    the branch condition gives `cos φ ≥ 0.6` (first formula) resp. `|sin φ| ≥ 0.7` (second), so the divisor
    `cos B` resp. `sin B` is ≥ 0.59 resp. 0.69 in absolute value;
    `|N(φ) − N(B)| ≤ 0.012·(N+h)·|s|` from `W² = 1 − e² sin²`, `W ≥ 0.99`.
-/
import Gama.Lemmas.GeoBowring
namespace Gama.Ellipsoid
open Real

/-! ### (a) poles and longitude -/

/-- for `e² ≤ 0.0105`, `a ≥ 6.3·10⁶`, `h ≥ −10⁴`: the hypotheses `hh` of `C18_blh_pole` and `hn` of
    `C18_lon` hold at every latitude -/
theorem pole_lon_hyps {e : Ellipsoid ℝ} (w : WF e) (he2 : e.e2 ≤ 105 / 10000) (hA1 : 6300000 ≤ e.A)
    {h : ℝ} (hh1 : -10000 ≤ h) (b : ℝ) :
    0 < e.N b * e.Ime2 + h ∧ 0 < e.N b + h := by
  have hAN := w.A_le_N b
  have hI : 9895 / 10000 ≤ e.Ime2 := by rw [w.hIme2]; linarith
  have hN : 0 < e.N b := w.N_pos b
  have : 6300000 * (9895 / 10000) ≤ e.N b * e.Ime2 :=
    mul_le_mul (by linarith) hI (by norm_num) hN.le
  constructor <;> nlinarith

/-! ### (b) height -/

/-- `cos δ > 0`, `|sin δ| ≤ 1/100`: `1 − cos δ ≤ sin² δ` and `cos δ ≤ 1` -/
theorem one_sub_cos_le {c s : ℝ} (hcs : c * c + s * s = 1) (hc : 0 < c) : 1 - c ≤ s * s ∧ c ≤ 1 := by
  have hc1 : c ≤ 1 := by nlinarith [mul_self_nonneg s]
  constructor
  · nlinarith
  · exact hc1

/-- a quotient close to 1: `|n − d| ≤ k`, `m ≤ |d|`, `m > 0` ⟹ `|ρ·n/d − ρ| ≤ ρ·k/m` -/
theorem quot_close {ρ n d k m : ℝ} (hρ : 0 ≤ ρ) (hm : 0 < m) (hd : m ≤ |d|) (hk : |n - d| ≤ k) :
    |ρ * n / d - ρ| ≤ ρ * k / m := by
  have hd0 : d ≠ 0 := by
    intro h; rw [h, abs_zero] at hd; linarith
  have hdpos : 0 < |d| := abs_pos.mpr hd0
  have e1 : ρ * n / d - ρ = ρ * (n - d) / d := by field_simp
  rw [e1, abs_div, abs_mul, abs_of_nonneg hρ, div_le_div_iff₀ hdpos hm]
  have hk0 : 0 ≤ k := le_trans (abs_nonneg _) hk
  calc ρ * |n - d| * m ≤ ρ * k * m := by gcongr
    _ ≤ ρ * k * |d| := by gcongr

/-- the trigonometric facts used below, for `δ = B − φ` -/
theorem trig_shift (B φ : ℝ) :
    Real.cos φ = Real.cos B * Real.cos (B - φ) + Real.sin B * Real.sin (B - φ) ∧
    Real.sin φ = Real.sin B * Real.cos (B - φ) - Real.cos B * Real.sin (B - φ) := by
  have h1 : φ = B - (B - φ) := by ring
  constructor
  · conv_lhs => rw [h1, Real.cos_sub]
  · conv_lhs => rw [h1, Real.sin_sub]

/-- `|cos φ − cos B| ≤ 1.01·|sin δ|` and `|sin φ − sin B| ≤ 1.01·|sin δ|` -/
theorem trig_close {B φ : ℝ} (hs : |Real.sin (B - φ)| ≤ 1 / 100) (hc : 0 < Real.cos (B - φ)) :
    |Real.cos φ - Real.cos B| ≤ 101 / 100 * |Real.sin (B - φ)| ∧
    |Real.sin φ - Real.sin B| ≤ 101 / 100 * |Real.sin (B - φ)| := by
  obtain ⟨e1, e2⟩ := trig_shift B φ
  set c := Real.cos (B - φ) with hcdef
  set s := Real.sin (B - φ) with hsdef
  have hcs : c * c + s * s = 1 := by
    have := Real.sin_sq_add_cos_sq (B - φ); nlinarith
  obtain ⟨h1c, hc1⟩ := one_sub_cos_le hcs hc
  have hss : s * s ≤ 1 / 100 * |s| := by
    rw [← abs_mul_abs_self s]
    exact mul_le_mul_of_nonneg_right hs (abs_nonneg _)
  have hcB : |Real.cos B| ≤ 1 := Real.abs_cos_le_one B
  have hsB : |Real.sin B| ≤ 1 := Real.abs_sin_le_one B
  have h1mc : |c - 1| = 1 - c := by rw [abs_sub_comm, abs_of_nonneg (by linarith)]
  constructor
  · have : Real.cos φ - Real.cos B = Real.cos B * (c - 1) + Real.sin B * s := by rw [e1]; ring
    rw [this]
    calc |Real.cos B * (c - 1) + Real.sin B * s|
        ≤ |Real.cos B * (c - 1)| + |Real.sin B * s| := abs_add_le _ _
      _ = |Real.cos B| * (1 - c) + |Real.sin B| * |s| := by rw [abs_mul, abs_mul, h1mc]
      _ ≤ 1 * (1 - c) + 1 * |s| := by
          have := abs_nonneg s
          gcongr
      _ ≤ 101 / 100 * |s| := by linarith
  · have : Real.sin φ - Real.sin B = Real.sin B * (c - 1) - Real.cos B * s := by rw [e2]; ring
    rw [this]
    calc |Real.sin B * (c - 1) - Real.cos B * s|
        ≤ |Real.sin B * (c - 1)| + |Real.cos B * s| := abs_sub _ _
      _ = |Real.sin B| * (1 - c) + |Real.cos B| * |s| := by rw [abs_mul, abs_mul, h1mc]
      _ ≤ 1 * (1 - c) + 1 * |s| := by
          have := abs_nonneg s
          gcongr
      _ ≤ 101 / 100 * |s| := by linarith

/-- `W ≥ 0.99` for `e² ≤ 0.0105` -/
theorem W_ge {e : Ellipsoid ℝ} (w : WF e) (he2 : e.e2 ≤ 105 / 10000) (b : ℝ) : 99 / 100 ≤ e.W b := by
  have hW := w.W_pos b
  have hsq := w.W_sq b
  have h0 := w.e2_nonneg
  have hs : Real.sin b * Real.sin b ≤ 1 := by nlinarith [Real.sin_sq_add_cos_sq b, sq_nonneg (Real.cos b)]
  have hs0 : 0 ≤ Real.sin b * Real.sin b := mul_self_nonneg _
  have : e.e2 * Real.sin b * Real.sin b ≤ 105 / 10000 := by
    calc e.e2 * Real.sin b * Real.sin b = e.e2 * (Real.sin b * Real.sin b) := by ring
      _ ≤ 105 / 10000 * 1 := mul_le_mul he2 hs hs0 (by norm_num)
      _ = 105 / 10000 := by ring
  by_contra hcon
  replace hcon := not_le.mp hcon
  have : e.W b * e.W b < 99 / 100 * (99 / 100) := mul_lt_mul'' hcon hcon hW.le hW.le
  linarith

/-- the prime-vertical radius at the returned latitude: `|N(φ) − N(B)| ≤ 0.011·a·|sin(B − φ)|` -/
theorem N_close {e : Ellipsoid ℝ} (w : WF e) (he2 : e.e2 ≤ 105 / 10000) {B φ : ℝ}
    (hs : |Real.sin (B - φ)| ≤ 1 / 100) (hc : 0 < Real.cos (B - φ)) :
    |e.N φ - e.N B| ≤ 11 / 1000 * e.A * |Real.sin (B - φ)| := by
  obtain ⟨-, hsin⟩ := trig_close hs hc
  set t := |Real.sin (B - φ)| with ht
  have ht0 : 0 ≤ t := abs_nonneg _
  have hA := w.hA
  have hWφ := w.W_pos φ; have hWB := w.W_pos B
  have gφ := W_ge w he2 φ; have gB := W_ge w he2 B
  have sqφ := w.W_sq φ; have sqB := w.W_sq B
  have h0 := w.e2_nonneg
  set Wφ := e.W φ; set WB := e.W B
  have hprod : (WB - Wφ) * (WB + Wφ) = e.e2 * ((Real.sin φ - Real.sin B) * (Real.sin φ + Real.sin B)) := by
    have : (WB - Wφ) * (WB + Wφ) = WB * WB - Wφ * Wφ := by ring
    rw [this, sqφ, sqB]; ring
  have hsum : |Real.sin φ + Real.sin B| ≤ 2 := by
    calc |Real.sin φ + Real.sin B| ≤ |Real.sin φ| + |Real.sin B| := abs_add_le _ _
      _ ≤ 1 + 1 := add_le_add (Real.abs_sin_le_one _) (Real.abs_sin_le_one _)
      _ = 2 := by norm_num
  have hD : |WB - Wφ| * (WB + Wφ) ≤ 2121 / 100000 * t := by
    have hpos : 0 ≤ WB + Wφ := by linarith
    calc |WB - Wφ| * (WB + Wφ) = |(WB - Wφ) * (WB + Wφ)| := by rw [abs_mul, abs_of_nonneg hpos]
      _ = e.e2 * (|Real.sin φ - Real.sin B| * |Real.sin φ + Real.sin B|) := by
          rw [hprod, abs_mul, abs_mul, abs_of_nonneg h0]
      _ ≤ 105 / 10000 * (101 / 100 * t * 2) := by gcongr
      _ = 2121 / 100000 * t := by ring
  have hD2 : |WB - Wφ| ≤ 10713 / 1000000 * t := by
    have h1 : |WB - Wφ| * (198 / 100) ≤ |WB - Wφ| * (WB + Wφ) :=
      mul_le_mul_of_nonneg_left (by linarith) (abs_nonneg _)
    linarith
  have hWW : 9801 / 10000 ≤ Wφ * WB := by
    calc (9801 : ℝ) / 10000 = 99 / 100 * (99 / 100) := by norm_num
      _ ≤ Wφ * WB := mul_le_mul gφ gB (by norm_num) hWφ.le
  have hN : e.N φ - e.N B = e.A * (WB - Wφ) / (Wφ * WB) := by
    rw [N_real, N_real]
    show e.A / Wφ - e.A / WB = _
    field_simp
  rw [hN, abs_div, abs_mul, abs_of_pos hA, abs_of_pos (mul_pos hWφ hWB), div_le_iff₀ (mul_pos hWφ hWB)]
  have hAt : 0 ≤ 11 / 1000 * e.A * t := by positivity
  calc e.A * |WB - Wφ| ≤ e.A * (10713 / 1000000 * t) := mul_le_mul_of_nonneg_left hD2 hA.le
    _ ≤ 11 / 1000 * e.A * t * (9801 / 10000) := by nlinarith [mul_nonneg hA.le ht0]
    _ ≤ 11 / 1000 * e.A * t * (Wφ * WB) := mul_le_mul_of_nonneg_left hWW hAt

/-- **height error as a function of the latitude error.**  For the point of latitude `φ`, height `h`
    (`cos φ > 0`, `N + h > 0`, `N ≤ 1.002·(N + h)` — e.g. `h ≥ −10 km` on a terrestrial ellipsoid) and ANY
    latitude `B` with `|sin(B − φ)| ≤ 1/100`, `cos(B − φ) > 0`: whichever of the two formulas `heightOf`
    selects, the height it returns differs from `h` by at most `2·(N + h)·|sin(B − φ)|`. -/
theorem heightOf_error {e : Ellipsoid ℝ} (w : WF e) (he2 : e.e2 ≤ 105 / 10000) {φ h B : ℝ}
    (hcφ : 0 < Real.cos φ) (hρ : 0 < e.N φ + h) (hNρ : e.N φ ≤ 1002 / 1000 * (e.N φ + h))
    (hs : |Real.sin (B - φ)| ≤ 1 / 100) (hc : 0 < Real.cos (B - φ)) :
    |e.heightOf ((e.N φ + h) * Real.cos φ) ((e.N φ * e.Ime2 + h) * Real.sin φ) B - h|
      ≤ 2 * ((e.N φ + h) * |Real.sin (B - φ)|) := by
  obtain ⟨hcos, hsin⟩ := trig_close hs hc
  have hΔ := N_close w he2 hs hc
  obtain ⟨e1, e2⟩ := trig_shift B φ
  have hcs : Real.cos (B - φ) * Real.cos (B - φ) + Real.sin (B - φ) * Real.sin (B - φ) = 1 := by
    have := Real.sin_sq_add_cos_sq (B - φ); nlinarith
  obtain ⟨-, hc1⟩ := one_sub_cos_le hcs hc
  have hφ1 : Real.cos φ * Real.cos φ + Real.sin φ * Real.sin φ = 1 := by
    have := Real.sin_sq_add_cos_sq φ; nlinarith
  set t := |Real.sin (B - φ)| with ht
  set c := Real.cos (B - φ) with hcdef
  have ht0 : 0 ≤ t := abs_nonneg _
  have hst : |Real.sin (B - φ)| = t := rfl
  have hN := w.N_pos φ
  have hAN := w.A_le_N φ
  have h0 := w.e2_nonneg
  have hI1 := w.Ime2_le_one
  have hIpos := w.Ime2_pos
  set ρ := e.N φ + h with hρdef
  set R := e.N φ * e.Ime2 + h with hRdef
  have hRle : R ≤ ρ := by
    have : e.N φ * e.Ime2 ≤ e.N φ * 1 := mul_le_mul_of_nonneg_left hI1 hN.le
    rw [hRdef, hρdef]; linarith
  have hRge : 98 / 100 * ρ ≤ R := by
    have hR' : R = ρ - e.e2 * e.N φ := by rw [hRdef, hρdef, w.hIme2]; ring
    have : e.e2 * e.N φ ≤ 105 / 10000 * (1002 / 1000 * ρ) := mul_le_mul he2 hNρ hN.le (by norm_num)
    rw [hR']; linarith
  have hRpos : 0 < R := by linarith
  -- |N(φ) − N(B)| ≤ 0.012·ρ·t
  have hΔ' : |e.N φ - e.N B| ≤ 12 / 1000 * (ρ * t) := by
    have hAρ : e.A ≤ 1002 / 1000 * ρ := le_trans hAN hNρ
    calc |e.N φ - e.N B| ≤ 11 / 1000 * e.A * t := hΔ
      _ ≤ 11 / 1000 * (1002 / 1000 * ρ) * t := by gcongr
      _ ≤ 12 / 1000 * (ρ * t) := by nlinarith [mul_nonneg hρ.le ht0]
  have hρt : 0 ≤ ρ * t := mul_nonneg hρ.le ht0
  unfold heightOf
  simp only [scalar_abs_real, transc_cos_real, transc_sin_real]
  split_ifs with hx
  · -- first formula: x / cos B − N(B)
    have hcφ6 : 6 / 10 ≤ Real.cos φ := by
      obtain ⟨hx1, hx2⟩ := abs_lt.mp hx
      have h1 : (R * Real.sin φ) ^ 2 < (ρ * Real.cos φ) ^ 2 := sq_lt_sq' hx1 hx2
      have h2 : (98 / 100 * ρ) ^ 2 ≤ R ^ 2 := pow_le_pow_left₀ (by positivity) hRge 2
      have h3 : (98 / 100 * ρ) ^ 2 * (Real.sin φ) ^ 2 ≤ (R * Real.sin φ) ^ 2 := by
        calc (98 / 100 * ρ) ^ 2 * (Real.sin φ) ^ 2 ≤ R ^ 2 * (Real.sin φ) ^ 2 :=
              mul_le_mul_of_nonneg_right h2 (sq_nonneg _)
          _ = (R * Real.sin φ) ^ 2 := by ring
      have h4 : ρ ^ 2 * ((98 / 100) ^ 2 * (Real.sin φ) ^ 2) < ρ ^ 2 * (Real.cos φ) ^ 2 := by
        calc ρ ^ 2 * ((98 / 100) ^ 2 * (Real.sin φ) ^ 2) = (98 / 100 * ρ) ^ 2 * (Real.sin φ) ^ 2 := by ring
          _ ≤ (R * Real.sin φ) ^ 2 := h3
          _ < (ρ * Real.cos φ) ^ 2 := h1
          _ = ρ ^ 2 * (Real.cos φ) ^ 2 := by ring
      have h5 : (98 / 100) ^ 2 * (Real.sin φ) ^ 2 < (Real.cos φ) ^ 2 :=
        lt_of_mul_lt_mul_left h4 (sq_nonneg ρ)
      by_contra hcon
      replace hcon := not_le.mp hcon
      have : Real.cos φ * Real.cos φ < 6 / 10 * (6 / 10) := mul_lt_mul'' hcon hcon hcφ.le hcφ.le
      rw [sq (Real.sin φ), sq (Real.cos φ)] at h5
      norm_num at h5
      linarith
    have hcB : 59 / 100 ≤ |Real.cos B| := by
      have hprod : 59 / 100 ≤ Real.cos B * c := by
        have hsb : Real.sin B * Real.sin (B - φ) ≤ t := by
          calc Real.sin B * Real.sin (B - φ) ≤ |Real.sin B * Real.sin (B - φ)| := le_abs_self _
            _ = |Real.sin B| * t := by rw [abs_mul]
            _ ≤ 1 * t := mul_le_mul_of_nonneg_right (Real.abs_sin_le_one B) ht0
            _ = t := one_mul t
        have : Real.cos B * c = Real.cos φ - Real.sin B * Real.sin (B - φ) := by rw [e1]; ring
        rw [this]; linarith
      by_contra hcon
      replace hcon := not_le.mp hcon
      have hcb : Real.cos B < 59 / 100 := lt_of_le_of_lt (le_abs_self _) hcon
      have : Real.cos B * c < 59 / 100 * c := mul_lt_mul_of_pos_right hcb hc
      linarith
    have hq := quot_close (ρ := ρ) (n := Real.cos φ) (d := Real.cos B) (k := 101 / 100 * t) (m := 59 / 100)
      hρ.le (by norm_num) hcB hcos
    have hsplit : ρ * Real.cos φ / Real.cos B - e.N B - h
        = (ρ * Real.cos φ / Real.cos B - ρ) + (e.N φ - e.N B) := by rw [hρdef]; ring
    rw [hsplit]
    calc |ρ * Real.cos φ / Real.cos B - ρ + (e.N φ - e.N B)|
        ≤ |ρ * Real.cos φ / Real.cos B - ρ| + |e.N φ - e.N B| := abs_add_le _ _
      _ ≤ ρ * (101 / 100 * t) / (59 / 100) + 12 / 1000 * (ρ * t) := add_le_add hq hΔ'
      _ = (101 / 59 + 12 / 1000) * (ρ * t) := by ring
      _ ≤ 2 * (ρ * t) := mul_le_mul_of_nonneg_right (by norm_num) hρt
  · -- second formula: z / sin B − (1−e²)·N(B)
    have hsφ7 : 7 / 10 ≤ |Real.sin φ| := by
      replace hx := not_lt.mp hx
      rw [abs_mul, abs_of_pos hRpos] at hx
      have h1 : ρ * Real.cos φ ≤ ρ * |Real.sin φ| :=
        le_trans hx (mul_le_mul_of_nonneg_right hRle (abs_nonneg _))
      have h2 : Real.cos φ ≤ |Real.sin φ| := le_of_mul_le_mul_left h1 hρ
      have h3 : Real.cos φ * Real.cos φ ≤ |Real.sin φ| * |Real.sin φ| :=
        mul_le_mul h2 h2 hcφ.le (abs_nonneg _)
      rw [abs_mul_abs_self] at h3
      by_contra hcon
      replace hcon := not_le.mp hcon
      have : |Real.sin φ| * |Real.sin φ| < 7 / 10 * (7 / 10) :=
        mul_lt_mul'' hcon hcon (abs_nonneg _) (abs_nonneg _)
      rw [abs_mul_abs_self] at this
      linarith
    have hsB : 69 / 100 ≤ |Real.sin B| := by
      have hprod : 69 / 100 ≤ |Real.sin B| * c := by
        have hcb : |Real.cos B * Real.sin (B - φ)| ≤ t := by
          rw [abs_mul]
          calc |Real.cos B| * t ≤ 1 * t := mul_le_mul_of_nonneg_right (Real.abs_cos_le_one B) ht0
            _ = t := one_mul t
        have : Real.sin B * c = Real.sin φ + Real.cos B * Real.sin (B - φ) := by rw [e2]; ring
        have h1 : |Real.sin B| * c = |Real.sin φ + Real.cos B * Real.sin (B - φ)| := by
          rw [← this, abs_mul, abs_of_pos hc]
        rw [h1]
        have h2 : |Real.sin φ| - |Real.cos B * Real.sin (B - φ)| ≤ |Real.sin φ + Real.cos B * Real.sin (B - φ)| := by
          have := abs_sub_abs_le_abs_sub (Real.sin φ) (-(Real.cos B * Real.sin (B - φ)))
          rw [abs_neg, sub_neg_eq_add] at this
          exact this
        linarith
      by_contra hcon
      replace hcon := not_le.mp hcon
      have : |Real.sin B| * c < 69 / 100 * c := mul_lt_mul_of_pos_right hcon hc
      linarith
    have hq := quot_close (ρ := R) (n := Real.sin φ) (d := Real.sin B) (k := 101 / 100 * t) (m := 69 / 100)
      hRpos.le (by norm_num) hsB hsin
    have hsplit : R * Real.sin φ / Real.sin B - e.Ime2 * e.N B - h
        = (R * Real.sin φ / Real.sin B - R) + e.Ime2 * (e.N φ - e.N B) := by rw [hRdef]; ring
    rw [hsplit]
    have hIΔ : |e.Ime2 * (e.N φ - e.N B)| ≤ 12 / 1000 * (ρ * t) := by
      rw [abs_mul, abs_of_pos hIpos]
      calc e.Ime2 * |e.N φ - e.N B| ≤ 1 * |e.N φ - e.N B| := mul_le_mul_of_nonneg_right hI1 (abs_nonneg _)
        _ = |e.N φ - e.N B| := one_mul _
        _ ≤ 12 / 1000 * (ρ * t) := hΔ'
    have hRt : R * (101 / 100 * t) / (69 / 100) ≤ 101 / 69 * (ρ * t) := by
      have : R * (101 / 100 * t) / (69 / 100) = 101 / 69 * (R * t) := by ring
      rw [this]
      exact mul_le_mul_of_nonneg_left (mul_le_mul_of_nonneg_right hRle ht0) (by norm_num)
    calc |R * Real.sin φ / Real.sin B - R + e.Ime2 * (e.N φ - e.N B)|
        ≤ |R * Real.sin φ / Real.sin B - R| + |e.Ime2 * (e.N φ - e.N B)| := abs_add_le _ _
      _ ≤ 101 / 69 * (ρ * t) + 12 / 1000 * (ρ * t) := add_le_add (le_trans hq hRt) hIΔ
      _ = (101 / 69 + 12 / 1000) * (ρ * t) := by ring
      _ ≤ 2 * (ρ * t) := mul_le_mul_of_nonneg_right (by norm_num) hρt

/-! ### the whole triple, terrestrial ellipsoids, −10 km ≤ h ≤ 20 000 km -/

theorem final_numeric' {K R s0 T : ℝ} (hK0 : 0 ≤ K) (hK : K ≤ 3 / 100) (hR0 : 0 ≤ R) (hR : R ≤ 1011 / 1000)
    (hs0 : 0 ≤ s0) (hs : s0 ≤ 107 / 10000) (hT : T ≤ 26500000) :
    T * (K * R * (K * s0 ^ 2) ^ 2) < 1 / 100000 := by
  calc T * (K * R * (K * s0 ^ 2) ^ 2)
      ≤ 26500000 * (3 / 100 * (1011 / 1000) * (3 / 100 * (107 / 10000) ^ 2) ^ 2) := by gcongr
    _ < 1 / 100000 := by norm_num

/-- the latitude bound of `bowring_submm` with its actual size: `(N+h)·|sin ΔB| < 10⁻⁵ m` -/
theorem bowring_10um (clamp : Bool) {e : Ellipsoid ℝ} (w : WF e) (he2 : e.e2 ≤ 105 / 10000)
    (hA1 : 6300000 ≤ e.A) (hA2 : e.A ≤ 6400000) {φ l h : ℝ} (hh1 : -10000 ≤ h) (hh2 : h ≤ 20000000)
    (hc : 0 < Real.cos φ) (hl : l ∈ Set.Ioc (-π) π) :
    (e.N φ + h) * |Real.sin ((xyz2blhWith clamp e ((e.N φ + h) * Real.cos φ * Real.cos l)
        ((e.N φ + h) * Real.cos φ * Real.sin l) ((e.N φ * e.Ime2 + h) * Real.sin φ)).1 - φ)| < 1 / 100000 ∧
    0 < Real.cos ((xyz2blhWith clamp e ((e.N φ + h) * Real.cos φ * Real.cos l)
        ((e.N φ + h) * Real.cos φ * Real.sin l) ((e.N φ * e.Ime2 + h) * Real.sin φ)).1 - φ) := by
  have hA := w.hA; have hB := w.hB
  obtain ⟨hBA99, hv, hD6, hK3, hAB⟩ := numeric_facts hB w.hBA he2 w.e22_nonneg hA1 hA2 hh1
    w.hIme2 w.BB_eq w.e22_mul_BB
  have hD : 0 < bowringD e h := by unfold bowringD; linarith
  have hKle : bowringK e h ≤ 3 / 100 := by unfold bowringK bowringD; exact hK3
  have hK0 := bowringK_nonneg w hD
  obtain ⟨-, -, hNh⟩ := bowringD_pos_facts w φ hD
  have hAN := w.A_le_N φ
  have hN : e.N φ ≤ 6500000 := by
    have hW := w.W_pos φ
    have hNW : e.N φ * e.W φ = e.A := by rw [N_real]; field_simp
    have h1 := w.B_le_A_mul_W φ
    have hNpos := w.N_pos φ
    have h2 : e.N φ * e.B ≤ e.A * e.A := by
      calc e.N φ * e.B ≤ e.N φ * (e.A * e.W φ) := mul_le_mul_of_nonneg_left h1 hNpos.le
        _ = e.A * (e.N φ * e.W φ) := by ring
        _ = e.A * e.A := by rw [hNW]
    have h3 : e.N φ * (99 / 100 * e.A) ≤ e.N φ * e.B := mul_le_mul_of_nonneg_left hBA99 hNpos.le
    have h4 : e.A * (99 / 100 * e.N φ) ≤ e.A * e.A := by linarith
    have h5 : 99 / 100 * e.N φ ≤ e.A := le_of_mul_le_mul_left h4 hA
    linarith
  have hs0 : 0 ≤ e.e22 * |h| / (e.N φ + h) := by
    have := w.e22_nonneg; have := abs_nonneg h; positivity
  have hs : e.e22 * |h| / (e.N φ + h) ≤ 107 / 10000 := by
    rw [div_le_iff₀ hNh]
    have hhN : |h| ≤ e.N φ + h := by
      rw [abs_le]; constructor <;> linarith
    calc e.e22 * |h| ≤ e.e22 * (e.N φ + h) := mul_le_mul_of_nonneg_left hhN w.e22_nonneg
      _ ≤ 107 / 10000 * (e.N φ + h) := mul_le_mul_of_nonneg_right hv hNh.le
  have hmain := bowring_two_pass_error clamp w hc hD hl
  have hfin := final_numeric' hK0 hKle (sq_nonneg (e.A / e.B)) hAB hs0 hs (by linarith : e.N φ + h ≤ 26500000)
  exact ⟨lt_of_le_of_lt (mul_le_mul_of_nonneg_left hmain hNh.le) hfin, bowring_two_pass_cos_pos clamp w hc hD hl⟩

/-- **the off-surface round trip as ONE statement**: for `e² ≤ 0.0105`, `6.3·10⁶ ≤ a ≤ 6.4·10⁶`,
    `−10 km ≤ h ≤ 20 000 km`, every latitude off the poles and every longitude in `(−π, π]`, the triple
    returned by `xyz2blh ∘ blh2xyz` has
    latitude within `10⁻⁵ m` of arc at radius `N + h` (and less than a right angle off),
    the longitude EXACTLY, and the height within `2·(N+h)·|sin ΔB| < 2·10⁻⁵ m`. -/
theorem roundtrip_offsurface (clamp : Bool) {e : Ellipsoid ℝ} (w : WF e) (he2 : e.e2 ≤ 105 / 10000)
    (hA1 : 6300000 ≤ e.A) (hA2 : e.A ≤ 6400000) {φ l h : ℝ} (hh1 : -10000 ≤ h) (hh2 : h ≤ 20000000)
    (hc : 0 < Real.cos φ) (hl : l ∈ Set.Ioc (-π) π) :
    let r := xyz2blhWith clamp e ((e.N φ + h) * Real.cos φ * Real.cos l)
        ((e.N φ + h) * Real.cos φ * Real.sin l) ((e.N φ * e.Ime2 + h) * Real.sin φ)
    ((e.N φ + h) * |Real.sin (r.1 - φ)| < 1 / 100000 ∧ 0 < Real.cos (r.1 - φ)) ∧
    r.2.1 = l ∧
    (|r.2.2 - h| ≤ 2 * ((e.N φ + h) * |Real.sin (r.1 - φ)|) ∧ |r.2.2 - h| < 2 / 100000) := by
  intro r
  obtain ⟨hlat, hcos⟩ := bowring_10um clamp w he2 hA1 hA2 hh1 hh2 hc hl
  obtain ⟨-, hρ⟩ := pole_lon_hyps w he2 hA1 hh1 φ
  have hAN := w.A_le_N φ
  have hr : r = _ := xyz2blh_blh2xyz clamp e hc hρ hl
  have hNρ : e.N φ ≤ 1002 / 1000 * (e.N φ + h) := by linarith
  have hs : |Real.sin (r.1 - φ)| ≤ 1 / 100 := by
    by_contra hcon
    replace hcon := not_le.mp hcon
    have h1 : (e.N φ + h) * (1 / 100) < (e.N φ + h) * |Real.sin (r.1 - φ)| :=
      mul_lt_mul_of_pos_left hcon hρ
    have : (6290000 : ℝ) ≤ e.N φ + h := by linarith
    linarith [show (e.N φ + h) * |Real.sin (r.1 - φ)| < 1 / 100000 from hlat]
  have hheight := heightOf_error w he2 (B := r.1) hc hρ hNρ hs hcos
  have hr1 : r.1 = e.bowring2 clamp ((e.N φ + h) * Real.cos φ) ((e.N φ * e.Ime2 + h) * Real.sin φ)
      (e.bowring1 ((e.N φ + h) * Real.cos φ) ((e.N φ * e.Ime2 + h) * Real.sin φ)) := by rw [hr]
  have hr3 : r.2.2 = e.heightOf ((e.N φ + h) * Real.cos φ) ((e.N φ * e.Ime2 + h) * Real.sin φ) r.1 := by
    rw [hr1]; rw [hr]
  refine ⟨⟨hlat, hcos⟩, by rw [hr], ?_, ?_⟩
  · rw [hr3]; exact hheight
  · rw [hr3]
    have : (e.N φ + h) * |Real.sin (r.1 - φ)| < 1 / 100000 := hlat
    linarith

end Gama.Ellipsoid
