/-
  C05 — the vocabulary of the statements in `Gama/Props/C05.lean` (definitions only):

  * ℝ as an instance of the scalar signatures the generated linearisation is written over
    (`sqrt := Real.sqrt`, `atan2 y x := Complex.arg (x + i y)`, `acos := Real.arccos`,
    `M_PI := π`, comparisons decided classically);
  * the observation functions (metres / radians) and gama's units (mm, cc);
  * `bump` — move one coordinate of one point (or the orientation) — and `IsPartial…`,
    "`v` is the partial derivative of the observation function wrt that unknown, in
    gama's units".
-/
import Mathlib.Analysis.SpecialFunctions.Complex.LogDeriv
import Mathlib.Analysis.SpecialFunctions.Trigonometric.InverseDeriv
import Mathlib.Analysis.SpecialFunctions.Sqrt
import Gama.Gen.Linearization
import Gama.Lemmas.RealScalar
namespace Gama

/- `Scalar ℝ` (`Gama.instScalarReal`) and the priority of its parent projections are declared once,
   in `Lemmas/RealScalar.lean`, shared with the C09 and C17/C18 lemma files. -/

noncomputable instance instTrigScalarReal : TrigScalar ℝ where
  sin := Real.sin
  cos := Real.cos
  atan2 y x := Complex.arg ⟨x, y⟩
  acos := Real.arccos
  pi := Real.pi

namespace Lin
open Real

/-! ### units -/

/-- cc per radian (`R2CC = 200.0E4/M_PI`) -/
noncomputable def R2CC : ℝ := 2000000 / π
/-- mm per metre -/
def MM : ℝ := 1000
/-- the cut-off of `bearing_distance` (`d < 1e-6` metres: bearing and distance are zeroed) -/
noncomputable def CUT : ℝ := 1 / 10 ^ 6
/-- half circle and full circle in cc -/
def HALF : ℝ := 2000000
def FULL : ℝ := 4000000

/-! ### geometry read from an observation record -/

def dX (o : Obs ℝ) : ℝ := o.pto.x - o.pfrom.x
def dY (o : Obs ℝ) : ℝ := o.pto.y - o.pfrom.y
def dZ (o : Obs ℝ) : ℝ := o.pto.z - o.pfrom.z
/-- foresight of an angle -/
def dX2 (o : Obs ℝ) : ℝ := o.pfs.x - o.pfrom.x
def dY2 (o : Obs ℝ) : ℝ := o.pfs.y - o.pfrom.y

/-- observed coordinates -/
def fromX (o : Obs ℝ) : ℝ := o.pfrom.x
def fromY (o : Obs ℝ) : ℝ := o.pfrom.y
def fromZ (o : Obs ℝ) : ℝ := o.pfrom.z

/-- horizontal distance from → to -/
noncomputable def hdist (o : Obs ℝ) : ℝ := Real.sqrt (dX o * dX o + dY o * dY o)
/-- horizontal distance from → fs -/
noncomputable def hdist2 (o : Obs ℝ) : ℝ := Real.sqrt (dX2 o * dX2 o + dY2 o * dY2 o)
/-- slope distance from → to -/
noncomputable def sdist (o : Obs ℝ) : ℝ := Real.sqrt (dX o * dX o + dY o * dY o + dZ o * dZ o)
/-- zenith angle from → to -/
noncomputable def zenith (o : Obs ℝ) : ℝ := Real.arccos (dZ o / sdist o)

/-- `θ` is a polar angle of the plane vector `(x, y)` (x towards bearing 0, y towards π/2) -/
def IsPolarAngle (x y θ : ℝ) : Prop :=
  x = Real.sqrt (x * x + y * y) * Real.cos θ ∧ y = Real.sqrt (x * x + y * y) * Real.sin θ

/-- the bearing as bearing.cpp computes it: `s = atan2(y, x); s >= 0 ? s : s + 2*M_PI` -/
noncomputable def brg (x y : ℝ) : ℝ :=
  if 0 ≤ Complex.arg ⟨x, y⟩ then Complex.arg ⟨x, y⟩ else Complex.arg ⟨x, y⟩ + 2 * π

/-- the angle bs → fs at the station, as the code forms it: `ds = s2 - s1; if (ds < 0) ds += 2π` -/
noncomputable def angleBsFs (o : Obs ℝ) : ℝ :=
  let ds := brg (dX2 o) (dY2 o) - brg (dX o) (dY o)
  if ds < 0 then ds + 2 * π else ds

/-- the value the zenith-angle code compares the observation with
    (`if (obs->value() > M_PI) za = 2*M_PI - za`) -/
noncomputable def zenithComputed (o : Obs ℝ) : ℝ :=
  if π < o.value then 2 * π - zenith o else zenith o

/-! ### moving one unknown -/

def bumpPt (p : Pt ℝ) (c : Coord) (h : ℝ) : Pt ℝ :=
  match c with
  | .x => { p with x := p.x + h }
  | .y => { p with y := p.y + h }
  | .z => { p with z := p.z + h }
  | .ori => p

/-- add `h` (metres) to coordinate `c` of the point in role `r`; `(station, ori)`: add `h`
    (radians) to the orientation -/
def bump (o : Obs ℝ) (r : Role) (c : Coord) (h : ℝ) : Obs ℝ :=
  match r with
  | .pfrom => { o with pfrom := bumpPt o.pfrom c h }
  | .pto => { o with pto := bumpPt o.pto c h }
  | .pfs => { o with pfs := bumpPt o.pfs c h }
  | .station => match c with
    | .ori => { o with orientation := o.orientation + h }
    | _ => o

/-- gama's unknowns: coordinate corrections in mm, orientation corrections in cc -/
noncomputable def unitOf : Coord → ℝ
  | .ori => R2CC
  | _ => MM

/-- the observation record after the unknown `(r, c)` received the correction `t` (mm / cc) -/
noncomputable def bumpU (o : Obs ℝ) (r : Role) (c : Coord) (t : ℝ) : Obs ℝ := bump o r c (t / unitOf c)

/-- `v` = ∂(unit · F)/∂(unknown (r,c)) at the linearisation point -/
def IsPartial (unit : ℝ) (F : Obs ℝ → ℝ) (o : Obs ℝ) (r : Role) (c : Coord) (v : ℝ) : Prop :=
  HasDerivAt (fun t => unit * F (bumpU o r c t)) v 0

/-- the same for a direction-like function `θ(vec) - off` where `θ` is *any* differentiable
    choice of polar angle of `vec` that starts at the code's bearing (no branch cut is
    imposed on the statement) -/
def IsPartialBearing (vec : Obs ℝ → ℝ × ℝ) (off : Obs ℝ → ℝ) (o : Obs ℝ) (r : Role) (c : Coord) (v : ℝ) : Prop :=
  ∃ θ : ℝ → ℝ, θ 0 = brg (vec o).1 (vec o).2 ∧
    (∀ t, IsPolarAngle (vec (bumpU o r c t)).1 (vec (bumpU o r c t)).2 (θ t)) ∧
    HasDerivAt (fun t => R2CC * (θ t - off (bumpU o r c t))) v 0

/-- the same for the angle `θ₂(from→fs) - θ₁(from→bs)` -/
def IsPartialAngle (o : Obs ℝ) (r : Role) (c : Coord) (v : ℝ) : Prop :=
  ∃ θ₁ θ₂ : ℝ → ℝ, θ₁ 0 = brg (dX o) (dY o) ∧ θ₂ 0 = brg (dX2 o) (dY2 o) ∧
    (∀ t, IsPolarAngle (dX (bumpU o r c t)) (dY (bumpU o r c t)) (θ₁ t)) ∧
    (∀ t, IsPolarAngle (dX2 (bumpU o r c t)) (dY2 (bumpU o r c t)) (θ₂ t)) ∧
    HasDerivAt (fun t => R2CC * (θ₂ t - θ₁ t)) v 0

/-! ### several roles naming one and the same point (angle with bs = fs, from = to) -/

/-- move coordinate `c` of all the roles in `S` together -/
def bumpSet (o : Obs ℝ) (S : List Role) (c : Coord) (h : ℝ) : Obs ℝ := S.foldl (fun o r => bump o r c h) o
noncomputable def bumpSetU (o : Obs ℝ) (S : List Role) (c : Coord) (t : ℝ) : Obs ℝ := bumpSet o S c (t / unitOf c)

/-- what the design matrix holds for the unknown after the pushes of all roles in `S` are added
    into its one column (`Envelope::set` sums repeated column indices) -/
def coeffSum (l : List (Role × Coord × ℝ)) (S : List Role) (c : Coord) : ℝ :=
  ((l.filter (fun p => decide (p.1 ∈ S) && decide (p.2.1 = c))).map (fun p => p.2.2)).sum

def IsPartialSet (unit : ℝ) (F : Obs ℝ → ℝ) (o : Obs ℝ) (S : List Role) (c : Coord) (v : ℝ) : Prop :=
  HasDerivAt (fun t => unit * F (bumpSetU o S c t)) v 0

def IsPartialAngleSet (o : Obs ℝ) (S : List Role) (c : Coord) (v : ℝ) : Prop :=
  ∃ θ₁ θ₂ : ℝ → ℝ, θ₁ 0 = brg (dX o) (dY o) ∧ θ₂ 0 = brg (dX2 o) (dY2 o) ∧
    (∀ t, IsPolarAngle (dX (bumpSetU o S c t)) (dY (bumpSetU o S c t)) (θ₁ t)) ∧
    (∀ t, IsPolarAngle (dX2 (bumpSetU o S c t)) (dY2 (bumpSetU o S c t)) (θ₂ t)) ∧
    HasDerivAt (fun t => R2CC * (θ₂ t - θ₁ t)) v 0

/-- is the unknown `(r, c)` adjusted (free or constrained)?  The orientation always is. -/
def freeAt (o : Obs ℝ) : Role × Coord → Bool
  | (.station, .ori) => true
  | (.station, _) => false
  | (r, .x) => (o.pt r).free_xy
  | (r, .y) => (o.pt r).free_xy
  | (r, .z) => (o.pt r).free_z
  | (_, .ori) => false

/-- the unknowns a list of pushes refers to, in order -/
def targets (l : List (Role × Coord × ℝ)) : List (Role × Coord) := l.map (fun p => (p.1, p.2.1))

/-- `r ≡ a (mod 400 gon)` and `-200 gon < r ≤ 200 gon` — the half-open range the two `while`
    loops (`a > 200e4`, `a <= -200e4`) reduce an angular misclosure to -/
def IsWrapOf (a r : ℝ) : Prop := (∃ k : ℤ, r = a - k * FULL) ∧ -HALF < r ∧ r ≤ HALF

/-- sign of the second-face branch of the zenith-angle code (`obs->value() > M_PI`) -/
noncomputable def zsign (o : Obs ℝ) : ℝ := if π < o.value then -1 else 1

end Lin
end Gama
