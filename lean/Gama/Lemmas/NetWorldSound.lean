/-
  Second specification of a solver's observable answers (`SolverObs.Sound`, linear algebra over the
  design matrix) and what it gives the decision layer:

    * `Sound.counted`           — the two facts `Lemmas/NetWorld.lean` needs (`RefusalFlags`);
    * `Sound.defect_eq`, `Sound.refused_eq` — two sound solvers agree on defect and refusal;
    * `flagged_in_support`, `never_flagged`, `greedy_last_iff` — WHICH unknowns can be flagged: exactly
      those in the support of the kernel; an algorithm that flags "column ∈ span of the columns
      processed before it" flags ANY prescribed unknown of the support if it processes it last.
      This is the content of finding F7: the flagged set is the complement of a column basis chosen
      greedily in the algorithm's processing order (gso: natural order; envelope: reverse
      Cuthill–McKee order; Cholesky: order of its diagonal pivoting), the FIRST flagged unknown is the
      smallest index of that set, and `null_space` removes ITS point;
    * `worldOf_sim_of_first`, `worldOf_sim_single_class` — two sound solvers with equal cofactors give
      `WorldA.Sim` worlds if the first flagged unknowns cause the same removal, in particular when
      the support of the kernel lies in one point (one removal class).
-/
import Gama.Lemmas.NetWorld
import Gama.Lemmas.NetAgree
import Gama.Lemmas.LS.Defs
import Mathlib.LinearAlgebra.Matrix.Rank
namespace Gama.NetDecision
open Gama Gama.Ls Gama.LS Matrix

section Pre
variable {K : Type} [Scalar K] {P : Type}

theorem indexOf_le (us : List Unknown) (pid : String) (t : UType) : indexOf us pid t ≤ us.length := by
  unfold indexOf
  cases hf : us.findIdx? (fun u => u.pid == pid && u.type == t) with
  | none => simp
  | some k =>
    obtain ⟨hk, -⟩ := List.findIdx?_eq_some_iff_getElem.1 hf
    simp; omega

theorem sigmaOf_congr (m0 : K) (v v' : View K) (i : Nat) (h : i ≠ 0 → v.qxx i = v'.qxx i) :
    sigmaOf m0 v i = sigmaOf m0 v' i := by
  unfold sigmaOf
  by_cases hi : i = 0
  · simp [hi]
  · simp [hi, h hi]

theorem hugeDecision_congr (m0 : K) (v v' : View K) (hu : v.unknowns = v'.unknowns)
    (hq : ∀ i, 1 ≤ i → i ≤ v.unknowns.length → v.qxx i = v'.qxx i) (Pt : Point) :
    hugeDecision m0 v Pt = hugeDecision m0 v' Pt := by
  have hs : ∀ t, sigmaOf m0 v (indexOf v.unknowns Pt.id t) = sigmaOf m0 v' (indexOf v'.unknowns Pt.id t) := by
    intro t
    rw [← hu]
    apply sigmaOf_congr
    intro hi
    exact hq _ (by omega) (indexOf_le _ _ _)
  unfold hugeDecision
  rw [hs .X, hs .Y, hs .Z]

/-- the first flagged unknown of a derived world -/
theorem firstUnknown_viewOf (m0 : K) (q : ProjEq P) (o : SolverObs K) :
    firstUnknown ((viewOf q o).abs m0) =
      match flaggedOf q.unknowns.length o.lindep with
      | [] => none
      | i :: _ => q.unknowns[i - 1]? := rfl

/-- if every flagged unknown causes the removal `rc`, the first one does -/
theorem first_of_class (m0 : K) (q : ProjEq P) (o : SolverObs K) (rc : String × Rm)
    (hcount : (flaggedOf q.unknowns.length o.lindep).length = o.defect)
    (hcls : ∀ i u, o.lindep (i + 1) = true → q.unknowns[i]? = some u → removalOf u = rc) :
    (firstUnknown ((viewOf q o).abs m0)).map removalOf = if o.defect = 0 then none else some rc := by
  rw [firstUnknown_viewOf]
  cases hfl : flaggedOf q.unknowns.length o.lindep with
  | nil => rw [hfl] at hcount; simp at hcount; simp [← hcount]
  | cons i t =>
    have hi : i ∈ flaggedOf q.unknowns.length o.lindep := by rw [hfl]; exact List.mem_cons_self ..
    obtain ⟨h1, h2, h3⟩ := mem_flaggedOf.1 hi
    have hlt : i - 1 < q.unknowns.length := by omega
    have hd : o.defect ≠ 0 := by rw [← hcount, hfl]; simp
    simp only [List.getElem?_eq_getElem hlt, Option.map_some, if_neg hd]
    congr 1
    exact hcls (i - 1) _ (by rw [Nat.sub_add_cancel h1]; exact h3) (List.getElem?_eq_getElem hlt)

end Pre

-- the `Scalar K` of the world and the `Field K` of the specification are deliberately unrelated: the
-- theorems below never mix their operations (the decision layer only COMPARES cofactors)
set_option linter.overlappingInstances false

variable {K : Type} [Field K]

/-- the linear problem behind what `project_equations()` feeds the solver -/
structure LinProb (K : Type) where
  m : Nat
  n : Nat
  A : Matrix (Fin m) (Fin n) K
  S : Finset (Fin n)

/-- a solver's observable answers meet their C01/C02/C20 specification on `(A, S)` -/
structure SolverObs.Sound {m n : Nat} (A : Matrix (Fin m) (Fin n) K) (S : Finset (Fin n)) (o : SolverObs K) : Prop where
  /-- C02: refused exactly when the subset does not resolve the defect -/
  refusal : o.refused = some .BadRegularization ↔ ¬ Resolves A S
  only_badreg : ∀ e, o.refused = some e → e = .BadRegularization
  /-- C20: number of named unknowns = defect -/
  count : (flaggedOf n o.lindep).length = o.defect
  /-- C20: a named unknown is truly dependent (it moves along a kernel vector) -/
  dependent : ∀ i : Fin n, o.lindep (i.val + 1) = true → ∃ g, A *ᵥ g = 0 ∧ g i ≠ 0
  /-- C20: removing the named unknowns leaves a system of full column rank -/
  fullRank : ∀ g : Fin n → K, A *ᵥ g = 0 → (∀ i : Fin n, o.lindep (i.val + 1) = true → g i = 0) → g = 0
  /-- C20/C02: defect = n − rank A -/
  rank : o.defect + A.rank = n

/-- every unknown in the support of the kernel of `A` causes the removal `rc` (same point, same
    coordinate group); `us` is `unknowns_` -/
def KernelClass {m n : Nat} (A : Matrix (Fin m) (Fin n) K) (us : List Unknown) (rc : String × Rm) : Prop :=
  ∀ g, A *ᵥ g = 0 → ∀ (i : Fin n) (u : Unknown), g i ≠ 0 → us[i.val]? = some u → removalOf u = rc

section Sound
variable {m n : Nat} {A : Matrix (Fin m) (Fin n) K} {S : Finset (Fin n)} {o o' : SolverObs K}

theorem SolverObs.Sound.counted (h : o.Sound A S) : o.Counted n := by
  refine ⟨h.count, fun hr => ?_⟩
  have hnr := h.refusal.1 hr
  by_contra hd
  have hd0 : o.defect = 0 := by omega
  apply hnr
  intro g hg _
  apply h.fullRank g hg
  intro i hi
  exfalso
  have hmem : i.val + 1 ∈ flaggedOf n o.lindep := mem_flaggedOf.2 ⟨by omega, by omega, hi⟩
  have hlen := h.count
  rw [hd0] at hlen
  rw [List.length_eq_zero_iff.1 hlen] at hmem
  cases hmem

theorem SolverObs.Sound.defect_eq (h : o.Sound A S) (h' : o'.Sound A S) : o.defect = o'.defect := by
  have := h.rank; have := h'.rank; omega

theorem SolverObs.Sound.refused_eq (h : o.Sound A S) (h' : o'.Sound A S) : o.refused = o'.refused := by
  by_cases hr : Resolves A S
  · have n1 : o.refused = none := by
      cases e : o.refused with
      | none => rfl
      | some k => have := h.only_badreg k e; subst this; exact absurd hr (h.refusal.1 e)
    have n2 : o'.refused = none := by
      cases e : o'.refused with
      | none => rfl
      | some k => have := h'.only_badreg k e; subst this; exact absurd hr (h'.refusal.1 e)
    rw [n1, n2]
  · rw [h.refusal.2 hr, h'.refusal.2 hr]

/-- **a named unknown lies in the support of the kernel** -/
theorem flagged_in_support (h : o.Sound A S) (i : Fin n) (hi : o.lindep (i.val + 1) = true) :
    ∃ g, A *ᵥ g = 0 ∧ g i ≠ 0 := h.dependent i hi

/-- **an unknown outside the support of the kernel is never named**, by any sound solver -/
theorem never_flagged (h : o.Sound A S) (i : Fin n) (hi : ∀ g, A *ᵥ g = 0 → g i = 0) :
    o.lindep (i.val + 1) = false := by
  cases hl : o.lindep (i.val + 1) with
  | false => rfl
  | true => obtain ⟨g, hg, hne⟩ := h.dependent i hl; exact absurd (hi g hg) hne

end Sound

-- ------------------------------------------------------------------ which unknown is flagged: the greedy rule

section Greedy
variable {m n : Nat} [DecidableEq (Fin n)]

/-- the rule all three factorising solvers follow, each in its own processing order `ord`
    (`C20_gso_lindep_iff`: natural order; `C20_env_lindep_true`: position in the reverse Cuthill–McKee
    ordering): unknown `i` is flagged iff its column is a combination of the columns processed before it -/
def Greedy (A : Matrix (Fin m) (Fin n) K) (ord : Fin n → Nat) (flag : Fin n → Bool) : Prop :=
  ∀ i, flag i = true ↔ ∃ γ : Fin n → K, (∀ j, ord i ≤ ord j → γ j = 0) ∧ ∀ r, A r i = ∑ j, A r j * γ j

/-- **an unknown processed LAST is flagged iff it lies in the support of the kernel**: so for every
    unknown `i` of the support there is a processing order under which a correct algorithm names `i`
    (and, when the defect is 1, names only `i`) -/
theorem greedy_last_iff (A : Matrix (Fin m) (Fin n) K) (ord : Fin n → Nat) (flag : Fin n → Bool)
    (hG : Greedy A ord flag) (i : Fin n) (hlast : ∀ j, j ≠ i → ord j < ord i) :
    flag i = true ↔ ∃ g, A *ᵥ g = 0 ∧ g i ≠ 0 := by
  rw [hG i]
  constructor
  · rintro ⟨γ, hγ, hcol⟩
    refine ⟨fun j => if j = i then -1 else γ j, ?_, by simp⟩
    funext r
    simp only [mulVec, dotProduct, Pi.zero_apply]
    have hi0 : γ i = 0 := hγ i (le_refl _)
    have : ∀ j, A r j * (if j = i then (-1 : K) else γ j) = A r j * γ j - (if j = i then A r i else 0) := by
      intro j
      by_cases hj : j = i
      · subst hj; simp [hi0]
      · simp [hj]
    rw [Finset.sum_congr rfl (fun j _ => this j), Finset.sum_sub_distrib, Finset.sum_ite_eq' Finset.univ i]
    simp only [Finset.mem_univ, if_true]
    rw [← hcol r]; exact sub_self _
  · rintro ⟨g, hg, hne⟩
    refine ⟨fun j => if j = i then 0 else - g j / g i, ?_, ?_⟩
    · intro j hj
      by_cases hji : j = i
      · simp [hji]
      · exact absurd (hlast j hji) (by omega)
    · intro r
      have hr : ∑ j, A r j * g j = 0 := by
        have := congrFun hg r
        simpa [mulVec, dotProduct] using this
      have : ∀ j, A r j * (if j = i then (0 : K) else - g j / g i)
          = (if j = i then A r i else 0) - (A r j * g j) * (g i)⁻¹ := by
        intro j
        by_cases hj : j = i
        · subst hj
          rw [if_pos rfl, if_pos rfl, mul_zero, mul_assoc, mul_inv_cancel₀ hne, mul_one, sub_self]
        · rw [if_neg hj, if_neg hj, div_eq_mul_inv]; ring
      rw [Finset.sum_congr rfl (fun j _ => this j), Finset.sum_sub_distrib, Finset.sum_ite_eq' Finset.univ i,
        ← Finset.sum_mul, hr]
      simp

end Greedy

-- ------------------------------------------------------------------ from sound solvers to `Sim` worlds

section Worlds
variable {P : Type} (pe : Net → ProjEq P) (solver solver' : P → SolverObs K)

variable [Scalar K]

variable (lin : P → LinProb K) (m0 : K)

/-- **same removals given the same first removal**: two solvers that are sound on the same linear
    problems and report the same diagonal cofactors (C02: `C02_same_cofactors_*`) give `Sim` worlds as
    soon as, on every configuration, their first flagged unknowns cause the same removal -/
theorem worldOf_sim_of_first
    (hS : ∀ net, (solver (pe net).prob).Sound (lin (pe net).prob).A (lin (pe net).prob).S)
    (hS' : ∀ net, (solver' (pe net).prob).Sound (lin (pe net).prob).A (lin (pe net).prob).S)
    (hq : ∀ net i, 1 ≤ i → i ≤ (pe net).unknowns.length → (solver (pe net).prob).refused = none →
      (solver (pe net).prob).qxx i = (solver' (pe net).prob).qxx i)
    (hfirst : ∀ net, (firstUnknown ((viewOf (pe net) (solver (pe net).prob)).abs m0)).map removalOf
        = (firstUnknown ((viewOf (pe net) (solver' (pe net).prob)).abs m0)).map removalOf) :
    ((worldOf pe solver).abs m0).Sim ((worldOf pe solver').abs m0) := by
  intro net
  refine ⟨rfl, rfl, ?_⟩
  have hr := (hS net).refused_eq (hS' net)
  have hd := (hS net).defect_eq (hS' net)
  refine ⟨rfl, rfl, rfl, hd, ?_, ?_, hfirst net⟩
  · intro Pt
    show hugeDecision m0 (viewOf (pe net) (solver (pe net).prob)) Pt
      = hugeDecision m0 (viewOf (pe net) (solver' (pe net).prob)) Pt
    refine hugeDecision_congr m0 (viewOf (pe net) (solver (pe net).prob)) (viewOf (pe net) (solver' (pe net).prob)) rfl ?_ Pt
    intro i h1 h2
    show (viewOf (pe net) (solver (pe net).prob)).qxx i = (viewOf (pe net) (solver' (pe net).prob)).qxx i
    unfold viewOf
    simp only
    rw [← hr]
    cases hre : (solver (pe net).prob).refused with
    | none => simp only; rw [hq net i h1 h2 hre]
    | some e => rfl
  · show (viewOf (pe net) (solver (pe net).prob)).resid = (viewOf (pe net) (solver' (pe net).prob)).resid
    unfold viewOf
    simp only
    rw [← hr]

/-- **agreement when the kernel is supported in one point**: if on every configuration all unknowns in
    the support of the kernel of the design matrix cause one and the same removal (same point, same
    coordinate group), every two sound solvers with equal cofactors give `Sim` worlds — whatever
    their processing orders -/
theorem worldOf_sim_single_class
    (hdim : ∀ net, (lin (pe net).prob).n = (pe net).unknowns.length)
    (hS : ∀ net, (solver (pe net).prob).Sound (lin (pe net).prob).A (lin (pe net).prob).S)
    (hS' : ∀ net, (solver' (pe net).prob).Sound (lin (pe net).prob).A (lin (pe net).prob).S)
    (hq : ∀ net i, 1 ≤ i → i ≤ (pe net).unknowns.length → (solver (pe net).prob).refused = none →
      (solver (pe net).prob).qxx i = (solver' (pe net).prob).qxx i)
    (hone : ∀ net, ∃ rc : String × Rm, KernelClass (lin (pe net).prob).A (pe net).unknowns rc) :
    ((worldOf pe solver).abs m0).Sim ((worldOf pe solver').abs m0) := by
  apply worldOf_sim_of_first pe solver solver' lin m0 hS hS' hq
  intro net
  obtain ⟨rc, hrc⟩ := hone net
  have cls : ∀ (o : SolverObs K), o.Sound (lin (pe net).prob).A (lin (pe net).prob).S →
      ∀ i u, o.lindep (i + 1) = true → (pe net).unknowns[i]? = some u → removalOf u = rc := by
    intro o ho i u hl hu
    have hi : i < (lin (pe net).prob).n := by
      rw [hdim net]
      by_contra hc
      rw [List.getElem?_eq_none (by omega)] at hu
      cases hu
    obtain ⟨g, hg, hne⟩ := ho.dependent ⟨i, hi⟩ hl
    exact hrc g hg ⟨i, hi⟩ u hne hu
  have c1 := (hS net).count
  have c2 := (hS' net).count
  rw [hdim net] at c1 c2
  rw [first_of_class m0 _ _ rc c1 (cls _ (hS net)), first_of_class m0 _ _ rc c2 (cls _ (hS' net)),
    (hS net).defect_eq (hS' net)]

end Worlds

end Gama.NetDecision
