/-
  `DataParser::pure_data` accepts exactly: the extraction(s) succeeded and only white space follows.
-/
import Gama.Model.PureData
namespace Gama.PD
open Gama.Lit

theorem skipWs_isEmpty (r : List Char) : (skipWs r).isEmpty = r.all isSpace := by
  induction r with
  | nil => rfl
  | cons c cs ih =>
    simp only [skipWs, List.all_cons]
    cases h : isSpace c
    · simp
    · simpa using ih

theorem ofText_inv (s : List Char) : (Stream.ofText s).Inv := by
  intro h; cases h

theorem extractDouble_inv (st : Stream) (h : st.Inv) : (extractDouble st).Inv := by
  unfold extractDouble
  split
  · exact h
  · split
    · intro _; rfl
    · intro he; simpa using he

theorem extractWord_inv (st : Stream) (h : st.Inv) : (extractWord st).Inv := by
  unfold extractWord
  split
  · exact h
  · split
    · intro _; rfl
    · intro he; simpa using he

theorem extractInt_inv (u : Bool) (st : Stream) (h : st.Inv) : (extractInt u st).Inv := by
  unfold extractInt
  split
  · exact h
  · split
    · intro _; rfl
    · intro he; simpa using he

/-- with the tests in the order of the current source -/
theorem pureData_spec (st : Stream) (h : st.Inv) :
    pureData st = true ↔ (st.fail = false ∧ st.rest.all isSpace = true) := by
  unfold pureData
  have ht : pureDataTests = [.failFalse, .eofTrue] := by decide
  rw [ht]
  simp only [pureDataFrom]
  cases hf : st.fail
  · cases he : st.eof
    · simp [skipWs_isEmpty]
    · have := h he
      simp [this]
  · simp

end Gama.PD
