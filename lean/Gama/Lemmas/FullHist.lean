/-
  C04 round 3 — invariants of the full-solver machines across resets to other inputs.
  Core Lean only.
-/
import Gama.Model.FullHist
import Gama.Lemmas.FullState
namespace Gama.C04.Full
open Gama Gama.C04

theorem step_reset_eq (k : Kind) (inp : Input) (s : FState) : (step k inp s .reset).1 = freset s := rfl
theorem sstep_reset_eq (inp : Input) (s : SState) : (sstep inp s .reset).1 = sreset s := rfl

/-- the property's quantifier for a history step: a `min_x` list resolves the defect of the current
    input; an input handed over by `reset` is well formed and the regularisation the object is configured
    with ("all", or the stored subset) resolves ITS defect -/
def HOp.OkF (h : HF) : HOp → Prop
  | .q op => op.Ok h.inp
  | .resetNew inp' => inp'.nullity ≤ inp'.n ∧ (inp'.nullity = 0 ∨ inp'.resolves (eff inp' h.s) = true)

def HOp.OkS (h : HS) : HOp → Prop
  | .q op => op.Ok h.inp
  | .resetNew inp' => inp'.nullity = 0 ∨ h.s.sub = false ∨ inp'.resolves (h.s.list.getD []) = true

def ValidF (k : Kind) : HF → List HOp → Prop
  | _, [] => True
  | h, o :: os => o.OkF h ∧ ValidF k (hfstep k h o).1 os

def ValidS : HS → List HOp → Prop
  | _, [] => True
  | h, o :: os => o.OkS h ∧ ValidS (hsstep h o).1 os

/-- `reset(A', b')` establishes the invariant for the new input: `is_solved` is cleared, so nothing is
    claimed about `x`, `G`, …; a list 1..N' built for the old size stays in `minx_i` (chol) and is
    rebuilt by `solve()` because `minx_n != N` -/
theorem inv_freset {k : Kind} {inp inp' : Input} {s : FState} (h : Inv k inp s)
    (hw : inp'.nullity ≤ inp'.n) (hc : inp'.nullity = 0 ∨ inp'.resolves (eff inp' s) = true) :
    Inv k inp' (freset s) :=
  ⟨hw, hc, h.sub, h.all, fun hh => absurd hh (by simp [freset])⟩

theorem inv_sreset {inp inp' : Input} {s : SState} (_h : SInv inp s)
    (hc : inp'.nullity = 0 ∨ s.sub = false ∨ inp'.resolves (s.list.getD []) = true) :
    SInv inp' (sreset s) :=
  ⟨hc, fun hh => absurd hh (by simp [sreset]), fun hh => absurd hh (by simp [sreset])⟩

theorem hfrun_inv {k : Kind} {h : HF} (hi : Inv k h.inp h.s) {ops : List HOp} (hv : ValidF k h ops) :
    Inv k (hfrun k h ops).inp (hfrun k h ops).s := by
  induction ops generalizing h with
  | nil => exact hi
  | cons o ops ih =>
    refine ih (h := (hfstep k h o).1) ?_ hv.2
    cases o with
    | q op => exact (step_spec hi op hv.1).1
    | resetNew inp' => exact inv_freset hi hv.1.1 hv.1.2

theorem hsrun_inv {h : HS} (hi : SInv h.inp h.s) {ops : List HOp} (hv : ValidS h ops) :
    SInv (hsrun h ops).inp (hsrun h ops).s := by
  induction ops generalizing h with
  | nil => exact hi
  | cons o ops ih =>
    refine ih (h := (hsstep h o).1) ?_ hv.2
    cases o with
    | q op => exact (sstep_spec hi op hv.1).1
    | resetNew inp' => exact inv_sreset hi hv.1

end Gama.C04.Full
