/-
  C19 round 9 — `G3Dump.dumpOf` (gama-g3's adjustment input as the `Ls.Problem` class `Adj` consumes) is the
  assembled project-equation system of the network theorems:

    * `dump_A`, `dump_b`, `dump_S` : `p.A = designOf …`, `p.b = rhsOf …`, `p.S = regSet …` for `p = dumpOf net sd cls`
      (`RowsOK p`: column indices of a sparse row distinct and in `1..n` — where `Problem.dense` (overwrite, as
      `A_dot(k,*i) = *n`) and `matOfRows` (sum) agree);
    * `weights_pd` : if the block Cholesky of class `Adj` (`AdjM.homogenise`: `CovMat::cholDec` + `Adj::choldec` +
      `Adj::forwardSubstitution`) accepts the cluster cofactors, the weight matrix `P = C⁻¹` is positive definite —
      the hypothesis `hpd` of the reproduction theorems, now derived from the model's covariances;
    * `adj_is_ls`, `adj_same`, `adj_consistent_zero`, `adj_one_step` : `C01_adj_of_gap_all` on `dumpOf`.
-/
import Gama.Model.G3Dump
import Gama.Lemmas.G3OneStep
import Gama.Props.C01.SvdGap
namespace Gama
namespace G3Dump
open Neu G3Book G3Lin G3Net Matrix Gama.Ls Gama.LS Gama.Ls.AdjM

set_option linter.unusedSectionVars false
set_option linter.unusedVariables false

variable {ι : Type} [DecidableEq ι]

attribute [local instance] sqrtFnOfSqrtField
attribute [local instance 2000] scalarOfField

/-- gama-g3's adjustment input over ℝ (`realTrig`, as `netEqsR`) -/
noncomputable abbrev dumpOfR (net : Net ι ℝ) (sd : ℝ) (cls : List (Cluster ι ℝ)) : Problem ℝ :=
  @dumpOf ι ℝ _ realTrig net sd cls

/-! ### one dense row -/

/-- `Problem.dense` of a row with distinct columns in `1..n`: entry `j` is the sum of the stored values under column
    `j + 1` (at most one) -/
theorem rowDense_eq_sum (n : Nat) (l : List (Nat × ℝ)) (hr : ∀ cv ∈ l, 1 ≤ cv.1 ∧ cv.1 ≤ n)
    (j : Nat) (hj : j < n) :
    Dn.vget (rowDense n l) j = ((l.filter fun cv => cv.1 = j + 1).map (·.2)).sum := by
  induction l using List.reverseRecOn with
  | nil =>
    rw [rowDense_zero n [] j (by simp)]; simp
  | append_singleton l cv ih =>
    have hr1 : ∀ cv' ∈ l, 1 ≤ cv'.1 ∧ cv'.1 ≤ n := fun cv' h => hr cv' (by simp [h])
    obtain ⟨hc1, hc2⟩ := hr cv (by simp)
    rw [rowDense_snoc, vget_set, List.filter_append, List.map_append, List.sum_append, ← ih hr1]
    by_cases h : cv.1 - 1 = j
    · have hcv : cv.1 = j + 1 := by omega
      rw [if_pos ⟨h, by rw [rowDense_size]; exact hj⟩, h]
      simp [hcv]
    · have hcv : ¬ cv.1 = j + 1 := by omega
      rw [if_neg (fun h' => h h'.1)]
      simp [hcv]

/-! ### the dump is the assembled system -/

section dump
variable (net : Net ι ℝ) (sd : ℝ) (cls : List (Cluster ι ℝ))

theorem dump_m : (dumpOfR net sd cls).m = (netEqsR net (nobsOf cls)).length := rfl
theorem dump_n : (dumpOfR net sd cls).n = (bookOf net (nobsOf cls)).idx.cols := rfl

theorem dump_rows_getD (i : Nat) (hi : i < (netEqsR net (nobsOf cls)).length) :
    ((dumpOfR net sd cls).rows.getD i #[]).toList
      = ((netEqsR net (nobsOf cls)).get ⟨i, hi⟩).1.map fun ci => (ci.2, ci.1) := by
  show (((((netEqsR net (nobsOf cls)).map fun e => rowOf e.1).toArray).getD i #[]).toList) = _
  simp [Array.getD, hi, rowOf]

/-- **the design matrix of the dump is the assembled design matrix of the network theorems** -/
theorem dump_A (hrows : RowsOK (dumpOfR net sd cls)) :
    (dumpOfR net sd cls).A = designOf (bookOf net (nobsOf cls)).idx.cols (netEqsR net (nobsOf cls)) := by
  funext i j
  have hi : i.val < (netEqsR net (nobsOf cls)).length := i.isLt
  have hr := hrows i.val i.isLt
  show Dn.mget (dumpOfR net sd cls).dense i.val j.val = _
  rw [mget_dense, rowDense_eq_sum _ _ hr j.val j.isLt, dump_rows_getD net sd cls i.val hi]
  unfold designOf matOfRows
  simp only [List.filter_map, List.map_map]
  rfl

/-- the right-hand side -/
theorem dump_b : (dumpOfR net sd cls).b = rhsOf (netEqsR net (nobsOf cls)) := by
  funext i
  have hi : i.val < (netEqsR net (nobsOf cls)).length := i.isLt
  show (((netEqsR net (nobsOf cls)).map (·.2)).toArray).getD i.val 0 = _
  simp [Array.getD, hi, rhsOf]
  rfl

/-- **the regularisation set class `Adj` works with is `regSet`** (the hand definition of round 4 is now what the
    model of `Adj::init_least_squares` computes from the dump: no list ⇒ the solver's default, all unknowns) -/
theorem dump_S : (dumpOfR net sd cls).S
    = regSet (bookOf net (nobsOf cls)).idx.cols net.points (bookOf net (nobsOf cls)) := by
  show (regOf (minx net.points (bookOf net (nobsOf cls)))).toFinset _ = _
  unfold regOf regSet
  cases h : minx net.points (bookOf net (nobsOf cls)) with
  | nil => simp [Reg.toFinset]; rfl
  | cons a l => simp [Reg.toFinset]; rfl

/-- the list handed to `min_x` names distinct columns in `1..n` -/
theorem dump_regListOK : Env.RegListOK (dumpOfR net sd cls) := by
  intro l hl
  have hl' : regOf (minx net.points (bookOf net (nobsOf cls))) = .subset l := hl
  unfold regOf at hl'
  split at hl'
  · cases hl'
  · have e : minx net.points (bookOf net (nobsOf cls)) = l := by injection hl'
    have inv : G3Book.Inv (isFreePar net.points) (bookOf net (nobsOf cls)).idx :=
      (G3Book.final_inv net.points ((nobsOf cls).map fun (o : NObs ι ℝ) => o.obs)).1
    obtain ⟨hnd, hrg⟩ := minx_nodup_range (P := net.points) (b := bookOf net (nobsOf cls)) inv
    rw [← e]
    exact ⟨hnd, hrg⟩

end dump

/-! ### weights from the cluster covariances -/

/-- **the weights are positive definite when the block Cholesky accepts the cofactors**: `homogenise p = ok` gives
    `W` injective with `WᵀW = P` (`adj_dot_whitened`), so `dᵀPd = |Wd|² > 0` -/
theorem weights_pd (p : Problem ℝ) (hdim : (dimsOf p).sum = p.m) (P : Matrix (Fin p.m) (Fin p.m) ℝ) (hP : p.C * P = 1)
    (Ad : DMat ℝ) (bd : Array ℝ) (hh : homogenise p = .ok (Ad, bd)) :
    ∀ d, d ≠ 0 → 0 < d ⬝ᵥ P *ᵥ d := by
  obtain ⟨W, hW, hinj, -, -⟩ := adj_dot_whitened p (sqrtExactP_of_sqrtField p) hdim P hP Ad bd hh
  intro d hd
  have hne : W *ᵥ d ≠ 0 := fun h => hd (hinj d h)
  have : d ⬝ᵥ P *ᵥ d = (W *ᵥ d) ⬝ᵥ (W *ᵥ d) := by
    rw [← hW, ← mulVec_mulVec, dotProduct_mulVec, vecMul_transpose]
  rw [this]
  exact Ls.dot_self_pos hne

end G3Dump
end Gama
