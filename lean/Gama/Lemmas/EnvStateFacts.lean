/-
  C04 round 4 — the hypotheses of the envelope theorems are met by the input the correspondence driver runs
  (`Info.toInputOf`, Model/EnvDenote.lean), and the symbolic facts `nullity` / `resolves` are facts of the numeric
  problem (`Facts`): under them `directC` is a field of `envSolve` on the problem with the caller's configuration.
  Core Lean only.
-/
import Gama.Model.EnvDenote
import Gama.Lemmas.EnvDenote
namespace Gama.C04
open Gama Gama.Ls Gama.Ls.Env

variable {K : Type} [Scalar K]

/-! ### the driver's input -/

theorem find?_range_unique (p : Nat → Bool) (n k : Nat) (hk : k < n) (hpk : p k = true)
    (huniq : ∀ j, j < n → p j = true → j = k) : (List.range n).find? p = some k := by
  induction n with
  | zero => omega
  | succ n ih =>
    rw [List.range_succ, List.find?_append]
    by_cases hkn : k < n
    · rw [ih hkn (fun j hj hp => huniq j (by omega) hp)]; rfl
    · have hkn' : k = n := by omega
      subst hkn'
      have : (List.range k).find? p = none := by
        rw [List.find?_eq_none]
        intro j hj hp
        have hj' : j < k := List.mem_range.mp hj
        have := huniq j (by omega) hp
        omega
      rw [this]
      simp [hpk]

theorem Info.wf_spec {f : Info} (hw : f.wf = true) {i : Nat} (hi : i < f.n) :
    1 ≤ f.invp.getD i 0 ∧ ∀ j, j < f.n → f.invp.getD i 0 = f.invp.getD j 0 → i = j := by
  simp only [Info.wf, List.all_eq_true, List.mem_range, Bool.and_eq_true, decide_eq_true_eq,
    Bool.or_eq_true, beq_iff_eq, bne_iff_ne, ne_eq] at hw
  refine ⟨(hw i hi).1, fun j hj he => ?_⟩
  rcases (hw i hi).2 j hj with h | h
  · exact h
  · exact absurd he h

/-- **the driver's input has a 1-based ordering on its unknowns** -/
theorem Info.toInput_pos (f : Info) (hw : f.wf = true) (r : List Nat → Bool) : (f.toInput r).Pos := by
  intro i h1 hn
  show 1 ≤ f.invp.getD (i - 1) 0
  exact (Info.wf_spec hw (show i - 1 < f.n by show i - 1 < (f.toInput r).n; omega)).1

theorem Info.toInputOf_pos (f : Info) (hw : f.wf = true) (p : Problem K) (d : Nat) : (f.toInputOf p d).Pos :=
  Info.toInput_pos f hw (resolvesP p)

theorem Info.perm_invp (f : Info) (hw : f.wf = true) {i : Nat} (h1 : 1 ≤ i) (hn : i ≤ f.n) :
    f.perm (f.invp.getD (i - 1) 0) = i := by
  unfold Info.perm
  have hk : i - 1 < f.n := by omega
  rw [find?_range_unique (fun j => f.invp.getD j 0 == f.invp.getD (i - 1) 0) f.n (i - 1) hk (by simp)
    (fun j hj hp => ((Info.wf_spec hw hk).2 j hj (beq_iff_eq.mp hp).symm).symm)]
  show i - 1 + 1 = i
  omega

/-- **the driver's numeric world describes the driver's input**: `perm` read from the `envinfo` facts inverts
    `invp` on `1..n` -/
theorem worldOf_describes (probs : Array (Problem K)) (infos : Array (Option Info)) (f : Info) (d : Nat)
    (hf : infos.getD (d - 1) none = some f) (hw : f.wf = true) (p : Problem K) :
    (worldOf probs infos).Describes (f.toInputOf p d) := by
  intro i h1 hn
  show (match infos.getD (d - 1) none with | some f => f.perm _ | none => 0) = i
  rw [hf]
  exact Info.perm_invp f hw h1 hn

/-- **the driver's input carries the facts of the numeric problem** (size and defect by the `agrees` test the
    driver makes on every `envinfo` line, resolution facts by construction) -/
theorem Info.toInputOf_facts (f : Info) (p : Problem K) (d : Nat) (ha : f.agrees p = true) :
    Facts p (f.toInputOf p d) := by
  simp only [Info.agrees, Bool.and_eq_true, beq_iff_eq] at ha
  exact ⟨ha.1.2, ha.2, fun _ => rfl⟩

theorem Info.agrees_wf {f : Info} {p : Problem K} (ha : f.agrees p = true) : f.wf = true := by
  simp only [Info.agrees, Bool.and_eq_true] at ha
  exact ha.1.1

/-! ### the symbolic facts are facts of the numeric problem

`envSolve { p with reg := r }` homogenises, orders and factors `p` independently of `r`; only `solve_x` (hence `x`,
`q_xx` of a singular system) looks at the list. -/

theorem patOf_reg (p : Problem K) (r : Reg) (At : DMat K) (bs : List (CovBlock K)) (off : Nat) :
    patOf { p with reg := r } At bs off = patOf p At bs off := by
  induction bs generalizing off with
  | nil => rfl
  | cons b bs ih => simp only [patOf, ih]; rfl

theorem homogenize_reg (p : Problem K) (r : Reg) : homogenize { p with reg := r } = homogenize p := by
  unfold homogenize
  simp only [patOf_reg]
  rfl

/-- `envSolve`'s record built from the per-query answers -/
def pack (a : EnvAnswer K) : Answer K :=
  let xs : Array K × Option ErrKind := match a.x with
    | .error e => (#[], some e)
    | .ok x => (x, none)
  { x := xs.1, xErr := xs.2, r := a.r, rtr := a.rtr, defect := a.defect, qxx := a.qxx, q0xx := a.q0xx
    qbb := a.qbb, qbx := a.qbx, lindep := a.lindepFixed }

def coreOf (p : Problem K) (r : Reg) (h : Homog K) : EnvAnswer K :=
  envCore sqrtEps sqrtEps p.m p.n p.dense p.rhs h.At h.bt r (rcmOrd p.n h.pat)

def solveOf (p : Problem K) (r : Reg) : Except ErrKind (Answer K) :=
  match homogenize p with
  | .error e => .error e
  | .ok h => .ok (pack (coreOf p r h))

theorem envSolve_reg (p : Problem K) (r : Reg) : envSolve { p with reg := r } = solveOf p r := by
  show (match envAnswer { p with reg := r } with | .error e => Except.error e | .ok a => Except.ok (pack a)) = _
  unfold envAnswer envAnswerOrd solveOf
  rw [homogenize_reg]
  cases homogenize p <;> rfl

theorem regList_allList (n : Nat) (o : EnvOrd) : regList n o (.subset (allList n)) = regList n o .all := by
  simp [regList, allList, List.map_map, Function.comp_def]

theorem coreOf_allList (p : Problem K) (h : Homog K) : coreOf p (.subset (allList p.n)) h = coreOf p .all h := by
  unfold coreOf envCore
  simp only [regList_allList]

theorem core_indep (p : Problem K) (h : Homog K) (r r' : Reg) :
    (pack (coreOf p r h)).r = (pack (coreOf p r' h)).r ∧ (pack (coreOf p r h)).rtr = (pack (coreOf p r' h)).rtr
    ∧ (pack (coreOf p r h)).defect = (pack (coreOf p r' h)).defect
    ∧ (pack (coreOf p r h)).q0xx = (pack (coreOf p r' h)).q0xx
    ∧ (pack (coreOf p r h)).qbb = (pack (coreOf p r' h)).qbb
    ∧ (pack (coreOf p r h)).lindep = (pack (coreOf p r' h)).lindep := ⟨rfl, rfl, rfl, rfl, rfl, rfl⟩

theorem core_regular (p : Problem K) (h : Homog K) (r r' : Reg) (hD : (pack (coreOf p r h)).defect = 0) :
    (pack (coreOf p r h)).x = (pack (coreOf p r' h)).x ∧ (pack (coreOf p r h)).xErr = (pack (coreOf p r' h)).xErr
    ∧ ∀ i j, (pack (coreOf p r h)).qxx i j = (pack (coreOf p r h)).q0xx i j := by
  have hD' : defectOf (factor (K := K) sqrtEps p.m p.n h.At h.bt (rcmOrd p.n h.pat)).rows = 0 := hD
  refine ⟨?_, ?_, ?_⟩
  · simp [pack, coreOf, envCore, Env.solveX, hD']
  · simp [pack, coreOf, envCore, Env.solveX, hD']
  · intro i j
    simp only [pack, coreOf, envCore, hD']
    split <;> simp_all
    omega

theorem core_singular (p : Problem K) (h : Homog K) (r : Reg) (hD : (pack (coreOf p r h)).defect ≠ 0)
    (e : ErrKind) (he : (pack (coreOf p r h)).xErr = some e) (i j : Nat)
    (hi : 1 ≤ i ∧ i ≤ p.n) (hj : 1 ≤ j ∧ j ≤ p.n) : (pack (coreOf p r h)).qxx i j = .error e := by
  have hD' : defectOf (factor (K := K) sqrtEps p.m p.n h.At h.bt (rcmOrd p.n h.pat)).rows ≠ 0 := hD
  simp only [pack, coreOf, envCore] at he ⊢
  simp only [hi.1, hi.2, hj.1, hj.2, decide_true, Bool.and_self, Bool.not_true, Bool.false_eq_true, if_false, hD']
  revert he
  generalize Env.solveX (factor (K := K) sqrtEps p.m p.n h.At h.bt (rcmOrd p.n h.pat)) _ _ = sx
  cases sx with
  | error e' => simp [Except.map]
  | ok v => simp [Except.map]

theorem envSolve_eq (p : Problem K) : envSolve p = solveOf p p.reg := by
  obtain ⟨m, n, rows, cov, rhs, reg⟩ := p
  exact envSolve_reg (K := K) ⟨m, n, rows, cov, rhs, reg⟩ reg

def codeOrder (inp : EnvInput) : Op → Op
  | .q0xx i j => .q0xx (q0pair inp i j).1 (q0pair inp i j).2
  | .qxx i j => if inp.nullity = 0 then .qxx (q0pair inp i j).1 (q0pair inp i j).2 else .qxx i j
  | op => op

theorem solveOf_eff (p : Problem K) (inp : EnvInput) (hn : inp.n = p.n) (c : Option (List Nat)) :
    solveOf p (.subset (eff inp c)) = solveOf p (regOf c) := by
  cases c with
  | some l => rfl
  | none =>
    simp only [eff, Option.getD_none, regOf, hn, solveOf]
    cases homogenize p with
    | error e => rfl
    | ok h => simp only [coreOf_allList]

theorem directC_eq_answer {p : Problem K} {inp : EnvInput} (hF : Facts p inp) (op : Op) (hv : op.Valid inp.n)
    (m c : Option (List Nat)) : directC inp p m (eff inp c) op = answer p c (codeOrder inp op) := by
  have hN := hF.nullity
  have hR := hF.resolves
  have hE := solveOf_eff p inp hF.n c
  simp only [defectP, resolvesP, envSolve_reg] at hN hR
  simp only [envSolve_eq] at hN
  cases hh : homogenize p with
  | error e =>
    have hs : ∀ r, solveOf p r = .error e := fun r => by simp [solveOf, hh]
    simp only [hs] at hN
    cases op <;> simp [directC, direct, answer, codeOrder, envSolve_reg, hs, hN, xOf, ofE, bind, Except.bind]
  | ok h =>
    have hs : ∀ r, solveOf p r = .ok (pack (coreOf p r h)) := fun r => by simp [solveOf, hh]
    simp only [hs] at hN hR hE
    have hEa : pack (coreOf p (.subset (eff inp c)) h) = pack (coreOf p (regOf c) h) := by
      injection hE
    have hNc : ∀ r, (pack (coreOf p r h)).defect = inp.nullity := fun r => hN.symm
    cases op with
    | unknowns =>
      simp only [directC, direct, answer, codeOrder, envSolve_reg, hs]
      by_cases hn : inp.nullity = 0
      · have := core_regular p h (regOf m) (regOf c) ((hNc _).trans hn)
        simp [hn, xOf, ofE, this.1, this.2.1]
      · simp only [hn, if_false, hR, hEa]
        by_cases hx : (pack (coreOf p (regOf c) h)).xErr = some .BadRegularization
        · simp [hx, xOf, ofE]
        · simp [hx, xOf, ofE]
    | residuals => simp [directC, direct, answer, codeOrder, envSolve_reg, hs, ofE]; rfl
    | sumsq => simp [directC, direct, answer, codeOrder, envSolve_reg, hs, ofE]; rfl
    | defect => simp [directC, direct, answer, codeOrder, envSolve_reg, hs, ofE]; rfl
    | lindep i => simp [directC, direct, answer, codeOrder, envSolve_reg, hs, ofE, bind, Except.bind]; rfl
    | qbb i j => simp [directC, direct, answer, codeOrder, envSolve_reg, hs, ofE, bind, Except.bind]; rfl
    | q0xx i j => simp [directC, direct, answer, codeOrder, envSolve_reg, hs, ofE, bind, Except.bind]; rfl
    | minxAll => rfl
    | minx l => rfl
    | reset => rfl
    | qxx i j =>
      by_cases hn : inp.nullity = 0
      · have := core_regular p h (regOf c) (regOf c) ((hNc _).trans hn)
        simp only [directC, direct, answer, codeOrder, envSolve_reg, hs, hn, if_true, bind, Except.bind, this.2.2]
        rfl
      · simp only [directC, direct, answer, codeOrder, envSolve_reg, hs, hn, if_false, hR, hEa, bind, Except.bind]
        by_cases hx : (pack (coreOf p (regOf c) h)).xErr = some .BadRegularization
        · have := core_singular p h (regOf c) (by rw [hNc]; exact hn) _ hx i j (hF.n ▸ hv.1) (hF.n ▸ hv.2)
          simp [hx, this, ofE]
        · simp [hx]

/-- **one step from a state satisfying the invariant**: the value denoted by the answer is the field of `envSolve`
    on the current problem with the CALLER's configuration — whatever stored list `m` the term is evaluated with -/
theorem hstep_answer (W : World K) {h : HState} (hi : HInv h) (hd : W.Describes h.inp)
    (hF : Facts (W.prob h.inp.id) h.inp) (m : Option (List Nat)) (op : Op) (hv : op.Valid h.inp.n) :
    denote W h.inp.id m (hstep h (.q op)).2 = answer (W.prob h.inp.id) (cfg h.s) (codeOrder h.inp op) := by
  rw [hstep_denotes W hi hd m op hv, ← eff_cfg hi.2.2]
  exact directC_eq_answer hF op hv m (cfg h.s)

end Gama.C04
