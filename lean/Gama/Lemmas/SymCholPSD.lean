/-
  `SymMat<>::cholDec()` (model `Gama/Model/SymChol.lean`) for positive SEMI-definite input:
  any nullity.  Stage 1: the loops compute the Cholesky recurrences (no hypothesis on the
  nullity counter).  Stage 2: for PSD input with exactly-zero dropped pivots, `L Lᵀ = A`.
-/
import Gama.Lemmas.SymChol
import Mathlib.Order.Interval.Finset.Nat
import Mathlib.Algebra.BigOperators.Field
import Mathlib.Tactic.IntervalCases

namespace Gama.MatVec
open Finset

set_option linter.unusedSectionVars false
set_option linter.unusedVariables false

section Rec
variable {K : Type} [Field K] [LinearOrder K] [IsStrictOrderedRing K]

/-- the value `x` of the cell `(i,j)` before division / square root (1-based view) -/
def cellX (a0 a : Nat → K) (i j : Nat) : K :=
  a0 (Tr i + j) - ∑ k ∈ range (j - 1), a (Tr i + (k + 1)) * a (Tr j + (k + 1))

/-- the Cholesky recurrence of the code at the cell `(i,j)` (1-based view) -/
def CellRec (sq : K → K) (tol : K) (a0 a : Nat → K) (i j : Nat) : Prop :=
  (i ≠ j → a (Tr i + j) = if a (Tr j + j) = 0 then 0 else cellX a0 a i j / a (Tr j + j)) ∧
  (i = j → if a0 (Tr i + j) * tol < cellX a0 a i j
      then (¬ cellX a0 a i j < 0 ∧ a (Tr i + j) = sq (cellX a0 a i j))
      else a (Tr i + j) = 0)

theorem cellX_congr {a0 a a' : Nat → K} {i j : Nat} (hj : 1 ≤ j) (hji : j ≤ i)
    (h : ∀ p, p < Tr i + j → a' p = a p) : cellX a0 a' i j = cellX a0 a i j := by
  unfold cellX
  have hT : Tr j ≤ Tr i := Tr_mono hji
  congr 1
  refine sum_congr rfl (fun k hk => ?_)
  have hk' := mem_range.mp hk
  rw [h _ (by omega), h _ (by omega)]

theorem CellRec_congr {sq : K → K} {tol : K} {a0 a a' : Nat → K} {i j : Nat} (hj : 1 ≤ j)
    (hji : j ≤ i) (h : ∀ p, p ≤ Tr i + j → a' p = a p) (hc : CellRec sq tol a0 a i j) :
    CellRec sq tol a0 a' i j := by
  have hT : Tr j ≤ Tr i := Tr_mono hji
  unfold CellRec
  rw [cellX_congr hj hji (fun p hp => h p (by omega)), h (Tr i + j) (Nat.le_refl _),
    h (Tr j + j) (by omega)]
  exact hc

/-- number of dropped (zeroed) pivots among the rows `1..k` -/
def nullCount (tol : K) (a0 a : Nat → K) (k : Nat) : Nat :=
  ∑ i ∈ range k, (if a0 (Tr (i + 1) + (i + 1)) * tol < cellX a0 a (i + 1) (i + 1) then 0 else 1)

theorem nullCount_succ (tol : K) (a0 a : Nat → K) (k : Nat) :
    nullCount tol a0 a (k + 1) = nullCount tol a0 a k
      + (if a0 (Tr (k + 1) + (k + 1)) * tol < cellX a0 a (k + 1) (k + 1) then 0 else 1) := by
  unfold nullCount
  rw [sum_range_succ]

/-- invariant of `cholDec` without any hypothesis on the nullity counter -/
structure RInv (sq : K → K) (tol : K) (a0 : Nat → K) (s : CholSt K) : Prop where
  rest : ∀ p, s.ip < p → s.a p = a0 p
  done : ∀ i j, 1 ≤ j → j ≤ i → Tr i + j ≤ s.ip → CellRec sq tol a0 s.a i j

theorem RInv_extend {sq : K → K} {tol : K} {a0 : Nat → K} {s : CholSt K} {i j0 : Nat}
    (hji : j0 < i) (hinv : RInv sq tol a0 s) (hip : s.ip = Tr i + j0) (v : K) (ir idf : Nat)
    (hcell : CellRec sq tol a0 (fset s.a (s.ip + 1) v) i (j0 + 1)) :
    RInv sq tol a0 ⟨fset s.a (s.ip + 1) v, s.ip + 1, ir, idf⟩ := by
  constructor
  · intro p hp
    show fset s.a (s.ip + 1) v p = a0 p
    have hp' : s.ip + 1 < p := hp
    rw [fset_ne _ _ _ (by omega)]
    exact hinv.rest p (by omega)
  · intro i' j' hj' hji' hle
    show CellRec sq tol a0 (fset s.a (s.ip + 1) v) i' j'
    have hle' : Tr i' + j' ≤ s.ip + 1 := hle
    by_cases hold : Tr i' + j' ≤ s.ip
    · refine CellRec_congr hj' hji' (fun p hp => ?_) (hinv.done i' j' hj' hji' hold)
      rw [fset_ne _ _ _ (by omega)]
    · have heq : Tr i' + j' = Tr i + (j0 + 1) := by omega
      obtain ⟨rfl, rfl⟩ := pos_inj (i' := i) (j' := j0 + 1) hj' hji' (by omega) hji heq
      exact hcell

theorem cholCell_stepR (sq : K → K) (tol : K)
    {a0 : Nat → K} {s s' : CholSt K} {i j0 : Nat} (hji : j0 < i)
    (hinv : RInv sq tol a0 s) (hip : s.ip = Tr i + j0) (hir : s.ir = Tr (j0 + 1))
    (h : @cholCell K (fieldScalar K sq) tol i (j0 + 1) (Tr i + 1) s = .ok s') :
    RInv sq tol a0 s' ∧ s'.ip = Tr i + (j0 + 1) ∧ s'.ir = Tr (j0 + 1 + 1) ∧
    s'.idf = s.idf + (if j0 + 1 = i ∧ ¬ a0 (Tr i + (j0 + 1)) * tol < cellX a0 s'.a i (j0 + 1)
      then 1 else 0) ∧
    (∀ p, p ≤ s.ip → s'.a p = s.a p) := by
  rw [cholCell_eq, cholInner_eq] at h
  dsimp only at h
  have hm : s.ip + 1 - (Tr i + 1) = j0 := by omega
  rw [hm] at h
  have hS : ∑ t ∈ range j0, s.a (Tr i + 1 + t) * s.a (s.ir + t + 1)
      = ∑ k ∈ range j0, s.a (Tr i + (k + 1)) * s.a (Tr (j0 + 1) + (k + 1)) := by
    refine sum_congr rfl (fun t _ => ?_)
    rw [hir, show Tr i + 1 + t = Tr i + (t + 1) by omega]
    rfl
  rw [hS] at h
  have hir2 : s.ir + j0 + 1 = Tr (j0 + 1) + (j0 + 1) := by omega
  rw [hir2] at h
  have hdiag : s.a (s.ip + 1) = a0 (Tr i + (j0 + 1)) := by
    rw [hinv.rest (s.ip + 1) (by omega), hip]; rfl
  rw [hdiag] at h
  have hX : a0 (Tr i + (j0 + 1))
      - ∑ k ∈ range j0, s.a (Tr i + (k + 1)) * s.a (Tr (j0 + 1) + (k + 1))
      = cellX a0 s.a i (j0 + 1) := rfl
  rw [hX] at h
  have hXn : ∀ v, cellX a0 (fset s.a (s.ip + 1) v) i (j0 + 1) = cellX a0 s.a i (j0 + 1) := by
    intro v
    refine cellX_congr (by omega) hji (fun p hp => ?_)
    rw [fset_ne _ _ _ (by omega)]
  have hpos : Tr i + (j0 + 1) = s.ip + 1 := by omega
  have hip' : s.ip + 1 = Tr i + (j0 + 1) := by omega
  have hir' : Tr (j0 + 1) + (j0 + 1) = Tr (j0 + 1 + 1) := by rw [Tr_succ (j0 + 1)]
  have hfr : ∀ v, ∀ p, p ≤ s.ip → fset s.a (s.ip + 1) v p = s.a p := by
    intro v p hp
    rw [fset_ne _ _ _ (by omega)]
  split at h
  · -- off-diagonal
    rename_i hne
    have hTj2 : Tr (j0 + 1) + (j0 + 1) ≤ Tr i := by
      have : Tr (j0 + 1 + 1) ≤ Tr i := Tr_mono (by omega)
      rw [Tr_succ] at this
      exact this
    simp only [decide_eq_true_eq] at h
    cases h
    refine ⟨RInv_extend hji hinv hip _ _ _ ?_, hip', hir', ?_, hfr _⟩
    · unfold CellRec
      rw [hXn, hpos, fset_eq, fset_ne _ _ _ (by omega : Tr (j0 + 1) + (j0 + 1) ≠ s.ip + 1)]
      exact ⟨fun _ => rfl, fun he => absurd he hne⟩
    · show s.idf = s.idf + (if j0 + 1 = i ∧ _ then 1 else 0)
      rw [if_neg (fun hh => hne hh.1.symm)]
      rfl
  · rename_i heq
    have heq' : i = j0 + 1 := by omega
    split at h
    · rename_i hlt
      split at h
      · cases h
      · rename_i hx
        cases h
        refine ⟨RInv_extend hji hinv hip _ _ _ ?_, hip', hir', ?_, hfr _⟩
        · unfold CellRec
          rw [hXn, hpos, fset_eq]
          refine ⟨fun hne => absurd heq' hne, fun _ => ?_⟩
          rw [hpos] at hlt
          rw [if_pos hlt]
          exact ⟨hx, rfl⟩
        · show s.idf = s.idf + (if j0 + 1 = i ∧ ¬ a0 (Tr i + (j0 + 1)) * tol
              < cellX a0 (fset s.a (s.ip + 1) _) i (j0 + 1) then 1 else 0)
          rw [hXn, if_neg (fun hh => hh.2 hlt)]
          rfl
    · rename_i hlt
      cases h
      refine ⟨RInv_extend hji hinv hip _ _ _ ?_, hip', hir', ?_, hfr _⟩
      · unfold CellRec
        rw [hXn, hpos, fset_eq]
        refine ⟨fun hne => absurd heq' hne, fun _ => ?_⟩
        rw [hpos] at hlt
        rw [if_neg hlt]
      · show s.idf + 1 = s.idf + (if j0 + 1 = i ∧ ¬ a0 (Tr i + (j0 + 1)) * tol
            < cellX a0 (fset s.a (s.ip + 1) _) i (j0 + 1) then 1 else 0)
        rw [hXn, if_pos ⟨heq'.symm, hlt⟩]

theorem row_specR (sq : K → K) (tol : K) {a0 : Nat → K} {i : Nat} (hi : 1 ≤ i) :
    ∀ m, m ≤ i → ∀ (s0 s' : CholSt K), RInv sq tol a0 s0 → s0.ip = Tr i → s0.ir = 0 →
      forUpM m (fun j0 s => @cholCell K (fieldScalar K sq) tol i (j0 + 1) (Tr i + 1) s) s0 = .ok s' →
      RInv sq tol a0 s' ∧ s'.ip = Tr i + m ∧ s'.ir = Tr (m + 1) ∧
      s'.idf = s0.idf + (if m = i ∧ ¬ a0 (Tr i + m) * tol < cellX a0 s'.a i m then 1 else 0) ∧
      (∀ p, p ≤ s0.ip → s'.a p = s0.a p) := by
  intro m
  induction m with
  | zero =>
    intro _ s0 s' hinv hip hir h
    rw [forUpM_zero_ok _ _ _ h]
    refine ⟨hinv, hip, by rw [hir]; rfl, ?_, fun _ _ => rfl⟩
    rw [if_neg (fun hh => by omega)]
    rfl
  | succ m ih =>
    intro hm s0 s' hinv hip hir h
    obtain ⟨s1, h1, h2⟩ := forUpM_succ_ok _ _ _ _ h
    obtain ⟨hinv1, hip1, hir1, hidf1, hfr1⟩ := ih (by omega) s0 s1 hinv hip hir h1
    rw [if_neg (fun hh => by omega)] at hidf1
    obtain ⟨hinv2, hip2, hir2, hidf2, hfr2⟩ := cholCell_stepR sq tol (by omega) hinv1 hip1 hir1 h2
    refine ⟨hinv2, hip2, hir2, ?_, fun p hp => ?_⟩
    · rw [hidf2, hidf1]; rfl
    · rw [hfr2 p (by omega), hfr1 p hp]

theorem outer_specR (sq : K → K) (tol : K) (a0 : Nat → K) :
    ∀ n (s : CholSt K),
      forUpM n (fun i0 (s : CholSt K) =>
        forUpM (i0 + 1) (fun j0 s' => @cholCell K (fieldScalar K sq) tol (i0 + 1) (j0 + 1) (s.ip + 1) s')
          { s with ir := 0 }) ⟨a0, 0, 0, 0⟩ = .ok s →
      RInv sq tol a0 s ∧ s.ip = Tr (n + 1) ∧ s.idf = nullCount tol a0 s.a n := by
  intro n
  induction n with
  | zero =>
    intro s h
    rw [forUpM_zero_ok _ _ _ h]
    refine ⟨⟨fun _ _ => rfl, ?_⟩, rfl, rfl⟩
    intro i j hj _ hle
    have : Tr i + j ≤ 0 := hle
    omega
  | succ n ih =>
    intro s h
    obtain ⟨s1, h1, h2⟩ := forUpM_succ_ok _ _ _ _ h
    obtain ⟨hinv1, hip1, hidf1⟩ := ih s1 h1
    have h2' : forUpM (n + 1) (fun j0 s' =>
        @cholCell K (fieldScalar K sq) tol (n + 1) (j0 + 1) (Tr (n + 1) + 1) s')
        { s1 with ir := 0 } = .ok s := by
      rw [← hip1]; exact h2
    obtain ⟨hinv, hip, _, hidf, hfr⟩ := row_specR sq tol (by omega) (n + 1) (Nat.le_refl _)
      { s1 with ir := 0 } s ⟨hinv1.rest, hinv1.done⟩ hip1 rfl h2'
    refine ⟨hinv, ?_, ?_⟩
    · rw [hip, Tr_succ (n + 1)]
    · have hfr' : ∀ p, p ≤ Tr (n + 1) → s.a p = s1.a p := fun p hp => hfr p (by rw [hip1]; exact hp)
      have hold : nullCount tol a0 s.a n = nullCount tol a0 s1.a n := by
        unfold nullCount
        refine sum_congr rfl (fun i hi => ?_)
        have hi' := mem_range.mp hi
        have hT : Tr (i + 1 + 1) ≤ Tr (n + 1) := Tr_mono (by omega)
        rw [Tr_succ (i + 1)] at hT
        rw [cellX_congr (by omega) (Nat.le_refl _) (fun p hp => hfr' p (by omega))]
      rw [nullCount_succ, hold, ← hidf1, hidf]
      show s1.idf + _ = s1.idf + _
      congr 1
      by_cases hlt : a0 (Tr (n + 1) + (n + 1)) * tol < cellX a0 s.a (n + 1) (n + 1)
      · rw [if_pos hlt, if_neg (fun hh => hh.2 hlt)]
      · rw [if_neg hlt, if_pos ⟨rfl, hlt⟩]

/-- Stage 1 on the 1-based view: every cell of the result satisfies the recurrence of the code -/
theorem cholDec1_recurrence (sq : K → K) (tol : K) (n : Nat) (a L : Nat → K) (d : Nat)
    (h : @cholDec1 K (fieldScalar K sq) n tol a = .ok (L, d)) :
    (∀ i j, 1 ≤ j → j ≤ i → i ≤ n → CellRec sq tol a L i j) ∧ d = nullCount tol a L n := by
  rw [cholDec1_eq] at h
  split at h
  · cases h
  · rename_i s hs
    simp only [Except.ok.injEq, Prod.mk.injEq] at h
    obtain ⟨rfl, rfl⟩ := h
    obtain ⟨hinv, hip, hidf⟩ := outer_specR sq tol a n s hs
    refine ⟨?_, hidf⟩
    intro i j hj hji hin
    have h1 : Tr (i + 1) ≤ Tr (n + 1) := Tr_mono (by omega)
    rw [Tr_succ i] at h1
    exact hinv.done i j hj hji (by omega)

/-- the value `x` of the cell `(i,j)` of `cholDec` (0-based packed storage, 1-based `i ≥ j`):
    `a(i,j) - Σ_{k<j} L(i,k) L(j,k)` -/
def cholX (s L : Nat → K) (i j : Nat) : K :=
  s (tri i j) - ∑ k ∈ range (j - 1), L (tri i (k + 1)) * L (tri j (k + 1))

/-- Stage 1: a non-rejected `cholDec` (ANY nullity `d`) returns `L` satisfying the recurrences
    of the code: off-diagonal `L(i,j) = (L(j,j) ≠ 0) ? x / L(j,j) : 0`, diagonal
    `x > a(i,i)*tol → (¬ x < 0 ∧ L(i,i) = sqrt x)`, else `L(i,i) = 0`. -/
theorem cholDec_recurrence (sq : K → K) (tol : K) (n : Nat) (s L : Nat → K) (d : Nat)
    (h : @cholDec K (fieldScalar K sq) n tol s = .ok (L, d)) :
    ∀ i j, 1 ≤ j → j ≤ i → i ≤ n →
      (i ≠ j → L (tri i j) = if L (tri j j) = 0 then 0 else cholX s L i j / L (tri j j)) ∧
      (i = j → (if s (tri i i) * tol < cholX s L i i
          then (¬ cholX s L i i < 0 ∧ L (tri i i) = sq (cholX s L i i))
          else L (tri i i) = 0)) := by
  rw [cholDec_eq] at h
  split at h
  · cases h
  · rename_i a idf h1
    simp only [Except.ok.injEq, Prod.mk.injEq] at h
    obtain ⟨rfl, rfl⟩ := h
    intro i j hj hji hin
    have hc := (cholDec1_recurrence sq tol n _ a idf h1).1 i j hj hji hin
    have e : ∀ i j, 1 ≤ j → tri i j + 1 = Tr i + j := by
      intro i j hj; rw [tri_eq]; omega
    have hXe : cholX s (fun p => a (p + 1)) i j = cellX (fun k => s (k - 1)) a i j := by
      unfold cholX cellX
      refine congrArg (fun z => s (tri i j) - z) (sum_congr rfl (fun k hk => ?_))
      have hk' := mem_range.mp hk
      show a (tri i (k + 1) + 1) * a (tri j (k + 1) + 1) = _
      rw [e i (k + 1) (by omega), e j (k + 1) (by omega)]
    obtain ⟨hc1, hc2⟩ := hc
    refine ⟨fun hne => ?_, fun he => ?_⟩
    · have := hc1 hne
      show a (tri i j + 1) = if a (tri j j + 1) = 0 then 0 else _ / a (tri j j + 1)
      rw [e i j hj, e j j hj, hXe]
      exact this
    · subst he
      have := hc2 rfl
      rw [hXe]
      show if s (tri i i) * tol < _ then (_ ∧ a (tri i i + 1) = _) else a (tri i i + 1) = 0
      rw [e i i hj]
      exact this

theorem cholX_eq_cellX (s a : Nat → K) (i j : Nat) (hj : 1 ≤ j) :
    cholX s (fun p => a (p + 1)) i j = cellX (fun k => s (k - 1)) a i j := by
  have e : ∀ i j, 1 ≤ j → tri i j + 1 = Tr i + j := by
    intro i j hj; rw [tri_eq]; omega
  unfold cholX cellX
  refine congrArg (fun z => s (tri i j) - z) (sum_congr rfl (fun k hk => ?_))
  have hk' := mem_range.mp hk
  show a (tri i (k + 1) + 1) * a (tri j (k + 1) + 1) = _
  rw [e i (k + 1) (by omega), e j (k + 1) (by omega)]

/-- the returned nullity `d` is the number of dropped (zeroed) pivots -/
theorem cholDec_nullity (sq : K → K) (tol : K) (n : Nat) (s L : Nat → K) (d : Nat)
    (h : @cholDec K (fieldScalar K sq) n tol s = .ok (L, d)) :
    d = ∑ i ∈ range n,
      (if s (tri (i + 1) (i + 1)) * tol < cholX s L (i + 1) (i + 1) then 0 else 1) := by
  rw [cholDec_eq] at h
  split at h
  · cases h
  · rename_i a idf h1
    simp only [Except.ok.injEq, Prod.mk.injEq] at h
    obtain ⟨rfl, rfl⟩ := h
    rw [(cholDec1_recurrence sq tol n _ a idf h1).2]
    unfold nullCount
    refine sum_congr rfl (fun i _ => ?_)
    rw [cholX_eq_cellX s a (i + 1) (i + 1) (by omega)]
    rfl

end Rec

/-! ### Stage 2: positive semi-definite input -/

section Quad
variable {K : Type} [Field K] [LinearOrder K] [IsStrictOrderedRing K]

/-- quadratic form on `insert j I` split along `j` (symmetric `R`) -/
theorem quad_insert (I : Finset ℕ) (j : ℕ) (hj : j ∉ I) (R : ℕ → ℕ → K)
    (hsym : ∀ r c, R r c = R c r) (w : ℕ → K) :
    ∑ r ∈ insert j I, ∑ c ∈ insert j I, w r * R r c * w c
      = w j * R j j * w j + 2 * w j * (∑ r ∈ I, w r * R r j)
        + ∑ r ∈ I, ∑ c ∈ I, w r * R r c * w c := by
  rw [sum_insert hj, sum_insert hj]
  have h1 : ∑ c ∈ I, w j * R j c * w c = w j * ∑ r ∈ I, w r * R r j := by
    rw [mul_sum]
    refine sum_congr rfl (fun c _ => ?_)
    rw [hsym j c]; ring
  have h2 : ∑ r ∈ I, ∑ c ∈ insert j I, w r * R r c * w c
      = w j * (∑ r ∈ I, w r * R r j) + ∑ r ∈ I, ∑ c ∈ I, w r * R r c * w c := by
    rw [mul_sum, ← sum_add_distrib]
    refine sum_congr rfl (fun r _ => ?_)
    rw [sum_insert hj]; ring
  rw [h1, h2]; ring

/-- one Schur-complement step: `R` positive semi-definite on `insert j I`, column `ℓ` computed by
    the Cholesky recurrences (with the `0` convention for a zero pivot) ⇒ the column reproduces
    `R(·,j)` and `R - ℓ ℓᵀ` is positive semi-definite on `I`. -/
theorem schur_step (I : Finset ℕ) (j : ℕ) (hj : j ∉ I) (R : ℕ → ℕ → K)
    (hsym : ∀ r c, R r c = R c r) (ℓ : ℕ → K)
    (hP : ∀ w : ℕ → K, 0 ≤ ∑ r ∈ insert j I, ∑ c ∈ insert j I, w r * R r c * w c)
    (hD : ℓ j * ℓ j = R j j)
    (hO : ∀ r ∈ I, ℓ r = if ℓ j = 0 then 0 else R r j / ℓ j) :
    (∀ r ∈ I, ℓ r * ℓ j = R r j) ∧
    (∀ v : ℕ → K, 0 ≤ ∑ r ∈ I, ∑ c ∈ I, v r * (R r c - ℓ r * ℓ c) * v c) := by
  have key : ∀ (t : K) (v : ℕ → K), 0 ≤ t * R j j * t + 2 * t * (∑ r ∈ I, v r * R r j)
      + ∑ r ∈ I, ∑ c ∈ I, v r * R r c * v c := by
    intro t v
    obtain ⟨w, hwj, hw⟩ : ∃ w : ℕ → K, w j = t ∧ ∀ r ∈ I, w r = v r :=
      ⟨fun x => if x = j then t else v x, if_pos rfl, fun r hr => if_neg (fun (h : r = j) => hj (h ▸ hr))⟩
    have := hP w
    have e1 : ∑ r ∈ I, w r * R r j = ∑ r ∈ I, v r * R r j :=
      sum_congr rfl (fun r hr => by rw [hw r hr])
    have e2 : ∑ r ∈ I, ∑ c ∈ I, w r * R r c * w c = ∑ r ∈ I, ∑ c ∈ I, v r * R r c * v c :=
      sum_congr rfl (fun r hr => sum_congr rfl (fun c hc => by rw [hw r hr, hw c hc]))
    rw [quad_insert I j hj R hsym w, hwj, e1, e2] at this
    exact this
  constructor
  · intro r hr
    by_cases h0 : ℓ j = 0
    · have hR0 : R j j = 0 := by rw [← hD, h0, mul_zero]
      have hl : ℓ r = 0 := by rw [hO r hr, if_pos h0]
      rw [hl, zero_mul]
      symm
      by_contra hne
      have := key (-(R r r + 1) / (2 * R r j)) (fun x => if x = r then 1 else 0)
      have e1 : ∑ x ∈ I, (if x = r then (1 : K) else 0) * R x j = R r j := by
        simp [hr]
      have e2 : ∑ x ∈ I, ∑ c ∈ I, (if x = r then (1 : K) else 0) * R x c
          * (if c = r then (1 : K) else 0) = R r r := by
        simp [hr]
      rw [e1, e2, hR0] at this
      have h2 : 2 * (-(R r r + 1) / (2 * R r j)) * R r j = -(R r r + 1) := by
        field_simp
      simp only [mul_zero, zero_mul, zero_add] at this
      linarith
    · rw [hO r hr, if_neg h0, div_mul_cancel₀ _ h0]
  · intro v
    have hexp : ∑ r ∈ I, ∑ c ∈ I, v r * (R r c - ℓ r * ℓ c) * v c
        = (∑ r ∈ I, ∑ c ∈ I, v r * R r c * v c)
          - (∑ r ∈ I, v r * ℓ r) * (∑ c ∈ I, v c * ℓ c) := by
      rw [sum_mul_sum, ← sum_sub_distrib]
      refine sum_congr rfl (fun r _ => ?_)
      rw [← sum_sub_distrib]
      exact sum_congr rfl (fun c _ => by ring)
    rw [hexp]
    by_cases h0 : ℓ j = 0
    · have hz : ∑ r ∈ I, v r * ℓ r = 0 :=
        sum_eq_zero (fun r hr => by rw [hO r hr, if_pos h0, mul_zero])
      rw [hz, zero_mul, sub_zero]
      have := key 0 v
      simpa using this
    · have hb : ∑ r ∈ I, v r * ℓ r = (∑ r ∈ I, v r * R r j) / ℓ j := by
        rw [sum_div]
        exact sum_congr rfl (fun r hr => by rw [hO r hr, if_neg h0, mul_div_assoc])
      have := key (-(∑ r ∈ I, v r * R r j) / (ℓ j * ℓ j)) v
      rw [← hD] at this
      rw [hb]
      generalize (∑ r ∈ I, v r * R r j) = b at this ⊢
      generalize (∑ r ∈ I, ∑ c ∈ I, v r * R r c * v c) = q at this ⊢
      have e : -b / (ℓ j * ℓ j) * (ℓ j * ℓ j) * (-b / (ℓ j * ℓ j)) + 2 * (-b / (ℓ j * ℓ j)) * b
          = - (b / ℓ j * (b / ℓ j)) := by
        field_simp
        ring
      linarith

/-- residual `A - Σ_{k ≤ m} Lf(·,k) Lf(·,k)ᵀ` after `m` columns -/
def Rm (A Lf : ℕ → ℕ → K) (m r c : ℕ) : K :=
  A r c - ∑ k ∈ range m, Lf r (k + 1) * Lf c (k + 1)

theorem Rm_sym {A Lf : ℕ → ℕ → K} (hsym : ∀ r c, A r c = A c r) (m r c : ℕ) :
    Rm A Lf m r c = Rm A Lf m c r := by
  unfold Rm
  rw [hsym r c]
  congr 1
  exact sum_congr rfl (fun k _ => mul_comm _ _)

theorem Rm_succ (A Lf : ℕ → ℕ → K) (m r c : ℕ) :
    Rm A Lf (m + 1) r c = Rm A Lf m r c - Lf r (m + 1) * Lf c (m + 1) := by
  unfold Rm
  rw [sum_range_succ]
  ring

/-- one column: from positive semi-definiteness of the residual on `m+1..n` -/
theorem col_schur (n : ℕ) (A Lf : ℕ → ℕ → K) (hsym : ∀ r c, A r c = A c r)
    (hD : ∀ j, 1 ≤ j → j ≤ n → Lf j j * Lf j j = Rm A Lf (j - 1) j j)
    (hO : ∀ j r, 1 ≤ j → j < r → r ≤ n →
      Lf r j = if Lf j j = 0 then 0 else Rm A Lf (j - 1) r j / Lf j j)
    (m : ℕ) (hm : m < n)
    (hP : ∀ v : ℕ → K, 0 ≤ ∑ r ∈ Icc (m + 1) n, ∑ c ∈ Icc (m + 1) n, v r * Rm A Lf m r c * v c) :
    (∀ i, m + 1 ≤ i → i ≤ n → Lf i (m + 1) * Lf (m + 1) (m + 1) = Rm A Lf m i (m + 1)) ∧
    (∀ v : ℕ → K, 0 ≤ ∑ r ∈ Icc (m + 1 + 1) n, ∑ c ∈ Icc (m + 1 + 1) n,
        v r * Rm A Lf (m + 1) r c * v c) := by
  have hins : insert (m + 1) (Icc (m + 1 + 1) n) = Icc (m + 1) n := by
    ext x
    simp only [mem_insert, mem_Icc]
    omega
  have hnot : m + 1 ∉ Icc (m + 1 + 1) n := by
    simp only [mem_Icc]
    omega
  have hD' := hD (m + 1) (by omega) (by omega)
  rw [Nat.add_sub_cancel] at hD'
  obtain ⟨h1, h2⟩ := schur_step (Icc (m + 1 + 1) n) (m + 1) hnot (Rm A Lf m) (Rm_sym hsym m)
    (fun r => Lf r (m + 1)) (by rw [hins]; exact hP) hD'
    (fun r hr => by
      have hr' := mem_Icc.mp hr
      have := hO (m + 1) r (by omega) (by omega) hr'.2
      rw [Nat.add_sub_cancel] at this
      exact this)
  constructor
  · intro i hi hin
    rcases Nat.eq_or_lt_of_le hi with heq | hlt
    · rw [← heq]; exact hD'
    · exact h1 i (mem_Icc.mpr ⟨by omega, hin⟩)
  · intro v
    have := h2 v
    refine le_of_le_of_eq this ?_
    refine sum_congr rfl (fun r _ => sum_congr rfl (fun c _ => ?_))
    rw [Rm_succ]

/-- Stage 2 on an abstract `Lf` satisfying the recurrences: `Lf(i,j) Lf(j,j) = R_j(i,j)` -/
theorem psd_chol_cols (n : ℕ) (A Lf : ℕ → ℕ → K) (hsym : ∀ r c, A r c = A c r)
    (hpsd : ∀ v : ℕ → K, 0 ≤ ∑ r ∈ Icc 1 n, ∑ c ∈ Icc 1 n, v r * A r c * v c)
    (hD : ∀ j, 1 ≤ j → j ≤ n → Lf j j * Lf j j = Rm A Lf (j - 1) j j)
    (hO : ∀ j r, 1 ≤ j → j < r → r ≤ n →
      Lf r j = if Lf j j = 0 then 0 else Rm A Lf (j - 1) r j / Lf j j) :
    (∀ m, m ≤ n → ∀ v : ℕ → K,
      0 ≤ ∑ r ∈ Icc (m + 1) n, ∑ c ∈ Icc (m + 1) n, v r * Rm A Lf m r c * v c) ∧
    (∀ i j, 1 ≤ j → j ≤ i → i ≤ n → Lf i j * Lf j j = Rm A Lf (j - 1) i j) := by
  have hPm : ∀ m, m ≤ n → ∀ v : ℕ → K,
      0 ≤ ∑ r ∈ Icc (m + 1) n, ∑ c ∈ Icc (m + 1) n, v r * Rm A Lf m r c * v c := by
    intro m
    induction m with
    | zero =>
      intro _ v
      refine le_of_le_of_eq (hpsd v) ?_
      refine sum_congr rfl (fun r _ => sum_congr rfl (fun c _ => ?_))
      simp [Rm]
    | succ m ih =>
      intro hm
      exact (col_schur n A Lf hsym hD hO m (by omega) (ih (by omega))).2
  refine ⟨hPm, ?_⟩
  intro i j hj hji hin
  obtain ⟨m, rfl⟩ : ∃ m, j = m + 1 := ⟨j - 1, by omega⟩
  rw [Nat.add_sub_cancel]
  exact (col_schur n A Lf hsym hD hO m (by omega) (hPm m (by omega))).1 i hji hin

end Quad

section Final
variable {K : Type} [Field K] [LinearOrder K] [IsStrictOrderedRing K]

theorem symEntry_comm (s : Nat → K) (r c : Nat) : symEntry s r c = symEntry s c r := by
  unfold symEntry
  rw [Nat.max_comm, Nat.min_comm]

/-- `cholDec` not rejected (ANY nullity), input positive semi-definite, every dropped pivot an
    exact zero  ⇒  `L Lᵀ = A` on the lower triangle -/
theorem cholDec_psd_spec (sq : K → K) (hsq : ∀ x, 0 ≤ x → sq x * sq x = x) (tol : K)
    (n : Nat) (s L : Nat → K) (d : Nat)
    (h : @cholDec K (fieldScalar K sq) n tol s = .ok (L, d))
    (hpsd : ∀ v : ℕ → K, 0 ≤ ∑ r ∈ Icc 1 n, ∑ c ∈ Icc 1 n, v r * symEntry s r c * v c)
    (hz : ∀ i, 1 ≤ i → i ≤ n → ¬ (s (tri i i) * tol < cholX s L i i) → cholX s L i i = 0) :
    ∀ i j, 1 ≤ j → j ≤ i → i ≤ n →
      ∑ k ∈ range j, L (tri i (k + 1)) * L (tri j (k + 1)) = s (tri i j) := by
  have hrec := cholDec_recurrence sq tol n s L d h
  obtain ⟨Lf, hLf⟩ : ∃ Lf : ℕ → ℕ → K, ∀ r c, c ≤ r → Lf r c = L (tri r c) :=
    ⟨fun r c => if c ≤ r then L (tri r c) else 0, fun r c hc => if_pos hc⟩
  have hRm : ∀ j r, 1 ≤ j → j ≤ r → Rm (symEntry s) Lf (j - 1) r j = cholX s L r j := by
    intro j r hj hjr
    unfold Rm cholX symEntry
    rw [Nat.max_eq_left hjr, Nat.min_eq_right hjr]
    congr 1
    refine sum_congr rfl (fun k hk => ?_)
    have hk' := mem_range.mp hk
    rw [hLf r (k + 1) (by omega), hLf j (k + 1) (by omega)]
  have hD : ∀ j, 1 ≤ j → j ≤ n → Lf j j * Lf j j = Rm (symEntry s) Lf (j - 1) j j := by
    intro j hj hjn
    rw [hRm j j hj (Nat.le_refl _), hLf j j (Nat.le_refl _)]
    have h2 := (hrec j j hj (Nat.le_refl _) hjn).2 rfl
    by_cases hlt : s (tri j j) * tol < cholX s L j j
    · rw [if_pos hlt] at h2
      rw [h2.2]
      exact hsq _ (not_lt.mp h2.1)
    · rw [if_neg hlt] at h2
      rw [h2, hz j hj hjn hlt, mul_zero]
  have hO : ∀ j r, 1 ≤ j → j < r → r ≤ n →
      Lf r j = if Lf j j = 0 then 0 else Rm (symEntry s) Lf (j - 1) r j / Lf j j := by
    intro j r hj hjr hrn
    rw [hRm j r hj (by omega), hLf j j (Nat.le_refl _), hLf r j (by omega)]
    exact (hrec r j hj (by omega) hrn).1 (by omega)
  intro i j hj hji hin
  have hc := (psd_chol_cols n (symEntry s) Lf (symEntry_comm s) hpsd hD hO).2 i j hj hji hin
  rw [hRm j i hj hji, hLf j j (Nat.le_refl _), hLf i j hji] at hc
  obtain ⟨m, rfl⟩ : ∃ m, j = m + 1 := ⟨j - 1, by omega⟩
  rw [sum_range_succ, hc]
  unfold cholX
  rw [Nat.add_sub_cancel]
  ring

/-- PSD input, `0 ≤ tol`: the returned nullity is the number of zero diagonal entries of `L` -/
theorem nullity_counts (sq : K → K) (hsq : ∀ x, 0 ≤ x → sq x * sq x = x) (tol : K)
    (htol : 0 ≤ tol) (n : Nat) (s L : Nat → K) (d : Nat)
    (h : @cholDec K (fieldScalar K sq) n tol s = .ok (L, d))
    (hpsd : ∀ v : ℕ → K, 0 ≤ ∑ r ∈ Icc 1 n, ∑ c ∈ Icc 1 n, v r * symEntry s r c * v c) :
    d = ((range n).filter (fun i => L (tri (i + 1) (i + 1)) = 0)).card := by
  have hrec := cholDec_recurrence sq tol n s L d h
  rw [cholDec_nullity sq tol n s L d h, card_filter]
  refine sum_congr rfl (fun i hi => ?_)
  have hi' := mem_range.mp hi
  have hdiag : 0 ≤ s (tri (i + 1) (i + 1)) := by
    have hmem : i + 1 ∈ Icc 1 n := mem_Icc.mpr ⟨by omega, by omega⟩
    have := hpsd (fun x => if x = i + 1 then 1 else 0)
    have e : ∑ r ∈ Icc 1 n, ∑ c ∈ Icc 1 n, (if r = i + 1 then (1 : K) else 0) * symEntry s r c
        * (if c = i + 1 then (1 : K) else 0) = symEntry s (i + 1) (i + 1) := by
      simp [hmem]
    rw [e] at this
    unfold symEntry at this
    rw [Nat.max_self, Nat.min_self] at this
    exact this
  have h2 := (hrec (i + 1) (i + 1) (by omega) (Nat.le_refl _) (by omega)).2 rfl
  by_cases hlt : s (tri (i + 1) (i + 1)) * tol < cholX s L (i + 1) (i + 1)
  · rw [if_pos hlt] at h2 ⊢
    have hne : L (tri (i + 1) (i + 1)) ≠ 0 := by
      intro h0
      have hx := hsq _ (not_lt.mp h2.1)
      rw [← h2.2, h0, mul_zero] at hx
      rw [← hx] at hlt
      have := mul_nonneg hdiag htol
      linarith
    rw [if_neg hne]
  · rw [if_neg hlt] at h2 ⊢
    rw [if_pos h2]

end Final

/-! ### non-vacuity: the singular PSD matrix `[[1,1],[1,1]]` over `ℚ`, nullity `1` -/

section ExamplePSD

def sqEx1 : ℚ → ℚ := fun x => if x = 1 then 1 else 0
def sEx1 : Nat → ℚ := fun k => if k = 0 then 1 else if k = 1 then 1 else if k = 2 then 1 else 0

/-- checker used to phrase the evaluation as a closed Boolean computation -/
def chkEx1 (r : Except CholErr ((Nat → ℚ) × Nat)) : Bool :=
  match r with
  | .ok (L, idf) => idf == 1 && decide (L 0 = 1) && decide (L 1 = 1) && decide (L 2 = 0)
  | .error _ => false

theorem chkEx1_ok {r : Except CholErr ((Nat → ℚ) × Nat)} (h : chkEx1 r = true) :
    ∃ L, r = .ok (L, 1) ∧ L 0 = 1 ∧ L 1 = 1 ∧ L 2 = 0 := by
  match r, h with
  | .ok (L, idf), h =>
    simp [chkEx1] at h
    obtain ⟨⟨⟨rfl, h0⟩, h1⟩, h2⟩ := h
    exact ⟨L, rfl, h0, h1, h2⟩
  | .error _, h => simp [chkEx1] at h

/-- `cholDec` accepts packed `[1,1,1]` (rank 1) with nullity `1` and returns packed `[1,1,0]` -/
theorem cholDec_psd_example :
    ∃ L, @cholDec ℚ (fieldScalar ℚ sqEx1) 2 (1 / 100000000) sEx1 = .ok (L, 1) ∧
      L 0 = 1 ∧ L 1 = 1 ∧ L 2 = 0 := by
  apply chkEx1_ok
  norm_num [chkEx1, cholDec, cholDec1, forUpM, cholCell, cholInner, forUp, fset, sqEx1, sEx1,
    Scalar.sqrt, Scalar.beq]

/-- the hypotheses (PSD) and (HZ) of `cholDec_psd_spec` hold in the example -/
theorem cholDec_psd_example_hyps :
    (∀ v : ℕ → ℚ, 0 ≤ ∑ r ∈ Icc 1 2, ∑ c ∈ Icc 1 2, v r * symEntry sEx1 r c * v c) ∧
    (∀ L : ℕ → ℚ, L 0 = 1 → L 1 = 1 → L 2 = 0 → ∀ i, 1 ≤ i → i ≤ 2 →
      ¬ (sEx1 (tri i i) * (1 / 100000000) < cholX sEx1 L i i) → cholX sEx1 L i i = 0) := by
  constructor
  · intro v
    have h12 : Icc 1 2 = ({1, 2} : Finset ℕ) := by decide
    rw [h12]
    simp [symEntry, tri, sEx1]
    nlinarith [sq_nonneg (v 1 + v 2)]
  · intro L h0 h1 h2 i hi1 hi2 hn
    interval_cases i
    · exfalso
      apply hn
      norm_num [cholX, tri, sEx1]
    · norm_num [cholX, tri, sEx1, h1]

end ExamplePSD

end Gama.MatVec
