/-
  C06 — lemmas about the g2d_cogo model over ℝ.
-/
import Gama.Lemmas.C06Real
open Gama Gama.Cogo Gama.C06R

namespace Gama.C06L

/-- along/across coordinates of X in the frame of the base line B1→B2 -/
noncomputable def along (B1 B2 X : Pt ℝ) : ℝ :=
  ((X.x - B1.x) * (B2.x - B1.x) + (X.y - B1.y) * (B2.y - B1.y)) / ((B2.x - B1.x)^2 + (B2.y - B1.y)^2)
noncomputable def across (B1 B2 X : Pt ℝ) : ℝ :=
  (-(X.x - B1.x) * (B2.y - B1.y) + (X.y - B1.y) * (B2.x - B1.x)) / ((B2.x - B1.x)^2 + (B2.y - B1.y)^2)
/-- mirror image of X in the line B1 B2 -/
noncomputable def mirror (B1 B2 X : Pt ℝ) : Pt ℝ :=
  ⟨B1.x + (B2.x - B1.x) * along B1 B2 X + (B2.y - B1.y) * across B1 B2 X,
   B1.y + (B2.y - B1.y) * along B1 B2 X - (B2.x - B1.x) * across B1 B2 X⟩

theorem distDist_exact (B1 B2 X : Pt ℝ) (r1 r2 sal : ℝ)
    (hne : (B2.x - B1.x)^2 + (B2.y - B1.y)^2 ≠ 0)
    (hr1 : 0 ≤ r1) (hr2 : 0 ≤ r2)
    (h1 : r1^2 = (X.x - B1.x)^2 + (X.y - B1.y)^2)
    (h2 : r2^2 = (X.x - B2.x)^2 + (X.y - B2.y)^2)
    (hs : (distDist B1 B2 r1 r2 sal).small = false) :
    (0 < across B1 B2 X → (distDist B1 B2 r1 r2 sal).sols = [X, mirror B1 B2 X]) ∧
    (across B1 B2 X < 0 → (distDist B1 B2 r1 r2 sal).sols = [mirror B1 B2 X, X]) ∧
    (across B1 B2 X = 0 → (distDist B1 B2 r1 r2 sal).sols = [X]) := by
  obtain ⟨x1, y1⟩ := B1
  obtain ⟨x2, y2⟩ := B2
  obtain ⟨x, y⟩ := X
  simp only at hne h1 h2
  set D := (x2 - x1)^2 + (y2 - y1)^2 with hD
  have hDpos : 0 < D := lt_of_le_of_ne (by positivity) (Ne.symm hne)
  set a := along ⟨x1,y1⟩ ⟨x2,y2⟩ ⟨x,y⟩ with ha
  set b := across ⟨x1,y1⟩ ⟨x2,y2⟩ ⟨x,y⟩ with hb
  have hs12 : Real.sqrt ((y2 - y1) * (y2 - y1) + (x2 - x1) * (x2 - x1)) = Real.sqrt D := by
    congr 1; rw [hD]; ring
  have hsD : Real.sqrt D * Real.sqrt D = D := Real.mul_self_sqrt hDpos.le
  have hsDpos : 0 < Real.sqrt D := Real.sqrt_pos.mpr hDpos
  have hsDne : Real.sqrt D ≠ 0 := hsDpos.ne'
  have ha' : a * D = (x - x1) * (x2 - x1) + (y - y1) * (y2 - y1) := by
    rw [ha, along]; simp only; rw [← hD]; field_simp
  have hb' : b * D = -(x - x1) * (y2 - y1) + (y - y1) * (x2 - x1) := by
    rw [hb, across]; simp only; rw [← hD]; field_simp
  have hs1 : (r1 / Real.sqrt D)^2 = a^2 + b^2 := by
    rw [div_pow, Real.sq_sqrt hDpos.le, div_eq_iff hne, h1]
    have : (a^2 + b^2) * D * D = (a*D)^2 + (b*D)^2 := by ring
    have h3 : (a ^ 2 + b ^ 2) * D = ((a*D)^2 + (b*D)^2) / D := by field_simp
    rw [h3, ha', hb', eq_div_iff hne, hD]; ring
  have hs2 : (r2 / Real.sqrt D)^2 = (a-1)^2 + b^2 := by
    rw [div_pow, Real.sq_sqrt hDpos.le, div_eq_iff hne, h2]
    have h3 : ((a-1) ^ 2 + b ^ 2) * D = ((a*D - D)^2 + (b*D)^2) / D := by field_simp
    rw [h3, ha', hb', eq_div_iff hne, hD]; ring
  have hX : x = x1 + (x2 - x1) * a - (y2 - y1) * b ∧ y = y1 + (y2 - y1) * a + (x2 - x1) * b := by
    constructor
    · have : (x1 + (x2 - x1) * a - (y2 - y1) * b) * D = x * D := by
        have : (x1 + (x2 - x1) * a - (y2 - y1) * b) * D = x1 * D + (x2 - x1) * (a*D) - (y2 - y1) * (b*D) := by ring
        rw [this, ha', hb', hD]; ring
      exact (mul_right_cancel₀ hne this).symm
    · have : (y1 + (y2 - y1) * a + (x2 - x1) * b) * D = y * D := by
        have : (y1 + (y2 - y1) * a + (x2 - x1) * b) * D = y1 * D + (y2 - y1) * (a*D) + (x2 - x1) * (b*D) := by ring
        rw [this, ha', hb', hD]; ring
      exact (mul_right_cancel₀ hne this).symm
  revert hs
  unfold distDist
  extract_lets dy dx s12 s1 s2 f g p1
  simp only [add_eq, sub_eq, mul_eq, div_eq, sqrt_eq, sqr_eq, two_eq, lt_eq, zero_eq, one_eq] at *
  have e12 : s12 = Real.sqrt D := by
    simp only [s12, dy, dx, sqrt_eq, sqr_eq, sub_eq, add_eq, mul_eq]; exact hs12
  have es1 : s1 = r1 / Real.sqrt D := by simp only [s1, div_eq, e12]
  have es2 : s2 = r2 / Real.sqrt D := by simp only [s2, div_eq, e12]
  have ef : f = a := by
    simp only [f, add_eq, sub_eq, mul_eq, div_eq, two_eq, one_eq]
    have : (s1 + s2) * (s1 - s2) = s1^2 - s2^2 := by ring
    rw [this, es1, es2, hs1, hs2]; ring
  have eg : g = b^2 := by
    simp only [g, add_eq, sub_eq, mul_eq]
    have : (s1 + f) * (s1 - f) = s1^2 - f^2 := by ring
    rw [this, ef, es1, hs1]; ring
  have esg : Real.sqrt g = |b| := by rw [eg]; exact Real.sqrt_sq_eq_abs b
  have hbeq : Scalar.beq s12 0 = false := by
    rw [Bool.eq_false_iff]; intro h; rw [beq_eq] at h; rw [e12] at h; exact hsDne h
  have hg0 : ¬ g < 0 := by rw [eg]; exact not_lt.mpr (sq_nonneg b)
  have edx : dx = x2 - x1 := by simp only [dx, sub_eq]
  have edy : dy = y2 - y1 := by simp only [dy, sub_eq]
  simp only [p1, hbeq, hg0, if_false, esg, add_eq, sub_eq, mul_eq, sqrt_eq, Bool.false_eq_true]
  rw [ef, edx, edy]
  by_cases hsm : |b| < sal * s1 * s2
  · simp [hsm, smallAngle]
  · simp only [hsm, if_false]
    intro _
    obtain ⟨hx, hy⟩ := hX
    refine ⟨fun hb0 => ?_, fun hb0 => ?_, fun hb0 => ?_⟩
    · have : 0 < g := by rw [eg]; positivity
      simp only [this, if_true, abs_of_pos hb0, mirror, ← ha, ← hb]
      rw [← hx, ← hy]
    · have : 0 < g := by rw [eg]; exact (sq_pos_of_ne_zero hb0.ne)
      simp only [this, if_true, abs_of_neg hb0, mirror, ← ha, ← hb]
      simp only [List.cons.injEq, Pt.mk.injEq, and_true]
      exact ⟨⟨by ring, by ring⟩, ⟨by linarith, by linarith⟩⟩
    · have : ¬ 0 < g := by rw [eg, hb0]; simp
      simp only [this, if_false, hb0, abs_zero]
      rw [hb0] at hx hy
      simp only [List.cons.injEq, Pt.mk.injEq, and_true]
      exact ⟨by linarith, by linarith⟩

theorem signum_mul_pos {t a : ℝ} (ht : 0 < t) : signum (t * a) = signum a := by
  unfold signum; simp only [lt_eq, zero_eq]
  rcases lt_trichotomy a 0 with h | h | h
  · have : t * a < 0 := mul_neg_of_pos_of_neg ht h; simp [h, this]
  · simp [h]
  · have : 0 < t * a := mul_pos ht h
    simp [h, this, not_lt.mpr h.le, not_lt.mpr this.le]

theorem polar_exact (S X : Pt ℝ) (o dir d : ℝ)
    (hx : X.x = S.x + d * Real.cos (o + dir)) (hy : X.y = S.y + d * Real.sin (o + dir)) :
    polar S o dir d = X := by
  obtain ⟨x, y⟩ := X
  simp only at hx hy
  simp only [polar, add_eq, mul_eq, cos_eq, sin_eq, Pt.mk.injEq]
  exact ⟨hx.symm, hy.symm⟩

theorem dirDirCore_exact (B1 B2 X : Pt ℝ) (h1 h2 t1 t2 sal : ℝ)
    (ht1 : 0 < t1) (ht2 : 0 < t2) (hsal : 0 < sal)
    (hx1 : X.x = B1.x + t1 * Real.cos h1) (hy1 : X.y = B1.y + t1 * Real.sin h1)
    (hx2 : X.x = B2.x + t2 * Real.cos h2) (hy2 : X.y = B2.y + t2 * Real.sin h2)
    (hsw : |Real.sin h1| ≤ |Real.sin h2|)
    (hs : (dirDirCore B1 h1 B2 h2 sal).small = false) :
    (dirDirCore B1 h1 B2 h2 sal).sols = [X] := by
  obtain ⟨x1, y1⟩ := B1
  obtain ⟨x2, y2⟩ := B2
  obtain ⟨x, y⟩ := X
  simp only at hx1 hy1 hx2 hy2
  revert hs
  unfold dirDirCore
  extract_lets jmen dy s_1 s_2 s_3 s_4
  have ej : jmen = Real.cos h1 * Real.sin h2 - Real.sin h1 * Real.cos h2 := by
    simp only [jmen, sub_eq, mul_eq, cos_eq, sin_eq]
  by_cases hsm : |jmen| < sal
  · simp [hsm, smallAngle]
  · have hj : jmen ≠ 0 := by
      intro h; rw [h, abs_zero] at hsm; exact hsm hsal
    have hs2 : Real.sin h2 ≠ 0 := by
      intro h
      have : Real.sin h1 = 0 := by
        rw [h, abs_zero] at hsw; exact abs_eq_zero.mp (le_antisymm hsw (abs_nonneg _))
      apply hj; rw [ej, h, this]; ring
    have edy : dy = t2 * Real.sin h2 := by
      simp only [dy, sub_eq, mul_eq, div_eq, cos_eq, sin_eq]
      rw [div_eq_iff hj, ej]
      have e1 : x2 - x1 = t1 * Real.cos h1 - t2 * Real.cos h2 := by linarith
      have e2 : y2 - y1 = t1 * Real.sin h1 - t2 * Real.sin h2 := by linarith
      rw [e1, e2]; ring
    have e12 : s_1 = s_2 := by
      simp only [s_1, s_2, sin_eq, edy]; exact signum_mul_pos ht2
    have ex : x2 + dy * Real.cos h2 / Real.sin h2 = x := by
      rw [edy, hx2]; field_simp
    have e34 : s_3 = s_4 := by
      simp only [s_3, s_4, sub_eq, add_eq, mul_eq, div_eq, cos_eq, sin_eq]
      rw [ex, hx1]
      have : x1 + t1 * Real.cos h1 - x1 = t1 * Real.cos h1 := by ring
      rw [this]; exact signum_mul_pos ht1
    simp only [abs_eq, lt_eq, hsm, if_false, e12, e34, ne_eq, not_true_eq_false, or_self,
      add_eq, mul_eq, div_eq, cos_eq, sin_eq]
    intro _
    simp only [List.cons.injEq, Pt.mk.injEq, and_true]
    exact ⟨ex, by rw [edy, hy2]⟩


theorem dirDir_exact (B1 B2 X : Pt ℝ) (h1 h2 t1 t2 sal : ℝ)
    (ht1 : 0 < t1) (ht2 : 0 < t2) (hsal : 0 < sal)
    (hx1 : X.x = B1.x + t1 * Real.cos h1) (hy1 : X.y = B1.y + t1 * Real.sin h1)
    (hx2 : X.x = B2.x + t2 * Real.cos h2) (hy2 : X.y = B2.y + t2 * Real.sin h2)
    (hs : (dirDir B1 h1 B2 h2 sal).small = false) :
    (dirDir B1 h1 B2 h2 sal).sols = [X] := by
  unfold dirDir at hs ⊢
  simp only [abs_eq, sin_eq, lt_eq] at hs ⊢
  by_cases hsw : |Real.sin h2| < |Real.sin h1|
  · simp only [hsw, if_true] at hs ⊢
    exact dirDirCore_exact B2 B1 X h2 h1 t2 t1 sal ht2 ht1 hsal hx2 hy2 hx1 hy1 hsw.le hs
  · simp only [hsw, if_false] at hs ⊢
    exact dirDirCore_exact B1 B2 X h1 h2 t1 t2 sal ht1 ht2 hsal hx1 hy1 hx2 hy2 (not_lt.mp hsw) hs

theorem tiny_eq : (tiny : ℝ) = 1 / 10 ^ 6 := by
  simp [tiny, Scalar.ofSci]

theorem dirDist_exact (B1 B2 X : Pt ℝ) (h1 t r sal : ℝ)
    (ht : 1 / 10 ^ 6 < t) (hr : 0 < r)
    (hx : X.x = B1.x + t * Real.cos h1) (hy : X.y = B1.y + t * Real.sin h1)
    (hr2 : r ^ 2 = (X.x - B2.x) ^ 2 + (X.y - B2.y) ^ 2)
    (hs : (dirDist B1 h1 B2 r sal).small = false) :
    X ∈ (dirDist B1 h1 B2 r sal).sols := by
  obtain ⟨x1, y1⟩ := B1
  obtain ⟨x2, y2⟩ := B2
  obtain ⟨x, y⟩ := X
  simp only at hx hy hr2
  have ht0 : 0 < t := lt_trans (by positivity) ht
  have hcs := Real.sin_sq_add_cos_sq h1
  revert hs
  unfold dirDist
  extract_lets yp xp x1' p1
  have eyp : yp = (y1 - y2) * Real.cos h1 - (x1 - x2) * Real.sin h1 := by
    simp only [yp, sub_eq, mul_eq, cos_eq, sin_eq]
  have exp : xp = (x1 - x2) * Real.cos h1 + (y1 - y2) * Real.sin h1 := by
    simp only [xp, sub_eq, add_eq, mul_eq, cos_eq, sin_eq]
  -- frame coordinates of X relative to B2
  have hu : (x - x2) = (xp + t) * Real.cos h1 - yp * Real.sin h1 := by
    rw [exp, eyp, hx]; linear_combination (-(x1 - x2)) * hcs
  have hw : (y - y2) = yp * Real.cos h1 + (xp + t) * Real.sin h1 := by
    rw [exp, eyp, hy]; linear_combination (-(y1 - y2)) * hcs
  have hrr : r ^ 2 = (xp + t) ^ 2 + yp ^ 2 := by
    rw [hr2, hu, hw]; linear_combination ((xp + t) ^ 2 + yp ^ 2) * hcs
  have ex1 : x1' = |xp + t| := by
    simp only [x1', sqrt_eq, sqr_eq, sub_eq]
    have : r * r - yp * yp = (xp + t) ^ 2 := by nlinarith
    rw [this]; exact Real.sqrt_sq_eq_abs _
  have h0 : ¬ r ≤ 0 := not_le.mpr hr
  have hyp : ¬ r < |yp| := by
    rw [not_lt, ← abs_of_pos hr]; apply sq_le_sq.mp; nlinarith [sq_nonneg (xp + t)]
  simp only [le_eq, lt_eq, zero_eq, abs_eq, h0, hyp, if_false]
  by_cases hu0 : 0 ≤ xp + t
  · have e : x1' = xp + t := by rw [ex1, abs_of_nonneg hu0]
    have hlt : ¬ x1' ≤ xp := by rw [e]; linarith
    simp only [hlt, if_false]
    by_cases hsm : x1' < sal * r
    · simp [hsm, smallAngle]
    · simp only [mul_eq, hsm, if_false]
      intro _
      have hp1 : p1 = ⟨x, y⟩ := by
        simp only [p1, add_eq, sub_eq, mul_eq, cos_eq, sin_eq, Pt.mk.injEq, e]
        constructor <;> linarith
      split_ifs <;> simp [hp1]
  · have hneg : xp + t < 0 := not_le.mp hu0
    have e : x1' = -(xp + t) := by rw [ex1, abs_of_neg hneg]
    have hlt : ¬ x1' ≤ xp := by rw [e]; linarith
    simp only [hlt, if_false]
    by_cases hsm : x1' < sal * r
    · simp [hsm, smallAngle]
    · simp only [mul_eq, hsm, if_false]
      intro _
      have h2 : ¬ (-x1' ≤ xp + tiny) := by rw [e, tiny_eq]; linarith
      simp only [neg_eq]
      simp only [add_eq, h2, if_false]
      simp only [List.mem_cons, sub_eq, add_eq, mul_eq, cos_eq, sin_eq, e]
      right; left
      simp only [Pt.mk.injEq]
      constructor <;> linarith


/-- a similarity of the plane: (x,y) ↦ (tx + a1 x − a2 y, ty + a1 y + a2 x) -/
noncomputable def simil (a1 a2 tx ty : ℝ) (p : Pt ℝ) : Pt ℝ := ⟨tx + a1 * p.x - a2 * p.y, ty + a1 * p.y + a2 * p.x⟩

theorem similarity_exact (a1 a2 tx ty : ℝ) (f1 f2 p : Pt ℝ)
    (hne : (f2.x - f1.x) ^ 2 + (f2.y - f1.y) ^ 2 ≠ 0) :
    transform (transformationKey f1 f2 (simil a1 a2 tx ty f1) (simil a1 a2 tx ty f2)) p = simil a1 a2 tx ty p := by
  obtain ⟨x1, y1⟩ := f1
  obtain ⟨x2, y2⟩ := f2
  obtain ⟨x, y⟩ := p
  simp only at hne
  have hD : (x2 - x1) * (x2 - x1) + (y2 - y1) * (y2 - y1) ≠ 0 := by
    intro h; apply hne; nlinarith
  simp only [transform, transformationKey, simil, add_eq, sub_eq, mul_eq, div_eq, sqr_eq, Pt.mk.injEq]
  constructor <;> field_simp <;> ring

end Gama.C06L
