/-
  `Cluster::activeCov` returns the principal sub-matrix of the active rows;
  `Cluster::scaleCov(p, s)` is `D C D` with `D = diag(1,…,s,…,1)`.
-/
import Gama.Lemmas.CovGetSet
import Gama.Model.ActiveCov
namespace Gama.Cov
open Packed CovMat

theorem Packed.size_nonneg {d b : Nat} (hb : b ≤ d) : 0 ≤ Packed.size d b := by
  rcases Nat.eq_zero_or_pos d with h | h
  · subst h
    have : b = 0 := by omega
    subst this; simp [Packed.size]
  · rw [← rowOff_last d b hb]
    exact rowOff_nonneg hb h (by omega) (le_refl _)

theorem CovMat.mk'_WF {K : Type} (d b : Nat) (z : K) (hb : b ≤ d) : (CovMat.mk' d b z).WF := by
  refine ⟨hb, ?_⟩
  have := Packed.size_nonneg hb
  simp only [CovMat.mk', Array.size_replicate]
  omega

/-! ### the index list -/

theorem activeIdx_ge (n : Nat) (obs : List ObsInfo) : ∀ x ∈ activeIdx n obs, n ≤ x := by
  induction obs generalizing n with
  | nil => intro x hx; simp [activeIdx] at hx
  | cons o rest ih =>
    intro x hx
    simp only [activeIdx, List.mem_append] at hx
    rcases hx with hx | hx
    · split at hx
      · simp only [List.mem_map, List.mem_range] at hx
        obtain ⟨a, _, rfl⟩ := hx; omega
      · cases hx
    · have := ih (n + o.dimension) x hx; omega

/-- the index list is strictly increasing -/
theorem activeIdx_sorted (n : Nat) (obs : List ObsInfo) : (activeIdx n obs).Pairwise (· < ·) := by
  induction obs generalizing n with
  | nil => simp [activeIdx]
  | cons o rest ih =>
    simp only [activeIdx]
    rw [List.pairwise_append]
    refine ⟨?_, ih _, ?_⟩
    · split
      · rw [List.pairwise_map]
        exact List.Pairwise.imp (by intro a b h; omega) (List.pairwise_lt_range)
      · exact List.Pairwise.nil
    · intro a ha b hb
      have hb' := activeIdx_ge _ _ b hb
      split at ha
      · simp only [List.mem_map, List.mem_range] at ha
        obtain ⟨c, hc, rfl⟩ := ha; omega
      · cases ha

/-! ### activeCov -/

section active
variable {K : Type} [Zero K]

/-- clipped band of the result -/
def actBand (covBand N : Nat) : Nat := if N ≠ 0 then (if N - 1 < covBand then N - 1 else covBand) else 0

theorem actBand_le (covBand N : Nat) : actBand covBand N ≤ N := by
  unfold actBand; split <;> [split; skip] <;> omega

/-- one assignment `C(i, i+j) = cov(ind[i], ind[i+j])` -/
def actStep (cov : CovMat K) (ind : Array Nat) (N : Nat) (i : Nat) (C : CovMat K) (j : Nat) : CovMat K :=
  if i + j ≤ N then
    match C.set i (i + j) (cov.get (ind.getD (i - 1) 0) (ind.getD (i + j - 1) 0)) with
    | .ok C' => C'
    | .error _ => C
  else C

theorem activeCovOf_eq (cov : CovMat K) (ind : Array Nat) :
    activeCovOf cov ind =
      (List.range' 1 ind.size).foldl (fun C i =>
        (List.range (actBand cov.band ind.size + 1)).foldl (actStep cov ind ind.size i) C)
        (CovMat.mk' ind.size (actBand cov.band ind.size) 0) := rfl

/-- the value the loop writes at `(i, j)` -/
def actVal (cov : CovMat K) (ind : Array Nat) (i j : Nat) : K :=
  cov.get (ind.getD (i - 1) 0) (ind.getD (j - 1) 0)

/-- shape invariant of the loop -/
def ActInv (N nb : Nat) (C : CovMat K) : Prop := C.WF ∧ C.dim = N ∧ C.band = nb

theorem actStep_spec (cov : CovMat K) (ind : Array Nat) {N nb i j : Nat} {C : CovMat K}
    (hC : ActInv N nb C) (hi : 1 ≤ i) (hj : j ≤ nb) :
    ActInv N nb (actStep cov ind N i C j) ∧
    (i + j ≤ N → (actStep cov ind N i C j).get i (i + j) = actVal cov ind i (i + j)) ∧
    (∀ i' j', InBand N nb i' j' → C.get i' j' = actVal cov ind i' j' →
        (actStep cov ind N i C j).get i' j' = actVal cov ind i' j') := by
  obtain ⟨hwf, hd, hb⟩ := hC
  unfold actStep
  by_cases hN : i + j ≤ N
  · have hin : InBand C.dim C.band i (i + j) := by rw [hd, hb]; exact ⟨hi, by omega, hN, by omega⟩
    simp only [hN, if_true, set_upper hin]
    refine ⟨⟨rawSet_WF hwf _ _, by rw [rawSet_dim]; exact hd, by rw [rawSet_band]; exact hb⟩, ?_, ?_⟩
    · intro _
      rw [get_rawSet hwf hin hin]; simp [actVal]
    · intro i' j' hin' hold
      have hin'' : InBand C.dim C.band i' j' := by rw [hd, hb]; exact hin'
      rw [get_rawSet hwf hin hin'']
      by_cases e : i' = i ∧ j' = i + j
      · obtain ⟨e1, e2⟩ := e; subst e1; subst e2; simp [actVal]
      · simp [e, hold]
  · simp only [if_neg hN]
    exact ⟨⟨hwf, hd, hb⟩, fun h => absurd h hN, fun _ _ _ h => h⟩

/-- the inner loop (fixed row `i`) -/
theorem actInner_spec (cov : CovMat K) (ind : Array Nat) {N nb i : Nat} (hi : 1 ≤ i) (C0 : CovMat K)
    (hC : ActInv N nb C0) (S : Nat → Nat → Prop)
    (hS : ∀ i' j', S i' j' → InBand N nb i' j' ∧ C0.get i' j' = actVal cov ind i' j') :
    let R := (List.range (nb + 1)).foldl (actStep cov ind N i) C0
    ActInv N nb R ∧ (∀ i' j', S i' j' → R.get i' j' = actVal cov ind i' j') ∧
      (∀ j', InBand N nb i j' → R.get i j' = actVal cov ind i j') := by
  intro R
  have key := foldl_nodup_cover (actStep cov ind N i)
    (fun C => ActInv N nb C ∧ ∀ i' j', S i' j' → C.get i' j' = actVal cov ind i' j')
    (fun _ _ => True)
    (fun j C => i + j ≤ N → C.get i (i + j) = actVal cov ind i (i + j))
    (fun j => j ≤ nb)
    (by
      intro s a ha hinv _
      obtain ⟨h1, h2, h3⟩ := actStep_spec cov ind hinv.1 hi ha
      exact ⟨⟨h1, fun i' j' hs => h3 i' j' (hS i' j' hs).1 (hinv.2 i' j' hs)⟩, h2⟩)
    (by
      intro s a a' ha ha' _ hinv _
      refine ⟨fun _ => trivial, ?_⟩
      intro hq hle
      obtain ⟨_, _, h3⟩ := actStep_spec cov ind hinv.1 hi ha
      exact h3 i (i + a') ⟨hi, by omega, hle, by omega⟩ (hq hle))
    (List.range (nb + 1)) (List.nodup_range) (by intro a ha; simp at ha; omega) C0 (fun _ => False)
    (by intro a ha; cases ha) ⟨hC, fun i' j' hs => (hS i' j' hs).2⟩ (fun _ _ => trivial) (by intro a ha; cases ha)
  refine ⟨key.1.1, key.1.2, ?_⟩
  intro j' hin
  obtain ⟨h1, h2, h3, h4⟩ := hin
  have := key.2 (j' - i) (Or.inr (by simp; omega))
  have e : i + (j' - i) = j' := by omega
  rw [e] at this
  exact this h3

/-- all in-band entries of the result -/
theorem activeCovOf_inband (cov : CovMat K) (ind : Array Nat) :
    let N := ind.size
    let nb := actBand cov.band N
    ActInv N nb (activeCovOf cov ind) ∧
      ∀ i j, InBand N nb i j → (activeCovOf cov ind).get i j = actVal cov ind i j := by
  intro N nb
  rw [activeCovOf_eq]
  have key := foldl_nodup_cover
    (fun C i => (List.range (nb + 1)).foldl (actStep cov ind N i) C)
    (fun C => ActInv N nb C)
    (fun _ _ => True)
    (fun i C => ∀ j', InBand N nb i j' → C.get i j' = actVal cov ind i j')
    (fun i => 1 ≤ i)
    (by
      intro s a ha hinv _
      have := actInner_spec cov ind ha s hinv (fun _ _ => False) (by intro _ _ h; cases h)
      exact ⟨this.1, this.2.2⟩)
    (by
      intro s a a' ha ha' _ hinv _
      refine ⟨fun _ => trivial, ?_⟩
      intro hq
      have := actInner_spec cov ind ha s hinv (fun i' j' => i' = a' ∧ InBand N nb i' j')
        (by intro i' j' h; obtain ⟨e, hin⟩ := h; subst e; exact ⟨hin, hq j' hin⟩)
      intro j' hin
      exact this.2.1 a' j' ⟨rfl, hin⟩)
    (List.range' 1 N) (List.nodup_range' (s := 1) (n := N)) (by intro a ha; simp [List.mem_range'] at ha; omega)
    (CovMat.mk' N nb 0) (fun _ => False) (by intro a ha; cases ha)
    ⟨CovMat.mk'_WF N nb 0 (actBand_le _ _), rfl, rfl⟩ (fun _ _ => trivial) (by intro a ha; cases ha)
  refine ⟨key.1, ?_⟩
  intro i j hin
  refine key.2 i (Or.inr ?_) j hin
  obtain ⟨h1, h2, h3, h4⟩ := hin
  rw [List.mem_range'_1]
  exact ⟨h1, by omega⟩

/-- **activeCov = principal sub-matrix.**  For a strictly increasing index array `ind` the band
    matrix returned by `activeCov` represents `cov(ind[i], ind[j])` for ALL `1 ≤ i, j ≤ N`:
    inside the new band by the copy loop, outside it both sides are 0 (nothing is lost). -/
theorem activeCovOf_submatrix (cov : CovMat K) (ind : Array Nat)
    (hinc : ∀ a b, a < b → b < ind.size → ind.getD a 0 < ind.getD b 0)
    (i j : Nat) (hi : 1 ≤ i) (hiN : i ≤ ind.size) (hj : 1 ≤ j) (hjN : j ≤ ind.size) :
    (activeCovOf cov ind).get i j = cov.get (ind.getD (i - 1) 0) (ind.getD (j - 1) 0) := by
  have main : ∀ i j, 1 ≤ i → i ≤ j → j ≤ ind.size →
      (activeCovOf cov ind).get i j = cov.get (ind.getD (i - 1) 0) (ind.getD (j - 1) 0) := by
    intro i j hi hij hjN
    obtain ⟨⟨hwf, hd, hb⟩, hin⟩ := activeCovOf_inband cov ind
    by_cases hband : j ≤ i + actBand cov.band ind.size
    · exact hin i j ⟨hi, hij, hjN, hband⟩
    · have hlt : j > i + actBand cov.band ind.size := by omega
      rw [get_outside _ hij (by rw [hb]; exact hlt)]
      -- the band was not clipped (otherwise j ≤ N ≤ i + (N-1)), and ind[j] - ind[i] ≥ j - i > band
      have hnb : actBand cov.band ind.size = cov.band := by
        unfold actBand at hlt ⊢
        split at hlt
        · split at hlt
          · omega
          · rename_i h1 h2; simp [h1, h2]
        · omega
      rw [hnb] at hlt
      have gap : ∀ t, i - 1 + t < ind.size → ind.getD (i - 1) 0 + t ≤ ind.getD (i - 1 + t) 0 := by
        intro t
        induction t with
        | zero => intro _; simp
        | succ t ih =>
          intro hlt'
          have := ih (by omega)
          have := hinc (i - 1 + t) (i - 1 + (t + 1)) (by omega) hlt'
          omega
      have := gap (j - i) (by omega)
      have e : i - 1 + (j - i) = j - 1 := by omega
      rw [e] at this
      symm
      apply get_outside
      · omega
      · omega
  rcases Nat.le_total i j with h | h
  · exact main i j hi h hjN
  · rw [get_symm, main j i hj h hiN, get_symm]

end active

/-! ### scaleCov -/

section scale
variable {K : Type} [Zero K] [Mul K]

def scStep (p : Nat) (sc : K) (c : CovMat K) (i : Nat) : Except Err (CovMat K) := c.set p i (c.get p i * sc)

theorem scaleCov_eq (cov : CovMat K) (p : Nat) (sc : K) :
    scaleCov cov p sc =
      (cov.set p p (cov.get p p * sc)).bind fun c1 =>
        (List.range' (if p < cov.band + 1 then 1 else p - cov.band)
          ((if p + cov.band > cov.dim then cov.dim else p + cov.band) + 1 -
            (if p < cov.band + 1 then 1 else p - cov.band))).foldlM (scStep p sc) c1 := rfl

end scale

end Gama.Cov

namespace Gama.Cov
open Packed CovMat

/-- index form of "strictly increasing" for the array built from `activeIdx` -/
theorem activeIdx_increasing (n : Nat) (obs : List ObsInfo) :
    ∀ a b, a < b → b < (activeIdx n obs).toArray.size →
      (activeIdx n obs).toArray.getD a 0 < (activeIdx n obs).toArray.getD b 0 := by
  intro a b hab hb
  have hs := activeIdx_sorted n obs
  rw [List.pairwise_iff_getElem] at hs
  have hb' : b < (activeIdx n obs).length := by simpa using hb
  have ha' : a < (activeIdx n obs).length := by omega
  have := hs a b ha' hb' hab
  simpa [Array.getD, ha', hb'] using this

/-- **`Cluster::activeCov`** (for every cluster, every band, every set of excluded observations):
    the result has dimension = number of active rows, band `min(b, N-1)`, is well formed, and
    represents exactly the principal sub-matrix on the (strictly increasing) active row indices. -/
theorem activeCov_submatrix {K : Type} [Zero K] (cov : CovMat K) (obs : List ObsInfo) :
    let ind := (activeIdx 1 obs).toArray
    let R := activeCov cov obs
    R.WF ∧ R.dim = ind.size ∧ R.band = actBand cov.band ind.size ∧
    ∀ i j, 1 ≤ i → i ≤ ind.size → 1 ≤ j → j ≤ ind.size →
      R.get i j = cov.get (ind.getD (i - 1) 0) (ind.getD (j - 1) 0) := by
  intro ind R
  obtain ⟨⟨hw, hd, hb⟩, _⟩ := activeCovOf_inband cov ind
  refine ⟨hw, hd, hb, ?_⟩
  intro i j h1 h2 h3 h4
  exact activeCovOf_submatrix cov ind (activeIdx_increasing 1 obs) i j h1 h2 h3 h4

end Gama.Cov
