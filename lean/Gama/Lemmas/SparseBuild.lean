/-
  C16: building a `SparseMatrix` row by row (`new_row` / `add_element`), `replicate`, and
  what the functional specification of `transpose` means.

  * `Layout rs A` : the storage of `A` holds exactly the rows `rs` (CRS layout invariant);
    it is established by `build`, preserved by `replicate`, implied by `WF`
    (with `rs = A.toRows`), and implies `toRows = rs` and `WF`.
  * Part B: pure list lemmas on `transposeRows`, `stableSortByCol`, lifted to matrices.
-/
import Gama.Lemmas.SparseCountingSort

namespace Gama
namespace SMat
variable {K : Type}

/-! ### Definitions -/

/-- `new_row(); add_element(e,k) …` for one row -/
def pushRow [Inhabited K] (A : SMat K) (row : List (Nat × K)) : SMat K :=
  row.foldl (fun A e => A.addElement e.2 e.1) A.newRow

/-- `SparseMatrix(floats, rows, cols)` followed by the rows in order -/
def build [Inhabited K] (floats rows cols : Nat) (rs : List (List (Nat × K))) : SMat K :=
  rs.foldl pushRow (SMat.new floats rows cols)

/-- the calls guarded by their definedness conditions (`none` = the C++ call is undefined) -/
def newRow? (A : SMat K) : Option (SMat K) := if A.canNewRow then some A.newRow else none
def addElement? (A : SMat K) (e : K) (k : Nat) : Option (SMat K) :=
  if A.canAddElement then some (A.addElement e k) else none
def pushRow? (A : SMat K) (row : List (Nat × K)) : Option (SMat K) :=
  (newRow? A).bind fun A' => row.foldlM (fun A e => addElement? A e.2 e.1) A'
def build? [Inhabited K] (floats rows cols : Nat) (rs : List (List (Nat × K))) : Option (SMat K) :=
  rs.foldlM pushRow? (SMat.new floats rows cols)

/-- all entries `(row, column, value)` of a list of rows -/
def entriesOf (rs : List (List (Nat × K))) : List (Nat × Nat × K) :=
  (rs.zipIdx 1).flatMap fun p => p.1.map fun e => (p.2, e.1, e.2)

/-- every column index lies in `1..cols` -/
def ColsIn (cols : Nat) (rs : List (List (Nat × K))) : Prop :=
  ∀ row ∈ rs, ∀ e ∈ row, 1 ≤ e.1 ∧ e.1 ≤ cols

/-! ### Sanity tests -/

def exB : SMat Nat := build 5 3 4 [[(3,10)],[],[(1,11),(4,12),(2,13)]]
def exN : SMat Nat := (build 5 3 0 [[(3,10)],[],[(1,11),(4,12),(2,13)]]).replicate 5 3 4

example : exB.toRows = [[(3,10)],[],[(1,11),(4,12),(2,13)]] := by decide
example : (build? 5 3 4 [[(3,10)],[],[(1,11),(4,12),(2,13)]]).map toRows = some exB.toRows := by
  decide
example : (build? 3 3 4 [[(3,10)],[],[(1,11),(4,12),(2,13)]]).isNone = true := by decide
example : exB.transpose.transpose.toRows = exB.toRows.map (stableSortByCol exB.cols) := by decide
example : exB.transpose.transpose.toRows = [[(3,10)],[],[(1,11),(2,13),(4,12)]] := by decide
example : exN.toRows = [[(3,10)],[],[(1,11),(4,12),(2,13)]] := by decide
example : exB.entries = entriesOf exB.toRows := by decide

/-! ### The layout invariant -/

/-- the storage of `A` holds exactly the rows `rs` -/
structure Layout [Inhabited K] (rs : List (List (Nat × K))) (A : SMat K) : Prop where
  rcnt_eq : A.rcnt = rs.length
  ncnt_eq : A.ncnt = rs.flatten.length
  rptr_size : rs.length + 2 ≤ A.rptr.size
  cind_size : rs.flatten.length ≤ A.cind.size
  nonz_size : rs.flatten.length ≤ A.nonz.size
  ptr : ∀ j, j ≤ rs.length → A.rptr[1 + j]! = ((rs.take j).flatten).length
  ci : ∀ (p : Nat) (x : Nat × K), rs.flatten[p]? = some x → A.cind[p]! = x.1
  nz : ∀ (p : Nat) (x : Nat × K), rs.flatten[p]? = some x → A.nonz[p]! = x.2

/-- state of a build in progress: layout plus the capacities -/
structure Built [Inhabited K] (floats rows cols : Nat) (rs : List (List (Nat × K))) (A : SMat K) :
    Prop where
  lay : Layout rs A
  rows_eq : A.rows = rows
  cols_eq : A.cols = cols
  rnxt_eq : A.rnxt = rs.length + 1
  len_le : rs.length ≤ rows
  cnt_le : rs.flatten.length ≤ floats
  cap_rptr : rows + 2 ≤ A.rptr.size
  cap_cind : floats ≤ A.cind.size
  cap_nonz : floats ≤ A.nonz.size

section BuildSteps
variable [Inhabited K]

theorem built_new (floats rows cols : Nat) : Built floats rows cols [] (new floats rows cols : SMat K) where
  lay := {
    rcnt_eq := rfl
    ncnt_eq := rfl
    rptr_size := by simp [new]
    cind_size := by simp
    nonz_size := by simp
    ptr := by
      intro j hj
      have : j = 0 := by simpa using hj
      subst this
      simp [new]
    ci := by intro p x hx; simp at hx
    nz := by intro p x hx; simp at hx }
  rows_eq := rfl
  cols_eq := rfl
  rnxt_eq := rfl
  len_le := by simp
  cnt_le := by simp
  cap_rptr := by simp [new]
  cap_cind := by simp [new]
  cap_nonz := by simp [new]

theorem Built.newRow {floats rows cols : Nat} {rs : List (List (Nat × K))} {A : SMat K}
    (h : Built floats rows cols rs A) (hk : rs.length < rows) :
    Built floats rows cols (rs ++ [[]]) A.newRow where
  lay := {
    rcnt_eq := by simp [SMat.newRow, h.lay.rcnt_eq]
    ncnt_eq := by simp [SMat.newRow, h.lay.ncnt_eq]
    rptr_size := by have := h.cap_rptr; simp [SMat.newRow]; omega
    cind_size := by simpa [SMat.newRow] using h.lay.cind_size
    nonz_size := by simpa [SMat.newRow] using h.lay.nonz_size
    ptr := by
      intro j hj
      have hj : j ≤ rs.length + 1 := by simpa using hj
      have hcap := h.cap_rptr
      show ((A.rptr.setIfInBounds (A.rcnt + 1) A.ncnt).setIfInBounds (A.rnxt + 1) A.ncnt)[1 + j]! = _
      rw [getElemBang_setIfInBounds, getElemBang_setIfInBounds, Array.size_setIfInBounds,
        h.rnxt_eq, h.lay.rcnt_eq, h.lay.ncnt_eq]
      by_cases h1 : j = rs.length + 1
      · subst h1
        rw [if_pos (by omega), List.take_of_length_le (by simp)]
        simp
      · rw [if_neg (by omega)]
        by_cases h2 : j = rs.length
        · subst h2
          rw [if_pos (by omega), List.take_left' rfl]
        · rw [if_neg (by omega), List.take_append_of_le_length (by omega)]
          exact h.lay.ptr j (by omega)
    ci := by intro p x hx; exact h.lay.ci p x (by simpa using hx)
    nz := by intro p x hx; exact h.lay.nz p x (by simpa using hx) }
  rows_eq := h.rows_eq
  cols_eq := h.cols_eq
  rnxt_eq := by simp [SMat.newRow, h.rnxt_eq]
  len_le := by simp; omega
  cnt_le := by simpa using h.cnt_le
  cap_rptr := by simpa [SMat.newRow] using h.cap_rptr
  cap_cind := h.cap_cind
  cap_nonz := h.cap_nonz

theorem Built.addElement {floats rows cols : Nat} {rs : List (List (Nat × K))}
    {row : List (Nat × K)} {A : SMat K}
    (h : Built floats rows cols (rs ++ [row]) A)
    (hn : (rs ++ [row]).flatten.length < floats) (e : K) (k : Nat) :
    Built floats rows cols (rs ++ [row ++ [(k, e)]]) (A.addElement e k) := by
  have hfl : (rs ++ [row ++ [(k, e)]]).flatten = (rs ++ [row]).flatten ++ [(k, e)] := by simp
  have hlen : (rs ++ [row ++ [(k, e)]]).length = (rs ++ [row]).length := by simp
  have key : ∀ {β : Type} [Inhabited β] (g : Nat × K → β) (a : Array β),
      floats ≤ a.size → (∀ (p : Nat) x, (rs ++ [row]).flatten[p]? = some x → a[p]! = g x) →
      ∀ (p : Nat) x, (rs ++ [row ++ [(k, e)]]).flatten[p]? = some x →
        (a.setIfInBounds A.ncnt (g (k, e)))[p]! = g x := by
    intro β _ g a hsz hold p x hx
    rw [hfl, List.getElem?_append] at hx
    rw [getElemBang_setIfInBounds, h.lay.ncnt_eq]
    by_cases hp : p < (rs ++ [row]).flatten.length
    · rw [if_pos hp] at hx
      rw [if_neg (by omega)]
      exact hold p x hx
    · rw [if_neg hp] at hx
      have hp0 : p - (rs ++ [row]).flatten.length = 0 := by
        by_cases h0 : p - (rs ++ [row]).flatten.length = 0
        · exact h0
        · obtain ⟨m, hm⟩ : ∃ m, p - (rs ++ [row]).flatten.length = m + 1 :=
            ⟨p - (rs ++ [row]).flatten.length - 1, by omega⟩
          rw [hm] at hx; simp at hx
      rw [hp0] at hx
      have hx' : (k, e) = x := by simpa using hx
      subst hx'
      rw [if_pos (by omega)]
  exact {
    lay := {
      rcnt_eq := by rw [hlen]; exact h.lay.rcnt_eq
      ncnt_eq := by
        show A.ncnt + 1 = _
        rw [hfl, h.lay.ncnt_eq, List.length_append]; rfl
      rptr_size := by rw [hlen]; simpa [SMat.addElement] using h.lay.rptr_size
      cind_size := by
        have := h.cap_cind
        rw [hfl]; simp [SMat.addElement] at hn ⊢; omega
      nonz_size := by
        have := h.cap_nonz
        rw [hfl]; simp [SMat.addElement] at hn ⊢; omega
      ptr := by
        intro j hj
        have hj : j ≤ rs.length + 1 := by simpa using hj
        have hcap := h.cap_rptr
        have hle : rs.length + 1 ≤ rows := by simpa using h.len_le
        show (A.rptr.modify A.rnxt (· + 1))[1 + j]! = _
        rw [getElemBang_modify, h.rnxt_eq]
        by_cases h1 : j = rs.length + 1
        · subst h1
          rw [if_pos (by simp; omega), h.lay.ptr _ (by simp),
            List.take_of_length_le (by simp), List.take_of_length_le (by simp), hfl,
            List.length_append]
          rfl
        · rw [if_neg (by simp; omega), h.lay.ptr j (by simp; omega),
            List.take_append_of_le_length (by omega), List.take_append_of_le_length (by omega)]
      ci := key (fun x => x.1) A.cind h.cap_cind h.lay.ci
      nz := key (fun x => x.2) A.nonz h.cap_nonz h.lay.nz }
    rows_eq := h.rows_eq
    cols_eq := h.cols_eq
    rnxt_eq := by rw [hlen]; exact h.rnxt_eq
    len_le := by rw [hlen]; exact h.len_le
    cnt_le := by rw [hfl]; simp at hn ⊢; omega
    cap_rptr := by simpa [SMat.addElement] using h.cap_rptr
    cap_cind := by simpa [SMat.addElement] using h.cap_cind
    cap_nonz := by simpa [SMat.addElement] using h.cap_nonz }

theorem Built.addRow {floats rows cols : Nat} {rs : List (List (Nat × K))} (row : List (Nat × K)) :
    ∀ {acc : List (Nat × K)} {A : SMat K}, Built floats rows cols (rs ++ [acc]) A →
      (rs ++ [acc]).flatten.length + row.length ≤ floats →
      Built floats rows cols (rs ++ [acc ++ row]) (row.foldl (fun A e => A.addElement e.2 e.1) A) ∧
      row.foldlM (fun A e => addElement? A e.2 e.1) A =
        some (row.foldl (fun A e => A.addElement e.2 e.1) A) := by
  induction row with
  | nil => intro acc A h _; simpa using h
  | cons x row ih =>
    intro acc A h hn
    have hn' : (rs ++ [acc]).flatten.length < floats := by simp at hn ⊢; omega
    have h1 := h.addElement hn' x.2 x.1
    have hcan : A.canAddElement = true := by
      have := h.cap_nonz
      have h2 := h.lay.rcnt_eq
      have h3 := h.lay.ncnt_eq
      simp only [List.length_append, List.length_cons, List.length_nil] at h2
      simp only [canAddElement, Bool.and_eq_true, decide_eq_true_eq]
      omega
    have h2 := ih h1 (by simp at hn ⊢; omega)
    rw [List.append_assoc] at h2
    refine ⟨h2.1, ?_⟩
    rw [List.foldlM_cons, List.foldl_cons]
    simp only [addElement?, hcan, if_true]
    exact h2.2

theorem Built.pushRow {floats rows cols : Nat} {rs : List (List (Nat × K))} {A : SMat K}
    (h : Built floats rows cols rs A) (row : List (Nat × K)) (hk : rs.length < rows)
    (hn : rs.flatten.length + row.length ≤ floats) :
    Built floats rows cols (rs ++ [row]) (A.pushRow row) ∧ pushRow? A row = some (A.pushRow row) := by
  have hcan : A.canNewRow = true := by
    simp only [canNewRow, decide_eq_true_eq, h.lay.rcnt_eq, h.rows_eq]; exact hk
  have := Built.addRow row (h.newRow hk) (by simpa using hn)
  refine ⟨by simpa [SMat.pushRow] using this.1, ?_⟩
  simp only [pushRow?, newRow?, hcan, if_true]
  exact this.2

theorem Built.build {floats rows cols : Nat} (rs : List (List (Nat × K))) :
    ∀ {pre : List (List (Nat × K))} {A : SMat K}, Built floats rows cols pre A →
      (pre ++ rs).length ≤ rows → (pre ++ rs).flatten.length ≤ floats →
      Built floats rows cols (pre ++ rs) (rs.foldl SMat.pushRow A) ∧
      rs.foldlM pushRow? A = some (rs.foldl SMat.pushRow A) := by
  induction rs with
  | nil => intro pre A h _ _; simpa using h
  | cons row rs ih =>
    intro pre A h hk hn
    have h1 := h.pushRow row (by simp at hk; omega) (by simp at hn ⊢; omega)
    have h2 := ih h1.1 (by simpa using hk) (by simpa using hn)
    rw [List.append_assoc] at h2
    refine ⟨h2.1, ?_⟩
    rw [List.foldlM_cons, List.foldl_cons, h1.2]
    exact h2.2

/-- the invariant holds after `build` -/
theorem build_built (floats rows cols : Nat) (rs : List (List (Nat × K)))
    (hk : rs.length ≤ rows) (hn : rs.flatten.length ≤ floats) :
    Built floats rows cols rs (build floats rows cols rs) := by
  have := (Built.build rs (built_new (K := K) floats rows cols) (by simpa using hk)
    (by simpa using hn)).1
  simpa [SMat.build] using this

/-- every `new_row` / `add_element` call made by `build` is defined -/
theorem build?_eq (floats rows cols : Nat) (rs : List (List (Nat × K)))
    (hk : rs.length ≤ rows) (hn : rs.flatten.length ≤ floats) :
    build? floats rows cols rs = some (build floats rows cols rs) :=
  (Built.build rs (built_new (K := K) floats rows cols) (by simpa using hk) (by simpa using hn)).2

end BuildSteps

/-! ### Consequences of the layout invariant -/

section LayoutFacts
variable [Inhabited K]

theorem take_succ_flatten_length {α : Type} (rs : List (List α)) (k : Nat) (hk : k < rs.length) :
    ((rs.take (k + 1)).flatten).length = ((rs.take k).flatten).length + rs[k].length := by
  rw [List.take_succ_eq_append_getElem hk]
  simp only [List.flatten_append, List.length_append, List.flatten_cons, List.flatten_nil,
    List.append_nil]

theorem take_flatten_length_le {α : Type} (rs : List (List α)) (k : Nat) :
    ((rs.take k).flatten).length ≤ rs.flatten.length := by
  conv => rhs; rw [← List.take_append_drop k rs, List.flatten_append, List.length_append]
  omega

theorem Layout.rowEntries {rs : List (List (Nat × K))} {A : SMat K} (h : Layout rs A)
    (k : Nat) (hk : k < rs.length) : A.rowEntries (1 + k) = rs[k] := by
  unfold SMat.rowEntries rowRange
  rw [h.ptr k (by omega), show 1 + k + 1 = 1 + (k + 1) by omega, h.ptr (k + 1) (by omega),
    take_succ_flatten_length rs k hk, Nat.add_sub_cancel_left]
  apply List.ext_getElem
  · simp
  · intro i hi1 hi2
    have := flatten_getElem? rs k i hk hi2
    simp only [List.getElem_map, List.getElem_range', Nat.one_mul]
    rw [h.ci _ _ this, h.nz _ _ this]

theorem Layout.rowEntries' {rs : List (List (Nat × K))} {A : SMat K} (h : Layout rs A)
    (r : Nat) (h1 : 1 ≤ r) (h2 : r ≤ rs.length) : A.rowEntries r = rs.getD (r - 1) [] := by
  have := h.rowEntries (r - 1) (by omega)
  rw [show 1 + (r - 1) = r by omega] at this
  rw [this]
  simp [List.getD, List.getElem?_eq_getElem (show r - 1 < rs.length by omega)]

theorem Layout.toRows {rs : List (List (Nat × K))} {A : SMat K} (h : Layout rs A)
    (hr : rs.length = A.rows) : A.toRows = rs := by
  apply List.ext_getElem
  · simp [SMat.toRows, hr]
  · intro k h1 h2
    simp only [SMat.toRows, List.getElem_map, List.getElem_range', Nat.one_mul]
    exact h.rowEntries k h2

theorem Layout.WF {rs : List (List (Nat × K))} {A : SMat K} (h : Layout rs A)
    (hr : rs.length = A.rows) (hc : ColsIn A.cols rs) : A.WF where
  rcnt_eq := by rw [h.rcnt_eq, hr]
  rptr_size := by rw [← hr]; exact h.rptr_size
  rptr_one := by simpa using h.ptr 0 (by omega)
  rptr_mono := by
    intro r h1 h2
    have e1 := h.ptr (r - 1) (by omega)
    have e2 := h.ptr r (by omega)
    rw [show 1 + (r - 1) = r by omega] at e1
    rw [Nat.add_comm 1 r] at e2
    rw [e1, e2]
    have := take_succ_flatten_length rs (r - 1) (by omega)
    rw [show r - 1 + 1 = r by omega] at this
    omega
  rptr_last := by
    have := h.ptr rs.length (Nat.le_refl _)
    rw [List.take_of_length_le (Nat.le_refl _), hr, Nat.add_comm] at this
    rw [this, h.ncnt_eq]
  cind_size := by rw [h.ncnt_eq]; exact h.cind_size
  nonz_size := by rw [h.ncnt_eq]; exact h.nonz_size
  cind_range := by
    intro p hp
    rw [h.ncnt_eq] at hp
    have hx : rs.flatten[p]? = some rs.flatten[p] := List.getElem?_eq_getElem hp
    rw [h.ci p _ hx]
    have hm : rs.flatten[p] ∈ rs.flatten := List.getElem_mem hp
    obtain ⟨row, hrow, hmem⟩ := List.mem_flatten.mp hm
    exact hc row hrow _ hmem

/-- **A1** `build` stores exactly the rows it was given, with every intermediate call defined -/
theorem build_entries (floats rows cols : Nat) (rs : List (List (Nat × K)))
    (hk : rs.length ≤ rows) (hn : rs.flatten.length ≤ floats) :
    build? floats rows cols rs = some (build floats rows cols rs) ∧
    (build floats rows cols rs).rcnt = rs.length ∧
    (build floats rows cols rs).rnxt = rs.length + 1 ∧
    (build floats rows cols rs).ncnt = rs.flatten.length ∧
    (build floats rows cols rs).rows = rows ∧
    (build floats rows cols rs).cols = cols ∧
    (∀ r, 1 ≤ r → r ≤ rs.length → (build floats rows cols rs).rowEntries r = rs.getD (r - 1) []) ∧
    (rs.length = rows → (build floats rows cols rs).toRows = rs) := by
  have hb := build_built floats rows cols rs hk hn
  exact ⟨build?_eq floats rows cols rs hk hn, hb.lay.rcnt_eq, hb.rnxt_eq, hb.lay.ncnt_eq,
    hb.rows_eq, hb.cols_eq, hb.lay.rowEntries', fun hr => hb.lay.toRows (by rw [hr, hb.rows_eq])⟩

end LayoutFacts

/-- **A2** a completely built matrix with column indices in range is well formed -/
theorem build_WF [Inhabited K] (floats rows cols : Nat) (rs : List (List (Nat × K)))
    (hk : rs.length = rows) (hn : rs.flatten.length ≤ floats) (hc : ColsIn cols rs) :
    (build floats rows cols rs).WF := by
  have hb := build_built floats rows cols rs (by omega) hn
  exact hb.lay.WF (by rw [hk, hb.rows_eq]) (by rw [hb.cols_eq]; exact hc)

/-! ### Part B: what the specification means -/

section Spec

theorem mem_entriesOf {rs : List (List (Nat × K))} {i j : Nat} {a : K} :
    (i, j, a) ∈ entriesOf rs ↔ 1 ≤ i ∧ ∃ row, rs[i - 1]? = some row ∧ (j, a) ∈ row := by
  simp only [entriesOf, List.mem_flatMap, List.mem_map, List.mem_zipIdx_iff_le_and_getElem?_sub,
    Prod.exists, Prod.mk.injEq]
  constructor
  · rintro ⟨row, i', ⟨h1, h2⟩, j', a', hm, rfl, rfl, rfl⟩
    exact ⟨h1, row, h2, hm⟩
  · rintro ⟨h1, row, h2, hm⟩
    exact ⟨row, i, ⟨h1, h2⟩, j, a, hm, rfl, rfl, rfl⟩

theorem mem_transposeRow {rs : List (List (Nat × K))} {c j : Nat} {a : K} :
    (j, a) ∈ transposeRow rs c ↔ (j, c, a) ∈ entriesOf rs := by
  simp only [transposeRow, entriesOf, List.mem_flatMap, List.mem_map, List.mem_filter,
    Prod.exists, Prod.mk.injEq, beq_iff_eq]
  constructor
  · rintro ⟨row, i, hz, c', a', ⟨hm, rfl⟩, rfl, rfl⟩
    exact ⟨row, i, hz, c', a', hm, rfl, rfl, rfl⟩
  · rintro ⟨row, i, hz, c', a', hm, rfl, rfl, rfl⟩
    exact ⟨row, i, hz, c', a', ⟨hm, rfl⟩, rfl, rfl⟩

theorem mem_entriesOf_transposeRows {cols : Nat} {rs : List (List (Nat × K))} {i j : Nat} {a : K} :
    (i, j, a) ∈ entriesOf (transposeRows cols rs) ↔
      1 ≤ i ∧ i ≤ cols ∧ (j, i, a) ∈ entriesOf rs := by
  rw [mem_entriesOf]
  unfold transposeRows
  constructor
  · rintro ⟨h1, row, h2, hm⟩
    rw [List.getElem?_map] at h2
    have hlt : i - 1 < cols := by
      by_cases hlt : i - 1 < cols
      · exact hlt
      · rw [List.getElem?_eq_none (by simp; omega)] at h2; simp at h2
    rw [List.getElem?_range' hlt] at h2
    simp only [Option.map_some, Option.some.injEq, Nat.one_mul] at h2
    rw [show 1 + (i - 1) = i by omega] at h2
    subst h2
    exact ⟨h1, by omega, mem_transposeRow.mp hm⟩
  · rintro ⟨h1, h2, hm⟩
    refine ⟨h1, transposeRow rs i, ?_, mem_transposeRow.mpr hm⟩
    rw [List.getElem?_map, List.getElem?_range' (by omega)]
    simp only [Option.map_some, Nat.one_mul]
    rw [show 1 + (i - 1) = i by omega]

theorem entriesOf_colsIn {cols : Nat} {rs : List (List (Nat × K))} (hc : ColsIn cols rs)
    {i j : Nat} {a : K} (h : (i, j, a) ∈ entriesOf rs) : 1 ≤ j ∧ j ≤ cols := by
  obtain ⟨_, row, h2, hm⟩ := mem_entriesOf.mp h
  exact hc row (List.mem_of_getElem? h2) _ hm

theorem entriesOf_rowIn {rs : List (List (Nat × K))} {i j : Nat} {a : K}
    (h : (i, j, a) ∈ entriesOf rs) : 1 ≤ i ∧ i ≤ rs.length := by
  obtain ⟨h1, row, h2, _⟩ := mem_entriesOf.mp h
  have := (List.getElem?_eq_some_iff.mp h2).1
  omega

/-- **B1** the entries of the transposed rows are the transposed entries -/
theorem mem_transposeRows {cols : Nat} {rs : List (List (Nat × K))} (hc : ColsIn cols rs)
    {i j : Nat} {a : K} :
    (i, j, a) ∈ entriesOf (transposeRows cols rs) ↔ (j, i, a) ∈ entriesOf rs := by
  rw [mem_entriesOf_transposeRows]
  constructor
  · rintro ⟨_, _, h⟩; exact h
  · intro h
    have := entriesOf_colsIn hc h
    exact ⟨this.1, this.2, h⟩

theorem entries_eq_entriesOf [Inhabited K] (A : SMat K) : A.entries = entriesOf A.toRows := by
  unfold entries entriesOf toRows
  rw [zipIdx_range'_map]
  simp [List.flatMap_map]

theorem toRows_colsIn [Inhabited K] (A : SMat K) (h : A.WF) : ColsIn A.cols A.toRows := by
  intro row hrow e he
  obtain ⟨k, hk, rfl⟩ := List.getElem_of_mem hrow
  have : (1 + k, e.1, e.2) ∈ entriesOf A.toRows :=
    mem_entriesOf.mpr ⟨by omega, _, by
      rw [Nat.add_sub_cancel_left]; exact List.getElem?_eq_getElem hk, he⟩
  rw [← entries_eq_entriesOf] at this
  exact entries_inRange A h _ this

/-- **B1** (matrix level) -/
theorem mem_transpose_entries [Inhabited K] (A : SMat K) (h : A.WF) {i j : Nat} {a : K} :
    (i, j, a) ∈ A.transpose.entries ↔ (j, i, a) ∈ A.entries := by
  rw [entries_eq_entriesOf, transpose_toRows A h, entries_eq_entriesOf,
    mem_transposeRows (toRows_colsIn A h)]

end Spec

/-! ### B3: the transpose is well formed -/

section TransposeWF
variable [Inhabited K]

theorem toArray_getElemBang {β : Type} [Inhabited β] (l : List β) (p : Nat) (x : β)
    (hx : l[p]? = some x) : l.toArray[p]! = x := by simp [hx]

theorem ofRows_layout (cols : Nat) (rs : List (List (Nat × K))) (pad : List Nat) :
    Layout rs (ofRows rs.length cols rs pad) where
  rcnt_eq := rfl
  ncnt_eq := rfl
  rptr_size := by simp [ofRows, CS.ptrsOf_length]
  cind_size := by show _ ≤ (List.toArray _).size; rw [List.size_toArray, List.length_map]
  nonz_size := by show _ ≤ (List.toArray _).size; rw [List.size_toArray, List.length_map]
  ptr := by
    intro j hj
    apply toArray_getElemBang
    rw [List.cons_append, Nat.add_comm 1 j, List.getElem?_cons_succ,
      List.getElem?_append_left (by rw [CS.ptrsOf_length]; omega), CS.ptrsOf_get _ _ _ hj,
      Nat.zero_add]
  ci := by
    intro p x hx
    apply toArray_getElemBang
    rw [List.getElem?_map, hx]; rfl
  nz := by
    intro p x hx
    apply toArray_getElemBang
    rw [List.getElem?_map, hx]; rfl

theorem ofRows_WF (rows cols : Nat) (rs : List (List (Nat × K))) (pad : List Nat)
    (hr : rs.length = rows) (hc : ColsIn cols rs) : (ofRows rows cols rs pad).WF := by
  subst hr
  exact (ofRows_layout cols rs pad).WF rfl hc

omit [Inhabited K] in
theorem transposeRows_length (cols : Nat) (rs : List (List (Nat × K))) :
    (transposeRows cols rs).length = cols := by simp [transposeRows]

omit [Inhabited K] in
theorem transposeRows_colsIn (cols : Nat) (rs : List (List (Nat × K))) :
    ColsIn rs.length (transposeRows cols rs) := by
  intro row hrow e he
  simp only [transposeRows, List.mem_map] at hrow
  obtain ⟨c, _, rfl⟩ := hrow
  have : (e.1, c, e.2) ∈ entriesOf rs := mem_transposeRow.mp he
  exact entriesOf_rowIn this

theorem toRows_length (A : SMat K) : A.toRows.length = A.rows := by simp [toRows]

/-- **B3** `transpose` of a well-formed matrix is well formed -/
theorem transpose_WF (A : SMat K) (h : A.WF) : A.transpose.WF := by
  rw [transpose_eq_spec A h]
  apply ofRows_WF
  · exact transposeRows_length _ _
  · have := transposeRows_colsIn A.cols A.toRows
    rwa [toRows_length] at this

end TransposeWF

/-! ### B4: transposing twice sorts every row stably by column -/

section Twice

theorem zipIdx_flatMap_ite {α β : Type} (f : α → List β) (r : Nat) :
    ∀ (l : List α) (k : Nat),
      (l.zipIdx k).flatMap (fun p => if p.2 = r then f p.1 else []) =
        if k ≤ r then ((l[r - k]?).map f).getD [] else [] := by
  intro l
  induction l with
  | nil => intro k; simp
  | cons x l ih =>
    intro k
    rw [List.zipIdx_cons, List.flatMap_cons, ih (k + 1)]
    by_cases h1 : k = r
    · subst h1; simp
    · by_cases h2 : k < r
      · have e : k - 0 = k := rfl
        rw [if_neg h1, if_pos (by omega), if_pos (by omega), List.nil_append,
          show r - k = (r - (k + 1)) + 1 by omega, List.getElem?_cons_succ]
      · rw [if_neg h1, if_neg (by omega), if_neg (by omega)]; rfl

theorem filter_tag {β : Type} (l : List (Nat × β)) (k r c : Nat) :
    ((l.map fun e => (k, e.2)).filter fun e => e.1 == r).map (fun e => (c, e.2)) =
      if k = r then l.map (fun e => (c, e.2)) else [] := by
  by_cases h : k = r
  · subst h
    rw [if_pos rfl, List.filter_eq_self.mpr (by
      intro a ha; obtain ⟨e, _, rfl⟩ := List.mem_map.mp ha; simp), List.map_map]; rfl
  · simp [List.filter_map, Function.comp_def, h]

theorem flatMap_congr' {α β : Type} {l : List α} {f g : α → List β} (h : ∀ x ∈ l, f x = g x) :
    l.flatMap f = l.flatMap g := by
  induction l with
  | nil => rfl
  | cons x l ih =>
    rw [List.flatMap_cons, List.flatMap_cons, h x (by simp), ih (fun y hy => h y (by simp [hy]))]

theorem transposeRow_def (rs : List (List (Nat × K))) (c : Nat) :
    transposeRow rs c = (rs.zipIdx 1).flatMap fun p =>
      (p.1.filter (fun e => e.1 == c)).map fun e => (p.2, e.2) := rfl

theorem filter_retag {β : Type} (l : List (Nat × β)) (c : Nat) :
    (l.filter fun e => e.1 == c).map (fun e => (c, e.2)) = l.filter fun e => e.1 == c := by
  induction l with
  | nil => rfl
  | cons x l ih =>
    by_cases h : x.1 = c
    · rw [List.filter_cons_of_pos (by simpa using h), List.map_cons, ih]
      congr 1
      rw [← h]
    · rw [List.filter_cons_of_neg (by simpa using h), ih]

theorem transposeRow_transposeRows (cols : Nat) (rs : List (List (Nat × K))) (r : Nat)
    (hr : 1 ≤ r) :
    transposeRow (transposeRows cols rs) r = stableSortByCol cols (rs.getD (r - 1) []) := by
  have h1 : transposeRow (transposeRows cols rs) r =
      (List.range' 1 cols).flatMap fun c =>
        ((transposeRow rs c).filter fun e => e.1 == r).map fun e => (c, e.2) := by
    rw [transposeRow_def (transposeRows cols rs) r, transposeRows, zipIdx_range'_map,
      List.flatMap_map]
  rw [h1]
  unfold stableSortByCol
  apply flatMap_congr'
  intro c _
  unfold transposeRow
  rw [List.filter_flatMap, List.map_flatMap]
  have h2 : ∀ p : List (Nat × K) × Nat,
      ((((p.1.filter fun e => e.1 == c).map fun e => (p.2, e.2)).filter fun e => e.1 == r).map
        fun e => (c, e.2)) = if p.2 = r then (p.1.filter fun e => e.1 == c) else [] := by
    intro p
    rw [filter_tag, filter_retag]
  simp only [h2]
  rw [zipIdx_flatMap_ite (fun row : List (Nat × K) => row.filter fun e => e.1 == c) r rs 1,
    if_pos hr]
  cases h : rs[r - 1]? with
  | none => simp [List.getD, h]
  | some row => simp [List.getD, h]

/-- transposing the rows twice = sorting every row stably by column -/
theorem transposeRows_transposeRows (cols : Nat) (rs : List (List (Nat × K))) :
    transposeRows rs.length (transposeRows cols rs) = rs.map (stableSortByCol cols) := by
  apply List.ext_getElem
  · simp [transposeRows]
  · intro k h1 h2
    simp only [transposeRows, List.getElem_map, List.getElem_range', Nat.one_mul]
    have := transposeRow_transposeRows cols rs (1 + k) (by omega)
    simp only [transposeRows] at this
    rw [this, Nat.add_sub_cancel_left]
    have hk : k < rs.length := by simpa using h2
    simp [List.getD, List.getElem?_eq_getElem hk]

/-- **B4** -/
theorem transpose_transpose [Inhabited K] (A : SMat K) (h : A.WF) :
    A.transpose.transpose.toRows = A.toRows.map (stableSortByCol A.cols) := by
  rw [transpose_toRows _ (transpose_WF A h), transpose_toRows A h]
  have : A.transpose.cols = A.toRows.length := by rw [toRows_length]; rfl
  rw [this, transposeRows_transposeRows]

end Twice

/-! ### `stableSortByCol` is the stable sort by column -/

section StableSort

/-- the buckets `1..k` of a key function are a permutation of the elements with key in `1..k` -/
theorem flatMap_filter_perm {α : Type} (key : α → Nat) (l : List α) (k : Nat) :
    ((List.range' 1 k).flatMap fun c => l.filter fun x => key x == c).Perm
      (l.filter fun x => decide (1 ≤ key x ∧ key x ≤ k)) := by
  induction k with
  | zero =>
    rw [List.range'_zero, List.flatMap_nil]
    have : (l.filter fun x => decide (1 ≤ key x ∧ key x ≤ 0)) = [] := by
      rw [List.filter_eq_nil_iff]; intro a _; simp; omega
    rw [this]
  | succ k ih =>
    rw [List.range'_concat, List.flatMap_append, List.flatMap_cons, List.flatMap_nil,
      List.append_nil]
    have h := List.filter_append_perm (fun x => decide (1 ≤ key x ∧ key x ≤ k))
      (l.filter fun x => decide (1 ≤ key x ∧ key x ≤ k + 1))
    rw [List.filter_filter, List.filter_filter] at h
    have e1 : (l.filter fun a => decide (1 ≤ key a ∧ key a ≤ k) &&
        decide (1 ≤ key a ∧ key a ≤ k + 1)) = l.filter fun x => decide (1 ≤ key x ∧ key x ≤ k) := by
      apply List.filter_congr
      intro x _
      rw [Bool.eq_iff_iff]; simp; omega
    have e2 : (l.filter fun a => (!decide (1 ≤ key a ∧ key a ≤ k)) &&
        decide (1 ≤ key a ∧ key a ≤ k + 1)) = l.filter fun x => key x == 1 + 1 * k := by
      apply List.filter_congr
      intro x _
      rw [Bool.eq_iff_iff]; simp; omega
    rw [e1, e2] at h
    exact (ih.append_right _).trans h

theorem range'_flatMap_ite {β : Type} (X : List β) (c : Nat) (m a : Nat) :
    (List.range' a m).flatMap (fun c' => if c' = c then X else []) =
      if a ≤ c ∧ c < a + m then X else [] := by
  induction m with
  | zero => simp
  | succ m ih =>
    rw [List.range'_concat, List.flatMap_append, ih, List.flatMap_cons, List.flatMap_nil,
      List.append_nil, Nat.one_mul]
    by_cases h1 : a ≤ c ∧ c < a + m
    · rw [if_pos h1, if_neg (by omega), if_pos (by omega), List.append_nil]
    · rw [if_neg h1, List.nil_append]
      by_cases h2 : a + m = c
      · rw [if_pos h2, if_pos (by omega)]
      · rw [if_neg h2, if_neg (by omega)]

variable {cols : Nat} {row : List (Nat × K)}

theorem stableSortByCol_perm (hc : ∀ e ∈ row, 1 ≤ e.1 ∧ e.1 ≤ cols) :
    (stableSortByCol cols row).Perm row := by
  have := flatMap_filter_perm (fun e : Nat × K => e.1) row cols
  rw [List.filter_eq_self.mpr (by intro a ha; simpa using hc a ha)] at this
  exact this

theorem stableSortByCol_sorted (cols : Nat) (row : List (Nat × K)) :
    (stableSortByCol cols row).Pairwise (fun a b => a.1 ≤ b.1) := by
  unfold stableSortByCol
  rw [List.pairwise_flatMap]
  constructor
  · intro c _
    apply (List.pairwise_of_forall (R := fun _ _ => True) (fun _ _ => trivial)).imp_of_mem
    intro a b ha hb _
    have ha := (List.mem_filter.mp ha).2
    have hb := (List.mem_filter.mp hb).2
    simp only [beq_iff_eq] at ha hb
    omega
  · apply (List.pairwise_lt_range' (s := 1) (n := cols)).imp
    intro c1 c2 hlt x hx y hy
    have hx := (List.mem_filter.mp hx).2
    have hy := (List.mem_filter.mp hy).2
    simp only [beq_iff_eq] at hx hy
    omega

theorem stableSortByCol_stable (hc : ∀ e ∈ row, 1 ≤ e.1 ∧ e.1 ≤ cols) (c : Nat) :
    (stableSortByCol cols row).filter (fun e => e.1 == c) = row.filter (fun e => e.1 == c) := by
  unfold stableSortByCol
  rw [List.filter_flatMap]
  have h : ∀ c', ((row.filter fun e => e.1 == c').filter fun e => e.1 == c) =
      if c' = c then row.filter (fun e => e.1 == c) else [] := by
    intro c'
    rw [List.filter_filter]
    by_cases h : c' = c
    · subst h; rw [if_pos rfl]; apply List.filter_congr; intro x _; simp
    · rw [if_neg h, List.filter_eq_nil_iff]; intro a _; simp; omega
  simp only [h]
  rw [range'_flatMap_ite]
  by_cases h1 : 1 ≤ c ∧ c < 1 + cols
  · rw [if_pos h1]
  · rw [if_neg h1, eq_comm, List.filter_eq_nil_iff]
    intro a ha
    have := hc a ha
    simp; omega

end StableSort

/-! ### A3: `replicate` preserves the rows -/

section Replicate
variable [Inhabited K]

theorem copyInto_size {α : Type} [Inhabited α] (src : Array α) (k n : Nat) (hk : k ≤ src.size) :
    (copyInto src k n).size = k + (n - k) := by
  simp [copyInto]; omega

theorem copyInto_get {α : Type} [Inhabited α] (src : Array α) (k n i : Nat) (hk : k ≤ src.size)
    (hi : i < k) : (copyInto src k n)[i]! = src[i]! := by
  unfold copyInto
  have h1 : i < (src.extract 0 k ++ Array.replicate (n - k) default).size := by simp; omega
  rw [getElemBang_eq _ _ h1, getElemBang_eq _ _ (show i < src.size by omega),
    Array.getElem_append_left (by simp; omega)]
  simp

theorem Layout.replicate {rs : List (List (Nat × K))} {A : SMat K} (h : Layout rs A)
    (n r c : Nat) : Layout rs (A.replicate n r c) := by
  have hr : A.rcnt + 2 ≤ A.rptr.size := by rw [h.rcnt_eq]; exact h.rptr_size
  have hc : A.ncnt ≤ A.cind.size := by rw [h.ncnt_eq]; exact h.cind_size
  have hz : A.ncnt ≤ A.nonz.size := by rw [h.ncnt_eq]; exact h.nonz_size
  have hlt : ∀ (p : Nat) (x : Nat × K), rs.flatten[p]? = some x → p < A.ncnt := by
    intro p x hx
    rw [h.ncnt_eq]
    exact (List.getElem?_eq_some_iff.mp hx).1
  exact {
    rcnt_eq := h.rcnt_eq
    ncnt_eq := h.ncnt_eq
    rptr_size := by
      show _ ≤ (copyInto A.rptr (A.rcnt + 2) (r + 2)).size
      rw [copyInto_size _ _ _ hr, ← h.rcnt_eq]; omega
    cind_size := by
      show _ ≤ (copyInto A.cind A.ncnt n).size
      rw [copyInto_size _ _ _ hc, ← h.ncnt_eq]; omega
    nonz_size := by
      show _ ≤ (copyInto A.nonz A.ncnt n).size
      rw [copyInto_size _ _ _ hz, ← h.ncnt_eq]; omega
    ptr := by
      intro j hj
      show (copyInto A.rptr (A.rcnt + 2) (r + 2))[1 + j]! = _
      rw [copyInto_get _ _ _ _ hr (by rw [h.rcnt_eq]; omega)]
      exact h.ptr j hj
    ci := by
      intro p x hx
      show (copyInto A.cind A.ncnt n)[p]! = _
      rw [copyInto_get _ _ _ _ hc (hlt p x hx)]
      exact h.ci p x hx
    nz := by
      intro p x hx
      show (copyInto A.nonz A.ncnt n)[p]! = _
      rw [copyInto_get _ _ _ _ hz (hlt p x hx)]
      exact h.nz p x hx }

theorem toRows_flatten (A : SMat K) (h : A.WF) :
    A.toRows.flatten = (List.range A.ncnt).map fun p => (A.cind[p]!, A.nonz[p]!) := by
  have hre : A.rowEntries = fun r => (A.rowRange r).map fun p => (A.cind[p]!, A.nonz[p]!) := rfl
  rw [← positions_eq A h]
  simp [toRows, hre, List.flatMap_def, Function.comp_def]

theorem toRows_take_flatten_length (A : SMat K) (h : A.WF) (j : Nat) (hj : j ≤ A.rows) :
    ((A.toRows.take j).flatten).length = A.rptr[1 + j]! := by
  have e : (A.toRows.take j).flatten =
      ((List.range' 1 j).flatMap A.rowRange).map fun p => (A.cind[p]!, A.nonz[p]!) := by
    have hre : A.rowEntries = fun r => (A.rowRange r).map fun p => (A.cind[p]!, A.nonz[p]!) := rfl
    unfold toRows
    rw [← List.map_take, List.take_range'_of_length_ge hj]
    simp [hre, List.flatMap_def, Function.comp_def]
  rw [e, List.length_map,
    (rowRange_tile A j 1 (fun r h1 h2 => h.rptr_mono r h1 (by omega))).2, h.rptr_one]
  simp

/-- a well-formed matrix has the layout of its own rows -/
theorem WF.layout {A : SMat K} (h : A.WF) : Layout A.toRows A := by
  have hf := toRows_flatten A h
  have hget : ∀ (p : Nat) (x : Nat × K), A.toRows.flatten[p]? = some x →
      x = (A.cind[p]!, A.nonz[p]!) := by
    intro p x hx
    rw [hf, List.getElem?_map] at hx
    by_cases hp : p < A.ncnt
    · rw [List.getElem?_range hp] at hx
      simpa using hx.symm
    · rw [List.getElem?_eq_none (by simp; omega)] at hx; simp at hx
  have hlen : A.toRows.flatten.length = A.ncnt := by rw [hf]; simp
  exact {
    rcnt_eq := by rw [toRows_length, h.rcnt_eq]
    ncnt_eq := hlen.symm
    rptr_size := by rw [toRows_length]; exact h.rptr_size
    cind_size := by rw [hlen]; exact h.cind_size
    nonz_size := by rw [hlen]; exact h.nonz_size
    ptr := by
      intro j hj
      rw [toRows_length] at hj
      exact (toRows_take_flatten_length A h j hj).symm
    ci := by intro p x hx; rw [hget p x hx]
    nz := by intro p x hx; rw [hget p x hx] }

/-- **A3** `replicate` keeps the counters and every started row -/
theorem replicate_entries (A : SMat K) (h : A.WF) (n r c : Nat) :
    (A.replicate n r c).rows = r ∧ (A.replicate n r c).cols = c ∧
    (A.replicate n r c).ncnt = A.ncnt ∧ (A.replicate n r c).rcnt = A.rcnt ∧
    (A.replicate n r c).rnxt = A.rnxt ∧
    ∀ i, 1 ≤ i → i ≤ A.rcnt → (A.replicate n r c).rowEntries i = A.rowEntries i := by
  refine ⟨rfl, rfl, rfl, rfl, rfl, ?_⟩
  intro i h1 h2
  have hl := h.layout
  have h2' : i ≤ A.toRows.length := by rw [toRows_length, ← h.rcnt_eq]; exact h2
  rw [(hl.replicate n r c).rowEntries' i h1 h2', hl.rowEntries' i h1 h2']

/-- **A3** `replicate()` (same dimensions) -/
theorem replicate0_spec (A : SMat K) (h : A.WF) :
    A.replicate0.WF ∧ A.replicate0.toRows = A.toRows ∧ A.replicate0.entries = A.entries := by
  have hl := h.layout.replicate A.ncnt A.rows A.cols
  have ht : A.replicate0.toRows = A.toRows := hl.toRows (toRows_length A)
  refine ⟨hl.WF (toRows_length A) (toRows_colsIn A h), ht, ?_⟩
  rw [entries_eq_entriesOf, ht, ← entries_eq_entriesOf]

/-- **A3** the "network" use: build with `cols = 0`, then `replicate(nonzeroes, rows, real_cols)` -/
theorem build_replicate_spec (floats rows c : Nat) (rs : List (List (Nat × K)))
    (hk : rs.length = rows) (hn : rs.flatten.length ≤ floats) (hc : ColsIn c rs) :
    ((build floats rows 0 rs).replicate rs.flatten.length rows c).WF ∧
    ((build floats rows 0 rs).replicate rs.flatten.length rows c).toRows = rs := by
  have hb := build_built floats rows 0 rs (by omega) hn
  have hl := hb.lay.replicate rs.flatten.length rows c
  exact ⟨hl.WF hk hc, hl.toRows hk⟩

end Replicate

/-! ### B2: the transpose holds the same multiset of entries -/

section Perm

theorem transposeRow_eq_filter (rs : List (List (Nat × K))) (c : Nat) :
    transposeRow rs c =
      ((entriesOf rs).filter fun e => e.2.1 == c).map fun e => (e.1, e.2.2) := by
  unfold transposeRow entriesOf
  simp [List.filter_flatMap, List.map_flatMap, List.filter_map, Function.comp_def]

theorem filter_retag3 (E : List (Nat × Nat × K)) (c : Nat) :
    (E.filter fun e => e.2.1 == c).map (fun e => (e.1, c, e.2.2)) = E.filter fun e => e.2.1 == c := by
  induction E with
  | nil => rfl
  | cons x E ih =>
    by_cases h : x.2.1 = c
    · rw [List.filter_cons_of_pos (by simpa using h), List.map_cons, ih]
      congr 1
      rw [← h]
    · rw [List.filter_cons_of_neg (by simpa using h), ih]

theorem entriesOf_transposeRows_swap (cols : Nat) (rs : List (List (Nat × K))) :
    (entriesOf (transposeRows cols rs)).map (fun e => (e.2.1, e.1, e.2.2)) =
      (List.range' 1 cols).flatMap fun c => (entriesOf rs).filter fun e => e.2.1 == c := by
  have h1 : entriesOf (transposeRows cols rs) =
      (List.range' 1 cols).flatMap fun c => (transposeRow rs c).map fun e => (c, e.1, e.2) := by
    unfold entriesOf transposeRows
    rw [zipIdx_range'_map, List.flatMap_map]
  rw [h1, List.map_flatMap]
  apply flatMap_congr'
  intro c _
  rw [transposeRow_eq_filter, List.map_map, List.map_map]
  exact filter_retag3 (entriesOf rs) c

/-- **B2** (list level) -/
theorem entriesOf_transposeRows_perm {cols : Nat} {rs : List (List (Nat × K))}
    (hc : ColsIn cols rs) :
    ((entriesOf (transposeRows cols rs)).map fun e => (e.2.1, e.1, e.2.2)).Perm (entriesOf rs) := by
  rw [entriesOf_transposeRows_swap]
  have := flatMap_filter_perm (fun e : Nat × Nat × K => e.2.1) (entriesOf rs) cols
  rw [List.filter_eq_self.mpr (by
    intro e he
    have := entriesOf_colsIn hc (i := e.1) (j := e.2.1) (a := e.2.2) he
    simpa using this)] at this
  exact this

/-- **B2** the transpose holds exactly the entries of `A`, with multiplicities -/
theorem transpose_entries_perm [Inhabited K] (A : SMat K) (h : A.WF) :
    (A.transpose.entries.map fun e => (e.2.1, e.1, e.2.2)).Perm A.entries := by
  rw [entries_eq_entriesOf, transpose_toRows A h, entries_eq_entriesOf A]
  exact entriesOf_transposeRows_perm (toRows_colsIn A h)

theorem transpose_ncnt [Inhabited K] (A : SMat K) : A.transpose.ncnt = A.ncnt := rfl

theorem transpose_entries_length [Inhabited K] (A : SMat K) (h : A.WF) :
    A.transpose.entries.length = A.entries.length := by
  have := (transpose_entries_perm A h).length_eq
  simpa using this

end Perm

end SMat
end Gama
