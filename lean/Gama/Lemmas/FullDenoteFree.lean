/-
  C04 round 9 — numeric meaning of the chol / gso answers on top of the refusal-inclusive history theorem
  (Lemmas/FullRefusal.lean): `denoteF (fresh …) = answerF …` for a FRESH object, under `FactsF` alone — no `Inv`,
  no `CfgOk`, no `Op.Ok`; refused answers included (`.badReg` denotes `.err .BadRegularization`, which is what
  `answerF` gives when the numeric solver model refuses: the chol / gso models never answer with `xErr`, they return
  `.error .BadRegularization`).

  The one thing that is needed of the configuration is the representation invariant of `AdjCholDec`'s "all" mode
  (`AllOk`: `minx_t == ALL` ⇒ the stored list is absent or a list `1..n'` built by an earlier `solve()`): `solve()`
  rebuilds the list iff `minx_n != N`, so a machine state "all, with an arbitrary list of length N" — which no
  sequence of calls on the real class produces, but which `Full.init true (some l)` can express — would regularise
  over that list where `answerF` (and a real object) uses `1..N`.  It holds for the constructor's configuration and
  for everything the driver creates (`Full.init l.isNone l`), and it is kept by every step (`allOk_hfrun`).

  Core Lean only.
-/
import Gama.Lemmas.FullDenote
import Gama.Lemmas.FullRefusal
import Gama.Lemmas.FullStateFacts
namespace Gama.C04.Full
open Gama Gama.Ls Gama.C04

variable {K : Type} [Scalar K]

/-- chol, `minx_t == ALL`: the stored list is absent or a list `1..n'` (the component `Inv.all`, on its own) -/
def AllOk (k : Kind) (ua : Bool) (l : Option (List Nat)) : Prop :=
  k = .chol → ua = true → l = none ∨ ∃ n', l = some (allList n')

theorem allOk_isNone (k : Kind) (l : Option (List Nat)) : AllOk k l.isNone l := by
  intro _ hu
  cases l with
  | none => exact Or.inl rfl
  | some l => simp at hu

theorem allOk_of_inv {k : Kind} {inp : Input} {s : FState} (h : Inv k inp s) : AllOk k s.useAll s.list := h.all

theorem allOk_matList (k : Kind) (inp : Input) (ua : Bool) (l : Option (List Nat)) (h : AllOk k ua l) :
    AllOk k ua (matList k inp ua l) := by
  intro hk hu
  subst hk; subst hu
  simp only [matList, Bool.true_and]
  split
  · exact Or.inr ⟨inp.n, rfl⟩
  · exact h rfl rfl

theorem allOk_solve (k : Kind) (inp : Input) (s : FState) (h : AllOk k s.useAll s.list) :
    AllOk k (solve k inp s).1.useAll (solve k inp s).1.list := by
  rw [solve_fields]
  split
  · exact h
  · split
    · exact h
    · split
      · exact allOk_matList k inp _ _ h
      · exact allOk_matList k inp _ _ h

theorem allOk_step (k : Kind) (inp : Input) (s : FState) (op : Op) (h : AllOk k s.useAll s.list) :
    AllOk k (step k inp s op).1.useAll (step k inp s op).1.list := by
  by_cases hq : op.IsQuery
  · rw [step_query_fst k inp s op hq]; exact allOk_solve k inp s h
  · cases op <;> simp only [Op.IsQuery, not_true_eq_false, not_false_eq_true] at hq
    · cases k
      · intro _ _; exact Or.inl rfl
      · intro hk; cases hk
    · intro _ hu; simp [step, stepWith] at hu
    · exact h

/-- the representation invariant along ANY history, across inputs -/
theorem allOk_hfrun (k : Kind) (h : HF) (hi : AllOk k h.s.useAll h.s.list) (ops : List HOp) :
    AllOk k (hfrun k h ops).s.useAll (hfrun k h ops).s.list := by
  induction ops generalizing h with
  | nil => exact hi
  | cons o ops ih =>
    refine ih (h := (hfstep k h o).1) ?_
    cases o with
    | q op => exact allOk_step k h.inp h.s op hi
    | resetNew inp' => exact hi

/-- in "all" mode `solve()` regularises over `1..n` -/
theorem matList_all (k : Kind) (inp : Input) (l : Option (List Nat)) (hall : AllOk k true l) :
    (matList k inp true l).getD [] = allList inp.n := by
  cases k with
  | gso => simp [matList]
  | chol =>
    rcases hall rfl rfl with rfl | ⟨n', rfl⟩
    · by_cases h0 : inp.n = 0
      · simp [matList, h0, allList]
      · have : ¬ (0 = inp.n) := fun h => h0 h.symm
        simp [matList, this]
    · by_cases hn' : n' = inp.n
      · simp [matList, allList_length, hn']
      · simp [matList, allList_length, hn']

/-- over the list `solve()` materialises = under the caller's configuration -/
theorem solver_matList (k : Kind) (p : Problem K) (inp : Input) (hn : inp.n = p.n) (ua : Bool)
    (l : Option (List Nat)) (hall : AllOk k ua l) :
    solverOf (algOf k) { p with reg := .subset ((matList k inp ua l).getD []) }
      = solverOf (algOf k) { p with reg := cfgReg ua l } := by
  cases ua with
  | false => cases k <;> simp [matList, cfgReg]
  | true =>
    rw [matList_all k inp l hall, hn]
    exact solver_all k p

/-- the chol / gso solver models never answer with a deferred `unknowns()` error (that is the envelope's way) -/
theorem solver_xErr_none (k : Kind) (q : Problem K) (a : Answer K) (h : solverOf (algOf k) q = .ok a) :
    a.xErr = none := by
  cases k with
  | chol =>
    change (Chol.solve q).map Chol.Solved.answer = .ok a at h
    cases hc : Chol.solve q with
    | error e => rw [hc] at h; exact absurd h (by simp [Except.map])
    | ok s =>
      rw [hc] at h
      simp only [Except.map] at h
      injection h with h
      subst h
      rfl
  | gso =>
    have hq : q = { q with reg := q.reg } := rfl
    change Ls.gsoSolve q = .ok a at h
    rw [hq, gsoSolve_reg] at h
    simp only at h
    split at h
    · exact absurd h (by simp)
    · split at h
      · exact absurd h (by simp)
      · injection h with h
        subst h
        rfl

/-- a list the facts say does not resolve the defect: the solver model refuses, with BadRegularization -/
theorem solver_refuses (k : Kind) (p : Problem K) (l : List Nat) (h : resolvesF (algOf k) p l = false) :
    solverOf (algOf k) { p with reg := .subset l } = .error .BadRegularization := by
  unfold resolvesF at h
  cases hs : solverOf (algOf k) { p with reg := .subset l } with
  | ok a =>
    rw [hs] at h
    simp only [solver_xErr_none k _ a hs] at h
    exact absurd h (by simp)
  | error e =>
    rw [hs] at h
    simp only [bne_eq_false_iff_eq] at h
    rw [h]

/-- `solve()` of a fresh object, every field written out -/
theorem solve_init (k : Kind) (inp : Input) (ua : Bool) (l : Option (List Nat)) :
    solve k inp (init ua l) =
      if inp.nullity = 0 then (⟨true, ua, l, true, .plain, errC k false false⟩, false)
      else
        if inp.resolves ((matList k inp ua l).getD []) then
          (⟨true, ua, matList k inp ua l, true, .reg ((matList k inp ua l).getD []), errC k true false⟩, false)
        else
          (⟨true, ua, matList k inp ua l, true, .broken ((matList k inp ua l).getD []), errC k true true⟩, true) := by
  rw [solve_fields]
  rfl

/-- **a fresh object's answer denotes `answerF`** — every op, every configuration satisfying the representation
    invariant, every input carrying the facts of `p`; the refusal included -/
theorem denoteF_fresh (k : Kind) (p : Problem K) (inp : Input) (hF : FactsF (algOf k) p inp) (ua : Bool)
    (l : Option (List Nat)) (hall : AllOk k ua l) (op : Op) :
    denoteF (algOf k) p (cfgReg ua l) (fresh k inp ua l op) = answerF (algOf k) p ua l op := by
  by_cases hq : op.IsQuery
  · have hE := solver_matList k p inp hF.n ua l hall
    have hsol := solve_init k inp ua l
    by_cases h0 : inp.nullity = 0
    · rw [if_pos h0] at hsol
      cases op <;> simp only [Op.IsQuery] at hq <;> cases k <;>
        simp [fresh, step, stepWith, solveWith_code, hsol, h0, denoteF, ansOf, withAns, answerF, fieldF]
    · rw [if_neg h0] at hsol
      by_cases hr : inp.resolves ((matList k inp ua l).getD []) = true
      · rw [if_pos hr] at hsol
        cases hM : matList k inp ua l with
        | none =>
          rw [hM] at hsol hE
          simp only [Option.getD_none] at hE
          cases op <;> simp only [Op.IsQuery] at hq <;> cases k <;>
            simp [fresh, step, stepWith, solveWith_code, hsol, h0, denoteF, ansOf, withAns, answerF, fieldF, hE]
        | some M =>
          rw [hM] at hsol hE
          simp only [Option.getD_some] at hE
          cases op <;> simp only [Op.IsQuery] at hq <;> cases k <;>
            simp [fresh, step, stepWith, solveWith_code, hsol, h0, denoteF, ansOf, withAns, answerF, fieldF, hE]
      · rw [if_neg hr] at hsol
        have hr' : resolvesF (algOf k) p ((matList k inp ua l).getD []) = false := by
          rw [← hF.resolves]; simpa using hr
        have hB := solver_refuses k p _ hr'
        rw [hE] at hB
        cases op <;> simp only [Op.IsQuery] at hq <;>
          simp [fresh, step, stepWith, solveWith_code, hsol, denoteF, answerF, fieldF, hB, xOf, ofE, bind, Except.bind]
  · have h1 := (step_config_out k inp (init ua l) op hq).1
    unfold fresh
    rw [h1]
    cases op <;> simp only [Op.IsQuery, not_true_eq_false, not_false_eq_true] at hq <;> rfl

/-- one step of any object that satisfies the refusal-inclusive invariant and the representation invariant: unless
    a refusal is pending, the answer denotes `answerF` for the configuration the object holds -/
theorem denoteF_step (k : Kind) (p : Problem K) (inp : Input) (s : FState) (hi : InvR k inp s)
    (hall : AllOk k s.useAll s.list) (hp : ¬ Pending k inp s) (hF : FactsF (algOf k) p inp) (op : Op) :
    denoteF (algOf k) p (cfgReg s.useAll s.list) (step k inp s op).2 = answerF (algOf k) p s.useAll s.list op := by
  rw [(stepR k inp s hi op).2 hp]
  exact denoteF_fresh k p inp hF _ _ hall op

/-- under the round-1..4 invariant (configurations that resolve every defect) no refusal is ever pending -/
theorem not_pending_of_inv {k : Kind} {inp : Input} {s : FState} (hinv : Inv k inp s) : ¬ Pending k inp s := by
  rintro ⟨_, h0', hr⟩
  have he : effM k inp s = eff inp s := by
    cases k with
    | gso => exact effM_gso _ _
    | chol => exact effM_chol _ _ (Nat.lt_of_lt_of_le h0' hinv.wf) (hinv.all rfl)
  rw [he] at hr
  rcases hinv.cfg with hc | hc
  · exact absurd hc (Nat.pos_iff_ne_zero.1 h0')
  · rw [hc] at hr; exact absurd hr (by decide)

end Gama.C04.Full
