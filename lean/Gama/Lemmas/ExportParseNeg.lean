/-
  C13 — why `C13_parser_establishes_wf` keeps its `_partial` after 6848bc2a: two families of ACCEPTED documents whose
  network is not `Net.WF` remain (round 3b's E2 and E3; E1 went with 9f04c51, E4 with 6848bc2a), as concrete documents
  the parser model reads (`decide`):

    * E2 `docVecDh`          — a `<vec … from_dh="2">`: `process_vec` stores the instrument height, `export_xml` deliberately
                               does not write it ("unrealistic" in the source; the vector equations do not use it);
    * E3 `docCoordNoStatus`  — a `<coordinates>` point `Z` that no `<point … fix|adj>` gives a status: it is in `PD`,
                               inactive; `export_xml` skips it (`if (!point.active()) continue;`) but writes the cluster.
  Both are the sample network's own export with one edit.
-/
import Gama.Lemmas.ExportExamples
import Gama.Lemmas.ExportQuant
namespace Gama.Export
open Gama.Gen.GkfAttrs Gama.Gen.GkfDoc

/-- the export of the sample network with `from_dh` added to every `<vec>` -/
def docVecDh : Doc :=
  let d := exportNet unaryCodec sampleNet
  { d with items := d.items.map fun it => match it with
      | .vectors vecs cov => .vectors (vecs.map fun as => as ++ [(Attr.from_dh, unaryCodec.fmt 2)]) cov
      | other => other }

/-- the export of the sample network with the `<coordinates>` point renamed to an id no `<point>` element has -/
def docCoordNoStatus : Doc :=
  let d := exportNet unaryCodec sampleNet
  { d with items := d.items.map fun it => match it with
      | .coords as pts cov => .coords as (pts.map fun p => p.map fun a => if a.1 = PAttr.id then (a.1, "Z") else a) cov
      | other => other }

/-- the document is accepted and the network read is NOT well-formed (covariance elements: every number of the unary
    codec is given back, `Rc := True`) -/
def acceptedNotWF (d : Doc) : Bool :=
  match parseNet unaryCodec (fun _ => 7) sampleNet.par d with
  | .ok n => !decide (n.WFc unaryCodec (fun _ => True) (fun _ => True) (fun _ => True))
  | .error _ => false

theorem acceptedNotWF_spec (d : Doc) (h : acceptedNotWF d = true) :
    ∃ n, parseNet unaryCodec (fun _ => 7) sampleNet.par d = .ok n ∧ ¬ n.WF unaryCodec (fun _ => True) (fun _ => True) := by
  unfold acceptedNotWF at h
  cases hp : parseNet unaryCodec (fun _ => 7) sampleNet.par d with
  | error e => rw [hp] at h; cases h
  | ok n =>
    rw [hp] at h
    refine ⟨n, rfl, ?_⟩
    intro hw
    have hw' : n.WFc unaryCodec (fun _ => True) (fun _ => True) (fun _ => True) :=
      (Net.WFc.congr_cov (fun x => ⟨fun _ => trivial, fun _ => by simp [Codec.CovRep, unaryCodec]⟩) _).mp hw
    simp [hw'] at h

/-- what the parser makes of `docCoordNoStatus`, projected: the ids of the active points, and the ids of the points of
    the `<coordinates>` clusters -/
def projE3 (m : Net Nat) : List String × List (List String) :=
  ((m.points.filter Point.active).map (·.id),
   m.clusters.filterMap (fun c => match c with | .coords _ pts _ => some (pts.map (·.id)) | _ => none))

set_option maxRecDepth 100000 in
theorem e3_proj : (parseNet unaryCodec (fun _ => 7) sampleNet.par docCoordNoStatus).toOption.map projE3
    = some (["A", "B"], [["Z"]]) := by decide +kernel

set_option maxRecDepth 100000 in
theorem e2_accepted : acceptedNotWF docVecDh = true := by decide +kernel

/-- E3: accepted, and the `<coordinates>` cluster names a point that is not among the active points -/
theorem e3_not_wf :
    ∃ n, parseNet unaryCodec (fun _ => 7) sampleNet.par docCoordNoStatus = .ok n ∧
      ¬ n.WF unaryCodec (fun _ => True) (fun _ => True) := by
  have hp := e3_proj
  cases h : parseNet unaryCodec (fun _ => 7) sampleNet.par docCoordNoStatus with
  | error e => rw [h] at hp; simp [Except.toOption] at hp
  | ok n =>
    rw [h] at hp
    simp only [Except.toOption, Option.map_some, Option.some.injEq, projE3, Prod.mk.injEq] at hp
    obtain ⟨hpts, hcl⟩ := hp
    refine ⟨n, rfl, fun hw => ?_⟩
    have hm : ["Z"] ∈ n.clusters.filterMap (fun c => match c with | .coords _ pts _ => some (pts.map (·.id)) | _ => none) := by
      rw [hcl]; exact List.mem_singleton.2 rfl
    obtain ⟨c, hc, hfc⟩ := List.mem_filterMap.1 hm
    have hwc := hw.clusters c hc
    cases c with
    | obs sp cov => simp at hfc
    | hdiffs dhs cov => simp at hfc
    | vectors vecs cov => simp at hfc
    | coords ext pts cov =>
      simp only [Option.some.injEq] at hfc
      have hz : "Z" ∈ pts.map (·.id) := by rw [hfc]; exact List.mem_singleton.2 rfl
      obtain ⟨cp, hcp, hid⟩ := List.mem_map.1 hz
      obtain ⟨p, hpm, hpid⟩ := (hwc.2.2 cp hcp).1
      have : p.id ∈ (n.points.filter Point.active).map (·.id) := List.mem_map.2 ⟨p, hpm, rfl⟩
      rw [hpts, hpid, hid] at this
      simp at this

end Gama.Export
