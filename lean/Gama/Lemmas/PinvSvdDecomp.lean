/-
  C15 — `pinv.h` on the factors the model of `SVD::svd()` returns.

  `pinvFrom` (Model/SymChol.lean) works on row-major buffers (`Nat → K`), `Svd.decompose`
  (Model/Ls/Svd/Decomp.lean) returns nested arrays.  `flatM`/`flatV` are the row-major readings of
  those arrays; `rowMajor_flatM` says they denote the same matrices, so the certificate
  `Svd.decompose_cert` proves (`A = U diag(W) Vᵀ`, `VᵀV = 1`, `UᵀU = 1` on columns with `W ≠ 0`)
  discharges the hypotheses `hA`, `hV`, `hU` of `pinv_moore_penrose`.
-/
import Gama.Lemmas.PinvMP
import Gama.Lemmas.Ls.SvdDecompCert

namespace Gama.MatVec
open Matrix Gama.LS Gama.Ls

section
variable {K : Type}

/-- a nested array read as a row-major buffer with `c` columns (`0` outside) -/
def flatM [Zero K] (c : Nat) (M : DMat K) : Nat → K := fun p => (M.getD (p / c) #[]).getD (p % c) 0
/-- an array read as a buffer (`0` outside) -/
def flatV [Zero K] (v : Array K) : Nat → K := fun k => v.getD k 0

theorem rowMajor_flatM [Zero K] (r c : Nat) (M : DMat K) : rowMajor r c (flatM c M) = toMatrix r c M := by
  funext i j
  have hc : 0 < c := Nat.lt_of_le_of_lt (Nat.zero_le _) j.isLt
  show (M.getD ((i.val * c + j.val) / c) #[]).getD ((i.val * c + j.val) % c) 0 = (M.getD i.val #[]).getD j.val 0
  have h1 : (i.val * c + j.val) / c = i.val := by
    rw [Nat.add_comm, Nat.add_mul_div_right _ _ hc, Nat.div_eq_of_lt j.isLt, Nat.zero_add]
  have h2 : (i.val * c + j.val) % c = j.val := by
    rw [Nat.add_comm, Nat.add_mul_mod_self_right, Nat.mod_eq_of_lt j.isLt]
  rw [h1, h2]

theorem vecOf_flatV [Zero K] (n : Nat) (v : Array K) : vecOf n (flatV v) = toVec n v := rfl

end

section
variable {K : Type} [Field K] [LinearOrder K] [IsStrictOrderedRing K]

/-- a singular value kept by `set_inv_W` is non-zero -/
theorem pinvWinv_kept_ne_zero (sq : K → K) (N : Nat) (tol : K) (W : Nat → K) (k : Nat)
    (h : @pinvWinv K (fieldScalar K sq) N tol W k ≠ 0) : W k ≠ 0 := by
  rw [pinvWinv_eq_abs] at h
  intro h0
  apply h
  split_ifs
  · rw [h0, _root_.inv_zero]
  · rfl

/-- **`pinv` on the factors `Svd.decompose` returned satisfies the four Moore–Penrose conditions**,
    provided every singular value `set_inv_W` drops is an exact zero (`h0`) -/
theorem pinv_moore_penrose_decompose (sq : K → K) (hsq : ∀ x : K, 0 ≤ x → sq x * sq x = x)
    (hsq0 : ∀ x : K, 0 ≤ x → 0 ≤ sq x) (M N : Nat) (tol : K) (A : DMat K) (d : Svd.Dec K)
    (hd : @Svd.decompose K (Gama.LS.fieldScalar sq) M N A = .ok d)
    (h0 : ∀ k : Fin N, @pinvWinv K (fieldScalar K sq) N tol (flatV d.W) k.val = 0 → flatV d.W k.val = 0) :
    let 𝔸 : Matrix (Fin M) (Fin N) K := toMatrix M N A
    let 𝕏 : Matrix (Fin N) (Fin M) K :=
      rowMajor N M (@pinvFrom K (fieldScalar K sq) M N tol (flatM N d.U) (flatV d.W) (flatM N d.V))
    𝔸 * 𝕏 * 𝔸 = 𝔸 ∧ 𝕏 * 𝔸 * 𝕏 = 𝕏 ∧ (𝔸 * 𝕏)ᵀ = 𝔸 * 𝕏 ∧ (𝕏 * 𝔸)ᵀ = 𝕏 * 𝔸 := by
  have hp := Svd.decompose_cert sq hsq hsq0 M N A d hd
  have key := pinv_moore_penrose sq M N tol (flatM N A) (flatM N d.U) (flatV d.W) (flatM N d.V)
    (by rw [rowMajor_flatM, rowMajor_flatM, rowMajor_flatM, vecOf_flatV]; exact hp.fact)
    (by rw [rowMajor_flatM]; exact hp.vtv)
    (by
      intro k l hk _
      rw [rowMajor_flatM]
      exact hp.utu k l (pinvWinv_kept_ne_zero sq N tol (flatV d.W) k.val hk))
    h0
  rw [rowMajor_flatM] at key
  exact key

end
end Gama.MatVec
