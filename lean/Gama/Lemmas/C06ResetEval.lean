/-
  C06 (round 4) — AcordIntersection::execute evaluated END TO END over ℝ on the concrete network of
  Gama/Lemmas/C06ResetData.lean (`rEval`; the full result is `aiExecute_eval`).

  The computation: `SM` = `rSm` (two distances of cluster 0, the direction of cluster 1); `find_missing_coordinates`
  = [3]; `solvable_data` (3 known points); `necessary_observations(3)`; ApproxPoint for X: `add_all` leaves the
  orientations [none, some 0] alone, ArrangeObservations = `rArr` = [dist A 5/4, dist B 5/4, dir C π/2];
  pair (dist A, dist B): Distance_distance gives (0, 1), (0, −1) in this order and Select_solution_g2d decides by the
  direction (deviations 0 and π against the tolerances 1 and 1); pairs (dist A, dir C), (dist B, dir C):
  Direction_distance gives the single solution (0, 1) each; median of [(0,1), (0,1), (0,1)] = (0, 1); the second walk
  of `solve_intersection` has nothing left; first `loop` of AcordIntersection::execute finds `missing_xy_` empty.
-/
import Gama.Lemmas.C06Witness
import Gama.Lemmas.C06ResetData
open Gama Gama.Cogo Gama.Median Gama.C06R Gama.C06L Gama.Acord Gama.C06A Gama.Inter

namespace Gama.C06RD

/-! ### the points -/

theorem ptA : ptOf (rPd 0) = (⟨-(3/4), 0⟩ : Pt ℝ) := by simp [ptOf, rPd]
theorem ptB : ptOf (rPd 1) = (⟨3/4, 0⟩ : Pt ℝ) := by simp [ptOf, rPd]
theorem ptC : ptOf (rPd 2) = (⟨0, 0⟩ : Pt ℝ) := by simp [ptOf, rPd]

/-! ### the intersection kernels on the concrete data -/

/-- the two circles: (0, 1) first, (0, −1) second -/
theorem dd_eval :
    distDist (⟨-(3/4), 0⟩ : Pt ℝ) ⟨3/4, 0⟩ (5/4) (5/4) salDefault = ⟨[⟨0, 1⟩, ⟨0, -1⟩], false⟩ := by
  have h1 : Real.sqrt (9 / 4) = 3 / 2 := sqrt_of_sq (by norm_num) (by norm_num)
  have h2 : Real.sqrt (4 / 9) = 2 / 3 := sqrt_of_sq (by norm_num) (by norm_num)
  unfold distDist
  simp only [add_eq, sub_eq, mul_eq, div_eq, sqrt_eq, sqr_eq, two_eq, lt_eq, zero_eq, one_eq, salDefault_eq]
  norm_num [h1, h2, none', smallAngle]

/-- direction from C and distance from A: one solution -/
theorem ddirA_eval :
    dirDist (⟨0, 0⟩ : Pt ℝ) (Real.pi / 2) ⟨-(3/4), 0⟩ (5/4) salDefault = ⟨[⟨0, 1⟩], false⟩ := by
  have h1 : Real.sqrt 1 = 1 := Real.sqrt_one
  unfold dirDist
  simp only [add_eq, sub_eq, mul_eq, neg_eq, abs_eq, sqrt_eq, sqr_eq, sin_eq, cos_eq, lt_eq, le_eq, zero_eq,
    salDefault_eq, tiny_eq, Real.sin_pi_div_two, Real.cos_pi_div_two]
  norm_num [h1, none', smallAngle]

/-- direction from C and distance from B: one solution -/
theorem ddirB_eval :
    dirDist (⟨0, 0⟩ : Pt ℝ) (Real.pi / 2) ⟨3/4, 0⟩ (5/4) salDefault = ⟨[⟨0, 1⟩], false⟩ := by
  have h1 : Real.sqrt 1 = 1 := Real.sqrt_one
  unfold dirDist
  simp only [add_eq, sub_eq, mul_eq, neg_eq, abs_eq, sqrt_eq, sqr_eq, sin_eq, cos_eq, lt_eq, le_eq, zero_eq,
    salDefault_eq, tiny_eq, Real.sin_pi_div_two, Real.cos_pi_div_two]
  norm_num [h1, none', smallAngle]

/-! ### distances and bearings Select_solution_g2d recomputes -/

theorem g2d_b1_A : g2dDistance (⟨0, 1⟩ : Pt ℝ) ⟨-(3/4), 0⟩ = 5 / 4 := by
  unfold g2dDistance
  simp only [sqrt_eq, sqr_eq, add_eq, sub_eq]
  exact sqrt_of_sq (by norm_num) (by norm_num)
theorem g2d_b2_A : g2dDistance (⟨0, -1⟩ : Pt ℝ) ⟨-(3/4), 0⟩ = 5 / 4 := by
  unfold g2dDistance
  simp only [sqrt_eq, sqr_eq, add_eq, sub_eq]
  exact sqrt_of_sq (by norm_num) (by norm_num)
theorem g2d_b1_B : g2dDistance (⟨0, 1⟩ : Pt ℝ) ⟨3/4, 0⟩ = 5 / 4 := by
  unfold g2dDistance
  simp only [sqrt_eq, sqr_eq, add_eq, sub_eq]
  exact sqrt_of_sq (by norm_num) (by norm_num)
theorem g2d_b2_B : g2dDistance (⟨0, -1⟩ : Pt ℝ) ⟨3/4, 0⟩ = 5 / 4 := by
  unfold g2dDistance
  simp only [sqrt_eq, sqr_eq, add_eq, sub_eq]
  exact sqrt_of_sq (by norm_num) (by norm_num)
theorem g2d_b1_C : g2dDistance (⟨0, 1⟩ : Pt ℝ) ⟨0, 0⟩ = 1 := by
  unfold g2dDistance
  simp only [sqrt_eq, sqr_eq, add_eq, sub_eq]
  exact sqrt_of_sq (by norm_num) (by norm_num)
theorem g2d_b2_C : g2dDistance (⟨0, -1⟩ : Pt ℝ) ⟨0, 0⟩ = 1 := by
  unfold g2dDistance
  simp only [sqrt_eq, sqr_eq, add_eq, sub_eq]
  exact sqrt_of_sq (by norm_num) (by norm_num)

theorem brg_neg_y {b : ℝ} (hb : b < 0) : Lin.brg 0 b = 3 * Real.pi / 2 := by
  have : Complex.arg ⟨0, b⟩ = -(Real.pi / 2) := Complex.arg_eq_neg_pi_div_two_iff.mpr ⟨rfl, hb⟩
  unfold Lin.brg; rw [this, if_neg (by linarith [Real.pi_pos])]; ring

theorem far_C_b1 : Far (⟨0, 0⟩ : Pt ℝ) ⟨0, 1⟩ := far_of_sq 1 (by norm_num) (by norm_num)
theorem far_C_b2 : Far (⟨0, 0⟩ : Pt ℝ) ⟨0, -1⟩ := far_of_sq 1 (by norm_num) (by norm_num)

theorem bearing_C_b1 : bearing (⟨0, 0⟩ : Pt ℝ) ⟨0, 1⟩ = Real.pi / 2 := by
  rw [bearing_of_far _ _ far_C_b1]
  simp only [sub_zero]; exact brg_pos_y (by norm_num)

theorem bearing_C_b2 : bearing (⟨0, 0⟩ : Pt ℝ) ⟨0, -1⟩ = 3 * Real.pi / 2 := by
  rw [bearing_of_far _ _ far_C_b2]
  simp only [sub_zero]; exact brg_neg_y (by norm_num)

/-! ### Select_solution_g2d between (0, 1) and (0, −1) -/

/-- the arranged observation list of X -/
noncomputable def rArr : List (AObs ℕ ℝ) := [.dist 0 (5/4), .dist 1 (5/4), .dir 2 (Real.pi / 2)]

theorem selDelta_distA :
    selDelta rPd (⟨0, 1⟩ : Pt ℝ) ⟨0, -1⟩ (.dist 0 (5/4)) = (0, 0, 1, 1) := by
  simp only [selDelta, ptA, g2d_b1_A, g2d_b2_A, abs_eq, sub_self, abs_zero, one_eq]

theorem selDelta_distB :
    selDelta rPd (⟨0, 1⟩ : Pt ℝ) ⟨0, -1⟩ (.dist 1 (5/4)) = (0, 0, 1, 1) := by
  simp only [selDelta, ptB, g2d_b1_B, g2d_b2_B, abs_eq, sub_self, abs_zero, one_eq]

theorem selDelta_dirC :
    selDelta rPd (⟨0, 1⟩ : Pt ℝ) ⟨0, -1⟩ (.dir 2 (Real.pi / 2)) = (0, Real.pi, 1, 1) := by
  have h : |Real.pi / 2 - 3 * Real.pi / 2| = Real.pi := by
    rw [show Real.pi / 2 - 3 * Real.pi / 2 = -Real.pi by ring, abs_neg, abs_of_pos Real.pi_pos]
  simp only [selDelta, ptC, g2d_b1_C, g2d_b2_C, bearing_C_b1, bearing_C_b2, sub_eq, abs_eq, sub_self, abs_zero, h]

/-- the two distances do not decide, the direction does: (0, 1) -/
theorem selectSol_eval : selectSol rPd (⟨0, 1⟩ : Pt ℝ) ⟨0, -1⟩ rArr = some ⟨0, 1⟩ := by
  have hpi := Real.two_le_pi
  have hp1 : ¬ Real.pi < 1 := by linarith
  have hp0 : ¬ Real.pi < 0 := by linarith
  have hp : (0:ℝ) < Real.pi := Real.pi_pos
  simp only [rArr, selectSol, selDelta_distA, selDelta_distB, selDelta_dirC, Lin.ofSci_real, if_true, lt_eq,
    mul_eq, ofNat_eq]
  norm_num [hp1, hp0, hp, hp.le]

/-! ### ApproxPoint::calculation -/

theorem cogo_AB : cogoPair rPd salDefault (.dist 0 (5/4)) (.dist 1 (5/4)) = ⟨[⟨0, 1⟩, ⟨0, -1⟩], false⟩ := by
  simp only [cogoPair, ptA, ptB, dd_eval]
theorem cogo_AC : cogoPair rPd salDefault (.dist 0 (5/4)) (.dir 2 (Real.pi / 2)) = ⟨[⟨0, 1⟩], false⟩ := by
  simp only [cogoPair, ptA, ptC, ddirA_eval]
theorem cogo_BC : cogoPair rPd salDefault (.dist 1 (5/4)) (.dir 2 (Real.pi / 2)) = ⟨[⟨0, 1⟩], false⟩ := by
  simp only [cogoPair, ptB, ptC, ddirB_eval]

/-- the three pairs each contribute (0, 1) -/
theorem pairsFold_eval : pairsFold rPd salDefault rArr rArr [] = [⟨0, 1⟩, ⟨0, 1⟩, ⟨0, 1⟩] := by
  have hs := selectSol_eval
  unfold rArr at hs ⊢
  simp only [pairsFold, List.foldl_cons, List.foldl_nil, pairStep, cogo_AB, cogo_AC, cogo_BC, hs,
    List.nil_append, List.cons_append]

theorem median_000 : median [(0:ℝ), 0, 0] = 0 := median_const _ _ (by simp) (by simp)
theorem median_111 : median [(1:ℝ), 1, 1] = 1 := median_const _ _ (by simp) (by simp)

theorem apCalc_eval : apCalc rPd salDefault rArr = some ⟨0, 1⟩ := by
  simp only [apCalc, pairsFold_eval, statMedian, List.map_cons, List.map_nil, median_000, median_111]

/-! ### ApproxPoint::reset -/

/-- the list `SM` of ApproximateCoordinates -/
noncomputable def rSm : List (SMo ℕ ℝ) :=
  [⟨0, .distance 3 0 (5/4)⟩, ⟨0, .distance 3 1 (5/4)⟩, ⟨1, .direction 2 3 (Real.pi / 2)⟩]

theorem copyHorizontal_eval : copyHorizontal rCls = rSm := by
  rfl

/-- the stand-point C is already oriented: add_all leaves the orientations alone -/
theorem addAll_eval : addAll 1 rPd (rSm.length + 1) rSm [none, some 0] = [none, some 0] := by
  simp [rSm, addAll, oriAt]

theorem normRad_half_pi : normRad (Real.pi / 2) = Real.pi / 2 := by
  have hp := Real.pi_pos
  unfold normRad
  simp only [le_eq, lt_eq, zero_eq, twoPi_eq]
  rw [if_neg (by linarith), if_neg (by linarith)]

theorem makeBearingD_eval : makeBearingD (Real.pi / 2) (0:ℝ) = Real.pi / 2 := by
  have hp := Real.pi_pos
  unfold makeBearingD
  simp only [le_eq, sub_eq, zero_eq, twoPi_eq, add_zero]
  rw [if_neg (by linarith), sub_zero]

theorem median_single (a : ℝ) : median [a] = a := median_const _ _ (by simp) (by simp)

theorem arrange_eval : arrange rPd [none, some 0] rSm 3 = rArr := by
  simp [arrange, rSm, selStep, rPd, LP.unset, HObs.from', HObs.to', oriAt, makeBearingD_eval, normRad_half_pi,
    makeAngles, arrAngObs, arrAngU, arrDist, arrDir, sameDist, median_single, rArr]

theorem apPoint_eval : apPoint 1 rPd salDefault rSm [none, some 0] 3 = (some ⟨0, 1⟩, [none, some 0]) := by
  simp only [apPoint, addAll_eval, arrange_eval, apCalc_eval]

/-! ### ApproximateCoordinates -/

/-- the point list after X has been written -/
noncomputable def rPd1 : PD ℕ ℝ := rPd.upd 3 ((rPd 3).setXY 0 1)

theorem siPass_eval :
    siPass 1 salDefault rSm [3] ⟨rPd, [none, some 0]⟩ = (⟨rPd1, [none, some 0]⟩, [], true) := by
  simp only [siPass, apPoint_eval, rPd1]

theorem solveIntersection_eval :
    solveIntersection 1 salDefault rSm 2 [3] ⟨rPd, [none, some 0]⟩ = (⟨rPd1, [none, some 0]⟩, [], true) := by
  simp [solveIntersection, siPass_eval]

theorem necessaryObs_eval : necessaryObs rSm 3 = true := by
  simp [necessaryObs, rSm, HObs.from', HObs.to']

theorem compLoop_eval :
    compLoop 1 salDefault rSm [3] ⟨rPd, [none, some 0]⟩ = ⟨rPd1, [none, some 0]⟩ := by
  have hs : [3].filter (necessaryObs rSm) = [3] := by simp [necessaryObs_eval]
  have h2 : solveIntersection 1 salDefault rSm 1 [] ⟨rPd1, [none, some 0]⟩
      = (⟨rPd1, [none, some 0]⟩, [], false) := by simp [solveIntersection]
  simp only [compLoop, hs, List.length_cons, List.length_nil, Nat.zero_add, Nat.reduceAdd, compLoop.go,
    solveIntersection_eval, h2, if_true, Bool.false_eq_true, if_false]

theorem findMissing_eval : findMissing rLt rKeys rPd rSm = [3] := by
  simp [findMissing, rSm, rKeys, obsIds, HObs.from', HObs.to', rPd, LP.unset, sortIds, dedup, insertId]

theorem solvableData_eval :
    solvableData (rKeys ++ (rSm.map (fun e => obsIds e.o)).flatten) rPd [3] false = true := by
  simp [solvableData, rSm, rKeys, obsIds, HObs.from', HObs.to', rPd, LP.unset, dedup]

theorem acCalculation_eval :
    acCalculation 1 rLt rKeys false salDefault rSm ⟨rPd, [none, some 0]⟩ = ⟨rPd1, [none, some 0]⟩ := by
  have h1 : (rKeys.isEmpty || rSm.isEmpty) = false := by simp [rKeys, rSm]
  simp only [acCalculation, h1, findMissing_eval, solvableData_eval, compLoop_eval, if_true, Bool.false_eq_true,
    if_false]

/-! ### AcordIntersection::execute -/

theorem rPd1_3 : rPd1 3 = ⟨0, 1, 0, true, false⟩ := by
  simp [rPd1, PD.upd, LP.setXY, rPd, LP.unset]

theorem aiExecute_eval :
    aiExecute 1 rLt rKeys false 0 rCls {} rSt = (⟨true, true⟩, ⟨rPd1, [none, some 0], [], salDefault⟩) := by
  simp [aiExecute, rSt, copyHorizontal_eval, acCalculation_eval, aiLoop, rPd1_3]

/-- AcordIntersection::execute on the network: X = (0, 1) is published, `missing_xy_` is emptied, the strategy
    reports completed -/
theorem rEval :
    ((aiExecute 1 rLt rKeys false 0 rCls {} rSt).2.pd 3).bxy = true ∧
    ((aiExecute 1 rLt rKeys false 0 rCls {} rSt).2.pd 3).x = 0 ∧
    ((aiExecute 1 rLt rKeys false 0 rCls {} rSt).2.pd 3).y = 1 ∧
    (aiExecute 1 rLt rKeys false 0 rCls {} rSt).2.missXY = [] ∧
    (aiExecute 1 rLt rKeys false 0 rCls {} rSt).1.completed = true := by
  rw [aiExecute_eval]
  simp only [rPd1_3, and_self]

end Gama.C06RD
