/-
  C06 — obligations (d) and (e) of `aiMono` (list in the header of `Lemmas/C06PointMono.lean`), round 13:

  (d) `necessaryObs` counts, saturating at 2, the observations of `SM` that name the id (`from`/`to` once, the foresight of an
      angle once more): `necessaryObs_eq`; hence it is MONOTONE in the list (`necessaryObs_mono`, sub-lists);
      `findMissing` has the members "an id of `SM` or of the point list, without xy" (`mem_findMissing`): monotone in the
      observations and the point list (`findMissing_mono`), antitone in the known set (`findMissing_anti`);
      `solvableData` is monotone in the known unselected points (`solvableData_mono`).
  (e) the start invariant `MissInv` (a point of the network without xy is in `missing_xy_`) is kept by `aiLoop` and by
      `aiExecute` (`aiLoop_missInv`, `aiExecute_missInv`) — for ARBITRARY data.
-/
import Gama.Lemmas.C06Glue
open Gama Gama.Cogo Gama.Median Gama.C06R Gama.C06L Gama.Acord Gama.C06A Gama.Inter
namespace Gama.C06DE
variable {ι : Type} [DecidableEq ι]

/-! ### (d) `necessary_observations` -/

/-- how often an element of `SM` names `id`: `from()`/`to()` once, `fs()` of an angle once more -/
def hits (id : ι) (e : SMo ι ℝ) : Nat :=
  (if e.o.from' = id ∨ e.o.to' = id then 1 else 0) +
  (match e.o with
   | .angle _ _ f _ => if f = id then 1 else 0
   | _ => 0)

/-- the two flags after `c` hits -/
def enc (c : Nat) : Bool × Bool := (decide (1 ≤ c), decide (2 ≤ c))

/-- the body of the walk -/
def nstep (id : ι) (fs : Bool × Bool) (e : SMo ι ℝ) : Bool × Bool :=
  if fs.2 then fs
  else
    let tmp := decide (e.o.from' = id) || decide (e.o.to' = id)
    let fs : Bool × Bool := if fs.1 then (fs.1, tmp) else (tmp, fs.2)
    match e.o with
    | .angle _ _ f _ => if f = id then (if fs.1 then (fs.1, true) else (true, fs.2)) else fs
    | _ => fs

theorem necessaryObs_fold (sm : List (SMo ι ℝ)) (id : ι) :
    necessaryObs sm id = (sm.foldl (nstep id) (false, false)).2 := by
  unfold necessaryObs
  congr 2
  funext fs e
  unfold nstep
  rcases e with ⟨cl, o⟩
  cases o <;> rfl

set_option hygiene false in
local macro "ft_case" : tactic =>
  `(tactic| (by_cases h1 : f = id <;> by_cases h2 : t = id <;>
      simp [nstep, enc, hits, HObs.from', HObs.to', h1, h2]))

set_option hygiene false in
local macro "ang_case" : tactic =>
  `(tactic| (by_cases h1 : f = id <;> by_cases h2 : t = id <;> by_cases h3 : g = id <;>
      simp [nstep, enc, hits, HObs.from', HObs.to', h1, h2, h3]))

theorem nstep_enc (id : ι) (c : Nat) (e : SMo ι ℝ) : nstep id (enc c) e = enc (c + hits id e) := by
  rcases e with ⟨cl, o⟩
  rcases c with _ | _ | c
  · cases o with
    | direction f t v => ft_case
    | distance f t v => ft_case
    | angle f t g v => ang_case
    | azimuth f t v => ft_case
    | sdistance f t v a b => ft_case
    | zangle f t v => ft_case
  · cases o with
    | direction f t v => ft_case
    | distance f t v => ft_case
    | angle f t g v => ang_case
    | azimuth f t v => ft_case
    | sdistance f t v a b => ft_case
    | zangle f t v => ft_case
  · have h2 : enc (c + 1 + 1) = (true, true) := by simp [enc]
    have h3 : enc (c + 1 + 1 + hits id ⟨cl, o⟩) = (true, true) := by simp [enc]; omega
    rw [h2, h3]; simp [nstep]

theorem fold_enc (id : ι) (sm : List (SMo ι ℝ)) : ∀ c, sm.foldl (nstep id) (enc c) = enc (c + (sm.map (hits id)).sum) := by
  induction sm with
  | nil => intro c; simp
  | cons e t ih => intro c; simp only [List.foldl_cons, nstep_enc, ih, List.map_cons, List.sum_cons]; congr 1; omega

/-- **`necessary_observations(id)` ⇔ at least two hits** -/
theorem necessaryObs_eq (sm : List (SMo ι ℝ)) (id : ι) : necessaryObs sm id = decide (2 ≤ (sm.map (hits id)).sum) := by
  rw [necessaryObs_fold]
  have := fold_enc id sm 0
  have e0 : enc 0 = (false, false) := by simp [enc]
  rw [e0] at this
  rw [this]; simp [enc]

/-- (d) monotone in the observation list -/
theorem necessaryObs_mono {sm sm' : List (SMo ι ℝ)} (h : sm.Sublist sm') (id : ι) (hn : necessaryObs sm id = true) :
    necessaryObs sm' id = true := by
  rw [necessaryObs_eq] at hn ⊢
  have hle : (sm.map (hits id)).sum ≤ (sm'.map (hits id)).sum := (h.map (hits id)).sum_le_sum (fun _ _ => Nat.zero_le _)
  simp only [decide_eq_true_eq] at hn ⊢
  omega

/-! ### (d) `find_missing_coordinates` -/

theorem mem_insertId (lt : ι → ι → Bool) (a i : ι) (l : List ι) : i ∈ insertId lt a l ↔ i = a ∨ i ∈ l := by
  induction l with
  | nil => simp [insertId]
  | cons b t ih =>
    unfold insertId
    split_ifs
    · simp only [List.mem_cons, ih]; tauto
    · simp only [List.mem_cons]

theorem mem_dedup_iff (l : List ι) (i : ι) : i ∈ dedup l ↔ i ∈ l :=
  ⟨C06A.mem_dedup l i, C06M.mem_dedup_of_mem l i⟩

theorem mem_sortIds (lt : ι → ι → Bool) (l : List ι) (i : ι) : i ∈ sortIds lt l ↔ i ∈ l := by
  unfold sortIds
  rw [← mem_dedup_iff l i]
  generalize dedup l = d
  induction d with
  | nil => simp
  | cons a t ih => simp only [List.foldr_cons, mem_insertId, ih, List.mem_cons]

/-- the members of `find_missing_coordinates`: ids named by `SM` or ids of the point list, without xy -/
theorem mem_findMissing (lt : ι → ι → Bool) (keys : List ι) (pd : PD ι ℝ) (sm : List (SMo ι ℝ)) (i : ι) :
    i ∈ findMissing lt keys pd sm ↔ (i ∈ (sm.map (fun e => obsIds e.o)).flatten ∨ i ∈ keys) ∧ (pd i).bxy = false := by
  unfold findMissing
  rw [mem_sortIds, List.mem_filter, List.mem_append]
  simp

/-- (d) monotone in the observations and in the point list … -/
theorem findMissing_mono (lt : ι → ι → Bool) {keys keys' : List ι} (pd : PD ι ℝ) {sm sm' : List (SMo ι ℝ)}
    (hk : ∀ i ∈ keys, i ∈ keys') (hs : ∀ e ∈ sm, e ∈ sm') (i : ι) (h : i ∈ findMissing lt keys pd sm) :
    i ∈ findMissing lt keys' pd sm' := by
  rw [mem_findMissing] at h ⊢
  refine ⟨?_, h.2⟩
  rcases h.1 with h1 | h1
  · left
    simp only [List.mem_flatten, List.mem_map] at h1 ⊢
    obtain ⟨l, ⟨e, he, rfl⟩, hi⟩ := h1
    exact ⟨_, ⟨e, hs e he, rfl⟩, hi⟩
  · exact Or.inr (hk i h1)

/-- … and antitone in the known set: what is missing when more is known was missing when less was known -/
theorem findMissing_anti (lt : ι → ι → Bool) (keys : List ι) {pd pd' : PD ι ℝ} (sm : List (SMo ι ℝ))
    (hpd : C06G.KXY pd pd') (i : ι) (h : i ∈ findMissing lt keys pd' sm) : i ∈ findMissing lt keys pd sm := by
  rw [mem_findMissing] at h ⊢
  refine ⟨h.1, ?_⟩
  cases hb : (pd i).bxy
  · rfl
  · have := hpd i hb; rw [h.2] at this; cases this

/-! ### (e) the start invariant -/

/-- a point of the network without xy is in `missing_xy_` -/
def MissInv (keys : List ι) (st : AiState ι ℝ) : Prop := ∀ i ∈ keys, (st.pd i).bxy = false → i ∈ st.missXY

theorem missInv_of_kxy (keys : List ι) (st : AiState ι ℝ) (pd' : PD ι ℝ) (h : MissInv keys st) (hk : C06G.KXY st.pd pd')
    (i : ι) (hi : i ∈ keys) (hb : (pd' i).bxy = false) : i ∈ st.missXY ∧ (st.pd i).bxy = false := by
  have h0 : (st.pd i).bxy = false := by
    cases hb0 : (st.pd i).bxy
    · rfl
    · have := hk i hb0; rw [hb] at this; cases this
  exact ⟨h i hi h0, h0⟩

/-- (e) one turn of `for (loop = 1; loop <= 2; loop++)` keeps the invariant (ARBITRARY data) -/
theorem aiLoop_missInv (fuel : Nat) (lt : ι → ι → Bool) (keys : List ι) (extra : Bool) (xN : ℝ)
    (cls : List (Cl ι ℝ)) (st : AiState ι ℝ) (h : MissInv keys st) :
    MissInv keys (aiLoop fuel lt keys extra xN cls st).1 := by
  have hk := (C06G.aiLoop_keeps fuel lt keys extra xN cls st).kxy
  intro i hi hb
  obtain ⟨hm, h0⟩ := missInv_of_kxy keys st _ h hk i hi hb
  have hmem : i ∈ st.missXY.filter (fun i => !(st.pd i).bxy) := List.mem_filter.mpr ⟨hm, by simp [h0]⟩
  unfold aiLoop
  dsimp only
  split_ifs <;> exact hmem

/-- (e) `AcordIntersection::execute` keeps the invariant (ARBITRARY data) -/
theorem aiExecute_missInv (fuel : Nat) (lt : ι → ι → Bool) (keys : List ι) (extra : Bool) (xN : ℝ)
    (cls : List (Cl ι ℝ)) (alg : AiAlg) (st : AiState ι ℝ) (h : MissInv keys st) :
    MissInv keys (aiExecute fuel lt keys extra xN cls alg st).2 := by
  have c : MissInv keys { st with
      pd := (acCalculation fuel lt keys extra st.sal (copyHorizontal cls) ⟨st.pd, st.oris⟩).pd,
      oris := (acCalculation fuel lt keys extra st.sal (copyHorizontal cls) ⟨st.pd, st.oris⟩).oris } := by
    intro i hi hb
    exact (missInv_of_kxy keys st _ h (C06G.acCalculation_kxy _ _ _ _ _ _ ⟨st.pd, st.oris⟩) i hi hb).1
  unfold aiExecute
  dsimp only
  split_ifs
  all_goals first | exact h | skip
  all_goals first
    | exact aiLoop_missInv fuel lt keys extra xN cls _ c
    | exact aiLoop_missInv fuel lt keys extra xN cls _ (aiLoop_missInv fuel lt keys extra xN cls _ c)

/-! ### (d) `solvable_data` -/

theorem dedup_nodup (l : List ι) : (dedup l).Nodup := by
  induction l with
  | nil => exact List.nodup_nil
  | cons i t ih =>
    unfold dedup
    refine List.nodup_cons.2 ⟨?_, ih.filter _⟩
    intro h
    have := (List.mem_filter.mp h).2
    simp at this

/-- (d) `solvable_data` is monotone in the known, unselected points of the list (more ids, more known, fewer selected) -/
theorem solvableData_mono {keys keys' : List ι} {pd pd' : PD ι ℝ} {sel sel' : List ι} {extra extra' : Bool}
    (hk : ∀ i ∈ keys, (pd i).bxy = true → i ∉ sel → i ∈ keys' ∧ (pd' i).bxy = true ∧ i ∉ sel')
    (he : extra = true → extra' = true) (h : solvableData keys pd sel extra = true) :
    solvableData keys' pd' sel' extra' = true := by
  have hsub : (dedup keys).filter (fun i => (pd i).bxy && !sel.contains i) ⊆
      (dedup keys').filter (fun i => (pd' i).bxy && !sel'.contains i) := by
    intro i hi
    obtain ⟨h1, h2⟩ := List.mem_filter.mp hi
    simp only [Bool.and_eq_true, Bool.not_eq_true', List.contains_eq_mem, decide_eq_false_iff_not] at h2
    obtain ⟨a, b, c⟩ := hk i ((mem_dedup_iff keys i).1 h1) h2.1 h2.2
    refine List.mem_filter.mpr ⟨(mem_dedup_iff keys' i).2 a, ?_⟩
    simp [b, c]
  have hle := (List.subperm_of_subset ((dedup_nodup keys).filter _) hsub).length_le
  unfold solvableData at h ⊢
  simp only [Bool.or_eq_true, decide_eq_true_eq, Bool.and_eq_true] at h ⊢
  rcases h with h | ⟨h, hx⟩
  · left; omega
  · by_cases h2 : 2 ≤ ((dedup keys').filter (fun i => (pd' i).bxy && !sel'.contains i)).length
    · left; exact h2
    · right; exact ⟨by omega, he hx⟩

end Gama.C06DE
